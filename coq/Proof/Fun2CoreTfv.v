(* Membership lemmas for core_lang's TypedFreeVars as modelled in Model/Fun2Core.v ([tfv_*], a sorted
   list standing for BTreeSet<ContextBinding>).  Only what the simulation proof needs:
   - [In b (tfv_X x vars) <-> In b vars \/ In b (tfv_X x [])]   (the accumulator is transparent)
   - one equation per constructor, in terms of [In]
   - a binder removes at most the IDENTICAL binding, and everything else stays.
   No sortedness is needed for any of these. *)
From Coq Require Import List ZArith NArith String Bool Lia.
From SCC Require Import Base.Sexp Lang.SynUtil Lang.CoreSyn Proof.CoreInd.
From SCC Require Import Lang.FunSyn Lang.FunTy Model.Fun2Core.
Import ListNotations.
Open Scope list_scope.

Lemma cident_compare_eq : forall a b, cident_compare a b = Eq -> a = b.
Proof.
  intros [a1 a2] [b1 b2]. unfold cident_compare. simpl.
  destruct (String.compare a1 b1) eqn:E; try discriminate.
  intros H. apply String.compare_eq_iff in E. apply N.compare_eq in H. subst. reflexivity.
Qed.
Lemma cchi_compare_eq : forall a b, cchi_compare a b = Eq -> a = b.
Proof. intros [|] [|]; simpl; intros H; congruence. Qed.
Lemma cty_compare_eq : forall a b, cty_compare a b = Eq -> a = b.
Proof.
  intros [|x] [|y]; simpl; intros H; try congruence. apply cident_compare_eq in H. subst. reflexivity.
Qed.
Lemma cbinding_compare_eq : forall a b, cbinding_compare a b = Eq -> a = b.
Proof.
  intros [a1 a2 a3] [b1 b2 b3]. unfold cbinding_compare. simpl.
  destruct (cident_compare a1 b1) eqn:E1; try discriminate.
  destruct (cchi_compare a2 b2) eqn:E2; try discriminate.
  intros E3. apply cident_compare_eq in E1. apply cchi_compare_eq in E2. apply cty_compare_eq in E3.
  subst. reflexivity.
Qed.

Lemma In_bset_insert : forall b x s, In b (bset_insert x s) <-> b = x \/ In b s.
Proof.
  intros b x s. induction s as [|y r IH]; simpl.
  - split; [intros [H|[]]; left; auto | intros [H|[]]; left; auto].
  - destruct (cbinding_compare x y) eqn:E; simpl.
    + apply cbinding_compare_eq in E. subst y. split; [intros H; right; exact H|].
      intros [H|H]; [left; auto | exact H].
    + split; [intros [H|H]; [left; auto | right; exact H] | intros [H|H]; [left; auto | right; exact H]].
    + rewrite IH. split.
      * intros [H|[H|H]]; auto.
      * intros [H|[H|H]]; auto.
Qed.

Lemma In_bset_remove_1 : forall b x s, In b (bset_remove x s) -> In b s.
Proof.
  intros b x s. induction s as [|y r IH]; simpl; [auto|].
  destruct (cbinding_compare x y); simpl; intros H; auto.
  destruct H as [H|H]; auto.
Qed.
Lemma In_bset_remove_2 : forall b x s, In b s -> b <> x -> In b (bset_remove x s).
Proof.
  intros b x s. induction s as [|y r IH]; simpl; [auto|].
  intros Hin Hne. destruct (cbinding_compare x y) eqn:E; simpl.
  - apply cbinding_compare_eq in E. subst y. destruct Hin as [H|H]; [congruence | exact H].
  - exact Hin.
  - destruct Hin as [H|H]; [left; exact H | right; apply IH; assumption].
Qed.

Lemma In_bset_union : forall b c a, In b (bset_union a c) <-> In b a \/ In b c.
Proof.
  intros b c. unfold bset_union. induction c as [|x r IH]; intros a; simpl.
  - intuition (try congruence; auto).
  - rewrite IH, In_bset_insert. split.
    + intros [[H|H]|H]; auto.
    + intros [H|[H|H]]; auto.
Qed.

Lemma In_remove_ctx_1 : forall b ctx s, In b (fold_left (fun acc x => bset_remove x acc) ctx s) -> In b s.
Proof.
  intros b ctx. induction ctx as [|x r IH]; intros s; simpl; [auto|].
  intros H. apply IH in H. eapply In_bset_remove_1; exact H.
Qed.
Lemma In_remove_ctx_2 : forall b ctx s,
  In b s -> ~ In b ctx -> In b (fold_left (fun acc x => bset_remove x acc) ctx s).
Proof.
  intros b ctx. induction ctx as [|x r IH]; intros s Hin Hn; simpl; [exact Hin|].
  apply IH; [|intros H; apply Hn; right; exact H].
  apply In_bset_remove_2; [exact Hin|]. intros E. apply Hn. left. symmetry. exact E.
Qed.

(* the nested list traversals *)
Definition tfv_args (l : list carg) (vars : bset) : bset :=
  (fix go (l : list carg) (vars : bset) : bset :=
     match l with [] => vars | y :: r => go r (tfv_arg y vars) end) l vars.
Definition tfv_clauses (l : list cclause) (vars : bset) : bset :=
  (fix go (l : list cclause) (vars : bset) : bset :=
     match l with [] => vars | y :: r => go r (tfv_clause y vars) end) l vars.
Lemma tfv_args_cons : forall y r vars, tfv_args (y :: r) vars = tfv_args r (tfv_arg y vars).
Proof. reflexivity. Qed.
Lemma tfv_clauses_cons : forall y r vars, tfv_clauses (y :: r) vars = tfv_clauses r (tfv_clause y vars).
Proof. reflexivity. Qed.

Lemma tfv_args_acc_gen : forall l,
  Forall (fun a => forall b vars, In b (tfv_arg a vars) <-> In b vars \/ In b (tfv_arg a [])) l ->
  forall b vars, In b (tfv_args l vars) <-> In b vars \/ In b (tfv_args l []).
Proof.
  intros l H. induction H as [|a r Ha Hr IH]; intros b vars.
  - simpl. intuition (try congruence; auto).
  - rewrite !tfv_args_cons. rewrite IH. rewrite (IH b (tfv_arg a [])). rewrite Ha. intuition (try congruence; auto).
Qed.
Lemma tfv_clauses_acc_gen : forall l,
  Forall (fun a => forall b vars, In b (tfv_clause a vars) <-> In b vars \/ In b (tfv_clause a [])) l ->
  forall b vars, In b (tfv_clauses l vars) <-> In b vars \/ In b (tfv_clauses l []).
Proof.
  intros l H. induction H as [|a r Ha Hr IH]; intros b vars.
  - simpl. intuition (try congruence; auto).
  - rewrite !tfv_clauses_cons. rewrite IH. rewrite (IH b (tfv_clause a [])). rewrite Ha. intuition (try congruence; auto).
Qed.

Lemma tfv_acc :
  (forall t b vars, In b (tfv_term t vars) <-> In b vars \/ In b (tfv_term t [])) /\
  (forall a b vars, In b (tfv_arg a vars) <-> In b vars \/ In b (tfv_arg a [])) /\
  (forall c b vars, In b (tfv_clause c vars) <-> In b vars \/ In b (tfv_clause c [])) /\
  (forall s b vars, In b (tfv_stmt s vars) <-> In b vars \/ In b (tfv_stmt s [])).
Proof.
  apply core_mutind.
  - intros c v t b vars. simpl. rewrite In_bset_insert. simpl. intuition (try congruence; auto).
  - intros n b vars. simpl. intuition (try congruence; auto).
  - intros a o b0 IHa IHb b vars. simpl. rewrite IHb, IHa. rewrite (IHb b (tfv_term a [])). intuition (try congruence; auto).
  - intros c v s t IHs b vars. simpl. rewrite !In_bset_union. simpl. intuition (try congruence; auto).
  - intros c x args t H b vars. change (tfv_term (CXtor c x args t) vars) with (tfv_args args vars).
    change (tfv_term (CXtor c x args t) []) with (tfv_args args []). apply tfv_args_acc_gen. exact H.
  - intros c cls t H b vars. change (tfv_term (CXCase c cls t) vars) with (tfv_clauses cls vars).
    change (tfv_term (CXCase c cls t) []) with (tfv_clauses cls []). apply tfv_clauses_acc_gen. exact H.
  - intros p IH b vars. simpl. apply IH.
  - intros k IH b vars. simpl. apply IH.
  - intros c x ctx body IH b vars. simpl. rewrite !In_bset_union. simpl. intuition (try congruence; auto).
  - intros p t k IHp IHk b vars. simpl. rewrite IHk, IHp. rewrite (IHk b (tfv_term p [])). intuition (try congruence; auto).
  - intros so a b0 t e IHa IHb IHt IHe b vars. simpl.
    rewrite IHe, IHt. rewrite (IHe b (tfv_stmt t _)). rewrite (IHt b (match b0 with Some b' => tfv_term b' (tfv_term a []) | None => tfv_term a [] end)).
    destruct b0 as [b'|]; simpl in IHb.
    + rewrite IHb, IHa. rewrite (IHb b (tfv_term a [])). intuition (try congruence; auto).
    + rewrite IHa. intuition (try congruence; auto).
  - intros nl a next IHa IHn b vars. simpl. rewrite IHn, IHa. rewrite (IHn b (tfv_term a [])). intuition (try congruence; auto).
  - intros f args t H b vars. change (tfv_stmt (CCall f args t) vars) with (tfv_args args vars).
    change (tfv_stmt (CCall f args t) []) with (tfv_args args []). apply tfv_args_acc_gen. exact H.
  - intros a t IH b vars. simpl. apply IH.
Qed.

Definition tfv_term_acc := proj1 tfv_acc.
Definition tfv_arg_acc := proj1 (proj2 tfv_acc).
Definition tfv_clause_acc := proj1 (proj2 (proj2 tfv_acc)).
Definition tfv_stmt_acc := proj2 (proj2 (proj2 tfv_acc)).

Lemma tfv_args_acc : forall l b vars, In b (tfv_args l vars) <-> In b vars \/ In b (tfv_args l []).
Proof. intros l. apply tfv_args_acc_gen. apply Forall_forall. intros a _. apply tfv_arg_acc. Qed.
Lemma tfv_clauses_acc : forall l b vars, In b (tfv_clauses l vars) <-> In b vars \/ In b (tfv_clauses l []).
Proof. intros l. apply tfv_clauses_acc_gen. apply Forall_forall. intros a _. apply tfv_clause_acc. Qed.

(* ---------- one equation per constructor ---------- *)
Definition fvt (t : cterm) : bset := tfv_term t [].
Definition fvs (s : cstmt) : bset := tfv_stmt s [].
Definition fva (l : list carg) : bset := tfv_args l [].
Definition fvc (l : list cclause) : bset := tfv_clauses l [].

Lemma fvt_var : forall b c v ty, In b (fvt (CXVar c v ty)) <-> b = mkcb v c ty.
Proof. intros. unfold fvt. simpl. intuition (try congruence; auto). Qed.
Lemma fvt_lit : forall b n, In b (fvt (CLit n)) <-> False.
Proof. intros. unfold fvt. simpl. intuition (try congruence; auto). Qed.
Lemma fvt_op : forall b x o y, In b (fvt (COp x o y)) <-> In b (fvt x) \/ In b (fvt y).
Proof. intros. unfold fvt. simpl. rewrite tfv_term_acc. intuition (try congruence; auto). Qed.
Lemma fvt_mu_1 : forall b c v s ty, In b (fvt (CMu c v s ty)) -> In b (fvs s).
Proof.
  intros b c v s ty H. unfold fvt in H. simpl in H. apply In_bset_union in H. destruct H as [[]|H].
  eapply In_bset_remove_1. exact H.
Qed.
Lemma fvt_mu_2 : forall b c v s ty, In b (fvs s) -> b <> mkcb v (flip_chi c) ty -> In b (fvt (CMu c v s ty)).
Proof.
  intros b c v s ty H Hne. unfold fvt. simpl. apply In_bset_union. right. apply In_bset_remove_2; assumption.
Qed.
Lemma fvt_xtor : forall b c x args ty, In b (fvt (CXtor c x args ty)) <-> In b (fva args).
Proof. intros. reflexivity. Qed.
Lemma fvt_xcase : forall b c cls ty, In b (fvt (CXCase c cls ty)) <-> In b (fvc cls).
Proof. intros. reflexivity. Qed.

Lemma fva_nil : forall b, In b (fva []) <-> False.
Proof. intros. unfold fva. simpl. intuition (try congruence; auto). Qed.
Lemma fva_cons : forall b a r, In b (fva (a :: r)) <->
  In b (match a with CProducer p => fvt p | CConsumer k => fvt k end) \/ In b (fva r).
Proof.
  intros b a r. unfold fva. rewrite tfv_args_cons, tfv_args_acc. destruct a; simpl; intuition (try congruence; auto).
Qed.
Lemma fva_app : forall b l1 l2, In b (fva (l1 ++ l2)) <-> In b (fva l1) \/ In b (fva l2).
Proof.
  intros b l1 l2. induction l1 as [|a r IH]; simpl.
  - split; [intros H; right; exact H | intros [H|H]; [apply fva_nil in H; contradiction | exact H]].
  - rewrite !fva_cons, IH. intuition (try congruence; auto).
Qed.

Lemma fvc_nil : forall b, In b (fvc []) <-> False.
Proof. intros. unfold fvc. simpl. intuition (try congruence; auto). Qed.
Lemma fvc_cons_1 : forall b c x ctx body r, In b (fvc (CClause c x ctx body :: r)) ->
  In b (fvs body) \/ In b (fvc r).
Proof.
  intros b c x ctx body r H. unfold fvc in H. rewrite tfv_clauses_cons, tfv_clauses_acc in H.
  destruct H as [H|H]; [|right; exact H]. simpl in H. apply In_bset_union in H. destruct H as [[]|H].
  left. eapply In_remove_ctx_1. exact H.
Qed.
Lemma fvc_cons_body : forall b c x ctx body r, In b (fvs body) -> ~ In b ctx ->
  In b (fvc (CClause c x ctx body :: r)).
Proof.
  intros b c x ctx body r H Hn. unfold fvc. rewrite tfv_clauses_cons, tfv_clauses_acc. left.
  simpl. apply In_bset_union. right. apply In_remove_ctx_2; assumption.
Qed.
Lemma fvc_cons_tail : forall b cl r, In b (fvc r) -> In b (fvc (cl :: r)).
Proof. intros b cl r H. unfold fvc. rewrite tfv_clauses_cons, tfv_clauses_acc. right. exact H. Qed.

Lemma fvs_cut : forall b p ty k, In b (fvs (CCut p ty k)) <-> In b (fvt p) \/ In b (fvt k).
Proof. intros. unfold fvs, fvt. simpl. rewrite tfv_term_acc. intuition (try congruence; auto). Qed.
Lemma fvs_ifc : forall b so x y t e, In b (fvs (CIfC so x y t e)) <->
  In b (fvt x) \/ In b (match y with Some y' => fvt y' | None => [] end) \/ In b (fvs t) \/ In b (fvs e).
Proof.
  intros. unfold fvs, fvt. simpl. rewrite tfv_stmt_acc. rewrite (tfv_stmt_acc t).
  destruct y as [y'|]; simpl.
  - rewrite tfv_term_acc. intuition (try congruence; auto).
  - intuition (try congruence; auto).
Qed.
Lemma fvs_print : forall b nl x next, In b (fvs (CPrint nl x next)) <-> In b (fvt x) \/ In b (fvs next).
Proof. intros. unfold fvs, fvt. simpl. rewrite tfv_stmt_acc. intuition (try congruence; auto). Qed.
Lemma fvs_call : forall b f args ty, In b (fvs (CCall f args ty)) <-> In b (fva args).
Proof. intros. reflexivity. Qed.
Lemma fvs_exit : forall b x ty, In b (fvs (CExit x ty)) <-> In b (fvt x).
Proof. intros. reflexivity. Qed.

(* arguments made from bindings (share): their free variables are the bindings *)
Lemma fva_arg_of_binding : forall b bs, In b (fva (map arg_of_binding bs)) <-> In b bs.
Proof.
  intros b bs. induction bs as [|x r IH]; simpl.
  - split; [intros H; apply fva_nil in H; contradiction | intros []].
  - rewrite fva_cons, IH. unfold arg_of_binding. destruct x as [v c ty]. simpl.
    destruct c; rewrite fvt_var; simpl; split; intros [H|H]; auto.
Qed.

(* ====================================================================================
   Strict sortedness: the lists produced by tfv_* are strictly increasing w.r.t. the derived Ord, so
   removing a binding really removes it (exactness of [bset_remove]).
   ==================================================================================== *)
From Coq Require Import Sorted OrderedTypeEx.

Lemma string_compare_trans : forall a b c, String.compare a b = Lt -> String.compare b c = Lt -> String.compare a c = Lt.
Proof.
  intros a b c H1 H2. apply String_as_OT.cmp_lt. apply String_as_OT.cmp_lt in H1. apply String_as_OT.cmp_lt in H2.
  eapply String_as_OT.lt_trans; eauto.
Qed.
Lemma string_compare_refl : forall a, String.compare a a = Eq.
Proof. intros a. apply (proj2 (String_as_OT.cmp_eq a a)). reflexivity. Qed.

Lemma cident_compare_refl : forall a, cident_compare a a = Eq.
Proof. intros [a1 a2]. unfold cident_compare. simpl. rewrite string_compare_refl. apply N.compare_refl. Qed.
Lemma cident_compare_trans : forall a b c, cident_compare a b = Lt -> cident_compare b c = Lt -> cident_compare a c = Lt.
Proof.
  intros [a1 a2] [b1 b2] [c1 c2]. unfold cident_compare. simpl.
  destruct (String.compare a1 b1) eqn:E1; try discriminate;
  destruct (String.compare b1 c1) eqn:E2; try discriminate; intros H1 H2.
  - apply String_as_OT.cmp_eq in E1. apply String_as_OT.cmp_eq in E2. subst. rewrite string_compare_refl.
    apply N.compare_lt_iff in H1. apply N.compare_lt_iff in H2. apply N.compare_lt_iff.
    eapply N.lt_trans; eassumption.
  - apply String_as_OT.cmp_eq in E1. subst. rewrite E2. reflexivity.
  - apply String_as_OT.cmp_eq in E2. subst. rewrite E1. reflexivity.
  - rewrite (string_compare_trans _ _ _ E1 E2). reflexivity.
Qed.
Lemma cchi_compare_refl : forall a, cchi_compare a a = Eq.
Proof. intros [|]; reflexivity. Qed.
Lemma cchi_compare_trans : forall a b c, cchi_compare a b = Lt -> cchi_compare b c = Lt -> cchi_compare a c = Lt.
Proof. intros [|] [|] [|]; simpl; congruence. Qed.
Lemma cty_compare_refl : forall a, cty_compare a a = Eq.
Proof. intros [|x]; simpl; [reflexivity | apply cident_compare_refl]. Qed.
Lemma cty_compare_trans : forall a b c, cty_compare a b = Lt -> cty_compare b c = Lt -> cty_compare a c = Lt.
Proof. intros [|x] [|y] [|z]; simpl; try congruence. apply cident_compare_trans. Qed.

Lemma cbinding_compare_refl : forall a, cbinding_compare a a = Eq.
Proof.
  intros [a1 a2 a3]. unfold cbinding_compare. simpl.
  rewrite cident_compare_refl, cchi_compare_refl. apply cty_compare_refl.
Qed.
Lemma cbinding_compare_trans : forall a b c,
  cbinding_compare a b = Lt -> cbinding_compare b c = Lt -> cbinding_compare a c = Lt.
Proof.
  intros [a1 a2 a3] [b1 b2 b3] [c1 c2 c3]. unfold cbinding_compare. simpl.
  destruct (cident_compare a1 b1) eqn:E1; try discriminate;
  destruct (cident_compare b1 c1) eqn:E2; try discriminate.
  - apply cident_compare_eq in E1. apply cident_compare_eq in E2. subst. rewrite cident_compare_refl.
    destruct (cchi_compare a2 b2) eqn:F1; try discriminate;
    destruct (cchi_compare b2 c2) eqn:F2; try discriminate; intros H1 H2.
    + apply cchi_compare_eq in F1. apply cchi_compare_eq in F2. subst. rewrite cchi_compare_refl.
      eapply cty_compare_trans; eauto.
    + apply cchi_compare_eq in F1. subst. rewrite F2. reflexivity.
    + apply cchi_compare_eq in F2. subst. rewrite F1. reflexivity.
    + rewrite (cchi_compare_trans _ _ _ F1 F2). reflexivity.
  - intros _ _. apply cident_compare_eq in E1. subst. rewrite E2. reflexivity.
  - intros _ _. apply cident_compare_eq in E2. subst. rewrite E1. reflexivity.
  - intros _ _. rewrite (cident_compare_trans _ _ _ E1 E2). reflexivity.
Qed.
Lemma cident_compare_antisym : forall a b, cident_compare a b = CompOpp (cident_compare b a).
Proof.
  intros [a1 a2] [b1 b2]. unfold cident_compare. simpl.
  pose proof (String_as_OT.cmp_antisym a1 b1) as Ha. unfold String_as_OT.cmp in Ha. rewrite Ha.
  destruct (String.compare b1 a1); simpl; try reflexivity. apply N.compare_antisym.
Qed.
Lemma cbinding_compare_antisym : forall a b, cbinding_compare a b = CompOpp (cbinding_compare b a).
Proof.
  intros [a1 a2 a3] [b1 b2 b3]. unfold cbinding_compare. simpl. rewrite (cident_compare_antisym a1 b1).
  destruct (cident_compare b1 a1); simpl; try reflexivity.
  assert (Hc : cchi_compare a2 b2 = CompOpp (cchi_compare b2 a2)) by (destruct a2, b2; reflexivity).
  rewrite Hc. destruct (cchi_compare b2 a2); simpl; try reflexivity.
  destruct a3 as [|x], b3 as [|y]; simpl; try reflexivity. apply cident_compare_antisym.
Qed.

Definition blt (a b : cbinding) : Prop := cbinding_compare a b = Lt.
Definition bsorted (s : bset) : Prop := StronglySorted blt s.

Lemma bsorted_nil : bsorted [].
Proof. constructor. Qed.
Lemma bsorted_insert : forall x s, bsorted s -> bsorted (bset_insert x s).
Proof.
  intros x s H. induction H as [|y r Hr IH Hall]; simpl.
  - repeat constructor.
  - destruct (cbinding_compare x y) eqn:E.
    + constructor; assumption.
    + constructor; [constructor; assumption|]. constructor; [exact E|].
      rewrite Forall_forall in *. intros z Hz. eapply cbinding_compare_trans; [exact E | apply Hall; exact Hz].
    + constructor; [exact IH|]. rewrite Forall_forall in *. intros z Hz. apply In_bset_insert in Hz.
      destruct Hz as [Hz|Hz]; [|apply Hall; exact Hz]. subst z. unfold blt.
      rewrite cbinding_compare_antisym, E. reflexivity.
Qed.
Lemma bsorted_remove : forall x s, bsorted s -> bsorted (bset_remove x s).
Proof.
  intros x s H. induction H as [|y r Hr IH Hall]; simpl; [constructor|].
  destruct (cbinding_compare x y) eqn:E.
  - exact Hr.
  - constructor; assumption.
  - constructor; [exact IH|]. rewrite Forall_forall in *. intros z Hz. apply Hall. eapply In_bset_remove_1. exact Hz.
Qed.
Lemma bsorted_union : forall c a, bsorted a -> bsorted (bset_union a c).
Proof.
  unfold bset_union. induction c as [|x r IH]; intros a H; simpl; [exact H|]. apply IH. apply bsorted_insert. exact H.
Qed.
Lemma bsorted_remove_ctx : forall ctx s, bsorted s -> bsorted (fold_left (fun acc x => bset_remove x acc) ctx s).
Proof. induction ctx as [|x r IH]; intros s H; simpl; [exact H|]. apply IH. apply bsorted_remove. exact H. Qed.

Lemma blt_irrefl : forall a, ~ blt a a.
Proof. intros a H. unfold blt in H. rewrite cbinding_compare_refl in H. discriminate. Qed.

(* exactness of removal on sorted sets *)
Lemma In_bset_remove_3 : forall x s, bsorted s -> ~ In x (bset_remove x s).
Proof.
  intros x s H. induction H as [|y r Hr IH Hall]; simpl; [auto|].
  destruct (cbinding_compare x y) eqn:E.
  - apply cbinding_compare_eq in E. subst y. intros Hin. rewrite Forall_forall in Hall.
    exact (blt_irrefl _ (Hall _ Hin)).
  - intros [Hin|Hin]; [subst y; rewrite cbinding_compare_refl in E; discriminate|].
    rewrite Forall_forall in Hall. pose proof (Hall _ Hin) as Hlt. unfold blt in Hlt.
    rewrite cbinding_compare_antisym, E in Hlt. discriminate.
  - intros [Hin|Hin]; [subst y; rewrite cbinding_compare_refl in E; discriminate | exact (IH Hin)].
Qed.

Lemma tfv_args_sorted_gen : forall l,
  Forall (fun a => forall vars, bsorted vars -> bsorted (tfv_arg a vars)) l ->
  forall vars, bsorted vars -> bsorted (tfv_args l vars).
Proof.
  intros l H. induction H as [|a r Ha Hr IH]; intros vars Hs; [exact Hs|].
  rewrite tfv_args_cons. apply IH. apply Ha. exact Hs.
Qed.
Lemma tfv_clauses_sorted_gen : forall l,
  Forall (fun a => forall vars, bsorted vars -> bsorted (tfv_clause a vars)) l ->
  forall vars, bsorted vars -> bsorted (tfv_clauses l vars).
Proof.
  intros l H. induction H as [|a r Ha Hr IH]; intros vars Hs; [exact Hs|].
  rewrite tfv_clauses_cons. apply IH. apply Ha. exact Hs.
Qed.

Lemma tfv_sorted :
  (forall t vars, bsorted vars -> bsorted (tfv_term t vars)) /\
  (forall a vars, bsorted vars -> bsorted (tfv_arg a vars)) /\
  (forall c vars, bsorted vars -> bsorted (tfv_clause c vars)) /\
  (forall s vars, bsorted vars -> bsorted (tfv_stmt s vars)).
Proof.
  apply core_mutind.
  - intros c v t vars H. simpl. apply bsorted_insert. exact H.
  - intros n vars H. exact H.
  - intros a o b IHa IHb vars H. simpl. apply IHb. apply IHa. exact H.
  - intros c v s t IHs vars H. simpl. apply bsorted_union. exact H.
  - intros c x args t H vars Hs. change (tfv_term (CXtor c x args t) vars) with (tfv_args args vars).
    apply tfv_args_sorted_gen; assumption.
  - intros c cls t H vars Hs. change (tfv_term (CXCase c cls t) vars) with (tfv_clauses cls vars).
    apply tfv_clauses_sorted_gen; assumption.
  - intros p IH vars H. simpl. apply IH. exact H.
  - intros k IH vars H. simpl. apply IH. exact H.
  - intros c x ctx body IH vars H. simpl. apply bsorted_union. exact H.
  - intros p t k IHp IHk vars H. simpl. apply IHk. apply IHp. exact H.
  - intros so a b t e IHa IHb IHt IHe vars H. simpl. apply IHe. apply IHt.
    destruct b as [b'|]; simpl in IHb; [apply IHb|]; apply IHa; exact H.
  - intros nl a next IHa IHn vars H. simpl. apply IHn. apply IHa. exact H.
  - intros f args t H vars Hs. change (tfv_stmt (CCall f args t) vars) with (tfv_args args vars).
    apply tfv_args_sorted_gen; assumption.
  - intros a t IH vars H. simpl. apply IH. exact H.
Qed.
Lemma fvs_sorted : forall s, bsorted (fvs s).
Proof. intros s. apply (proj2 (proj2 (proj2 tfv_sorted))). apply bsorted_nil. Qed.

(* a mu-binder removes exactly its own binding *)
Lemma fvt_mu_3 : forall c v s ty, ~ In (mkcb v (flip_chi c) ty) (fvt (CMu c v s ty)).
Proof.
  intros c v s ty H. unfold fvt in H. simpl in H. apply In_bset_union in H. destruct H as [[]|H].
  exact (In_bset_remove_3 _ _ (fvs_sorted s) H).
Qed.
Lemma fvt_mu_iff : forall b c v s ty,
  In b (fvt (CMu c v s ty)) <-> In b (fvs s) /\ b <> mkcb v (flip_chi c) ty.
Proof.
  intros b c v s ty. split.
  - intros H. split; [eapply fvt_mu_1; exact H|]. intros E. subst b. exact (fvt_mu_3 _ _ _ _ H).
  - intros [H1 H2]. apply fvt_mu_2; assumption.
Qed.

(* a clause removes exactly its context *)
Lemma In_remove_ctx_3 : forall b ctx s, bsorted s -> In b ctx -> ~ In b (fold_left (fun acc x => bset_remove x acc) ctx s).
Proof.
  intros b ctx. induction ctx as [|x r IH]; intros s Hs Hin; simpl; [contradiction|].
  destruct Hin as [E|Hin].
  - subst x. intros H. apply In_remove_ctx_1 in H. exact (In_bset_remove_3 _ _ Hs H).
  - apply IH; [apply bsorted_remove; exact Hs | exact Hin].
Qed.
Lemma fvc_cons_iff : forall b c x ctx body r, In b (fvc (CClause c x ctx body :: r)) <->
  (In b (fvs body) /\ ~ In b ctx) \/ In b (fvc r).
Proof.
  intros b c x ctx body r. split.
  - intros H. unfold fvc in H. rewrite tfv_clauses_cons, tfv_clauses_acc in H.
    destruct H as [H|H]; [|right; exact H]. simpl in H. apply In_bset_union in H. destruct H as [[]|H].
    left. split; [eapply In_remove_ctx_1; exact H|]. intros Hc.
    exact (In_remove_ctx_3 _ _ _ (fvs_sorted body) Hc H).
  - intros [[H1 H2]|H]; [apply fvc_cons_body; assumption | apply fvc_cons_tail; exact H].
Qed.
