(* ======================================================================================
   Proof/FocusTyTop  -  `Prog::focus` (uniquify, then focus every definition) preserves typing (C12):
     wt_core c -> pre_check c -> xtor_tys_ok c -> names_le c -> focus_prog c = Ok f ->
     wt_fs f /\ unique_binders f /\ ids_bounded f /\ gub f.
   Typing: Proof/UqTyTop.v (uniquify) + Proof/FocusTy.v (focus); the binder conditions come from C03's
   specifications of the two passes (Proof/FocusTheorems.v: the binder ids of every output definition
   are pairwise distinct - globally, not only along paths - and all ids <= the new max_id).
   ====================================================================================== *)
From Coq Require Import List ZArith NArith String Bool Lia.
From SCC Require Import Base.Sexp Lang.SynUtil Lang.CoreSyn Sem.FsCheck Sem.CoreCheck Sem.FsFrag2
     Model.Backend Model.Uniquify Model.Focus Model.FocusCheck Model.FocusTyGuard Model.LinCheck
     Proof.CoreInd Proof.SubstProof Proof.CheckLemmas Proof.UniquifyProof Proof.FocusLemmas Proof.FocusProof Proof.PathLemmas
     Proof.FocusTheorems Proof.FocusKont Proof.FocusMono Proof.CoreTyRules Proof.FsTyRules Proof.FocusTy Proof.UqTyTop
     Proof.ShrinkProof Proof.WtPreserve Proof.LinBasics.
Import ListNotations.
Open Scope list_scope.
Open Scope N_scope.

(* ---------- the two spellings of "binder ids of a focused statement" ---------- *)
Lemma fs_binders_eq_all :
  (forall t, fs_binders_term t = fs_binder_ids_term t) /\
  (forall c, match c with FsClause _ _ ctx b => cids ctx ++ fs_binders b end = fs_binder_ids_clause c) /\
  (forall s, fs_binders s = fs_binder_ids_stmt s).
Proof.
  apply fs_mutind; intros; simpl; try reflexivity.
  - rewrite H. reflexivity.
  - induction H as [|[c0 x ctx b] r Hc _ IH]; simpl; [reflexivity|]. simpl in Hc. rewrite <- Hc, IH, app_assoc. reflexivity.
  - rewrite H. reflexivity.
  - rewrite H, H0. reflexivity.
  - rewrite H, H0. reflexivity.
  - exact H.
Qed.

(* ---------- global distinctness of binder ids gives path uniqueness (Sem/FsCheck.v's form) ---------- *)
Lemma fresh_ids_intro : forall xs scope, NoDup xs -> (forall x, In x xs -> ~ In x scope) -> fresh_ids scope xs = true.
Proof.
  induction xs as [|x r IH]; intros scope Hnd Hs; [reflexivity|]. simpl. inversion Hnd; subst.
  apply andb_true_iff. split.
  - apply negb_true_iff. destruct (mem_id x scope) eqn:E; [|reflexivity]. unfold mem_id in E. apply existsb_exists in E.
    destruct E as [y [Hy Ey]]. apply N.eqb_eq in Ey. subst y. exfalso. apply (Hs x); [left; reflexivity | exact Hy].
  - apply IH; [assumption|]. intros y Hy [<-|Hin]; [contradiction | apply (Hs y); [right; exact Hy | exact Hin]].
Qed.
Lemma in_rev_append : forall (X : Type) (l s : list X) x, In x (rev_append l s) <-> In x l \/ In x s.
Proof. intros. rewrite rev_append_rev, in_app_iff, <- in_rev. tauto. Qed.

Lemma ub_of_nodup_all :
  (forall t scope, NoDup (fs_binder_ids_term t) -> (forall i, In i (fs_binder_ids_term t) -> ~ In i scope) -> ub_term scope t = true) /\
  (forall c scope, NoDup (fs_binder_ids_clause c) -> (forall i, In i (fs_binder_ids_clause c) -> ~ In i scope) ->
     match c with FsClause _ _ ctx body => fresh_ids scope (cids ctx) && ub_stmt (rev_append (cids ctx) scope) body = true end) /\
  (forall s scope, NoDup (fs_binder_ids_stmt s) -> (forall i, In i (fs_binder_ids_stmt s) -> ~ In i scope) -> ub_stmt scope s = true).
Proof.
  apply fs_mutind; intros; simpl in *; try reflexivity.
  - (* Mu *) inversion H0; subst. apply andb_true_iff. split.
    + apply negb_true_iff. destruct (mem_id (cid_id v) scope) eqn:E; [|reflexivity]. unfold mem_id in E. apply existsb_exists in E.
      destruct E as [y [Hy Ey]]. apply N.eqb_eq in Ey. subst y. exfalso. apply (H1 (cid_id v)); [left; reflexivity | exact Hy].
    + apply H; [assumption|]. intros i Hi [<-|Hin]; [contradiction | apply (H1 i); [right; exact Hi | exact Hin]].
  - (* XCase *) induction H as [|[c0 x ctx b] r Hc _ IH]; [reflexivity|]. simpl in H0, H1.
    apply NoDup_app_iff in H0. destruct H0 as (N1 & N2 & N3).
    rewrite (Hc scope N1); [|intros i Hi; apply H1; apply in_or_app; left; exact Hi]. simpl.
    apply IH; [exact N2|]. intros i Hi. apply H1. apply in_or_app. right. exact Hi.
  - (* Clause *) apply NoDup_app_iff in H0. destruct H0 as (N1 & N2 & N3). apply andb_true_iff. split.
    + apply fresh_ids_intro; [exact N1|]. intros y Hy. apply H1. apply in_or_app. left. exact Hy.
    + apply H; [exact N2|]. intros i Hi Hin. apply in_rev_append in Hin. destruct Hin as [Hin|Hin].
      * exact (N3 i Hin Hi).
      * apply (H1 i); [apply in_or_app; right; exact Hi | exact Hin].
  - (* Cut *) apply NoDup_app_iff in H1. destruct H1 as (N1 & N2 & N3).
    rewrite H, H0; auto; intros i Hi; apply H2; apply in_or_app; auto.
  - (* IfC *) apply NoDup_app_iff in H1. destruct H1 as (N1 & N2 & N3).
    rewrite H, H0; auto; intros i Hi; apply H2; apply in_or_app; auto.
  - (* Print *) apply H; assumption.
Qed.

(* ---------- the two spellings of "all ids <= m" ---------- *)
Lemma ctx_le_cids : forall m args, forallb (fun i => N.leb i m) (cids args) = true -> ctx_le m args = true.
Proof. intros m args H. unfold ctx_le, id_le, cids in *. rewrite forallb_forall in *. intros b Hb. apply H. apply (in_map (fun b => cid_id (cbvar b))). exact Hb. Qed.
Definition ib_cls (m : N) : list fsclause -> bool :=
  fix go (cls : list fsclause) : bool :=
    match cls with [] => true | FsClause _ _ ctx body :: r => ctx_le m ctx && ib_stmt m body && go r end.
Lemma ib_xcase : forall m c cls t, ib_term m (FsXCase c cls t) = ib_cls m cls.
Proof. reflexivity. Qed.
Lemma ib_cls_cons : forall m c x ctx b r, ib_cls m (FsClause c x ctx b :: r) = ctx_le m ctx && ib_stmt m b && ib_cls m r.
Proof. reflexivity. Qed.
Lemma ib_of_ids_le_all : forall m,
  (forall t, fs_ids_le_term m t = true -> ib_term m t = true) /\
  (forall c, fs_ids_le_clause m c = true -> match c with FsClause _ _ ctx body => ctx_le m ctx && ib_stmt m body = true end) /\
  (forall s, fs_ids_le_stmt m s = true -> ib_stmt m s = true).
Proof.
  intros m. apply fs_mutind.
  - intros c v t H. exact H.
  - reflexivity.
  - intros a o b H. exact H.
  - intros c v s t IH H. cbn [fs_ids_le_term] in H. cbn [ib_term]. apply andb_true_iff in H. destruct H as [H1 H2].
    apply andb_true_iff. split; [exact H1 | exact (IH H2)].
  - intros c x args t H. cbn [fs_ids_le_term] in H. cbn [ib_term]. apply ctx_le_cids. exact H.
  - intros c cls t F H. cbn [fs_ids_le_term] in H. rewrite ib_xcase.
    induction F as [|[c0 x ctx b] r Hc _ IH]; [reflexivity|]. simpl in H. apply andb_true_iff in H. destruct H as [H1 H2].
    rewrite ib_cls_cons. rewrite (Hc H1). simpl. apply IH. exact H2.
  - intros c x ctx body IH H. cbn [fs_ids_le_clause] in H. apply andb_true_iff in H. destruct H as [H1 H2].
    apply andb_true_iff. split; [apply ctx_le_cids; exact H1 | exact (IH H2)].
  - intros p t k IHp IHk H. cbn [fs_ids_le_stmt] in H. cbn [ib_stmt]. apply andb_true_iff in H. destruct H as [H1 H2].
    apply andb_true_iff. split; [exact (IHp H1) | exact (IHk H2)].
  - intros so a b t e IHt IHe H. cbn [fs_ids_le_stmt] in H. cbn [ib_stmt].
    apply andb_true_iff in H. destruct H as [H He]. apply andb_true_iff in H. destruct H as [H Ht].
    apply andb_true_iff in H. destruct H as [Ha Hb].
    apply andb_true_iff. split; [|exact (IHe He)]. apply andb_true_iff. split; [|exact (IHt Ht)].
    apply andb_true_iff. split; [exact Ha | destruct b; exact Hb].
  - intros nl a next IHn H. cbn [fs_ids_le_stmt] in H. cbn [ib_stmt]. apply andb_true_iff in H. destruct H as [H1 H2].
    apply andb_true_iff. split; [exact H1 | exact (IHn H2)].
  - intros f args H. cbn [fs_ids_le_stmt] in H. cbn [ib_stmt]. apply ctx_le_cids. exact H.
  - intros a H. exact H.
Qed.

(* ---------- a typed focused statement respects the prdcns discipline ---------- *)
Section FsChi.
  Variables (data codata : list ctydecl) (fdefs : list fsdef).
  Lemma clauses_match_chi : forall side n cls xs, clauses_match side n cls xs = None ->
    forall cl, In cl cls -> match cl with FsClause c' _ _ _ => c' = side end.
  Proof.
    intros side n. induction cls as [|[c' x ctx body] cr IH]; intros xs H cl Hin; [contradiction|].
    destruct xs as [|sg xr]; [discriminate|]. cbn [clauses_match] in H.
    apply seqn in H. destruct H as [H1 H]. apply fens in H1. apply ceq_chi in H1.
    apply seqn in H. destruct H as [_ H]. apply seqn in H. destruct H as [_ H].
    destruct Hin as [<-|Hin]; [exact H1 | eapply IH; eassumption].
  Qed.
  Lemma fs_chi_cls_eq : forall c cls,
    (fix go (l : list fsclause) : bool := match l with [] => true | y :: r => chi_ok_fsclause c y && go r end) cls
    = forallb (chi_ok_fsclause c) cls.
  Proof. intros c. induction cls as [|a r IH]; simpl; [reflexivity | rewrite IH; reflexivity]. Qed.
  Lemma fs_typed_chi_all :
    (forall t G side ty, check_term data codata fdefs G side ty t = None -> chi_ok_fsterm side t = true) /\
    (forall c G, fclause_typed data codata fdefs G c -> match c with FsClause _ _ _ body => chi_ok_fsstmt body = true end) /\
    (forall s G, check_stmt data codata fdefs G s = None -> chi_ok_fsstmt s = true).
  Proof.
    apply fs_mutind.
    - intros c v t G side ty H. apply kt_var in H. destruct H as [-> _]. simpl. apply ceq_chi_refl.
    - reflexivity.
    - reflexivity.
    - intros c v s t IH G side ty H. apply kt_mu in H. destruct H as [-> [_ H]]. simpl. rewrite ceq_chi_refl, (IH _ H). reflexivity.
    - intros c x args t G side ty H. cbn [check_term] in H. apply seqn in H. destruct H as [H _]. apply fens in H. apply ceq_chi in H.
      subst. simpl. apply ceq_chi_refl.
    - intros c cls t F G side ty H. cbn [check_term] in H.
      apply seqn in H. destruct H as [H1 H]. apply fens in H1. apply ceq_chi in H1. subst c.
      apply seqn in H. destruct H as [_ H]. destruct ty as [|n]; [discriminate|].
      destruct (find_decl _ n) as [d|]; [|discriminate]. apply seqn in H. destruct H as [Hm Hc].
      apply (fclauses_loop_iff data codata fdefs G cls) in Hc.
      cbn [chi_ok_fsterm]. rewrite ceq_chi_refl, fs_chi_cls_eq. simpl. apply forallb_forall. intros cl Hin.
      rewrite Forall_forall in F, Hc. pose proof (clauses_match_chi _ _ _ _ Hm cl Hin) as Hchi.
      pose proof (F cl Hin G (Hc cl Hin)) as Hb. destruct cl as [c' x ctx body]. subst c'. simpl. rewrite ceq_chi_refl, Hb. reflexivity.
    - intros c x ctx body IH G H. unfold fclause_typed in H. eapply IH; exact H.
    - intros p t k IHp IHk G H. apply ks_cut in H. destruct H as [_ [Hp Hk]]. simpl. rewrite (IHp _ _ _ Hp), (IHk _ _ _ Hk). reflexivity.
    - intros so a b t e IHt IHe G H. apply ks_ifc in H. destruct H as [_ [_ [Ht He]]]. simpl. rewrite (IHt _ Ht), (IHe _ He). reflexivity.
    - intros nl a next IHn G H. apply ks_print in H. destruct H as [_ Hn]. simpl. eapply IHn; exact Hn.
    - reflexivity.
    - reflexivity.
  Qed.
End FsChi.

Lemma rel_refl_nodup : forall G, NoDup (cids G) -> rel G G.
Proof.
  intros G Hnd x b Hx. pose proof (clookup_var _ _ _ Hx) as Hv. rewrite <- Hv.
  apply flookup_nodup; [exact Hnd | eapply clookup_In; exact Hx].
Qed.

(* ---------- definitions through focus ---------- *)
Definition fdef_like (d : cdef) (q : fsdef) : Prop := fsdname q = cdname d /\ fsdctx q = cdctx d.
Lemma focus_defs_like : forall ds m qs m', maprs focus_def ds m = Ok (qs, m') -> Forall2 fdef_like ds qs.
Proof.
  induction ds as [|d r IH]; intros m qs m' H; simpl in H.
  - okinv H. constructor.
  - apply rbind_ok in H. destruct H as ([q m1] & Eq & H). apply rbind_ok in H. destruct H as ([r1 m2] & Er & H). okinv H.
    constructor; [|eapply IH; eauto]. unfold focus_def in Eq. apply rbind_ok in Eq. destruct Eq as ([b mb] & Eb & Eq). okinv Eq. split; reflexivity.
Qed.
Lemma fdef_like_find : forall ds qs f d, Forall2 fdef_like ds qs ->
  find (fun d => cident_eqb (cdname d) f) ds = Some d ->
  exists q, find (fun q => cident_eqb (fsdname q) f) qs = Some q /\ fsdctx q = cdctx d.
Proof.
  intros ds qs f d H. induction H as [|a q r r1 [Hn Hc] Hr IH]; intros Hf; simpl in *; [discriminate|].
  rewrite Hn. destruct (cident_eqb (cdname a) f).
  - injection Hf as <-. exists q. auto.
  - apply IH. exact Hf.
Qed.
Lemma fdef_like_names : forall ds qs, Forall2 fdef_like ds qs -> map fsdname qs = map cdname ds.
Proof. induction 1 as [|a q r r1 [Hn _] _ IH]; simpl; [reflexivity | rewrite Hn, IH; reflexivity]. Qed.

Section FocusDefs.
  Variables (data codata : list ctydecl) (defs : list cdef) (fdefs : list fsdef).
  Hypothesis Hxt : forall ts n d x sg, ts = data \/ ts = codata -> find_decl ts n = Some d -> find_cxtor d x = Some sg ->
    forall b, In b (cxargs sg) -> ty_ok data codata (cbty b) = true.
  Hypothesis Hpt : forall f d, find (fun d => cident_eqb (cdname d) f) defs = Some d ->
    forall b, In b (cdctx d) -> ty_ok data codata (cbty b) = true.
  Hypothesis Hlike : Forall2 fdef_like defs fdefs.

  Lemma focus_def_typed : forall d m q m' M,
    focus_def d m = Ok (q, m') -> M <= m -> ids_le_def M d = true -> NoDup (binder_ids_def d) ->
    ccheck_stmt data codata defs (cdctx d) (cdbody d) = None ->
    check_stmt data codata fdefs (fsdctx q) (fsdbody q) = None /\ m <= m'.
  Proof.
    intros [name ctx body] m q m' M H LE Hid Hnd Ht. unfold focus_def in H. simpl in *.
    apply rbind_ok in H. destruct H as ([b mb] & Eb & H). okinv H. simpl.
    unfold ids_le_def in Hid. simpl in Hid. apply andb_true_iff in Hid. destruct Hid as [Hic Hib].
    unfold binder_ids_def in Hnd. simpl in Hnd.
    assert (Hmc : mem_le M (cids ctx)).
    { intros i Hi. rewrite forallb_forall in Hic. specialize (Hic i Hi). apply N.leb_le in Hic. exact Hic. }
    assert (Hndc : NoDup (cids ctx)) by (apply NoDup_app_iff in Hnd; tauto).
    split; [|eapply focus_stmt_mono; eauto].
    eapply (focus_stmt_typed data codata defs fdefs Hxt Hpt (fun f d Hf => fdef_like_find defs fdefs f d Hlike Hf)
              body m ctx ctx M b m' Eb Ht); auto.
    - apply rel_refl_nodup. exact Hndc.
    - apply NoDup_app_iff in Hnd. destruct Hnd as (N1 & N2 & N3). apply NoDup_app_iff. repeat split; auto.
      intros x Hx1 Hx2. exact (N3 x Hx2 Hx1).
    - eapply mem_le_mono; eauto.
  Qed.
End FocusDefs.

Lemma focus_defs_typed : forall data codata defs fdefs,
  (forall ts n d x sg, ts = data \/ ts = codata -> find_decl ts n = Some d -> find_cxtor d x = Some sg ->
     forall b, In b (cxargs sg) -> ty_ok data codata (cbty b) = true) ->
  (forall f d, find (fun d => cident_eqb (cdname d) f) defs = Some d -> forall b, In b (cdctx d) -> ty_ok data codata (cbty b) = true) ->
  Forall2 fdef_like defs fdefs ->
  forall ds m qs m' M, maprs focus_def ds m = Ok (qs, m') -> M <= m ->
  (forall d, In d ds -> ids_le_def M d = true /\ NoDup (binder_ids_def d) /\
                        ccheck_stmt data codata defs (cdctx d) (cdbody d) = None) ->
  forall q, In q qs -> check_stmt data codata fdefs (fsdctx q) (fsdbody q) = None.
Proof.
  intros data codata defs fdefs Hxt Hpt Hlike. induction ds as [|d r IH]; intros m qs m' M H LE Hall q Hin; simpl in H.
  - okinv H. contradiction.
  - apply rbind_ok in H. destruct H as ([q1 m1] & Eq & H). apply rbind_ok in H. destruct H as ([r1 m2] & Er & H). okinv H.
    destruct (Hall d (or_introl eq_refl)) as [H1 [H2 H3]].
    destruct (focus_def_typed data codata defs fdefs Hxt Hpt Hlike d m q1 m1 M Eq LE H1 H2 H3) as [T1 T2].
    destruct Hin as [<-|Hin]; [exact T1|].
    eapply (IH m1 r1 m' M Er); eauto; [lia|]. intros d0 Hd0. apply Hall. right. exact Hd0.
Qed.

Lemma find_decl_in : forall ts n d, find_decl ts n = Some d -> In d ts.
Proof. intros ts n d H. unfold find_decl in H. apply find_some in H. tauto. Qed.
Lemma find_cxtor_in : forall d x sg, find_cxtor d x = Some sg -> In sg (ctxtors d).
Proof. intros d x sg H. unfold find_cxtor in H. apply find_some in H. tauto. Qed.

Theorem focus_preserves_typing_thm : forall c f,
  wt_core c = true -> pre_check c = true -> xtor_tys_ok c = true -> names_le c = true -> focus_prog c = Ok f ->
  wt_fs f = true /\ unique_binders f = true /\ ids_bounded f = true /\ gub f = true.
Proof.
  intros c f Hwt Hpre Hxt Hnl Hf.
  pose proof (wt_core_focus_wf c Hwt) as Hwf.
  assert (Hids : forallb (ids_le_def (cpmax c)) (cpdefs c) = true).
  { unfold pre_check in Hpre. rewrite forallb_forall in *. intros d Hd. specialize (Hpre d Hd). unfold pre_def in Hpre.
    apply andb_true_iff in Hpre. destruct Hpre as [Hpre _]. apply andb_true_iff in Hpre. tauto. }
  unfold focus_prog in Hf. apply rbind_ok in Hf. destruct Hf as (c1 & Eu & Hf).
  pose proof (uniquify_preserves_typing c c1 Hwt Hids Eu) as Hwt1.
  unfold uniquify_prog in Eu.
  destruct (uq_defs_spec (cpdefs c) (cpmax c) (cpmax c)) as (ds' & M & E & L & F); try lia.
  { apply wf_pre_forall; split; auto. }
  rewrite E in Eu. simpl in Eu. okinv Eu. cbn [cpdefs cpmax cpdata cpcodata] in *.
  apply rbind_ok in Hf. destruct Hf as ([qs M'] & Ef & Hf). okinv Hf.
  destruct (focus_defs_spec ds' M M) as (qs0 & M0 & E2 & L2 & F2); try lia.
  { eapply forall2_right; eauto. intros d d' (A & B & C & D & E'). auto. }
  rewrite E2 in Ef. okinv Ef.
  (* the typing of the uniquified program *)
  unfold wt_core in Hwt1. destruct (check_core (mkcp ds' (cpdata c) (cpcodata c) M)) eqn:Hc1; [discriminate|]. clear Hwt1.
  unfold check_core in Hc1. cbn [cpdefs cpdata cpcodata] in Hc1.
  apply seqn in Hc1. destruct Hc1 as [C1 Hc1]. apply seqn in Hc1. destruct Hc1 as [C2 Hc1]. apply seqn in Hc1. destruct Hc1 as [C3 Hc1].
  apply seqn in Hc1. destruct Hc1 as [C4 Hc1]. apply seqn in Hc1. destruct Hc1 as [C5 C6].
  apply fens in C1. apply fens in C2.
  pose proof (focus_defs_like _ _ _ _ E2) as Hlike.
  assert (Hdisj : forall n d, find_decl (cpdata c) n = Some d -> find_decl (cpcodata c) n = None).
  { intros n d Hd. apply (nodup_types_disjoint _ _ C2). rewrite Hd. discriminate. }
  assert (HXT : forall ts n d x sg, ts = cpdata c \/ ts = cpcodata c -> find_decl ts n = Some d -> find_cxtor d x = Some sg ->
                  forall b, In b (cxargs sg) -> ty_ok (cpdata c) (cpcodata c) (cbty b) = true).
  { intros ts n d x sg Hts Hd Hsg b Hb. unfold xtor_tys_ok in Hxt. rewrite forallb_forall in Hxt.
    assert (Hin : In d (cpdata c ++ cpcodata c)).
    { apply in_or_app. destruct Hts as [->| ->]; [left | right]; eapply find_decl_in; eauto. }
    specialize (Hxt d Hin). rewrite forallb_forall in Hxt. specialize (Hxt sg (find_cxtor_in _ _ _ Hsg)).
    rewrite forallb_forall in Hxt. apply Hxt. exact Hb. }
  assert (HPT : forall g d, find (fun d => cident_eqb (cdname d) g) ds' = Some d -> forall b, In b (cdctx d) -> ty_ok (cpdata c) (cpcodata c) (cbty b) = true).
  { intros g d Hd b Hb. apply find_some in Hd. destruct Hd as [Hd _].
    destruct (ccheck_defs_elim (mkcp ds' (cpdata c) (cpcodata c) M) ds' C6 d Hd) as [_ [H2 _]]. cbn [cpdata cpcodata] in H2.
    rewrite forallb_forall in H2. apply H2. exact Hb. }
  assert (Hud : forall d', In d' ds' -> wf_stmt (cdbody d') = true /\ NoDup (binder_ids_def d') /\ ids_le_def M d' = true).
  { intros d' Hd'. assert (HF : Forall (fun d' => wf_stmt (cdbody d') = true /\ NoDup (binder_ids_def d') /\ ids_le_def M d' = true) ds').
    { eapply forall2_right; eauto. intros d0 d1 (A & B & C & D & E'). auto. }
    rewrite Forall_forall in HF. apply HF. exact Hd'. }
  assert (Hq : forall q, In q qs -> check_stmt (cpdata c) (cpcodata c) qs (fsdctx q) (fsdbody q) = None).
  { eapply (focus_defs_typed (cpdata c) (cpcodata c) ds' qs HXT HPT Hlike ds' M qs M' M E2); [lia|].
    intros d Hd. destruct (Hud d Hd) as [_ [U2 U3]]. split; [exact U3|]. split; [exact U2|].
    destruct (ccheck_defs_elim (mkcp ds' (cpdata c) (cpcodata c) M) ds' C6 d Hd) as [_ [_ H3]]. exact H3. }
  assert (Hfd : forall q, In q qs -> NoDup (fs_binder_ids_def q) /\ fs_ids_le_def M' q = true).
  { intros q Hq0. assert (HF : Forall (fun q => NoDup (fs_binder_ids_def q) /\ fs_ids_le_def M' q = true) qs).
    { apply (forall2_right _ _ _ _ _ _ F2). intros d0 q0 (A & B & C & D). auto. }
    rewrite Forall_forall in HF. apply HF. exact Hq0. }
  split; [|split; [|split]].
  - (* wt_fs *)
    unfold wt_fs. assert (Ec : check_fs (mkfsp qs (cpdata c) (cpcodata c) M') = None); [|rewrite Ec; reflexivity].
    unfold check_fs. cbn [fspdata fspcodata fspdefs].
    unfold chi_ok_cprog in C1. cbn [cpdefs cpdata cpcodata] in C1.
    apply andb_true_iff in C1. destruct C1 as [C1 C1c]. apply andb_true_iff in C1. destruct C1 as [_ C1d].
    apply seqn. split.
    { apply fens. unfold chi_ok_fsprog. cbn [fspdata fspcodata fspdefs]. rewrite C1d, C1c, !andb_true_r.
      apply forallb_forall. intros q Hq0. eapply (proj2 (proj2 (fs_typed_chi_all (cpdata c) (cpcodata c) qs))). apply Hq. exact Hq0. }
    apply seqn. split; [apply fens; exact C2|]. apply seqn. split; [exact C3|]. apply seqn. split; [exact C4|].
    apply seqn. split; [rewrite (fdef_like_names _ _ Hlike); exact C5|].
    cbn [fspdefs]. assert (Hgen : forall l, (forall q, In q l -> In q qs) -> check_defs (mkfsp qs (cpdata c) (cpcodata c) M') l = None).
    { induction l as [|q r IH]; intros Hl; [reflexivity|]. cbn [check_defs fspdata fspcodata fspdefs].
      apply seqn. split.
      - apply fens. destruct (Hfd q (Hl q (or_introl eq_refl))) as [Hn _]. unfold fs_binder_ids_def in Hn.
        apply NoDup_app_iff in Hn. destruct Hn as [Hn _]. apply nodupN_NoDup in Hn.
        clear -Hn. induction (cids (fsdctx q)) as [|x l IHl]; [reflexivity|]. simpl in *.
        apply andb_true_iff in Hn. destruct Hn as [H1 H2]. rewrite (IHl H2), andb_true_r. exact H1.
      - rewrite (Hq q (Hl q (or_introl eq_refl))). apply IH. intros q0 Hq0. apply Hl. right. exact Hq0. }
    apply Hgen. auto.
  - (* unique_binders *)
    unfold unique_binders. cbn [fspdefs]. apply forallb_forall. intros q Hq0.
    destruct (Hfd q Hq0) as [Hn _]. unfold fs_binder_ids_def in Hn. apply NoDup_app_iff in Hn. destruct Hn as (N1 & N2 & N3).
    apply andb_true_iff. split.
    + apply fresh_ids_intro; [exact N1 | intros x _ []].
    + apply (proj2 (proj2 ub_of_nodup_all)); [exact N2|]. intros i Hi Hin. exact (N3 i Hin Hi).
  - (* ids_bounded *)
    unfold ids_bounded. cbn [fspdefs fspmax]. apply forallb_forall. intros q Hq0.
    destruct (Hfd q Hq0) as [_ Hle]. unfold fs_ids_le_def in Hle. apply andb_true_iff in Hle. destruct Hle as [Hl1 Hl2].
    apply andb_true_iff. split; [apply andb_true_iff; split|].
    + (* the name of the definition *)
      assert (Hname : exists d, In d (cpdefs c) /\ cdname d = fsdname q).
      { assert (Hn1 : In (fsdname q) (map cdname (cpdefs c))).
        { rewrite <- (like_names _ _ (uq_defs_like _ _ _ _ E)), <- (fdef_like_names _ _ Hlike). apply in_map. exact Hq0. }
        apply in_map_iff in Hn1. destruct Hn1 as [d [Hd1 Hd2]]. exists d. auto. }
      destruct Hname as [d [Hd Hdn]]. unfold names_le in Hnl. rewrite forallb_forall in Hnl. specialize (Hnl d Hd).
      unfold id_le. rewrite <- Hdn. apply N.leb_le. apply N.leb_le in Hnl. lia.
    + apply ctx_le_cids. exact Hl1.
    + apply (proj2 (proj2 (ib_of_ids_le_all M'))). exact Hl2.
  - (* gub *)
    unfold gub. cbn [fspdefs]. apply forallb_forall. intros q Hq0.
    destruct (Hfd q Hq0) as [Hn _]. unfold fs_binder_ids_def in Hn.
    rewrite (proj2 (proj2 fs_binders_eq_all)). apply nodupb_NoDup. exact Hn.
Qed.
