(* Proof/WtExamples3.v (property C12): calls of `main` are inside the guards (fix f929eb7 of /repo).
   The two witnesses of the former finding call-to-main - corpus/fun/call_main_nontail.sc ([call_main_witness] of
   Model/Fun2Core.v) and corpus/fun/call_main_tail.sc ([call_main_tail_witness] below), both as the type checker
   annotates them - call main, satisfy prog_tyguard, prog_tyguard_src and xtor_tys_guard, are outputs of the model of
   the checker, and so by the THEOREMS (not by evaluation) their translations exist and are well typed; the
   conclusions are evaluated too (f2c_ok, focus_ok).  The statement guarded by prog_tyguard was FALSE of the
   translation before the fix. *)
From Coq Require Import List ZArith NArith String Bool.
From SCC Require Import Lang.FunSyn Lang.CoreSyn Model.Check Sem.FunErase Sem.FsCheck Sem.CoreCheck
     Model.Fun2Core Model.Fun2CoreTyGuard Model.WtDefs Proof.Fun2CoreProof Proof.Fun2CoreTyProg Proof.Fun2CoreTyTotal
     Proof.Fun2CoreTyChecked Proof.Fun2CoreTyRefute Proof.WtExamples2.
Import ListNotations.
Open Scope string_scope.

(* [WtDefs.call_main_tail_witness]: corpus/fun/call_main_tail.sc as the type checker annotates it (main is called in tail
   position only; modelrun wt-stages compares the value with the real CheckedProgram on every run) *)
Definition call_main_tail_source : fprog :=
  mkfprog (map (fun d => FDDef (erase_def d)) (fcpdefs call_main_tail_witness)).

Lemma call_main_witnesses_checked :
  Check.check call_main_source = COk call_main_witness /\ Check.check call_main_tail_source = COk call_main_tail_witness.
Proof. split; vm_compute; reflexivity. Qed.

Lemma call_main_witnesses_in_guard :
  forallb (fun p => calls_main_prog p && prog_tyguard p && prog_tyguard_src p && xtor_tys_guard p && f2c_ok p && focus_ok p)
          [call_main_witness; call_main_tail_witness] = true.
Proof. vm_compute. reflexivity. Qed.

(* by the theorems: the translation of both witnesses exists and is well typed *)
Lemma call_main_witnesses_typed : forall p, In p [call_main_witness; call_main_tail_witness] ->
  exists c, compile_prog p = Fun2Core.Ok c /\ wt_core c = true.
Proof.
  intros p Hp.
  assert (Hg : prog_tyguard p = true) by (destruct Hp as [<-|[<-|[]]]; vm_compute; reflexivity).
  destruct (fun2core_total_guarded p Hg) as [c Hc]. exists c. split; [exact Hc|].
  exact (fun2core_preserves_typing_frag2 p c Hg Hc).
Qed.

(* the entry point: the translation of a program that calls main has one definition more than the source, the first one
   is the entry point under a fresh label and takes main's parameters (no return continuation), the second is main with a
   return continuation *)
Lemma call_main_witness_entry :
  match compile_prog call_main_witness with
  | Fun2Core.Ok c =>
      match cpdefs c with
      | e :: m :: _ => cident_eqb (cdname e) (new_id "main0") && cident_eqb (cdname m) (new_id "main")
                       && Nat.eqb (List.length (cdctx e)) 1 && Nat.eqb (List.length (cdctx m)) 2
      | _ => false
      end
  | Fun2Core.Err _ => false
  end = true.
Proof. vm_compute. reflexivity. Qed.

(* REGRESSION: the guarded statement was false of the translation before fix f929eb7 *)
Lemma fun2core_guarded_typing_refuted_before_fix :
  ~ (forall p c, prog_tyguard p = true -> compile_prog_before_fix p = Fun2Core.Ok c -> wt_core c = true).
Proof.
  intro H. destruct fun2core_call_main_typing_refuted_before_fix_lemma as (src & p & c & _ & _ & _ & Ec & Hw & _ & _ & _ & Hg).
  rewrite (H p c Hg Ec) in Hw. discriminate.
Qed.
