(* C07, forward simulation, part 8: the program-level theorem for the closure fragment (integers and closures
   without captured variables).  Port of Proof/X86SimTopC.v. *)
From Coq Require Import List ZArith NArith String Bool Lia FMapPositive.
From SCC Require Import Base.Sexp Lang.AxSyn Sem.AxSem Model.ParMoves Model.Backend Model.A64 Sem.A64Sem
     Model.Linearize Model.LinCheck Generated.Constants Proof.LinBasics
     Proof.A64State Proof.A64ImmHw Proof.A64Imm Proof.A64Sel Proof.A64PM Proof.A64Exec
     Proof.A64MemSubst Proof.SubstGraph Proof.SubstBackends Proof.A64Subst Proof.A64Wf Proof.A64Print Proof.A64Entry
     Proof.A64SimRel Proof.A64SimStmt Proof.A64SimAddr Proof.A64SimClo Proof.A64SimProg Proof.A64SimProgC Proof.A64SimTop.
From SCC Require Import Sem.A64Wf.
Import ListNotations.
Open Scope Z_scope.
Open Scope list_scope.

Theorem a64_codegen_simulates_cf p lc cs n lc' args fuel o :
  cf_frag p = true -> entry_int p = true -> plain_names p = true -> plain_types p = true -> lits_i64 p = true ->
  lin_check_prog p = true ->
  a64_compile p lc = Ok (cs, n, lc') -> asm_wf cs = None -> code_small cs = true ->
  List.length args = n -> args_i64 args = true ->
  run_linear fuel p args = o -> snd o <> OOutOfFuel ->
  exists outer inner, fst (run_a64 outer inner cs args) = o.
Proof.
  intros INT EI PL PLTY LITS LIN XC WF SM.
  unfold a64_compile, a64_compile_with in XC.
  destruct (compile (a64_backend_with (fun _ => [])) p lc) as [[[is n0] lc0]|] eqn:CP; cbn [rbind] in XC; [|discriminate].
  destruct (into_aarch64_routine is n0) as [r|] eqn:RT; cbn [rbind] in XC; [|discriminate].
  inversion XC; subst r n0 lc0; clear XC.
  change (a64_backend_with (fun _ => [])) with a64_backend in CP.
  unfold compile in CP. destruct (pdefs p) as [|d0 rest] eqn:PD; [discriminate|].
  destruct (translate a64_backend (ptypes p) (d0 :: rest) lc) as [[is' lc1]|] eqn:TR; cbn [rbind] in CP; [|discriminate].
  cbn in CP. inversion CP; subst is n lc'; clear CP.
  unfold into_aarch64_routine in RT. destruct (setup (List.length (dctx d0))) as [su|] eqn:SU; cbn [rbind] in RT; [|discriminate].
  inversion RT; subst cs; clear RT.
  intros NARGS AI RUN G.
  unfold run_linear in RUN. rewrite PD in RUN.
  assert (LEN : List.length args = List.length (dctx d0)) by exact NARGS.
  destruct (bind_total (vars (dctx d0)) (map VInt args)) as (e0 & EE); [unfold vars; rewrite !map_length; auto|].
  unfold entry_env in RUN. rewrite EE in RUN.
  assert (LE7 : (List.length args <= 7)%nat).
  { rewrite LEN. destruct (Nat.le_gt_cases (List.length (dctx d0)) 7) as [L|L]; [exact L|]. exfalso.
    unfold setup in SU. destruct (List.length (dctx d0)) as [|k]; [lia|]. cbn [move_arguments] in SU.
    destruct (Nat.ltb_spec 7 (S k)); [discriminate|lia]. }
  set (cs := preamble ++ su ++ is' ++ cleanup) in *.
  set (im := mk_image cs).
  destruct (mk_image_layout cs WF) as [CA LA]. fold im in CA, LA.
  (* static facts about every definition *)
  assert (LINd : forall d, In d (pdefs p) -> lin_check (sigs_of p) (dctx d) (dbody d) = true).
  { unfold lin_check_prog in LIN. rewrite forallb_forall in LIN. exact LIN. }
  assert (INTd : forall d, In d (pdefs p) -> stmt_cf (dbody d) = true).
  { unfold cf_frag in INT. rewrite forallb_forall in INT. intros d Hd. specialize (INT d Hd). unfold def_cf in INT.
    apply andb_true_iff in INT. tauto. }
  assert (LITd : forall d, In d (pdefs p) -> stmt_lits (dbody d) = true).
  { unfold lits_i64 in LITS. rewrite forallb_forall in LITS. exact LITS. }
  assert (IMG : img_ok im) by apply mk_image_ok.
  assert (SMALL : forall pc a, PM.find pc (addr_of im) = Some a -> a < 4611686018427387904) by (apply mk_image_small; exact SM).
  assert (PLT : forall d, In d (ptypes p) -> hash_name (label_of_type_name (show_ident (tname d))) = false).
  { unfold plain_types in PLTY. rewrite forallb_forall in PLTY. intros d Hd. specialize (PLTY d Hd).
    destruct (hash_name _); [discriminate|reflexivity]. }
  assert (DEFS : forall d, In d (pdefs p) ->
    exists pcd lcd cd lcd', find_label (labels im) (show_ident (dname d) +++ "_") = Some pcd /\
      PM.find pcd (code im) = Some (LAB (show_ident (dname d) +++ "_")) /\
      acs (ptypes p) (dbody d) (dctx d) lcd = Ok (cd, lcd') /\
      code_at im (Pos.succ pcd) cd /\ labels_at_nh im (Pos.succ pcd) cd).
  { intros d Hd. rewrite PD in Hd.
    destruct (translate_defs (ptypes p) _ _ _ _ TR d Hd) as (pre & lcd & cd & lcd' & post & EQ & CD).
    assert (NH : hash_name (show_ident (dname d) +++ "_") = false).
    { unfold plain_names in PL. rewrite forallb_forall in PL. rewrite <- PD in Hd. specialize (PL d Hd).
      destruct (hash_name (show_ident (dname d) +++ "_")) eqn:E; auto.
      apply hash_name_app_ in E. rewrite E in PL. discriminate. }
    destruct (layout_at im cs (preamble ++ su ++ pre) (LAB (show_ident (dname d) +++ "_") :: cd) (post ++ cleanup) CA LA)
      as [CAd LAd].
    { unfold cs. rewrite EQ. rewrite <- !app_assoc. cbn [app]. rewrite <- !app_assoc. reflexivity. }
    exists (padd 1%positive (List.length (preamble ++ su ++ pre))), lcd, cd, lcd'.
    apply code_at_cons in CAd as [C0 C1].
    change (LAB (show_ident (dname d) +++ "_") :: cd) with ([LAB (show_ident (dname d) +++ "_")] ++ cd) in LAd.
    pose proof LAd as LAd'. apply labels_at_nh_app in LAd' as [_ L1]. cbn [List.length padd] in L1.
    split; [exact (LAd O _ eq_refl NH)|]. split; [exact C0|]. split; [exact CD|]. split; [exact C1|exact L1]. }
  (* the run *)
  assert (FIN : finishes im 3%positive (init_state args) o).
  { destruct (layout_at im cs [TEXT; GLOBAL "asm_main"] [LAB "asm_main"] (su ++ is' ++ cleanup) CA LA eq_refl) as [CA0 _].
    destruct (layout_at im cs preamble su (is' ++ cleanup) CA LA eq_refl) as [CA1 _].
    cbn [List.length padd preamble] in CA0, CA1.
    rewrite <- LEN in SU. destruct (prologue_ok im args su SU) as (s1 & E1 & F1 & O1 & FR1 & RG1 & EPI).
    assert (CLEAN : exists pcc, find_label (labels im) "cleanup" = Some pcc /\
      forall s z, frame_ok s sp0 -> outer_ok (stack s1) sp0 s -> rget s RETURN1 = Some z -> finishes im pcc s (finish (out s) (OExit z))).
    { destruct (layout_at im cs (preamble ++ su ++ is') cleanup [] CA LA) as [CAc LAc].
      { unfold cs. rewrite app_nil_r, <- !app_assoc. reflexivity. }
      exists (padd 1%positive (List.length (preamble ++ su ++ is'))). split.
      - exact (LAc O "cleanup"%string eq_refl eq_refl).
      - intros s z Fs OKs RV. eapply EPI; eauto. }
    (* the entry definition follows the prologue *)
    cbn [translate] in TR.
    destruct (acs (ptypes p) (dbody d0) (dctx d0) lc) as [[c0 lc0]|] eqn:C0; cbn [rbind] in TR; [|discriminate].
    destruct (translate a64_backend (ptypes p) rest lc0) as [[c2 lc2]|] eqn:TR2; cbn [rbind] in TR; [|discriminate].
    cbn [b_label a64_backend a64_backend_with] in TR. inversion TR; subst is' lc1; clear TR.
    destruct (layout_at im cs (preamble ++ su) (LAB (show_ident (dname d0) +++ "_") :: c0) (c2 ++ cleanup) CA LA) as [CAe LAe].
    { unfold cs. rewrite <- !app_assoc. cbn [app]. rewrite <- !app_assoc. reflexivity. }
    apply code_at_cons in CAe as [CL CAe].
    change (LAB (show_ident (dname d0) +++ "_") :: c0) with ([LAB (show_ident (dname d0) +++ "_")] ++ c0) in LAe.
    apply labels_at_nh_app in LAe as [_ LAe]. cbn [List.length padd] in LAe.
    assert (D0 : In d0 (pdefs p)) by (rewrite PD; now left).
    rewrite app_length in CL. cbn [List.length preamble] in CL. rewrite padd_add in CL. cbn [padd] in CL.
    eapply exec_to_finishes.
    { eapply exec_next; [apply (CA0 O _ eq_refl)|reflexivity|].
      eapply exec_to_trans; [apply (run_straight_exec_to im su _ _ s1 CA1 E1)|].
      eapply exec_next; [exact CL|reflexivity|apply exec_refl]. }
    subst o.
    pose proof (INTd d0 D0) as I2.
    assert (I1 : ctx_int (dctx d0) = true) by (unfold entry_int in EI; rewrite PD in EI; exact EI).
    assert (R0 : rel (clo_ok im p) (dctx d0) e0 s1 sp0).
    { eapply entry_rel; eauto. eapply lin_nodup. exact (LINd d0 D0). }
    rewrite app_length in CAe, LAe. cbn [List.length preamble] in CAe, LAe. rewrite padd_add in CAe, LAe. cbn [padd] in CAe, LAe.
    eapply (sim_exec_cf im p sp0 (stack s1) IMG SMALL PLT DEFS CLEAN LINd INTd LITd) with (c := dctx d0) (lc := lc); eauto.
    intros k _. reflexivity. }
  destruct (finishes_run im _ _ _ FIN) as (outer & inner & RN).
  exists outer, inner. unfold run_a64. cbv zeta. change (mk_image _) with im.
  assert (AM : find_label (labels im) "asm_main" = Some 3%positive).
  { exact (LA 2%nat "asm_main"%string eq_refl eq_refl). }
  rewrite AM. destruct (Nat.ltb_spec 7 (List.length args)); [lia|]. exact RN.
Qed.

(* for runs that end with a result (then the argument count is right) *)
Corollary a64_codegen_correct_cf p lc cs n lc' args fuel o :
  cf_frag p = true -> entry_int p = true -> plain_names p = true -> plain_types p = true -> lits_i64 p = true ->
  lin_check_prog p = true -> asm_wf cs = None -> code_small cs = true ->
  a64_compile p lc = Ok (cs, n, lc') -> args_i64 args = true ->
  run_linear fuel p args = o -> defined o = true ->
  exists outer inner, fst (run_a64 outer inner cs args) = o.
Proof.
  intros CF EI PL PLT LI LIN WF SM XC AI RUN D.
  assert (G : good o) by (left; unfold defined in D; destruct (snd o); try discriminate; eauto).
  eapply a64_codegen_simulates_cf; eauto; [eapply a64_compile_arity; eauto|apply good_not_oof; exact G].
Qed.
