(* Allocation and the representation invariant: one `alloc` step (what it writes, what it leaves
   alone, the chain invariant KI), then `store_other` / `alloc_object` by induction: the object that
   `alloc_object fields` returns has exactly `fields` (after the zero padding of its head block) as
   its `obj_fields`, its chain has nlinks (length fields) links, and everything reachable from the
   old roots keeps its slots and its ghost link count. *)
From Coq Require Import List ZArith Lia Bool Permutation.
From SCC Require Import Model.Heap Proof.HeapMore Proof.HeapTrace Proof.HeapRep.
Import ListNotations.
Open Scope Z_scope.

(* ---------- what acquire / alloc touch ---------- *)
Lemma erase_list_hdr_other l : forall s x, ~ In x l -> hdr (m (fold_left (fun s c => erase c s) l s) x) = hdr (m s x).
Proof.
  induction l as [|c l IH]; intros s x Hx; cbn [fold_left]; auto.
  rewrite IH by (intro; apply Hx; now right). apply erase_hdr_other. intro; apply Hx; now left.
Qed.
Lemma erase_list_ps l : forall s x, ps (m (fold_left (fun s c => erase c s) l s) x) = ps (m s x).
Proof. induction l as [|c l IH]; intros s x; cbn [fold_left]; auto. rewrite IH. apply erase_ps. Qed.

Lemma set_hdr_ps mm a h x : ps (set_hdr mm a h x) = ps (mm x).
Proof. unfold set_hdr, upd. destruct (Z.eqb_spec x a); subst; auto. Qed.

Lemma acquire_ps s x : ps (m (snd (acquire s)) x) = ps (m s x).
Proof.
  unfold acquire. destruct (negb (hdr (m s (heap s)) =? 0)); cbn [snd m]; [apply set_hdr_ps|].
  destruct (hdr (m s (free s)) =? 0); cbn [snd m]; auto.
  rewrite erase_list_ps. cbn [m]. apply set_hdr_ps.
Qed.
Lemma acquire_hdr_other s x :
  x <> heap s -> x <> free s -> ~ In x (ps (m s (free s))) -> hdr (m (snd (acquire s)) x) = hdr (m s x).
Proof.
  intros H1 H2 H3. unfold acquire. destruct (negb (hdr (m s (heap s)) =? 0)); cbn [snd m]; [now apply hdr_set_hdr_other|].
  destruct (hdr (m s (free s)) =? 0); cbn [snd m]; auto.
  rewrite erase_list_hdr_other by exact H3. cbn [m]. now apply hdr_set_hdr_other.
Qed.
Lemma acquire_hdr_heap s R hl fl cl : Inv s R hl fl cl -> hdr (m (snd (acquire s)) (heap s)) = 0.
Proof.
  intros I. unfold acquire. destruct (Z.eqb_spec (hdr (m s (heap s))) 0) as [H0|Hn]; cbn [negb snd m].
  2:{ apply hdr_set_hdr_same. }
  destruct (Z.eqb_spec (hdr (m s (free s))) 0) as [Hf0|Hfn]; cbn [snd m]; auto.
  destruct (heap_not_counted _ _ _ _ _ I) as [Hncl Hnfl].
  assert (Hffl : In (free s) fl).
  { destruct (free_cases _ _ _ _ _ I) as [[E _]|]; auto. rewrite E, (i_fresh _ _ _ _ _ I (frontier s)) in Hfn by lia. now cbn in Hfn. }
  assert (Hne : heap s <> free s) by (intros E; rewrite E in Hnfl; contradiction).
  rewrite erase_list_hdr_other.
  - cbn [m]. rewrite hdr_set_hdr_other; auto.
  - intros Hin. pose proof (heap_nonzero _ _ _ _ _ I) as Hh0.
    apply Hncl. eapply (child_counted _ _ _ _ _ (free s)); eauto. rewrite in_app_iff. now right.
Qed.

Definition wr (sl : list Z) (s : st) : st :=
  {| m := set_ps (m s) (heap s) sl; heap := heap s; free := free s; frontier := frontier s |}.
Lemma alloc_wr sl s : alloc sl s = acquire (wr sl s).
Proof. reflexivity. Qed.
Lemma wr_ps sl s x : ps (m (wr sl s) x) = if x =? heap s then sl else ps (m s x).
Proof. cbn. unfold set_ps, upd. destruct (x =? heap s); reflexivity. Qed.
Lemma wr_hdr sl s x : hdr (m (wr sl s) x) = hdr (m s x).
Proof. cbn. unfold set_ps, upd. destruct (Z.eqb_spec x (heap s)); subst; reflexivity. Qed.

Lemma alloc_ps sl s x : ps (m (snd (alloc sl s)) x) = if x =? heap s then sl else ps (m s x).
Proof. rewrite alloc_wr, acquire_ps. apply wr_ps. Qed.
Lemma alloc_hdr_other s R hl fl cl sl x :
  Inv s R hl fl cl -> x <> heap s -> x <> free s -> ~ In x (ps (m s (free s))) ->
  hdr (m (snd (alloc sl s)) x) = hdr (m s x).
Proof.
  intros I H1 H2 H3. rewrite alloc_wr, acquire_hdr_other; cbn [heap free wr]; auto.
  - apply wr_hdr.
  - rewrite wr_ps. destruct (Z.eqb_spec (free s) (heap s)) as [E|_]; auto.
    exfalso. destruct (heap_not_counted _ _ _ _ _ I) as [_ Hnfl]. destruct (free_cases _ _ _ _ _ I) as [[E1 _]|Hf].
    + destruct (heap_in_hl _ _ _ _ _ I) as (l & El).
      pose proof (i_below _ _ _ _ _ I (heap s) ltac:(rewrite El; now left)). lia.
    + rewrite E in Hf. contradiction.
Qed.
Lemma alloc_hdr_heap s R hl fl cl sl : Inv s R hl fl cl -> hdr (m (snd (alloc sl s)) (heap s)) = 0.
Proof.
  intros I. rewrite alloc_wr. change (heap s) with (heap (wr sl s)).
  eapply acquire_hdr_heap. apply (set_ps_hl_inv s R hl fl cl (heap s) sl I).
  destruct (heap_in_hl _ _ _ _ _ I) as (l & ->). now left.
Qed.

(* ---------- one allocation ---------- *)
Definition updlk (lk : lkmap) (r : Z) (j : nat) : lkmap := fun x => if x =? r then j else lk x.
Lemma updlk_same lk r j : updlk lk r j r = j.
Proof. unfold updlk. now rewrite Z.eqb_refl. Qed.
Lemma updlk_other lk r j x : x <> r -> updlk lk r j x = lk x.
Proof. unfold updlk. intros H. destruct (Z.eqb_spec x r); congruence. Qed.

Lemma nth2_in (sl : list Z) : nth 2 sl 0 <> 0 -> In (nth 2 sl 0) sl.
Proof. intros H. destruct sl as [|a [|b [|c r]]]; cbn in *; try congruence. auto. Qed.

Lemma alloc_step base lk s R R0 hl fl cl sl j :
  InvA base s R hl fl cl -> Permutation R (nz sl ++ R0) -> KI lk s R ->
  (j <> O -> nth 2 sl 0 <> 0 /\ hdr (m s (nth 2 sl 0)) = 0 /\ S (lk (nth 2 sl 0)) = j) ->
  let r := heap s in let s' := snd (alloc sl s) in let lk' := updlk lk r j in
  fst (alloc sl s) = r /\ r <> 0 /\
  (exists hl' fl' cl', InvA base s' (r :: R0) hl' fl' cl' /\ fr_rel s hl s' hl' /\
                       (length cl + length fl <= length cl' + length fl')%nat) /\
  ps (m s' r) = sl /\ hdr (m s' r) = 0 /\
  (forall b, b <> r -> ps (m s' b) = ps (m s b)) /\
  ~ reach (m s) R r /\
  (forall b, reach (m s) R b -> reach (m s') (r :: R0) b) /\
  KI lk' s' (r :: R0).
Proof.
  intros IA HP K Hj r s' lk'. pose proof (proj1 IA) as I.
  destruct (alloc_invA base s R R0 hl fl cl sl IA HP) as [Hfst Hex].
  destruct (heap_not_counted _ _ _ _ _ I) as [Hrcl Hrfl]. fold r in Hrcl, Hrfl.
  assert (Hr0 : r <> 0) by (eapply heap_nonzero; eauto).
  assert (Hps : forall b, ps (m s' b) = if b =? r then sl else ps (m s b)) by (intros; apply alloc_ps).
  assert (Hpsr : ps (m s' r) = sl) by (rewrite Hps, Z.eqb_refl; reflexivity).
  assert (Hpso : forall b, b <> r -> ps (m s' b) = ps (m s b)).
  { intros b Hb. rewrite Hps. destruct (Z.eqb_spec b r); congruence. }
  assert (Hnr : ~ reach (m s) R r) by (intros Hr; apply Hrcl; eapply reach_root_counted; eauto).
  assert (Hold : forall b, reach (m s) R b -> b <> r) by (intros b Hb ->; contradiction).
  assert (Hsl : forall c, In c sl -> c <> 0 -> In c R).
  { intros c Hc Hc0. eapply Permutation_in; [symmetry; exact HP|]. rewrite in_app_iff. left. apply in_nz. auto. }
  assert (Hfwd : forall b, reach (m s) R b -> reach (m s') (r :: R0) b).
  { induction 1 as [b Hb Hb0|x b Hx IH Hb Hb0].
    - apply (Permutation_in _ HP) in Hb. apply in_app_iff in Hb as [Hb|Hb].
      + apply in_nz in Hb as [Hb _]. eapply reach_slot; [apply reach_src; [now left|exact Hr0]| |exact Hb0]. now rewrite Hpsr.
      + apply reach_src; auto. now right.
    - eapply reach_slot; [exact IH| |exact Hb0]. rewrite Hpso by (apply Hold; exact Hx). exact Hb. }
  assert (Hbwd : forall b, reach (m s') (r :: R0) b -> b = r \/ reach (m s) R b).
  { induction 1 as [b Hb Hb0|x b Hx IH Hb Hb0].
    - destruct Hb as [<-|Hb]; [now left|right]. apply reach_src; auto.
      eapply Permutation_in; [symmetry; exact HP|]. rewrite in_app_iff. now right.
    - right. destruct IH as [->|IH].
      + rewrite Hpsr in Hb. apply reach_src; auto.
      + eapply reach_slot; [exact IH| |exact Hb0]. rewrite <- Hpso; auto. }
  (* headers of blocks with a single referrer are not touched *)
  assert (Hkeep : forall c, In c cl -> hdr (m s c) = 0 ->
            (In c R \/ exists x, In x cl /\ In c (ps (m s x))) -> hdr (m s' c) = 0).
  { intros c Hc Hh Href. unfold s'. rewrite (alloc_hdr_other s R hl fl cl sl c I); auto.
    - intros ->. contradiction.
    - intros ->. eapply free_not_counted; eauto.
    - intros Hin. pose proof (free_slot_cases _ _ _ _ _ _ I Hin) as Hffl.
      assert (Hf : In (free s) (cl ++ fl)) by (rewrite in_app_iff; auto).
      assert (Hc0 : c <> 0) by (apply (in_below_pos _ _ _ _ _ _ I); rewrite !in_app_iff; auto).
      destruct Href as [HR|(x & Hx & Hinx)].
      + destruct (sole_root_ref s R hl fl cl c I HR Hc0 Hh) as [_ N]. eapply N; eauto.
      + destruct (sole_slot_ref s R hl fl cl c x I Hc Hh ltac:(rewrite in_app_iff; auto) Hinx) as (_ & U & _).
        pose proof (U (free s) Hf Hin) as E. subst x.
        apply (NoDup_app_disj fl cl (free s) (NoDup_app_r _ _ (i_nodup _ _ _ _ _ I))); auto. }
  split; [exact Hfst|]. split; [exact Hr0|]. split; [exact Hex|]. split; [exact Hpsr|].
  split; [eapply alloc_hdr_heap; eauto|]. split; [exact Hpso|]. split; [exact Hnr|]. split; [exact Hfwd|].
  intros x Hx Hl. destruct (Hbwd x Hx) as [->|Hx0].
  - unfold lk' in *. rewrite updlk_same in *. destruct (Hj Hl) as (Hc0 & Hh & Hlk).
    set (c := nth 2 sl 0) in *. assert (HcR : In c R) by (apply Hsl; auto; now apply nth2_in).
    assert (Hccl : In c cl) by (eapply root_counted; eauto).
    assert (Hcr : c <> r) by (intros ->; contradiction).
    unfold link_of. rewrite Hpsr. fold c. split; [exact Hc0|]. split; [apply Hkeep; auto|].
    rewrite updlk_other by exact Hcr. exact Hlk.
  - pose proof (Hold x Hx0) as Hxr. unfold lk' in *. rewrite (updlk_other lk r j x Hxr) in Hl |- *.
    destruct (link_sole s R hl fl cl lk x I K Hx0 Hl) as (Hc0 & Hc & Hh & _ & _ & _).
    destruct (K x Hx0 Hl) as (_ & _ & Hlk).
    unfold link_of in *. rewrite Hpso by exact Hxr. set (c := nth 2 (ps (m s x)) 0) in *.
    assert (Hcr : c <> r) by (intros ->; contradiction).
    split; [exact Hc0|]. split.
    + apply Hkeep; auto. right. exists x. split; [eapply reach_root_counted; eauto|]. apply (link_in (m s) x). exact Hc0.
    + rewrite (updlk_other lk r j c Hcr). exact Hlk.
Qed.

(* ---------- list facts about the splitting of the fields over blocks ---------- *)
Lemma length_lastn {A} k (l : list A) : length (lastn k l) = Nat.min k (length l).
Proof. unfold lastn. rewrite skipn_length. lia. Qed.
Lemma length_pad k l : (length l <= k)%nat -> length (pad k l) = k.
Proof. intros H. unfold pad. rewrite app_length, repeat_length. lia. Qed.
Lemma half_step n : (1 <= n)%nat -> ((n + 1) / 2 = S ((n - 2 + 1) / 2))%nat.
Proof.
  intros H. destruct n as [|[|n]]; [lia|reflexivity|].
  replace (S (S n) + 1)%nat with (n + 1 + 1 * 2)%nat by lia. rewrite Nat.div_add by lia.
  replace (S (S n) - 2 + 1)%nat with (n + 1)%nat by lia. lia.
Qed.
Lemma nlinks_half n : nlinks n = ((n - 3 + 1) / 2)%nat.
Proof.
  unfold nlinks. destruct (Nat.leb_spec n 3) as [H|H]; auto.
  replace (n - 3)%nat with O by lia. reflexivity.
Qed.

Lemma obj_fields_S k mm p : obj_fields (S k) mm p = fields_of mm p ++ obj_fields k mm (link_of mm p).
Proof. reflexivity. Qed.
Lemma obj_blocks_S k mm p : obj_blocks (S k) mm p = p :: obj_blocks k mm (link_of mm p).
Proof. reflexivity. Qed.

(* ---------- the blocks after the first ---------- *)
Lemma store_other_rep base : forall fuel rest link s R0 hl fl cl lk j done,
  (length rest <= fuel)%nat ->
  InvA base s (link :: nz rest ++ R0) hl fl cl -> KI lk s (link :: nz rest ++ R0) ->
  link <> 0 -> hdr (m s link) = 0 -> links_ok (lk link) (m s) link ->
  obj_fields (lk link) (m s) link = repeat 0 j ++ done -> (rest <> [] -> j = O) ->
  exists lk' j' hl' fl' cl',
    let r := store_other fuel rest link s in
    InvA base (snd r) (fst r :: R0) hl' fl' cl' /\ KI lk' (snd r) (fst r :: R0) /\
    fst r <> 0 /\ hdr (m (snd r) (fst r)) = 0 /\
    lk' (fst r) = (lk link + (length rest + 1) / 2)%nat /\
    links_ok (lk' (fst r)) (m (snd r)) (fst r) /\
    obj_fields (lk' (fst r)) (m (snd r)) (fst r) = repeat 0 j' ++ rest ++ done /\
    (forall b, reach (m s) (link :: nz rest ++ R0) b ->
       ps (m (snd r) b) = ps (m s b) /\ lk' b = lk b /\ reach (m (snd r)) (fst r :: R0) b).
Proof.
  induction fuel as [|f IH]; intros rest link s R0 hl fl cl lk j done Hlen IA K Hl0 Hh HL HF Hj.
  - destruct rest; [|cbn in Hlen; lia]. exists lk, j, hl, fl, cl. cbn [store_other fst snd nz filter app length] in *.
    replace ((0 + 1) / 2)%nat with O by reflexivity. rewrite Nat.add_0_r. repeat (split; auto).
  - destruct rest as [|x rest'].
    + exists lk, j, hl, fl, cl. cbn [store_other fst snd nz filter app length] in *.
      replace ((0 + 1) / 2)%nat with O by reflexivity. rewrite Nat.add_0_r. repeat (split; auto).
    + set (rest := x :: rest') in *. cbn [store_other]. fold rest.
      change (match rest with [] => (link, s) | _ => let '(b, s1) := alloc (pad 2 (lastn 2 rest) ++ [link]) s in store_other f (butlastn 2 rest) b s1 end)
        with (let '(b, s1) := alloc (pad 2 (lastn 2 rest) ++ [link]) s in store_other f (butlastn 2 rest) b s1).
      assert (Hrne : rest <> []) by discriminate. specialize (Hj Hrne). subst j. cbn [repeat app] in HF.
      set (sl := pad 2 (lastn 2 rest) ++ [link]).
      assert (Lpad : length (pad 2 (lastn 2 rest)) = 2%nat) by (apply length_pad; rewrite length_lastn; lia).
      assert (Hn2 : nth 2 sl 0 = link) by (unfold sl; rewrite app_nth2 by lia; rewrite Lpad; reflexivity).
      assert (HP : Permutation (link :: nz rest ++ R0) (nz sl ++ (nz (butlastn 2 rest) ++ R0))).
      { unfold sl. rewrite nz_app, nz_pad, nz_single by auto.
        pose proof (nz_split_last 2 rest) as HS. apply perm_of_cnt. intros b.
        pose proof (cnt_perm _ _ b HS) as HC. rewrite cnt_app in HC.
        repeat (rewrite ?cnt_app, ?cnt_cons). change (cnt [] b) with 0. lia. }
      destruct (alloc_step base lk s _ _ hl fl cl sl (S (lk link)) IA HP K)
        as (Hfst & Hr0 & (hl1 & fl1 & cl1 & I1 & _ & _) & Hpsr & Hhr & Hpso & Hnr & Hfwd & K1).
      { intros _. rewrite Hn2. auto. }
      set (r1 := heap s) in *. set (lk1 := updlk lk r1 (S (lk link))) in *.
      destruct (alloc sl s) as [b s1] eqn:EA. cbn [fst snd] in *. subst b.
      assert (HlR : reach (m s) (link :: nz rest ++ R0) link) by (apply reach_src; auto; now left).
      assert (Hlr : link <> r1) by (intros E; apply Hnr; rewrite <- E; exact HlR).
      (* the chain of link is untouched *)
      assert (Hch : forall b, In b (obj_blocks (lk link) (m s) link) -> ps (m s1 b) = ps (m s b)).
      { intros b Hb. apply Hpso. intros ->. apply Hnr.
        eapply reach_trans; [|eapply obj_blocks_reach; eauto]. intros q [<-|[]] _. exact HlR. }
      assert (Elk1 : lk1 r1 = S (lk link)) by apply updlk_same.
      assert (Elk1l : lk1 link = lk link) by (apply updlk_other; exact Hlr).
      assert (Elink : link_of (m s1) r1 = link) by (unfold link_of; rewrite Hpsr; exact Hn2).
      assert (HL1 : links_ok (lk1 r1) (m s1) r1).
      { rewrite Elk1, <- Elk1l. intros b Hb. rewrite Elk1l in Hb. rewrite obj_blocks_S, Elink in Hb. destruct Hb as [<-|Hb]; auto.
        rewrite (obj_blocks_ext_on (m s) (m s1)) in Hb by exact Hch. now apply HL. }
      assert (HF1 : obj_fields (lk1 r1) (m s1) r1 = repeat 0 (2 - length (lastn 2 rest)) ++ (lastn 2 rest ++ done)).
      { rewrite Elk1, obj_fields_S, Elink, (obj_fields_ext_on (m s) (m s1)) by exact Hch. rewrite HF.
        unfold fields_of. rewrite Hpsr. unfold sl. rewrite firstn_app, Lpad, Nat.sub_diag, firstn_O, app_nil_r.
        rewrite firstn_all2 by lia. rewrite skipn_app, Lpad. rewrite (skipn_all2 (n := 3)) by lia. cbn [Nat.sub skipn app].
        unfold pad. now rewrite <- !app_assoc. }
      assert (Hlen' : (length (butlastn 2 rest) <= f)%nat).
      { rewrite length_butlastn. unfold rest in *. cbn [length] in *. lia. }
      assert (Hj1 : butlastn 2 rest <> [] -> (2 - length (lastn 2 rest))%nat = O).
      { intros Hne. rewrite length_lastn. destruct (butlastn 2 rest) eqn:E; [congruence|].
        pose proof (length_butlastn 2 rest) as L. rewrite E in L. cbn [length] in L. lia. }
      destruct (IH (butlastn 2 rest) r1 s1 R0 hl1 fl1 cl1 lk1 _ (lastn 2 rest ++ done) Hlen' I1 K1 Hr0 Hhr HL1 HF1 Hj1)
        as (lk2 & j2 & hl2 & fl2 & cl2 & I2 & K2 & N2 & Hh2 & Hlk2 & HL2 & HF2 & Fr2).
      exists lk2, j2, hl2, fl2, cl2. cbn zeta in *.
      split; [exact I2|]. split; [exact K2|]. split; [exact N2|]. split; [exact Hh2|]. split; [|split; [exact HL2|split]].
      * rewrite Hlk2, Elk1, length_butlastn. rewrite (half_step (length rest)) by (unfold rest; cbn; lia). lia.
      * rewrite HF2. f_equal. rewrite app_assoc, butlastn_lastn. reflexivity.
      * intros b Hb. pose proof (Hfwd b Hb) as Hb1. destruct (Fr2 b Hb1) as (A & B & C).
        assert (Hbr : b <> r1) by (intros ->; contradiction).
        split; [rewrite A; now apply Hpso|]. split; [rewrite B; now apply updlk_other|exact C].
Qed.

(* ---------- a whole object ---------- *)
Lemma alloc_object_rep base lk s R R0 hl fl cl fields :
  InvA base s R hl fl cl -> KI lk s R -> Permutation R (nz fields ++ R0) -> fields <> [] ->
  exists lk' j' hl' fl' cl',
    let r := alloc_object fields s in
    InvA base (snd r) (fst r :: R0) hl' fl' cl' /\ KI lk' (snd r) (fst r :: R0) /\ fst r <> 0 /\
    lk' (fst r) = nlinks (length fields) /\ links_ok (lk' (fst r)) (m (snd r)) (fst r) /\
    obj_fields (lk' (fst r)) (m (snd r)) (fst r) = repeat 0 j' ++ fields /\
    (forall b, reach (m s) R b ->
       ps (m (snd r) b) = ps (m s b) /\ lk' b = lk b /\ reach (m (snd r)) (fst r :: R0) b).
Proof.
  intros IA K HR Hne. destruct fields as [|x f']; [congruence|]. set (fields := x :: f') in *.
  unfold alloc_object. fold fields.
  change (match fields with [] => (0, s) | _ => let '(b, s1) := alloc (pad 3 (lastn 3 fields)) s in store_other (length fields) (butlastn 3 fields) b s1 end)
    with (let '(b, s1) := alloc (pad 3 (lastn 3 fields)) s in store_other (length fields) (butlastn 3 fields) b s1).
  set (sl := pad 3 (lastn 3 fields)).
  assert (HP : Permutation R (nz sl ++ (nz (butlastn 3 fields) ++ R0))).
  { etransitivity; [exact HR|]. unfold sl. rewrite nz_pad, app_assoc. apply Permutation_app_tail. apply nz_split_last. }
  destruct (alloc_step base lk s R _ hl fl cl sl O IA HP K ltac:(congruence))
    as (Hfst & Hr0 & (hl1 & fl1 & cl1 & I1 & _ & _) & Hpsr & Hhr & Hpso & Hnr & Hfwd & K1).
  set (r1 := heap s) in *. set (lk1 := updlk lk r1 O) in *.
  destruct (alloc sl s) as [b s1] eqn:EA. cbn [fst snd] in *. subst b.
  assert (Elk1 : lk1 r1 = O) by apply updlk_same.
  assert (HL1 : links_ok (lk1 r1) (m s1) r1) by (rewrite Elk1; intros b [<-|[]]; exact Hr0).
  assert (HF1 : obj_fields (lk1 r1) (m s1) r1 = repeat 0 (3 - length (lastn 3 fields)) ++ (lastn 3 fields ++ [])).
  { rewrite Elk1, app_nil_r. cbn [obj_fields]. rewrite Hpsr. reflexivity. }
  assert (Hlen' : (length (butlastn 3 fields) <= length fields)%nat) by (rewrite length_butlastn; lia).
  assert (Hj1 : butlastn 3 fields <> [] -> (3 - length (lastn 3 fields))%nat = O).
  { intros Hn. rewrite length_lastn. destruct (butlastn 3 fields) eqn:E; [congruence|].
    pose proof (length_butlastn 3 fields) as L. rewrite E in L. cbn [length] in L. lia. }
  assert (I1' : InvA base s1 (r1 :: nz (butlastn 3 fields) ++ R0) hl1 fl1 cl1) by exact I1.
  destruct (store_other_rep base _ (butlastn 3 fields) r1 s1 R0 hl1 fl1 cl1 lk1 _ (lastn 3 fields ++ []) Hlen' I1' K1 Hr0 Hhr HL1 HF1 Hj1)
    as (lk2 & j2 & hl2 & fl2 & cl2 & I2 & K2 & N2 & Hh2 & Hlk2 & HL2 & HF2 & Fr2).
  exists lk2, j2, hl2, fl2, cl2. cbn zeta in *.
  split; [exact I2|]. split; [exact K2|]. split; [exact N2|]. split; [|split; [exact HL2|split]].
  - rewrite Hlk2, Elk1, length_butlastn, nlinks_half. reflexivity.
  - rewrite HF2, app_nil_r, butlastn_lastn. reflexivity.
  - intros b Hb. pose proof (Hfwd b Hb) as Hb1. destruct (Fr2 b Hb1) as (A & B & C).
    assert (Hbr : b <> r1) by (intros ->; contradiction).
    split; [rewrite A; now apply Hpso|]. split; [rewrite B; now apply updlk_other|exact C].
Qed.
