(* Consequences of Proof/AxHeapSafe.v stated for PROGRAMS (C09, C10): what holds in every
   configuration reachable by the instrumented machine of a linearity-checked program, the link
   between the fuelled runner `hexec` and reachability, and an executable count of the blocks in
   use (to instantiate the peak hypotheses of the footprint theorems on concrete runs). *)
From Coq Require Import List ZArith NArith Bool Lia Permutation.
From SCC Require Import Base.Sexp Lang.AxSyn Sem.AxSem Model.Linearize Model.LinCheck Sem.AxHeap.
From SCC Require Import Proof.LinBasics Proof.LinTyping Proof.AxHeapErase Proof.AxHeapTyping.
From SCC Require Proof.LinearizeProof.
From SCC Require Import Model.Heap Proof.HeapMore Proof.HeapTrace Proof.HeapRep Proof.HeapRepSubst Proof.HeapTracePerm
  Proof.AxHeapSafe.
Import ListNotations.
Open Scope list_scope.

(* ---------- the runner reaches what it returns ---------- *)
Lemma hsteps_front p c ops he' s' pr : forall tr c',
  hstep p (hc_env c) (hc_heap c) (hc_stmt c) = HStep ops he' s' pr ->
  hsteps p (mkhc he' (hrun ops (hc_heap c)) s') tr c' -> hsteps p c (ops ++ tr) c'.
Proof.
  intros tr c' HS H. remember (mkhc he' (hrun ops (hc_heap c)) s') as c0 eqn:E0.
  induction H as [c1|c1 tr c2 ops2 he2 s2 pr2 H IH HS2]; subst.
  - rewrite app_nil_r. rewrite <- (app_nil_l ops). eapply hsteps_step; [apply hsteps_refl|exact HS].
  - rewrite app_assoc. eapply hsteps_step; [exact (IH eq_refl)|exact HS2].
Qed.

Lemma hexec_hsteps p : forall fuel c out acc,
  exists tr, snd (hexec fuel p c out acc) = rev acc ++ tr /\ hsteps p c tr (snd (fst (hexec fuel p c out acc))).
Proof.
  induction fuel as [|fuel IH]; intros c out acc; cbn [hexec].
  - exists []. cbn [fst snd]. rewrite rev_append_rev, !app_nil_r. split; [reflexivity|apply hsteps_refl].
  - destruct (hstep p (hc_env c) (hc_heap c) (hc_stmt c)) as [ops he' s' pr|o] eqn:HS.
    + destruct (IH (mkhc he' (hrun ops (hc_heap c)) s') (push_print pr out) (rev_append ops acc)) as (tr & E & H).
      exists (ops ++ tr). split.
      * rewrite E, rev_append_rev, rev_app_distr, rev_involutive, <- app_assoc. reflexivity.
      * eapply hsteps_front; eauto.
    + exists []. cbn [fst snd]. rewrite rev_append_rev, !app_nil_r. split; [reflexivity|apply hsteps_refl].
Qed.

Theorem hrun_prog_reach fuel base p args o c tr :
  hrun_prog fuel base p args = Some (o, c, tr) -> hreach base p args tr c.
Proof.
  unfold hrun_prog, hreach. destruct (pdefs p) as [|d ds] eqn:PD; [discriminate|].
  destruct (entry_env d args) as [e|] eqn:EN; [|discriminate]. intros H. inversion H as [H1]. clear H.
  destruct (hexec_hsteps p fuel (hinit base d e) [] []) as (tr1 & E & HS). rewrite H1 in E, HS. cbn [fst snd rev app] in E, HS.
  subst tr1. exists d, ds, e. auto.
Qed.

Lemma reach_nil mm b : ~ reach mm [] b.
Proof. induction 1 as [b Hb _|x b _ IH _ _]; auto. Qed.

(* ---------- C09 on programs ---------- *)
Section Programs.
Variables (base : Z) (p : prog) (args : list Z).
Hypotheses (LP : lin_check_prog p = true) (EE : entry_ext p = true) (Hb : (0 < base)%Z).

(* the invariant, with the roots = the pointers of the environment = the non-ext variables of the
   typing context of the statement about to run *)
Theorem prog_inv tr c : hreach base p args tr c ->
  (exists hl fl cl, InvA base (hc_heap c) (roots (hc_env c)) hl fl cl) /\
  (exists cx, lin_wt (sigs_of p) cx (hc_stmt c) /\ ctx_of (hc_env c) = cx /\
              forall en, In en (hc_env c) -> chi_of (h_val en) = AxSyn.Ext -> h_ptr en = 0%Z).
Proof.
  intros H. destruct (program_heap_safe base p args tr c LP EE Hb H) as (_ & _ & _ & IA & (lk & _ & ER) & (cx & W & E)).
  split; [exact IA|]. exists cx. split; [exact W|]. split; [eapply env_wt_ctx_of; eauto|].
  eapply reps_ptrs_ok. exact ER.
Qed.

(* every operation the program performs meets its precondition, in the state in which it is performed *)
Theorem prog_trace_wf tr c : hreach base p args tr c ->
  pre_trace (init base) [] tr /\ hc_heap c = fst (grun tr (init base, [])) /\
  Permutation (snd (grun tr (init base, []))) (roots (hc_env c)).
Proof. intros H. destruct (program_heap_safe base p args tr c LP EE Hb H) as (A & B & C & _). auto. Qed.

(* no use after release: whatever a variable reaches is a counted block, on neither free list *)
Theorem prog_no_use_after_release tr c b : hreach base p args tr c ->
  reach (m (hc_heap c)) (roots (hc_env c)) b ->
  exists hl fl cl, InvA base (hc_heap c) (roots (hc_env c)) hl fl cl /\ In b cl /\ ~ In b hl /\ ~ In b fl.
Proof.
  intros H Hr. destruct (prog_inv tr c H) as ((hl & fl & cl & IA) & _). exists hl, fl, cl. split; [exact IA|].
  eapply no_use_after_release; eauto. apply IA.
Qed.

(* no double release: a pointer held by a variable is on no free list; dropping or consuming the last
   reference puts it on exactly one *)
Theorem prog_no_double_release tr c en : hreach base p args tr c -> In en (hc_env c) -> h_ptr en <> 0%Z ->
  exists hl fl cl, InvA base (hc_heap c) (roots (hc_env c)) hl fl cl /\ ~ In (h_ptr en) (hl ++ fl) /\ In (h_ptr en) cl.
Proof.
  intros H Hin Hp. destruct (prog_inv tr c H) as ((hl & fl & cl & IA) & _). exists hl, fl, cl. split; [exact IA|].
  assert (HR : In (h_ptr en) (roots (hc_env c))) by (apply in_nz; split; [apply in_map; exact Hin|exact Hp]).
  split; [apply (no_double_release _ _ _ _ _ _ (proj1 IA) Hp HR)|eapply root_counted; eauto; apply IA].
Qed.

(* no leak: every block below the frontier is reusable, deferred, or counted and then reachable from
   a variable or waiting beneath a deferred block *)
Theorem prog_classification tr c a : hreach base p args tr c -> blk base a -> (a < frontier (hc_heap c))%Z ->
  exists hl fl cl, InvA base (hc_heap c) (roots (hc_env c)) hl fl cl /\
   ((In a hl /\ ~ In a fl /\ ~ In a cl) \/ (In a fl /\ ~ In a hl /\ ~ In a cl) \/
    (In a cl /\ ~ In a hl /\ ~ In a fl /\
     (reach (m (hc_heap c)) (roots (hc_env c)) a \/ reach (m (hc_heap c)) (deferred_slots (hc_heap c) fl) a))).
Proof.
  intros H Ha Hlt. destruct (prog_inv tr c H) as ((hl & fl & cl & IA) & _). exists hl, fl, cl. split; [exact IA|].
  eapply classify_total_exclusive; eauto.
Qed.
(* in particular when no variable holds a pointer (as at `exit` after the final clean-up): every
   block is free, deferred, or waits beneath a deferred block *)
Corollary prog_exit_no_leak tr c a : hreach base p args tr c -> roots (hc_env c) = [] ->
  blk base a -> (a < frontier (hc_heap c))%Z ->
  exists hl fl cl, InvA base (hc_heap c) [] hl fl cl /\
    (In a hl \/ In a fl \/ (In a cl /\ reach (m (hc_heap c)) (deferred_slots (hc_heap c) fl) a)).
Proof.
  intros H HR Ha Hlt. destruct (prog_classification tr c a H Ha Hlt) as (hl & fl & cl & IA & Hc). rewrite HR in *.
  exists hl, fl, cl. split; [exact IA|]. destruct Hc as [(A & _)|[(A & _)|(A & _ & _ & [Hr|Hr])]]; auto.
  exfalso. eapply reach_nil; eauto.
Qed.

(* ---------- C10 on programs ---------- *)
Theorem prog_footprint_bound tr c pk : hreach base p args tr c -> peak_bound base tr pk ->
  ((frontier (hc_heap c) - base) / BLOCK <= Z.of_nat pk + 1)%Z.
Proof.
  intros H HB. destruct (prog_trace_wf tr c H) as (P & E & _). rewrite E. now apply footprint_bound.
Qed.
Theorem prog_footprint_exact tr c pk : hreach base p args tr c -> peak_bound base tr pk -> peak_attained base tr pk ->
  frontier (hc_heap c) = (base + (Z.of_nat pk + 1) * BLOCK)%Z.
Proof.
  intros H HB HA. destruct (prog_trace_wf tr c H) as (P & E & _). rewrite E. now apply footprint_exact.
Qed.
End Programs.

(* two runs (any arguments, any numbers of iterations) with the same peak end with the same frontier *)
Theorem prog_loop_space_constant base p args1 args2 tr1 c1 tr2 c2 pk :
  lin_check_prog p = true -> entry_ext p = true -> (0 < base)%Z ->
  hreach base p args1 tr1 c1 -> hreach base p args2 tr2 c2 ->
  peak_bound base tr1 pk -> peak_attained base tr1 pk -> peak_bound base tr2 pk -> peak_attained base tr2 pk ->
  frontier (hc_heap c1) = frontier (hc_heap c2).
Proof.
  intros LP EE Hb H1 H2 B1 A1 B2 A2.
  rewrite (prog_footprint_exact base p args1 LP EE Hb tr1 c1 pk), (prog_footprint_exact base p args2 LP EE Hb tr2 c2 pk); auto.
Qed.

(* steady state of a loop: from a reachable configuration whose frontier stands at pk + 1 blocks, any
   continuation (any number of further iterations) during which at most pk blocks are in use leaves
   the frontier where it is *)
Theorem prog_frontier_stable base p args tr c tr' c' (pk : nat) :
  lin_check_prog p = true -> entry_ext p = true -> (0 < base)%Z ->
  hreach base p args tr c -> hsteps p c tr' c' ->
  (forall sr n, In sr (states tr' (hc_heap c, roots (hc_env c))) -> in_use base sr n -> (n <= pk)%nat) ->
  (frontier (hc_heap c) - base = (Z.of_nat pk + 1) * BLOCK)%Z ->
  frontier (hc_heap c') = frontier (hc_heap c).
Proof.
  intros LP EE Hb H HS HB HF.
  destruct (program_heap_safe base p args tr c LP EE Hb H) as (_ & _ & _ & (hl & fl & cl & IA) & (lk & K & ER) & W).
  assert (HI : HInv base (hc_env c) (hc_heap c)) by (exists lk; eauto 10).
  destruct (hsteps_safe base p c tr' c' LP W HI HS) as (P & E & _). rewrite E.
  eapply frontier_stable_after_peak; eauto.
Qed.
(* ... and in general the frontier never exceeds max(where it stood, peak in use + 1) *)
Theorem prog_footprint_from base p args tr c tr' c' (pk : nat) :
  lin_check_prog p = true -> entry_ext p = true -> (0 < base)%Z ->
  hreach base p args tr c -> hsteps p c tr' c' ->
  (forall sr n, In sr (states tr' (hc_heap c, roots (hc_env c))) -> in_use base sr n -> (n <= pk)%nat) ->
  (frontier (hc_heap c) - base <= (Z.of_nat pk + 1) * BLOCK)%Z ->
  (frontier (hc_heap c') - base <= (Z.of_nat pk + 1) * BLOCK)%Z.
Proof.
  intros LP EE Hb H HS HB HF.
  destruct (program_heap_safe base p args tr c LP EE Hb H) as (_ & _ & _ & (hl & fl & cl & IA) & (lk & K & ER) & W).
  assert (HI : HInv base (hc_env c) (hc_heap c)) by (exists lk; eauto 10).
  destruct (hsteps_safe base p c tr' c' LP W HI HS) as (P & E & _). rewrite E.
  eapply footprint_gen; eauto.
Qed.

(* everything the linearization pass produces from a checked named program *)
Theorem compiled_program_heap_safe base p args tr c :
  prog_ok p = true -> entry_ext (linearize p) = true -> (0 < base)%Z ->
  hreach base (linearize p) args tr c ->
  pre_trace (init base) [] tr /\
  (exists hl fl cl, InvA base (hc_heap c) (roots (hc_env c)) hl fl cl).
Proof.
  intros OK EE Hb H.
  destruct (program_heap_safe base (linearize p) args tr c (LinearizeProof.linearize_exact p OK) EE Hb H) as (A & _ & _ & B & _). auto.
Qed.

(* ---------- an executable count of the blocks in use ---------- *)
Fixpoint hl_walk (fuel : nat) (mm : mem) (a : Z) : option (list Z) :=
  if (a =? 0)%Z then Some []
  else match fuel with
       | O => None
       | S f => match hl_walk f mm (hdr (mm a)) with Some l => Some (a :: l) | None => None end
       end.
Lemma hl_walk_chain mm : forall fuel a l, hl_walk fuel mm a = Some l -> chain mm 0 a l.
Proof.
  induction fuel as [|f IH]; intros a l H; cbn [hl_walk] in H; destruct (Z.eqb_spec a 0) as [->|Ha].
  - inversion H. constructor.
  - discriminate.
  - inversion H. constructor.
  - destruct (hl_walk f mm (hdr (mm a))) as [l'|] eqn:E; [|discriminate]. inversion H; subst. constructor; auto.
Qed.
Definition in_use_n (base : Z) (fuel : nat) (s : st) : option nat :=
  match hl_walk fuel (m s) (heap s) with
  | Some l => Some (Z.to_nat ((frontier s - base) / BLOCK) - length l)%nat
  | None => None
  end.
Lemma in_use_n_spec base fuel s R n k : in_use base (s, R) n -> in_use_n base fuel s = Some k -> n = k.
Proof.
  intros (hl & fl & cl & IA & ->) H. unfold in_use_n in H. cbn [fst snd] in *.
  destruct (hl_walk fuel (m s) (heap s)) as [l|] eqn:E; [|discriminate]. inversion H; subst. clear H.
  apply hl_walk_chain in E. assert (l = hl) by (eapply chain_unique; [exact E|apply (i_hl _ _ _ _ _ (proj1 IA))]). subst l.
  pose proof (frontier_blocks _ _ _ _ _ _ IA) as F. rewrite F, Z.div_mul by (unfold BLOCK; lia). lia.
Qed.

(* the peak hypotheses from a computation over the states of the trace *)
Fixpoint peak_n (base : Z) (fuel : nat) (ops : list op) (s : st) : option nat :=
  match in_use_n base fuel s with
  | None => None
  | Some k => match ops with
              | [] => Some k
              | o :: r => match peak_n base fuel r (step s o) with Some k' => Some (Nat.max k k') | None => None end
              end
  end.
Lemma peak_n_bound base fuel : forall ops s R pk, peak_n base fuel ops s = Some pk ->
  forall sr n, In sr (states ops (s, R)) -> in_use base sr n -> (n <= pk)%nat.
Proof.
  induction ops as [|o ops IH]; intros s R pk H sr n Hin HU; cbn [peak_n] in H;
    destruct (in_use_n base fuel s) as [k|] eqn:E; try discriminate.
  - inversion H; subst. destruct Hin as [<-|[]]. rewrite (in_use_n_spec _ _ _ _ _ _ HU E). lia.
  - destruct (peak_n base fuel ops (step s o)) as [k'|] eqn:E'; [|discriminate]. inversion H; subst.
    cbn [states] in Hin. destruct Hin as [<-|Hin].
    + rewrite (in_use_n_spec _ _ _ _ _ _ HU E). lia.
    + unfold gstep in Hin. cbn [fst snd] in Hin. pose proof (IH _ _ _ E' sr n Hin HU). lia.
Qed.
Lemma peak_n_attained base fuel : forall ops s R hl fl cl pk,
  InvA base s R hl fl cl -> pre_trace s R ops -> peak_n base fuel ops s = Some pk ->
  exists sr, In sr (states ops (s, R)) /\ in_use base sr pk.
Proof.
  induction ops as [|o ops IH]; intros s R hl fl cl pk IA HP H; cbn [peak_n] in H;
    destruct (in_use_n base fuel s) as [k|] eqn:E; try discriminate.
  - inversion H; subst. exists (s, R). split; [now left|].
    assert (HU : in_use base (s, R) (length cl + length fl)) by (exists hl, fl, cl; auto).
    rewrite <- (in_use_n_spec _ _ _ _ _ _ HU E). exact HU.
  - destruct (peak_n base fuel ops (step s o)) as [k'|] eqn:E'; [|discriminate]. inversion H; subst. clear H.
    destruct HP as [HP1 HP2]. destruct (heap_inv_step base s R hl fl cl o IA HP1) as (hl1 & fl1 & cl1 & I1 & _).
    destruct (Nat.max_spec k k') as [[_ ->]|[_ ->]].
    + destruct (IH _ _ _ _ _ _ I1 HP2 E') as (sr & Hin & HU). exists sr. split; [cbn [states]; right; exact Hin|exact HU].
    + exists (s, R). split; [now left|].
      assert (HU : in_use base (s, R) (length cl + length fl)) by (exists hl, fl, cl; auto).
      rewrite <- (in_use_n_spec _ _ _ _ _ _ HU E). exact HU.
Qed.
Theorem peak_n_peak base fuel ops pk :
  (0 < base)%Z -> pre_trace (init base) [] ops -> peak_n base fuel ops (init base) = Some pk ->
  peak_bound base ops pk /\ peak_attained base ops pk.
Proof.
  intros Hb HP H. split.
  - intros sr n. eapply peak_n_bound; eauto.
  - eapply peak_n_attained; eauto. now apply init_invA.
Qed.
