(* Proof/ShrinkSimE.v (C04, fragment 2) - known cuts <K(args) | case {..}> and <cocase {..} | D(args)>:
   shrinking continues with the selected clause body, parameters renamed to the arguments; the Core
   machine binds the parameters to the argument values. *)
From Coq Require Import List ZArith NArith String Bool Lia.
From SCC Require Import Base.Sexp Lang.SynUtil Lang.CoreSyn Lang.AxSyn Sem.AxSem Sem.FsCheck Model.Shrink
     Proof.ShrinkProof Proof.ShrinkSem Proof.ShrinkRn Proof.ShrinkRel Proof.ShrinkArgs Proof.ShrinkSimBase
     Proof.ShrinkSimA Proof.ShrinkSimB Proof.ShrinkSimData Proof.ShrinkSimC Proof.ShrinkSimD.
From SCC Require Sem.CoreSem.
Import ListNotations.
Open Scope list_scope.

Section CasesE.
Variable p : fsprog.
Variable q : prog.
Notation P := (CoreSem.fs2c_prog p).
Notation data := (fspdata p).
Notation codata := (fspcodata p).
Notation defs := (fspdefs p).
Notation m0 := (fspmax p).
Notation D := (data ++ [cont_int]).
Notation IHn := (IHn p q).
Hypothesis Hdisj : forall n, find_decl data n <> None -> find_decl codata n = None.

Lemma alias_names : forall G rho th st ctx args, inv p G rho th st -> NoDup (cids ctx) ->
  (forall i, In i (cids ctx) -> ~ In i (cids G) /\ (i <= m0)%N) -> List.length args = List.length ctx ->
  map (fun b => th (subst_ident (combine (cids ctx) (cvars (rn_ctx rho args))) (rho (cbvar b)))) ctx
  = map (fun a => th (rho (cbvar a))) args.
Proof.
  intros G rho th st ctx args Hinv Hnd Hids Hlen.
  transitivity (map th (map (fun b => subst_ident (combine (cids ctx) (cvars (rn_ctx rho args))) (cbvar b)) ctx)).
  - rewrite map_map. apply map_ext_in. intros b Hb.
    assert (Hbi : In (cid_id (cbvar b)) (cids ctx)) by (unfold cids; apply in_map_iff; eauto).
    destruct (Hids _ Hbi). rewrite (inv_rho _ _ _ _ _ Hinv); auto.
  - rewrite subst_combine_map; [|exact Hnd|].
    + rewrite cvars_rn_ctx. unfold cvars. rewrite !map_map. reflexivity.
    + rewrite cvars_rn_ctx. unfold cvars. rewrite !map_length. exact Hlen.
Qed.

Lemma known_sim : forall j, FLn p q j ->
  forall k lbl side T d cls G rho th st t st' A e ae K sg args vs what,
  inv p G rho th st ->
  clauses_match side T cls (ctxtors d) = None -> check_bodies data codata defs G cls = None ->
  ub_clauses (cids G) cls = true -> ib_clauses m0 cls = true -> nc_clauses (cvars G) cls = true ->
  find_cxtor d K = Some sg -> fargs_ok what G args (cxargs sg) = None ->
  shrink_known_cuts (shrink_stmt k (mksenv D codata lbl)) K (cvars (rn_ctx rho args)) (rn_clauses rho cls) st = SOk (t, st') ->
  pfresh A t = true -> lifted_in q st' ->
  erel p q j (fun x => occ_ctx x args \/ occ_clauses x cls) (fun x => th (rho x)) A G e ae ->
  omap (arg_val e) args = Some vs ->
  beh p q j (CoreSem.select (fs2c_clauses cls) e K vs) ae (arn th t).
Proof.
  intros j FL k lbl side T d cls G rho th st t st' A e ae K sg args vs what Hinv Hcm Hcb Hub Hib Hnc Hx Hfa Hsh Hpf Hlift He Hvs.
  destruct (clauses_match_find _ _ _ _ _ _ Hcm Hx) as (cl0 & Hf & Hn & Hps).
  assert (Hin : In cl0 cls) by (apply find_some in Hf; tauto).
  destruct (ib_clauses_in p _ _ Hib Hin) as [Hibc Hibb].
  destruct (ub_clauses_in _ _ _ Hub Hin) as [Hubc Hubb]. apply fresh_ids_spec in Hubc as [Hnd Hnotin].
  unfold shrink_known_cuts in Hsh. rewrite find_rn_clauses, Hf in Hsh. cbn [option_map] in Hsh.
  destruct cl0 as [c0 x0 ctx0 b0]. cbn [rn_clause clause_ctx clause_body clause_xtor] in *.
  rewrite subst_is_rn, rn_comp in Hsh.
  assert (Hneed : forall b, In b args -> occ_ctx (cbvar b) args \/ occ_clauses (cbvar b) cls).
  { intros b Hb. left. now apply occ_args. }
  destruct (args_rel p q _ _ _ _ _ _ _ _ He (inv_nd _ _ _ _ _ Hinv) _ _ _ Hfa Hneed Hvs) as (avs & Hlk & Hrel).
  pose proof (args_scope p q _ _ _ _ _ _ _ He (inv_nd _ _ _ _ _ Hinv) _ _ Hneed Hvs) as Hscope.
  assert (Hids : forall i, In i (cids ctx0) -> ~ In i (cids G) /\ (i <= m0)%N).
  { intros i Hi. split; [now apply Hnotin | eapply ctx_le_ids; eauto]. }
  assert (Hlen : List.length args = List.length ctx0).
  { rewrite (fparams_ok_length _ _ Hps). eapply fargs_ok_length; eauto. }
  pose proof (alias_names _ _ _ _ _ _ Hinv Hnd Hids Hlen) as Hnames.
  intros out r Hr Hg. unfold CoreSem.select in Hr. rewrite cfind_clause_fs2c, Hf in Hr. cbn [option_map] in Hr.
  cbn [CoreSem.fs2c_clause CoreSem.cl_ctx CoreSem.cl_body] in Hr.
  destruct (CoreSem.cbind (cvars ctx0) vs e) as [e'|] eqn:Ecb; [|exfalso; eapply cont_stuck; eauto].
  cbn [cont] in Hr.
  set (zs := cvars (rn_ctx rho args)) in *.
  assert (Hinv' : inv p (ctx0 ++ G) (fun y => subst_ident (combine (cids ctx0) zs) (rho y)) th st).
  { apply inv_ext; auto. intros z Hz. unfold zs in Hz. rewrite cvars_rn_ctx in Hz. unfold cvars in Hz. rewrite map_map in Hz.
    apply in_map_iff in Hz as (a & <- & Ha). destruct (Hscope a Ha) as (_ & b1 & Hb1 & <-). apply (inv_rng _ _ _ _ _ Hinv). exact Hb1. }
  assert (He' : erel p q j (fun y => occurs y b0) (fun y => th (subst_ident (combine (cids ctx0) zs) (rho y))) A (ctx0 ++ G) e' ae).
  { eapply erel_alias_list with (pi := fun y => th (rho y)) (vs := vs) (avs := avs).
    - exact He.
    - intros b Hb Hn0. split.
      + right. exists (FsClause c0 x0 ctx0 b0). split; [exact Hin | exact Hn0].
      + cbn beta. rewrite (inv_old p _ _ _ _ _ zs _ Hinv Hb Hids). reflexivity.
    - eapply vrels_sig; eauto.
    - cbn beta. etransitivity; [|exact Hlk]. f_equal. exact Hnames.
    - intros b Hb. assert (Hi : In (th (subst_ident (combine (cids ctx0) zs) (rho (cbvar b))))
                                   (map (fun b => th (subst_ident (combine (cids ctx0) zs) (rho (cbvar b)))) ctx0)) by (apply in_map_iff; eauto).
      rewrite Hnames in Hi. apply in_map_iff in Hi as (a & <- & Ha). apply (Hscope a Ha).
    - exact Ecb. }
  eapply (FL b0 k lbl (ctx0 ++ G) _ th st t st'); eauto.
  - apply (check_bodies_in p _ _ (FsClause c0 x0 ctx0 b0) Hcb Hin).
  - rewrite <- ub_cids_app. exact Hubb.
  - unfold cvars. rewrite map_app. apply (nc_clauses_in _ _ (FsClause c0 x0 ctx0 b0) Hnc Hin).
Qed.

(* <K(args) | case {..}> *)
Lemma fl_known_ctor : forall n, IHn n -> forall c1 K args t1 ty c2 cls t2,
  FLs p q n (FsCut (FsXtor c1 K args t1) ty (FsXCase c2 cls t2)).
Proof.
  intros n IH c1 K args t1 ty c2 cls t2. start. cbn [rn_stmt] in Hsh. rewrite rn_term_xcase in Hsh.
  cbn [rn_term shrink_step shrink_cut] in Hsh.
  rewrite check_stmt_cut_eq in Hck. apply seq_none in Hck as [Hty Hck]. apply seq_none in Hck as [Hcp Hck].
  destruct (xtor_typing p _ _ _ _ _ _ _ Hcp) as (T & d & sg & -> & Hd & Hx & Hfa).
  destruct (xcase_typing p _ _ _ _ _ _ Hck) as (T' & d' & ET & Hd' & Hcm & Hcb). injection ET as <-.
  rewrite Hd in Hd'. injection Hd' as <-.
  rewrite ib_stmt_cut, ib_term_xcase in Hib. apply andb_prop in Hib as [_ Hib].
  cbn [ub_stmt] in Hub. rewrite ub_term_xcase in Hub. cbn [ub_term andb] in Hub.
  cbn [CoreSem.fs2c_stmt] in Hrun. rewrite fs2c_term_xcase in Hrun. cbn [CoreSem.fs2c_term] in Hrun.
  core_step Hrun Hg n.
  apply start_args_eval in Hrun as (n1 & vs & Hle & Hvs & Hrun); [|exact Hg]. cbn [CoreSem.finish_args cont] in Hrun.
  core_step Hrun Hg n1. cbn [CoreSem.khead CoreSem.interact_val] in Hrun.
  eapply (known_sim n1 (IH n1 ltac:(lia)) k lbl CCns T d cls G rho th st t st' A e ae K sg args vs); eauto.
  { eapply nc_cut_case_r; eauto. }
  eapply erel_weaken; [exact He | lia | | apply incl_refl].
  intros y [Hy|Hy]; cbn [occurs occ_term]; [left; exact Hy | right; apply occ_term_xcase; assumption].
Qed.

(* <cocase {..} | D(args)> *)
Lemma fl_known_dtor : forall n, IHn n -> forall c1 cls t1 ty c2 K args t2,
  FLs p q n (FsCut (FsXCase c1 cls t1) ty (FsXtor c2 K args t2)).
Proof.
  intros n IH c1 cls t1 ty c2 K args t2. start. cbn [rn_stmt] in Hsh. rewrite rn_term_xcase in Hsh.
  cbn [rn_term shrink_step shrink_cut] in Hsh.
  rewrite check_stmt_cut_eq in Hck. apply seq_none in Hck as [Hty Hck]. apply seq_none in Hck as [Hcp Hck].
  destruct (xtor_typing p _ _ _ _ _ _ _ Hck) as (T & d & sg & -> & Hd & Hx & Hfa).
  destruct (xcase_typing p _ _ _ _ _ _ Hcp) as (T' & d' & ET & Hd' & Hcm & Hcb). injection ET as <-.
  rewrite Hd in Hd'. injection Hd' as <-.
  rewrite ib_stmt_cut, ib_term_xcase in Hib. apply andb_prop in Hib as [Hib _].
  cbn [ub_stmt] in Hub. rewrite ub_term_xcase in Hub. cbn [ub_term] in Hub. rewrite andb_true_r in Hub.
  cbn [CoreSem.fs2c_stmt] in Hrun. rewrite fs2c_term_xcase in Hrun. cbn [CoreSem.fs2c_term] in Hrun.
  core_step Hrun Hg n.
  apply start_args_eval in Hrun as (n1 & vs & Hle & Hvs & Hrun); [|exact Hg]. cbn [CoreSem.finish_args cont] in Hrun.
  core_step Hrun Hg n1. cbn [CoreSem.cut_with_k CoreSem.interact_val] in Hrun.
  eapply (known_sim n1 (IH n1 ltac:(lia)) k lbl CPrd T d cls G rho th st t st' A e ae K sg args vs); eauto.
  { eapply nc_cut_case_l; eauto. }
  eapply erel_weaken; [exact He | lia | | apply incl_refl].
  intros y [Hy|Hy]; cbn [occurs occ_term]; [right; exact Hy | left; apply occ_term_xcase; assumption].
Qed.
End CasesE.
