(* Proof/CoreTyRules.v (C12) - the checker Sem/CoreCheck.v read as typing rules.
   One equivalence per constructor (`ccheck_* ... = None <-> premises`), with the nested list
   traversals (xtor/call arguments, clauses) expressed by Forall2 / Forall.  Used in both directions:
   to BUILD derivations (the translation fun2core produces well-typed Core) and to INVERT them
   (uniquify / focus consume a well-typed program). *)
From Coq Require Import List ZArith NArith String Bool Lia.
From SCC Require Import Base.Sexp Lang.SynUtil Lang.CoreSyn Sem.FsCheck Sem.CoreCheck.
Import ListNotations.
Open Scope list_scope.

(* ---------- equality tests ---------- *)
Lemma ceq_id : forall a b, cident_eqb a b = true <-> a = b.
Proof.
  intros [a1 a2] [b1 b2]. unfold cident_eqb. simpl. rewrite andb_true_iff, String.eqb_eq, N.eqb_eq.
  split; [intros [H1 H2]; subst; reflexivity | intros H; injection H as H1 H2; auto].
Qed.
Lemma ceq_id_refl : forall a, cident_eqb a a = true.
Proof. intros a. apply ceq_id. reflexivity. Qed.
Lemma ceq_id_neq : forall a b, cident_eqb a b = false <-> a <> b.
Proof. intros a b. rewrite <- ceq_id. destruct (cident_eqb a b); split; congruence. Qed.
Lemma ceq_chi : forall a b, cchi_eqb a b = true <-> a = b.
Proof. intros [|] [|]; simpl; split; congruence. Qed.
Lemma ceq_ty : forall a b, cty_eqb a b = true <-> a = b.
Proof.
  intros [|x] [|y]; simpl; try (split; congruence).
  rewrite ceq_id. split; congruence.
Qed.
Lemma ceq_ty_refl : forall a, cty_eqb a a = true.
Proof. intros a. apply ceq_ty. reflexivity. Qed.
Lemma ceq_chi_refl : forall a, cchi_eqb a a = true.
Proof. intros [|]; reflexivity. Qed.

Lemma seqn {X} (a b : option X) : match a with None => b | Some e => Some e end = None <-> a = None /\ b = None.
Proof.
  destruct a; split.
  - discriminate.
  - intros [H _]; discriminate.
  - auto.
  - intros [_ H]; exact H.
Qed.
Lemma fens (b : bool) m : fensure b m = None <-> b = true.
Proof. destruct b; simpl; split; congruence. Qed.

(* ---------- lookup ---------- *)
Lemma clookup_var : forall G x b, clookup G x = Some b -> cbvar b = x.
Proof.
  induction G as [|b0 r IH]; simpl; intros x b H; [discriminate|].
  destruct (cident_eqb (cbvar b0) x) eqn:E; [|apply IH; exact H].
  injection H as H. subst. apply ceq_id. exact E.
Qed.
Lemma clookup_In : forall G x b, clookup G x = Some b -> In b G.
Proof.
  induction G as [|b0 r IH]; simpl; intros x b H; [discriminate|].
  destruct (cident_eqb (cbvar b0) x); [injection H as H; left; exact H | right; eapply IH; exact H].
Qed.
Lemma clookup_cons : forall b0 G x,
  clookup (b0 :: G) x = if cident_eqb (cbvar b0) x then Some b0 else clookup G x.
Proof. reflexivity. Qed.
Lemma clookup_app : forall A G x,
  clookup (A ++ G) x = match clookup A x with Some b => Some b | None => clookup G x end.
Proof.
  induction A as [|b0 r IH]; simpl; intros G x; [reflexivity|].
  destruct (cident_eqb (cbvar b0) x); [reflexivity | apply IH].
Qed.
Lemma clookup_none : forall G x, clookup G x = None <-> ~ In x (cvars G).
Proof.
  induction G as [|b0 r IH]; simpl; intros x; [tauto|].
  destruct (cident_eqb (cbvar b0) x) eqn:E.
  - apply ceq_id in E. split; [discriminate | intros H; exfalso; apply H; left; exact E].
  - apply ceq_id_neq in E. rewrite IH. tauto.
Qed.
Lemma clookup_nodup : forall G b, NoDup (cvars G) -> In b G -> clookup G (cbvar b) = Some b.
Proof.
  induction G as [|b0 r IH]; simpl; intros b Hnd Hin; [contradiction|].
  inversion Hnd as [|? ? Hn Hnd']; subst.
  destruct Hin as [->|Hin]; [rewrite ceq_id_refl; reflexivity|].
  destruct (cident_eqb (cbvar b0) (cbvar b)) eqn:E; [|apply IH; assumption].
  apply ceq_id in E. exfalso. apply Hn. rewrite E. apply in_map. exact Hin.
Qed.

Lemma cbound_iff : forall G x c t, cbound G x c t = None <-> clookup G x = Some (mkcb x c t).
Proof.
  intros G x c t. unfold cbound. destruct (clookup G x) as [b|] eqn:E.
  - rewrite fens, andb_true_iff, ceq_chi, ceq_ty. pose proof (clookup_var _ _ _ E) as Hv.
    destruct b as [v c' t']; simpl in *. subst v. split.
    + intros [-> ->]. reflexivity.
    + intros H. injection H as -> ->. auto.
  - split; discriminate.
Qed.

Lemma nodup_by_NoDup : forall (l : list cident), nodup_by cident_eqb l = true <-> NoDup l.
Proof.
  induction l as [|x r IH]; simpl; [split; [constructor | reflexivity]|].
  rewrite andb_true_iff, IH, negb_true_iff. split.
  - intros [H1 H2]. constructor; [|exact H2]. intros Hin.
    assert (existsb (cident_eqb x) r = true) by (apply existsb_exists; exists x; split; [exact Hin | apply ceq_id_refl]).
    congruence.
  - intros H. inversion H as [|? ? Hn Hnd]; subst. split; [|exact Hnd].
    destruct (existsb (cident_eqb x) r) eqn:E; [|reflexivity].
    apply existsb_exists in E. destruct E as [y [Hy Ey]]. apply ceq_id in Ey. subst y. contradiction.
Qed.

Section Rules.
Variables (data codata : list ctydecl) (defs : list cdef).
Notation ct := (ccheck_term data codata defs).
Notation cs := (ccheck_stmt data codata defs).

Definition arg_typed (G : cctx) (a : carg) (s : cbinding) : Prop :=
  match a, cbchi s with
  | CProducer p, CPrd => ct G CPrd (cbty s) p = None
  | CConsumer k, CCns => ct G CCns (cbty s) k = None
  | _, _ => False
  end.
Definition args_typed (G : cctx) : list carg -> cctx -> Prop := Forall2 (arg_typed G).
Definition clause_typed (G : cctx) (cl : cclause) : Prop :=
  match cl with CClause _ _ ctx body => cs (ctx ++ G) body = None end.

(* the argument loop of xtors and calls (the two copies differ in their messages only) *)
Definition cargs_loop (m1 : cbinding -> string) (m2 : string) (G : cctx) : list carg -> cctx -> option string :=
  fix go (args : list carg) (sig : cctx) {struct args} : option string :=
    match args, sig with
    | [], [] => None
    | a :: ar, s :: sr =>
        match
          match a, cbchi s with
          | CProducer p, CPrd => ct G CPrd (cbty s) p
          | CConsumer k, CCns => ct G CCns (cbty s) k
          | _, _ => Some (m1 s)
          end
        with None => go ar sr | Some e => Some e end
    | _, _ => Some m2
    end.
Lemma cargs_loop_iff : forall m1 m2 G args sig, cargs_loop m1 m2 G args sig = None <-> args_typed G args sig.
Proof.
  intros m1 m2 G. induction args as [|a ar IH]; intros [|s sr]; simpl.
  - split; [constructor | reflexivity].
  - split; [discriminate | intros H; inversion H].
  - split; [discriminate | intros H; inversion H].
  - rewrite seqn, IH. split.
    + intros [H1 H2]. constructor; [|exact H2]. unfold arg_typed.
      destruct a, (cbchi s); try discriminate; exact H1.
    + intros H. inversion H as [|? ? ? ? Ha Hr]; subst. split; [|exact Hr].
      unfold arg_typed in Ha. destruct a, (cbchi s); try contradiction; exact Ha.
Qed.

Definition cclauses_loop (G : cctx) : list cclause -> option string :=
  fix go (cls : list cclause) {struct cls} : option string :=
    match cls with
    | [] => None
    | CClause _ _ ctx body :: cr => match cs (ctx ++ G) body with None => go cr | Some e => Some e end
    end.
Lemma cclauses_loop_iff : forall G cls, cclauses_loop G cls = None <-> Forall (clause_typed G) cls.
Proof.
  intros G. induction cls as [|[c x ctx body] cr IH]; simpl.
  - split; [constructor | reflexivity].
  - rewrite seqn, IH. split.
    + intros [H1 H2]. constructor; assumption.
    + intros H. inversion H; subst. split; assumption.
Qed.

(* ---------- one rule per constructor ---------- *)
Lemma ct_var : forall G side ty c v t',
  ct G side ty (CXVar c v t') = None <-> c = side /\ t' = ty /\ clookup G v = Some (mkcb v side ty).
Proof.
  intros. cbn [ccheck_term]. rewrite !seqn, !fens, ceq_chi, ceq_ty, cbound_iff. tauto.
Qed.
Lemma ct_lit : forall G side ty n, ct G side ty (CLit n) = None <-> side = CPrd /\ ty = CI64.
Proof. intros. cbn [ccheck_term]. rewrite seqn, !fens, ceq_chi, ceq_ty. tauto. Qed.
Lemma ct_op : forall G side ty a o b,
  ct G side ty (COp a o b) = None <->
  side = CPrd /\ ty = CI64 /\ ct G CPrd CI64 a = None /\ ct G CPrd CI64 b = None.
Proof. intros. cbn [ccheck_term]. rewrite !seqn, !fens, ceq_chi, ceq_ty. tauto. Qed.
Lemma ct_mu : forall G side ty c v s t',
  ct G side ty (CMu c v s t') = None <-> c = side /\ t' = ty /\ cs (mkcb v (opp side) ty :: G) s = None.
Proof. intros. cbn [ccheck_term]. rewrite !seqn, !fens, ceq_chi, ceq_ty. tauto. Qed.

Definition xdecls (side : cchi) : list ctydecl := match side with CPrd => data | CCns => codata end.
Definition cdecls (side : cchi) : list ctydecl := match side with CPrd => codata | CCns => data end.

Lemma ct_xtor : forall G side ty c x args t',
  ct G side ty (CXtor c x args t') = None <->
  c = side /\ t' = ty /\
  exists n d sg, ty = CDecl n /\ find_decl (xdecls side) n = Some d /\ find_cxtor d x = Some sg /\
                 args_typed G args (cxargs sg).
Proof.
  intros. cbn [ccheck_term]. rewrite !seqn, !fens, ceq_chi, ceq_ty.
  split.
  - intros [H1 [H2 H3]]. split; [exact H1|]. split; [exact H2|].
    destruct ty as [|n]; [discriminate|]. fold (xdecls side) in H3.
    destruct (find_decl (xdecls side) n) as [d|] eqn:Ed; [|discriminate].
    destruct (find_cxtor d x) as [sg|] eqn:Es; [|discriminate].
    exists n, d, sg. repeat split; auto.
    eapply (cargs_loop_iff (fun s => _) _). exact H3.
  - intros [H1 [H2 [n [d [sg [-> [Ed [Es Ha]]]]]]]]. split; [exact H1|]. split; [exact H2|].
    fold (xdecls side). rewrite Ed, Es.
    eapply (cargs_loop_iff (fun s => _) _). exact Ha.
Qed.

Lemma ct_xcase : forall G side ty c cls t',
  ct G side ty (CXCase c cls t') = None <->
  c = side /\ t' = ty /\
  exists n d, ty = CDecl n /\ find_decl (cdecls side) n = Some d /\
              cclauses_match side n cls (ctxtors d) = None /\ Forall (clause_typed G) cls.
Proof.
  intros. cbn [ccheck_term]. rewrite !seqn, !fens, ceq_chi, ceq_ty.
  split.
  - intros [H1 [H2 H3]]. split; [exact H1|]. split; [exact H2|].
    destruct ty as [|n]; [discriminate|]. fold (cdecls side) in H3.
    destruct (find_decl (cdecls side) n) as [d|] eqn:Ed; [|discriminate].
    apply seqn in H3. destruct H3 as [H3 H4].
    exists n, d. repeat split; auto. apply cclauses_loop_iff. exact H4.
  - intros [H1 [H2 [n [d [-> [Ed [Hm Hc]]]]]]]. split; [exact H1|]. split; [exact H2|].
    fold (cdecls side). rewrite Ed. apply seqn. split; [exact Hm|]. apply cclauses_loop_iff. exact Hc.
Qed.

Lemma cs_cut : forall G p ty k,
  cs G (CCut p ty k) = None <-> cty_ok data codata ty = true /\ ct G CPrd ty p = None /\ ct G CCns ty k = None.
Proof. intros. cbn [ccheck_stmt]. rewrite !seqn, fens. tauto. Qed.
Lemma cs_ifc : forall G so a b t e,
  cs G (CIfC so a b t e) = None <->
  ct G CPrd CI64 a = None /\ match b with Some b' => ct G CPrd CI64 b' = None | None => True end /\
  cs G t = None /\ cs G e = None.
Proof. intros. cbn [ccheck_stmt]. rewrite !seqn. destruct b; tauto. Qed.
Lemma cs_print : forall G nl a next,
  cs G (CPrint nl a next) = None <-> ct G CPrd CI64 a = None /\ cs G next = None.
Proof. intros. cbn [ccheck_stmt]. rewrite !seqn. tauto. Qed.
Lemma cs_call : forall G f args ty,
  cs G (CCall f args ty) = None <->
  cty_ok data codata ty = true /\
  exists d, find (fun d => cident_eqb (cdname d) f) defs = Some d /\ args_typed G args (cdctx d).
Proof.
  intros. cbn [ccheck_stmt]. rewrite seqn, fens. split.
  - intros [H1 H2]. split; [exact H1|].
    destruct (find (fun d => cident_eqb (cdname d) f) defs) as [d|]; [|discriminate].
    exists d. split; [reflexivity|]. eapply (cargs_loop_iff (fun s => _) _). exact H2.
  - intros [H1 [d [Hf Ha]]]. split; [exact H1|]. rewrite Hf.
    eapply (cargs_loop_iff (fun s => _) _). exact Ha.
Qed.
Lemma cs_exit : forall G a ty,
  cs G (CExit a ty) = None <-> cty_ok data codata ty = true /\ ct G CPrd CI64 a = None.
Proof. intros. cbn [ccheck_stmt]. rewrite seqn, fens. tauto. Qed.

End Rules.
