(* ======================================================================================
   Proof/Fun2CoreTyMain  -  the translation of a guarded term is well typed.
   [TW t]: for every scope G in which the guard [tg] holds of t, every continuation cont that is a
   consumer of the type of t in G and stays one under the binders of t (invariant [KT]; no capture guard:
   the repaired translation keeps a continuation outside of binders whose names it mentions), the statement  wc t cont  is typed in G; the typed free variables of the output have declared
   types and every definition lifted on the way (`share`) is well typed.
   [TC t]: the same for  cmp t ty  (a producer of the type of t).
   Helper lemmas for the nested traversals (arguments, clauses, coclauses) and for the default
   `compile` (fresh covariable, then compile_with_cont).
   ====================================================================================== *)
From Coq Require Import List ZArith NArith String Bool Lia.
From SCC Require Import Base.Sexp Lang.SynUtil Lang.FunSyn Lang.FunTy Lang.CoreSyn.
From SCC Require Import Sem.AxSem Sem.FunSem Sem.FsCheck Sem.CoreCheck Model.Fun2Core Model.Fun2CoreGuard Model.Fun2CoreTyGuard.
From SCC Require Import Proof.Fun2CoreProof Proof.Fun2CoreTfv Proof.Fun2CoreInv Proof.CoreTyRules Proof.CoreTyFv
     Proof.Fun2CoreTyBase Proof.Fun2CoreTyShare.
Import ListNotations.
Open Scope string_scope.
Open Scope list_scope.

Arguments var_ok : simpl never.

Lemma incl_app_l : forall (X : Type) (a b c : list X), incl (a ++ b) c -> incl a c.
Proof. intros X a b c H x Hx. apply H. apply in_or_app. left. exact Hx. Qed.
Lemma incl_app_r : forall (X : Type) (a b c : list X), incl (a ++ b) c -> incl b c.
Proof. intros X a b c H x Hx. apply H. apply in_or_app. right. exact Hx. Qed.
Lemma incl_cons_r : forall (X : Type) (a : X) (b c : list X), incl (a :: b) c -> incl b c.
Proof. intros X a b c H x Hx. apply H. right. exact Hx. Qed.

Section Main.
  Variable p : fcprog.
  Variable defs : list cdef.
  Variable cur : string.
  Variable U : list string.
  Notation D := (cdata_of p).
  Notation C := (ccodata_of p).
  Notation cd := (f_is_codata p).
  Notation wc' := (wc C cur false).
  Notation cmp' := (cmp C cur false).
  Notation ct := (ccheck_term D C defs).
  Notation cs := (ccheck_stmt D C defs).
  Notation tg := (tg p D C).
  Notation tg_arg := (tg_arg p D C).
  Notation tg_args := (tg_args p D C).
  Notation tg_clause := (tg_clause p D C).
  Notation tg_clauses := (tg_clauses p D C).
  Notation tg_coclause := (tg_coclause p D C).
  Notation tg_coclauses := (tg_coclauses p D C).
  Notation tyd := (tyd D C).
  Notation ann_ok := (ann_ok D C).
  Notation KT := (KT D C defs U).
  Notation agree := (agree U).
  Notation gen := (gen U).
  Notation tyd_fv := (tyd_fv D C).
  Notation def_typed := (def_typed D C defs).
  Notation Hfind := (Hfind defs).
  Notation args_typed := (args_typed D C defs).
  Notation clause_typed := (clause_typed D C defs).

  (* every definition other than main - and main too when it is called - has its Core form, with the return continuation as last parameter *)
  Hypothesis Hcallee : forall f d, ffind_def p f = Some d -> (f <> "main" \/ calls_main_prog p = true) ->
    exists a body, find (fun d' => cident_eqb (cdname d') (new_id f)) defs =
                   Some (mkcd (new_id f) (compile_ctx (fdctx d) ++ [mkcb (new_id a) CCns (compile_ty (fdret d))]) body).

  Definition lifted_ok (st st' : cstate) : Prop :=
    Forall def_typed (st_lifted st) -> Forall def_typed (st_lifted st').

  Definition TW (t : fterm) : Prop :=
    forall G S cont ty st s st',
      wc' t cont st = Ok (s, st') ->
      tg G t = true -> tyo t = Some ty -> tyd ty = true ->
      incl (fv_fterm t) (st_used_vars st) -> incl (bnd t) U -> incl S (st_used_vars st) -> incl U (st_used_vars st) ->
      KT cont ty G st S -> Hfind (st_lifted st') ->
      cs G s = None /\ (tyd_fv (fvt cont) -> tyd_fv (fvs s) /\ lifted_ok st st').
  Definition TC (t : fterm) : Prop :=
    forall G ty st c st',
      cmp' t ty st = Ok (c, st') ->
      tg G t = true -> tyo t = Some ty -> tyd ty = true ->
      incl (fv_fterm t) (st_used_vars st) -> incl (bnd t) U -> incl U (st_used_vars st) ->
      Hfind (st_lifted st') ->
      ct G CPrd ty c = None /\ tyd_fv (fvt c) /\ lifted_ok st st'.

  (* ---------- small facts ---------- *)
  Lemma Hfind_grows : forall st st', grows st st' -> Hfind (st_lifted st') -> Hfind (st_lifted st).
  Proof. intros st st' Hg H d Hd. apply H. eapply grows_lifted_incl; eassumption. Qed.
  Lemma used_grows : forall st st', grows st st' -> incl (st_used_vars st) (st_used_vars st').
  Proof. apply grows_vars_incl. Qed.
  Lemma args_grows : forall args st l st', subst_with (fun y => cmp' y) args st = Ok (l, st') -> grows st st'.
  Proof.
    intros args st l st' H. eapply (mgrows_subst_with (fun y => cmp' y)); [|exact H].
    apply Forall_forall. intros y _ ty st0 x0 st0' H0. eapply cmp_grows. exact H0.
  Qed.
  Lemma arg_grows : forall y st a st', compile_arg y (cmp' y) st = Ok (a, st') -> grows st st'.
  Proof.
    intros y st a st' H. eapply (mgrows_compile_arg y (cmp' y)); [|exact H].
    intros ty st0 x0 st0' H0. eapply cmp_grows. exact H0.
  Qed.
  Lemma clauses_grows : forall cont cls st l st', clauses_with (fun b => wc' b) cont cls st = Ok (l, st') -> grows st st'.
  Proof.
    intros cont cls st l st' H. eapply (mgrows_clauses_with (fun b => wc' b)); [|exact H].
    apply Forall_forall. intros c _ k st0 x0 st0' H0. eapply wc_grows. exact H0.
  Qed.
  Lemma coclauses_grows : forall cls st l st', coclauses_with (fun b => wc' b) cls st = Ok (l, st') -> grows st st'.
  Proof.
    intros cls st l st' H. eapply (mgrows_coclauses_with (fun b => wc' b)); [|exact H].
    apply Forall_forall. intros c _ k st0 x0 st0' H0. eapply wc_grows. exact H0.
  Qed.
  Lemma lifted_ok_trans : forall a b c, lifted_ok a b -> lifted_ok b c -> lifted_ok a c.
  Proof. unfold lifted_ok. auto. Qed.
  Lemma lifted_ok_refl : forall a, lifted_ok a a.
  Proof. unfold lifted_ok. auto. Qed.
  Lemma lifted_ok_eq : forall a b, st_lifted b = st_lifted a -> lifted_ok a b.
  Proof. unfold lifted_ok. intros a b ->. auto. Qed.

  Lemma find_data_tyd : forall n d, find_decl D n = Some d -> tyd (CDecl n) = true.
  Proof. intros n d H. unfold Fun2CoreTyGuard.tyd, ty_ok. rewrite H. reflexivity. Qed.
  Lemma find_codata_tyd : forall n d, find_decl C n = Some d -> tyd (CDecl n) = true.
  Proof. intros n d H. unfold Fun2CoreTyGuard.tyd, ty_ok. rewrite H. destruct (find_decl D n); reflexivity. Qed.

  Lemma codata_eq : forall vty, ty_is_codata C (compile_ty vty) = cd vty.
  Proof. intros vty. exact (ty_is_codata_compile p vty). Qed.

  Lemma tyd_fv_nil : tyd_fv [].
  Proof. intros b []. Qed.

  (* the typed free variables of a variable occurrence *)
  Lemma tyd_fv_var : forall c v ty, tyd ty = true -> tyd_fv (fvt (CXVar c v ty)).
  Proof. intros c v ty H b Hb. apply fvt_var in Hb. subst b. exact H. Qed.

  (* ---------- the default `compile`: a fresh covariable, then compile_with_cont ---------- *)
  Lemma tc_default : forall t (w : cterm -> M cstmt),
    (forall cont, w cont = wc' t cont) -> TW t ->
    forall G ty st c st',
      default_compile w ty st = Ok (c, st') ->
      tg G t = true -> tyo t = Some ty -> tyd ty = true ->
      incl (fv_fterm t) (st_used_vars st) -> incl (bnd t) U -> incl U (st_used_vars st) ->
      Hfind (st_lifted st') ->
      ct G CPrd ty c = None /\ tyd_fv (fvt c) /\ lifted_ok st st'.
  Proof.
    intros t w Hw HT G ty st c st' H Hg Hty Htd Hfv Hbd HU Hf.
    apply default_compile_inv in H. destruct H as [a [sta [s [Ha [Hs Hc]]]]]. subst c. rewrite Hw in Hs.
    destruct (fresh_in_vars_inv _ _ _ _ Ha) as [Hfresh [Hused [_ Hlift]]].
    set (ab := mkcb (new_id a) CCns ty).
    assert (HnU : ~ In a U) by (intros Hin; apply Hfresh; apply HU; exact Hin).
    assert (Hgen : gen sta a) by (split; [rewrite Hused; left; reflexivity | exact HnU]).
    destruct (HT (ab :: G) [] (CXVar CCns (new_id a) ty) ty sta s st' Hs) as [H1 H2]; auto.
    - rewrite <- Hg. apply tg_ext. intros x Hx. rewrite clookup_cons. cbn [cbvar ab].
      assert (a <> x) by (intros ->; apply Hfresh; apply Hfv; exact Hx).
      rewrite (new_id_neq _ _ H). reflexivity.
    - rewrite Hused. apply incl_tl. exact Hfv.
    - intros x [].
    - rewrite Hused. apply incl_tl. exact HU.
    - intros G' Hag. apply ct_var. repeat split. rewrite (Hag a (or_intror Hgen)).
      rewrite clookup_cons. cbn [cbvar ab]. rewrite ceq_id_refl. reflexivity.
    - destruct (H2 (tyd_fv_var _ _ _ Htd)) as [H3 H4]. split; [|split].
      + apply ct_mu. repeat split. exact H1.
      + intros b Hb. apply fvt_mu_1 in Hb. apply H3. exact Hb.
      + intros Hall. apply H4. rewrite Hlift. exact Hall.
  Qed.

  (* ---------- arguments ---------- *)
  Lemma tw_args : forall args, Forall TC args ->
    forall G sig st l st',
      subst_with (fun y => cmp' y) args st = Ok (l, st') ->
      tg_args G args sig = true ->
      incl (flat_map fv_fterm args) (st_used_vars st) -> incl (flat_map bnd args) U -> incl U (st_used_vars st) ->
      Hfind (st_lifted st') ->
      args_typed G l sig /\ tyd_fv (fva l) /\ lifted_ok st st'.
  Proof.
    intros args H G. induction H as [|y r Hy Hr IH]; intros sig st l st' Hs Hg Hfv Hbd HU Hf.
    - simpl in Hs. apply mret_inv in Hs. destruct Hs; subst. destruct sig; [|discriminate].
      split; [constructor|]. split; [intros b Hb'; apply fva_nil in Hb'; contradiction | apply lifted_ok_refl].
    - destruct sig as [|b sr]; [discriminate|]. rewrite tg_args_cons in Hg. apply andb_prop in Hg. destruct Hg as [Hg1 Hg2].
      apply subst_with_cons_inv in Hs. destruct Hs as [a [st1 [rest [Ha [Hrest Hl]]]]]. subst l.
      simpl in Hfv, Hbd.
      assert (Hgr1 : grows st st1) by (eapply arg_grows; exact Ha).
      assert (Hgr2 : grows st1 st') by (eapply args_grows; exact Hrest).
      destruct (IH sr st1 rest st' Hrest Hg2) as [I1 [I2 I3]]; auto.
      { eapply incl_tran; [exact (incl_app_r _ _ _ _ Hfv) | apply used_grows; exact Hgr1]. }
      { exact (incl_app_r _ _ _ _ Hbd). }
      { eapply incl_tran; [exact HU | apply used_grows; exact Hgr1]. }
      apply compile_arg_inv in Ha.
      destruct Ha as [[v [ty [ty0 [Ey [Ety [Ea Est]]]]]]|[Hn [ty0 [c [Ety [Ec Ea]]]]]].
      + subst y ty a st1. unfold Fun2CoreTyGuard.tg_arg in Hg1. destruct (cbchi b) eqn:Eb; [discriminate|].
        apply andb_prop in Hg1. destruct Hg1 as [Hg1 Htd]. apply andb_prop in Hg1. destruct Hg1 as [Hv Hh].
        apply var_ok_look in Hv. destruct Hv as [ty1 [E1 Hv]]. injection E1 as <-.
        apply has_ty_tyo in Hh. unfold tyo in Hh. simpl in Hh. injection Hh as Hh.
        split; [|split; [|exact I3]].
        * constructor; [|exact I1]. unfold arg_typed. rewrite Eb. apply ct_var. rewrite <- Hh. repeat split. exact Hv.
        * intros bb Hbb. apply fva_cons in Hbb. destruct Hbb as [Hbb|Hbb]; [|apply I2; exact Hbb].
          apply fvt_var in Hbb. subst bb. cbn [cbty]. rewrite Hh. exact Htd.
      + subst a. unfold Fun2CoreTyGuard.tg_arg in Hg1. destruct (cbchi b) eqn:Eb.
        * apply andb_prop in Hg1. destruct Hg1 as [Hg1 Htd]. apply andb_prop in Hg1. destruct Hg1 as [Hg1 Hh].
          apply andb_prop in Hg1. destruct Hg1 as [_ Hgy].
          apply has_ty_tyo in Hh. assert (Ec' : compile_ty ty0 = cbty b).
          { unfold tyo in Hh. rewrite Ety in Hh. simpl in Hh. injection Hh as Hh. exact Hh. }
          rewrite Ec' in Ec.
          destruct (Hy G (cbty b) st c st1 Ec Hgy Hh Htd) as [J1 [J2 J3]]; auto.
          { exact (incl_app_l _ _ _ _ Hfv). }
          { exact (incl_app_l _ _ _ _ Hbd). }
          { eapply Hfind_grows; eassumption. }
          split; [|split].
          -- constructor; [|exact I1]. unfold arg_typed. rewrite Eb. exact J1.
          -- intros bb Hbb. apply fva_cons in Hbb. destruct Hbb as [Hbb|Hbb]; [apply J2 | apply I2]; exact Hbb.
          -- eapply lifted_ok_trans; eassumption.
        * exfalso. destruct y; try discriminate. destruct chi as [[|]|]; try discriminate. contradiction.
  Qed.

  (* ---------- clauses of a case ---------- *)
  Lemma nodup_str_nd : forall l, nodup_str l = true -> NoDup l.
  Proof.
    induction l as [|x r IH]; simpl; intros H; constructor.
    - apply andb_prop in H. destruct H as [H _]. apply negb_true_iff in H. apply mem_false_not_In. exact H.
    - apply IH. apply andb_prop in H. tauto.
  Qed.
  Lemma cvars_compile_ctx : forall ctx, cvars (compile_ctx ctx) = map new_id (fvars ctx).
  Proof. induction ctx as [|b r IH]; simpl; [reflexivity | rewrite IH; reflexivity]. Qed.
  Lemma compile_ctx_nodup : forall ctx, nodup_str (fvars ctx) = true -> NoDup (cvars (compile_ctx ctx)).
  Proof.
    intros ctx H. rewrite cvars_compile_ctx. apply nodup_str_nd in H. revert H. generalize (fvars ctx).
    induction l as [|x r IH]; intros H; simpl; constructor; inversion H; subst.
    - intros Hin. apply in_map_iff in Hin. destruct Hin as [y [Ey Hy]]. apply new_id_inj in Ey. subst y. contradiction.
    - apply IH. assumption.
  Qed.
  Lemma compile_ctx_binder : forall ctx b, In b (compile_ctx ctx) -> exists v, cbvar b = new_id v /\ In v (fvars ctx).
  Proof.
    intros ctx b H. unfold compile_ctx in H. apply in_map_iff in H. destruct H as [fb [<- Hfb]].
    exists (fbvar fb). split; [reflexivity | apply in_map; exact Hfb].
  Qed.

  (* a scope extended by clause parameters that are user names and not free in the continuation *)
  Lemma agree_ctx : forall st S ctx G, (forall v, In v (fvars ctx) -> ~ In v S) -> incl (fvars ctx) U ->
    agree st S (compile_ctx ctx ++ G) G.
  Proof.
    intros st S ctx G Hs Hu. apply agree_app. intros b Hb. destruct (compile_ctx_binder _ _ Hb) as [v [E Hv]].
    exists v. split; [exact E|]. split; [apply Hs; exact Hv|]. intros [_ Hn]. apply Hn. apply Hu. exact Hv.
  Qed.

  Lemma tw_clauses : forall cls, Forall (fun c => TW (clause_body c)) cls ->
    forall G S cont1 ty0 n xs st l st',
      clauses_with (fun b => wc' b) cont1 cls st = Ok (l, st') ->
      tg_clauses G (Some ty0) cls xs = true -> tyd (compile_ty ty0) = true ->
      captures (flat_map cl_names cls) cont1 = false ->
      incl (flat_map fv_cl cls) (st_used_vars st) -> incl (flat_map cl_bnd cls) U ->
      incl S (st_used_vars st) -> incl U (st_used_vars st) ->
      KT cont1 (compile_ty ty0) G st S -> Hfind (st_lifted st') ->
      cclauses_match CCns n l xs = None /\
      (forall G2 stf, incl (st_used_vars st') (st_used_vars stf) -> agree stf (flat_map (cont_cl S) cls) G2 G ->
                      Forall (clause_typed G2) l) /\
      (tyd_fv (fvt cont1) -> tyd_fv (fvc l) /\ lifted_ok st st').
  Proof.
    intros cls H G S cont1 ty0 n. induction H as [|c r Hc Hr IH]; intros xs st l st' Hs Hg Htd Hrk Hfv Hbd HS HU HK Hf.
    - simpl in Hs. apply mret_inv in Hs. destruct Hs; subst. destruct xs; [|discriminate].
      split; [reflexivity|]. split; [intros; constructor|]. intros _.
      split; [intros b Hb'; apply fvc_nil in Hb'; contradiction | apply lifted_ok_refl].
    - destruct xs as [|sg xr]; [discriminate|]. rewrite tg_clauses_cons in Hg. apply andb_prop in Hg. destruct Hg as [Hg1 Hg2].
      destruct c as [pl x names ctx body]. apply clauses_with_cons_inv in Hs.
      destruct Hs as [c' [st1 [rest [Ha [Hrest Hl]]]]]. subst l.
      apply compile_clause_inv in Ha. destruct Ha as [body' [Hbody Ec]]. subst c'.
      unfold Fun2CoreTyGuard.tg_clause in Hg1.
      apply andb_prop in Hg1. destruct Hg1 as [Hg1 Hsame]. apply andb_prop in Hg1. destruct Hg1 as [Hg1 Hgb].
      apply andb_prop in Hg1. destruct Hg1 as [Hg1 Hnd]. apply andb_prop in Hg1. destruct Hg1 as [Hg1 Hpar].
      apply andb_prop in Hg1. destruct Hg1 as [Hnames Hid].
      assert (Hrk1 : captures (fvars ctx) cont1 = false).
      { eapply captures_incl; [exact Hrk|]. intros z Hz. simpl. apply in_or_app. left. exact Hz. }
      assert (Hrk2 : captures (flat_map cl_names r) cont1 = false).
      { eapply captures_incl; [exact Hrk|]. intros z Hz. simpl. apply in_or_app. right. exact Hz. }
      simpl in Hfv, Hbd. simpl in Hc.
      assert (Hgr1 : grows st st1) by (eapply wc_grows; exact Hbody).
      assert (Hgr2 : grows st1 st') by (eapply clauses_grows; exact Hrest).
      assert (HctxU : incl (fvars ctx) U) by (intros z Hz; apply Hbd; apply in_or_app; left; apply in_or_app; left; exact Hz).
      assert (Hfvb : incl (fv_fterm body) (st_used_vars st)).
      { intros z Hz. destruct (in_dec string_dec z (fvars ctx)) as [Hi|Hi]; [apply HU; apply HctxU; exact Hi|].
        apply Hfv. apply in_or_app. left. apply remove_all_In. split; assumption. }
      destruct (IH xr st1 rest st' Hrest Hg2 Htd Hrk2) as [I1 [I2 I3]]; auto.
      { eapply incl_tran; [exact (incl_app_r _ _ _ _ Hfv) | apply used_grows; exact Hgr1]. }
      { exact (incl_app_r _ _ _ _ Hbd). }
      { eapply incl_tran; [exact HS | apply used_grows; exact Hgr1]. }
      { eapply incl_tran; [exact HU | apply used_grows; exact Hgr1]. }
      { eapply KT_mono; [exact HK | apply used_grows; exact Hgr1 | apply incl_refl]. }
      apply has_ty_tyo in Hsame.
      assert (Hhead : forall G2 stf, incl (st_used_vars st1) (st_used_vars stf) ->
                agree stf (cont_cl S (FClause pl x names ctx body)) G2 G ->
                cs (compile_ctx ctx ++ G2) body' = None /\
                (tyd_fv (fvt cont1) -> tyd_fv (fvs body') /\ lifted_ok st st1)).
      { intros G2 stf Hstf Hag.
        apply (Hc (compile_ctx ctx ++ G2) S cont1 (compile_ty ty0) st body' st1 Hbody); auto.
        - rewrite <- Hgb. apply tg_ext. apply same_on_app; [|apply compile_ctx_ids]. rewrite compile_ctx_names.
          intros z Hz. apply Hag. left. unfold cont_cl. apply remove_all_In. apply remove_all_In in Hz.
          destruct Hz as [Hz1 Hz2]. split; [apply in_or_app; left; exact Hz1 | exact Hz2].
        - intros z Hz. apply Hbd. apply in_or_app. left. apply in_or_app. right. exact Hz.
        - apply (KT_rebind D C defs U cont1 _ G _ st S (fvars ctx) HK Hrk1).
          intros y Hy Hny. rewrite clookup_app.
          assert (E : clookup (compile_ctx ctx) (new_id y) = None).
          { apply clookup_none. rewrite cvars_compile_ctx. intros Hin. apply in_map_iff in Hin.
            destruct Hin as [z [Ez Hz]]. apply new_id_inj in Ez. subst z. contradiction. }
          rewrite E. apply Hag. destruct Hy as [Hy|[Hy1 Hy2]].
          + left. unfold cont_cl. apply remove_all_In. split; [apply in_or_app; right; exact Hy | exact Hny].
          + right. split; [apply Hstf; apply (used_grows _ _ Hgr1); exact Hy1 | exact Hy2].
        - eapply Hfind_grows; eassumption. }
      split; [|split].
      + cbn [cclauses_match]. apply seqn. split; [reflexivity|]. apply seqn. split; [apply fens; exact Hid|].
        apply seqn. split; [apply fens; exact Hpar|]. apply seqn. split; [|exact I1].
        apply fens. apply nodup_by_NoDup. apply compile_ctx_nodup. exact Hnd.
      + intros G2 stf Hstf Hag. constructor.
        * unfold clause_typed. apply (Hhead G2 stf).
          -- eapply incl_tran; [apply used_grows; exact Hgr2 | exact Hstf].
          -- eapply agree_mono; [exact Hag | apply incl_refl |]. intros z Hz. simpl. apply in_or_app. left. exact Hz.
        * apply (I2 G2 stf Hstf). eapply agree_mono; [exact Hag | apply incl_refl |].
          intros z Hz. simpl. apply in_or_app. right. exact Hz.
      + intros Hcf. destruct (I3 Hcf) as [I4 I5].
        destruct (Hhead G st1 (incl_refl _) (agree_refl _ _ _ _)) as [_ Hh]. destruct (Hh Hcf) as [Hh1 Hh2].
        split; [|eapply lifted_ok_trans; eassumption].
        intros b Hb. apply fvc_cons_iff in Hb. destruct Hb as [[Hb _]|Hb]; [apply Hh1 | apply I4]; exact Hb.
  Qed.

  (* ---------- clauses of a new ---------- *)
  Lemma fparams_ok_snoc : forall a pre b last,
    fparams_ok a pre = true -> csame_sig b last = true -> fparams_ok (a ++ [b]) (pre ++ [last]) = true.
  Proof.
    induction a as [|x r IH]; intros [|y pre] b last H1 H2; simpl in *; try discriminate.
    - rewrite H2. reflexivity.
    - apply andb_prop in H1. destruct H1 as [H1 H3]. rewrite H1. simpl. apply IH; assumption.
  Qed.

  Lemma tw_coclauses : forall cls, Forall (fun c => TW (clause_body c)) cls ->
    forall G n xs st l st',
      coclauses_with (fun b => wc' b) cls st = Ok (l, st') ->
      tg_coclauses G cls xs = true ->
      incl (flat_map fv_cl cls) (st_used_vars st) -> incl (flat_map cl_bnd cls) U -> incl U (st_used_vars st) ->
      Hfind (st_lifted st') ->
      cclauses_match CPrd n l xs = None /\ Forall (clause_typed G) l /\ tyd_fv (fvc l) /\ lifted_ok st st'.
  Proof.
    intros cls H G n. induction H as [|c r Hc Hr IH]; intros xs st l st' Hs Hg Hfv Hbd HU Hf.
    - simpl in Hs. apply mret_inv in Hs. destruct Hs; subst. destruct xs; [|discriminate].
      split; [reflexivity|]. split; [constructor|].
      split; [intros b Hb'; apply fvc_nil in Hb'; contradiction | apply lifted_ok_refl].
    - destruct xs as [|sg xr]; [discriminate|]. rewrite tg_coclauses_cons in Hg. apply andb_prop in Hg. destruct Hg as [Hg1 Hg2].
      destruct c as [pl x names ctx body]. apply coclauses_with_cons_inv in Hs.
      destruct Hs as [c' [st1 [rest [Ha [Hrest Hl]]]]]. subst l.
      apply compile_coclause_inv in Ha. destruct Ha as [ty0 [a [sta [body' [Ety [Hfr [Hbody Ec]]]]]]]. subst c'.
      unfold Fun2CoreTyGuard.tg_coclause in Hg1.
      apply andb_prop in Hg1. destruct Hg1 as [Hg1 Hgb]. apply andb_prop in Hg1. destruct Hg1 as [Hg1 Hnd].
      apply andb_prop in Hg1. destruct Hg1 as [Hg1 Hsig]. apply andb_prop in Hg1. destruct Hg1 as [Hnames Hid].
      destruct (split_last (cxargs sg)) as [[pre last]|] eqn:Esl; [|discriminate].
      apply split_last_spec in Esl.
      apply andb_prop in Hsig. destruct Hsig as [Hsig Htdl]. apply andb_prop in Hsig. destruct Hsig as [Hsig Hhas].
      apply andb_prop in Hsig. destruct Hsig as [Hpar Hchi]. apply ceq_chi in Hchi.
      apply has_ty_tyo in Hhas.
      assert (Ety' : compile_ty ty0 = cbty last).
      { unfold tyo in Hhas. rewrite Ety in Hhas. simpl in Hhas. injection Hhas as Hhas. exact Hhas. }
      simpl in Hfv, Hbd. simpl in Hc.
      destruct (fresh_in_vars_inv _ _ _ _ Hfr) as [Hfresh [Hused [_ Hlift]]].
      assert (Hgra : incl (st_used_vars st) (st_used_vars sta)) by (rewrite Hused; apply incl_tl; apply incl_refl).
      assert (Hgr1 : grows sta st1) by (eapply wc_grows; exact Hbody).
      assert (Hgr2 : grows st1 st') by (eapply coclauses_grows; exact Hrest).
      assert (HctxU : incl (fvars ctx) U) by (intros z Hz; apply Hbd; apply in_or_app; left; apply in_or_app; left; exact Hz).
      assert (Hfvb : incl (fv_fterm body) (st_used_vars st)).
      { intros z Hz. destruct (in_dec string_dec z (fvars ctx)) as [Hi|Hi]; [apply HU; apply HctxU; exact Hi|].
        apply Hfv. apply in_or_app. left. apply remove_all_In. split; assumption. }
      assert (HnU : ~ In a U) by (intros Hin; apply Hfresh; apply HU; exact Hin).
      assert (Hnctx : ~ In a (fvars ctx)) by (intros Hin; apply HnU; apply HctxU; exact Hin).
      set (ab := mkcb (new_id a) CCns (compile_ty ty0)).
      assert (Hla : clookup ((compile_ctx ctx ++ [ab]) ++ G) (new_id a) = Some ab).
      { rewrite <- app_assoc, clookup_app.
        assert (E : clookup (compile_ctx ctx) (new_id a) = None).
        { apply clookup_none. rewrite cvars_compile_ctx. intros Hin. apply in_map_iff in Hin.
          destruct Hin as [y [Ey Hy]]. apply new_id_inj in Ey. subst y. contradiction. }
        rewrite E. simpl. cbn [cbvar ab]. rewrite ceq_id_refl. reflexivity. }
      destruct (IH xr st1 rest st' Hrest Hg2) as [I1 [I2 [I3 I4]]]; auto.
      { eapply incl_tran; [exact (incl_app_r _ _ _ _ Hfv)|]. eapply incl_tran; [exact Hgra | apply used_grows; exact Hgr1]. }
      { exact (incl_app_r _ _ _ _ Hbd). }
      { eapply incl_tran; [exact HU|]. eapply incl_tran; [exact Hgra | apply used_grows; exact Hgr1]. }
      rewrite Ety' in Hbody.
      destruct (Hc ((compile_ctx ctx ++ [ab]) ++ G) [] (CXVar CCns (new_id a) (cbty last)) (cbty last) sta body' st1 Hbody)
        as [J1 J2]; auto.
      { rewrite <- Hgb. apply tg_ext. rewrite <- app_assoc. apply same_on_app; [|apply compile_ctx_ids].
        rewrite compile_ctx_names. intros z Hz. apply remove_all_In in Hz. destruct Hz as [Hz _].
        simpl. cbn [cbvar ab]. assert (a <> z) by (intros ->; apply Hfresh; apply Hfvb; exact Hz).
        rewrite (new_id_neq _ _ H). reflexivity. }
      { eapply incl_tran; [exact Hfvb | exact Hgra]. }
      { intros z Hz. apply Hbd. apply in_or_app. left. apply in_or_app. right. exact Hz. }
      { intros z []. }
      { eapply incl_tran; [exact HU | exact Hgra]. }
      { intros G' Hag. apply ct_var. repeat split.
        assert (Hgen : gen sta a) by (split; [rewrite Hused; left; reflexivity | exact HnU]).
        rewrite (Hag a (or_intror Hgen)), Hla. unfold ab. rewrite Ety'. reflexivity. }
      { eapply Hfind_grows; eassumption. }
      destruct (J2 (tyd_fv_var _ _ _ Htdl)) as [J3 J4].
      split; [|split; [|split]].
      + cbn [cclauses_match]. apply seqn. split; [reflexivity|]. apply seqn. split; [apply fens; exact Hid|].
        apply seqn. split.
        { apply fens. rewrite Esl. apply fparams_ok_snoc; [exact Hpar|].
          unfold csame_sig, ab. cbn [cbchi cbty]. rewrite Hchi, Ety', ceq_ty_refl. reflexivity. }
        apply seqn. split; [|exact I1].
        apply fens. apply nodup_by_NoDup. unfold cvars. rewrite map_app. fold (cvars (compile_ctx ctx)).
        rewrite cvars_compile_ctx. simpl. cbn [cbvar ab].
        apply NoDup_app_intro.
        * rewrite <- cvars_compile_ctx. apply compile_ctx_nodup. exact Hnd.
        * repeat constructor. intros [].
        * intros z Hz [Hz'|[]]. subst z. apply in_map_iff in Hz. destruct Hz as [y [Ey Hy]].
          apply new_id_inj in Ey. subst y. contradiction.
      + constructor; [|exact I2]. unfold clause_typed. exact J1.
      + intros b Hb. apply fvc_cons_iff in Hb. destruct Hb as [[Hb _]|Hb]; [apply J3 | apply I3]; exact Hb.
      + eapply lifted_ok_trans; [|exact I4]. intros Hall. apply J4. rewrite Hlift. exact Hall.
  Qed.

  (* ---------- the continuation handed to the branches: the original one, or its shared form ---------- *)
  Lemma cont1_ok : forall (small : bool) cont cont1 st st0 ty G S,
    (if small then cont1 = cont /\ st0 = st else share cur cont st = Ok (cont1, st0)) ->
    KT cont ty G st S -> tyd ty = true -> incl S (st_used_vars st) -> incl U (st_used_vars st) ->
    Hfind (st_lifted st0) ->
    grows st st0 /\ KT cont1 ty G st0 S /\ (tyd_fv (fvt cont) -> tyd_fv (fvt cont1) /\ lifted_ok st st0).
  Proof.
    intros small cont cont1 st st0 ty G S H HK Htd HS HU Hf. destruct small.
    - destruct H as [-> ->]. split; [apply grows_refl|]. split; [exact HK|]. intros Hc. split; [exact Hc | apply lifted_ok_refl].
    - split; [eapply share_grows; exact H|].
      destruct (share_ok D C defs U cur cont st cont1 st0 ty G S H HK Htd HS HU Hf) as [H1 H2]. split; [exact H1 | exact H2].
  Qed.

  (* ---------- operators (shared by compile and compile_with_cont) ---------- *)
  Lemma op_ok : forall a b, TC a -> TC b -> forall G o st a' st1 b' st',
    cmp' a CI64 st = Ok (a', st1) -> cmp' b CI64 st1 = Ok (b', st') ->
    tg G (FOp a o b) = true ->
    incl (fv_fterm (FOp a o b)) (st_used_vars st) -> incl (bnd (FOp a o b)) U -> incl U (st_used_vars st) ->
    Hfind (st_lifted st') ->
    ct G CPrd CI64 (COp a' (op_of o) b') = None /\ tyd_fv (fvt (COp a' (op_of o) b')) /\ lifted_ok st st'.
  Proof.
    intros a b Ha Hb G o st a' st1 b' st' E1 E2 Hg Hfv Hbd HU Hf.
    rewrite tg_op in Hg. apply andb_prop in Hg. destruct Hg as [Hg Hh2]. apply andb_prop in Hg. destruct Hg as [Hg Hh1].
    apply andb_prop in Hg. destruct Hg as [Hg1 Hg2]. apply has_ty_tyo in Hh1. apply has_ty_tyo in Hh2.
    simpl in Hfv, Hbd.
    assert (Hgr1 : grows st st1) by (eapply cmp_grows; exact E1).
    assert (Hgr2 : grows st1 st') by (eapply cmp_grows; exact E2).
    destruct (Ha G CI64 st a' st1 E1 Hg1 Hh1 eq_refl) as [A1 [A2 A3]]; auto.
    { exact (incl_app_l _ _ _ _ Hfv). } { exact (incl_app_l _ _ _ _ Hbd). } { eapply Hfind_grows; eassumption. }
    destruct (Hb G CI64 st1 b' st' E2 Hg2 Hh2 eq_refl) as [B1 [B2 B3]]; auto.
    { eapply incl_tran; [exact (incl_app_r _ _ _ _ Hfv) | apply used_grows; exact Hgr1]. }
    { exact (incl_app_r _ _ _ _ Hbd). }
    { eapply incl_tran; [exact HU | apply used_grows; exact Hgr1]. }
    split; [|split].
    - apply ct_op. repeat split; assumption.
    - intros bb Hbb. apply fvt_op in Hbb. destruct Hbb as [Hbb|Hbb]; [apply A2 | apply B2]; exact Hbb.
    - eapply lifted_ok_trans; eassumption.
  Qed.

  (* ====================== the term forms ====================== *)
  Lemma tyo_var : forall v ty chi t, tyo (FVar v ty chi) = Some t -> exists ty0, ty = Some ty0 /\ t = compile_ty ty0.
  Proof. intros v ty chi t H. unfold tyo in H. simpl in H. destruct ty as [ty0|]; [|discriminate]. injection H as H. eauto. Qed.
  Lemma tyo_ann : forall (o : option fty) t, option_map compile_ty o = Some t -> exists ty0, o = Some ty0 /\ t = compile_ty ty0.
  Proof. intros [ty0|] t H; simpl in H; [|discriminate]. injection H as H. eauto. Qed.

  Lemma tw_var : forall v ty chi, TW (FVar v ty chi).
  Proof.
    intros v ty chi G S cont t st s st' H Hg Hty Htd Hfv Hbd HS HU HK Hf. rewrite wc_unfold in H.
    apply wc_var_inv in H. destruct H as [ty0 [-> [-> ->]]].
    apply tyo_var in Hty. destruct Hty as [ty1 [E ->]]. injection E as <-.
    rewrite tg_var in Hg. pose proof Hg as Hv.
    apply var_ok_look in Hv. destruct Hv as [ty1 [E Hv]]. injection E as <-.
    split.
    - apply cs_cut. split; [exact Htd|]. split; [apply ct_var; repeat split; exact Hv | eapply KT_here; exact HK].
    - intros Hc. split; [|apply lifted_ok_refl]. intros b Hb. apply fvs_cut in Hb. destruct Hb as [Hb|Hb]; [|apply Hc; exact Hb].
      apply fvt_var in Hb. subst b. exact Htd.
  Qed.
  Lemma tc_var : forall v ty chi, TC (FVar v ty chi).
  Proof.
    intros v ty chi G t st c st' H Hg Hty Htd Hfv Hbd HU Hf. rewrite cmp_unfold in H.
    apply cmp_var_inv in H. destruct H as [ty0 [-> [-> ->]]].
    apply tyo_var in Hty. destruct Hty as [ty1 [E ->]]. injection E as <-.
    rewrite tg_var in Hg. pose proof Hg as Hv.
    apply var_ok_look in Hv. destruct Hv as [ty1 [E Hv]]. injection E as <-.
    split; [apply ct_var; repeat split; exact Hv|]. split; [apply tyd_fv_var; exact Htd | apply lifted_ok_refl].
  Qed.

  Lemma tw_lit : forall n, TW (FLit n).
  Proof.
    intros n G S cont t st s st' H Hg Hty Htd Hfv Hbd HS HU HK Hf. rewrite wc_unfold in H.
    unfold wc_lit in H. apply mret_inv in H. destruct H as [-> ->]. unfold tyo in Hty. simpl in Hty. injection Hty as <-.
    split.
    - apply cs_cut. split; [reflexivity|]. split; [apply ct_lit; auto | eapply KT_here; exact HK].
    - intros Hc. split; [|apply lifted_ok_refl]. intros b Hb. apply fvs_cut in Hb. destruct Hb as [Hb|Hb]; [|apply Hc; exact Hb].
      apply fvt_lit in Hb. contradiction.
  Qed.
  Lemma tc_lit : forall n, TC (FLit n).
  Proof.
    intros n G t st c st' H Hg Hty Htd Hfv Hbd HU Hf. rewrite cmp_unfold in H.
    unfold cmp_lit in H. apply mret_inv in H. destruct H as [-> ->]. unfold tyo in Hty. simpl in Hty. injection Hty as <-.
    split; [apply ct_lit; auto|]. split; [intros b Hb; apply fvt_lit in Hb; contradiction | apply lifted_ok_refl].
  Qed.

  Lemma tc_op : forall a o b, TC a -> TC b -> TC (FOp a o b).
  Proof.
    intros a o b Ha Hb G t st c st' H Hg Hty Htd Hfv Hbd HU Hf. rewrite cmp_unfold in H.
    apply cmp_op_inv in H. destruct H as [a' [st1 [b' [E1 [E2 ->]]]]].
    unfold tyo in Hty. simpl in Hty. injection Hty as <-.
    exact (op_ok a b Ha Hb G o st a' st1 b' st' E1 E2 Hg Hfv Hbd HU Hf).
  Qed.
  Lemma tw_op : forall a o b, TC a -> TC b -> TW (FOp a o b).
  Proof.
    intros a o b Ha Hb G S cont t st s st' H Hg Hty Htd Hfv Hbd HS HU HK Hf. rewrite wc_unfold in H.
    apply wc_op_inv in H. destruct H as [a' [st1 [b' [E1 [E2 ->]]]]].
    unfold tyo in Hty. simpl in Hty. injection Hty as <-.
    destruct (op_ok a b Ha Hb G o st a' st1 b' st' E1 E2 Hg) as [O1 [O2 O3]]; auto.
    split.
    - apply cs_cut. split; [reflexivity|]. split; [exact O1 | eapply KT_here; exact HK].
    - intros Hc. split; [|exact O3]. intros bb Hbb. apply fvs_cut in Hbb. destruct Hbb as [Hbb|Hbb]; [apply O2 | apply Hc]; exact Hbb.
  Qed.

  Lemma tw_ifc : forall so a b t1 t2 ty, TC a -> opt_P TC b -> TW t1 -> TW t2 -> TW (FIfC so a b t1 t2 ty).
  Proof.
    intros so a b t1 t2 ty Ha Hb H1 H2 G S cont t st s st' H Hg Hty Htd Hfv Hbd HS HU HK Hf. rewrite wc_unfold in H.
    apply wc_ifc_inv in H.
    destruct H as [cont1 [st0 [a' [sta [b' [stb [t' [stt [e' [Hsh [Ea [Eb [Et [Ee ->]]]]]]]]]]]]]].
    rewrite tg_ifc in Hg.
    apply andb_prop in Hg. destruct Hg as [Hg Hs2].
    apply andb_prop in Hg. destruct Hg as [Hg Hs1]. apply andb_prop in Hg. destruct Hg as [Hg Hg2].
    apply andb_prop in Hg. destruct Hg as [Hg Hg1]. apply andb_prop in Hg. destruct Hg as [Hg Hgb].
    apply andb_prop in Hg. destruct Hg as [Hga Hha]. apply has_ty_tyo in Hha.
    unfold tyo in Hty. simpl in Hty. apply tyo_ann in Hty. destruct Hty as [ty0 [-> ->]].
    simpl in Hs1, Hs2. apply has_ty_tyo in Hs1. apply has_ty_tyo in Hs2.
    simpl in Hfv, Hbd.
    assert (Gb : grows sta stb).
    { destruct b as [b0|]; [destruct Eb as [b1 [Eb _]]; eapply cmp_grows; exact Eb | destruct Eb as [_ ->]; apply grows_refl]. }
    assert (Ga : grows st0 sta) by (eapply cmp_grows; exact Ea).
    assert (Gt : grows stb stt) by (eapply wc_grows; exact Et).
    assert (Ge' : grows stt st') by (eapply wc_grows; exact Ee).
    assert (G0' : grows st0 st') by (eapply grows_trans; [exact Ga|]; eapply grows_trans; [exact Gb|]; eapply grows_trans; eassumption).
    destruct (cont1_ok _ cont cont1 st st0 (compile_ty ty0) G S Hsh HK Htd HS HU) as [G0 [HK1 Hc1]].
    { eapply Hfind_grows; eassumption. }
    assert (Ust0 : incl (st_used_vars st) (st_used_vars st0)) by (apply used_grows; exact G0).
    assert (Usta : incl (st_used_vars st) (st_used_vars sta)) by (eapply incl_tran; [exact Ust0 | apply used_grows; exact Ga]).
    assert (Ustb : incl (st_used_vars st) (st_used_vars stb)) by (eapply incl_tran; [exact Usta | apply used_grows; exact Gb]).
    assert (Ustt : incl (st_used_vars st) (st_used_vars stt)) by (eapply incl_tran; [exact Ustb | apply used_grows; exact Gt]).
    destruct (Ha G CI64 st0 a' sta Ea Hga Hha eq_refl) as [A1 [A2 A3]]; auto.
    { eapply incl_tran; [exact (incl_app_l _ _ _ _ Hfv) | exact Ust0]. }
    { exact (incl_app_l _ _ _ _ Hbd). } { eapply incl_tran; [exact HU | exact Ust0]. }
    { eapply Hfind_grows; [|exact Hf]. eapply grows_trans; [exact Gb|]. eapply grows_trans; eassumption. }
    assert (HB : match b' with Some b1 => ct G CPrd CI64 b1 = None | None => True end /\
                 tyd_fv (match b' with Some b1 => fvt b1 | None => [] end) /\ lifted_ok sta stb).
    { destruct b as [b0|].
      - destruct Eb as [b1 [Eb ->]]. apply andb_prop in Hgb. destruct Hgb as [Hgb Hhb]. apply has_ty_tyo in Hhb.
        simpl in Hb. apply (Hb G CI64 sta b1 stb Eb Hgb Hhb eq_refl).
        + eapply incl_tran; [|exact Usta]. eapply incl_tran; [|exact (incl_app_r _ _ _ _ Hfv)]. apply incl_appl. apply incl_refl.
        + eapply incl_tran; [|exact (incl_app_r _ _ _ _ Hbd)]. apply incl_appl. apply incl_refl.
        + eapply incl_tran; [exact HU | exact Usta].
        + eapply Hfind_grows; [|exact Hf]. eapply grows_trans; eassumption.
      - destruct Eb as [-> ->]. split; [exact I|]. split; [apply tyd_fv_nil | apply lifted_ok_refl]. }
    destruct HB as [B1 [B2 B3]].
    assert (Hfvr : incl (fv_fterm t1 ++ fv_fterm t2) (st_used_vars st)).
    { eapply incl_tran; [|exact (incl_app_r _ _ _ _ Hfv)]. apply incl_appr. apply incl_refl. }
    assert (Hbdr : incl (bnd t1 ++ bnd t2) U).
    { eapply incl_tran; [|exact (incl_app_r _ _ _ _ Hbd)]. apply incl_appr. apply incl_refl. }
    destruct (H1 G S cont1 (compile_ty ty0) stb t' stt Et Hg1 Hs1 Htd) as [T1 T2]; auto.
    { eapply incl_tran; [exact (incl_app_l _ _ _ _ Hfvr) | exact Ustb]. }
    { exact (incl_app_l _ _ _ _ Hbdr). } { eapply incl_tran; [exact HS | exact Ustb]. } { eapply incl_tran; [exact HU | exact Ustb]. }
    { eapply KT_mono; [exact HK1 | | apply incl_refl]. eapply incl_tran; [apply used_grows; exact Ga | apply used_grows; exact Gb]. }
    { eapply Hfind_grows; eassumption. }
    destruct (H2 G S cont1 (compile_ty ty0) stt e' st' Ee Hg2 Hs2 Htd) as [E1 E2]; auto.
    { eapply incl_tran; [exact (incl_app_r _ _ _ _ Hfvr) | exact Ustt]. }
    { exact (incl_app_r _ _ _ _ Hbdr). } { eapply incl_tran; [exact HS | exact Ustt]. } { eapply incl_tran; [exact HU | exact Ustt]. }
    { eapply KT_mono; [exact HK1 | | apply incl_refl]. eapply incl_tran; [apply used_grows; exact Ga|].
      eapply incl_tran; [apply used_grows; exact Gb | apply used_grows; exact Gt]. }
    split.
    - apply cs_ifc. split; [exact A1|]. split; [exact B1|]. split; assumption.
    - intros Hc. destruct (Hc1 Hc) as [Hc1' L0]. destruct (T2 Hc1') as [T3 T4]. destruct (E2 Hc1') as [E3 E4]. split.
      + intros bb Hbb. apply fvs_ifc in Hbb. destruct Hbb as [Hbb|[Hbb|[Hbb|Hbb]]].
        * apply A2; exact Hbb.
        * apply B2. destruct b'; exact Hbb.
        * apply T3; exact Hbb.
        * apply E3; exact Hbb.
      + eapply lifted_ok_trans; [exact L0|]. eapply lifted_ok_trans; [exact A3|]. eapply lifted_ok_trans; [exact B3|].
        eapply lifted_ok_trans; eassumption.
  Qed.

  Lemma tw_print : forall nl a next ty, TC a -> TW next -> TW (FPrint nl a next ty).
  Proof.
    intros nl a next ty Ha Hn G S cont t st s st' H Hg Hty Htd Hfv Hbd HS HU HK Hf. rewrite wc_unfold in H.
    apply wc_print_inv in H. destruct H as [a' [st1 [next' [Ea [En ->]]]]].
    rewrite tg_print in Hg. apply andb_prop in Hg. destruct Hg as [Hg Hsn]. apply andb_prop in Hg. destruct Hg as [Hg Hgn].
    apply andb_prop in Hg. destruct Hg as [Hga Hha]. apply has_ty_tyo in Hha.
    unfold tyo in Hty. simpl in Hty. apply tyo_ann in Hty. destruct Hty as [ty0 [-> ->]].
    simpl in Hsn. apply has_ty_tyo in Hsn.
    simpl in Hfv, Hbd.
    assert (Ga : grows st st1) by (eapply cmp_grows; exact Ea).
    assert (Gn : grows st1 st') by (eapply wc_grows; exact En).
    destruct (Ha G CI64 st a' st1 Ea Hga Hha eq_refl) as [A1 [A2 A3]]; auto.
    { exact (incl_app_l _ _ _ _ Hfv). } { exact (incl_app_l _ _ _ _ Hbd). } { eapply Hfind_grows; eassumption. }
    destruct (Hn G S cont (compile_ty ty0) st1 next' st' En Hgn Hsn Htd) as [N1 N2]; auto.
    { eapply incl_tran; [exact (incl_app_r _ _ _ _ Hfv) | apply used_grows; exact Ga]. }
    { exact (incl_app_r _ _ _ _ Hbd). }
    { eapply incl_tran; [exact HS | apply used_grows; exact Ga]. } { eapply incl_tran; [exact HU | apply used_grows; exact Ga]. }
    { eapply KT_mono; [exact HK | apply used_grows; exact Ga | apply incl_refl]. }
    split.
    - apply cs_print. split; assumption.
    - intros Hc. destruct (N2 Hc) as [N3 N4]. split; [|eapply lifted_ok_trans; eassumption].
      intros bb Hbb. apply fvs_print in Hbb. destruct Hbb as [Hbb|Hbb]; [apply A2 | apply N3]; exact Hbb.
  Qed.

  (* ---------- terms whose continuation is placed under binders (let, case): the repaired translation
     [guard_capture] first checks that no binder is the name of a free variable of the continuation, and otherwise
     names the continuation: < mu a. w(a) | cont >.  [TWin]: the statement of TW for the inner translation w, under
     the hypothesis the check establishes; [tw_guard]: TW for the guarded translation. ---------- *)
  Definition TWin (t : fterm) (binders : list fname) (w : cterm -> M cstmt) : Prop :=
    forall G S cont ty st s st',
      w cont st = Ok (s, st') -> captures binders cont = false ->
      tg G t = true -> tyo t = Some ty -> tyd ty = true ->
      incl (fv_fterm t) (st_used_vars st) -> incl (bnd t) U -> incl S (st_used_vars st) -> incl U (st_used_vars st) ->
      KT cont ty G st S -> Hfind (st_lifted st') ->
      cs G s = None /\ (tyd_fv (fvt cont) -> tyd_fv (fvs s) /\ lifted_ok st st').

  Lemma tw_guard : forall t binders (w : cterm -> M cstmt) lty,
    (forall cont, wc' t cont = guard_capture false binders w lty cont) -> fterm_type t = lty ->
    TWin t binders w -> TW t.
  Proof.
    intros t binders w lty Hw Hlty Hin G S cont ty st s st' H Hg Hty Htd Hfv Hbd HS HU HK Hf.
    rewrite Hw in H. apply guard_capture_inv in H.
    destruct H as [[Hc H]|[Hc [ty0 [a [sta [s0 [Ety [Ha [Hc' [H ->]]]]]]]]]].
    - apply (Hin G S cont ty st s st' H Hc); assumption.
    - assert (Ety0 : ty = compile_ty ty0).
      { unfold tyo in Hty. rewrite Hlty, Ety in Hty. simpl in Hty. injection Hty as Hty. symmetry. exact Hty. }
      subst ty.
      destruct (fresh_in_vars_inv _ _ _ _ Ha) as [Hfresh [Hused [_ Hlift]]].
      set (ab := mkcb (new_id a) CCns (compile_ty ty0)).
      assert (HnU : ~ In a U) by (intros Hi; apply Hfresh; apply HU; exact Hi).
      assert (Hgen : gen sta a) by (split; [rewrite Hused; left; reflexivity | exact HnU]).
      destruct (Hin (ab :: G) [] (CXVar CCns (new_id a) (compile_ty ty0)) (compile_ty ty0) sta s0 st' H Hc') as [H1 H2]; auto.
      + rewrite <- Hg. apply tg_ext. intros x Hx. rewrite clookup_cons. cbn [cbvar ab].
        assert (Hne : a <> x) by (intros ->; apply Hfresh; apply Hfv; exact Hx).
        rewrite (new_id_neq _ _ Hne). reflexivity.
      + rewrite Hused. apply incl_tl. exact Hfv.
      + intros x [].
      + rewrite Hused. apply incl_tl. exact HU.
      + intros G' Hag. apply ct_var. repeat split. rewrite (Hag a (or_intror Hgen)).
        rewrite clookup_cons. cbn [cbvar ab]. rewrite ceq_id_refl. reflexivity.
      + destruct (H2 (tyd_fv_var _ _ _ Htd)) as [H3 H4]. split.
        * apply cs_cut. split; [exact Htd|]. split; [apply ct_mu; repeat split; exact H1 | eapply KT_here; exact HK].
        * intros Hcf. split.
          -- intros b Hb. apply fvs_cut in Hb. destruct Hb as [Hb|Hb]; [|apply Hcf; exact Hb].
             apply fvt_mu_1 in Hb. apply H3. exact Hb.
          -- intros Hall. apply H4. rewrite Hlift. exact Hall.
  Qed.

  Lemma tw_let_in : forall v vty bound body ty, TW bound -> TC bound -> TW body ->
    TWin (FLet v vty bound body ty) [v] (wc_let C v vty (cmp' bound) (wc' bound) (wc' body)).
  Proof.
    intros v vty bound body ty Hbw Hbc Hbo G S cont t st s st' H Hcap Hg Hty Htd Hfv Hbd HS HU HK Hf.
    rewrite tg_let in Hg. apply andb_prop in Hg. destruct Hg as [Hg Hsb]. apply andb_prop in Hg. destruct Hg as [Hg Hgbo].
    apply andb_prop in Hg. destruct Hg as [Hg Htdv]. apply andb_prop in Hg. destruct Hg as [Hgb Hhb]. apply has_ty_tyo in Hhb.
    unfold tyo in Hty. simpl in Hty. apply tyo_ann in Hty. destruct Hty as [ty0 [-> ->]].
    simpl in Hsb. apply has_ty_tyo in Hsb.
    simpl in Hfv, Hbd.
    assert (HvU : In v U) by (apply Hbd; left; reflexivity).
    set (vb := mkcb (new_id v) CPrd (compile_ty vty)).
    set (S' := remove_all [v] (fv_fterm body ++ S)).
    (* the body, in any scope that agrees with G on its free names and on those of the continuation *)
    assert (Hbody : forall body' st1, wc' body cont st = Ok (body', st1) ->
              forall G' stf, incl (st_used_vars st1) (st_used_vars stf) -> Hfind (st_lifted st1) -> agree stf S' G' G ->
              cs (vb :: G') body' = None /\ (tyd_fv (fvt cont) -> tyd_fv (fvs body') /\ lifted_ok st st1)).
    { intros body' st1 Eb G' stf Hstf Hf1 Hag.
      assert (Gb : grows st st1) by (eapply wc_grows; exact Eb).
      apply (Hbo (vb :: G') S cont (compile_ty ty0) st body' st1 Eb); auto.
      - rewrite <- Hgbo. apply tg_ext. apply (same_on_cons _ _ _ _ v); [reflexivity|].
        intros z Hz. apply Hag. left. unfold S'. apply remove_all_In. apply remove_all_In in Hz. destruct Hz as [Hz1 Hz2].
        split; [apply in_or_app; left; exact Hz1 | exact Hz2].
      - intros z Hz. destruct (string_dec z v) as [->|Hne]; [apply HU; exact HvU|].
        apply Hfv. apply in_or_app. right. apply remove_all_In. split; [exact Hz|]. intros [E|[]]. congruence.
      - intros z Hz. apply Hbd. right. apply in_or_app. right. exact Hz.
      - apply (KT_rebind D C defs U cont _ G _ st S [v] HK Hcap).
        intros y Hy Hny. rewrite clookup_cons. cbn [cbvar vb].
        assert (Hne : v <> y) by (intros ->; apply Hny; left; reflexivity).
        rewrite (new_id_neq _ _ Hne). apply Hag. destruct Hy as [Hy|[Hy1 Hy2]].
        + left. unfold S'. apply remove_all_In. split; [apply in_or_app; right; exact Hy | exact Hny].
        + right. split; [apply Hstf; apply (used_grows _ _ Gb); exact Hy1 | exact Hy2]. }
    destruct (ty_is_codata C (compile_ty vty)) eqn:Ecd.
    - (* by name: the bound term is compiled on its own *)
      apply wc_let_inv_codata in H; [|exact Ecd]. destruct H as [body' [st1 [pb [Eb [Ep ->]]]]].
      assert (Gb : grows st st1) by (eapply wc_grows; exact Eb).
      assert (Gp : grows st1 st') by (eapply cmp_grows; exact Ep).
      destruct (Hbody body' st1 Eb G st1 (incl_refl _)) as [B1 B2].
      { eapply Hfind_grows; eassumption. } { apply agree_refl. }
      destruct (Hbc G (compile_ty vty) st1 pb st' Ep Hgb Hhb Htdv) as [P1 [P2 P3]]; auto.
      { eapply incl_tran; [exact (incl_app_l _ _ _ _ Hfv) | apply used_grows; exact Gb]. }
      { intros z Hz. apply Hbd. right. apply in_or_app. left. exact Hz. }
      { eapply incl_tran; [exact HU | apply used_grows; exact Gb]. }
      split.
      + apply cs_cut. split; [exact Htdv|]. split; [exact P1|]. apply ct_mu. repeat split. exact B1.
      + intros Hc. destruct (B2 Hc) as [B3 B4]. split; [|eapply lifted_ok_trans; eassumption].
        intros bb Hbb. apply fvs_cut in Hbb. destruct Hbb as [Hbb|Hbb]; [apply P2; exact Hbb|].
        apply fvt_mu_1 in Hbb. apply B3. exact Hbb.
    - (* by value: the bound term is compiled with the continuation mu~ v. body *)
      apply wc_let_inv in H; [|exact Ecd]. destruct H as [body' [st1 [Eb Ebd]]].
      assert (Gb : grows st st1) by (eapply wc_grows; exact Eb).
      assert (Gp : grows st1 st') by (eapply wc_grows; exact Ebd).
      assert (Hf1 : Hfind (st_lifted st1)) by (eapply Hfind_grows; eassumption).
      destruct (Hbw G S' (CMu CCns (new_id v) body' (compile_ty vty)) (compile_ty vty) st1 s st' Ebd Hgb Hhb Htdv)
        as [W1 W2]; auto.
      { eapply incl_tran; [exact (incl_app_l _ _ _ _ Hfv) | apply used_grows; exact Gb]. }
      { intros z Hz. apply Hbd. right. apply in_or_app. left. exact Hz. }
      { intros z Hz. unfold S' in Hz. apply remove_all_In in Hz. destruct Hz as [Hz Hne]. apply (used_grows _ _ Gb).
        apply in_app_or in Hz. destruct Hz as [Hz|Hz]; [|apply HS; exact Hz].
        apply Hfv. apply in_or_app. right. apply remove_all_In. split; assumption. }
      { eapply incl_tran; [exact HU | apply used_grows; exact Gb]. }
      { intros G' Hag. apply ct_mu. repeat split. apply (Hbody body' st1 Eb G' st1 (incl_refl _) Hf1 Hag). }
      split; [exact W1|]. intros Hc.
      destruct (Hbody body' st1 Eb G st1 (incl_refl _) Hf1 (agree_refl _ _ _ _)) as [_ B2]. destruct (B2 Hc) as [B3 B4].
      assert (Hcm : tyd_fv (fvt (CMu CCns (new_id v) body' (compile_ty vty)))).
      { intros bb Hbb. apply fvt_mu_1 in Hbb. apply B3. exact Hbb. }
      destruct (W2 Hcm) as [W3 W4]. split; [exact W3 | eapply lifted_ok_trans; eassumption].
  Qed.

  Lemma tw_let : forall v vty bound body ty, TW bound -> TC bound -> TW body -> TW (FLet v vty bound body ty).
  Proof.
    intros v vty bound body ty Hbw Hbc Hbo.
    eapply tw_guard; [| |apply tw_let_in; assumption].
    - intros cont. rewrite wc_unfold. reflexivity.
    - reflexivity.
  Qed.

  Lemma args_typed_snoc : forall G l sig a b, args_typed G l sig -> arg_typed D C defs G a b -> args_typed G (l ++ [a]) (sig ++ [b]).
  Proof. intros G l sig a b H1 H2. apply Forall2_app; [exact H1 | constructor; [exact H2 | constructor]]. Qed.

  Lemma tw_call : forall f args ret, Forall TC args -> TW (FCall f args ret).
  Proof.
    intros f args ret Ha G S cont t st s st' H Hg Hty Htd Hfv Hbd HS HU HK Hf. rewrite wc_unfold in H.
    apply wc_call_inv in H. destruct H as [args' [ret0 [Es [-> ->]]]].
    rewrite tg_call in Hg. apply andb_prop in Hg. destruct Hg as [Hnm Hg].
    assert (Hnm' : f <> "main" \/ calls_main_prog p = true).
    { apply orb_prop in Hnm. destruct Hnm as [Hnm|Hnm]; [left; apply negb_true_iff in Hnm; apply String.eqb_neq in Hnm; exact Hnm | right; exact Hnm]. }
    clear Hnm. rename Hnm' into Hnm.
    destruct (ffind_def p f) as [d|] eqn:Ed; [|discriminate].
    apply andb_prop in Hg. destruct Hg as [Hg Htdr]. apply andb_prop in Hg. destruct Hg as [Hga Hret]. apply ceq_ty in Hret.
    unfold tyo in Hty. simpl in Hty. injection Hty as <-.
    rewrite fv_call in Hfv. simpl in Hbd.
    destruct (Hcallee f d Ed Hnm) as [a [body Hfd]].
    destruct (tw_args args Ha G _ st args' st' Es Hga) as [A1 [A2 A3]]; auto.
    split.
    - apply cs_call. split; [exact Htd|]. eexists. split; [exact Hfd|]. cbn [cdctx].
      apply args_typed_snoc; [exact A1|]. unfold arg_typed. cbn [cbchi cbty]. rewrite <- Hret. eapply KT_here. exact HK.
    - intros Hc. split; [|exact A3]. intros bb Hbb. apply fvs_call in Hbb. apply fva_app in Hbb.
      destruct Hbb as [Hbb|Hbb]; [apply A2; exact Hbb|]. apply fva_cons in Hbb.
      destruct Hbb as [Hbb|Hbb]; [apply Hc; exact Hbb | apply fva_nil in Hbb; contradiction].
  Qed.

  Lemma ctor_ok : forall x args ty, Forall TC args -> forall G t st args' st',
    subst_with (fun y => cmp' y) args st = Ok (args', st') ->
    tg G (FCtor x args ty) = true -> tyo (FCtor x args ty) = Some t ->
    incl (fv_fterm (FCtor x args ty)) (st_used_vars st) -> incl (bnd (FCtor x args ty)) U -> incl U (st_used_vars st) ->
    Hfind (st_lifted st') ->
    ct G CPrd t (CXtor CPrd (new_id x) args' t) = None /\ tyd t = true /\ tyd_fv (fva args') /\ lifted_ok st st'.
  Proof.
    intros x args ty Ha G t st args' st' Es Hg Hty Hfv Hbd HU Hf.
    rewrite tg_ctor, Hty in Hg. destruct t as [|n]; [discriminate|].
    destruct (find_decl D n) as [d|] eqn:Ed; [|discriminate]. destruct (find_cxtor d (new_id x)) as [sg|] eqn:Esg; [|discriminate].
    rewrite fv_ctor in Hfv. simpl in Hbd.
    destruct (tw_args args Ha G _ st args' st' Es Hg) as [A1 [A2 A3]]; auto.
    split; [|split; [eapply find_data_tyd; exact Ed | split; assumption]].
    apply ct_xtor. repeat split. exists n, d, sg. repeat split; assumption.
  Qed.
  Lemma tc_ctor : forall x args ty, Forall TC args -> TC (FCtor x args ty).
  Proof.
    intros x args ty Ha G t st c st' H Hg Hty Htd Hfv Hbd HU Hf. rewrite cmp_unfold in H.
    apply cmp_ctor_inv in H. destruct H as [args' [ty0 [Es [-> ->]]]].
    pose proof Hty as Hty'. unfold tyo in Hty'. simpl in Hty'. injection Hty' as <-.
    destruct (ctor_ok x args (Some ty0) Ha G _ st args' st' Es Hg Hty) as [C1 [_ [C3 C4]]]; auto.
  Qed.
  Lemma tw_ctor : forall x args ty, Forall TC args -> TW (FCtor x args ty).
  Proof.
    intros x args ty Ha G S cont t st s st' H Hg Hty Htd Hfv Hbd HS HU HK Hf. rewrite wc_unfold in H.
    apply wc_ctor_inv in H. destruct H as [args' [ty0 [Es [-> ->]]]].
    pose proof Hty as Hty'. unfold tyo in Hty'. simpl in Hty'. injection Hty' as <-.
    destruct (ctor_ok x args (Some ty0) Ha G _ st args' st' Es Hg Hty) as [C1 [_ [C3 C4]]]; auto.
    split.
    - apply cs_cut. split; [exact Htd|]. split; [exact C1 | eapply KT_here; exact HK].
    - intros Hc. split; [|exact C4]. intros bb Hbb. apply fvs_cut in Hbb. destruct Hbb as [Hbb|Hbb]; [|apply Hc; exact Hbb].
      apply fvt_xtor in Hbb. apply C3. exact Hbb.
  Qed.
End Main.
