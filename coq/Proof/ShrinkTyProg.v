(* Proof/ShrinkTyProg.v (C12, fragment 2) - shrinking preserves typing: for a well-typed focused program
   with consistently spelled identifiers and declared parameter / field types, the shrunk program passes
   the AxCut checker (check_prog = None) and is pre-linear. *)
From Coq Require Import List ZArith NArith String Bool Lia.
From SCC Require Import Base.Sexp Lang.SynUtil Lang.CoreSyn Lang.AxSyn Sem.FsCheck Model.Shrink Model.LinCheck Model.WtDefs
     Proof.ShrinkProof Proof.ShrinkRn Proof.ShrinkSimBase Proof.ShrinkSimData Proof.ShrinkSimEta Proof.ShrinkTfv
     Proof.ShrinkSimC Proof.ShrinkSimTop Proof.ShrinkSimProg Proof.ShrinkTyping Proof.ShrinkLabId Proof.ShrinkTyA Proof.ShrinkTyB Proof.ShrinkTyC Proof.ShrinkTyD
     Proof.ShrinkTyH Proof.ShrinkTyI Proof.ShrinkTyJ Proof.ShrinkTyFv.
From SCC Require Sem.AxCheck.
Import ListNotations.
Open Scope list_scope.

(* decls_ok: Sem/FsFrag2.v *)

Lemma nodup_by_NoDup_cident : forall l : list cident, FsCheck.nodup_by cident_eqb l = true -> NoDup l.
Proof.
  induction l as [|x r IH]; intros H; [constructor|]. simpl in H. apply andb_prop in H as [H1 H2]. constructor; [|now apply IH].
  intros Hin. apply negb_true_iff in H1. assert (existsb (cident_eqb x) r = true); [|congruence].
  apply existsb_exists. exists x. split; [exact Hin | apply cident_eqb_refl].
Qed.
Lemma NoDup_nodup_by_ident : forall l : list ident, NoDup l -> AxCheck.nodup_by ident_eqb l = true.
Proof.
  induction 1 as [|x r Hni _ IH]; [reflexivity|]. simpl. rewrite IH, andb_true_r. apply negb_true_iff.
  destruct (existsb (ident_eqb x) r) eqn:E; [|reflexivity]. apply existsb_exists in E as (y & Hy & He). apply cident_eqb_eq in He. subst. contradiction.
Qed.
Lemma NoDup_nodup_by_N : forall l : list N, NoDup l -> AxCheck.nodup_by N.eqb l = true.
Proof.
  induction 1 as [|x r Hni _ IH]; [reflexivity|]. simpl. rewrite IH, andb_true_r. apply negb_true_iff.
  destruct (existsb (N.eqb x) r) eqn:E; [|reflexivity]. apply existsb_exists in E as (y & Hy & He). apply N.eqb_eq in He. subst. contradiction.
Qed.
Lemma find_of_NoDup : forall l d, NoDup (map (fun d => dname d) l) -> In d l -> find (fun d' => ident_eqb (dname d') (dname d)) l = Some d.
Proof.
  induction l as [|d0 r IH]; intros d Hn Hin; [contradiction|]. simpl in *. inversion Hn as [|? ? Hni Hn']; subst.
  destruct Hin as [->|Hin]; [now rewrite cident_eqb_refl|].
  destruct (ident_eqb (dname d0) (dname d)) eqn:E; [|now apply IH].
  apply cident_eqb_eq in E. exfalso. apply Hni. rewrite E. apply in_map_iff. eauto.
Qed.

Section TyProg.
Variable p : fsprog.
Notation data := (fspdata p).
Notation codata := (fspcodata p).
Notation defs := (fspdefs p).
Notation m0 := (fspmax p).
Notation D := (data ++ [cont_int]).
Notation ts := (ts_of p).

(* a property of every definition of the output *)
Lemma defs_rel_all : forall (Pd : def -> Prop) (total : list def) ds used m rest, defs_rel D codata ds used m rest ->
  incl rest total ->
  (forall d, In d ds -> ib_stmt m0 (fsdbody d) = true) -> (m0 <= m)%N ->
  (forall d used m t st', In d ds -> (m0 <= m)%N ->
     shrink_stmt (fsz (fsdbody d)) (mksenv D codata (fst (fsdname d))) (fsdbody d) (mksst m [] used) = SOk (t, st') ->
     In (mkd (fsdname d) (shrink_context codata (fsdctx d)) t) total -> (forall x, In x (s_lifted st') -> In x total) ->
     Pd (mkd (fsdname d) (shrink_context codata (fsdctx d)) t) /\ forall x, In x (s_lifted st') -> Pd x) ->
  forall x, In x rest -> Pd x.
Proof.
  intros Pd total ds used m rest H. induction H as [used m|d r used m t st' rest Hsh Hr IH]; intros Hincl Hib Hm HP x Hx; [contradiction|].
  assert (Hmono : (m <= s_max st')%N).
  { pose proof Hsh as Hsh'. rewrite <- (rn_id (fsdbody d)) in Hsh' at 2.
    apply (shrink_mono p) in Hsh' as [H1 _]; [exact H1 | apply Hib; now left | exact Hm]. }
  destruct (HP d used m t st' (or_introl eq_refl) Hm Hsh) as [P1 P2].
  { apply Hincl. now left. }
  { intros y Hy. apply Hincl. right. apply in_or_app. now left. }
  destruct Hx as [<-|Hx]; [exact P1|]. apply in_app_or in Hx as [Hx|Hx]; [now apply P2|].
  apply IH; auto.
  - intros y Hy. apply Hincl. right. apply in_or_app. now right.
  - intros d0 H0. apply Hib. now right.
  - lia.
  - intros d0 u0 m1 t1 s1 Hd0. apply HP. now right.
Qed.

Lemma grel_self : forall ctx, NoDup (cids ctx) ->
  grel p (fun _ => True) (fun x => (fun y => y) ((fun y => y) x)) (shrink_context codata ctx) ctx.
Proof.
  intros ctx Hnd b Hb _. exists (shrink_binding codata b). split; [|split; reflexivity]. cbn beta.
  assert (Hin : In (shrink_binding codata b) (shrink_context codata ctx)) by (unfold shrink_context; now apply in_map).
  pose proof (lookup_b_self (shrink_context codata ctx) [] _ ltac:(rewrite ids_shrink_context; exact Hnd) Hin) as Hl.
  rewrite app_nil_r, shrink_binding_var in Hl. exact Hl.
Qed.

Theorem shrink_typing_fragment2 : forall q,
  names_ok p = true -> decls_ok p = true -> wt_fs p = true -> unique_binders p = true -> ids_bounded p = true ->
  shrink_prog p = SOk q ->
  AxCheck.check_prog q = None /\ pre_linear_prog q = true.
Proof.
  intros q Hnames Hdecls Hwt Hub Hib Hsh.
  unfold wt_fs in Hwt. destruct (check_fs p) eqn:Hc; [discriminate|]. clear Hwt. unfold check_fs in Hc.
  apply seq_none in Hc as [C0 Hc]. apply seq_none in Hc as [C1 Hc]. apply seq_none in Hc as [C2 Hc].
  apply seq_none in Hc as [C3 Hc]. apply seq_none in Hc as [C4 C5].
  apply fensure_none in C1. apply fensure_none in C2. apply fensure_none in C3. apply fensure_none in C4.
  pose proof (nodup_types_disjoint _ _ C1) as Hdisj.
  assert (Hcont : find_decl data cont_name = None /\ find_decl codata cont_name = None).
  { apply negb_true_iff in C2. rewrite existsb_app in C2. apply orb_false_iff in C2 as [Ca Cb].
    split; unfold find_decl.
    - destruct (find _ data) as [d|] eqn:E; [|reflexivity]. apply find_some in E as [E1 E2].
      assert (existsb (fun t => cident_eqb (ctname t) cont_name_fs) data = true) by (apply existsb_exists; eauto). congruence.
    - destruct (find _ codata) as [d|] eqn:E; [|reflexivity]. apply find_some in E as [E1 E2].
      assert (existsb (fun t => cident_eqb (ctname t) cont_name_fs) codata = true) by (apply existsb_exists; eauto). congruence. }
  unfold decls_ok in Hdecls. apply andb_prop in Hdecls as [Hpar Hfld].
  assert (Hfields : forall d, In d (data ++ codata) -> forall sg, In sg (ctxtors d) -> forall b, In b (cxargs sg) -> ty_ok data codata (cbty b) = true).
  { intros d Hd sg Hsg b Hb. rewrite forallb_forall in Hfld. pose proof (Hfld d Hd) as H1. rewrite forallb_forall in H1.
    pose proof (H1 sg Hsg) as H2. rewrite forallb_forall in H2. now apply H2. }
  assert (Hxnd : forall d, In d (data ++ codata) -> nodup_by cident_eqb (map cxname (ctxtors d)) = true).
  { intros d Hd. rewrite forallb_forall in C3. now apply C3. }
  pose proof Hsh as Hq.
  unfold shrink_prog in Hsh. destruct (_ || _); [discriminate|].
  destruct (shrink_defs defs D codata (map fsdname defs) m0 []) as [[defs' mx]|] eqn:Esd; [|discriminate]. cbn [sbind] in Hsh.
  apply shrink_defs_rel in Esd as (rest & Eout & Hrel). cbn [frev rev_append app] in Eout. subst defs'.
  injection Hsh as <-.
  assert (Hibd : forall d, In d defs -> ctx_le m0 (fsdctx d) = true /\ ib_stmt m0 (fsdbody d) = true).
  { intros d Hd. unfold ids_bounded in Hib. rewrite forallb_forall in Hib. apply Hib in Hd.
    apply andb_prop in Hd as [Hd H2]. apply andb_prop in Hd as [_ H1]. auto. }
  assert (Hndn : NoDup (map (fun d => dname d) rest)) by (apply (lift_label_fresh_id p _ (nodup_by_NoDup_cident _ C4) Hq)).
  assert (Hds_find : forall d, In d rest -> find (fun d' => ident_eqb (dname d') (dname d)) rest = Some d) by (intros d Hd; now apply find_of_NoDup).
  assert (Hds_defs : forall d, In d defs -> exists t, In (mkd (fsdname d) (shrink_context codata (fsdctx d)) t) rest).
  { intros d Hd. destruct (defs_rel_facts p _ _ _ _ Hrel (fun d0 H0 => proj2 (Hibd d0 H0)) (N.le_refl _) d Hd) as (u & md & t & st' & _ & _ & F3 & _). eauto. }
  assert (Hall : forall x, In x rest -> lifted_ok p rest x).
  { apply (defs_rel_all (lifted_ok p rest) rest _ _ _ _ Hrel (incl_refl _) (fun d0 H0 => proj2 (Hibd d0 H0)) (N.le_refl _)).
    intros d used m t st' Hd Hm Hshd Hint Hlin.
    pose proof (check_defs_in p _ d C5 Hd) as Hck.
    pose proof (nodup_by_NoDup _ (check_defs_nodup p _ d C5 Hd)) as Hnd.
    unfold unique_binders in Hub. rewrite forallb_forall in Hub. pose proof (Hub d Hd) as Hu. apply andb_prop in Hu as [_ Hu].
    destruct (Hibd d Hd) as [Hcl Hibb].
    unfold names_ok in Hnames. rewrite forallb_forall in Hnames. pose proof (Hnames d Hd) as Hnc.
    rewrite forallb_forall in Hpar. pose proof (Hpar d Hd) as Hpd. rewrite forallb_forall in Hpd.
    assert (Hids : forall i, In i (cids (fsdctx d)) -> ~ In i (cids (@nil cbinding)) /\ (i <= m0)%N).
    { intros i Hi. split; [intros [] | eapply ctx_le_ids; eauto]. }
    set (st0 := mksst m [] used) in *.
    pose proof (inv_push_list p (fsdctx d) [] _ _ st0 (inv_nil p st0 Hm) Hnd Hids) as Hinv. rewrite app_nil_r in Hinv.
    rewrite <- (rn_id (fsdbody d)) in Hshd at 2.
    destruct (TL_all p rest Hdisj Hcont Hfields Hxnd Hds_find Hds_defs _ (fsdbody d) (fst (fsdname d)) (fsdctx d) _ _ st0 t st' (shrink_context codata (fsdctx d))
                Hinv Hck Hu Hibb Hnc Hpd Hshd) as (T1 & T2 & T3).
    { eapply grel_weaken; [apply (grel_self _ Hnd) | intros; exact I]. }
    { intros i Hi. rewrite ids_shrink_context in Hi. split; [now left|]. destruct (Hids i Hi). cbn [st0 s_max]. lia. }
    { exact Hlin. }
    { intros x []. }
    rewrite arn_id in T1. split; [|exact T3].
    split; [exact T1|]. split; [exact T2|]. split; [cbn [dctx]; rewrite ids_shrink_context; exact Hnd|].
    cbn [dctx]. unfold shrink_context. rewrite forallb_map. apply forallb_forall. intros b Hb. apply (ty_declared_shrink p Hdisj Hcont). now apply Hpd. }
  assert (Hdefck : forall x, In x rest -> AxCheck.check_def ts rest x = None).
  { intros x Hx. destruct (Hall x Hx) as (L1 & L2 & L3 & L4). unfold AxCheck.check_def.
    rewrite (NoDup_nodup_by_N _ L3), L4. cbn [AxCheck.ensure negb]. rewrite L1.
    destruct (AxCheck.is_lifted_name (dname x)); [|reflexivity].
    rewrite minus_n_nil; [reflexivity|]. intros y Hy. eapply fv_scoped; eauto. }
  split.
  - unfold AxCheck.check_prog. cbn [ptypes pdefs].
    assert (CT : AxCheck.check_types ts = None).
    { unfold AxCheck.check_types.
      assert (N1 : AxCheck.nodup_by ident_eqb (map tname ts) = true).
      { unfold ts_of. rewrite map_app, !tname_shrink, map_app. cbn [map]. rewrite <- app_assoc. cbn [app].
        rewrite nodup_by_same. rewrite map_app in C1. apply nodup_insert; [exact C1|].
        apply negb_true_iff in C2. rewrite <- map_app, existsb_map_. exact C2. }
      rewrite N1. cbn [AxCheck.ensure].
      assert (N2 : forallb (fun t => AxCheck.nodup_by ident_eqb (map xname (txtors t))) ts = true).
      { unfold ts_of. rewrite forallb_app, !forallb_map_.
        assert (G : forall l, forallb (fun t => FsCheck.nodup_by cident_eqb (map cxname (ctxtors t))) l = true ->
                              forallb (fun t => AxCheck.nodup_by ident_eqb (map xname (txtors (shrink_declaration codata t)))) l = true).
        { induction l as [|t r IH]; [reflexivity|]. cbn [forallb]. intros H. apply andb_prop in H as [H1 H2].
          rewrite (IH H2), andb_true_r. cbn [shrink_declaration txtors]. rewrite map_map. cbn [shrink_xtor xname shrink_identifier].
          rewrite nodup_by_same. exact H1. }
        rewrite forallb_app in C3. apply andb_prop in C3 as [D1 D2]. rewrite forallb_app.
        rewrite (G _ D1), (G _ D2). reflexivity. }
      rewrite N2. reflexivity. }
    pose proof (NoDup_nodup_by_ident _ Hndn) as Hnn. change (map (fun d : def => dname d) rest) with (map dname rest) in Hnn.
    fold ts. rewrite CT, Hnn. cbn [AxCheck.ensure].
    match goal with |- ?F rest = None => assert (Hgo : forall l, (forall d, In d l -> In d rest) -> F l = None) end.
    { induction l as [|d r IH]; intros IN; [reflexivity|].
      rewrite (Hdefck d (IN d (or_introl eq_refl))). apply IH. intros d' H. apply IN. now right. }
    apply Hgo. auto.
  - unfold pre_linear_prog. cbn [pdefs]. apply forallb_forall. intros x Hx. apply (Hall x Hx).
Qed.
End TyProg.
