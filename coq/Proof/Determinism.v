(* C17 lemmas: the places where the Rust code uses hash-based or insertion-ordered containers
   cannot influence the output.
   (1) linearize: the liveness sets are HashSet<ID>, used ONLY through `contains`; in the model they
       are lists with `mem`; the result of filter_by_set depends on membership alone.
   (2) back end: BTreeMap/BTreeSet keyed by temporaries / bindings; in the model sorted insertion;
       the resulting sequence is independent of the insertion order (permutation invariant). *)
From Coq Require Import List ZArith NArith Bool Permutation Sorted Lia.
From SCC Require Import Lang.AxSyn Model.Linearize Model.Backend.
Import ListNotations.

(* ---------- (1) ---------- *)
Lemma strip_ext {X} (k1 k2 : X -> bool) : (forall x, k1 x = k2 x) -> forall l, strip k1 l = strip k2 l.
Proof. intros E l. induction l as [|x r IH]; cbn; [reflexivity|]. rewrite IH, E. reflexivity. Qed.
Lemma fbs_ext {X} (k1 k2 : X -> bool) : (forall x, k1 x = k2 x) -> forall fuel l, fbs k1 fuel l = fbs k2 fuel l.
Proof.
  intros E fuel. induction fuel as [|f IH]; intros l; cbn; [reflexivity|].
  destruct l as [|x rest]; [reflexivity|]. rewrite E, (strip_ext k1 k2 E). destruct (k2 x).
  - now rewrite IH.
  - destruct (unsnoc (strip k2 rest)) as [[mid y]|]; [now rewrite IH|reflexivity].
Qed.
Theorem filter_by_set_membership_only (c : ctx) (s s' : list N) :
  (forall x, mem x s = mem x s') -> filter_by_set c s = filter_by_set c s'.
Proof. intros E. unfold filter_by_set. apply fbs_ext. intros b. unfold keep_in. apply E. Qed.
(* in particular any reordering or duplication of the set's elements is irrelevant *)
Corollary filter_by_set_permutation (c : ctx) (s s' : list N) :
  Permutation s s' -> filter_by_set c s = filter_by_set c s'.
Proof.
  intros P. apply filter_by_set_membership_only. intros x. unfold mem.
  apply eq_true_iff_eq. rewrite !existsb_exists. split; intros (y & Hy & E); exists y; split; auto.
  - eapply Permutation_in; eauto.
  - eapply Permutation_in; [apply Permutation_sym|]; eauto.
Qed.

(* ---------- (2) ---------- *)
Section Ordered.
Context {K : Type} (cmp : K -> K -> comparison).
(* cmp is a total order: Eq is Leibniz equality, Lt is transitive, Gt is the converse of Lt *)
Hypothesis cmp_eq : forall a b, cmp a b = Datatypes.Eq <-> a = b.
Hypothesis cmp_lt_trans : forall a b c, cmp a b = Datatypes.Lt -> cmp b c = Datatypes.Lt -> cmp a c = Datatypes.Lt.
Hypothesis cmp_antisym : forall a b, cmp a b = Datatypes.Gt <-> cmp b a = Datatypes.Lt.

Definition ltk a b := cmp a b = Datatypes.Lt.
Lemma set_insert_in k s x : In x (set_insert cmp k s) <-> k = x \/ In x s.
Proof.
  induction s as [|y r IH]; cbn; [tauto|]. destruct (cmp k y) eqn:C; cbn.
  - apply cmp_eq in C; subst. tauto.
  - tauto.
  - rewrite IH. tauto.
Qed.
Lemma set_insert_sorted k s : StronglySorted ltk s -> StronglySorted ltk (set_insert cmp k s).
Proof.
  induction 1 as [|y r Sr IH Hy]; cbn; [repeat constructor|].
  destruct (cmp k y) eqn:C.
  - constructor; auto.
  - constructor; [constructor; auto|]. constructor; [exact C|].
    rewrite Forall_forall in *. intros z Hz. eapply cmp_lt_trans; [exact C|]. now apply Hy.
  - constructor; [exact IH|]. rewrite Forall_forall in *. intros z Hz.
    apply set_insert_in in Hz as [<-|Hz]; [now apply cmp_antisym|now apply Hy].
Qed.
Lemma set_of_list_spec l :
  StronglySorted ltk (set_of_list cmp l) /\ (forall x, In x (set_of_list cmp l) <-> In x l).
Proof.
  unfold set_of_list.
  assert (G : forall acc, StronglySorted ltk acc ->
            StronglySorted ltk (fold_left (fun s k => set_insert cmp k s) l acc) /\
            (forall x, In x (fold_left (fun s k => set_insert cmp k s) l acc) <-> In x l \/ In x acc)).
  { induction l as [|k l IH]; intros acc Sa; cbn; [split; [exact Sa|tauto]|].
    destruct (IH (set_insert cmp k acc) (set_insert_sorted k acc Sa)) as (S1 & M1). split; [exact S1|].
    intros x. rewrite M1, set_insert_in. tauto. }
  destruct (G [] (SSorted_nil _)) as (S1 & M1). split; [exact S1|]. intros x. rewrite M1. cbn. tauto.
Qed.
Lemma ltk_irrefl a : ~ ltk a a.
Proof. unfold ltk. intros H. assert (cmp a a = Datatypes.Eq) by now apply cmp_eq. congruence. Qed.
Lemma sorted_unique l1 : forall l2,
  StronglySorted ltk l1 -> StronglySorted ltk l2 -> (forall x, In x l1 <-> In x l2) -> l1 = l2.
Proof.
  induction l1 as [|a r1 IH]; intros l2 S1 S2 M.
  - destruct l2 as [|b r2]; [reflexivity|]. exfalso. apply (M b). now left.
  - destruct l2 as [|b r2]; [exfalso; apply (M a); now left|].
    inversion S1 as [|? ? Sr1 Fa]; subst. inversion S2 as [|? ? Sr2 Fb]; subst.
    rewrite Forall_forall in Fa, Fb.
    assert (a = b) as ->.
    { destruct (proj1 (M a) (or_introl eq_refl)) as [E|Hin]; [congruence|].
      destruct (proj2 (M b) (or_introl eq_refl)) as [E|Hin']; [congruence|].
      exfalso. apply (ltk_irrefl a). eapply cmp_lt_trans; [apply Fa; exact Hin'|apply Fb; exact Hin]. }
    f_equal. apply IH; auto. intros x. split; intros Hx.
    + destruct (proj1 (M x) (or_intror Hx)) as [<-|?]; [|assumption]. exfalso. apply (ltk_irrefl b). now apply Fa.
    + destruct (proj2 (M x) (or_intror Hx)) as [<-|?]; [|assumption]. exfalso. apply (ltk_irrefl b). now apply Fb.
Qed.
Theorem set_of_list_order_independent l l' :
  (forall x, In x l <-> In x l') -> set_of_list cmp l = set_of_list cmp l'.
Proof.
  intros M. destruct (set_of_list_spec l) as (S1 & M1), (set_of_list_spec l') as (S2 & M2).
  apply sorted_unique; auto. intros x. rewrite M1, M2. apply M.
Qed.
End Ordered.

(* instance: the derived Ord of the x86-64 `Temporary` (Register n < Spill m) is such an order *)
From SCC Require Import Model.X86.
Lemma xtemp_compare_eq a b : xtemp_compare a b = Datatypes.Eq <-> a = b.
Proof.
  destruct a as [x|x], b as [y|y]; cbn; try (split; [discriminate|congruence]);
    rewrite N.compare_eq_iff; split; congruence.
Qed.
Lemma xtemp_compare_trans a b c :
  xtemp_compare a b = Datatypes.Lt -> xtemp_compare b c = Datatypes.Lt -> xtemp_compare a c = Datatypes.Lt.
Proof.
  destruct a as [x|x], b as [y|y], c as [z|z]; cbn; try congruence; rewrite !N.compare_lt_iff; lia.
Qed.
Lemma xtemp_compare_antisym a b : xtemp_compare a b = Datatypes.Gt <-> xtemp_compare b a = Datatypes.Lt.
Proof.
  destruct a as [x|x], b as [y|y]; cbn; try (split; congruence); rewrite N.compare_gt_iff, N.compare_lt_iff; tauto.
Qed.
Theorem x86_target_sets_order_independent (l l' : list xtemp) :
  (forall x, In x l <-> In x l') -> set_of_list xtemp_compare l = set_of_list xtemp_compare l'.
Proof.
  apply set_of_list_order_independent; [apply xtemp_compare_eq|apply xtemp_compare_trans|apply xtemp_compare_antisym].
Qed.
