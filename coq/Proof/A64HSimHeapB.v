(* C07, forward simulation for HEAP statements on AArch64, part 6b: Let and Create.  Port of Proof/X86HSimHeapB.v.
   `hclo_ok` is what the data word of a closure points to: the address of its label (plus the table offset) has a
   landing index (the first instruction of non-zero size at that address, Proof/A64SimAddr.v `land`), and every run
   from the start of the code `a_load cenv cx ++ body` of the clause continues from the landing index
   (`finishes`-form: with at most one clause the landing index lies behind the labels in front of the clause code,
   possibly inside it, see Proof/A64HLayout.v); the code is generated for the clause context followed by the
   captured context, and linearly checked there.

   WHERE THE PORT DIFFERS FROM x86-64: hypothesis `TAGS` (every type has fewer than 2^61 constructors): the tag
   word `jump_length k = 4k` of a Let is synthesised by MOVZ/MOVK (`a64_load_immediate_ok` needs a 64-bit value);
   x86-64's `mov r, imm64` takes any Z.  `fwd_ok im` (Proof/A64HLayout.v) replaces `back_ok im`. *)
From Coq Require Import List ZArith NArith String Bool Lia FMapPositive Permutation.
From SCC Require Import Base.Sexp Lang.AxSyn Sem.AxSem Sem.AxHeap Model.ParMoves Model.Backend Model.A64 Sem.A64Sem
     Model.Linearize Model.LinCheck Generated.Constants Proof.LinBasics Proof.LinTyping
     Proof.A64State Proof.A64ImmHw Proof.A64Imm Proof.A64Sel Proof.A64PM Proof.A64Exec
     Proof.A64MemSubst Proof.SubstGraph Proof.SubstBackends Proof.A64Subst Proof.A64Wf Proof.A64Print
     Proof.A64SimRel Proof.A64SimStmt Proof.A64SimAddr Proof.A64SimClo Proof.HRep Proof.A64Mem Proof.A64MemOps
     Proof.A64HSimRel Proof.A64HSimStmt Proof.A64HConv Proof.A64HSimStore Proof.A64HSimLoad Proof.A64HLayout
     Proof.A64HSimHeapA Proof.X86HAnn.
From SCC Require Model.Heap Proof.HeapMore Proof.HeapTrace Proof.HeapRep
     Proof.X86Mem Proof.X86MemFrame Proof.X86HeapDefs Proof.X86HeapCongr Proof.X86HBridge Proof.X86HFrame
     Proof.X86HSimHeapA Proof.X86HSimHeapB.
Import ListNotations.
Open Scope Z_scope.
Open Scope list_scope.

Notation same_kt_nth := X86HSimHeapB.same_kt_nth.
Notation ty_name_Decl := X86HSimHeapB.ty_name_Decl.
Notation firstn_app_exact := X86HSimHeapB.firstn_app_exact.

(* the lemmas of Proof/X86HSimHeapB.v about `same_kinds` / `ctx_of_env`, for the constants of Proof/HRep.v *)
Lemma same_kinds_intro (fs : list value) (sg : ctx) : List.length fs = List.length sg ->
  (forall i f b, nth_error fs i = Some f -> nth_error sg i = Some b -> chi_of f = bchi b /\ ty_of f = bty b) ->
  HRep.same_kinds fs sg.
Proof.
  revert sg. induction fs as [|f fs IH]; intros [|b sg] L H; cbn in L; try discriminate; constructor.
  - apply (H O); reflexivity.
  - apply IH; [lia|]. intros i f' b' Hf Hb. apply (H (S i)); assumption.
Qed.

(* the captured environment of a new closure stands for exactly the context it was taken from *)
Lemma ctx_of_env_bind (env : ctx) (vs : list value) ce :
  bind (vars env) vs = Some ce ->
  (forall i b v, nth_error env i = Some b -> nth_error vs i = Some v -> chi_of v = bchi b /\ ty_of v = bty b) ->
  HRep.ctx_of_env ce = env /\ map snd ce = vs.
Proof.
  revert vs ce. induction env as [|b env IH]; intros [|v vs] ce H K; cbn [vars map bind] in H; try discriminate.
  - inversion H; subst. split; reflexivity.
  - destruct (bind (map bvar env) vs) as [cr|] eqn:B; [|discriminate]. inversion H; subst ce.
    destruct (IH vs cr B) as [E1 E2]; [intros i b' v' Hb Hv; apply (K (S i)); assumption|].
    destruct (K O b v eq_refl eq_refl) as [K1 K2].
    split; [|cbn; now rewrite E2]. unfold HRep.ctx_of_env in *. cbn [map fst snd]. rewrite E1. f_equal.
    destruct b as [bv bc bt]. cbn in *. now rewrite K1, K2.
Qed.

(* a found constructor position is below the number of constructors *)
Lemma xtor_position_lt : forall (xs : list xtorsig) tag i k,
  xtor_position xs tag i = Ok k -> (k < i + N.of_nat (List.length xs))%N.
Proof.
  induction xs as [|x r IH]; intros tag i k H; cbn [xtor_position] in H; [discriminate|].
  destruct (ident_eqb (xname x) tag).
  - inversion H; subst. cbn [List.length]. lia.
  - apply IH in H. cbn [List.length]. lia.
Qed.

Section HB.
Variable im : image.
Variable p : prog.
Hypothesis IMG : img_ok im.
Hypothesis FWD : fwd_ok im.
Hypothesis SMALL : forall pc a, PM.find pc (addr_of im) = Some a -> a < 4611686018427387904.
(* every jump-table offset is a 64-bit value (4 * 2^61 = 2^63) *)
Hypothesis TAGS : forall d, In d (ptypes p) -> Z.of_nat (List.length (txtors d)) < 2305843009213693952.

Definition hclo_ok (a : Z) (tn : ident) (cls : list clause) (cenv : ctx) : Prop :=
  cls_ok (sigs_of p) (Decl tn) cls = true /\ 0 <= a < 4611686018427387904 /\
  forall k c, nth_error cls k = Some c ->
    exists i pcc lcl cl lcb cb lcb',
      PM.find (key (a + (if Nat.leb (List.length cls) 1 then 0 else jump_length (N.of_nat k)))) (index_at im) = Some i /\
      a + (if Nat.leb (List.length cls) 1 then 0 else jump_length (N.of_nat k)) < 4611686018427387904 /\
      (forall s o, finishes im pcc s o -> finishes im i s o) /\
      a_load cenv (cl_ctx c) lcl = Ok (cl, lcb) /\ acs (ptypes p) (cl_body c) (cl_ctx c ++ cenv) lcb = Ok (cb, lcb') /\
      code_at im pcc (cl ++ cb) /\ labels_at_nh im pcc (cl ++ cb) /\
      lin_check (sigs_of p) (cl_ctx c ++ cenv) (cl_body c) = true /\ ann_check (cl_ctx c ++ cenv) (cl_body c) = true /\
      stmt_lits (cl_body c) = true.   (* AArch64: the literals of the body are 64-bit values *)

Local Notation hrel := (hrel (ptypes p) hclo_ok).
Local Notation hvrep := (hvrep (ptypes p) hclo_ok).
Local Notation xrep := (HRep.xrep (ptypes p) hclo_ok jump_length in64).
Local Notation xflds := (HRep.xflds (ptypes p) hclo_ok jump_length in64).

(* the kinds of the stored values are those of the bindings of the context suffix *)
Lemma suffix_kinds rest args he0 fsE hs s sp i b en :
  hrel (rest ++ args) (he0 ++ fsE) hs s sp -> List.length he0 = List.length rest ->
  nth_error args i = Some b -> nth_error fsE i = Some en -> chi_of (h_val en) = bchi b /\ ty_of (h_val en) = bty b /\ idn (h_id en) = idn (bvar b).
Proof.
  intros R L Hb He. destruct en as [[x v] q].
  destruct (hrel_vals_app (ptypes p) hclo_ok rest args he0 fsE hs s sp i x v q R L He) as (b' & Hb' & V).
  assert (b' = b) by congruence. subst b'. cbn [h_val h_id fst snd].
  assert (EI : idn x = idn (bvar b)).
  { destruct (henv_ctx_nth (rest ++ args) (he0 ++ fsE) (List.length rest + i) x v q (hr_ids R)) as (b0 & Hb0 & E0).
    - rewrite nth_error_app2 by lia. replace (List.length rest + i - List.length he0)%nat with i by lia. exact He.
    - rewrite nth_error_app2 in Hb0 by lia. rewrite Nat.add_comm, Nat.add_sub in Hb0. congruence. }
  destruct V as [b z q t A B T Lg I64|b v q a t1 t2 A K1 K2 T1 T2 L1 L2 X]; cbn; auto.
Qed.

(* the tag word of constructor k of a declared type is a 64-bit value *)
Lemma tag_in64 d tag k : In d (ptypes p) -> xtor_position (txtors d) tag 0 = Ok k -> in64 (jump_length k).
Proof.
  intros Hd XP. apply xtor_position_lt in XP. pose proof (TAGS d Hd) as T.
  unfold in64, two63, jump_length. lia.
Qed.

(* ---------- Let ---------- *)
Theorem hsim_let c he hs s sp v t tag args next lc code lc' pc he0 fs tn hl fl cl :
  hrel c he hs s sp ->
  lin_check (sigs_of p) c (Let v t tag args next) = true ->
  acs (ptypes p) (Let v t tag args next) c lc = Ok (code, lc') -> code_at im pc code -> labels_at_nh im pc code ->
  ty_name t = Some tn -> AxSem.split_last (List.length args) he = Some (he0, fs) ->
  InvA X86Sem.HEAP_BASE hs (roots he) hl fl cl -> P03 hs ->
  (forall en, In en he -> chi_of (h_val en) = Ext -> h_ptr en = 0) ->
  let res := Heap.alloc_object (map store_ptr fs) hs in
  Heap.frontier (snd res) + 64 <= LIMIT -> Heap.heap (snd res) <> 0 -> Heap.free (snd res) <> 0 ->
  let c0 := firstn (List.length c - List.length args) c in
  exists c12 c3 lc1 s',
    code = c12 ++ c3 /\ acs (ptypes p) next (c0 ++ [mkb v Prd t]) lc1 = Ok (c3, lc') /\
    lin_check (sigs_of p) (c0 ++ [mkb v Prd t]) next = true /\
    exec_to im pc s (padd pc (List.length c12)) s' /\
    hrel (c0 ++ [mkb v Prd t]) (he0 ++ [(v, VObj tn tag (map h_val fs), fst res)]) (snd res) s' sp /\ hframe_eq s s' sp.
Proof.
  intros R LC CS CA LA TN SL IA K03 EX res HF HH0 HF0 c0'.
  destruct (cs_let _ _ _ _ _ _ _ _ _ _ CS) as (d & k & rest & arguments & c1 & lc1 & tmpv & c3 & LT & XP & BS & XS & TV & NX & ->).
  apply bsplit_last_app in BS as [-> LA1]. apply asplit_last_app in SL as [-> LF].
  apply ty_name_Decl in TN. subst t.
  pose proof (hrel_length R) as LEN. rewrite !app_length in LEN.
  assert (L0 : List.length he0 = List.length rest) by lia.
  (* the typing side *)
  cbn [lin_check] in LC. apply andb_true_iff in LC as [_ LC].
  destruct (split_lastn (List.length args) (rest ++ arguments)) as [[c0 tl]|] eqn:SPL; [|discriminate].
  apply split_lastn_Some in SPL as [SPE SPLn].
  apply app_inv_len in SPE as [<- <-]; [|apply (f_equal (@List.length binding)) in SPE; rewrite !app_length in SPE; lia].
  apply andb_true_iff in LC as [LC LCn]. apply andb_true_iff in LC as [CM AO].
  apply ctx_match_Prop in CM as [IDS SKT].
  unfold args_ok in AO. destruct (lookup_xtor (sigs_of p) (Decl tn) tag) as [sg|] eqn:LX; [|discriminate].
  apply sig_match_iff in AO.
  pose proof (lin_nodup _ _ _ LCn) as NDn.
  (* the store *)
  rewrite app_assoc in CA, LA. apply code_at_app in CA as [CA12 CA3]. apply labels_at_nh_app in LA as [LA12 LA3].
  apply code_at_app in CA12 as [CA1 CA2]. apply labels_at_nh_app in LA12 as [LA1' _].
  assert (IA' : InvA X86Sem.HEAP_BASE hs (roots (he0 ++ fs)) hl fl cl) by exact IA.
  destruct (hsim_store_any im (ptypes p) hclo_ok rest arguments he0 fs hs s sp lc c1 lc1 pc hl fl cl R L0 IA' K03
              ltac:(intros en Hen; apply EX; apply in_app_iff; now right) XS CA1 LA1' HF HH0 HF0)
    as (s1 & X1 & FE1 & R1 & (t1 & T1 & Lt1) & XF1).
  fold res in R1, Lt1, XF1.
  (* the declaration *)
  unfold lookup_type in LT. destruct (find (fun d0 => ident_eqb (tname d0) tn) (ptypes p)) as [d0|] eqn:FD; [|discriminate].
  inversion LT; subst d0. clear LT.
  assert (IN64 : in64 (jump_length k)).
  { apply (tag_in64 d tag k); [|exact XP]. apply find_some in FD. apply FD. }
  (* the tag *)
  assert (T2 : atpos Snd (List.length rest) = Ok tmpv).
  { rewrite <- TV. symmetry. change (idn v) with (idn (bvar (mkb v Prd (Decl tn)))). apply vt_tpos; auto. apply nth_error_mid. }
  destruct (atpos_ok _ _ _ T2) as ((O2 & _) & _ & _). pose proof O2 as (L2 & _ & _).
  destruct (a64_load_immediate_ok im s1 sp tmpv (jump_length k) (hr_frame R1) O2 IN64) as (s2 & E2 & V2 & P2).
  assert (FE2 : frame_eq s1 s2 sp).
  { eapply run_straight_local; eauto using hr_frame. apply local_load_immediate, loc_ok_lok, L2. }
  (* the constructor and the kinds of its fields *)
  assert (TW : HRep.tag_word (ptypes p) jump_length tn tag (map h_val fs) (jump_length k)).
  { unfold lookup_xtor, type_xtors in LX. cbn [sigs_of sg_types] in LX. rewrite FD in LX.
    destruct (find (fun x => ident_eqb (xname x) tag) (txtors d)) as [x|] eqn:FX; [|discriminate]. inversion LX; subst sg.
    exists d, k, x. repeat split; auto.
    apply same_kinds_intro.
    - rewrite map_length. apply same_kt_length in AO. lia.
    - intros i f b Hf Hb. rewrite nth_error_map in Hf. destruct (nth_error fs i) as [en|] eqn:He; [|discriminate].
      cbn in Hf. inversion Hf; subst f.
      assert (Li : (i < List.length arguments)%nat) by (apply nth_error_Some_lt in He; lia).
      destruct (nth_error arguments i) as [ba|] eqn:Ha; [|apply nth_error_None in Ha; lia].
      destruct (suffix_kinds rest arguments he0 fs hs s sp i ba en R L0 Ha He) as (K1 & K2 & _).
      destruct (same_kt_nth _ _ i ba SKT Ha) as (b1 & Hb1 & K3 & K4).
      destruct (same_kt_nth _ _ i b1 AO Hb1) as (b2 & Hb2 & K5 & K6).
      assert (b2 = b) by congruence. subst b2. split; congruence. }
  assert (EC0 : c0' = rest) by (unfold c0'; apply firstn_app_exact; exact LA1). rewrite EC0. clear EC0 c0'.
  exists (c1 ++ a_load_immediate tmpv (jump_length k)), c3, lc1, s2.
  split; [now rewrite app_assoc|]. split; [exact NX|]. split; [exact LCn|]. split.
  { rewrite app_length, padd_add. eapply exec_to_trans; [exact X1|]. apply (run_straight_exec_to im _ _ s1 s2 CA2 E2). }
  split; [|eapply hframe_eq_trans; [exact FE1|apply frame_eq_hframe; exact FE2]].
  apply (hrel_push_ptr (ptypes p) hclo_ok rest he0 (snd res) s1 s2 sp v (mkb v Prd (Decl tn)) (VObj tn tag (map h_val fs)) (fst res) (jump_length k) t1 tmpv);
    auto; try reflexivity; try (cbn; discriminate).
  constructor; [exact TW|exact XF1].
Qed.

(* ---------- Create ---------- *)
Theorem hsim_create c he hs s sp v t env cls next lc code lc' pc he0 cap tn ce hl fl cl :
  hrel c he hs s sp ->
  lin_check (sigs_of p) c (Create v t (Some env) cls next) = true ->
  skipn (List.length c - List.length env) c = env -> ann_clauses_cr env cls = true -> clauses_lits cls = true ->
  acs (ptypes p) (Create v t (Some env) cls next) c lc = Ok (code, lc') -> code_at im pc code -> labels_at_nh im pc code ->
  (forall lcx, hash_name (type_label t lcx) = false) ->
  ty_name t = Some tn -> AxSem.split_last (List.length env) he = Some (he0, cap) ->
  bind (vars env) (map h_val cap) = Some ce ->
  InvA X86Sem.HEAP_BASE hs (roots he) hl fl cl -> P03 hs ->
  (forall en, In en he -> chi_of (h_val en) = Ext -> h_ptr en = 0) ->
  let res := Heap.alloc_object (map store_ptr cap) hs in
  Heap.frontier (snd res) + 64 <= LIMIT -> Heap.heap (snd res) <> 0 -> Heap.free (snd res) <> 0 ->
  let c0 := firstn (List.length c - List.length env) c in
  exists c12 c3 lc2 lc3 rest' s',
    code = c12 ++ c3 ++ rest' /\ acs (ptypes p) next (c0 ++ [mkb v Cns t]) lc2 = Ok (c3, lc3) /\
    lin_check (sigs_of p) (c0 ++ [mkb v Cns t]) next = true /\
    exec_to im pc s (padd pc (List.length c12)) s' /\
    hrel (c0 ++ [mkb v Cns t]) (he0 ++ [(v, VClo tn cls ce, fst res)]) (snd res) s' sp /\ hframe_eq s s' sp.
Proof.
  intros R LC ANN ANC LITC CS CA LA NHL TN SL BD IA K03 EX res HF HH0 HF0 c0'.
  destruct (cs_create _ _ _ _ _ _ _ _ _ _ CS) as (rest & cenv & c1 & lc1 & tmpv & c3 & lc3 & c5 & BS & XS & TV & NX & CC & ->).
  apply bsplit_last_app in BS as [-> LA1]. apply asplit_last_app in SL as [-> LF].
  apply ty_name_Decl in TN. subst t.
  pose proof (hrel_length R) as LEN. rewrite !app_length in LEN.
  assert (L0 : List.length he0 = List.length rest) by lia.
  assert (ECE : cenv = env).
  { rewrite app_length, LA1 in ANN. replace (List.length rest + List.length env - List.length env)%nat with (List.length rest) in ANN by lia.
    rewrite skipn_app, skipn_all, Nat.sub_diag in ANN. exact ANN. }
  subst cenv.
  (* the typing side *)
  rewrite lin_check_create in LC. apply andb_true_iff in LC as [_ LC].
  destruct (split_lastn (List.length env) (rest ++ env)) as [[c0 tl]|] eqn:SPL; [|discriminate].
  apply split_lastn_Some in SPL as [SPE SPLn].
  apply app_inv_len in SPE as [<- <-]; [|apply (f_equal (@List.length binding)) in SPE; rewrite !app_length in SPE; lia].
  apply andb_true_iff in LC as [LC LCn]. apply andb_true_iff in LC as [LC LCc]. apply andb_true_iff in LC as [_ CO].
  pose proof (lin_nodup _ _ _ LCn) as NDn.
  set (fresh := type_label (Decl tn) (lc1 + 1)%N) in *.
  (* the store *)
  pose proof CA as CA0. pose proof LA as LA0.
  apply code_at_app in CA as [CA1 CA]. apply labels_at_nh_app in LA as [LA1' LA].
  apply code_at_app in CA as [CA2 CA]. apply labels_at_nh_app in LA as [_ LA].
  apply code_at_app in CA as [CA3 CA]. apply labels_at_nh_app in LA as [LA3 LA].
  assert (IA' : InvA X86Sem.HEAP_BASE hs (roots (he0 ++ cap)) hl fl cl) by exact IA.
  destruct (hsim_store_any im (ptypes p) hclo_ok rest env he0 cap hs s sp lc c1 lc1 pc hl fl cl R L0 IA' K03
              ltac:(intros en Hen; apply EX; apply in_app_iff; now right) XS CA1 LA1' HF HH0 HF0)
    as (s1 & X1 & FE1 & R1 & (t1 & T1 & Lt1) & XF1).
  fold res in R1, Lt1, XF1.
  (* the label of the closure *)
  set (P := c1 ++ a_load_label tmpv fresh ++ c3).
  set (pcl := padd pc (List.length P)).
  assert (CAL : code_at im pcl (([LAB fresh] ++ table_or_nil cls fresh) ++ c5)).
  { unfold pcl, P. rewrite !app_length, !padd_add. exact CA. }
  assert (LAL : labels_at_nh im pcl (([LAB fresh] ++ table_or_nil cls fresh) ++ c5)).
  { unfold pcl, P. rewrite !app_length, !padd_add. exact LA. }
  assert (CL0 : PM.find pcl (code im) = Some (LAB fresh)).
  { rewrite <- app_assoc in CAL. cbn [app] in CAL. apply code_at_cons in CAL as [X _]. exact X. }
  destruct (io_addr im IMG pcl _ CL0) as (a & AL & GE).
  assert (FL : find_label (labels im) fresh = Some pcl).
  { rewrite <- app_assoc in LAL. cbn [app] in LAL. rewrite (LAL O fresh eq_refl (NHL _)). reflexivity. }
  pose proof (label_addr_at im fresh pcl a FL AL) as LAD.
  rewrite clauses_code_gclauses in CC.
  (* the closure *)
  assert (KIN : forall i b w, nth_error env i = Some b -> nth_error (map h_val cap) i = Some w -> chi_of w = bchi b /\ ty_of w = bty b).
  { intros i b w Hb Hw. rewrite nth_error_map in Hw. destruct (nth_error cap i) as [en|] eqn:He; [|discriminate].
    cbn in Hw. inversion Hw; subst w. destruct (suffix_kinds rest env he0 cap hs s sp i b en R L0 Hb He) as (K1 & K2 & _). auto. }
  destruct (ctx_of_env_bind env (map h_val cap) ce BD KIN) as [ECTX ESND].
  assert (CLO : hclo_ok a tn cls (HRep.ctx_of_env ce)).
  { rewrite ECTX. split; [exact CO|]. split; [split; [unfold CODE_BASE in GE; lia|exact (SMALL _ _ AL)]|].
    intros k cl0 Hk.
    destruct (dispatch_layout_fwd im IMG FWD (ptypes p) (fun cx lc0 => a_load env cx lc0) (fun cx => cx ++ env) pcl fresh cls c5 lc3 lc' a
                CAL LAL (NHL _) CC AL k cl0 Hk) as (i & pcc & lcl & cl1 & lcb & cb & lcb' & IX & (pca & PA) & ARR & _ & LD & BD' & CAb & LAb).
    exists i, pcc, lcl, cl1, lcb, cb, lcb'. split; [exact IX|]. split; [exact (SMALL _ _ PA)|]. split; [exact ARR|].
    split; [exact LD|]. split; [exact BD'|]. split; [exact CAb|]. split; [exact LAb|].
    split; [|split].
    - unfold lin_clauses_cr in LCc. rewrite forallb_forall in LCc. apply LCc. eapply nth_error_In; eauto.
    - unfold ann_clauses_cr in ANC. rewrite forallb_forall in ANC. apply ANC. eapply nth_error_In; eauto.
    - unfold clauses_lits in LITC. rewrite forallb_forall in LITC. apply LITC. eapply nth_error_In; eauto. }
  (* the code address *)
  assert (T2 : atpos Snd (List.length rest) = Ok tmpv).
  { rewrite <- TV. symmetry. change (idn v) with (idn (bvar (mkb v Cns (Decl tn)))). apply vt_tpos; auto. apply nth_error_mid. }
  destruct (atpos_ok _ _ _ T2) as ((O2 & _) & _ & _). pose proof O2 as (L2 & _ & _).
  destruct (a64_load_label_ok im s1 sp tmpv fresh a (hr_frame R1) O2 LAD) as (s2 & E2 & V2 & P2).
  assert (FE2 : frame_eq s1 s2 sp).
  { eapply run_straight_local; eauto using hr_frame. apply local_load_label, loc_ok_lok, L2. }
  assert (EC0 : c0' = rest) by (unfold c0'; apply firstn_app_exact; exact LA1). rewrite EC0. clear EC0 c0'.
  exists (c1 ++ a_load_label tmpv fresh), c3, (lc1 + 1)%N, lc3, (([LAB fresh] ++ table_or_nil cls fresh) ++ c5), s2.
  split; [now rewrite <- !app_assoc|]. split; [exact NX|]. split; [exact LCn|]. split.
  { rewrite app_length, padd_add. eapply exec_to_trans; [exact X1|]. apply (run_straight_exec_to im _ _ s1 s2 CA2 E2). }
  split; [|eapply hframe_eq_trans; [exact FE1|apply frame_eq_hframe; exact FE2]].
  apply (hrel_push_ptr (ptypes p) hclo_ok rest he0 (snd res) s1 s2 sp v (mkb v Cns (Decl tn)) (VClo tn cls ce) (fst res) a t1 tmpv);
    auto; try reflexivity; try (cbn; discriminate).
  constructor; [exact CLO|]. rewrite ESND. exact XF1.
Qed.
End HB.
