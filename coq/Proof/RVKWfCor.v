(* C08, all statement forms, without the two hypotheses that were only CHECKED on the emitted code (`asm_wf cs = None`,
   `code_small cs = true`): both are theorems (Proof/RVWfAll.v) under boolean guards on the PROGRAM handed to the code
   generator (Sem/LabelGuard.v, Sem/WfGuard64.v, Sem/WfGuard.v), as in Proof/RVWfCor.v:
     labels_guard    the label texts are unambiguous (known finding label-collision-name-digits outside it)
     imm_guard_rv    literals are 64-bit values (`LI`), a type declares at most 512 xtors (`ADDI X1, Xt, 4k`: a real
                     limit of the back end)
     size_guard      cg_bound_defs <= 2^40 (the code fits the image)
   No fragment predicate is left (Proof/RVKFrag.v). *)
From Coq Require Import List ZArith NArith String Bool Lia.
From SCC Require Import Base.Sexp Lang.AxSyn Sem.AxSem Sem.AxHeap Model.Backend Model.RV Sem.RVSem Sem.RVWf
     Model.Linearize Model.LinCheck Model.Capacity Proof.LinearizeProof Proof.RVSimAddr Proof.RVSimRel Proof.RVSimTop
     Proof.RVKFrag Proof.X86HAnn Proof.X86HAnnLin Proof.RVKSimTop Proof.RVKSimCor Proof.RVKSimExample
     Sem.LabelGuard Sem.WfGuard Sem.WfGuard64 Proof.RVWfAll.
From SCC Require Model.Heap Proof.X86SimProg Proof.X86WfCor.
Import ListNotations.
Local Open Scope list_scope.
Open Scope Z_scope.

Theorem rv_codegen_simulates_wf_all p lc cs n lc' args fuel o :
  XTC.entry_int p = true -> lin_check_prog p = true -> ann_check_prog p = true ->
  labels_guard p = true -> imm_guard_rv p = true -> size_guard p = true ->
  rv_compile p lc = Ok (cs, n, lc') ->
  Nat.leb (main_arity p) 14 = true -> List.length args = n -> heap_fits p args ->
  run_linear fuel p args = o -> snd o <> OOutOfFuel ->
  exists outer inner, fst (run_rv outer inner cs args) = o.
Proof.
  intros EI LIN ANN LG IG SG XC.
  apply (rv_codegen_simulates_all p lc cs n lc' args fuel o EI LIN ANN XC).
  - exact (rv_compile_asm_wf p lc cs n lc' LG LIN IG XC).
  - exact (rv_compile_code_small p lc cs n lc' LIN SG XC).
Qed.

Corollary rv_codegen_correct_linearized_wf_all a lc cs n lc' args fuel o :
  prog_ok a = true ->
  XTC.entry_int (linearize a) = true ->
  labels_guard (linearize a) = true -> imm_guard_rv (linearize a) = true -> size_guard (linearize a) = true ->
  rv_compile (linearize a) lc = Ok (cs, n, lc') ->
  Nat.leb (main_arity (linearize a)) 14 = true -> heap_fits (linearize a) args ->
  run_linear fuel (linearize a) args = o -> XPg.good o ->
  exists outer inner, fst (run_rv outer inner cs args) = o.
Proof.
  intros OK EI LG IG SG XC. pose proof (linearize_exact a OK) as LIN.
  apply (rv_codegen_correct_linearized a lc cs n lc' args fuel o OK EI XC).
  - exact (rv_compile_asm_wf _ lc cs n lc' LG LIN IG XC).
  - exact (rv_compile_code_small _ lc cs n lc' LIN SG XC).
Qed.

(* the hypotheses are satisfiable: the chain example passes every guard *)
Lemma rk_lin_guards_rv : labels_guard rk_lin = true /\ imm_guard_rv rk_lin = true /\ size_guard rk_lin = true.
Proof. vm_compute. repeat split; reflexivity. Qed.

Lemma rk_simulated_wf : exists outer inner, fst (run_rv outer inner rk_code rk_args) = run_linear 2000 rk_lin rk_args.
Proof.
  destruct rk_hypotheses as (H1 & H2 & H3 & (lc' & H5) & H6 & H7 & H8 & H9).
  destruct rk_lin_guards_rv as (G1 & G2 & G3).
  eapply (rv_codegen_simulates_wf_all rk_lin 0 rk_code 5 lc' rk_args 2000); eauto.
  - now apply fits_run_sound with (fuel := 2000%nat).
  - vm_compute. discriminate.
Qed.
