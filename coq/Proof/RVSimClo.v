(* C08, forward simulation of the RISC-V code generator, part 4: closures without captured variables
   (`create v : T = (){ clauses }`, `invoke v D`).  Such a closure needs no heap block: its first register
   is the null pointer and its second register the address of the code the Create statement emitted
   after its continuation - a jump table (one `JAL x0` of 4 bytes per destructor) followed by the clause
   bodies, or the single clause.  An indirect jump (`JALR`) lands on the instruction of non-zero size at
   the target address, i.e. behind the labels placed there.
   This file: the fragment `stmt_fr` (no Let / Switch / print; Create only with an empty environment and,
   when the flag is off, not at all), `clo_ok` (what a closure's code pointer points to), the layout
   lemma for the code of a Create statement, and the statement-level theorems for Create and Invoke. *)
From Coq Require Import List ZArith NArith String Bool Lia FMapPositive.
From SCC Require Import Base.Sexp Lang.AxSyn Sem.AxSem Model.ParMoves Model.Backend Model.RV Sem.RVSem Sem.RVWf
     Model.Linearize Model.LinCheck Generated.Constants Proof.LinBasics
     Proof.RVSel Proof.SubstGraph Proof.SubstBackends Proof.RVSubst Proof.RVSimAddr Proof.BackendInv Proof.RVSimRel Proof.RVSimStmt.
From SCC Require Proof.X86SimClo Proof.X86SimProg.
Import ListNotations.
Open Scope Z_scope.
Open Scope list_scope.

Module XC := SCC.Proof.X86SimClo.
Module XP := SCC.Proof.X86SimProg.

(* ---------- the fragment ---------- *)
Fixpoint stmt_fr (clo : bool) (s : stmt) : bool :=
  match s with
  | Substitute _ next => stmt_fr clo next
  | Call _ _ | Exit _ | Invoke _ _ _ _ => true
  | Literal _ _ next | Op _ _ _ _ next => stmt_fr clo next
  | IfC _ _ _ t e => stmt_fr clo t && stmt_fr clo e
  | Create _ _ (Some []) cls next =>
      clo && negb (XC.is_nil cls)
      && (fix go (cls : list (ident * ctx * stmt)) : bool :=
            match cls with
            | [] => true
            | (_, _, b) :: r => stmt_fr clo b && go r
            end) cls
      && stmt_fr clo next
  | _ => false
  end.
Definition clauses_fr (clo : bool) (cls : list clause) : bool := forallb (fun c => stmt_fr clo (cl_body c)) cls.
Lemma stmt_fr_create clo v t env cls next :
  stmt_fr clo (Create v t env cls next) = true ->
  clo = true /\ env = Some [] /\ cls <> [] /\ clauses_fr clo cls = true /\ stmt_fr clo next = true.
Proof.
  cbn [stmt_fr]. destruct env as [[|b env]|]; try discriminate. intros H.
  apply andb_true_iff in H as [H N]. apply andb_true_iff in H as [E G]. apply andb_true_iff in E as [C E].
  split; [exact C|]. split; [reflexivity|]. split; [destruct cls; [discriminate|congruence]|]. split; [|exact N].
  clear E N. induction cls as [|[[x cx] b] r IH]; [reflexivity|]. cbn [clauses_fr forallb cl_body snd].
  apply andb_true_iff in G as [G1 G2]. rewrite G1. exact (IH G2).
Qed.

(* the fragments of the x86-64 development, without print statements, are inside *)
Lemma stmt_int_fr : forall s, XP.stmt_int s = true -> stmt_has_print s = false -> stmt_fr false s = true.
Proof.
  induction s; intros SI NP; cbn [XP.stmt_int stmt_has_print stmt_fr] in *; try discriminate; auto.
  - apply andb_true_iff in SI as [_ SI]. auto.
  - apply andb_true_iff in SI as [S1 S2]. apply orb_false_iff in NP as [N1 N2]. rewrite IHs1, IHs2; auto.
Qed.
Lemma stmt_cf_fr : forall s, XC.stmt_cf s = true -> stmt_has_print s = false -> stmt_fr true s = true.
Proof.
  intros s. induction s using stmt_ind2; intros SI NP; cbn [XC.stmt_cf stmt_has_print stmt_fr] in *; try discriminate; auto.
  - apply andb_true_iff in SI as [_ SI]. auto.
  - destruct env as [[|b0 env]|]; try discriminate.
    apply andb_true_iff in SI as [SI SN]. apply andb_true_iff in SI as [NE SC]. apply orb_false_iff in NP as [NC NN].
    rewrite NE, (IHs SN NN). cbn [andb]. rewrite andb_true_r.
    clear NE SN NN IHs. induction cls as [|[[x cx] b] r IHr]; [reflexivity|].
    inversion H as [|? ? H0 Hr]; subst. cbn [cl_body snd] in H0.
    apply andb_true_iff in SC as [SC0 SCr]. apply andb_true_iff in SC0 as [_ SB]. apply orb_false_iff in NC as [NB NR].
    rewrite (H0 SB NB). cbn [andb]. exact (IHr Hr SCr NR).
  - apply andb_true_iff in SI as [S1 S2]. apply orb_false_iff in NP as [N1 N2]. rewrite IHs1, IHs2; auto.
Qed.
Lemma stmt_fr_mono : forall s, stmt_fr false s = true -> stmt_fr true s = true.
Proof.
  induction s; intros H; cbn [stmt_fr] in *; try discriminate; auto.
  - destruct env as [[|]|]; discriminate.
  - apply andb_true_iff in H as [H1 H2]. rewrite IHs1, IHs2; auto.
Qed.

(* ---------- the code of a statement of the fragment starts with an instruction of non-zero size ---------- *)
Definition starts_nz (cs : list rcode) : Prop := exists c r, cs = c :: r /\ isize c <> 0.
Lemma starts_nz_app a b : starts_nz a -> starts_nz (a ++ b).
Proof. intros (c & r & -> & H). exists c, (r ++ b). auto. Qed.
Lemma starts_nz_app_or a b : (a = [] \/ starts_nz a) -> starts_nz b -> starts_nz (a ++ b).
Proof. intros [->|H] Hb; [exact Hb|now apply starts_nz_app]. Qed.
Lemma isize_LI t n : isize (LI t n) <> 0.
Proof. cbn. destruct (fits12 n); [lia|]. destruct (fits32 n); lia. Qed.

Lemma cwc_nz c : forall tm lc c1 lc1,
  code_weakening_contraction rv_backend tm c lc = Ok (c1, lc1) -> c1 = [] \/ starts_nz c1.
Proof.
  induction tm as [|[b tg] tm IH]; intros lc c1 lc1 H; cbn [code_weakening_contraction] in H.
  - inversion H. now left.
  - destruct (bchi b); [| |eauto].
    all: destruct (update_reference_count rv_backend (bvar b) c (List.length tg) lc) as [[cl lcl]|] eqn:U; cbn [rbind] in H; [|discriminate].
    all: destruct (code_weakening_contraction rv_backend tm c lcl) as [[c2 lc2]|] eqn:W; cbn [rbind] in H; [|discriminate].
    all: inversion H; subst c1 lc1; unfold update_reference_count in U.
    all: destruct (variable_temporary rv_backend Fst c (idn (bvar b))) as [t|]; cbn [rbind] in U; [|discriminate].
    all: destruct (List.length tg) as [|[|n]]; inversion U; subst; cbn [app];
      [right; eexists _, _; (split; [reflexivity|cbn; lia]) | eauto | right; eexists _, _; (split; [reflexivity|cbn; lia])].
Qed.
Lemma pm_nz am c2 : parallel_moves_code rv_backend am = Ok c2 -> Forall (fun c => isize c <> 0) c2.
Proof.
  unfold parallel_moves_code. destruct (spanning_forest _ _ _ am) as [forest|]; [|discriminate]. intros H; inversion H; subst.
  apply Forall_forall. intros x Hx. apply in_flat_map in Hx as (r & _ & Hx). unfold emit_root in Hx.
  apply in_flat_map in Hx as (i & _ & Hx). destruct i; cbn in Hx; destruct Hx as [<-|[]]; cbn; lia.
Qed.
Lemma Forall_nz_or l : Forall (fun c => isize c <> 0) l -> l = [] \/ starts_nz l.
Proof. intros H. destruct l as [|c r]; [now left|]. right. inversion H; subst. exists c, r. auto. Qed.

Lemma cs_starts_nz types clo : forall s c lc code lc',
  stmt_fr clo s = true -> rcs types s c lc = Ok (code, lc') -> starts_nz code.
Proof.
  induction s as [re next IHn|l args|v t tag args next IHn|v t cls|v t env cls next IHn|v tag t args|n v next IHn|a o b v next IHn|nl v next IHn|so a ob thenc IHt elsec IHe|v];
    intros c lc code lc' FR CS; cbn [stmt_fr] in FR; try discriminate.
  - destruct (cs_substitute _ _ _ _ _ _ _ _ CS) as (c1 & lc1 & c2 & c3 & WC & CE & NX & ->). cbn [b_mark rv_backend app].
    apply starts_nz_app_or; [eapply cwc_nz; eauto|]. apply starts_nz_app_or; [|eauto].
    unfold code_exchange in CE. destruct (connections _ _ _ _); cbn [rbind] in CE; [|discriminate]. apply Forall_nz_or. eapply pm_nz; eauto.
  - destruct (cs_call _ _ _ _ _ _ _ _ CS) as (-> & _). eexists _, _. split; [reflexivity|]. cbn; lia.
  - destruct env as [[|b0 env]|]; try discriminate.
    destruct (cs_create _ _ _ _ _ _ _ _ _ _ _ CS) as (rest & cenv & c1 & lc1 & tmpv & c3 & lc3 & c5 & SL & STO & _ & _ & _ & ->).
    cbn [b_mark rv_backend app]. apply starts_nz_app.
    cbn [List.length] in SL. unfold Backend.split_last in SL. cbn [Nat.leb] in SL. rewrite Nat.sub_0_r, firstn_all, skipn_all in SL.
    inversion SL; subst. cbn [b_store rv_backend] in STO. unfold r_store in STO. cbn [List.length store_fields] in STO.
    destruct (r_fresh Fst rest); cbn [rbind] in STO; inversion STO; subst. eexists _, _. split; [reflexivity|]. cbn; lia.
  - destruct (cs_invoke _ _ _ _ _ _ _ _ _ _ CS) as (tmpv & d & _ & _ & _ & CD).
    destruct (Nat.leb (List.length (txtors d)) 1); [subst code; eexists _, _; (split; [reflexivity|]); cbn; lia|].
    destruct CD as (k & _ & ->). cbn [b_mark b_add_and_jump rv_backend app]. unfold r_add_and_jump.
    destruct (addi_fits _); eexists _, _; (split; [reflexivity|]); [cbn; lia|apply isize_LI].
  - destruct (cs_literal _ _ _ _ _ _ _ _ _ CS) as (tv & c2 & _ & _ & ->). eexists _, _. split; [reflexivity|]. apply isize_LI.
  - destruct (cs_op _ _ _ _ _ _ _ _ _ _ _ CS) as (tv & ta & tb & c2 & _ & _ & _ & _ & ->).
    destruct o; eexists _, _; (split; [reflexivity|]); cbn; lia.
  - destruct (cs_ifc _ _ _ _ _ _ _ _ _ _ _ CS) as (ta & c1 & c2 & lc2 & c3 & _ & C1 & _ & _ & ->).
    destruct ob as [b|]; [destruct C1 as (tb & _ & ->)|subst c1]; destruct so; eexists _, _; (split; [reflexivity|]); cbn; lia.
  - destruct (cs_exit _ _ _ _ _ _ _ CS) as (tv & _ & -> & _). eexists _, _. split; [reflexivity|]. cbn; lia.
Qed.

(* the jump table *)
Lemma code_table_nth cls fresh k c :
  nth_error cls k = Some c -> nth_error (code_table rv_backend cls fresh) k = Some (JAL ZERO (fresh +++ "_" +++ show_ident (cl_xtor c))).
Proof.
  unfold code_table. cbn [b_jump_label_fixed rv_backend]. revert k.
  induction cls as [|c0 r IH]; intros k H; [destruct k; discriminate|]. cbn [flat_map app r_jump_label].
  destruct k as [|k]; cbn [nth_error] in *; [inversion H; reflexivity|auto].
Qed.
Lemma code_table_length cls fresh : List.length (code_table rv_backend cls fresh) = List.length cls.
Proof. unfold code_table. cbn [b_jump_label_fixed rv_backend]. induction cls; cbn; auto. Qed.
Lemma code_table_size cls fresh : forall k, (k <= List.length cls)%nat -> size_of (firstn k (code_table rv_backend cls fresh)) = 4 * Z.of_nat k.
Proof.
  unfold code_table. cbn [b_jump_label_fixed rv_backend].
  induction cls as [|c0 r IH]; intros k H; cbn [List.length] in H.
  - destruct k; [reflexivity|lia].
  - destruct k as [|k]; [reflexivity|]. cbn [flat_map app firstn size_of isize r_jump_label]. rewrite IH by lia. lia.
Qed.
Lemma r_load_nil cx lc : r_load [] cx lc = Ok ([], lc).
Proof. reflexivity. Qed.

Section Clo.
Variable im : image.
Variable p : prog.
Variable clo : bool.
Hypothesis IMG : rimg_ok im.
Hypothesis EVEN : forall pc a, PM.find pc (addr_of im) = Some a -> a mod 2 = 0.
Hypothesis SMALL : clo = true -> forall pc a, PM.find pc (addr_of im) = Some a -> a < 4611686018427387904 - 32.
Hypothesis ENC : forall pc c, PM.find pc (code im) = Some c -> instr_wf c = true.

(* what the second register of a closure variable points to: clause k of a closure whose clauses are the
   declared destructors in declaration order is entered, by an indirect jump to a (one clause) or to
   a + 4k (jump table), at the code generated for its body, with the state unchanged; the body is linearly
   well-typed in the clause context and belongs to the fragment *)
Definition clo_ok (a : Z) (tn : ident) (cls : list clause) : Prop :=
  cls_ok (sigs_of p) (Decl tn) cls = true /\ 0 <= a < 4611686018427387904 - 32 /\ a mod 2 = 0 /\
  forall k c, nth_error cls k = Some c ->
    exists i pcb lcb cb lcb',
      PM.find (key (a + (if Nat.leb (List.length cls) 1 then 0 else jump_length (N.of_nat k)))) (index_at im) = Some i /\
      a + (if Nat.leb (List.length cls) 1 then 0 else jump_length (N.of_nat k)) < 4611686018427387904 - 32 /\
      (forall s, star im i s pcb s) /\
      rcs (ptypes p) (cl_body c) (cl_ctx c) lcb = Ok (cb, lcb') /\ placed im pcb cb /\
      lin_check (sigs_of p) (cl_ctx c) (cl_body c) = true /\ stmt_fr clo (cl_body c) = true.

(* the closure code a Create statement emits establishes clo_ok for the address of its label *)
Lemma create_layout pc P fresh tn cls c5 lc3 lc5 :
  clo = true ->
  placed im pc (P ++ ([LAB fresh] ++ table_or_nil rv_backend cls fresh) ++ c5) ->
  clauses_code rv_backend (ptypes p) [] fresh cls lc3 = Ok (c5, lc5) ->
  cls <> [] -> cls_ok (sigs_of p) (Decl tn) cls = true ->
  (forall c, In c cls -> lin_check (sigs_of p) (cl_ctx c) (cl_body c) = true /\ stmt_fr clo (cl_body c) = true) ->
  exists a, label_addr im fresh = Some a /\ clo_ok a tn cls.
Proof.
  intros CLO PL CC NE CO ST.
  apply placed_app in PL as [_ PL]. set (pcl := padd pc (List.length P)) in *.
  destruct PL as [CA LA]. rewrite <- app_assoc in CA, LA. cbn [app] in CA, LA.
  pose proof CA as CA'. apply at_code_cons in CA' as [[CL (a & AL)] CAt].
  assert (FL : find_label (labels im) fresh = Some pcl) by exact (LA O fresh eq_refl).
  exists a. split; [exact (label_addr_of im fresh pcl a FL AL)|].
  split; [exact CO|]. split.
  { split; [|exact (SMALL CLO pcl a AL)]. destruct (io_addr im IMG pcl _ CL) as (a' & A' & GE). unfold CODE_BASE in GE. assert (a' = a) by congruence. lia. }
  split; [exact (EVEN pcl a AL)|].
  intros k c Hk.
  destruct c as [[x cx] body].
  destruct (clauses_code_nth rv_backend _ _ _ _ _ _ _ k x cx body CC Hk) as (pre5 & lc0 & cl & lc1 & cb & lc2 & post5 & E5 & LD & BD & PRE0).
  cbn [b_load rv_backend] in LD. rewrite r_load_nil in LD. inversion LD; subst cl lc1. rewrite app_nil_r in BD. cbn [app b_label rv_backend] in E5.
  destruct (ST _ (nth_error_In _ _ Hk)) as (S1 & S2). cbn [cl_ctx cl_body fst snd] in *.
  assert (Lk : (k < List.length cls)%nat) by (apply nth_error_Some; congruence).
  set (tb := table_or_nil rv_backend cls fresh) in *.
  set (lx := fresh +++ "_" +++ show_ident x) in *.
  assert (CODE : at_code im pcl ([LAB fresh] ++ tb ++ pre5 ++ [LAB lx] ++ cb ++ post5)) by (rewrite E5 in CA; exact CA).
  assert (LABS : labels_ok im pcl ([LAB fresh] ++ tb ++ pre5 ++ [LAB lx] ++ cb ++ post5)) by (rewrite E5 in LA; exact LA).
  set (jl := (1 + List.length tb + List.length pre5)%nat).
  assert (NL : nth_error ([LAB fresh] ++ tb ++ pre5 ++ [LAB lx] ++ cb ++ post5) jl = Some (LAB lx)).
  { unfold jl. cbn [app Nat.add nth_error]. rewrite nth_error_app2 by lia. rewrite nth_error_app2 by lia.
    replace (_ - _ - _)%nat with O by lia. reflexivity. }
  destruct (CODE jl _ NL) as (CLx & (alx & ALx)).
  pose proof (LABS jl _ NL) as FLx.
  assert (CB : placed im (padd pcl (S jl)) cb).
  { assert (PLc : placed im pcl (([LAB fresh] ++ tb ++ pre5 ++ [LAB lx]) ++ cb ++ post5)).
    { rewrite <- !app_assoc. split; [exact CODE|exact LABS]. }
    apply placed_app in PLc as [_ PLc]. apply placed_app in PLc as [PLc _].
    replace (List.length ([LAB fresh] ++ tb ++ pre5 ++ [LAB lx])) with (S jl) in PLc
      by (unfold jl; rewrite !app_length; cbn [List.length]; lia).
    exact PLc. }
  destruct (cs_starts_nz (ptypes p) clo body cx lc0 cb lc2 S2 BD) as (c0 & rb & Ecb & NZ0).
  (* from the clause label into the body *)
  assert (INTO : forall s, star im (padd pcl jl) s (padd pcl (S jl)) s).
  { intros s. eapply star_step; [eapply one_next; [exact CLx|exact ALx|reflexivity]|]. rewrite <- padd_succ. apply star_refl. }
  destruct (Nat.leb (List.length cls) 1) eqn:LE.
  - (* a single clause, no table: the label of the closure is followed by the label of the clause, then the body *)
    assert (TB : tb = []) by (unfold tb, table_or_nil; now rewrite LE).
    assert (K0 : k = O) by (apply Nat.leb_le in LE; lia). subst k.
    assert (P5 : pre5 = []) by (apply PRE0; reflexivity).
    assert (J1 : jl = 1%nat) by (unfold jl; rewrite TB, P5; reflexivity).
    exists (padd pcl (S jl)), (padd pcl (S jl)), lc0, cb, lc2.
    split; [|split; [rewrite Z.add_0_r; exact (SMALL CLO pcl a AL)|split; [intros s; apply star_refl|split; [exact BD|split; [exact CB|split; [exact S1|exact S2]]]]]].
    rewrite Z.add_0_r. rewrite TB, P5, Ecb in CODE. cbn [app] in CODE. rewrite J1.
    pose proof (addr_along im IMG _ pcl a CODE AL 2%nat c0 eq_refl) as A2. cbn [firstn size_of isize] in A2.
    replace (a + (0 + (0 + 0))) with a in A2 by lia.
    apply (io_index im IMG (padd pcl 2) c0 a); [exact (proj1 (CODE 2%nat c0 eq_refl))|exact NZ0|exact A2].
  - (* the jump table *)
    assert (TB : tb = code_table rv_backend cls fresh) by (unfold tb, table_or_nil; now rewrite LE).
    assert (NJ : nth_error ([LAB fresh] ++ tb ++ pre5 ++ [LAB lx] ++ cb ++ post5) (1 + k) = Some (JAL ZERO lx)).
    { cbn [app Nat.add nth_error]. rewrite nth_error_app1 by (rewrite TB, code_table_length; lia).
      rewrite TB. apply (code_table_nth cls fresh k (x, cx, body) Hk). }
    destruct (CODE _ _ NJ) as (CJ & (aj & AJ)).
    pose proof (addr_along im IMG _ pcl a CODE AL (1 + k)%nat _ NJ) as AJ'.
    assert (SZ : size_of (firstn (1 + k) ([LAB fresh] ++ tb ++ pre5 ++ [LAB lx] ++ cb ++ post5)) = 4 * Z.of_nat k).
    { cbn [app Nat.add firstn size_of isize]. rewrite firstn_app. replace (k - List.length tb)%nat with O by (rewrite TB, code_table_length; lia).
      cbn [firstn]. rewrite app_nil_r, TB, code_table_size by lia. lia. }
    rewrite SZ in AJ'.
    exists (padd pcl (1 + k)), (padd pcl (S jl)), lc0, cb, lc2.
    split; [|split; [|split; [|split; [exact BD|split; [exact CB|split; [exact S1|exact S2]]]]]].
    + unfold jump_length. rewrite nat_N_Z. apply (io_index im IMG _ (JAL ZERO lx) _ CJ); [cbn; lia|exact AJ'].
    + unfold jump_length. rewrite nat_N_Z. exact (SMALL CLO _ _ AJ').
    + intros s. eapply star_step; [eapply one_jump; [exact CJ|exact AJ|]|apply INTO].
      cbn [step]. unfold goto_label. rewrite FLx. reflexivity.
Qed.

Local Notation rrel := (rrel clo_ok).

(* ---------- Create ---------- *)
Lemma split_last0 (c : ctx) : Backend.split_last 0 c = Ok (c, []).
Proof. unfold Backend.split_last. cbn [Nat.leb]. rewrite Nat.sub_0_r, firstn_all, skipn_all. reflexivity. Qed.

Theorem sim_create c e s v tn cls next lc code lc' pc :
  clo = true ->
  rrel c e s -> NoDup (ids (c ++ [mkb v Cns (Decl tn)])) ->
  rcs (ptypes p) (Create v (Decl tn) (Some []) cls next) c lc = Ok (code, lc') ->
  placed im pc code ->
  cls <> [] -> cls_ok (sigs_of p) (Decl tn) cls = true ->
  (forall cl, In cl cls -> lin_check (sigs_of p) (cl_ctx cl) (cl_body cl) = true /\ stmt_fr clo (cl_body cl) = true) ->
  exists c3 lc3 rest s',
    code = [MV (pos_reg Fst (List.length c)) ZERO; LA (pos_reg Snd (List.length c)) (type_label (Decl tn) (lc + 1)%N)] ++ c3 ++ rest /\
    rcs (ptypes p) next (c ++ [mkb v Cns (Decl tn)]) (lc + 1)%N = Ok (c3, lc3) /\
    star im pc s (padd pc 2) s' /\
    rrel (c ++ [mkb v Cns (Decl tn)]) (e ++ [(v, VClo tn cls [])]) s' /\ same_mem s s'.
Proof.
  intros CLO R ND CS PL NE CO ST.
  destruct (cs_create _ _ _ _ _ _ _ _ _ _ _ CS) as (rest & cenv & c1 & lc1 & tmpv & c3 & lc3 & c5 & SL & STO & TV & NX & CC & ->).
  cbn [List.length] in SL. rewrite split_last0 in SL. inversion SL; subst rest cenv. clear SL.
  cbn [b_store rv_backend] in STO. unfold r_store in STO. cbn [List.length store_fields] in STO.
  destruct (r_fresh Fst c) as [t1|] eqn:T1; cbn [rbind] in STO; [|discriminate].
  inversion STO; subst c1 lc1. clear STO.
  assert (T1' : rtpos Fst (List.length c) = Ok t1) by exact T1.
  assert (T2 : rtpos Snd (List.length c) = Ok tmpv) by (apply (rvt_fresh c (mkb v Cns (Decl tn)) tmpv ND TV)).
  destruct (rtpos_val _ _ _ T1') as (E1 & _). destruct (rtpos_val _ _ _ T2) as (E2 & _). subst t1 tmpv.
  set (t1 := pos_reg Fst (List.length c)) in *. set (t2 := pos_reg Snd (List.length c)) in *.
  set (fresh := type_label (Decl tn) (lc + 1)%N) in *.
  cbn [b_mark b_load_label b_label rv_backend app r_load_label] in PL |- *.
  (* the closure's code *)
  destruct (create_layout pc ([MV t1 ZERO] ++ [LA t2 fresh] ++ c3) fresh tn cls c5 lc3 lc' CLO) as (a & LAD & CLOK); auto.
  exists c3, lc3, (([LAB fresh] ++ table_or_nil rv_backend cls fresh) ++ c5), (rset (rset s t1 (Some 0)) t2 (Some a)).
  split; [reflexivity|]. split; [exact NX|].
  destruct PL as [CA _]. cbn [app] in CA.
  destruct (rtpos_regs _ _ _ T1') as (Z1 & N1 & H1 & F1). destruct (rtpos_regs _ _ _ T2) as (Z2 & N2 & H2 & F2).
  assert (NE12 : t1 <> t2) by (apply (rtpos_neq _ _ _ _ _ _ T1' T2); congruence).
  split; [|split].
  - eapply star_trans; [eapply star_next; [exact CA|reflexivity]|].
    apply at_code_cons in CA as [_ CA]. eapply star_next; [exact CA|]. intros ad. cbn [step]. rewrite LAD. reflexivity.
  - apply (rr_push clo_ok c e s _ (mkb v Cns (Decl tn)) (VClo tn cls []) R ND).
    + intros r NR _. rewrite !rget_rset_other; auto; intros E; subst r; eapply NR; eauto.
    + apply (vrep_clo clo_ok _ (List.length c) (mkb v Cns (Decl tn)) tn cls a t1 t2); auto.
      * rewrite rget_rset_other by congruence. apply rget_rset_same. exact Z1.
      * apply rget_rset_same. exact Z2.
  - eapply same_mem_trans; apply same_mem_rset.
Qed.

(* ---------- Invoke ---------- *)
Theorem sim_invoke c e s v tag t args code lc lc' pc e0 x tn cls ce cl e1 :
  rrel c e s ->
  AxSem.split_last 1 e = Some (e0, [(x, VClo tn cls ce)]) -> N.eqb (idn x) (idn v) = true ->
  find_clause cls tag = Some cl -> bind (vars (cl_ctx cl)) (map snd e0) = Some e1 ->
  lin_check (sigs_of p) c (Invoke v tag t args) = true ->
  rcs (ptypes p) (Invoke v tag t args) c lc = Ok (code, lc') -> at_code im pc code ->
  exists pcb lcb cb lcb' s',
    star im pc s pcb s' /\
    rcs (ptypes p) (cl_body cl) (cl_ctx cl) lcb = Ok (cb, lcb') /\ placed im pcb cb /\
    lin_check (sigs_of p) (cl_ctx cl) (cl_body cl) = true /\ stmt_fr clo (cl_body cl) = true /\
    rrel (cl_ctx cl) (e1 ++ ce) s' /\ same_mem s s'.
Proof.
  intros R SL IDX FC BD LC CS CA.
  apply XC.split_last1_inv in SL. subst e.
  pose proof (rr_length R) as LEN. rewrite app_length in LEN. cbn [List.length] in LEN.
  (* the typing side: the context ends with the closure variable *)
  cbn [lin_check] in LC. apply andb_true_iff in LC as [_ LC].
  destruct (split_lastn 1 c) as [[c0 [|b [|b' r]]]|] eqn:SLc; try discriminate.
  apply split_lastn_Some in SLc as [-> _].
  apply andb_true_iff in LC as [LC AO]. apply andb_true_iff in LC as [LC TY]. apply andb_true_iff in LC as [IDb CH].
  apply N.eqb_eq in IDb. apply ty_eqb_eq in TY. apply chi_eqb_eq in CH.
  assert (L0 : List.length e0 = List.length c0) by (rewrite app_length in LEN; cbn [List.length] in LEN; lia).
  (* the closure's representation *)
  destruct (rr_vals R (List.length e0) x (VClo tn cls ce)) as (b0 & Hb0 & V); [apply nth_error_mid|].
  rewrite L0, nth_error_mid in Hb0. inversion Hb0; subst b0. clear Hb0.
  inversion V as [|b1 tn1 cls1 a t1 t2 K1 K2 T1 T2 V1 V2 CLO]; subst. clear V.
  destruct CLO as (CO & AB & AEV & ENTRY).
  (* the register the generator jumps through *)
  destruct (cs_invoke _ _ _ _ _ _ _ _ _ _ CS) as (tmpv & d & TV & LT & _ & CODE).
  assert (TVeq : tmpv = t2).
  { rewrite <- IDb in TV. rewrite (rvt_of_nth0 (c0 ++ [b]) (List.length c0) b (rr_nodup R) (nth_error_mid _ _ _)) in TV.
    rewrite L0 in T2. congruence. }
  subst tmpv.
  (* the declaration and the position of the clause *)
  rewrite K2 in *. unfold cls_ok, type_xtors in CO. cbn [sigs_of sg_types] in CO.
  unfold lookup_type in LT.
  destruct (find (fun d => ident_eqb (tname d) tn) (ptypes p)) as [d'|] eqn:FD; [|discriminate]. inversion LT; subst d'. clear LT.
  destruct (XC.find_clause_pos cls (txtors d) tag cl 0%N CO FC) as (k & xk & Hk & Hxk & XP & FX & SMk).
  pose proof (XC.cls_sig_length _ _ CO) as LCL.
  destruct (ENTRY k cl Hk) as (i & pcb & lcb & cb & lcb' & IX & ABk & ARR & CSb & PLb & LCb & FRb).
  (* the new environment: nothing but X1 changes *)
  assert (T2' : rtpos Snd (List.length c0) = Ok t2) by (rewrite <- L0; exact T2).
  assert (R1 : forall s', (forall r, r <> TEMP -> rget s' r = rget s r) -> rrel (cl_ctx cl) (e1 ++ []) s').
  { intros s' KEEP. rewrite app_nil_r.
    assert (R0 : rrel c0 e0 s').
    { apply (rr_keep clo_ok c0 e0 s s' (rr_prefix clo_ok c0 b e0 _ s R)).
      - apply KEEP; discriminate.
      - apply KEEP; discriminate.
      - intros j bj n tj Hj AL Tj. apply KEEP. apply rtpos_regs in Tj. tauto. }
    eapply (rr_bind clo_ok c0 e0 s'); eauto.
    - eapply XS.lin_nodup; eauto.
    - unfold args_ok, lookup_xtor, type_xtors in AO. cbn [sigs_of sg_types] in AO. rewrite FD, FX in AO.
      eapply XC.sig_match_join; eauto. }
  exists pcb, lcb, cb, lcb'. cbn [b_mark b_jump b_add_and_jump b_jump_length rv_backend app] in CODE.
  rewrite <- LCL in CODE. destruct (Nat.leb (List.length cls) 1) eqn:LE.
  - (* one destructor: jump through the register *)
    subst code. rewrite Z.add_0_r in IX.
    destruct (rv_jump_sel im 0 t2 a i s V2 AEV IX) as (cj & EJ & _). cbn [b_jump rv_backend] in EJ. rewrite EJ in CA.
    exists s. split; [|split; [exact CSb|split; [exact PLb|split; [exact LCb|split; [exact FRb|split; [apply R1; auto|apply same_mem_refl]]]]]].
    eapply star_trans; [|apply ARR]. eapply star_jump; [exact CA|]. intros ad.
    destruct (rv_jump_sel im ad t2 a i s V2 AEV IX) as (cj' & EJ' & ST). cbn [b_jump rv_backend] in EJ'.
    assert (cj' = cj) by congruence. subst cj'. exact ST.
  - (* several destructors: add the table offset, then jump *)
    destruct CODE as (k' & XP' & ->). assert (k' = N.of_nat k) by (rewrite XP in XP'; inversion XP'; lia). subst k'.
    set (off := jump_length (N.of_nat k)) in *.
    assert (OFF : 0 <= off) by (unfold off, jump_length; lia).
    assert (WR : wrap (a + off) = a + off) by (apply wrap_small; unfold min_int, max_int, two63; lia).
    assert (EV : wrap (a + off) mod 2 = 0).
    { rewrite WR. unfold off, jump_length. replace (a + 4 * Z.of_N (N.of_nat k)) with (a + (2 * Z.of_N (N.of_nat k)) * 2) by lia.
      rewrite Z.mod_add by lia. exact AEV. }
    assert (IX' : PM.find (key (wrap (a + off))) (index_at im) = Some i) by (rewrite WR; exact IX).
    set (s1 := rset s TEMP (Some (wrap (a + off)))).
    exists s1. split; [|split; [exact CSb|split; [exact PLb|split; [exact LCb|split; [exact FRb|split; [|apply same_mem_rset]]]]]].
    2:{ apply R1. intros r NR. unfold s1. apply rget_rset_other. congruence. }
    eapply star_trans; [|apply ARR].
    unfold r_add_and_jump in CA. destruct (addi_fits off) eqn:FI; change (addi_fits off) with (fits12 off) in FI; cbn [app] in CA.
    + (* the offset is an ADDI immediate *)
      eapply star_trans; [eapply (star_next im _ _ _ s s1); [exact CA|]|].
      * intros ad. destruct (rv_add_and_jump_sel im ad t2 off a i s V2 FI EV IX') as (c1 & c2 & E & ST1 & _).
        cbn [b_add_and_jump rv_backend] in E. unfold r_add_and_jump in E. change (addi_fits off) with (fits12 off) in E. rewrite FI in E.
        inversion E; subst c1 c2. exact ST1.
      * apply at_code_cons in CA as [_ CA]. eapply (star_jump im _ _ _ s1 s1); [exact CA|]. intros ad.
        destruct (rv_add_and_jump_sel im (ad - 4) t2 off a i s V2 FI EV IX') as (c1 & c2 & E & _ & ST2).
        cbn [b_add_and_jump rv_backend] in E. unfold r_add_and_jump in E. change (addi_fits off) with (fits12 off) in E. rewrite FI in E.
        inversion E; subst c1 c2.
        cbn [isize] in ST2. replace (ad - 4 + 4) with ad in ST2 by lia. exact ST2.
    + (* a larger offset: LI X1, off; ADD X1, t2, X1 *)
      assert (NT2 : t2 <> TEMP) by (apply rtpos_regs in T2'; tauto).
      assert (SEL : forall p1 p2 p3, step im p1 (LI TEMP off) s = Next (rset s TEMP (Some off)) /\
                step im p2 (ADD TEMP t2 TEMP) (rset s TEMP (Some off)) = Next s1 /\
                step im p3 (JALR ZERO TEMP 0) s1 = Jump s1 i).
      { intros p1 p2 p3. destruct (rv_add_and_jump_big_sel im p1 p2 p3 t2 off a i s V2 NT2 FI EV IX') as (c1 & c2 & c3 & E & S1 & S2 & S3).
        cbn [b_add_and_jump rv_backend] in E. unfold r_add_and_jump in E. change (addi_fits off) with (fits12 off) in E. rewrite FI in E.
        inversion E; subst c1 c2 c3. auto. }
      eapply star_trans; [eapply (star_next im _ _ _ s (rset s TEMP (Some off))); [exact CA|intros ad; apply (SEL ad 0 0)]|].
      apply at_code_cons in CA as [_ CA].
      eapply star_trans; [eapply (star_next im _ _ _ (rset s TEMP (Some off)) s1); [exact CA|intros ad; apply (SEL 0 ad 0)]|].
      apply at_code_cons in CA as [_ CA].
      eapply (star_jump im _ _ _ s1 s1); [exact CA|]. intros ad. apply (SEL 0 0 ad).
Qed.

(* progress at Invoke: under the relation a linearly well-typed invoke finds its closure, its clause and
   its arguments *)
Lemma invoke_progress c e s v tag t args :
  rrel c e s -> lin_check (sigs_of p) c (Invoke v tag t args) = true ->
  exists e0 x tn cls cl e1,
    AxSem.split_last 1 e = Some (e0, [(x, VClo tn cls [])]) /\ N.eqb (idn x) (idn v) = true /\
    find_clause cls tag = Some cl /\ bind (vars (cl_ctx cl)) (map snd e0) = Some e1.
Proof.
  intros R LC. pose proof (rr_length R) as LEN.
  cbn [lin_check] in LC. apply andb_true_iff in LC as [_ LC].
  destruct (split_lastn 1 c) as [[c0 [|b [|b' r]]]|] eqn:SLc; try discriminate.
  apply split_lastn_Some in SLc as [-> _].
  apply andb_true_iff in LC as [LC AO]. apply andb_true_iff in LC as [LC TY]. apply andb_true_iff in LC as [IDb CH].
  apply N.eqb_eq in IDb. apply ty_eqb_eq in TY. apply chi_eqb_eq in CH.
  rewrite app_length in LEN. cbn [List.length] in LEN.
  destruct (exists_last (l := e)) as (e0 & [x val] & ->); [intros ->; cbn in LEN; lia|].
  rewrite app_length in LEN. cbn [List.length] in LEN.
  assert (L0 : List.length e0 = List.length c0) by lia.
  destruct (rr_vals R (List.length e0) x val) as (b0 & Hb0 & V); [apply nth_error_mid|].
  rewrite L0, nth_error_mid in Hb0. inversion Hb0; subst b0. clear Hb0.
  inversion V as [? z ? K1 ?|b1 tn cls a t1 t2 K1 K2 T1 T2 V1 V2 CLO]; subst; [congruence|]. clear V.
  destruct CLO as (CO & _ & _ & ENTRY).
  assert (IDX : idn x = idn v).
  { pose proof (rr_ids R) as Ids. unfold env_ids, ids in Ids. rewrite !map_app in Ids. cbn [map fst] in Ids.
    apply app_inj_tail in Ids as [_ E]. congruence. }
  rewrite K2 in *. unfold cls_ok, type_xtors in CO. cbn [sigs_of sg_types] in CO.
  unfold args_ok, lookup_xtor, type_xtors in AO. cbn [sigs_of sg_types] in AO.
  destruct (find (fun d => ident_eqb (tname d) tn) (ptypes p)) as [d|] eqn:FD; [|discriminate].
  destruct (find (fun x => ident_eqb (xname x) tag) (txtors d)) as [xk|] eqn:FX; [|discriminate].
  destruct (XC.find_clause_total cls (txtors d) tag xk CO FX) as (cl & FC).
  destruct (XC.find_clause_pos cls (txtors d) tag cl 0%N CO FC) as (k & xk' & Hk & Hxk & XP & FX' & SMk).
  assert (xk' = xk) by congruence. subst xk'.
  destruct (XS.bind_total (vars (cl_ctx cl)) (map snd e0)) as (e1 & BD).
  { apply sig_match_iff, same_kt_length in AO. apply sig_match_iff, same_kt_length in SMk. unfold vars. rewrite !map_length. lia. }
  exists e0, x, tn, cls, cl, e1. split; [apply XC.split_last1_app|]. split; [apply N.eqb_eq; exact IDX|]. auto.
Qed.
End Clo.
