(* C19 / C14: the instruction bound of Proof/SizeCodegenWf.v with TWO unit costs - M for the units of a memory operation
   (store / load of a context), K for all other units: len code <= Sem/WfGuard64.cg_fine K M s |context|.  Same recursion
   and same proof as codegen_size_wf; used for the reach guard of AArch64 (B.cond / ADR reach 1 MiB), where the single
   constant of C19 (85 = the cost of a memory unit) is 30 to 50 times the real size of ordinary statements. *)
From Coq Require Import String List ZArith NArith Bool Lia.
From SCC Require Import Base.Sexp Lang.AxSyn Lang.AxSize Model.ParMoves Model.Backend Model.Linearize Model.LinCheck Model.SizeWf
     Sem.WfGuard64 Proof.LinBasics Proof.SizeLin Proof.SizeCodegen Proof.SizeCodegenWf.
Import ListNotations.
Open Scope list_scope.
Open Scope N_scope.
Local Arguments N.add : simpl never.
Local Arguments N.mul : simpl never.
Local Arguments N.sub : simpl never.
Local Arguments N.of_nat : simpl never.
Local Arguments len : simpl never.

Lemma cg_fine_switch : forall k m v t cls n,
  cg_fine k m (Switch v t cls) n = k + (k * 4 + k * len cls + cg_fine_sw k m n cls).
Proof. intros; simpl; do 2 f_equal; induction cls as [|[[x cc] b] r IH]; simpl; auto; rewrite IH; auto. Qed.
Lemma cg_fine_create : forall k m v t env cls next n,
  cg_fine k m (Create v t env cls next) n =
  k + (m * (1 + env_len env) + k + cg_fine k m next (n - env_len env + 1) + k + k * len cls + cg_fine_cr k m (env_len env) cls).
Proof. intros; simpl; do 2 f_equal; induction cls as [|[[x cc] b] r IH]; simpl; auto; rewrite IH; auto. Qed.

Section CostFine.
Context {Code Temp : Type} (B : backend Code Temp).
Variables K M : N.
Hypothesis K1 : 1 <= K.
Hypothesis c_mark : forall c, len (b_mark B c) <= K.
Hypothesis c_jump : forall t, len (b_jump B t) <= K.
Hypothesis c_jump_label : forall l, len (b_jump_label B l) <= K.
Hypothesis c_jump_label_fixed : forall l, len (b_jump_label_fixed B l) <= K.
Hypothesis c_jcc2 : forall so a b l, len (b_jcc2 B so a b l) <= K.
Hypothesis c_jcc1 : forall so a l, len (b_jcc1 B so a l) <= K.
Hypothesis c_load_immediate : forall t z, len (b_load_immediate B t z) <= K.
Hypothesis c_load_label : forall t l, len (b_load_label B t l) <= K.
Hypothesis c_add_and_jump : forall t z, len (b_add_and_jump B t z) <= K.
Hypothesis c_arith : forall o a b c, len (b_arith B o a b c) <= K.
Hypothesis c_mov : forall a b, len (b_mov B a b) <= K.
Hypothesis c_print : forall nl t c, len (b_print B nl t c) <= K * (1 + len c).
Hypothesis c_erase : forall t lc, len (fst (b_erase B t lc)) <= K.
Hypothesis c_share : forall t n lc, len (fst (b_share_n B t n lc)) <= K.
Hypothesis c_store : forall a r lc code lc', b_store B a r lc = Ok (code, lc') -> len code <= M * (1 + len a).
Hypothesis c_load : forall a r lc code lc', b_load B a r lc = Ok (code, lc') -> len code <= M * (1 + len a).
(* the parallel moves of one Substitute with distinct ids on both sides *)
Hypothesis c_exchange_wf : forall re c code, NoDup (ids c) -> NoDup (new_ids_of re) ->
  code_exchange B (transpose re c) c (map fst re) = Ok code -> len code <= K * (1 + len c + len re).

Ltac bind H :=
  match type of H with
  | rbind ?e _ = Ok _ => let E := fresh "E" in destruct e eqn:E; [cbn [rbind] in H | discriminate H]
  end.

Theorem codegen_size_fine : forall types s c lc code lc',
  sub_wf (ids c) s = true ->
  code_statement B types s c lc = Ok (code, lc') -> len code <= cg_fine K M s (len c).
Proof.
  intros types s; induction s using stmt_ind2; intros c lc code lc' HW HC.
  - (* Substitute *)
    cbn [sub_wf] in HW. apply andb_true_iff in HW as [HW HW3]. apply andb_true_iff in HW as [HW1 HW2].
    apply nodupb_NoDup in HW1. apply nodupb_NoDup in HW2.
    cbn [code_statement] in HC. bind HC. destruct x as [body lcb]. cbn [fst snd] in HC. inversion HC; subst; clear HC.
    bind E. destruct x as [c1 lc1]. bind E. rename x into c2. bind E. destruct x as [c3 lc3]. inversion E; subst; clear E.
    apply (cwc_len B K K1 c_erase c_share) in E0. pose proof (transpose_len K K1 re c). apply c_exchange_wf in E1; auto.
    apply IHs in E2; [|unfold ids; rewrite map_map; exact HW3].
    rewrite len_map in *. lens. cbn [cg_fine]. pose proof (c_mark c).
    assert (K * len (transpose re c) <= K * len c) by (apply N.mul_le_mono_l; auto).
    rewrite ?N.mul_add_distr_l in *. lia.
  - (* Call *)
    cbn [code_statement] in HC. cbn [rbind fst snd] in HC. inversion HC; subst. lens. cbn [cg_fine].
    pose proof (c_mark c). pose proof (c_jump_label (show_ident l +++ "_")). lia.
  - (* Let *)
    cbn [sub_wf] in HW.
    cbn [code_statement] in HC. bind HC. destruct x as [body lcb]. cbn [fst snd] in HC. inversion HC; subst; clear HC.
    bind E. bind E. bind E. destruct x1 as [rest arguments]. bind E. destruct x1 as [c1 lc1]. bind E. bind E. destruct x2 as [c3 lc3].
    inversion E; subst; clear E.
    pose proof (split_last_eq _ _ _ _ E2) as [Er _].
    apply (split_last_len K K1) in E2 as [L1 L2]. apply c_store in E3.
    apply IHs in E5; [|rewrite ids_app, Er, ids_firstn; cbn [ids map bvar]; rewrite ids_length in HW; exact HW].
    rewrite len_app, len_cons, len_nil, L1 in E5. fold (len args) in *. rewrite L2 in E3.
    lens. cbn [cg_fine]. pose proof (c_mark c). pose proof (c_load_immediate x1 (b_jump_length B x0)).
    replace (len c - len args + (1 + 0)) with (len c - len args + 1) in E5 by lia.
    rewrite ?N.mul_add_distr_l in *. lia.
  - (* Switch *)
    rewrite sub_wf_switch in HW.
    rewrite cg_fine_switch.
    cbn [code_statement] in HC. bind HC. destruct x as [body lcb]. cbn [fst snd] in HC. inversion HC; subst; clear HC.
    bind E. rename x into c1. bind E. destruct x as [c3 lc3]. inversion E; subst; clear E.
    assert (L1 : len c1 <= K * 3).
    { match type of E0 with (if ?b then _ else _) = _ => destruct b end; [inversion E0; subst; lnil; lia|].
      bind E0. inversion E0; subst. lens.
      pose proof (c_load_label (b_temp B) (type_label t (lc + 1))). pose proof (c_arith Sum (b_temp B) (b_temp B) x). pose proof (c_jump (b_temp B)). lia. }
    assert (L2 : len (if Nat.leb (List.length cls) 1 then [] else code_table B cls (type_label t (lc + 1))) <= K * len cls).
    { match goal with |- context [if ?b then _ else _] => destruct b end; [lnil; lia|apply (code_table_len B K K1 c_jump_label_fixed)]. }
    assert (L3 : len c3 <= cg_fine_sw K M (len c) cls).
    { clear E0 L1 L2.
      match type of E1 with ?F cls ?l0 = _ =>
        assert (G : forall l lc0 c3 lc3,
                  Forall (fun c : clause => forall (c0 : ctx) (lc : N) (code : list Code) (lc' : N),
                            sub_wf (ids c0) (cl_body c) = true ->
                            code_statement B types (cl_body c) c0 lc = Ok (code, lc') -> len code <= cg_fine K M (cl_body c) (len c0)) l ->
                  sub_wf_sw (ids c) l = true ->
                  F l lc0 = Ok (c3, lc3) -> len c3 <= cg_fine_sw K M (len c) l)
      end.
      { clear E1 HW. induction l as [|[[x cx] b] r IHr]; intros lc0 c3' lc3' HF HWl E1.
        - inversion E1; subst. cbn [cg_fine_sw]. lnil. lia.
        - inversion HF as [|? ? Hb Hr]; subst. cbn [sub_wf_sw] in HWl. apply andb_true_iff in HWl as [HWb HWr].
          bind E1. destruct x0 as [cl lc1]. bind E1. destruct x0 as [cb lc2]. bind E1. destruct x0 as [cr lc3''].
          inversion E1; subst; clear E1. apply c_load in E. apply Hb in E0; [|unfold cl_body; cbn [snd]; rewrite ids_app, ids_removelast; exact HWb].
          apply IHr in E2; auto.
          unfold cl_body in E0; cbn [snd] in E0. rewrite len_app, (removelast_len K K1) in E0.
          cbn [cg_fine_sw]. lens. rewrite ?N.mul_add_distr_l in *. lia. }
      eapply G; eauto. }
    lens. pose proof (c_mark c). rewrite ?N.mul_add_distr_l in *. unfold clause in *. lia.
  - (* Create *)
    rewrite cg_fine_create.
    cbn [code_statement] in HC. bind HC. destruct x as [body lcb]. cbn [fst snd] in HC. inversion HC; subst; clear HC.
    destruct env as [env|]; [|discriminate].
    rewrite sub_wf_create in HW. apply andb_true_iff in HW as [HWc HWn].
    bind E. destruct x as [rest cenv]. bind E. destruct x as [c1 lc1]. bind E. rename x into tmpv. bind E. destruct x as [c3 lc3].
    bind E. destruct x as [c5 lc5]. inversion E; subst; clear E.
    pose proof (split_last_eq _ _ _ _ E0) as [Er Ece].
    apply (split_last_len K K1) in E0 as [L1 L2]. apply c_store in E1.
    apply IHs in E3; [|rewrite ids_app, Er, ids_firstn; cbn [ids map bvar]; rewrite ids_length in HWn; exact HWn].
    rewrite len_app, len_cons, len_nil, L1 in E3. fold (len env) in *. rewrite L2 in E1.
    assert (L4 : len (if Nat.leb (List.length cls) 1 then [] else code_table B cls (type_label t (lc1 + 1))) <= K * len cls).
    { match goal with |- context [if ?b then _ else _] => destruct b end; [lnil; lia|apply (code_table_len B K K1 c_jump_label_fixed)]. }
    assert (L5 : len c5 <= cg_fine_cr K M (len env) cls).
    { clear L4 E3 E2 E1.
      match type of E4 with ?F cls ?l0 = _ =>
        assert (G : forall l lc0 c3 lc3,
                  Forall (fun c : clause => forall (c0 : ctx) (lc : N) (code : list Code) (lc' : N),
                            sub_wf (ids c0) (cl_body c) = true ->
                            code_statement B types (cl_body c) c0 lc = Ok (code, lc') -> len code <= cg_fine K M (cl_body c) (len c0)) l ->
                  sub_wf_cr (ids cenv) l = true ->
                  F l lc0 = Ok (c3, lc3) -> len c3 <= cg_fine_cr K M (len env) l)
      end.
      { clear E4 HWc. induction l as [|[[x cx] b] r IHr]; intros lc0 c3' lc3' HF HWl E4.
        - inversion E4; subst. cbn [cg_fine_cr]. lnil. lia.
        - inversion HF as [|? ? Hb Hr]; subst. cbn [sub_wf_cr] in HWl. apply andb_true_iff in HWl as [HWb HWr].
          bind E4. destruct x0 as [cl lc1']. bind E4. destruct x0 as [cb lc2]. bind E4. destruct x0 as [cr lc3''].
          inversion E4; subst; clear E4. apply c_load in E. apply Hb in E0; [|unfold cl_body; cbn [snd]; rewrite ids_app; exact HWb].
          apply IHr in E1; auto.
          unfold cl_body in E0; cbn [snd] in E0. rewrite len_app, L2 in E0. rewrite L2 in E.
          cbn [cg_fine_cr]. lens. rewrite ?N.mul_add_distr_l in *. lia. }
      eapply G; eauto. rewrite Ece, ids_skipn. rewrite ids_length in HWc. exact HWc. }
    lens. pose proof (c_mark c). pose proof (c_load_label tmpv (type_label t (lc1 + 1))).
    cbn [env_len].
    replace (len c - len env + (1 + 0)) with (len c - len env + 1) in E3 by lia.
    rewrite ?N.mul_add_distr_l in *. unfold clause in *. lia.
  - (* Invoke *)
    cbn [code_statement] in HC. bind HC. destruct x as [body lcb]. cbn [fst snd] in HC. inversion HC; subst; clear HC.
    bind E. bind E. pose proof (c_mark c). lens. cbn [cg_fine].
    destruct (Nat.leb (List.length (txtors x0)) 1).
    + inversion E; subst. pose proof (c_jump x). lia.
    + bind E. inversion E; subst. pose proof (c_add_and_jump x (b_jump_length B x1)). lia.
  - (* Literal *)
    cbn [sub_wf] in HW.
    cbn [code_statement] in HC. bind HC. destruct x as [body lcb]. cbn [fst snd] in HC. inversion HC; subst; clear HC.
    bind E. bind E. destruct x0 as [c2 lc2]. inversion E; subst; clear E.
    apply IHs in E1; [|rewrite ids_app; exact HW]. rewrite len_app, len_cons, len_nil in E1. lens. cbn [cg_fine].
    replace (len c + (1 + 0)) with (len c + 1) in E1 by lia.
    pose proof (c_mark c). pose proof (c_load_immediate x n). rewrite ?N.mul_add_distr_l in *. lia.
  - (* Op *)
    cbn [sub_wf] in HW.
    cbn [code_statement] in HC. bind HC. destruct x as [body lcb]. cbn [fst snd] in HC. inversion HC; subst; clear HC.
    bind E. bind E. bind E. bind E. destruct x2 as [c2 lc2]. inversion E; subst; clear E.
    apply IHs in E3; [|rewrite ids_app; exact HW]. rewrite len_app, len_cons, len_nil in E3. lens. cbn [cg_fine].
    replace (len c + (1 + 0)) with (len c + 1) in E3 by lia.
    pose proof (c_mark c). pose proof (c_arith o x x0 x1). rewrite ?N.mul_add_distr_l in *. lia.
  - (* PrintI64 *)
    cbn [sub_wf] in HW.
    cbn [code_statement] in HC. bind HC. destruct x as [body lcb]. cbn [fst snd] in HC. inversion HC; subst; clear HC.
    bind E. bind E. destruct x0 as [c2 lc2]. inversion E; subst; clear E.
    apply IHs in E1; [|exact HW]. lens. cbn [cg_fine].
    pose proof (c_mark c). pose proof (c_print nl x c). rewrite ?N.mul_add_distr_l in *. lia.
  - (* IfC *)
    cbn [sub_wf] in HW. apply andb_true_iff in HW as [HWt HWe].
    cbn [code_statement] in HC. bind HC. destruct x as [body lcb]. cbn [fst snd] in HC. inversion HC; subst; clear HC.
    bind E. rename x into ta. bind E. rename x into c1. bind E. destruct x as [c2 lc2]. bind E. destruct x as [c3 lc3]. inversion E; subst; clear E.
    apply IHs2 in E2; [|exact HWe]. apply IHs1 in E3; [|exact HWt]. lens. cbn [cg_fine].
    assert (len c1 <= K).
    { destruct b as [b|]; [bind E1|]; inversion E1; subst; [apply c_jcc2|apply c_jcc1]. }
    pose proof (c_mark c). rewrite ?N.mul_add_distr_l in *. lia.
  - (* Exit *)
    cbn [code_statement] in HC. bind HC. destruct x as [body lcb]. cbn [fst snd] in HC. inversion HC; subst; clear HC.
    bind E. inversion E; subst. lens. cbn [cg_fine].
    pose proof (c_mark c). pose proof (c_mov (b_return1 B) x). pose proof (c_jump_label "cleanup"). lia.
Qed.

Theorem translate_size_fine : forall types ds lc code lc',
  sub_wf_defs ds = true ->
  translate B types ds lc = Ok (code, lc') -> len code <= cg_fine_defs K M ds.
Proof.
  induction ds as [|d r IH]; intros lc code lc' HW H; simpl in H.
  - inversion H; subst. lnil. lia.
  - cbn [sub_wf_defs forallb] in HW. apply andb_true_iff in HW as [HWd HWr].
    bind H. destruct x as [c1 lc1]. bind H. destruct x as [c2 lc2]. inversion H; subst; clear H.
    apply codegen_size_fine in E; [|exact HWd]. apply IH in E0; [|exact HWr]. simpl. lens.
    rewrite ?N.mul_add_distr_l in *. lia.
Qed.
End CostFine.

