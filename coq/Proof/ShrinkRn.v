(* Proof/ShrinkRn.v (C04, fragment 2) - renamings as FUNCTIONS on identifiers.
   core_lang's SubstVar (Model/Shrink.v: subst_stmt) and axcut's Subst (ax_subst) are instances of
   [rn_stmt f] / [arn f] for f = subst_ident sub / ax_subst_ident sub; renamings compose, so the
   statement shrinking is finally called on is always [rn_stmt rho s] for a sub-statement s of the
   input and the AxCut statement that runs is [arn theta (shrink (rn_stmt rho s))].
   Also: [occurs x s] (x appears in a non-binding position), [pfresh A t] (binders of an AxCut
   statement fresh along every path w.r.t. the ids A). *)
From Coq Require Import List ZArith NArith String Bool Lia.
From SCC Require Import Base.Sexp Lang.SynUtil Lang.CoreSyn Lang.AxSyn Sem.FsCheck Sem.FsFrag2 Model.Shrink Proof.ShrinkProof.
Import ListNotations.
From SCC Require Export Sem.FsFrag2.
Open Scope list_scope.

(* ---------- focused Core ---------- *)
Definition rn_binding (f : cident -> cident) (b : cbinding) : cbinding := mkcb (f (cbvar b)) (cbchi b) (cbty b).
Definition rn_ctx (f : cident -> cident) (c : cctx) : cctx := map (rn_binding f) c.
Fixpoint rn_term (f : cident -> cident) (t : fsterm) : fsterm :=
  match t with
  | FsXVar c v ty => FsXVar c (f v) ty
  | FsLit n => FsLit n
  | FsOp a o b => FsOp (f a) o (f b)
  | FsMu c v s ty => FsMu c v (rn_stmt f s) ty
  | FsXtor c x args ty => FsXtor c x (rn_ctx f args) ty
  | FsXCase c cls ty =>
      FsXCase c ((fix go (l : list fsclause) : list fsclause :=
                    match l with [] => [] | y :: r => rn_clause f y :: go r end) cls) ty
  end
with rn_clause (f : cident -> cident) (cl : fsclause) : fsclause :=
  match cl with FsClause c x ctx body => FsClause c x ctx (rn_stmt f body) end
with rn_stmt (f : cident -> cident) (s : fsstmt) : fsstmt :=
  match s with
  | FsCut p ty k => FsCut (rn_term f p) ty (rn_term f k)
  | FsIfC so a b t e => FsIfC so (f a) (option_map f b) (rn_stmt f t) (rn_stmt f e)
  | FsPrint nl a next => FsPrint nl (f a) (rn_stmt f next)
  | FsCall g args => FsCall g (rn_ctx f args)
  | FsExit v => FsExit (f v)
  end.
Definition rn_clauses (f : cident -> cident) (cls : list fsclause) : list fsclause := map (rn_clause f) cls.
Lemma rn_term_xcase : forall f c cls t, rn_term f (FsXCase c cls t) = FsXCase c (rn_clauses f cls) t.
Proof. intros. reflexivity. Qed.

Lemma subst_ctx_rn : forall sub c, subst_ctx sub c = rn_ctx (subst_ident sub) c.
Proof. reflexivity. Qed.

Lemma subst_is_rn_all : forall sub,
  (forall t, subst_term sub t = rn_term (subst_ident sub) t) /\
  (forall c, subst_clause sub c = rn_clause (subst_ident sub) c) /\
  (forall s, subst_stmt sub s = rn_stmt (subst_ident sub) s).
Proof.
  intros sub. apply fs_mutind; intros; simpl; try reflexivity.
  - now rewrite H.
  - f_equal. induction H as [|y r Hy _ IH]; [reflexivity|]. now rewrite Hy, IH.
  - now rewrite H.
  - now rewrite H, H0.
  - now rewrite H, H0.
  - now rewrite H.
Qed.
Lemma subst_is_rn : forall sub s, subst_stmt sub s = rn_stmt (subst_ident sub) s.
Proof. intros. apply subst_is_rn_all. Qed.

Lemma rn_ctx_comp : forall f g c, rn_ctx f (rn_ctx g c) = rn_ctx (fun x => f (g x)) c.
Proof. intros. unfold rn_ctx. rewrite map_map. reflexivity. Qed.
Lemma rn_comp_all : forall f g,
  (forall t, rn_term f (rn_term g t) = rn_term (fun x => f (g x)) t) /\
  (forall c, rn_clause f (rn_clause g c) = rn_clause (fun x => f (g x)) c) /\
  (forall s, rn_stmt f (rn_stmt g s) = rn_stmt (fun x => f (g x)) s).
Proof.
  intros f g. apply fs_mutind; intros; simpl; try reflexivity.
  - now rewrite H.
  - now rewrite rn_ctx_comp.
  - f_equal. induction H as [|y r Hy _ IH]; [reflexivity|]. now rewrite Hy, IH.
  - now rewrite H.
  - now rewrite H, H0.
  - rewrite H, H0. destruct b; reflexivity.
  - now rewrite H.
  - now rewrite rn_ctx_comp.
Qed.
Lemma rn_comp : forall f g s, rn_stmt f (rn_stmt g s) = rn_stmt (fun x => f (g x)) s.
Proof. intros. apply rn_comp_all. Qed.

Lemma rn_ctx_id : forall c, rn_ctx (fun x => x) c = c.
Proof. induction c as [|[v ch t] r IH]; simpl; [reflexivity|]. unfold rn_binding at 1. simpl. now rewrite IH. Qed.
Lemma rn_id_all :
  (forall t, rn_term (fun x => x) t = t) /\ (forall c, rn_clause (fun x => x) c = c) /\ (forall s, rn_stmt (fun x => x) s = s).
Proof.
  apply fs_mutind; intros; simpl; try reflexivity.
  - now rewrite H.
  - now rewrite rn_ctx_id.
  - f_equal. induction H as [|y r Hy _ IH]; [reflexivity|]. now rewrite Hy, IH.
  - now rewrite H.
  - now rewrite H, H0.
  - rewrite H, H0. destruct b; reflexivity.
  - now rewrite H.
  - now rewrite rn_ctx_id.
Qed.
Lemma rn_id : forall s, rn_stmt (fun x => x) s = s.
Proof. apply rn_id_all. Qed.

Lemma cvars_rn_ctx : forall f c, cvars (rn_ctx f c) = map f (cvars c).
Proof. intros. unfold cvars, rn_ctx. rewrite !map_map. reflexivity. Qed.
Lemma length_rn_ctx : forall f c, List.length (rn_ctx f c) = List.length c.
Proof. intros. apply map_length. Qed.

(* clauses: names and contexts survive *)
Lemma find_rn_clauses : forall f x cls,
  find (fun c => cident_eqb (clause_xtor c) x) (rn_clauses f cls)
  = option_map (rn_clause f) (find (fun c => cident_eqb (clause_xtor c) x) cls).
Proof.
  intros f x cls. induction cls as [|[c y ctx b] r IH]; simpl; [reflexivity|].
  destruct (cident_eqb y x); [reflexivity | exact IH].
Qed.

(* ---------- x occurs in a non-binding position ---------- *)
Definition occ_ctx (x : cident) (c : cctx) : Prop := In x (cvars c).
Fixpoint occ_term (x : cident) (t : fsterm) : Prop :=
  match t with
  | FsXVar _ v _ => v = x
  | FsLit _ => False
  | FsOp a _ b => a = x \/ b = x
  | FsMu _ _ s _ => occurs x s
  | FsXtor _ _ args _ => occ_ctx x args
  | FsXCase _ cls _ =>
      (fix go (l : list fsclause) : Prop := match l with [] => False | y :: r => occ_clause x y \/ go r end) cls
  end
with occ_clause (x : cident) (cl : fsclause) : Prop :=
  match cl with FsClause _ _ _ body => occurs x body end
with occurs (x : cident) (s : fsstmt) : Prop :=
  match s with
  | FsCut p _ k => occ_term x p \/ occ_term x k
  | FsIfC _ a b t e => a = x \/ b = Some x \/ occurs x t \/ occurs x e
  | FsPrint _ a next => a = x \/ occurs x next
  | FsCall _ args => occ_ctx x args
  | FsExit v => v = x
  end.
Definition occ_clauses (x : cident) (cls : list fsclause) : Prop := exists c, In c cls /\ occ_clause x c.
Lemma occ_term_xcase : forall x c cls t, occ_term x (FsXCase c cls t) <-> occ_clauses x cls.
Proof.
  intros. simpl. unfold occ_clauses. induction cls as [|y r IH]; simpl.
  - split; [tauto | intros (c0 & [] & _)].
  - rewrite IH. split.
    + intros [H | (c0 & Hi & Ho)]; [exists y; auto | exists c0; auto].
    + intros (c0 & [<- | Hi] & Ho); [auto | right; exists c0; auto].
Qed.

(* ---------- AxCut ---------- *)
Definition arn_binding (f : ident -> ident) (b : binding) : binding := mkb (f (bvar b)) (bchi b) (bty b).
Definition arn_ctx (f : ident -> ident) (c : ctx) : ctx := map (arn_binding f) c.
Fixpoint arn (f : ident -> ident) (s : stmt) : stmt :=
  let go_cls := fix go (l : list (ident * ctx * stmt)) : list (ident * ctx * stmt) :=
    match l with
    | [] => []
    | (x, c, b) :: r => (x, c, arn f b) :: go r
    end in
  match s with
  | Substitute re next => Substitute (map (fun p => (arn_binding f (fst p), f (snd p))) re) (arn f next)
  | Call l args => Call l (arn_ctx f args)
  | Let v t tag args next => Let v t tag (arn_ctx f args) (arn f next)
  | Switch v t cls => Switch (f v) t (go_cls cls)
  | Create v t env cls next => Create v t (option_map (arn_ctx f) env) (go_cls cls) (arn f next)
  | Invoke v tag t args => Invoke (f v) tag t (arn_ctx f args)
  | Literal n v next => Literal n v (arn f next)
  | Op a o b v next => Op (f a) o (f b) v (arn f next)
  | PrintI64 nl v next => PrintI64 nl (f v) (arn f next)
  | IfC so a b t e => IfC so (f a) (option_map f b) (arn f t) (arn f e)
  | Exit v => Exit (f v)
  end.
Definition arn_cls (f : ident -> ident) (cls : list (ident * ctx * stmt)) : list (ident * ctx * stmt) :=
  map (fun c => (fst (fst c), snd (fst c), arn f (snd c))) cls.
Lemma arn_switch : forall f v t cls, arn f (Switch v t cls) = Switch (f v) t (arn_cls f cls).
Proof. intros. simpl. f_equal. induction cls as [|[[x c] b] r IH]; simpl; [reflexivity|]. now rewrite IH. Qed.
Lemma arn_create : forall f v t env cls n,
  arn f (Create v t env cls n) = Create v t (option_map (arn_ctx f) env) (arn_cls f cls) (arn f n).
Proof. intros. simpl. f_equal. induction cls as [|[[x c] b] r IH]; simpl; [reflexivity|]. now rewrite IH. Qed.

Lemma ax_subst_is_arn : forall sub s, ax_subst sub s = arn (ax_subst_ident sub) s.
Proof.
  intros sub. apply stmt_ind'; intros; simpl; try reflexivity; try (now rewrite H); try (now rewrite H, H0).
  - f_equal. induction H as [|[[x c] b] r Hb _ IH]; [reflexivity|]. simpl in Hb. now rewrite Hb, IH.
  - rewrite H0. f_equal. induction H as [|[[x c] b] r Hb _ IH]; [reflexivity|]. simpl in Hb. now rewrite Hb, IH.
Qed.
Lemma arn_ctx_comp : forall f g c, arn_ctx f (arn_ctx g c) = arn_ctx (fun x => f (g x)) c.
Proof. intros. unfold arn_ctx. rewrite map_map. reflexivity. Qed.
Lemma arn_comp : forall f g s, arn f (arn g s) = arn (fun x => f (g x)) s.
Proof.
  intros f g. apply stmt_ind'; intros; simpl; try reflexivity;
    try (now rewrite ?arn_ctx_comp, H); try (now rewrite H, H0).
  - rewrite H, map_map. reflexivity.
  - now rewrite arn_ctx_comp.
  - f_equal. induction H as [|[[x c] b] r Hb _ IH]; [reflexivity|]. simpl in Hb. now rewrite Hb, IH.
  - rewrite H0. f_equal.
    + destruct env; simpl; [now rewrite arn_ctx_comp | reflexivity].
    + induction H as [|[[x c] b] r Hb _ IH]; [reflexivity|]. simpl in Hb. now rewrite Hb, IH.
  - now rewrite arn_ctx_comp.
  - rewrite H, H0. destruct b; reflexivity.
Qed.
Lemma arn_ctx_id : forall c, arn_ctx (fun x => x) c = c.
Proof. induction c as [|[v ch t] r IH]; simpl; [reflexivity|]. unfold arn_binding at 1. simpl. now rewrite IH. Qed.
Lemma arn_id : forall s, arn (fun x => x) s = s.
Proof.
  apply stmt_ind'; intros; simpl; try reflexivity; try (now rewrite ?arn_ctx_id, H); try (now rewrite H, H0).
  - rewrite H. f_equal. induction re as [|[[v ch t] o] r IH]; simpl; [reflexivity|]. unfold arn_binding at 1. simpl. now rewrite IH.
  - now rewrite arn_ctx_id.
  - f_equal. induction H as [|[[x c] b] r Hb _ IH]; [reflexivity|]. simpl in Hb. now rewrite Hb, IH.
  - rewrite H0. f_equal.
    + destruct env; simpl; [now rewrite arn_ctx_id | reflexivity].
    + induction H as [|[[x c] b] r Hb _ IH]; [reflexivity|]. simpl in Hb. now rewrite Hb, IH.
  - now rewrite arn_ctx_id.
  - rewrite H, H0. destruct b; reflexivity.
Qed.
Lemma vars_arn_ctx : forall f c, vars (arn_ctx f c) = map f (vars c).
Proof. intros. unfold vars, arn_ctx. rewrite !map_map. reflexivity. Qed.

(* ---------- binders fresh along every path ---------- *)
Definition memN (x : N) (l : list N) : bool := existsb (N.eqb x) l.
Fixpoint fresh_list (A : list N) (xs : list N) : bool :=
  match xs with
  | [] => true
  | x :: r => negb (memN x A) && fresh_list (x :: A) r
  end.
Fixpoint pfresh (A : list N) (s : stmt) : bool :=
  let go := fix go (A : list N) (l : list (ident * ctx * stmt)) : bool :=
    match l with
    | [] => true
    | (_, c, b) :: r => fresh_list A (ids c) && pfresh (rev_append (ids c) A) b && go A r
    end in
  match s with
  | Substitute _ _ => true      (* not produced by shrinking; of no interest here *)
  | Call _ _ | Invoke _ _ _ _ | Exit _ => true
  | Let v _ _ _ n | Literal _ v n | Op _ _ _ v n => negb (memN (idn v) A) && pfresh (idn v :: A) n
  | Switch _ _ cls => go A cls
  | Create v _ (Some _) cls n => true      (* annotated closure environments: after linearization only *)
  | Create v _ None cls n => go A cls && negb (memN (idn v) A) && pfresh (idn v :: A) n
  | PrintI64 _ _ n => pfresh A n
  | IfC _ _ _ t e => pfresh A t && pfresh A e
  end.
Definition pfresh_cls (A : list N) (cls : list (ident * ctx * stmt)) : bool :=
  forallb (fun c => fresh_list A (ids (snd (fst c))) && pfresh (rev_append (ids (snd (fst c))) A) (snd c)) cls.
Lemma pfresh_switch : forall A v t cls, pfresh A (Switch v t cls) = pfresh_cls A cls.
Proof. intros. simpl. unfold pfresh_cls. induction cls as [|[[x c] b] r IH]; simpl; [reflexivity|]. now rewrite IH. Qed.
Lemma pfresh_create : forall A v t cls n,
  pfresh A (Create v t None cls n) = pfresh_cls A cls && negb (memN (idn v) A) && pfresh (idn v :: A) n.
Proof.
  intros. simpl. f_equal. f_equal. unfold pfresh_cls. induction cls as [|[[x c] b] r IH]; simpl; [reflexivity|]. now rewrite IH.
Qed.
Lemma forallb_map : forall {X Y} (f : Y -> bool) (g : X -> Y) l, forallb f (map g l) = forallb (fun x => f (g x)) l.
Proof. induction l as [|x r IH]; simpl; [reflexivity|]. now rewrite IH. Qed.
Lemma pfresh_arn : forall f s A, pfresh A (arn f s) = pfresh A s.
Proof.
  intros f. apply (stmt_ind' (fun s => forall A, pfresh A (arn f s) = pfresh A s)); intros; try reflexivity;
    try (simpl; now rewrite ?H, ?H0).
  - rewrite arn_switch, !pfresh_switch. unfold pfresh_cls, arn_cls. rewrite forallb_map.
    induction H as [|[[x c] b] r Hb _ IH]; [reflexivity|]. simpl in *. now rewrite Hb, IH.
  - rewrite arn_create. destruct env as [ce|]; [reflexivity|]. cbn [option_map]. rewrite !pfresh_create, H0. f_equal. f_equal.
    unfold pfresh_cls, arn_cls. rewrite forallb_map.
    induction H as [|[[x c] b] r Hb _ IH]; [reflexivity|]. simpl in *. now rewrite Hb, IH.
Qed.
Lemma in_rev_append : forall {X} (a b : list X) x, In x (rev_append a b) <-> In x a \/ In x b.
Proof. intros. rewrite rev_append_rev, in_app_iff, <- in_rev. tauto. Qed.
Lemma memN_in : forall x l, memN x l = true <-> In x l.
Proof.
  intros. unfold memN. rewrite existsb_exists. split.
  - intros (y & Hy & He). apply N.eqb_eq in He. now subst.
  - intros H. exists x. split; [exact H | apply N.eqb_refl].
Qed.
Lemma memN_false : forall x l, memN x l = false <-> ~ In x l.
Proof. intros. rewrite <- memN_in. destruct (memN x l); split; intros H; auto; try discriminate. exfalso. apply H. reflexivity. Qed.

(* ---------- binders are not renamed ---------- *)
Lemma cbinders_rn_all : forall f,
  (forall t, cbinders_term (rn_term f t) = cbinders_term t) /\
  (forall c, cids (clause_ctx (rn_clause f c)) ++ cbinders (clause_body (rn_clause f c))
             = cids (clause_ctx c) ++ cbinders (clause_body c)) /\
  (forall s, cbinders (rn_stmt f s) = cbinders s).
Proof.
  intros f. apply fs_mutind; intros; try reflexivity.
  - simpl. now rewrite H.
  - rewrite rn_term_xcase, !cbinders_term_xcase. unfold cbinders_clauses, rn_clauses.
    induction H as [|y r Hy _ IH]; [reflexivity|]. simpl. now rewrite Hy, IH.
  - simpl. now rewrite H.
  - simpl. now rewrite H, H0.
  - simpl. now rewrite H, H0.
  - simpl. now rewrite H.
Qed.
Lemma cbinders_rn : forall f s, cbinders (rn_stmt f s) = cbinders s.
Proof. intros. apply cbinders_rn_all. Qed.

(* ---------- unique binders: only membership in the scope matters ---------- *)
Lemma fresh_ids_ext : forall xs S S', (forall i, mem_id i S = mem_id i S') -> fresh_ids S xs = fresh_ids S' xs.
Proof.
  induction xs as [|x r IH]; intros S S' H; [reflexivity|]. simpl. rewrite (H x). f_equal.
  apply IH. intros i. unfold mem_id in *. simpl. now rewrite H.
Qed.
Definition ub_clause (scope : list N) (cl : fsclause) : bool :=
  match cl with FsClause _ _ ctx body => fresh_ids scope (cids ctx) && ub_stmt (rev_append (cids ctx) scope) body end.
Definition ub_clauses (scope : list N) (cls : list fsclause) : bool := forallb (ub_clause scope) cls.
Lemma ub_term_xcase : forall S c cls t, ub_term S (FsXCase c cls t) = ub_clauses S cls.
Proof.
  intros. simpl. unfold ub_clauses. induction cls as [|[c' x ctx b] r IH]; [reflexivity|]. simpl. now rewrite IH.
Qed.
Lemma mem_id_rev_append : forall i a S S', (forall j, mem_id j S = mem_id j S') ->
  mem_id i (rev_append a S) = mem_id i (rev_append a S').
Proof.
  intros i a. induction a as [|x r IH]; intros S S' H; simpl; [apply H|].
  apply IH. intros j. unfold mem_id in *. simpl. now rewrite H.
Qed.
Lemma ub_ext_all :
  (forall t S S', (forall i, mem_id i S = mem_id i S') -> ub_term S t = ub_term S' t) /\
  (forall c S S', (forall i, mem_id i S = mem_id i S') -> ub_clause S c = ub_clause S' c) /\
  (forall s S S', (forall i, mem_id i S = mem_id i S') -> ub_stmt S s = ub_stmt S' s).
Proof.
  apply fs_mutind; intros; try reflexivity.
  - simpl. rewrite (H0 (cid_id v)). f_equal. apply H. intros i. unfold mem_id in *. simpl. now rewrite H0.
  - rewrite !ub_term_xcase. unfold ub_clauses. induction H as [|y r Hy _ IH]; [reflexivity|]. simpl.
    rewrite (Hy S S' H0), IH. reflexivity.
  - simpl. rewrite (fresh_ids_ext _ S S' H0). f_equal. apply H. intros i. now apply mem_id_rev_append.
  - simpl. now rewrite (H S S' H1), (H0 S S' H1).
  - simpl. now rewrite (H S S' H1), (H0 S S' H1).
  - simpl. now apply H.
Qed.
Lemma ub_stmt_ext : forall s S S', (forall i, mem_id i S = mem_id i S') -> ub_stmt S s = ub_stmt S' s.
Proof. apply ub_ext_all. Qed.
Lemma mem_id_in : forall x l, mem_id x l = true <-> In x l.
Proof. exact memN_in. Qed.
Lemma mem_id_ext_of_in : forall S S', (forall i, In i S <-> In i S') -> forall i, mem_id i S = mem_id i S'.
Proof.
  intros S S' H i. destruct (mem_id i S) eqn:E1, (mem_id i S') eqn:E2; try reflexivity.
  - apply mem_id_in in E1. apply H in E1. apply mem_id_in in E1. congruence.
  - apply mem_id_in in E2. apply H in E2. apply mem_id_in in E2. congruence.
Qed.

(* binders of a statement are outside the scope *)
Lemma fresh_ids_spec : forall xs S, fresh_ids S xs = true -> NoDup xs /\ (forall x, In x xs -> ~ In x S).
Proof.
  induction xs as [|x r IH]; intros S H; simpl in H.
  - split; [constructor | intros x []].
  - apply andb_prop in H as [H1 H2]. apply negb_true_iff in H1.
    assert (Hx : ~ In x S) by (intros Hin; apply mem_id_in in Hin; congruence).
    destruct (IH _ H2) as [Hnd Hni]. split.
    + constructor; [|exact Hnd]. intros Hin. apply (Hni x Hin). now left.
    + intros y [<-|Hy]; [exact Hx|]. intros HA. apply (Hni y Hy). now right.
Qed.
Lemma ub_notin_all :
  (forall t S, ub_term S t = true -> forall i, In i (cbinders_term t) -> ~ In i S) /\ (forall c S, ub_clause S c = true -> forall i, In i (cids (clause_ctx c) ++ cbinders (clause_body c)) -> ~ In i S) /\ (forall s S, ub_stmt S s = true -> forall i, In i (cbinders s) -> ~ In i S).
Proof.
  apply fs_mutind; intros; try (simpl in *; contradiction).
  - simpl in H0, H1. apply andb_prop in H0 as [Ha Hb]. apply negb_true_iff in Ha.
    destruct H1 as [<-|H1].
    + intros Hin. apply mem_id_in in Hin. congruence.
    + intros Hin. apply (H _ Hb i H1). now right.
  - rewrite ub_term_xcase in H0. rewrite cbinders_term_xcase in H1. unfold cbinders_clauses in H1.
    apply in_flat_map in H1 as (cl & Hcl & Hi). unfold ub_clauses in H0. rewrite forallb_forall in H0.
    rewrite Forall_forall in H. eapply H; eauto.
  - simpl in H0, H1. apply andb_prop in H0 as [Ha Hb]. apply in_app_or in H1 as [H1|H1].
    + apply fresh_ids_spec in Ha as [_ Ha]. now apply Ha.
    + intros Hin. apply (H _ Hb i H1). apply in_rev_append. now right.
  - simpl in H1, H2. apply andb_prop in H1 as [Ha Hb]. apply in_app_or in H2 as [H2|H2]; eauto.
  - simpl in H1, H2. apply andb_prop in H1 as [Ha Hb]. apply in_app_or in H2 as [H2|H2]; eauto.
  - simpl in *. eauto.
Qed.
Lemma ub_notin : forall s S, ub_stmt S s = true -> forall i, In i (cbinders s) -> ~ In i S.
Proof. apply ub_notin_all. Qed.

Definition nc_clauses (L : list cident) (cls : list fsclause) : bool :=
  forallb (fun cl => nc_stmt (cvars (clause_ctx cl) ++ L) (clause_body cl)) cls.
Lemma nc_term_xcase : forall L c cls t, nc_term L (FsXCase c cls t) = nc_clauses L cls.
Proof.
  intros. simpl. unfold nc_clauses. induction cls as [|[c' x ctx b] r IH]; [reflexivity|]. simpl. now rewrite IH.
Qed.
Lemma nc_clauses_in : forall L cls cl, nc_clauses L cls = true -> In cl cls ->
  nc_stmt (cvars (clause_ctx cl) ++ L) (clause_body cl) = true.
Proof. intros L cls cl H Hin. unfold nc_clauses in H. rewrite forallb_forall in H. now apply H. Qed.

(* inversion at a cut *)
Lemma nc_cut : forall L p ty k, nc_stmt L (FsCut p ty k) = true -> nc_term L p = true /\ nc_term L k = true.
Proof. intros L p ty k H. simpl in H. now apply andb_prop in H. Qed.
Lemma nc_cut_mu_l : forall L c v s t ty k, nc_stmt L (FsCut (FsMu c v s t) ty k) = true -> nc_stmt (v :: L) s = true.
Proof. intros. apply nc_cut in H as [H _]. exact H. Qed.
Lemma nc_cut_mu_r : forall L p ty c v s t, nc_stmt L (FsCut p ty (FsMu c v s t)) = true -> nc_stmt (v :: L) s = true.
Proof. intros. apply nc_cut in H as [_ H]. exact H. Qed.
Lemma nc_cut_case_l : forall L c cls t ty k, nc_stmt L (FsCut (FsXCase c cls t) ty k) = true -> nc_clauses L cls = true.
Proof. intros. apply nc_cut in H as [H _]. now rewrite nc_term_xcase in H. Qed.
Lemma nc_cut_case_r : forall L p ty c cls t, nc_stmt L (FsCut p ty (FsXCase c cls t)) = true -> nc_clauses L cls = true.
Proof. intros. apply nc_cut in H as [_ H]. now rewrite nc_term_xcase in H. Qed.
Lemma nc_print : forall L nl a nx, nc_stmt L (FsPrint nl a nx) = true -> nc_stmt L nx = true.
Proof. intros L nl a nx H. simpl in H. now apply andb_prop in H. Qed.
Lemma nc_ifc : forall L so a b t e, nc_stmt L (FsIfC so a b t e) = true -> nc_stmt L t = true /\ nc_stmt L e = true.
Proof.
  intros L so a b t e H. simpl in H. apply andb_prop in H as [H He]. apply andb_prop in H as [_ Ht]. auto.
Qed.

(* only membership in the scope matters *)
Lemma fresh_list_ext : forall xs A A', (forall i, memN i A = memN i A') -> fresh_list A xs = fresh_list A' xs.
Proof.
  induction xs as [|x r IH]; intros A A' H; [reflexivity|]. simpl. rewrite (H x). f_equal.
  apply IH. intros i. unfold memN in *. simpl. now rewrite H.
Qed.
Lemma memN_rev_append : forall i a A A', (forall j, memN j A = memN j A') -> memN i (rev_append a A) = memN i (rev_append a A').
Proof.
  intros i a. induction a as [|x r IH]; intros A A' H; simpl; [apply H|].
  apply IH. intros j. unfold memN in *. simpl. now rewrite H.
Qed.
Lemma pfresh_ext : forall s A A', (forall i, memN i A = memN i A') -> pfresh A s = pfresh A' s.
Proof.
  apply (stmt_ind' (fun s => forall A A', (forall i, memN i A = memN i A') -> pfresh A s = pfresh A' s)); intros; try reflexivity.
  - simpl. rewrite (H0 (idn v)). f_equal. apply H. intros i. unfold memN in *. simpl. now rewrite H0.
  - rewrite !pfresh_switch. unfold pfresh_cls. induction H as [|[[x c] b] r Hb _ IH]; [reflexivity|]. simpl in *.
    rewrite (fresh_list_ext _ A A' H0), IH. f_equal. f_equal. apply Hb. intros i. now apply memN_rev_append.
  - destruct env as [ce|]; [reflexivity|]. rewrite !pfresh_create. rewrite (H1 (idn v)).
    rewrite (H0 (idn v :: A) (idn v :: A')); [|intros i; unfold memN in *; simpl; now rewrite H1]. f_equal. f_equal.
    unfold pfresh_cls. induction H as [|[[x c] b] r Hb _ IH]; [reflexivity|]. simpl in *.
    rewrite (fresh_list_ext _ A A' H1), IH. f_equal. f_equal. apply Hb. intros i. now apply memN_rev_append.
  - simpl. rewrite (H0 (idn v)). f_equal. apply H. intros i. unfold memN in *. simpl. now rewrite H0.
  - simpl. rewrite (H0 (idn v)). f_equal. apply H. intros i. unfold memN in *. simpl. now rewrite H0.
  - simpl. now apply H.
  - simpl. rewrite (H A A' H1), (H0 A A' H1). reflexivity.
Qed.
Lemma memN_ext_of_in : forall A A', (forall i, In i A <-> In i A') -> forall i, memN i A = memN i A'.
Proof. exact mem_id_ext_of_in. Qed.
