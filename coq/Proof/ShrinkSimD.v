(* Proof/ShrinkSimD.v (C04, fragment 2) - cases of the simulation lemma with a known xtor:
   let (xtor against an abstraction) and invoke (xtor against a variable). *)
From Coq Require Import List ZArith NArith String Bool Lia.
From SCC Require Import Base.Sexp Lang.SynUtil Lang.CoreSyn Lang.AxSyn Sem.AxSem Sem.FsCheck Model.Shrink
     Proof.ShrinkProof Proof.ShrinkSem Proof.ShrinkRn Proof.ShrinkRel Proof.ShrinkArgs Proof.ShrinkSimBase
     Proof.ShrinkSimA Proof.ShrinkSimB Proof.ShrinkSimData Proof.ShrinkSimC.
From SCC Require Sem.CoreSem.
Import ListNotations.
Open Scope list_scope.

Section CasesD.
Variable p : fsprog.
Variable q : prog.
Notation P := (CoreSem.fs2c_prog p).
Notation data := (fspdata p).
Notation codata := (fspcodata p).
Notation defs := (fspdefs p).
Notation m0 := (fspmax p).
Notation D := (data ++ [cont_int]).
Notation IHn := (IHn p q).
Hypothesis Hdisj : forall n, find_decl data n <> None -> find_decl codata n = None.

Lemma occ_args : forall args (b : cbinding), In b args -> occ_ctx (cbvar b) args.
Proof. intros args b H. unfold occ_ctx, cvars. apply in_map. exact H. Qed.

(* <K(args) | mu~ x.s>  =  let x = K(args); s *)
Lemma fl_let_ctor : forall n, IHn n -> forall c1 K args t1 ty c2 x s' t2,
  FLs p q n (FsCut (FsXtor c1 K args t1) ty (FsMu c2 x s' t2)).
Proof.
  intros n IH c1 K args t1 ty c2 x s' t2. start. cbn [rn_stmt rn_term shrink_step shrink_cut] in Hsh. unfold shrink_identifier in Hsh.
  destruct (shrink_stmt k _ (rn_stmt rho s') st) as [[next st1]|] eqn:E1; [|discriminate Hsh]. cbn [sbind] in Hsh. invsh Hsh.
  rewrite check_stmt_cut_eq in Hck. apply seq_none in Hck as [Hty Hck]. apply seq_none in Hck as [Hcp Hck].
  destruct (xtor_typing p _ _ _ _ _ _ _ Hcp) as (T & d & sg & -> & Hd & Hx & Hfa).
  rewrite check_term_mu_eq in Hck. apply seq_none in Hck as [_ Hck]. apply seq_none in Hck as [_ Hcs]. cbn [opp] in Hcs.
  rewrite ib_stmt_cut, ib_term_mu in Hib. apply andb_prop in Hib as [_ Hib]. apply andb_prop in Hib as [Hix Hib]. apply id_le_le in Hix.
  cbn [ub_stmt ub_term andb] in Hub. apply andb_prop in Hub as [Hux Hub]. apply negb_mem_notin in Hux.
  cbn [pfresh] in Hpf. apply andb_prop in Hpf as [Hpx Hpf]. apply negb_memN_notin in Hpx.
  cbn [CoreSem.fs2c_stmt CoreSem.fs2c_term] in Hrun. core_step Hrun Hg n.
  apply start_args_eval in Hrun as (n1 & vs & Hle & Hvs & Hrun); [|exact Hg]. cbn [CoreSem.finish_args cont] in Hrun.
  core_step Hrun Hg n1. cbn [CoreSem.khead CoreSem.interact_val cont] in Hrun.
  assert (Hneed : forall b, In b args -> occurs (cbvar b) (FsCut (FsXtor c1 K args t1) (CDecl T) (FsMu c2 x s' t2))).
  { intros b Hb. cbn [occurs occ_term]. left. now apply occ_args. }
  destruct (args_rel p q _ _ _ _ _ _ _ _ He (inv_nd _ _ _ _ _ Hinv) _ _ _ Hfa Hneed Hvs) as (avs & Hlk & Hrel).
  assert (He' : erel p q n1 (fun y => occurs y s') (fun y => th (rho y)) (idn x :: A) (mkcb x CPrd (CDecl T) :: G)
                  ((x, BP (PCtor K vs)) :: e) ((x, VObj T K avs) :: ae)).
  { eapply erel_push with (pi := fun y => th (rho y)) (need := fun y => occurs y (FsCut (FsXtor c1 K args t1) (CDecl T) (FsMu c2 x s' t2))).
    - eapply erel_weaken; [exact He | lia | auto | apply incl_refl].
    - exact Hpx.
    - intros b0 _ Hb. split; [occ | reflexivity].
    - rewrite (inv_self p _ _ _ _ _ Hinv Hux Hix). reflexivity.
    - eapply VR_ctor; eauto; [eapply data_not_codata; eauto | eapply vrels_le; [|exact Hrel]; lia]. }
  destruct (IH n1 ltac:(lia) s' k lbl _ rho th st next st' _ _ _ (inv_push p _ _ _ _ _ CPrd (CDecl T) Hinv Hux Hix) Hcs Hub Hib (nc_cut_mu_r _ _ _ _ _ _ _ Hnc) E1 Hpf Hlift He' _ _ Hrun Hg) as [m Hm].
  exists (S m). cbn [arn exec_named shrink_ty ty_name shrink_identifier]. rewrite vars_arn_shrink_rn, Hlk. exact Hm.
Qed.

(* <mu a.s | D(args)>  =  let a = D(args); s *)
Lemma fl_let_dtor : forall n, IHn n -> forall c1 a s' t1 ty c2 K args t2,
  FLs p q n (FsCut (FsMu c1 a s' t1) ty (FsXtor c2 K args t2)).
Proof.
  intros n IH c1 a s' t1 ty c2 K args t2. start. cbn [rn_stmt rn_term shrink_step shrink_cut] in Hsh. unfold shrink_identifier in Hsh.
  destruct (shrink_stmt k _ (rn_stmt rho s') st) as [[next st1]|] eqn:E1; [|discriminate Hsh]. cbn [sbind] in Hsh. invsh Hsh.
  rewrite check_stmt_cut_eq in Hck. apply seq_none in Hck as [Hty Hck]. apply seq_none in Hck as [Hcp Hck].
  destruct (xtor_typing p _ _ _ _ _ _ _ Hck) as (T & d & sg & -> & Hd & Hx & Hfa).
  rewrite check_term_mu_eq in Hcp. apply seq_none in Hcp as [_ Hcp]. apply seq_none in Hcp as [_ Hcs]. cbn [opp] in Hcs.
  rewrite ib_stmt_cut, ib_term_mu in Hib. apply andb_prop in Hib as [Hib _]. apply andb_prop in Hib as [Hia Hib]. apply id_le_le in Hia.
  cbn [ub_stmt ub_term] in Hub. rewrite andb_true_r in Hub. apply andb_prop in Hub as [Hua Hub]. apply negb_mem_notin in Hua.
  cbn [pfresh] in Hpf. apply andb_prop in Hpf as [Hpa Hpf]. apply negb_memN_notin in Hpa.
  cbn [CoreSem.fs2c_stmt CoreSem.fs2c_term] in Hrun. core_step Hrun Hg n.
  apply start_args_eval in Hrun as (n1 & vs & Hle & Hvs & Hrun); [|exact Hg]. cbn [CoreSem.finish_args cont] in Hrun.
  core_step Hrun Hg n1. cbn [CoreSem.cut_with_k] in Hrun.
  assert (Hrun' : CoreSem.crun n1 P (CoreSem.Run (CoreSem.fs2c_stmt s') ((a, BK (KDtor K vs)) :: e)) out = r).
  { destruct (CoreSem.is_codata P (CDecl T)); exact Hrun. }
  clear Hrun.
  assert (Hneed : forall b, In b args -> occurs (cbvar b) (FsCut (FsMu c1 a s' t1) (CDecl T) (FsXtor c2 K args t2))).
  { intros b Hb. cbn [occurs occ_term]. right. now apply occ_args. }
  destruct (args_rel p q _ _ _ _ _ _ _ _ He (inv_nd _ _ _ _ _ Hinv) _ _ _ Hfa Hneed Hvs) as (avs & Hlk & Hrel).
  assert (He' : erel p q n1 (fun y => occurs y s') (fun y => th (rho y)) (idn a :: A) (mkcb a CCns (CDecl T) :: G)
                  ((a, BK (KDtor K vs)) :: e) ((a, VObj T K avs) :: ae)).
  { eapply erel_push with (pi := fun y => th (rho y)) (need := fun y => occurs y (FsCut (FsMu c1 a s' t1) (CDecl T) (FsXtor c2 K args t2))).
    - eapply erel_weaken; [exact He | lia | auto | apply incl_refl].
    - exact Hpa.
    - intros b0 _ Hb. split; [occ | reflexivity].
    - rewrite (inv_self p _ _ _ _ _ Hinv Hua Hia). reflexivity.
    - eapply VR_dtor; eauto; [eapply codata_is_codata; eauto | eapply vrels_le; [|exact Hrel]; lia]. }
  destruct (IH n1 ltac:(lia) s' k lbl _ rho th st next st' _ _ _ (inv_push p _ _ _ _ _ CCns (CDecl T) Hinv Hua Hia) Hcs Hub Hib (nc_cut_mu_l _ _ _ _ _ _ _ Hnc) E1 Hpf Hlift He' _ _ Hrun' Hg) as [m Hm].
  exists (S m). cbn [arn exec_named shrink_ty ty_name shrink_identifier]. rewrite vars_arn_shrink_rn, Hlk. exact Hm.
Qed.

(* <K(args) | a>  =  invoke a K(args) *)
Lemma fl_invoke_ctor : forall n, IHn n -> forall c1 K args t1 ty c2 b t2,
  FLs p q n (FsCut (FsXtor c1 K args t1) ty (FsXVar c2 b t2)).
Proof.
  intros n IH c1 K args t1 ty c2 b t2. start. cbn [rn_stmt rn_term shrink_step shrink_cut] in Hsh. unfold shrink_identifier in Hsh.
  invsh Hsh.
  rewrite check_stmt_cut_eq in Hck. apply seq_none in Hck as [Hty Hck]. apply seq_none in Hck as [Hcp Hck].
  destruct (xtor_typing p _ _ _ _ _ _ _ Hcp) as (T & d & sg & -> & Hd & Hx & Hfa).
  cbn [check_term] in Hck. apply seq_none in Hck as [_ Hck]. apply seq_none in Hck as [_ Hcb].
  cbn [CoreSem.fs2c_stmt CoreSem.fs2c_term] in Hrun. core_step Hrun Hg n.
  apply start_args_eval in Hrun as (n1 & vs & Hle & Hvs & Hrun); [|exact Hg]. cbn [CoreSem.finish_args cont] in Hrun.
  core_step Hrun Hg n1. cbn [CoreSem.khead] in Hrun.
  destruct (CoreSem.clookup e b) as [cv|] eqn:Hl; [|exfalso; eapply cont_stuck; eauto].
  destruct (erel_var p q _ _ _ _ _ _ _ _ _ _ _ He (inv_nd _ _ _ _ _ Hinv) Hcb ltac:(occ) Hl) as (HinA & av & Hla & Hv).
  destruct (vrel_kind_bk _ _ _ _ _ _ Hv) as [kv ->].
  assert (Hco : is_codata codata (CDecl T) = false) by (eapply data_not_codata; eauto).
  destruct (vrel_clo_inv _ _ _ _ _ _ _ Hv Hco) as (tn & cls & ce & -> & Hc).
  assert (Hneed : forall b0, In b0 args -> occurs (cbvar b0) (FsCut (FsXtor c1 K args t1) (CDecl T) (FsXVar c2 b t2))).
  { intros b0 Hb. cbn [occurs occ_term]. left. now apply occ_args. }
  destruct (args_rel p q _ _ _ _ _ _ _ _ He (inv_nd _ _ _ _ _ Hinv) _ _ _ Hfa Hneed Hvs) as (avs & Hlk & Hrel).
  eapply cloR_le with (k := S n1) in Hc; [|lia].
  destruct (invoke_clo p q n1 CCns (CDecl T) (BK kv) tn cls ce K avs (CoreSem.interact_val (PCtor K vs) kv) out r Hc)
    as (cl & e1 & m & Hf & Hb & Hm); [| exact Hrun | exact Hg |].
  { split; [exact Hco|]. exists d, sg, vs. repeat split; auto. apply relsV_vrelsF. eapply vrels_le; [|exact Hrel]. lia. }
  exists (S m). cbn [arn exec_named shrink_identifier]. unfold lookup_id. rewrite Hla, Hf, vars_arn_shrink_rn, Hlk, Hb. exact Hm.
Qed.

(* <x | D(args)>  =  invoke x D(args) *)
Lemma fl_invoke_dtor : forall n, IHn n -> forall c1 x t1 ty c2 K args t2,
  FLs p q n (FsCut (FsXVar c1 x t1) ty (FsXtor c2 K args t2)).
Proof.
  intros n IH c1 x t1 ty c2 K args t2. start. cbn [rn_stmt rn_term shrink_step shrink_cut] in Hsh. unfold shrink_identifier in Hsh.
  invsh Hsh.
  rewrite check_stmt_cut_eq in Hck. apply seq_none in Hck as [Hty Hck]. apply seq_none in Hck as [Hcp Hck].
  destruct (xtor_typing p _ _ _ _ _ _ _ Hck) as (T & d & sg & -> & Hd & Hx & Hfa).
  cbn [check_term] in Hcp. apply seq_none in Hcp as [_ Hcp]. apply seq_none in Hcp as [_ Hcx].
  cbn [CoreSem.fs2c_stmt CoreSem.fs2c_term] in Hrun. core_step Hrun Hg n.
  apply start_args_eval in Hrun as (n1 & vs & Hle & Hvs & Hrun); [|exact Hg]. cbn [CoreSem.finish_args cont] in Hrun.
  core_step Hrun Hg n1. cbn [CoreSem.cut_with_k] in Hrun.
  destruct (CoreSem.clookup e x) as [cv|] eqn:Hl; [|exfalso; eapply cont_stuck; eauto].
  destruct (erel_var p q _ _ _ _ _ _ _ _ _ _ _ He (inv_nd _ _ _ _ _ Hinv) Hcx ltac:(occ) Hl) as (HinA & av & Hla & Hv).
  destruct (vrel_kind_bp _ _ _ _ _ _ Hv) as [pv ->].
  assert (Hco : is_codata codata (CDecl T) = true) by (eapply codata_is_codata; eauto).
  destruct (vrel_clo_inv _ _ _ _ _ _ _ Hv Hco) as (tn & cls & ce & -> & Hc).
  assert (Hneed : forall b0, In b0 args -> occurs (cbvar b0) (FsCut (FsXVar c1 x t1) (CDecl T) (FsXtor c2 K args t2))).
  { intros b0 Hb. cbn [occurs occ_term]. right. now apply occ_args. }
  destruct (args_rel p q _ _ _ _ _ _ _ _ He (inv_nd _ _ _ _ _ Hinv) _ _ _ Hfa Hneed Hvs) as (avs & Hlk & Hrel).
  eapply cloR_le with (k := S n1) in Hc; [|lia].
  destruct (invoke_clo p q n1 CPrd (CDecl T) (BP pv) tn cls ce K avs (CoreSem.interact_val pv (KDtor K vs)) out r Hc)
    as (cl & e1 & m & Hf & Hb & Hm); [| exact Hrun | exact Hg |].
  { split; [exact Hco|]. exists d, sg, vs. repeat split; auto. apply relsV_vrelsF. eapply vrels_le; [|exact Hrel]. lia. }
  exists (S m). cbn [arn exec_named shrink_identifier]. unfold lookup_id. rewrite Hla, Hf, vars_arn_shrink_rn, Hlk, Hb. exact Hm.
Qed.
End CasesD.
