(* ======================================================================================
   Proof/Fun2CoreTyTerm  -  the remaining term forms (destructor, case, new, label, goto, exit,
   parentheses) and the induction:  [tw_all : forall t, TW t /\ TC t].
   ====================================================================================== *)
From Coq Require Import List ZArith NArith String Bool Lia.
From SCC Require Import Base.Sexp Lang.SynUtil Lang.FunSyn Lang.FunTy Lang.CoreSyn.
From SCC Require Import Sem.AxSem Sem.FunSem Sem.FsCheck Sem.CoreCheck Model.Fun2Core Model.Fun2CoreGuard Model.Fun2CoreTyGuard.
From SCC Require Import Proof.Fun2CoreProof Proof.Fun2CoreTfv Proof.Fun2CoreInv Proof.CoreTyRules Proof.CoreTyFv
     Proof.Fun2CoreTyBase Proof.Fun2CoreTyShare Proof.Fun2CoreTyMain.
Import ListNotations.
Open Scope string_scope.
Open Scope list_scope.

Arguments var_ok : simpl never.

Section Term.
  Variable p : fcprog.
  Variable defs : list cdef.
  Variable cur : string.
  Variable U : list string.
  Notation D := (cdata_of p).
  Notation C := (ccodata_of p).
  Notation cd := (f_is_codata p).
  Notation wc' := (wc C cur false).
  Notation cmp' := (cmp C cur false).
  Notation ct := (ccheck_term D C defs).
  Notation cs := (ccheck_stmt D C defs).
  Notation tg := (tg p D C).
  Notation tg_args := (tg_args p D C).
  Notation tg_clauses := (tg_clauses p D C).
  Notation tg_coclauses := (tg_coclauses p D C).
  Notation tyd := (tyd D C).
  Notation ann_ok := (ann_ok D C).
  Notation KT := (KT D C defs U).
  Notation agree := (agree U).
  Notation gen := (gen U).
  Notation tyd_fv := (tyd_fv D C).
  Notation def_typed := (def_typed D C defs).
  Notation Hfind := (Hfind defs).
  Notation args_typed := (args_typed D C defs).
  Notation clause_typed := (clause_typed D C defs).
  Notation TW := (TW p defs cur U).
  Notation TC := (TC p defs cur U).
  Notation lifted_ok := (lifted_ok p defs).

  Hypothesis Hcallee : forall f d, ffind_def p f = Some d -> (f <> "main" \/ calls_main_prog p = true) ->
    exists a body, find (fun d' => cident_eqb (cdname d') (new_id f)) defs =
                   Some (mkcd (new_id f) (compile_ctx (fdctx d) ++ [mkcb (new_id a) CCns (compile_ty (fdret d))]) body).

  Lemma all_GE : forall (l : list fterm), Forall (GE p D C) l.
  Proof. intros l. apply Forall_forall. intros t _. apply tg_ext. Qed.

  Lemma tw_dtor : forall scrut x targs args ty, TW scrut -> Forall TC args -> TW (FDtor scrut x targs args ty).
  Proof.
    intros scrut x targs args ty Hsc Ha G S cont t st s st' H Hg Hty Htd Hfv Hbd HS HU HK Hf. rewrite wc_unfold in H.
    apply wc_dtor_inv in H. destruct H as [args' [st1 [sty0 [Es [Esty Ew]]]]].
    rewrite tg_dtor in Hg. apply andb_prop in Hg. destruct Hg as [Hgs Hg].
    assert (Etyo : tyo scrut = Some (compile_ty sty0)) by (unfold tyo; rewrite Esty; reflexivity).
    rewrite Etyo in Hg. destruct (compile_ty sty0) as [|n] eqn:En; [discriminate|].
    destruct (find_decl C n) as [d|] eqn:Ed; [|discriminate]. destruct (find_cxtor d (new_id x)) as [sg|] eqn:Esg; [|discriminate].
    destruct (split_last (cxargs sg)) as [[pre last]|] eqn:Esl; [|discriminate]. apply split_last_spec in Esl.
    apply andb_prop in Hg. destruct Hg as [Hg Hhas]. apply andb_prop in Hg. destruct Hg as [Hga Hchi]. apply ceq_chi in Hchi.
    apply has_ty_tyo in Hhas. rewrite Hty in Hhas. injection Hhas as ->.
    rewrite fv_dtor in Hfv. simpl in Hbd.
    assert (Ga : grows st st1) by (eapply args_grows; exact Es).
    assert (Gs : grows st1 st') by (eapply wc_grows; exact Ew).
    set (S' := flat_map fv_fterm args ++ S) in *.
    assert (Hargs : forall G', same_on (flat_map fv_fterm args) G' G ->
              args_typed G' args' pre /\ tyd_fv (fva args') /\ lifted_ok st st1).
    { intros G' Hso. apply (tw_args p defs cur U args Ha G' pre st args' st1 Es); auto.
      - rewrite <- Hga. apply ge_args; [apply all_GE | exact Hso].
      - exact (incl_app_r _ _ _ _ Hfv).
      - exact (incl_app_r _ _ _ _ Hbd).
      - eapply Hfind_grows; eassumption. }
    destruct (Hsc G S' (CXtor CCns (new_id x) (args' ++ [CConsumer cont]) (CDecl n)) (CDecl n) st1 s st' Ew Hgs Etyo) as [W1 W2]; auto.
    { eapply find_codata_tyd; exact Ed. }
    { eapply incl_tran; [exact (incl_app_l _ _ _ _ Hfv) | apply used_grows; exact Ga]. }
    { exact (incl_app_l _ _ _ _ Hbd). }
    { eapply incl_tran; [|apply used_grows; exact Ga]. unfold S'. apply incl_app; [exact (incl_app_r _ _ _ _ Hfv) | exact HS]. }
    { eapply incl_tran; [exact HU | apply used_grows; exact Ga]. }
    { intros G' Hag. apply ct_xtor. repeat split. exists n, d, sg. repeat split; auto. rewrite Esl.
      apply args_typed_snoc.
      - apply (Hargs G'). intros z Hz. apply Hag. left. unfold S'. apply in_or_app. left. exact Hz.
      - unfold arg_typed. rewrite Hchi. apply HK. eapply agree_mono; [exact Hag | apply used_grows; exact Ga|].
        unfold S'. apply incl_appr. apply incl_refl. }
    split; [exact W1|]. intros Hc.
    destruct (Hargs G (fun z _ => eq_refl)) as [_ [A2 A3]].
    assert (Hcx : tyd_fv (fvt (CXtor CCns (new_id x) (args' ++ [CConsumer cont]) (CDecl n)))).
    { intros bb Hbb. apply fvt_xtor in Hbb. apply fva_app in Hbb. destruct Hbb as [Hbb|Hbb]; [apply A2; exact Hbb|].
      apply fva_cons in Hbb. destruct Hbb as [Hbb|Hbb]; [apply Hc; exact Hbb | apply fva_nil in Hbb; contradiction]. }
    destruct (W2 Hcx) as [W3 W4]. split; [exact W3 | eapply lifted_ok_trans; eassumption].
  Qed.

  Lemma tw_case_in : forall scrut targs cls ty, TW scrut -> Forall (fun c => TW (clause_body c)) cls ->
    TWin p defs U (FCase scrut targs cls ty) (flat_map cl_names cls)
      (wc_case cur (wc' scrut) (fterm_type scrut) (List.length cls) (fun cont' => clauses_with (fun b => wc' b) cont' cls)).
  Proof.
    intros scrut targs cls ty Hsc Hcl G S cont t st s st' H Hcap Hg Hty Htd Hfv Hbd HS HU HK Hf.
    apply wc_case_inv in H. destruct H as [cont1 [st0 [cls' [st1 [sty0 [Hsh [Ec [Esty Ew]]]]]]]].
    rewrite tg_case in Hg. apply andb_prop in Hg. destruct Hg as [Hgs Hg].
    assert (Etyo : tyo scrut = Some (compile_ty sty0)) by (unfold tyo; rewrite Esty; reflexivity).
    rewrite Etyo in Hg. destruct (compile_ty sty0) as [|n] eqn:En; [discriminate|].
    destruct (find_decl D n) as [d|] eqn:Ed; [|discriminate].
    unfold tyo in Hty. simpl in Hty. apply tyo_ann in Hty. destruct Hty as [ty0 [-> ->]].
    assert (Hrc : captures (flat_map cl_names cls) cont1 = false).
    { destruct (Nat.leb (List.length cls) 1 || cont_is_small cont).
      - destruct Hsh as [-> _]. exact Hcap.
      - eapply captures_sub; [|exact Hcap].
        apply (proj2 (Fun2CoreUB.share_fvt cur cont st cont1 st0 Hsh (ct_cont_cns D C defs G _ cont (KT_here D C defs U _ _ _ _ _ HK)))). }
    rewrite fv_case in Hfv. simpl in Hbd. fold (flat_map cl_bnd cls) in Hbd.
    assert (G1 : grows st0 st1) by (eapply clauses_grows; exact Ec).
    assert (Gs : grows st1 st') by (eapply wc_grows; exact Ew).
    destruct (cont1_ok p defs cur U _ cont cont1 st st0 (compile_ty ty0) G S Hsh HK Htd HS HU) as [G0 [HK1 Hc1]].
    { eapply Hfind_grows; [|exact Hf]. eapply grows_trans; eassumption. }
    set (S' := flat_map (cont_cl S) cls) in *.
    destruct (tw_clauses p defs cur U cls Hcl G S cont1 ty0 n (ctxtors d) st0 cls' st1 Ec Hg Htd Hrc) as [M1 [M2 M3]]; auto.
    { eapply incl_tran; [exact (incl_app_r _ _ _ _ Hfv) | apply used_grows; exact G0]. }
    { exact (incl_app_r _ _ _ _ Hbd). }
    { eapply incl_tran; [exact HS | apply used_grows; exact G0]. }
    { eapply incl_tran; [exact HU | apply used_grows; exact G0]. }
    { eapply Hfind_grows; eassumption. }
    assert (HS' : incl S' (st_used_vars st)).
    { intros z Hz. unfold S' in Hz. apply in_flat_map in Hz. destruct Hz as [[pl x names ctx body] [Hc Hz]].
      unfold cont_cl in Hz. apply remove_all_In in Hz. destruct Hz as [Hz Hn]. apply in_app_or in Hz.
      destruct Hz as [Hz|Hz]; [|apply HS; exact Hz]. apply Hfv. apply in_or_app. right. apply in_flat_map.
      exists (FClause pl x names ctx body). split; [exact Hc|]. unfold fv_cl. apply remove_all_In. split; assumption. }
    assert (Ust1 : incl (st_used_vars st) (st_used_vars st1)).
    { eapply incl_tran; [apply used_grows; exact G0 | apply used_grows; exact G1]. }
    destruct (Hsc G S' (CXCase CCns cls' (CDecl n)) (CDecl n) st1 s st' Ew Hgs Etyo) as [W1 W2]; auto.
    { eapply find_data_tyd; exact Ed. }
    { eapply incl_tran; [exact (incl_app_l _ _ _ _ Hfv) | exact Ust1]. }
    { exact (incl_app_l _ _ _ _ Hbd). }
    { eapply incl_tran; [exact HS' | exact Ust1]. }
    { eapply incl_tran; [exact HU | exact Ust1]. }
    { intros G' Hag. apply ct_xcase. repeat split. exists n, d. repeat split; auto.
      apply (M2 G' st1 (incl_refl _) Hag). }
    split; [exact W1|]. intros Hc. destruct (Hc1 Hc) as [Hc1' L0]. destruct (M3 Hc1') as [M4 M5].
    assert (Hcx : tyd_fv (fvt (CXCase CCns cls' (CDecl n)))).
    { intros bb Hbb. apply fvt_xcase in Hbb. apply M4. exact Hbb. }
    destruct (W2 Hcx) as [W3 W4]. split; [exact W3|].
    eapply lifted_ok_trans; [exact L0|]. eapply lifted_ok_trans; eassumption.
  Qed.
  Lemma tw_case : forall scrut targs cls ty, TW scrut -> Forall (fun c => TW (clause_body c)) cls -> TW (FCase scrut targs cls ty).
  Proof.
    intros scrut targs cls ty Hsc Hcl.
    eapply (tw_guard p defs cur U); [| |apply tw_case_in; assumption].
    - intros cont. rewrite wc_unfold. reflexivity.
    - reflexivity.
  Qed.

  Lemma new_ok : forall cls ty, Forall (fun c => TW (clause_body c)) cls -> forall G t st cls' st',
    coclauses_with (fun b => wc' b) cls st = Ok (cls', st') ->
    tg G (FNew cls ty) = true -> tyo (FNew cls ty) = Some t ->
    incl (fv_fterm (FNew cls ty)) (st_used_vars st) -> incl (bnd (FNew cls ty)) U -> incl U (st_used_vars st) ->
    Hfind (st_lifted st') ->
    ct G CPrd t (CXCase CPrd cls' t) = None /\ tyd t = true /\ tyd_fv (fvc cls') /\ lifted_ok st st'.
  Proof.
    intros cls ty Hcl G t st cls' st' Ec Hg Hty Hfv Hbd HU Hf.
    rewrite tg_new, Hty in Hg. destruct t as [|n]; [discriminate|].
    destruct (find_decl C n) as [d|] eqn:Ed; [|discriminate].
    rewrite fv_new in Hfv. simpl in Hbd. fold (flat_map cl_bnd cls) in Hbd.
    destruct (tw_coclauses p defs cur U cls Hcl G n (ctxtors d) st cls' st' Ec Hg) as [M1 [M2 [M3 M4]]]; auto.
    split; [|split; [eapply find_codata_tyd; exact Ed | split; assumption]].
    apply ct_xcase. repeat split. exists n, d. repeat split; assumption.
  Qed.
  Lemma tc_new : forall cls ty, Forall (fun c => TW (clause_body c)) cls -> TC (FNew cls ty).
  Proof.
    intros cls ty Hcl G t st c st' H Hg Hty Htd Hfv Hbd HU Hf. rewrite cmp_unfold in H.
    apply cmp_new_inv in H. destruct H as [cls' [ty0 [Ec [-> ->]]]].
    pose proof Hty as Hty'. unfold tyo in Hty'. simpl in Hty'. injection Hty' as <-.
    destruct (new_ok cls (Some ty0) Hcl G _ st cls' st' Ec Hg Hty) as [C1 [_ [C3 C4]]]; auto.
  Qed.
  Lemma tw_new : forall cls ty, Forall (fun c => TW (clause_body c)) cls -> TW (FNew cls ty).
  Proof.
    intros cls ty Hcl G S cont t st s st' H Hg Hty Htd Hfv Hbd HS HU HK Hf. rewrite wc_unfold in H.
    apply wc_new_inv in H. destruct H as [cls' [ty0 [Ec [-> ->]]]].
    pose proof Hty as Hty'. unfold tyo in Hty'. simpl in Hty'. injection Hty' as <-.
    destruct (new_ok cls (Some ty0) Hcl G _ st cls' st' Ec Hg Hty) as [C1 [_ [C3 C4]]]; auto.
    split.
    - apply cs_cut. split; [exact Htd|]. split; [exact C1 | eapply KT_here; exact HK].
    - intros Hc. split; [|exact C4]. intros bb Hbb. apply fvs_cut in Hbb. destruct Hbb as [Hbb|Hbb]; [|apply Hc; exact Hbb].
      apply fvt_xcase in Hbb. apply C3. exact Hbb.
  Qed.

  Lemma label_ok : forall l t' ty, TW t' -> forall G t st s0 st',
    wc' t' (CXVar CCns (new_id l) t) st = Ok (s0, st') ->
    tg G (FLabel l t' ty) = true -> tyo (FLabel l t' ty) = Some t ->
    incl (fv_fterm (FLabel l t' ty)) (st_used_vars st) -> incl (bnd (FLabel l t' ty)) U -> incl U (st_used_vars st) ->
    Hfind (st_lifted st') ->
    ct G CPrd t (CMu CPrd (new_id l) s0 t) = None /\ tyd t = true /\ tyd_fv (fvs s0) /\ lifted_ok st st'.
  Proof.
    intros l t' ty Ht G t st s0 st' Ew Hg Hty Hfv Hbd HU Hf.
    rewrite tg_label in Hg. unfold tyo in Hty. simpl in Hty. apply tyo_ann in Hty. destruct Hty as [ty0 [-> ->]].
    apply andb_prop in Hg. destruct Hg as [Hg Hh]. apply andb_prop in Hg. destruct Hg as [Htd Hgt]. apply has_ty_tyo in Hh.
    simpl in Hfv, Hbd.
    assert (HlU : In l U) by (apply Hbd; left; reflexivity).
    set (lb := mkcb (new_id l) CCns (compile_ty ty0)).
    destruct (Ht (lb :: G) [l] (CXVar CCns (new_id l) (compile_ty ty0)) (compile_ty ty0) st s0 st' Ew Hgt Hh Htd) as [W1 W2]; auto.
    { intros z Hz. destruct (string_dec z l) as [->|Hne]; [apply HU; exact HlU|].
      apply Hfv. apply remove_all_In. split; [exact Hz|]. intros [E|[]]. congruence. }
    { exact (incl_cons_r _ _ _ _ Hbd). }
    { intros z [<-|[]]. apply HU. exact HlU. }
    { intros G' Hag. apply ct_var. repeat split. rewrite (Hag l (or_introl (or_introl eq_refl))).
      rewrite clookup_cons. cbn [cbvar lb]. rewrite ceq_id_refl. reflexivity. }
    destruct (W2 (tyd_fv_var p _ _ _ Htd)) as [W3 W4].
    split; [|split; [exact Htd | split; assumption]]. apply ct_mu. repeat split. exact W1.
  Qed.
  Lemma tc_label : forall l t' ty, TW t' -> TC (FLabel l t' ty).
  Proof.
    intros l t' ty Ht G t st c st' H Hg Hty Htd Hfv Hbd HU Hf. rewrite cmp_unfold in H.
    apply cmp_label_inv in H. destruct H as [ty0 [s0 [-> [Ew ->]]]].
    pose proof Hty as Hty'. unfold tyo in Hty'. simpl in Hty'. injection Hty' as <-.
    destruct (label_ok l t' (Some ty0) Ht G _ st s0 st' Ew Hg Hty) as [C1 [_ [C3 C4]]]; auto.
    split; [exact C1|]. split; [|exact C4]. intros bb Hbb. apply fvt_mu_1 in Hbb. apply C3. exact Hbb.
  Qed.
  Lemma tw_label : forall l t' ty, TW t' -> TW (FLabel l t' ty).
  Proof.
    intros l t' ty Ht G S cont t st s st' H Hg Hty Htd Hfv Hbd HS HU HK Hf. rewrite wc_unfold in H.
    apply wc_label_inv in H. destruct H as [ty0 [s0 [-> [Ew ->]]]].
    pose proof Hty as Hty'. unfold tyo in Hty'. simpl in Hty'. injection Hty' as <-.
    destruct (label_ok l t' (Some ty0) Ht G _ st s0 st' Ew Hg Hty) as [C1 [_ [C3 C4]]]; auto.
    split.
    - apply cs_cut. split; [exact Htd|]. split; [exact C1 | eapply KT_here; exact HK].
    - intros Hc. split; [|exact C4]. intros bb Hbb. apply fvs_cut in Hbb. destruct Hbb as [Hbb|Hbb]; [|apply Hc; exact Hbb].
      apply fvt_mu_1 in Hbb. apply C3. exact Hbb.
  Qed.

  Lemma tw_goto : forall l t' ty, TW t' -> TW (FGoto l t' ty).
  Proof.
    intros l t' ty Ht G S cont t st s st' H Hg Hty Htd Hfv Hbd HS HU HK Hf. rewrite wc_unfold in H.
    apply wc_goto_inv in H. destruct H as [ty0 [Et Ew]].
    rewrite tg_goto in Hg. apply andb_prop in Hg. destruct Hg as [Hg Hgt]. apply andb_prop in Hg. destruct Hg as [Hv Han].
    rewrite Et in Hv, Han. simpl in Han. apply var_ok_look in Hv. destruct Hv as [ty1 [E Hv]]. injection E as <-.
    simpl in Hfv, Hbd.
    assert (Etyo : tyo t' = Some (compile_ty ty0)) by (unfold tyo; rewrite Et; reflexivity).
    destruct (Ht G [l] (CXVar CCns (new_id l) (compile_ty ty0)) (compile_ty ty0) st s st' Ew Hgt Etyo Han) as [W1 W2]; auto.
    { exact (incl_cons_r _ _ _ _ Hfv). }
    { intros z [<-|[]]. apply Hfv. left. reflexivity. }
    { intros G' Hag. apply ct_var. repeat split. rewrite (Hag l (or_introl (or_introl eq_refl))). exact Hv. }
    split; [exact W1|]. intros _. apply W2. apply tyd_fv_var. exact Han.
  Qed.

  Lemma tw_exit : forall a ty, TC a -> TW (FExit a ty).
  Proof.
    intros a ty Ha G S cont t st s st' H Hg Hty Htd Hfv Hbd HS HU HK Hf. rewrite wc_unfold in H.
    apply wc_exit_inv in H. destruct H as [a' [ty0 [Ea [-> ->]]]].
    rewrite tg_exit in Hg. apply andb_prop in Hg. destruct Hg as [Hg Han]. apply andb_prop in Hg. destruct Hg as [Hga Hh].
    apply has_ty_tyo in Hh. simpl in Han, Hfv, Hbd.
    destruct (Ha G CI64 st a' st' Ea Hga Hh eq_refl) as [A1 [A2 A3]]; auto.
    split.
    - apply cs_exit. split; assumption.
    - intros _. split; [|exact A3]. intros bb Hbb. apply fvs_exit in Hbb. apply A2. exact Hbb.
  Qed.

  (* ---------- the induction ---------- *)
  Theorem tw_all : forall t, TW t /\ TC t.
  Proof.
    induction t using fterm_ind'.
    - split; [apply tw_var | apply tc_var].
    - split; [apply tw_lit | apply tc_lit].
    - destruct IHt1 as [_ C1], IHt2 as [_ C2]. split; [apply tw_op | apply tc_op]; assumption.
    - destruct IHt1 as [_ C1], IHt2 as [W2 _], IHt3 as [W3 _].
      assert (HB : opt_P TC b) by (destruct b; simpl in *; [apply H | exact I]).
      assert (HW : TW (FIfC s t1 b t2 t3 ty)) by (apply tw_ifc; assumption).
      split; [exact HW|]. intros G ty0 st c st' H0. rewrite cmp_unfold in H0.
      eapply (tc_default p defs cur U (FIfC s t1 b t2 t3 ty)); [|exact HW|exact H0]. intros cont. rewrite wc_unfold. reflexivity.
    - destruct IHt1 as [_ C1], IHt2 as [W2 _].
      assert (HW : TW (FPrint nl t1 t2 ty)) by (apply tw_print; assumption).
      split; [exact HW|]. intros G ty0 st c st' H0. rewrite cmp_unfold in H0.
      eapply (tc_default p defs cur U (FPrint nl t1 t2 ty)); [|exact HW|exact H0]. intros cont. rewrite wc_unfold. reflexivity.
    - destruct IHt1 as [W1 C1], IHt2 as [W2 _].
      assert (HW : TW (FLet v vty t1 t2 ty)) by (apply tw_let; assumption).
      split; [exact HW|]. intros G ty0 st c st' H0. rewrite cmp_unfold in H0.
      eapply (tc_default p defs cur U (FLet v vty t1 t2 ty)); [|exact HW|exact H0]. intros cont. rewrite wc_unfold. reflexivity.
    - assert (HA : Forall TC args) by (eapply Forall_impl; [|exact H]; intros a [_ Ca]; exact Ca).
      assert (HW : TW (FCall f args ret)) by (apply tw_call; assumption).
      split; [exact HW|]. intros G ty0 st c st' H0. rewrite cmp_unfold in H0.
      eapply (tc_default p defs cur U (FCall f args ret)); [|exact HW|exact H0]. intros cont. rewrite wc_unfold. reflexivity.
    - assert (HA : Forall TC args) by (eapply Forall_impl; [|exact H]; intros a [_ Ca]; exact Ca).
      split; [apply tw_ctor | apply tc_ctor]; assumption.
    - destruct IHt as [Ws _].
      assert (HA : Forall TC args) by (eapply Forall_impl; [|exact H]; intros a [_ Ca]; exact Ca).
      assert (HW : TW (FDtor t x targs args ty)) by (apply tw_dtor; assumption).
      split; [exact HW|]. intros G ty0 st c st' H0. rewrite cmp_unfold in H0.
      eapply (tc_default p defs cur U (FDtor t x targs args ty)); [|exact HW|exact H0]. intros cont. rewrite wc_unfold. reflexivity.
    - destruct IHt as [Ws _].
      assert (HB : Forall (fun c => TW (clause_body c)) cls) by (eapply Forall_impl; [|exact H]; intros a [Wa _]; exact Wa).
      assert (HW : TW (FCase t targs cls ty)) by (apply tw_case; assumption).
      split; [exact HW|]. intros G ty0 st c st' H0. rewrite cmp_unfold in H0.
      eapply (tc_default p defs cur U (FCase t targs cls ty)); [|exact HW|exact H0]. intros cont. rewrite wc_unfold. reflexivity.
    - assert (HB : Forall (fun c => TW (clause_body c)) cls) by (eapply Forall_impl; [|exact H]; intros a [Wa _]; exact Wa).
      split; [apply tw_new | apply tc_new]; assumption.
    - destruct IHt as [W _]. split; [apply tw_label | apply tc_label]; assumption.
    - destruct IHt as [W _].
      assert (HW : TW (FGoto l t ty)) by (apply tw_goto; assumption).
      split; [exact HW|]. intros G ty0 st c st' H0. rewrite cmp_unfold in H0.
      eapply (tc_default p defs cur U (FGoto l t ty) (fun _ => wc_goto false l (wc' t) ty (fterm_type t))); [|exact HW|exact H0].
      intros cont. rewrite wc_unfold. reflexivity.
    - destruct IHt as [_ Ca].
      assert (HW : TW (FExit t ty)) by (apply tw_exit; assumption).
      split; [exact HW|]. intros G ty0 st c st' H0. rewrite cmp_unfold in H0.
      eapply (tc_default p defs cur U (FExit t ty) (fun _ => wc_exit (cmp' t CI64) ty)); [|exact HW|exact H0].
      intros cont. rewrite wc_unfold. reflexivity.
    - destruct IHt as [W Ca]. split.
      + intros G S cont ty st s st' H0. rewrite wc_unfold in H0. exact (W G S cont ty st s st' H0).
      + intros G ty st c st' H0. rewrite cmp_unfold in H0. exact (Ca G ty st c st' H0).
  Qed.
End Term.
