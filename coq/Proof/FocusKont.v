(* C03, semantic preservation, part 1: the meta-level continuations of Model/Focus.v by name.

   Every `fun binding max_id => ...` closure that `Bind`/`Focusing` (focus.rs) builds is given a
   name here ([opL_k], [opR_k], [many_k], ...), parameterised by the continuations it captures, and
   the defining equations of [bind_term]/[focus_stmt] are restated with these names (all by
   [reflexivity]: the names are convertible with the text of Model/Focus.v).  The simulation
   (Proof/FocusRel.v, Proof/FocusSim.v) relates the machine continuations [mk] of Sem/CoreSem.v to
   these named continuations. *)
From Coq Require Import List ZArith NArith String Bool Lia.
From SCC Require Import Base.Sexp Lang.CoreSyn Model.Backend Model.Uniquify Model.Focus.
Import ListNotations.
Open Scope list_scope.

Definition bind_many := bind_many_with bind_arg.

(* ---------- continuations taking one binding ---------- *)
(* op.rs: after both operands *)
Definition opR_k (b1 : cbinding) (o : cbinop) (k : kont) : kont :=
  fun b2 mb =>
    let '(x, m1) := fresh_var mb in
    dor (s, m2) <- k (mkcb x CPrd CI64) m1;
    Ok (FsCut (FsOp (cbvar b1) o (cbvar b2)) CI64 (FsMu CCns x s CI64), m2).
(* op.rs: after the first operand *)
Definition opL_k (b : cterm) (o : cbinop) (k : kont) : kont :=
  fun b1 ma => bind_term CPrd b (opR_k b1 o k) ma.

(* cut.rs, arm (Op, consumer) *)
Definition cutopR_k (b1 : cbinding) (o : cbinop) (ty : cty) (q : cterm) : kont :=
  fun b2 mb => dor (q', m1) <- focus_term CCns q mb; Ok (FsCut (FsOp (cbvar b1) o (cbvar b2)) ty q', m1).
Definition cutopL_k (b : cterm) (o : cbinop) (ty : cty) (q : cterm) : kont :=
  fun b1 ma => bind_term CPrd b (cutopR_k b1 o ty q) ma.

(* ifc.rs *)
Definition if2_k (so : cifsort) (b1 : cbinding) (t e : cstmt) : kont :=
  fun b2 mb =>
    dor (t', m1) <- focus_stmt t mb;
    dor (e', m2) <- focus_stmt e m1;
    Ok (FsIfC so (cbvar b1) (Some (cbvar b2)) t' e', m2).
Definition if1_k (so : cifsort) (b : option cterm) (t e : cstmt) : kont :=
  fun b1 ma =>
    match b with
    | None =>
        dor (t', m1) <- focus_stmt t ma;
        dor (e', m2) <- focus_stmt e m1;
        Ok (FsIfC so (cbvar b1) None t' e', m2)
    | Some b0 => bind_term CPrd b0 (if2_k so b1 t e) ma
    end.
(* print.rs, exit.rs *)
Definition print_k (nl : bool) (next : cstmt) : kont :=
  fun b1 ma => dor (n', m1) <- focus_stmt next ma; Ok (FsPrint nl (cbvar b1) n', m1).
Definition exit_k : kont := fun b1 ma => Ok (FsExit (cbvar b1), ma).

(* ---------- continuations taking the vector of bindings ---------- *)
(* bind_many: |bindings| { bindings.push_front(binding); k(bindings) } *)
Definition cons_kv (b : cbinding) (kv : kontv) : kontv := fun bs m2 => kv (b :: bs) m2.
(* bind_many: |binding| bind_many(rest, ...) *)
Definition many_k (r : list carg) (kv : kontv) : kont := fun b m1 => bind_many r (cons_kv b kv) m1.

(* xtor.rs *)
Definition xtorP_kv (c' : cchi) (x : cident) (ty : cty) (k : kont) : kontv :=
  fun bs mb =>
    let '(nv, m1) := fresh_var mb in
    dor (sk, m2) <- k (mkcb nv CPrd ty) m1;
    Ok (FsCut (FsXtor c' x bs ty) ty (FsMu CCns nv sk ty), m2).
Definition xtorK_kv (c' : cchi) (x : cident) (ty : cty) (k : kont) : kontv :=
  fun bs mb =>
    let '(na, m1) := fresh_covar mb in
    dor (sk, m2) <- k (mkcb na CCns ty) m1;
    Ok (FsCut (FsMu CPrd na sk ty) ty (FsXtor c' x bs ty), m2).
(* cut.rs, arms (Xtor, consumer) and (producer, Xtor) *)
Definition cutP_kv (pc : cchi) (px : cident) (ty : cty) (q : cterm) : kontv :=
  fun bs mb => dor (q', m1) <- focus_term CCns q mb; Ok (FsCut (FsXtor pc px bs ty) ty q', m1).
Definition cutK_kv (qc : cchi) (qx : cident) (ty : cty) (p : cterm) : kontv :=
  fun bs mb => dor (p', m1) <- focus_term CPrd p mb; Ok (FsCut p' ty (FsXtor qc qx bs ty), m1).
(* call.rs *)
Definition call_kv (f : cident) : kontv := fun bs mb => Ok (FsCall f bs, mb).

(* ---------- the equations of Model/Focus.v with these names ---------- *)
Lemma bind_many_nil : forall kv m, bind_many [] kv m = kv [] m.
Proof. reflexivity. Qed.
Lemma bind_many_cons : forall a r kv m, bind_many (a :: r) kv m = bind_arg a (many_k r kv) m.
Proof. reflexivity. Qed.

Lemma bind_arg_prd : forall p k m, bind_arg (CProducer p) k m = bind_term CPrd p k m.
Proof. reflexivity. Qed.
Lemma bind_arg_cns : forall p k m, bind_arg (CConsumer p) k m = bind_term CCns p k m.
Proof. reflexivity. Qed.

Lemma bind_xvar : forall c c' v ty k m, bind_term c (CXVar c' v ty) k m = k (mkcb v c ty) m.
Proof. reflexivity. Qed.
Lemma bind_lit : forall n k m,
  bind_term CPrd (CLit n) k m =
  (dor (s, m2) <- k (mkcb ("x"%string, m + 1)%N CPrd CI64) (m + 1)%N;
   Ok (FsCut (FsLit n) CI64 (FsMu CCns ("x"%string, m + 1)%N s CI64), m2)).
Proof. reflexivity. Qed.
Lemma bind_op : forall a o b k m, bind_term CPrd (COp a o b) k m = bind_term CPrd a (opL_k b o k) m.
Proof. reflexivity. Qed.
Lemma bind_mu_prd : forall c' v s ty k m,
  bind_term CPrd (CMu c' v s ty) k m =
  (dor (s', m2) <- focus_stmt s (m + 1)%N;
   dor (sk, m3) <- k (mkcb ("x"%string, m + 1)%N CPrd ty) m2;
   Ok (FsCut (FsMu c' v s' ty) ty (FsMu CCns ("x"%string, m + 1)%N sk ty), m3)).
Proof. reflexivity. Qed.
Lemma bind_mu_cns : forall c' v s ty k m,
  bind_term CCns (CMu c' v s ty) k m =
  (dor (sk, m2) <- k (mkcb ("a"%string, m + 1)%N CCns ty) (m + 1)%N;
   dor (s', m3) <- focus_stmt s m2;
   Ok (FsCut (FsMu CPrd ("a"%string, m + 1)%N sk ty) ty (FsMu c' v s' ty), m3)).
Proof. reflexivity. Qed.
Lemma bind_xtor_prd : forall c' x args ty k m,
  bind_term CPrd (CXtor c' x args ty) k m = bind_many args (xtorP_kv c' x ty k) m.
Proof. reflexivity. Qed.
Lemma bind_xtor_cns : forall c' x args ty k m,
  bind_term CCns (CXtor c' x args ty) k m = bind_many args (xtorK_kv c' x ty k) m.
Proof. reflexivity. Qed.
Lemma bind_xcase_prd : forall c' cls ty k m,
  bind_term CPrd (CXCase c' cls ty) k m =
  (dor (sk, m2) <- k (mkcb ("x"%string, m + 1)%N CPrd ty) (m + 1)%N;
   dor (cls', m3) <- maprs focus_clause cls m2;
   Ok (FsCut (FsXCase c' cls' ty) ty (FsMu CCns ("x"%string, m + 1)%N sk ty), m3)).
Proof. reflexivity. Qed.
Lemma bind_xcase_cns : forall c' cls ty k m,
  bind_term CCns (CXCase c' cls ty) k m =
  (dor (sk, m2) <- k (mkcb ("a"%string, m + 1)%N CCns ty) (m + 1)%N;
   dor (cls', m3) <- maprs focus_clause cls m2;
   Ok (FsCut (FsMu CPrd ("a"%string, m + 1)%N sk ty) ty (FsXCase c' cls' ty), m3)).
Proof. reflexivity. Qed.

Lemma focus_cut_xtorP : forall pc px pargs pty ty q m,
  focus_stmt (CCut (CXtor pc px pargs pty) ty q) m = bind_many pargs (cutP_kv pc px ty q) m.
Proof. reflexivity. Qed.
Definition not_xtor (t : cterm) : Prop := match t with CXtor _ _ _ _ => False | _ => True end.
Lemma focus_cut_xtorK : forall p ty qc qx qargs qty m, not_xtor p ->
  focus_stmt (CCut p ty (CXtor qc qx qargs qty)) m = bind_many qargs (cutK_kv qc qx ty p) m.
Proof. intros p; destruct p; simpl; intros; try reflexivity; contradiction. Qed.
Lemma focus_cut_op : forall a o b ty q m, not_xtor q ->
  focus_stmt (CCut (COp a o b) ty q) m = bind_term CPrd a (cutopL_k b o ty q) m.
Proof. intros a o b ty q; destruct q; simpl; intros; try reflexivity; contradiction. Qed.
Definition head_prd (t : cterm) : Prop := match t with CXtor _ _ _ _ | COp _ _ _ => False | _ => True end.
Lemma focus_cut_heads : forall p ty q m, head_prd p -> not_xtor q ->
  focus_stmt (CCut p ty q) m =
  (dor (p', m1) <- focus_term CPrd p m; dor (q', m2) <- focus_term CCns q m1; Ok (FsCut p' ty q', m2)).
Proof.
  intros p ty q m Hp Hq. destruct p; try contradiction; destruct q; try contradiction; reflexivity.
Qed.
Lemma focus_ifc : forall so a b t e m, focus_stmt (CIfC so a b t e) m = bind_term CPrd a (if1_k so b t e) m.
Proof. intros. destruct b; reflexivity. Qed.
Lemma focus_print : forall nl a next m, focus_stmt (CPrint nl a next) m = bind_term CPrd a (print_k nl next) m.
Proof. reflexivity. Qed.
Lemma focus_call : forall f args ty m, focus_stmt (CCall f args ty) m = bind_many args (call_kv f) m.
Proof. reflexivity. Qed.
Lemma focus_exit : forall a ty m, focus_stmt (CExit a ty) m = bind_term CPrd a exit_k m.
Proof. reflexivity. Qed.

Lemma focus_term_xvar : forall c c' v ty m, focus_term c (CXVar c' v ty) m = Ok (FsXVar c' v ty, m).
Proof. reflexivity. Qed.
Lemma focus_term_mu : forall c c' v s ty m,
  focus_term c (CMu c' v s ty) m = (dor (s', m1) <- focus_stmt s m; Ok (FsMu c' v s' ty, m1)).
Proof. reflexivity. Qed.
Lemma focus_term_xcase : forall c c' cls ty m,
  focus_term c (CXCase c' cls ty) m = (dor (cls', m1) <- maprs focus_clause cls m; Ok (FsXCase c' cls' ty, m1)).
Proof. reflexivity. Qed.
Lemma focus_clause_eq : forall c' x ctx body m,
  focus_clause (CClause c' x ctx body) m = (dor (b', m1) <- focus_stmt body m; Ok (FsClause c' x ctx b', m1)).
Proof. reflexivity. Qed.

(* ---------- inversion of the result monad ---------- *)
Lemma rbind_ok : forall (X Y : Type) (r : res X) (f : X -> res Y) y,
  rbind r f = Ok y -> exists x, r = Ok x /\ f x = Ok y.
Proof. intros X Y [x|msg] f y H; simpl in H; [eauto | discriminate]. Qed.

Ltac rinv H :=
  let x := fresh "x" in let E := fresh "E" in
  apply rbind_ok in H; destruct H as (x & E & H); try (destruct x as [? ?]).
Ltac okinv H := inversion H; subst; clear H.
