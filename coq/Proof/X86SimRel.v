(* C06, forward simulation of the x86-64 code generator, part 1: the state relation between a
   configuration of the linear AxCut machine and a state of Sem/X86Sem.v (integer fragment: every
   variable is `ext i64`, its value lives in the SECOND temporary of its position), the footprint of
   straight-line code (what code that never names rsp as a destination and stores only into the spill
   area leaves alone), and execution inside an image up to a final observation. *)
From Coq Require Import List ZArith NArith String Bool Lia FMapPositive.
From SCC Require Import Base.Sexp Lang.AxSyn Sem.AxSem Model.ParMoves Model.Backend Model.X86 Sem.X86Sem Sem.X86Wf
     Generated.Constants Proof.X86State Proof.X86Sel Proof.X86Exec Proof.X86ParMoves Proof.SubstGraph Proof.X86Subst.
From SCC Require Export Proof.SimFrag.   (* the fragments and the back-end independent lemmas *)
Import ListNotations.
Open Scope Z_scope.
Open Scope list_scope.
(* names that lived in this file before they moved to Proof/SimFrag.v (kept for qualified uses) *)
Notation is_int_binding := SimFrag.is_int_binding (only parsing).
Notation ctx_int := SimFrag.ctx_int (only parsing).
Notation lookup_nth := SimFrag.lookup_nth (only parsing).
Notation nth_lookup := SimFrag.nth_lookup (only parsing).
Notation env_ctx_nth := SimFrag.env_ctx_nth (only parsing).
Notation nth_error_mid := SimFrag.nth_error_mid (only parsing).

(* ---------- what straight-line code leaves alone ---------- *)
(* everything but registers, flags and spill slots: heap, output, the stack outside the spill
   area (in particular the words above it, where the prologue saved the callee-saved registers) *)
Definition frame_eq (s s' : xstate) (sp : Z) : Prop :=
  heap s' = heap s /\ out s' = out s /\
  (forall k, (forall p, slot_ok p -> k <> key (slot_addr sp p)) -> PM.find k (stack s') = PM.find k (stack s)).
Lemma frame_eq_refl s sp : frame_eq s s sp.
Proof. repeat split; auto. Qed.
Lemma frame_eq_trans s1 s2 s3 sp : frame_eq s1 s2 sp -> frame_eq s2 s3 sp -> frame_eq s1 s3 sp.
Proof.
  intros (A1 & C1 & E1) (A2 & C2 & E2). repeat split; try congruence.
  intros k Hk. rewrite E2, E1; auto.
Qed.
Lemma same_frame_eq s s' sp : same_frame s s' sp -> frame_eq s s' sp.
Proof. intros (A & B & _ & _ & E). repeat split; auto. Qed.
Lemma frame_eq_rset s sp r v : frame_eq s (rset s r v) sp.
Proof. repeat split; auto. Qed.
Lemma frame_eq_set_flags s sp f : frame_eq s (set_flags s f) sp.
Proof. repeat split; auto. Qed.
Lemma frame_eq_sset s sp p v : slot_ok p -> frame_eq s (sset s sp p v) sp.
Proof. intros P. apply same_frame_eq. now apply same_frame_sset. Qed.

(* an offset from rsp that addresses a spill slot *)
Definition slot_off (i : Z) : bool := (0 <=? i) && (i <? SPILL_SPACE) && (i mod 8 =? 0).
Lemma slot_off_inv i : slot_off i = true -> exists p, slot_ok p /\ i = stack_offset p.
Proof.
  unfold slot_off. rewrite !andb_true_iff, Z.leb_le, Z.ltb_lt, Z.eqb_eq. intros [[A B] C].
  change SPILL_SPACE with 2048 in *.
  exists (Z.to_N ((2048 - i) / 8 - 1)). unfold slot_ok, stack_offset. change SPILL_NUM with 256%N. change SPILL_SPACE with 2048.
  assert (E : i = 8 * (i / 8)) by (rewrite (Z.div_mod i 8) at 1 by lia; lia).
  assert (Q : (2048 - i) / 8 = 256 - i / 8).
  { rewrite E at 1. replace (2048 - 8 * (i / 8)) with ((256 - i / 8) * 8) by lia. apply Z.div_mul. lia. }
  rewrite Q. assert (0 <= i / 8 < 256) by (split; [apply Z.div_pos; lia|apply Z.div_lt_upper_bound; lia]).
  split; [lia|]. rewrite Z2N.id by lia. lia.
Qed.
Lemma slot_off_stack_offset p : slot_ok p -> slot_off (stack_offset p) = true.
Proof.
  unfold slot_ok, slot_off, stack_offset. change SPILL_NUM with 256%N. change SPILL_SPACE with 2048. intros P.
  rewrite !andb_true_iff, Z.leb_le, Z.ltb_lt, Z.eqb_eq. repeat split; try lia.
  replace (2048 - 8 * (Z.of_N p + 1)) with ((255 - Z.of_N p) * 8) by lia. apply Z.mod_mul. lia.
Qed.

(* instructions that do not name rsp as a destination, store only into the spill area and neither push,
   pop, call nor return *)
Definition nz (a : reg) : bool := negb (N.eqb a 0).
Definition local_instr (c : xcode) : bool :=
  match c with
  | ADD a _ | ADDRM a _ _ | ADDI a _ | SUB a _ | SUBRM a _ _ | SUBI a _ | IMUL a _ | IMULRM a _ _
  | MOV a _ | MOVL a _ _ | MOVI a _ | LEAL a _ => nz a
  | ADDMR b i _ | SUBMR b i _ | IMULMR b i _ | MOVS _ b i | ADDIM b i _ | MOVIM b i _ => N.eqb b 0 && slot_off i
  | PUSH _ | POP _ | CALL _ | RET => false
  | _ => true
  end.
Definition local_code (cs : list xcode) : bool := forallb local_instr cs.
Lemma local_code_app a b : local_code (a ++ b) = local_code a && local_code b.
Proof. apply forallb_app. Qed.

Definition sres (r : step_res) : option xstate :=
  match r with Next s | Jump s _ | Undefd _ s => Some s | _ => None end.

Lemma frame_ok_rset' s sp r v : nz r = true -> frame_ok s sp -> frame_ok (rset s r v) sp.
Proof. unfold nz. intros H. apply frame_ok_rset. destruct (N.eqb_spec r 0); [discriminate|assumption]. Qed.

Ltac fe_done :=
  first [ assumption
        | (split; [first [assumption | apply frame_ok_set_flags; apply frame_ok_rset'; assumption
                         | apply frame_ok_rset'; assumption | apply frame_ok_set_flags; assumption
                         | apply frame_ok_set_flags; apply frame_ok_sset; assumption | apply frame_ok_sset; assumption ]
                  | repeat split; auto ]) ].

Lemma arith_rr_local f s a b sp s' :
  nz a = true -> frame_ok s sp -> sres (arith_rr f s a b) = Some s' -> frame_ok s' sp /\ frame_eq s s' sp.
Proof.
  intros NZ F. unfold arith_rr, need. destruct (rget s a); [|discriminate]. destruct (rget s b); [|discriminate].
  cbn [sres]. intros E; inversion E; subst. split; [apply frame_ok_set_flags, frame_ok_rset'; auto|repeat split; auto].
Qed.
Lemma arith_rm_local f s a b i sp s' :
  nz a = true -> frame_ok s sp -> sres (arith_rm f s a b i) = Some s' -> frame_ok s' sp /\ frame_eq s s' sp.
Proof.
  intros NZ F. unfold arith_rm, ea, withm; unfold need. destruct (rget s a); [|discriminate].
  repeat match goal with
         | |- sres (match ?x with _ => _ end) = _ -> _ => destruct x eqn:?; cbn [sres]; try discriminate
         | |- sres (if ?x then _ else _) = _ -> _ => destruct x eqn:?; cbn [sres]; try discriminate
         end.
  all: intros E; inversion E; subst; (split; [apply frame_ok_set_flags, frame_ok_rset'; auto|repeat split; auto]).
Qed.
Lemma ea_slot s sp i k : frame_ok s sp -> slot_off i = true -> exists p, slot_ok p /\ ea s 0%N i k = k (slot_addr sp p).
Proof.
  intros F O. destruct (slot_off_inv i O) as (p & P & ->). exists p. split; [exact P|].
  apply (ea_stack s sp p k F P).
Qed.
Lemma arith_mr_local f s i b sp s' :
  slot_off i = true -> frame_ok s sp -> sres (arith_mr f s 0%N i b) = Some s' -> frame_ok s' sp /\ frame_eq s s' sp.
Proof.
  intros O F. unfold arith_mr. destruct (ea_slot s sp i
    (fun ad => withm (mload s ad) s (fun v => need v "undef-operand" (fun x =>
       need (rget s b) "undef-operand" (fun y => withm (mstore s ad (Some (wrap (f x y)))) s (fun s'0 =>
         Next (set_flags s'0 None))) s) s)) F O) as (p & P & ->).
  unfold withm, need. rewrite mload_slot by auto. destruct (sget s sp p); [|discriminate].
  destruct (rget s b); [|discriminate]. rewrite mstore_slot by auto. cbn [sres]. intros E; inversion E; subst.
  split; [apply frame_ok_set_flags, frame_ok_sset; auto|].
  eapply frame_eq_trans; [apply frame_eq_sset; exact P|apply frame_eq_set_flags].
Qed.

Ltac crunch :=
  repeat match goal with
         | |- sres (match ?x with _ => _ end) = _ -> _ => destruct x eqn:?; cbn [sres]; try discriminate
         | |- sres (if ?x then _ else _) = _ -> _ => destruct x eqn:?; cbn [sres]; try discriminate
         end.
Ltac fin F :=
  let E := fresh "E" in
  cbn [sres]; intros E; inversion E; subst;
  (split; [repeat first [exact F | apply frame_ok_set_flags | apply frame_ok_sset | apply frame_ok_rset'; [assumption|]
                         | apply frame_ok_rset; [discriminate|] ]
          | repeat first [ apply frame_eq_refl | apply frame_eq_rset | apply frame_eq_set_flags | (apply frame_eq_sset; assumption)
                         | (eapply frame_eq_trans; [apply frame_eq_sset; eassumption|])
                         | (eapply frame_eq_trans; [apply frame_eq_rset|])
                         | (eapply frame_eq_trans; [apply frame_eq_set_flags|]) ] ]).

Lemma step_local im c s sp s' :
  local_instr c = true -> frame_ok s sp -> sres (step im c s) = Some s' -> frame_ok s' sp /\ frame_eq s s' sp.
Proof.
  intros L F.
  destruct c; cbn [local_instr] in L; try discriminate; cbn [step];
    try (apply andb_true_iff in L as [L0 L1]; apply N.eqb_eq in L0; subst).
  - now apply arith_rr_local.
  - now apply arith_rm_local.
  - now apply arith_mr_local.
  - unfold need. crunch. fin F.
  - destruct (fits32 j); [|discriminate].
    destruct (ea_slot s sp i (fun ad : Z =>
      withm (mload s ad) s (fun v : option Z => need v "undef-operand" (fun x : Z =>
        withm (mstore s ad (Some (wrap (x + j)))) s (fun s'0 : xstate => Next (set_flags s'0 None))) s)) F L1) as (p & P & ->).
    unfold withm, need. rewrite mload_slot by auto. destruct (sget s sp p); [|discriminate]. rewrite mstore_slot by auto. fin F.
  - now apply arith_rr_local.
  - now apply arith_rm_local.
  - now apply arith_mr_local.
  - unfold need. crunch. fin F.
  - now apply arith_rr_local.
  - now apply arith_rm_local.
  - now apply arith_mr_local.
  - unfold need, ea, withm; unfold need. crunch. all: fin F.
  - unfold need, ea, withm; unfold need. crunch. all: fin F.
  - unfold need, ea, withm; unfold need. crunch. all: fin F.
  - unfold need, goto_addr. crunch. fin F.
  - unfold goto_label. crunch. fin F.
  - unfold goto_label. crunch. fin F.
  - crunch. fin F.
  - fin F.
  - destruct (ea_slot s sp i (fun ad : Z => withm (mstore s ad (rget s a)) s Next) F L1) as (p & P & ->).
    unfold withm. rewrite mstore_slot by auto. fin F.
  - unfold need, ea, withm; unfold need. crunch. all: fin F.
  - fin F.
  - destruct (fits32 j); [|discriminate].
    destruct (ea_slot s sp i (fun ad : Z => withm (mstore s ad (Some j)) s Next) F L1) as (p & P & ->).
    unfold withm. rewrite mstore_slot by auto. fin F.
  - unfold need, ea, withm; unfold need. crunch. all: fin F.
  - unfold need, ea, withm; unfold need. crunch. all: fin F.
  - unfold need, ea, withm; unfold need. crunch. all: fin F.
  - unfold need, ea, withm; unfold need. crunch. all: fin F.
  - unfold need, ea, withm; unfold need. crunch. all: fin F.
  - unfold cond_jump, goto_label. crunch. all: fin F.
  - unfold cond_jump, goto_label. crunch. all: fin F.
  - unfold cond_jump, goto_label. crunch. all: fin F.
  - unfold cond_jump, goto_label. crunch. all: fin F.
  - unfold cond_jump, goto_label. crunch. all: fin F.
  - unfold cond_jump, goto_label. crunch. all: fin F.
  - fin F.
  - fin F.
  - fin F.
  - fin F.
  - fin F.
Qed.

Lemma exec_straight_local im cs : forall s sp s',
  local_code cs = true -> frame_ok s sp -> exec_straight im cs s = Some s' -> frame_ok s' sp /\ frame_eq s s' sp.
Proof.
  induction cs as [|c cs IH]; intros s sp s' L F E; cbn in *.
  - inversion E; subst. split; [exact F|apply frame_eq_refl].
  - apply andb_true_iff in L as [L0 L1]. destruct (step im c s) as [s1| | | |] eqn:St; try discriminate.
    destruct (step_local im c s sp s1 L0 F) as [F1 E1]; [now rewrite St|].
    destruct (IH s1 sp s' L1 F1 E) as [F2 E2]. split; [exact F2|eapply frame_eq_trans; eauto].
Qed.

(* ---------- execution inside an image up to the final observation ---------- *)
Definition finishes (im : image) (pc : positive) (s : xstate) (o : obs) : Prop :=
  exists n sf, run_chunk n im pc s = Finished o sf.

Lemma exec_to_finishes im pc s pc' s' o : exec_to im pc s pc' s' -> finishes im pc' s' o -> finishes im pc s o.
Proof.
  induction 1 as [pc s|pc c s s1 pc' s' Hc Hs _ IH|pc c s s1 i pc' s' Hc Hs _ IH]; intros Fin; auto.
  - destruct (IH Fin) as (n & sf & Hn). exists (S n), sf. cbn [run_chunk]. now rewrite Hc, Hs.
  - destruct (IH Fin) as (n & sf & Hn). exists (S n), sf. cbn [run_chunk]. now rewrite Hc, Hs.
Qed.
Lemma finishes_run im pc s o : finishes im pc s o -> exists outer inner, fst (run outer inner im pc s) = o.
Proof. intros (n & sf & Hn). exists 1%nat, n. cbn [run]. now rewrite Hn. Qed.
Lemma finishes_undef im pc c s w s' :
  PM.find pc (code im) = Some c -> step im c s = Undefd w s' -> finishes im pc s (finish (out s') (OUndef w)).
Proof. intros Hc Hs. exists 1%nat, s'. cbn [run_chunk]. now rewrite Hc, Hs. Qed.
Lemma finishes_done im pc c s s' :
  PM.find pc (code im) = Some c -> step im c s = Done s' -> finishes im pc s (finish (out s') (final_check s')).
Proof. intros Hc Hs. exists 1%nat, s'. cbn [run_chunk]. now rewrite Hc, Hs. Qed.

(* jumping to a label that sits in placed code.  Only labels that do not start with '#' are required
   to resolve to their own position: these are the labels whose uniqueness the assembler-level check
   `asm_wf` (Sem/X86Wf.v) establishes on the real output. *)
Definition labels_at_nh (im : image) (pc : positive) (cs : list xcode) : Prop :=
  forall j l, nth_error cs j = Some (LAB l) -> is_hash_label l = false -> find_label (labels im) l = Some (padd pc j).
Lemma labels_at_nh_app im pc a b :
  labels_at_nh im pc (a ++ b) <-> labels_at_nh im pc a /\ labels_at_nh im (padd pc (List.length a)) b.
Proof.
  unfold labels_at_nh. split.
  - intros H. split.
    + intros j c Hj. apply H. rewrite nth_error_app1; auto. apply nth_error_Some. congruence.
    + intros j c Hj. rewrite <- padd_add. apply H. rewrite nth_error_app2 by lia.
      replace (List.length a + j - List.length a)%nat with j by lia. exact Hj.
  - intros [Ha Hb] j c Hj. destruct (Nat.lt_ge_cases j (List.length a)) as [L|L].
    + apply Ha. now rewrite nth_error_app1 in Hj.
    + rewrite nth_error_app2 in Hj by lia. intros NH. apply Hb in Hj; [|exact NH]. rewrite <- padd_add in Hj.
      now replace (List.length a + (j - List.length a))%nat with j in Hj by lia.
Qed.
Lemma labels_at_weaken im pc cs : labels_at im pc cs -> labels_at_nh im pc cs.
Proof. intros H j l Hj _. exact (H j l Hj). Qed.
Lemma goto_label_at im pc cs j l s :
  labels_at_nh im pc cs -> nth_error cs j = Some (LAB l) -> is_hash_label l = false -> goto_label im s l = Jump s (padd pc j).
Proof. intros LA H NH. unfold goto_label. now rewrite (LA j l H NH). Qed.
Lemma code_at_nth im pc cs j c : code_at im pc cs -> nth_error cs j = Some c -> PM.find (padd pc j) (code im) = Some c.
Proof. intros CA H. exact (CA j c H). Qed.

(* ---------- the state relation ---------- *)
(* is_int_binding, ctx_int, lookup_nth, nth_lookup, env_ctx_nth: Proof/SimFrag.v *)


(* a variable temporary is usable by every selection lemma *)
Lemma xtpos_ok n i t : xtpos n i = Ok t -> loc_ok t /\ t <> XR TEMP /\ t <> XS SPILL_TEMP /\ t <> XR FREE /\ t <> XR HEAP.
Proof. intros H. destruct (xtpos_var_temp n i t H) as ((A & B & C) & D & E). auto. Qed.
Lemma xtpos_snd_not_rax i t : xtpos Snd i = Ok t -> t <> XR RETURN1.
Proof.
  unfold tpos, x86_backend, x86_backend_with, b_temporary_from_position, temporary_from_position, tnum_n.
  change RESERVED with 4%N. change REGISTER_NUM with 16%N. change RETURN1 with 4%N.
  destruct (N.ltb_spec (2 * N.of_nat i + 1 + 4) 16).
  - intros E X. assert (Q : (2 * N.of_nat i + 1 + 4 = 4)%N) by congruence. lia.
  - destruct (N.ltb _ _); intros E; inversion E; subst. discriminate.
Qed.
Lemma xtpos_snd_rdx i t : xtpos Snd i = Ok t -> t = XR RETURN2 -> i = O.
Proof.
  unfold tpos, x86_backend, x86_backend_with, b_temporary_from_position, temporary_from_position, tnum_n.
  change RESERVED with 4%N. change REGISTER_NUM with 16%N. change RETURN2 with 5%N.
  destruct (N.ltb_spec (2 * N.of_nat i + 1 + 4) 16).
  - intros E X. assert (Q : (2 * N.of_nat i + 1 + 4 = 5)%N) by congruence. lia.
  - destruct (N.ltb _ _); intros E; inversion E; subst. discriminate.
Qed.
Lemma vt_of_nth c c' i b :
  NoDup (ids (c ++ c')) -> nth_error c i = Some b ->
  variable_temporary x86_backend Snd (c ++ c') (idn (bvar b)) = xtpos Snd i.
Proof.
  intros ND H. apply vt_tpos; auto. rewrite nth_error_app1; auto. apply nth_error_Some. congruence.
Qed.
Lemma vt_of_nth0 c i b :
  NoDup (ids c) -> nth_error c i = Some b -> variable_temporary x86_backend Snd c (idn (bvar b)) = xtpos Snd i.
Proof. intros ND H. now apply vt_tpos. Qed.

Section Rel.
(* what a closure's code pointer points to: (address, type name, clauses); fixed by the program-level
   development (Proof/X86SimProg.v); the statement-level lemmas never look inside *)
Variable CL : Z -> ident -> list clause -> Prop.

(* how the value of position i is represented:
   - an integer (binding `ext i64`): the SECOND temporary of the position holds it;
   - a closure without captured variables (binding `cns T`): the first temporary holds the null block
     pointer, the second one the address of the closure's jump table / single clause *)
Inductive vrep (s : xstate) (sp : Z) (i : nat) : binding -> value -> Prop :=
| vrep_int b z t :
    bchi b = Ext -> bty b = I64 -> xtpos Snd i = Ok t -> lget s sp t = Some z -> vrep s sp i b (VInt z)
| vrep_clo b tn cls a t1 t2 :
    bchi b = Cns -> bty b = Decl tn ->
    xtpos Fst i = Ok t1 -> xtpos Snd i = Ok t2 -> lget s sp t1 = Some 0 -> lget s sp t2 = Some a ->
    CL a tn cls -> vrep s sp i b (VClo tn cls []).

Record rel (c : ctx) (e : env) (s : xstate) (sp : Z) : Prop := mk_rel {
  rel_frame : frame_ok s sp;
  rel_align : sp mod 16 = 8;                 (* the body runs with rsp = 8 mod 16 *)
  rel_room : STACK_LIMIT + 128 <= sp;        (* room for the pushes around a print call *)
  rel_free : exists f, rget s FREE = Some f; (* the deferred-free list register is defined *)
  rel_ids : env_ids e = ids c;
  rel_nodup : NoDup (ids c);
  rel_vals : forall i x v, nth_error e i = Some (x, v) -> exists b, nth_error c i = Some b /\ vrep s sp i b v
}.

Lemma rel_length c e s sp : rel c e s sp -> List.length e = List.length c.
Proof.
  intros R. pose proof (rel_ids _ _ _ _ R) as H. apply (f_equal (@List.length N)) in H.
  unfold env_ids, ids in H. now rewrite !map_length in H.
Qed.

Lemma vrep_keep s s' sp i b v :
  (forall n t, allowed n b -> xtpos n i = Ok t -> lget s' sp t = lget s sp t) -> vrep s sp i b v -> vrep s' sp i b v.
Proof.
  intros K V. destruct V as [b z t A B T L|b tn cls a t1 t2 A B T1 T2 L1 L2 C].
  - eapply vrep_int; eauto. rewrite (K Snd _ (or_introl eq_refl) T). exact L.
  - assert (AL : forall n, allowed n b) by (intros n; right; congruence).
    eapply vrep_clo; eauto; [now rewrite (K _ _ (AL Fst) T1)|now rewrite (K _ _ (AL Snd) T2)].
Qed.

(* reading an operand: the machine's lookup and the generator's variable_temporary meet *)
Lemma rel_lookup c e s sp a x :
  rel c e s sp -> lookup_int e a = Some x ->
  exists i b t, nth_error c i = Some b /\ idn (bvar b) = idn a /\ xtpos Snd i = Ok t /\ lget s sp t = Some x.
Proof.
  intros R H. unfold lookup_int, lookup_id in H. destruct (AxSem.lookup e (idn a)) as [[z| |]|] eqn:L; try discriminate.
  inversion H; subst z. destruct (lookup_nth e (idn a) (VInt x) L) as (i & y & Hn & Hy).
  destruct (env_ctx_nth c e i y _ (rel_ids _ _ _ _ R) Hn) as (b & Hb & Eb).
  destruct (rel_vals _ _ _ _ R i y _ Hn) as (b' & Hb' & V). assert (b' = b) by congruence. subst b'.
  inversion V; subst. exists i, b, t. repeat split; auto. congruence.
Qed.

(* a state change that keeps every live variable location (and rbp) keeps the relation; the first
   temporary of an integer variable is not live *)
Lemma rel_keep c e s s' sp :
  rel c e s sp -> frame_ok s' sp -> rget s' FREE = rget s FREE ->
  (forall i b n t, nth_error c i = Some b -> allowed n b -> xtpos n i = Ok t -> lget s' sp t = lget s sp t) ->
  rel c e s' sp.
Proof.
  intros R F FR K. destruct R as [F0 Al Ro Fr Ids ND Vals]. split; auto.
  - now rewrite FR.
  - intros i x v Hn. destruct (Vals i x v Hn) as (b & Hb & V). exists b. split; [exact Hb|].
    eapply vrep_keep; [|exact V]. intros n t AL T. apply (K i b n t); auto.
Qed.

(* extending the environment by a new last integer variable whose temporary has been written *)
Lemma rel_push c e s s' sp v z t :
  rel c e s sp -> NoDup (ids (c ++ [mkb v Ext I64])) ->
  xtpos Snd (List.length c) = Ok t -> lget s' sp t = Some z -> preserved s s' sp t ->
  rel (c ++ [mkb v Ext I64]) (e ++ [(v, VInt z)]) s' sp.
Proof.
  intros R ND Ht Hv (PR & _ & _ & F').
  pose proof (rel_length _ _ _ _ R) as LEN. destruct R as [F0 Al Ro Fr Ids ND0 Vals]. split; auto.
  - destruct Fr as (f & Fr). exists f. rewrite <- Fr. apply (PR (XR FREE)); [cbn; discriminate| |discriminate].
    intros E; subst t. destruct (xtpos_ok _ _ _ Ht) as (_ & _ & _ & N & _). congruence.
  - unfold env_ids, ids in *. rewrite !map_app, Ids. reflexivity.
  - intros i x w Hn. destruct (Nat.lt_ge_cases i (List.length e)) as [L|L].
    + rewrite nth_error_app1 in Hn by exact L. destruct (Vals i x w Hn) as (b & Hb & V).
      exists b. split; [rewrite nth_error_app1 by lia; exact Hb|].
      eapply vrep_keep; [|exact V]. intros n t0 _ T0.
      destruct (xtpos_ok _ _ _ T0) as (A & B & _). apply PR; auto.
      intros E; subst t0. destruct (tpos_inj x86_backend x86_backend_ok _ _ _ _ _ T0 Ht) as [_ E]. lia.
    + rewrite nth_error_app2 in Hn by exact L. destruct (i - List.length e)%nat as [|k] eqn:K; cbn in Hn; [|destruct k; discriminate].
      inversion Hn; subst. exists (mkb x Ext I64). split.
      * rewrite nth_error_app2 by lia. replace (i - List.length c)%nat with O by lia. reflexivity.
      * eapply vrep_int; eauto. replace i with (List.length c) by lia. exact Ht.
Qed.
End Rel.
Arguments rel_frame {CL c e s sp}.
Arguments rel_align {CL c e s sp}.
Arguments rel_room {CL c e s sp}.
Arguments rel_free {CL c e s sp}.
Arguments rel_ids {CL c e s sp}.
Arguments rel_nodup {CL c e s sp}.
Arguments rel_vals {CL c e s sp}.
Arguments rel_length {CL c e s sp}.
