(* C06: a concrete program of the closure fragment (the shape the pipeline produces for a tail-recursive
   integer function: `main` creates the return continuation and calls `f`, which loops and finally invokes
   the continuation; plus a closure of a codata type with two destructors, entered through its jump
   table), on which every hypothesis of x86_codegen_simulates_cf is evaluated and both sides computed. *)
From Coq Require Import List ZArith NArith String Bool.
From SCC Require Import Base.Sexp Lang.AxSyn Sem.AxSem Model.Backend Model.X86 Sem.X86Sem Sem.X86Wf
     Model.Linearize Model.LinCheck Proof.X86SimRel Proof.X86SimAddr Proof.X86SimClo Proof.X86SimProg Proof.X86SimProgC
     Proof.X86SimTop Proof.X86SimTopC Proof.X86SimExample.
Import ListNotations.
Open Scope string_scope.
Open Scope Z_scope.

Definition cb (s : string) (n : N) (t : string) : binding := mkb (id_ s n) Cns (Decl (id_ t 0)).
Definition t_cont : tydecl := mkt (id_ "_Cont" 0) [mkx (id_ "Ret" 0) [ib "x" 0]].
Definition t_two : tydecl := mkt (id_ "Two" 0) [mkx (id_ "A" 0) [ib "x" 0]; mkx (id_ "B" 0) [ib "y" 0; ib "z" 0]].

Definition exc_main : def :=
  mkd (id_ "main" 0) [ib "x" 1]
    (Literal 0 (id_ "acc" 6)
    (Create (id_ "a" 7) (Decl (id_ "_Cont" 0)) (Some [])
       [(id_ "Ret" 0, [ib "r" 2], PrintI64 true (id_ "r" 2) (Exit (id_ "r" 2)))]
    (Create (id_ "t" 8) (Decl (id_ "Two" 0)) (Some [])
       [(id_ "A" 0, [ib "p" 9], Exit (id_ "p" 9));
        (id_ "B" 0, [ib "q" 10; ib "r" 11], Op (id_ "q" 10) Prod (id_ "r" 11) (id_ "s" 12) (Exit (id_ "s" 12)))]
    (IfC Lt (id_ "x" 1) None
       (Literal 7 (id_ "k" 9)
       (Substitute [(ib "q" 10, id_ "x" 1); (ib "r" 11, id_ "k" 9); (cb "t" 8 "Two", id_ "t" 8)]
          (Invoke (id_ "t" 8) (id_ "B" 0) (Decl (id_ "Two" 0)) [])))
       (Substitute [(ib "x" 3, id_ "x" 1); (ib "acc" 4, id_ "acc" 6); (cb "a0" 5 "_Cont", id_ "a" 7); (cb "t0" 6 "Two", id_ "t" 8)]
          (Call (id_ "f" 0) [])))))).
Definition exc_f : def :=
  mkd (id_ "f" 0) [ib "x" 3; ib "acc" 4; cb "a0" 5 "_Cont"; cb "t0" 6 "Two"]
    (IfC Eq (id_ "x" 3) None
       (Substitute [(ib "acc" 4, id_ "acc" 4); (cb "a0" 5 "_Cont", id_ "a0" 5)]
          (Invoke (id_ "a0" 5) (id_ "Ret" 0) (Decl (id_ "_Cont" 0)) []))
       (Literal 1 (id_ "one" 8)
       (Op (id_ "x" 3) Sub (id_ "one" 8) (id_ "x" 9)
       (Op (id_ "acc" 4) Sum (id_ "x" 3) (id_ "y" 10)
       (PrintI64 false (id_ "y" 10)
       (Substitute [(ib "x" 3, id_ "x" 9); (ib "acc" 4, id_ "y" 10); (cb "a0" 5 "_Cont", id_ "a0" 5); (cb "t0" 6 "Two", id_ "t0" 6)]
          (Call (id_ "f" 0) []))))))).
Definition exc_prog : prog := mkp [exc_main; exc_f] [t_cont; t_two] 20.

Definition exc_code : list xcode :=
  match x86_compile exc_prog 0 with Ok (cs, _, _) => cs | Err _ => [] end.

Lemma exc_hypotheses :
  cf_frag exc_prog = true /\ entry_int exc_prog = true /\ plain_names exc_prog = true /\ plain_types exc_prog = true /\
  lin_check_prog exc_prog = true /\
  (exists n lc', x86_compile exc_prog 0 = Ok (exc_code, n, lc')) /\ asm_wf exc_code = None /\ code_small exc_code = true.
Proof. repeat split; try (vm_compute; reflexivity). eexists _, _. vm_compute. reflexivity. Qed.

(* x = 4: f sums 4+3+2+1, printing the partial sums, then returns 10 through the continuation, which prints it;
   x = -3: the closure t is invoked at its second destructor through the jump table: -3 * 7 *)
Lemma exc_runs :
  run_linear 60 exc_prog [4] = ([(false, 4); (false, 7); (false, 9); (false, 10); (true, 10)], OExit 10) /\
  fst (run_x86 10 2000 exc_code [4]) = ([(false, 4); (false, 7); (false, 9); (false, 10); (true, 10)], OExit 10) /\
  run_linear 60 exc_prog [-3] = ([], OExit (-21)) /\
  fst (run_x86 10 2000 exc_code [-3]) = ([], OExit (-21)).
Proof. repeat split; vm_compute; reflexivity. Qed.

(* an AxCut program BEFORE linearization of the shape `shrink` produces for
     def f(x, acc) { if x == 0 { acc } else { f(x - 1, acc + x) } }   def main(x) { f(x, 0) }
   (main creates the return continuation and passes it; f invokes it); the model of the linearizer inserts the
   substitutions and the (empty) closure environment, and its output meets every x86-side hypothesis of
   C01_compile_correct_cf_partial *)
Definition exc_named : prog :=
  mkp [mkd (id_ "main" 0) [ib "x" 1]
         (Literal 0 (id_ "z" 6)
         (Create (id_ "a" 7) (Decl (id_ "_Cont" 0)) None
            [(id_ "Ret" 0, [ib "r" 2], Exit (id_ "r" 2))]
         (Call (id_ "f" 0) [ib "x" 1; ib "z" 6; cb "a" 7 "_Cont"])));
       mkd (id_ "f" 0) [ib "x" 3; ib "acc" 4; cb "k" 5 "_Cont"]
         (IfC Eq (id_ "x" 3) None
            (Invoke (id_ "k" 5) (id_ "Ret" 0) (Decl (id_ "_Cont" 0)) [ib "acc" 4])
            (Literal 1 (id_ "one" 8)
            (Op (id_ "x" 3) Sub (id_ "one" 8) (id_ "x" 9)
            (Op (id_ "acc" 4) Sum (id_ "x" 3) (id_ "y" 10)
            (Call (id_ "f" 0) [ib "x" 9; ib "y" 10; cb "k" 5 "_Cont"])))))]
      [t_cont] 10.
Definition exc_named_code : list xcode :=
  match x86_compile (linearize exc_named) 0 with Ok (cs, _, _) => cs | Err _ => [] end.
Lemma exc_named_hypotheses :
  prog_ok exc_named = true /\ cf_frag (linearize exc_named) = true /\ entry_int (linearize exc_named) = true /\
  plain_names (linearize exc_named) = true /\ plain_types (linearize exc_named) = true /\
  (exists n lc', x86_compile (linearize exc_named) 0 = Ok (exc_named_code, n, lc')) /\
  asm_wf exc_named_code = None /\ code_small exc_named_code = true /\
  run_named 100 exc_named [10] = ([], OExit 55) /\
  fst (run_x86 10 2000 exc_named_code [10]) = ([], OExit 55).
Proof. repeat split; try (vm_compute; reflexivity). eexists _, _. vm_compute. reflexivity. Qed.
