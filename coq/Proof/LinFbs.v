(* `filter_by_set` (the swap_remove loop): it is a permutation of `filter keep`, so it keeps exactly
   the live bindings, once each; a kept element that is still inside the new length keeps its
   position (in particular a kept prefix stays where it is). *)
From Coq Require Import String List ZArith NArith Bool Lia Permutation.
From SCC Require Import Base.Sexp Lang.AxSyn Model.Linearize Model.LinCheck Proof.LinBasics.
Import ListNotations.
Open Scope list_scope.
Open Scope nat_scope.

Section FbsGeneric.
  Context {X : Type} (keep : X -> bool).

  Lemma unsnoc_Some : forall (l : list X) m y, unsnoc l = Some (m, y) -> l = m ++ [y].
  Proof.
    induction l as [|x l IH]; intros m y H; simpl in *; [discriminate|].
    destruct (unsnoc l) as [[m' y']|] eqn:E.
    - inversion H; subst. rewrite (IH m' y); auto.
    - inversion H; subst. destruct l; simpl in *; auto.
      destruct (unsnoc l) as [[? ?]|]; discriminate.
  Qed.
  Lemma unsnoc_None : forall (l : list X), unsnoc l = None -> l = [].
  Proof.
    destruct l as [|x l]; simpl; auto. destruct (unsnoc l) as [[? ?]|]; discriminate.
  Qed.
  Lemma unsnoc_app : forall (m : list X) y, unsnoc (m ++ [y]) = Some (m, y).
  Proof.
    induction m as [|x m IH]; intros; simpl; auto. rewrite IH; auto.
  Qed.

  (* strip drops a suffix of elements that are not kept and ends in a kept element *)
  Lemma strip_spec : forall l : list X,
    exists tl, l = strip keep l ++ tl /\ forallb (fun x => negb (keep x)) tl = true.
  Proof.
    induction l as [|x l [tl [H1 H2]]]; simpl.
    - exists []; auto.
    - destruct (strip keep l) as [|z r] eqn:E.
      + destruct (keep x) eqn:K.
        * exists tl. simpl in H1. subst l. auto.
        * exists (x :: tl). simpl in *. subst l. rewrite K; auto.
      + exists tl. split; auto. simpl. f_equal. auto.
  Qed.
  Lemma strip_last_kept : forall (l : list X) m y, strip keep l = m ++ [y] -> keep y = true.
  Proof.
    induction l as [|x l IH]; intros m y H; simpl in *.
    - destruct m; discriminate.
    - destruct (strip keep l) as [|z r] eqn:E.
      + destruct (keep x) eqn:K.
        * destruct m as [|? [|? ?]]; simpl in H; inversion H; subst; auto.
        * destruct m; discriminate.
      + destruct m as [|x' m]; simpl in H.
        * inversion H.
        * inversion H; subst. eapply IH; eauto.
  Qed.
  Lemma strip_length : forall l : list X, length (strip keep l) <= length l.
  Proof.
    intros l. destruct (strip_spec l) as [tl [H _]]. rewrite H at 2. rewrite app_length. lia.
  Qed.
  Lemma filter_none : forall tl : list X, forallb (fun x => negb (keep x)) tl = true -> filter keep tl = [].
  Proof.
    induction tl as [|x tl IH]; simpl; auto. intros H. btrue. rewrite H. auto.
  Qed.
  Lemma strip_filter : forall l : list X, filter keep (strip keep l) = filter keep l.
  Proof.
    intros l. destruct (strip_spec l) as [tl [H1 H2]]. rewrite H1 at 2.
    rewrite filter_app, (filter_none tl H2), app_nil_r. auto.
  Qed.

  Theorem fbs_perm_gen : forall fuel (l : list X), length l <= fuel -> Permutation (fbs keep fuel l) (filter keep l).
  Proof.
    induction fuel as [|f IH]; intros l Hl.
    - destruct l; simpl in *; [constructor|lia].
    - destruct l as [|x rest]; simpl in *; [constructor|].
      destruct (keep x) eqn:K.
      + constructor. apply IH. lia.
      + rewrite <- strip_filter.
        destruct (unsnoc (strip keep rest)) as [[mid y]|] eqn:E.
        * apply unsnoc_Some in E. pose proof (strip_last_kept _ _ _ E) as Ky.
          pose proof (strip_length rest) as Hlen.
          rewrite E in *. rewrite filter_app. simpl. rewrite Ky.
          rewrite app_length in Hlen. simpl in Hlen.
          eapply Permutation_trans; [|apply Permutation_cons_append].
          constructor. apply IH. lia.
        * apply unsnoc_None in E. rewrite E. simpl. constructor.
  Qed.

  Lemma fbs_length : forall fuel (l : list X), length (fbs keep fuel l) <= length l.
  Proof.
    induction fuel as [|f IH]; intros l; simpl; [lia|].
    destruct l as [|x rest]; simpl; [lia|].
    destruct (keep x).
    - simpl. specialize (IH rest). lia.
    - destruct (unsnoc (strip keep rest)) as [[mid y]|] eqn:E; simpl; [|lia].
      apply unsnoc_Some in E. pose proof (strip_length rest) as Hlen. rewrite E, app_length in Hlen.
      simpl in Hlen. specialize (IH mid). lia.
  Qed.

  (* a kept element whose position survives stays at its position *)
  Theorem fbs_positions_gen : forall fuel (l : list X) i b,
    nth_error l i = Some b -> keep b = true -> i < length (fbs keep fuel l) ->
    nth_error (fbs keep fuel l) i = Some b.
  Proof.
    induction fuel as [|f IH]; intros l i b Hn Kb Hi; simpl in *; [lia|].
    destruct l as [|x rest]; simpl in *; [lia|].
    destruct (keep x) eqn:K.
    - destruct i as [|j]; simpl in *; auto. apply IH; auto. lia.
    - destruct i as [|j]; simpl in *.
      + inversion Hn; subst. congruence.
      + destruct (unsnoc (strip keep rest)) as [[mid y]|] eqn:E; simpl in *; [|lia].
        apply unsnoc_Some in E.
        destruct (strip_spec rest) as [tl [H1 _]]. rewrite E in H1.
        assert (Hj : j < length mid) by (pose proof (fbs_length f mid); lia).
        apply IH; auto; [|lia].
        rewrite H1 in Hn. rewrite <- app_assoc in Hn. rewrite nth_error_app1 in Hn; auto.
  Qed.

  (* a kept prefix is untouched *)
  Theorem fbs_prefix_gen : forall (pre l : list X) fuel,
    forallb keep pre = true -> fbs keep (length pre + fuel) (pre ++ l) = pre ++ fbs keep fuel l.
  Proof.
    induction pre as [|x pre IH]; intros l fuel H; simpl in *; auto.
    btrue. rewrite H. f_equal. apply IH; auto.
  Qed.

  Lemma fbs_In_gen : forall fuel (l : list X) b, length l <= fuel ->
    (In b (fbs keep fuel l) <-> In b l /\ keep b = true).
  Proof.
    intros fuel l b Hl. rewrite <- filter_In. pose proof (fbs_perm_gen fuel l Hl) as P. split; intros H.
    - eapply Permutation_in; eauto.
    - eapply Permutation_in; [apply Permutation_sym|]; eauto.
  Qed.
End FbsGeneric.

Lemma NoDup_map_filter : forall {A B} (f : A -> B) (p : A -> bool) (l : list A),
  NoDup (map f l) -> NoDup (map f (filter p l)).
Proof.
  induction l as [|x l IH]; simpl; intros H; auto.
  inversion H as [|? ? Hn Hnd]; subst.
  destruct (p x); simpl; auto. constructor; auto.
  intros Hin. apply Hn. apply in_map_iff in Hin. destruct Hin as [y [H1 H2]].
  apply filter_In in H2. apply in_map_iff. exists y; tauto.
Qed.

(* ---------- filter_by_set on contexts ---------- *)
Theorem fbs_perm : forall c s, Permutation (filter_by_set c s) (filter (keep_in s) c).
Proof. intros; unfold filter_by_set; apply fbs_perm_gen; lia. Qed.

Theorem fbs_positions : forall c s i b,
  nth_error c i = Some b -> mem (idn (bvar b)) s = true -> (i < length (filter_by_set c s))%nat ->
  nth_error (filter_by_set c s) i = Some b.
Proof. intros; unfold filter_by_set; apply fbs_positions_gen; auto. Qed.

Lemma fbs_In : forall c s b, In b (filter_by_set c s) <-> In b c /\ In (idn (bvar b)) s.
Proof.
  intros; unfold filter_by_set. rewrite fbs_In_gen by lia. unfold keep_in. rewrite mem_In. tauto.
Qed.
Lemma fbs_NoDup : forall c s, NoDup (ids c) -> NoDup (ids (filter_by_set c s)).
Proof.
  intros c s H. unfold ids.
  eapply Permutation_NoDup; [apply Permutation_sym, Permutation_map, fbs_perm|].
  apply NoDup_map_filter; auto.
Qed.
Lemma fbs_ids_In : forall c s x, In x (ids (filter_by_set c s)) <-> In x (ids c) /\ In x s.
Proof.
  intros c s x; split.
  - intros H. apply In_ids_ex in H. destruct H as [b [H1 H2]]. apply fbs_In in H1. destruct H1.
    subst; split; auto. apply In_ids; auto.
  - intros [H1 H2]. apply In_ids_ex in H1. destruct H1 as [b [H1 H3]]. subst.
    apply In_ids. apply fbs_In; auto.
Qed.
Lemma fbs_lookup : forall c s x, NoDup (ids c) ->
  lookup_b (filter_by_set c s) x = if mem x s then lookup_b c x else None.
Proof.
  intros c s x Hnd. destruct (mem x s) eqn:M.
  - apply mem_In in M. destruct (lookup_b c x) eqn:E.
    + apply lookup_b_Some in E. destruct E as [E1 E2]. subst x.
      apply lookup_b_In; [apply fbs_NoDup; auto|]. apply fbs_In; auto.
    + apply lookup_b_None. apply lookup_b_None in E. rewrite fbs_ids_In. tauto.
  - apply mem_false in M. apply lookup_b_None. rewrite fbs_ids_In. tauto.
Qed.
Lemma fbs_length_ctx : forall c s, (length (filter_by_set c s) <= length c)%nat.
Proof. intros; unfold filter_by_set; apply fbs_length. Qed.
