(* C14: labels of the generic code generator (Model/Backend.v), for every back end whose emitters
   obey the label discipline [labels_ok]:
   - only b_label defines a label handed in by the generic part; the memory operations (erase, share,
     store, load) define `lab<k>` for pairwise distinct k in (lc, lc'] and reference only those;
   - every other emitter defines nothing and references at most the label it is given.
   Results ([code_statement_defs], [translate_defs]): the labels defined in the code of
   `translate` are the texts of a duplicate-free list of ABSTRACT labels (LabelStrings.gl): one
   definition label per definition, and generated labels whose numbers lie in (lc, lc'] - the
   counter is monotone and every number is used by one statement only.  Uniqueness of the TEXTS
   follows where the printing is injective ([translate_labels_unique]). *)
From Coq Require Import List NArith String Ascii Bool Lia Permutation.
From SCC Require Import Base.Sexp Lang.AxSyn Model.ParMoves Model.Backend Sem.LabelGuard Proof.LinBasics Proof.LabelStrings.
Import ListNotations.
Local Open Scope string_scope.
Local Open Scope list_scope.

(* ---------- lists ---------- *)
Lemma NoDup_app_intro {A} (l1 l2 : list A) :
  NoDup l1 -> NoDup l2 -> (forall x, In x l1 -> In x l2 -> False) -> NoDup (l1 ++ l2).
Proof.
  induction l1 as [|a l1 IH]; intros N1 N2 D; [exact N2|]. inversion N1 as [|? ? Ha N1']; subst.
  cbn [app]. constructor.
  - intros H. apply in_app_or in H as [H|H]; [exact (Ha H)|]. apply (D a); [left; reflexivity|exact H].
  - apply IH; [exact N1'|exact N2|]. intros x H1 H2. apply (D x); [right; exact H1|exact H2].
Qed.
Lemma NoDup_app_l {A} (l1 l2 : list A) : NoDup (l1 ++ l2) -> NoDup l1.
Proof. induction l1 as [|a l1 IH]; intros H; [constructor|]. inversion H; subst. constructor; [intros X; apply H2, in_or_app; left; exact X|auto]. Qed.
Lemma NoDup_map_inj_in {A C} (f : A -> C) (l : list A) :
  (forall x y, In x l -> In y l -> f x = f y -> x = y) -> NoDup l -> NoDup (map f l).
Proof.
  induction l as [|a l IH]; intros I N; [constructor|]. inversion N as [|? ? Ha N']; subst. cbn [map]. constructor.
  - intros H. apply in_map_iff in H as (y & E & Hy). apply Ha. rewrite (I a y); [exact Hy|left; reflexivity|right; exact Hy|symmetry; exact E].
  - apply IH; [|exact N']. intros x y Hx Hy. apply I; right; assumption.
Qed.

Lemma nodup_strb_NoDup l : nodup_strb l = true -> NoDup l.
Proof.
  induction l as [|x r IH]; intros H; [constructor|]. cbn in H. apply andb_true_iff in H as [H1 H2].
  constructor; [|apply IH; exact H2]. intros I. apply negb_true_iff in H1.
  assert (existsb (String.eqb x) r = true) by (apply existsb_exists; exists x; split; [exact I|apply String.eqb_refl]). congruence.
Qed.
Lemma mem_strb_In x l : mem_strb x l = true -> In x l.
Proof. unfold mem_strb. intros H. apply existsb_exists in H as (y & Hy & E). apply String.eqb_eq in E. subst. exact Hy. Qed.

(* ---------- inversion of the result monad ---------- *)
Lemma rbind_inv {X Y} (e : res X) (f : X -> res Y) v : rbind e f = Ok v -> exists x, e = Ok x /\ f x = Ok v.
Proof. destruct e as [x|m]; cbn; intros H; [exists x; split; [reflexivity|exact H]|discriminate]. Qed.

Ltac rstep H :=
  match type of H with
  | rbind _ _ = Ok _ =>
      let x := fresh "x" in let E := fresh "E" in apply rbind_inv in H; destruct H as (x & E & H)
  | (let '(_, _) := ?p in _) = Ok _ => is_var p; destruct p as [? ?]
  | Err _ = Ok _ => discriminate H
  end.
Ltac rinv H := repeat rstep H.

Lemma stmt_check_switch fcall fsw v t cls :
  stmt_check fcall fsw (Switch v t cls) = fsw t (map cl_xtor cls) && forallb (fun c => stmt_check fcall fsw (cl_body c)) cls.
Proof.
  cbn [stmt_check]. f_equal. induction cls as [|[[x cx] b] r IH]; [reflexivity|]. cbn [forallb cl_body snd]. rewrite IH. reflexivity.
Qed.
Lemma stmt_check_create fcall fsw v t e cls n :
  stmt_check fcall fsw (Create v t e cls n)
  = fsw t (map cl_xtor cls) && forallb (fun c => stmt_check fcall fsw (cl_body c)) cls && stmt_check fcall fsw n.
Proof.
  cbn [stmt_check]. f_equal. f_equal. induction cls as [|[[x cx] b] r IH]; [reflexivity|]. cbn [forallb cl_body snd]. rewrite IH. reflexivity.
Qed.

Lemma type_label_pr t k : type_label t k = pr (GTL (tyS t) k).
Proof. reflexivity. Qed.
Lemma clause_label_pr t k x : type_label t k +++ "_" +++ show_ident x = pr (GCL (tyS t) k (show_ident x)).
Proof. unfold type_label. cbn [pr]. fold (tyS t). rewrite !sapp_assoc. reflexivity. Qed.

Lemma clause_label_pr' t k x : type_label t k +++ String "_" (show_ident x) = pr (GCL (tyS t) k (show_ident x)).
Proof. apply clause_label_pr. Qed.

(* the clause loop of Switch and Create *)
Section Loop.
Context {Code Temp : Type} (B : backend Code Temp).
Definition cl_loop (types : list tydecl) (fresh : string) (ldf : ctx -> N -> res (list Code * N)) (ctxf : ctx -> ctx) :=
  fix go (l : list clause) (lc : N) : res (list Code * N) :=
    match l with
    | [] => Ok ([], lc)
    | (x, cx, body) :: r =>
        dor ld <- ldf cx lc;
        let '(cl, lc1) := ld in
        dor bd <- code_statement B types body (ctxf cx) lc1;
        let '(cb, lc2) := bd in
        dor rs <- go r lc2;
        let '(cr, lc3) := rs in
        Ok ([b_label B (fresh +++ "_" +++ show_ident x)] ++ cl ++ cb ++ cr, lc3)
    end.
Lemma code_switch_eq types v t cls context lc :
  code_statement B types (Switch v t cls) context lc =
  dor body <-
    (let lc1 := (lc + 1)%N in
     let fresh := type_label t lc1 in
     let n := List.length cls in
     dor c1 <-
       (if Nat.leb n 1 then Ok []
        else dor tmpv <- variable_temporary B Snd context (idn v);
             Ok (b_load_label B (b_temp B) fresh ++ b_arith B Sum (b_temp B) (b_temp B) tmpv ++ b_jump B (b_temp B)));
     let c2 := [b_label B fresh] ++ (if Nat.leb n 1 then [] else code_table B cls fresh) in
     let context' := removelast context in
     dor cc <- cl_loop types fresh (fun cx lc => b_load B cx context' lc) (fun cx => context' ++ cx) cls lc1;
     let '(c3, lc3) := cc in
     Ok (c1 ++ c2 ++ c3, lc3));
  Ok (b_mark B context ++ fst body, snd body).
Proof. reflexivity. Qed.
Lemma code_create_eq types v t env cls next context lc :
  code_statement B types (Create v t (Some env) cls next) context lc =
  dor body <-
    (dor sp <- split_last (List.length env) context;
     let '(rest, closure_environment) := sp in
     dor st <- b_store B closure_environment rest lc;
     let '(c1, lc1) := st in
     let lc2 := (lc1 + 1)%N in
     let fresh := type_label t lc2 in
     let context' := rest ++ [mkb v Cns t] in
     dor tmpv <- variable_temporary B Snd context' (idn v);
     let c2 := b_load_label B tmpv fresh in
     dor nx <- code_statement B types next context' lc2;
     let '(c3, lc3) := nx in
     let n := List.length cls in
     let c4 := [b_label B fresh] ++ (if Nat.leb n 1 then [] else code_table B cls fresh) in
     dor cc <- cl_loop types fresh (fun cx lc => b_load B closure_environment cx lc) (fun cx => cx ++ closure_environment) cls lc3;
     let '(c5, lc5) := cc in
     Ok (c1 ++ c2 ++ c3 ++ c4 ++ c5, lc5));
  Ok (b_mark B context ++ fst body, snd body).
Proof. reflexivity. Qed.
End Loop.

Section LabelGen.
Context {Code Temp : Type} (B : backend Code Temp).
Variables (cdefs crefs : Code -> list string).   (* labels defined / referenced by one instruction *)
Definition defs (c : list Code) : list string := flat_map cdefs c.
Definition refs (c : list Code) : list string := flat_map crefs c.
Lemma defs_app a b : defs (a ++ b) = defs a ++ defs b.
Proof. apply flat_map_app. Qed.
Lemma refs_app a b : refs (a ++ b) = refs a ++ refs b.
Proof. apply flat_map_app. Qed.
Definition plain (c : list Code) : Prop := defs c = [] /\ refs c = [].
(* what the memory operations of a back end do with the label counter *)
Definition labs_ok (lc : N) (c : list Code) (lc' : N) : Prop :=
  (lc <= lc')%N /\
  exists ks, defs c = map (fun k => pr (GLab k)) ks /\ NoDup ks /\ (forall k, In k ks -> (lc < k <= lc')%N) /\
             incl (refs c) (defs c).
Definition refs_only (c : list Code) (l : string) : Prop := defs c = [] /\ incl (refs c) [l].

Record labels_ok : Prop := {
  lo_label : forall l, cdefs (b_label B l) = [l] /\ crefs (b_label B l) = [];
  lo_mark : forall c, plain (b_mark B c);
  lo_jump : forall t, plain (b_jump B t);
  lo_jump_label : forall l, refs_only (b_jump_label B l) l;
  lo_jump_label_fixed : forall l, refs_only (b_jump_label_fixed B l) l;
  lo_jcc2 : forall s a b l, refs_only (b_jcc2 B s a b l) l;
  lo_jcc1 : forall s a l, refs_only (b_jcc1 B s a l) l;
  lo_load_immediate : forall t i, plain (b_load_immediate B t i);
  lo_load_label : forall t l, refs_only (b_load_label B t l) l;
  lo_add_and_jump : forall t i, plain (b_add_and_jump B t i);
  lo_arith : forall o t a b, plain (b_arith B o t a b);
  lo_mov : forall t s, plain (b_mov B t s);
  lo_print : forall nl t c, plain (b_print B nl t c);
  lo_store_temporary : forall t f, plain (b_store_temporary B t f);
  lo_restore_temporary : forall t f, plain (b_restore_temporary B t f);
  lo_erase : forall t lc, labs_ok lc (fst (b_erase B t lc)) (snd (b_erase B t lc));
  lo_share_n : forall t n lc, labs_ok lc (fst (b_share_n B t n lc)) (snd (b_share_n B t n lc));
  lo_store : forall a b lc c lc', b_store B a b lc = Ok (c, lc') -> labs_ok lc c lc';
  lo_load : forall a b lc c lc', b_load B a b lc = Ok (c, lc') -> labs_ok lc c lc';
}.
Hypothesis LO : labels_ok.

Variables okS okX : string -> bool.
Notation in_univ := (in_univ okS okX).
Notation sw_ok := (sw_ok okS okX).
Notation names_ok := (names_ok okS okX).

(* ---------- abstract labels of a piece of code ---------- *)
Definition gen_in (lo hi : N) (g : gl) : Prop := is_gen g = true /\ in_univ g /\ (lo < key g <= hi)%N.
Definition ainv (lo : N) (gs : list gl) (hi : N) : Prop := NoDup gs /\ forall g, In g gs -> gen_in lo hi g.
Definition stmt_inv (lc : N) (c : list Code) (lc' : N) : Prop :=
  (lc <= lc')%N /\ exists gs, defs c = map pr gs /\ ainv lc gs lc'.

Lemma gen_in_weaken a b a' b' g : (a' <= a)%N -> (b <= b')%N -> gen_in a b g -> gen_in a' b' g.
Proof. intros H1 H2 (G & U & K). repeat split; try assumption; lia. Qed.
Lemma ainv_nil a b : ainv a [] b.
Proof. split; [constructor|intros g []]. Qed.
Lemma ainv_weaken a b a' b' gs : (a' <= a)%N -> (b <= b')%N -> ainv a gs b -> ainv a' gs b'.
Proof. intros H1 H2 [N I]. split; [exact N|]. intros g Hg. apply (gen_in_weaken a b); auto. Qed.
Lemma ainv_app a b c g1 g2 : (a <= b)%N -> (b <= c)%N -> ainv a g1 b -> ainv b g2 c -> ainv a (g1 ++ g2) c.
Proof.
  intros L1 L2 [N1 I1] [N2 I2]. split.
  - apply NoDup_app_intro; [exact N1|exact N2|]. intros g H1 H2.
    destruct (I1 g H1) as (_ & _ & K1). destruct (I2 g H2) as (_ & _ & K2). lia.
  - intros g H. apply in_app_or in H as [H|H].
    + apply (gen_in_weaken a b); [lia|exact L2|apply I1; exact H].
    + apply (gen_in_weaken b c); [exact L1|lia|apply I2; exact H].
Qed.
Lemma ainv_single a b g : gen_in a b g -> ainv a [g] b.
Proof. intros H. split; [constructor; [intros []|constructor]|]. intros g' [<-|[]]. exact H. Qed.

Lemma inv_plain lc c : defs c = [] -> stmt_inv lc c lc.
Proof. intros H. split; [lia|]. exists []. split; [exact H|apply ainv_nil]. Qed.
Lemma inv_app a b c c1 c2 : stmt_inv a c1 b -> stmt_inv b c2 c -> stmt_inv a (c1 ++ c2) c.
Proof.
  intros (L1 & g1 & E1 & A1) (L2 & g2 & E2 & A2). split; [lia|]. exists (g1 ++ g2). split.
  - rewrite defs_app, E1, E2, map_app. reflexivity.
  - apply (ainv_app a b c); assumption.
Qed.
Lemma inv_plain_l a b c1 c2 : defs c1 = [] -> stmt_inv a c2 b -> stmt_inv a (c1 ++ c2) b.
Proof. intros H I. apply (inv_app a a b); [apply inv_plain; exact H|exact I]. Qed.
Lemma inv_plain_r a b c1 c2 : defs c2 = [] -> stmt_inv a c1 b -> stmt_inv a (c1 ++ c2) b.
Proof. intros H I. apply (inv_app a b b); [exact I|apply inv_plain; exact H]. Qed.
Lemma inv_labs lc c lc' : labs_ok lc c lc' -> stmt_inv lc c lc'.
Proof.
  intros (L & ks & E & N & K & _). split; [exact L|]. exists (map GLab ks). split.
  - rewrite E, map_map. reflexivity.
  - split.
    + apply NoDup_map_inj_in; [|exact N]. intros x y _ _ H. congruence.
    + intros g H. apply in_map_iff in H as (k & <- & Hk). split; [reflexivity|]. split; [exact I|]. cbn [key]. apply K. exact Hk.
Qed.
Lemma defs_label l : defs [b_label B l] = [l].
Proof. unfold defs. cbn [flat_map]. rewrite (proj1 (lo_label LO l)). reflexivity. Qed.
Lemma defs_cons_label l c : defs (b_label B l :: c) = l :: defs c.
Proof. change (b_label B l :: c) with ([b_label B l] ++ c). rewrite defs_app, defs_label. reflexivity. Qed.
Lemma refs_label l : refs [b_label B l] = [].
Proof. unfold refs. cbn [flat_map]. rewrite (proj2 (lo_label LO l)). reflexivity. Qed.
Lemma inv_label a b g : gen_in a b g -> (a <= b)%N -> stmt_inv a [b_label B (pr g)] b.
Proof. intros H L. split; [exact L|]. exists [g]. split; [apply defs_label|apply ainv_single; exact H]. Qed.

Lemma plain_defs c : plain c -> defs c = [].
Proof. intros [H _]. exact H. Qed.
Lemma refs_only_defs c l : refs_only c l -> defs c = [].
Proof. intros [H _]. exact H. Qed.

(* weakening-contraction: erase / share blocks *)
Lemma urc_inv v context n lc c lc' :
  update_reference_count B v context n lc = Ok (c, lc') -> stmt_inv lc c lc'.
Proof.
  unfold update_reference_count. intros H. rinv H. destruct n as [|[|n]].
  - inversion H as [H1]. apply inv_labs. pose proof (lo_erase LO x lc) as L. rewrite H1 in L. exact L.
  - inversion H; subst. apply inv_plain. reflexivity.
  - inversion H as [H1]. apply inv_labs. pose proof (lo_share_n LO x (N.of_nat (S n)) lc) as L.
    change (N.of_nat (S n)) with (N.pos (Pos.of_succ_nat n)) in L. rewrite H1 in L. exact L.
Qed.
Lemma cwc_inv tm context : forall lc c lc',
  code_weakening_contraction B tm context lc = Ok (c, lc') -> stmt_inv lc c lc'.
Proof.
  induction tm as [|[b targets] r IH]; intros lc c lc' H; cbn [code_weakening_contraction] in H.
  - inversion H; subst. apply inv_plain. reflexivity.
  - destruct (bchi b).
    + rinv H. inversion H; subst. apply (inv_app lc n lc'); [apply (urc_inv _ _ _ _ _ _ E)|apply (IH _ _ _ E0)].
    + rinv H. inversion H; subst. apply (inv_app lc n lc'); [apply (urc_inv _ _ _ _ _ _ E)|apply (IH _ _ _ E0)].
    + apply IH. exact H.
Qed.
(* parallel moves define no labels *)
Lemma flat_map_nil {X Y} (f : X -> list Y) l : (forall x, In x l -> f x = []) -> flat_map f l = [].
Proof. induction l as [|x l IH]; intros H; [reflexivity|]. cbn. rewrite H by (left; reflexivity). apply IH. intros y Hy. apply H. right. exact Hy. Qed.
Lemma defs_flat_map {X} (f : X -> list Code) l : (forall x, defs (f x) = []) -> defs (flat_map f l) = [].
Proof. intros H. induction l as [|x l IH]; [reflexivity|]. cbn [flat_map]. rewrite defs_app, H, IH. reflexivity. Qed.
Lemma refs_flat_map {X} (f : X -> list Code) l : (forall x, refs (f x) = []) -> refs (flat_map f l) = [].
Proof. intros H. induction l as [|x l IH]; [reflexivity|]. cbn [flat_map]. rewrite refs_app, H, IH. reflexivity. Qed.
Lemma pinstr_plain flag i : plain (emit_pinstr B flag i).
Proof. destruct i; cbn [emit_pinstr]; [apply (lo_mov LO)|apply (lo_store_temporary LO)|apply (lo_restore_temporary LO)]. Qed.
Lemma exchange_plain tm c1 c2 c : code_exchange B tm c1 c2 = Ok c -> plain c.
Proof.
  unfold code_exchange, parallel_moves_code. intros H. rinv H.
  destruct (spanning_forest _ _ _ _); [|discriminate]. inversion H; subst. split.
  - apply defs_flat_map. intros r. unfold emit_root. apply defs_flat_map. intros i. apply (pinstr_plain _ i).
  - apply refs_flat_map. intros r. unfold emit_root. apply refs_flat_map. intros i. apply (pinstr_plain _ i).
Qed.
Lemma table_defs cls base : defs (code_table B cls base) = [].
Proof. unfold code_table. apply defs_flat_map. intros c. apply (refs_only_defs _ _ (lo_jump_label_fixed LO _)). Qed.

(* ---------- the clause loop ---------- *)
Definition IHd (types : list tydecl) (s : stmt) : Prop :=
  names_ok s = true -> forall context lc c lc', code_statement B types s context lc = Ok (c, lc') -> stmt_inv lc c lc'.

(* labels of the loop: the clause labels (number k0 <= lc) plus generated labels in (lc, lc'] *)
Definition loop_inv (T : string) (k0 : N) (xs : list string) (lc : N) (c : list Code) (lc' : N) : Prop :=
  (lc <= lc')%N /\ exists gs, defs c = map pr gs /\ NoDup gs /\
    (forall g, In g gs -> (exists x, In x xs /\ g = GCL T k0 x) \/ gen_in lc lc' g) /\
    (forall x, In x xs -> In (GCL T k0 x) gs).

Definition xnames (cls : list clause) : list string := map (fun c => show_ident (cl_xtor c)) cls.

Lemma loop_defs types t k0 ldf ctxf :
  (forall cx lc c lc', ldf cx lc = Ok (c, lc') -> labs_ok lc c lc') ->
  forall cls,
  Forall (fun cl => IHd types (cl_body cl)) cls ->
  forallb (fun cl => names_ok (cl_body cl)) cls = true ->
  NoDup (xnames cls) ->
  forall lc c lc', (k0 <= lc)%N ->
  cl_loop B types (type_label t k0) ldf ctxf cls lc = Ok (c, lc') ->
  loop_inv (tyS t) k0 (xnames cls) lc c lc'.
Proof.
  intros LD. induction cls as [|[[x cx] body] r IH]; intros F NM ND lc c lc' K H; cbn [cl_loop] in H.
  - inversion H; subst. split; [lia|]. exists []. repeat split; [constructor|intros g []|intros x []].
  - inversion F as [|? ? Fb Fr]; subst. cbn [forallb cl_body snd] in NM. apply andb_true_iff in NM as [NM1 NM2].
    cbn [xnames map cl_xtor fst] in ND |- *. fold (xnames r) in ND |- *. inversion ND as [|? ? NX ND']; subst.
    rinv H. inversion H; subst; clear H. rename l into cl, n into lc1, l0 into cb, n0 into lc2, l1 into cr.
    pose proof (inv_labs _ _ _ (LD _ _ _ _ E)) as (L1 & gl & El & Al).
    pose proof (Fb NM1 _ _ _ _ E0) as (L2 & gb & Eb & Ab).
    assert (K2 : (k0 <= lc2)%N) by lia.
    pose proof (IH Fr NM2 ND' _ _ _ K2 E1) as (L3 & gr & Er & Nr & Cr & Mr).
    split; [lia|]. exists (GCL (tyS t) k0 (show_ident x) :: gl ++ gb ++ gr). split; [|split; [|split]].
    + rewrite defs_cons_label, !defs_app, clause_label_pr', El, Eb, Er. cbn [map app]. rewrite !map_app. reflexivity.
    + pose proof (ainv_app lc lc1 lc2 gl gb L1 L2 Al Ab) as [Nlb Ilb].
      constructor.
      * intros I. rewrite app_assoc in I. apply in_app_or in I as [I|I].
        -- destruct (Ilb _ I) as (_ & _ & KK). cbn [key] in KK. lia.
        -- destruct (Cr _ I) as [(x' & Hx' & E')|(_ & _ & KK)]; [|cbn [key] in KK; lia].
           injection E' as E'. apply NX. rewrite E'. exact Hx'.
      * rewrite app_assoc. apply NoDup_app_intro; [exact Nlb|exact Nr|].
        intros g H1 H2. destruct (Ilb _ H1) as (_ & _ & KK).
        destruct (Cr _ H2) as [(x' & _ & ->)|(_ & _ & KK')]; [cbn [key] in KK|]; lia.
    + intros g [<-|I].
      * left. exists (show_ident x). split; [left; reflexivity|reflexivity].
      * rewrite app_assoc in I. apply in_app_or in I as [I|I].
        -- right. destruct Al as [_ Il]. destruct Ab as [_ Ib]. apply in_app_or in I as [I|I].
           ++ apply (gen_in_weaken lc lc1); [lia|lia|apply Il; exact I].
           ++ apply (gen_in_weaken lc1 lc2); [lia|lia|apply Ib; exact I].
        -- destruct (Cr _ I) as [(x' & Hx' & E')|G].
           ++ left. exists x'. split; [right; exact Hx'|exact E'].
           ++ right. apply (gen_in_weaken lc2 lc'); [lia|lia|exact G].
    + intros x' [<-|Hx']; [left; reflexivity|]. right. apply in_or_app. right. apply in_or_app. right. apply Mr. exact Hx'.
Qed.

Lemma inv_perm a b c c' : Permutation (defs c) (defs c') -> stmt_inv a c b -> stmt_inv a c' b.
Proof.
  intros P (L & gs & E & N & I). split; [exact L|]. rewrite E in P. apply Permutation_sym, Permutation_map_inv in P as (gs' & E' & P').
  exists gs'. split; [exact E'|]. split; [apply (Permutation_NoDup P' N)|].
  intros g H. apply I. apply (Permutation_in _ (Permutation_sym P') H).
Qed.

Lemma wrap_inv (e : res (list Code * N)) context lc c lc' :
  rbind e (fun body => Ok (b_mark B context ++ fst body, snd body)) = Ok (c, lc') ->
  (forall c0, e = Ok (c0, lc') -> stmt_inv lc c0 lc') -> stmt_inv lc c lc'.
Proof.
  intros H K. rinv H. destruct x as [c0 l0]. cbn [fst snd] in H. inversion H; subst.
  apply inv_plain_l; [apply (plain_defs _ (lo_mark LO _))|]. apply K. reflexivity.
Qed.

Ltac dplain :=
  repeat rewrite defs_app;
  repeat first [ rewrite (plain_defs _ (lo_jump LO _)) | rewrite (plain_defs _ (lo_load_immediate LO _ _))
               | rewrite (plain_defs _ (lo_add_and_jump LO _ _)) | rewrite (plain_defs _ (lo_arith LO _ _ _ _))
               | rewrite (plain_defs _ (lo_mov LO _ _)) | rewrite (plain_defs _ (lo_print LO _ _ _))
               | rewrite (refs_only_defs _ _ (lo_jump_label LO _)) | rewrite (refs_only_defs _ _ (lo_jcc2 LO _ _ _ _))
               | rewrite (refs_only_defs _ _ (lo_jcc1 LO _ _ _)) | rewrite (refs_only_defs _ _ (lo_load_label LO _ _))
               | rewrite table_defs ];
  try reflexivity.

Theorem code_statement_defs types : forall s, IHd types s.
Proof.
  induction s using stmt_ind2; intros NM context lc c lc' HC;
    try match goal with F : Forall _ _ |- _ => rename F into FC end.
  - (* Substitute *)
    cbn [code_statement] in HC. apply (wrap_inv _ _ _ _ _ HC). clear HC. intros c0 HC. rinv HC. inversion HC; subst; clear HC.
    cbn [names_ok stmt_check] in NM.
    apply (inv_app lc n lc'); [apply (cwc_inv _ _ _ _ _ E)|].
    apply inv_plain_l; [apply (plain_defs _ (exchange_plain _ _ _ _ E0))|]. apply (IHs NM _ _ _ _ E1).
  - (* Call *)
    cbn [code_statement] in HC. apply (wrap_inv _ _ _ _ _ HC). clear HC. intros c0 HC. inversion HC; subst. apply inv_plain. dplain.
  - (* Let *)
    cbn [code_statement] in HC. apply (wrap_inv _ _ _ _ _ HC). clear HC. intros c0 HC. rinv HC. inversion HC; subst; clear HC.
    cbn [names_ok stmt_check] in NM.
    apply (inv_app lc n lc'); [apply inv_labs, (lo_store LO _ _ _ _ _ E2)|].
    apply inv_plain_l; [dplain|]. apply (IHs NM _ _ _ _ E4).
  - (* Switch *)
    rewrite code_switch_eq in HC. apply (wrap_inv _ _ _ _ _ HC). clear HC. intros c0 HC. cbv zeta in HC. rinv HC. inversion HC; subst; clear HC.
    unfold names_ok in NM. rewrite stmt_check_switch in NM. apply andb_true_iff in NM as [SW NM].
    unfold sw_ok in SW. apply andb_true_iff in SW as [SW ND]. apply andb_true_iff in SW as [SW OX]. apply andb_true_iff in SW as [OS LF].
    apply negb_true_iff in LF. apply nodup_strb_NoDup in ND. rewrite map_map in ND.
    assert (K : (lc + 1 <= lc + 1)%N) by lia.
    pose proof (loop_defs types t (lc + 1)%N _ _ (fun cx lc c lc' => lo_load LO cx _ lc c lc') cls FC NM ND _ _ _ K E0)
      as (L & gs & Eg & Ng & Cg & _).
    assert (D1 : defs x = []).
    { match type of E with (if ?b then _ else _) = _ => destruct b end; [inversion E; subst; reflexivity|]. rinv E. inversion E; subst. dplain. }
    assert (XU : forall x', In x' (xnames cls) -> okX x' = true).
    { intros x' Hx. unfold xnames in Hx. apply in_map_iff in Hx as (cl & <- & Hc).
      rewrite forallb_forall in OX. apply OX. apply in_map. exact Hc. }
    split; [lia|]. exists (GTL (tyS t) (lc + 1) :: gs). split; [|split].
    + rewrite !defs_app, D1, ?defs_cons_label, ?defs_label, ?defs_app, Eg. cbn [app map].
      match goal with |- context [if ?b then _ else _] => destruct b end; [reflexivity|rewrite table_defs; reflexivity].
    + constructor; [|exact Ng]. intros I. destruct (Cg _ I) as [(x' & _ & E')|(_ & _ & KK)]; [discriminate|cbn [key] in KK; lia].
    + intros g [<-|I].
      * split; [reflexivity|]. split; [split; assumption|cbn [key]; lia].
      * destruct (Cg _ I) as [(x' & Hx' & ->)|G].
        -- split; [reflexivity|]. split; [repeat split; try assumption; apply XU; exact Hx'|cbn [key]; lia].
        -- apply (gen_in_weaken (lc + 1) lc'); [lia|lia|exact G].
  - (* Create *)
    destruct env as [env|]; [|cbn [code_statement] in HC; rinv HC; discriminate].
    rewrite code_create_eq in HC. apply (wrap_inv _ _ _ _ _ HC). clear HC. intros c0 HC. cbv zeta in HC. rinv HC. inversion HC; subst; clear HC.
    unfold names_ok in NM. rewrite stmt_check_create in NM. apply andb_true_iff in NM as [NM NMn]. apply andb_true_iff in NM as [SW NM].
    unfold sw_ok in SW. apply andb_true_iff in SW as [SW ND]. apply andb_true_iff in SW as [SW OX]. apply andb_true_iff in SW as [OS LF].
    apply negb_true_iff in LF. apply nodup_strb_NoDup in ND. rewrite map_map in ND.
    rename n into lc1, n0 into lc3.
    pose proof (inv_labs _ _ _ (lo_store LO _ _ _ _ _ E0)) as (L1 & g1 & E1' & A1).
    pose proof (IHs NMn _ _ _ _ E2) as (L3 & g3 & E3' & A3).
    assert (K : (lc1 + 1 <= lc3)%N) by lia.
    pose proof (loop_defs types t (lc1 + 1)%N _ _ (fun cx lc c lc' => lo_load LO _ cx lc c lc') cls FC NM ND _ _ _ K E3)
      as (L5 & g5 & E5 & N5 & C5 & _).
    assert (XU : forall x', In x' (xnames cls) -> okX x' = true).
    { intros x' Hx. unfold xnames in Hx. apply in_map_iff in Hx as (cl & <- & Hc).
      rewrite forallb_forall in OX. apply OX. apply in_map. exact Hc. }
    split; [lia|]. exists (g1 ++ g3 ++ GTL (tyS t) (lc1 + 1) :: g5). split; [|split].
    + rewrite !defs_app, E1', E3', ?defs_cons_label, ?defs_label, ?defs_app, E5, (refs_only_defs _ _ (lo_load_label LO _ _)). cbn [app].
      rewrite !map_app. cbn [map].
      match goal with |- context [if ?b then _ else _] => destruct b end; [reflexivity|rewrite table_defs; reflexivity].
    + destruct A1 as [N1 I1]. destruct A3 as [N3 I3].
      apply NoDup_app_intro; [exact N1| |].
      * apply NoDup_app_intro; [exact N3| |].
        -- constructor; [|exact N5]. intros I. destruct (C5 _ I) as [(x' & _ & E')|(_ & _ & KK)]; [discriminate|cbn [key] in KK; lia].
        -- intros g Hg [<-|I]; [destruct (I3 _ Hg) as (_ & _ & KK); cbn [key] in KK; lia|].
           destruct (I3 _ Hg) as (_ & _ & KK). destruct (C5 _ I) as [(x' & _ & ->)|(_ & _ & KK')]; [cbn [key] in KK|]; lia.
      * intros g Hg I. destruct (I1 _ Hg) as (_ & _ & KK). apply in_app_or in I as [I|[<-|I]].
        -- destruct (I3 _ I) as (_ & _ & KK'). lia.
        -- cbn [key] in KK. lia.
        -- destruct (C5 _ I) as [(x' & _ & ->)|(_ & _ & KK')]; [cbn [key] in KK|]; lia.
    + destruct A1 as [N1 I1]. destruct A3 as [N3 I3]. intros g I. apply in_app_or in I as [I|I].
      * apply (gen_in_weaken lc lc1); [lia|lia|apply I1; exact I].
      * apply in_app_or in I as [I|[<-|I]].
        -- apply (gen_in_weaken (lc1 + 1) lc3); [lia|lia|apply I3; exact I].
        -- split; [reflexivity|]. split; [split; assumption|cbn [key]; lia].
        -- destruct (C5 _ I) as [(x' & Hx' & ->)|G].
           ++ split; [reflexivity|]. split; [repeat split; try assumption; apply XU; exact Hx'|cbn [key]; lia].
           ++ apply (gen_in_weaken lc3 lc'); [lia|lia|exact G].
  - (* Invoke *)
    cbn [code_statement] in HC. apply (wrap_inv _ _ _ _ _ HC). clear HC. intros c0 HC. rinv HC.
    destruct (Nat.leb (List.length (txtors x0)) 1); [inversion HC; subst; apply inv_plain; dplain|].
    rinv HC. inversion HC; subst. apply inv_plain. dplain.
  - (* Literal *)
    cbn [code_statement] in HC. apply (wrap_inv _ _ _ _ _ HC). clear HC. intros c0 HC. rinv HC. inversion HC; subst; clear HC.
    apply inv_plain_l; [dplain|]. apply (IHs NM _ _ _ _ E0).
  - (* Op *)
    cbn [code_statement] in HC. apply (wrap_inv _ _ _ _ _ HC). clear HC. intros c0 HC. rinv HC. inversion HC; subst; clear HC.
    apply inv_plain_l; [dplain|]. apply (IHs NM _ _ _ _ E2).
  - (* PrintI64 *)
    cbn [code_statement] in HC. apply (wrap_inv _ _ _ _ _ HC). clear HC. intros c0 HC. rinv HC. inversion HC; subst; clear HC.
    apply inv_plain_l; [dplain|]. apply (IHs NM _ _ _ _ E0).
  - (* IfC *)
    cbn [code_statement] in HC. apply (wrap_inv _ _ _ _ _ HC). clear HC. intros c0 HC. rinv HC. inversion HC; subst; clear HC.
    cbn [names_ok stmt_check] in NM. apply andb_true_iff in NM as [NM1 NM2].
    assert (D1 : defs x0 = []).
    { destruct b; rinv E0; inversion E0; subst; dplain. }
    apply inv_plain_l; [exact D1|].
    pose proof (IHs2 NM2 _ _ _ _ E1) as I2. pose proof (IHs1 NM1 _ _ _ _ E2) as I1.
    apply (inv_perm lc lc' ([b_label B (pr (GLab (lc + 1)))] ++ l ++ l0)).
    { rewrite !defs_app, !defs_cons_label. change (defs []) with (@nil string). cbn [app]. apply Permutation_middle. }
    apply (inv_app lc (lc + 1) lc'); [apply inv_label; [|lia]|apply (inv_app _ n lc'); assumption].
    split; [reflexivity|]. split; [exact I|cbn [key]; lia].
  - (* Exit *)
    cbn [code_statement] in HC. apply (wrap_inv _ _ _ _ _ HC). clear HC. intros c0 HC. rinv HC. inversion HC; subst. apply inv_plain. dplain.
Qed.

(* ---------- translate: one definition label per definition ---------- *)
Definition translate_inv (names : list string) (lc : N) (c : list Code) (lc' : N) : Prop :=
  (lc <= lc')%N /\ exists gs, defs c = map pr gs /\ NoDup gs /\
    (forall g, In g gs -> (exists n, In n names /\ g = GDef n) \/ gen_in lc lc' g) /\
    (forall n, In n names -> In (GDef n) gs).

Theorem translate_defs types : forall ds lc c lc',
  forallb (fun d => names_ok (dbody d)) ds = true -> NoDup (dnames ds) ->
  translate B types ds lc = Ok (c, lc') -> translate_inv (dnames ds) lc c lc'.
Proof.
  induction ds as [|d r IH]; intros lc c lc' NM ND H; cbn [translate] in H.
  - inversion H; subst. split; [lia|]. exists []. repeat split; [constructor|intros g []|intros n []].
  - cbn [forallb] in NM. apply andb_true_iff in NM as [NM1 NM2]. cbn [dnames map] in ND |- *. fold (dnames r) in ND |- *.
    inversion ND as [|? ? NX ND']; subst. rinv H. inversion H; subst; clear H. rename l into c1, n into lc1, l0 into c2.
    pose proof (code_statement_defs types (dbody d) NM1 _ _ _ _ E) as (L1 & g1 & E1 & N1 & I1).
    pose proof (IH _ _ _ NM2 ND' E0) as (L2 & g2 & E2 & N2 & C2 & M2).
    split; [lia|]. exists (GDef (show_ident (dname d)) :: g1 ++ g2). split; [|split; [|split]].
    + rewrite defs_cons_label, defs_app, E1, E2. cbn [map]. rewrite map_app. reflexivity.
    + constructor.
      * intros I. apply in_app_or in I as [I|I].
        -- destruct (I1 _ I) as (G & _). discriminate.
        -- destruct (C2 _ I) as [(n & Hn & E')|(G & _)]; [|discriminate]. injection E' as E'. apply NX. rewrite E'. exact Hn.
      * apply NoDup_app_intro; [exact N1|exact N2|]. intros g H1 H2. destruct (I1 _ H1) as (G & _ & KK).
        destruct (C2 _ H2) as [(n & _ & ->)|(_ & _ & KK')]; [discriminate|lia].
    + intros g [<-|I]; [left; eexists; split; [left; reflexivity|reflexivity]|]. apply in_app_or in I as [I|I].
      * right. apply (gen_in_weaken lc lc1); [lia|lia|apply I1; exact I].
      * destruct (C2 _ I) as [(n & Hn & E')|G]; [left; exists n; split; [right; exact Hn|exact E']|].
        right. apply (gen_in_weaken lc1 lc'); [lia|lia|exact G].
    + intros n [<-|Hn]; [left; reflexivity|]. right. apply in_or_app. right. apply M2. exact Hn.
Qed.

(* ---------- uniqueness of the texts, where the printing is injective ---------- *)
Hypothesis Hinj : forall g1 g2, in_univ g1 -> in_univ g2 -> pr g1 = pr g2 -> g1 = g2.

Notation prog_names_ok := (prog_names_ok okS okX).

Theorem translate_labels_unique types ds lc c lc' :
  prog_names_ok ds = true -> translate B types ds lc = Ok (c, lc') ->
  NoDup (defs c) /\ (lc <= lc')%N /\
  (forall l, In l (defs c) -> exists g, l = pr g /\ in_univ g /\ (is_gen g = true -> (lc < key g <= lc')%N)).
Proof.
  unfold prog_names_ok. intros G H. apply andb_true_iff in G as [G1 G2]. apply nodup_strb_NoDup in G2.
  assert (NM : forallb (fun d => names_ok (dbody d)) ds = true).
  { apply forallb_forall. intros d Hd. rewrite forallb_forall in G1. specialize (G1 d Hd). apply andb_true_iff in G1. tauto. }
  assert (LF : forall n, In n (dnames ds) -> lower_first n = true).
  { intros n Hn. unfold dnames in Hn. apply in_map_iff in Hn as (d & <- & Hd). rewrite forallb_forall in G1.
    specialize (G1 d Hd). apply andb_true_iff in G1. tauto. }
  destruct (translate_defs types ds lc c lc' NM G2 H) as (L & gs & E & N & C & _).
  assert (U : forall g, In g gs -> in_univ g).
  { intros g Hg. destruct (C _ Hg) as [(n & Hn & ->)|(_ & U & _)]; [cbn; apply LF; exact Hn|exact U]. }
  split; [|split; [exact L|]].
  - rewrite E. apply NoDup_map_inj_in; [|exact N]. intros x y Hx Hy. apply Hinj; apply U; assumption.
  - intros l Hl. rewrite E in Hl. apply in_map_iff in Hl as (g & <- & Hg). exists g. split; [reflexivity|]. split; [apply U; exact Hg|].
    intros GG. destruct (C _ Hg) as [(n & _ & ->)|(_ & _ & KK)]; [discriminate|exact KK].
Qed.
End LabelGen.
Arguments lo_label {Code Temp B cdefs crefs} _.
Arguments lo_mark {Code Temp B cdefs crefs} _.
Arguments lo_jump {Code Temp B cdefs crefs} _.
Arguments lo_jump_label {Code Temp B cdefs crefs} _.
Arguments lo_jump_label_fixed {Code Temp B cdefs crefs} _.
Arguments lo_jcc2 {Code Temp B cdefs crefs} _.
Arguments lo_jcc1 {Code Temp B cdefs crefs} _.
Arguments lo_load_immediate {Code Temp B cdefs crefs} _.
Arguments lo_load_label {Code Temp B cdefs crefs} _.
Arguments lo_add_and_jump {Code Temp B cdefs crefs} _.
Arguments lo_arith {Code Temp B cdefs crefs} _.
Arguments lo_mov {Code Temp B cdefs crefs} _.
Arguments lo_print {Code Temp B cdefs crefs} _.
Arguments lo_store_temporary {Code Temp B cdefs crefs} _.
Arguments lo_restore_temporary {Code Temp B cdefs crefs} _.
Arguments lo_erase {Code Temp B cdefs crefs} _.
Arguments lo_share_n {Code Temp B cdefs crefs} _.
Arguments lo_store {Code Temp B cdefs crefs} _.
Arguments lo_load {Code Temp B cdefs crefs} _.

(* ---------- referenced labels are defined ---------- *)
Section LabelRefs.
Context {Code Temp : Type} (B : backend Code Temp).
Variables (cdefs crefs : Code -> list string).
Notation defs := (defs cdefs).
Notation refs := (refs crefs).
Hypothesis LO : labels_ok B cdefs crefs.
Variable fcall : ident -> bool.
Definition called (l : string) : Prop := exists f, fcall f = true /\ l = show_ident f +++ "_".
Definition ref_in (D : list string) (c : list Code) : Prop :=
  forall l, In l (refs c) -> In l D \/ l = "cleanup" \/ called l.
Notation calls_ok := (calls_ok fcall).

Lemma ref_in_app D c1 c2 : ref_in D c1 -> ref_in D c2 -> ref_in D (c1 ++ c2).
Proof. intros H1 H2 l Hl. unfold LabelGen.refs in Hl. rewrite flat_map_app in Hl. apply in_app_or in Hl as [Hl|Hl]; auto. Qed.
Lemma ref_in_mono D D' c : incl D D' -> ref_in D c -> ref_in D' c.
Proof. intros I H l Hl. destruct (H l Hl) as [X|X]; [left; apply I; exact X|right; exact X]. Qed.
Lemma ref_in_plain D c : refs c = [] -> ref_in D c.
Proof. intros H l Hl. rewrite H in Hl. destruct Hl. Qed.
Lemma ref_in_only D c l : refs_only cdefs crefs c l -> In l D \/ l = "cleanup" \/ called l -> ref_in D c.
Proof. intros [_ I] H l' Hl. apply I in Hl. destruct Hl as [<-|[]]. exact H. Qed.
Lemma ref_in_labs lc c lc' : labs_ok cdefs crefs lc c lc' -> ref_in (defs c) c.
Proof. intros (_ & ks & _ & _ & _ & I) l Hl. left. apply I. exact Hl. Qed.
Lemma ref_in_label D l : ref_in D [b_label B l].
Proof. apply ref_in_plain. apply (refs_label B cdefs crefs LO). Qed.
Lemma ref_in_cons_label D l c : ref_in D c -> ref_in D (b_label B l :: c).
Proof. intros H. apply (ref_in_app D [_] c); [apply ref_in_label|exact H]. Qed.

Ltac inc := first [ apply incl_refl | apply incl_appl; inc | apply incl_appr; inc | apply incl_tl; inc ].
Ltac dnorm := repeat first [rewrite (defs_app cdefs) | rewrite (defs_cons_label B cdefs crefs LO)].
Ltac subE E := match type of E with _ = Ok (?l, _) => sub (defs l) end
with sub D := apply (ref_in_mono D); [repeat first [rewrite (defs_app cdefs) | rewrite (defs_cons_label B cdefs crefs LO)]; inc|].

Lemma urc_refs v context n lc c lc' :
  update_reference_count B v context n lc = Ok (c, lc') -> ref_in (defs c) c.
Proof.
  unfold update_reference_count. intros H. rinv H. destruct n as [|[|n]].
  - inversion H as [H1]. pose proof (lo_erase LO x lc) as L. rewrite H1 in L. apply (ref_in_labs _ _ _ L).
  - inversion H; subst. apply ref_in_plain. reflexivity.
  - inversion H as [H1]. pose proof (lo_share_n LO x (N.of_nat (S n)) lc) as L.
    change (N.of_nat (S n)) with (N.pos (Pos.of_succ_nat n)) in L. rewrite H1 in L. apply (ref_in_labs _ _ _ L).
Qed.
Lemma cwc_refs tm context : forall lc c lc',
  code_weakening_contraction B tm context lc = Ok (c, lc') -> ref_in (defs c) c.
Proof.
  induction tm as [|[b targets] r IH]; intros lc c lc' H; cbn [code_weakening_contraction] in H.
  - inversion H; subst. apply ref_in_plain. reflexivity.
  - destruct (bchi b).
    + rinv H. inversion H; subst. apply ref_in_app; [sub (defs l); apply (urc_refs _ _ _ _ _ _ E)|sub (defs l0); apply (IH _ _ _ E0)].
    + rinv H. inversion H; subst. apply ref_in_app; [sub (defs l); apply (urc_refs _ _ _ _ _ _ E)|sub (defs l0); apply (IH _ _ _ E0)].
    + apply IH with (lc := lc) (lc' := lc'). exact H.
Qed.

Definition IHr (types : list tydecl) (s : stmt) : Prop :=
  calls_ok s = true -> forall context lc c lc', code_statement B types s context lc = Ok (c, lc') -> ref_in (defs c) c.

Lemma loop_refs types fresh ldf ctxf :
  (forall cx lc c lc', ldf cx lc = Ok (c, lc') -> labs_ok cdefs crefs lc c lc') ->
  forall cls,
  Forall (fun cl => IHr types (cl_body cl)) cls ->
  forallb (fun cl => calls_ok (cl_body cl)) cls = true ->
  forall lc c lc',
  cl_loop B types fresh ldf ctxf cls lc = Ok (c, lc') ->
  ref_in (defs c) c /\ forall cl, In cl cls -> In (fresh +++ "_" +++ show_ident (cl_xtor cl)) (defs c).
Proof.
  intros LD. induction cls as [|[[x cx] body] r IH]; intros F NM lc c lc' H; cbn [cl_loop] in H.
  - inversion H; subst. split; [apply ref_in_plain; reflexivity|intros cl []].
  - inversion F as [|? ? Fb Fr]; subst. cbn [forallb cl_body snd] in NM. apply andb_true_iff in NM as [NM1 NM2].
    rinv H. inversion H; subst; clear H. rename l into cl, n into lc1, l0 into cb, n0 into lc2, l1 into cr.
    destruct (IH Fr NM2 _ _ _ E1) as [R M]. split.
    + apply ref_in_cons_label. apply ref_in_app; [sub (defs cl); apply (ref_in_labs _ _ _ (LD _ _ _ _ E))|].
      apply ref_in_app; [sub (defs cb); apply (Fb NM1 _ _ _ _ E0)|sub (defs cr); exact R].
    + rewrite (defs_cons_label B cdefs crefs LO). intros c' [<-|Hc]; [left; reflexivity|].
      right. rewrite !(defs_app cdefs). apply in_or_app. right. apply in_or_app. right. apply M. exact Hc.
Qed.

Lemma table_refs D cls base :
  (forall cl, In cl cls -> In (base +++ "_" +++ show_ident (cl_xtor cl)) D) -> ref_in D (code_table B cls base).
Proof.
  unfold code_table. induction cls as [|cl r IH]; intros H; [apply ref_in_plain; reflexivity|]. cbn [flat_map].
  apply ref_in_app; [|apply IH; intros c' Hc; apply H; right; exact Hc].
  apply (ref_in_only _ _ _ (lo_jump_label_fixed LO _)). left. apply H. left. reflexivity.
Qed.

Lemma wrap_refs (e : res (list Code * N)) context c lc' :
  rbind e (fun body => Ok (b_mark B context ++ fst body, snd body)) = Ok (c, lc') ->
  (forall c0, e = Ok (c0, lc') -> ref_in (defs c0) c0) -> ref_in (defs c) c.
Proof.
  intros H K. rinv H. destruct x as [c0 l0]. cbn [fst snd] in H. inversion H; subst.
  apply ref_in_app; [apply ref_in_plain, (lo_mark LO)|]. sub (defs c0). apply K. reflexivity.
Qed.

Ltac rplain :=
  first [ apply ref_in_plain; first [ apply (lo_jump LO) | apply (lo_load_immediate LO) | apply (lo_add_and_jump LO)
                                    | apply (lo_arith LO) | apply (lo_mov LO) | apply (lo_print LO) ] ].

Theorem code_statement_refs types : forall s, IHr types s.
Proof.
  induction s using stmt_ind2; intros NM context lc c lc' HC;
    try match goal with F : Forall _ _ |- _ => rename F into FC end.
  - (* Substitute *)
    cbn [code_statement] in HC. apply (wrap_refs _ _ _ _ HC). clear HC. intros c0 HC. rinv HC. inversion HC; subst; clear HC.
    apply ref_in_app; [sub (defs l); apply (cwc_refs _ _ _ _ _ E)|].
    apply ref_in_app; [apply ref_in_plain, (exchange_plain B cdefs crefs LO _ _ _ _ E0)|].
    sub (defs l0). apply (IHs NM _ _ _ _ E1).
  - (* Call *)
    cbn [code_statement] in HC. apply (wrap_refs _ _ _ _ HC). clear HC. intros c0 HC. inversion HC; subst.
    apply (ref_in_only _ _ _ (lo_jump_label LO _)). right. right. exists l. split; [exact NM|reflexivity].
  - (* Let *)
    cbn [code_statement] in HC. apply (wrap_refs _ _ _ _ HC). clear HC. intros c0 HC. rinv HC. inversion HC; subst; clear HC.
    apply ref_in_app; [sub (defs l); apply (ref_in_labs _ _ _ (lo_store LO _ _ _ _ _ E2))|].
    apply ref_in_app; [rplain|]. sub (defs l0). apply (IHs NM _ _ _ _ E4).
  - (* Switch *)
    rewrite code_switch_eq in HC. apply (wrap_refs _ _ _ _ HC). clear HC. intros c0 HC. cbv zeta in HC. rinv HC. inversion HC; subst; clear HC.
    unfold calls_ok in NM. rewrite stmt_check_switch in NM. cbn [andb] in NM.
    destruct (loop_refs types _ _ _ (fun cx lc c lc' => lo_load LO cx _ lc c lc') cls FC NM _ _ _ E0) as [R M].
    apply ref_in_app.
    + match type of E with (if ?b then _ else _) = _ => destruct b end; [inversion E; subst; apply ref_in_plain; reflexivity|].
      rinv E. inversion E; subst. apply ref_in_app; [|apply ref_in_app; rplain].
      apply (ref_in_only _ _ _ (lo_load_label LO _ _)). left. dnorm.
      apply in_or_app. right. left. reflexivity.
    + apply ref_in_cons_label. apply ref_in_app; [|sub (defs l); exact R].
      match goal with |- context [if ?b then _ else _] => destruct b end; [apply ref_in_plain; reflexivity|].
      apply table_refs. intros cl Hc. dnorm.
      apply in_or_app. right. right. apply in_or_app. right. apply M. exact Hc.
  - (* Create *)
    destruct env as [env|]; [|cbn [code_statement] in HC; rinv HC; discriminate].
    rewrite code_create_eq in HC. apply (wrap_refs _ _ _ _ HC). clear HC. intros c0 HC. cbv zeta in HC. rinv HC. inversion HC; subst; clear HC.
    unfold calls_ok in NM. rewrite stmt_check_create in NM. cbn [andb] in NM. apply andb_true_iff in NM as [NM NMn].
    destruct (loop_refs types _ _ _ (fun cx lc c lc' => lo_load LO _ cx lc c lc') cls FC NM _ _ _ E3) as [R M].
    apply ref_in_app; [subE E0; apply (ref_in_labs _ _ _ (lo_store LO _ _ _ _ _ E0))|].
    apply ref_in_app.
    { apply (ref_in_only _ _ _ (lo_load_label LO _ _)). left. dnorm.
      apply in_or_app. right. apply in_or_app. right. apply in_or_app. right. left. reflexivity. }
    apply ref_in_app; [subE E2; apply (IHs NMn _ _ _ _ E2)|].
    apply ref_in_cons_label. apply ref_in_app; [|subE E3; exact R].
    match goal with |- context [if ?b then _ else _] => destruct b end; [apply ref_in_plain; reflexivity|].
    apply table_refs. intros cl Hc. dnorm.
    apply in_or_app. right. apply in_or_app. right. apply in_or_app. right. right. apply in_or_app. right. apply M. exact Hc.
  - (* Invoke *)
    cbn [code_statement] in HC. apply (wrap_refs _ _ _ _ HC). clear HC. intros c0 HC. rinv HC.
    destruct (Nat.leb (List.length (txtors x0)) 1); [inversion HC; subst; rplain|].
    rinv HC. inversion HC; subst. rplain.
  - (* Literal *)
    cbn [code_statement] in HC. apply (wrap_refs _ _ _ _ HC). clear HC. intros c0 HC. rinv HC. inversion HC; subst; clear HC.
    apply ref_in_app; [rplain|]. sub (defs l). apply (IHs NM _ _ _ _ E0).
  - (* Op *)
    cbn [code_statement] in HC. apply (wrap_refs _ _ _ _ HC). clear HC. intros c0 HC. rinv HC. inversion HC; subst; clear HC.
    apply ref_in_app; [rplain|]. sub (defs l). apply (IHs NM _ _ _ _ E2).
  - (* PrintI64 *)
    cbn [code_statement] in HC. apply (wrap_refs _ _ _ _ HC). clear HC. intros c0 HC. rinv HC. inversion HC; subst; clear HC.
    apply ref_in_app; [rplain|]. sub (defs l). apply (IHs NM _ _ _ _ E0).
  - (* IfC *)
    cbn [code_statement] in HC. apply (wrap_refs _ _ _ _ HC). clear HC. intros c0 HC. rinv HC. inversion HC; subst; clear HC.
    cbn [calls_ok stmt_check] in NM. apply andb_true_iff in NM as [NM1 NM2].
    assert (IN : In ("lab" +++ dec (lc + 1)) (defs (x0 ++ l ++ [b_label B ("lab" +++ dec (lc + 1))] ++ l0))).
    { rewrite !(defs_app cdefs), (defs_label B cdefs crefs LO). apply in_or_app. right. apply in_or_app. right. left. reflexivity. }
    apply ref_in_app.
    + destruct b; rinv E0; inversion E0; subst.
      * apply (ref_in_only _ _ _ (lo_jcc2 LO _ _ _ _)). left. exact IN.
      * apply (ref_in_only _ _ _ (lo_jcc1 LO _ _ _)). left. exact IN.
    + apply ref_in_app; [sub (defs l); apply (IHs2 NM2 _ _ _ _ E1)|].
      apply ref_in_cons_label. sub (defs l0). apply (IHs1 NM1 _ _ _ _ E2).
  - (* Exit *)
    cbn [code_statement] in HC. apply (wrap_refs _ _ _ _ HC). clear HC. intros c0 HC. rinv HC. inversion HC; subst.
    apply ref_in_app; [rplain|]. apply (ref_in_only _ _ _ (lo_jump_label LO _)). right. left. reflexivity.
Qed.

Theorem translate_refs types : forall ds lc c lc',
  forallb (fun d => calls_ok (dbody d)) ds = true ->
  translate B types ds lc = Ok (c, lc') ->
  ref_in (defs c) c /\ forall d, In d ds -> In (show_ident (dname d) +++ "_") (defs c).
Proof.
  induction ds as [|d r IH]; intros lc c lc' NM H; cbn [translate] in H.
  - inversion H; subst. split; [apply ref_in_plain; reflexivity|intros d []].
  - cbn [forallb] in NM. apply andb_true_iff in NM as [NM1 NM2]. rinv H. inversion H; subst; clear H.
    destruct (IH _ _ _ NM2 E0) as [R M]. split.
    + apply ref_in_cons_label. apply ref_in_app; [sub (defs l); apply (code_statement_refs types _ NM1 _ _ _ _ E)|sub (defs l0); exact R].
    + rewrite (defs_cons_label B cdefs crefs LO). intros d' [<-|Hd]; [left; reflexivity|]. right. rewrite (defs_app cdefs).
      apply in_or_app. right. apply M. exact Hd.
Qed.
End LabelRefs.

(* every referenced label is defined, or is the routine's `cleanup`: for programs whose calls go to definitions *)
Theorem translate_refs_defined {Code Temp} (B : backend Code Temp) cdefs crefs (LO : labels_ok B cdefs crefs) types ds lc c lc' :
  prog_calls_ok ds = true -> translate B types ds lc = Ok (c, lc') ->
  forall l, In l (refs crefs c) -> In l (defs cdefs c) \/ l = "cleanup".
Proof.
  intros G H l Hl. destruct (translate_refs B cdefs crefs LO _ types ds lc c lc' G H) as [R M].
  destruct (R l Hl) as [X|[X|(f & Hf & ->)]]; [left; exact X|right; exact X|left].
  apply mem_strb_In in Hf. unfold dnames in Hf. apply in_map_iff in Hf as (d & E & Hd). rewrite <- E. apply M. exact Hd.
Qed.

(* ---------- building blocks for the memory operations of a back end ---------- *)
Section LabsLemmas.
Context {Code : Type}.
Variables (cdefs crefs : Code -> list string).
Notation defs := (defs cdefs).
Notation refs := (refs crefs).
Notation labs_ok := (labs_ok cdefs crefs).
Notation lab k := (pr (GLab k)).

Lemma labs_plain lc c : defs c = [] -> refs c = [] -> labs_ok lc c lc.
Proof.
  intros D R. split; [lia|]. exists []. rewrite D, R. split; [reflexivity|]. split; [constructor|]. split; [intros k []|apply incl_refl].
Qed.
Lemma labs_weaken a b a' b' c : (a' <= a)%N -> (b <= b')%N -> labs_ok a c b -> labs_ok a' c b'.
Proof.
  intros H1 H2 (L & ks & E & N & K & I). split; [lia|]. exists ks. repeat split; try assumption; apply K in H; lia.
Qed.
Lemma labs_perm a b c ks :
  (a <= b)%N -> Permutation (defs c) (map (fun k => lab k) ks) -> NoDup ks -> (forall k, In k ks -> (a < k <= b)%N) ->
  incl (refs c) (defs c) -> labs_ok a c b.
Proof.
  intros L P N K I. split; [exact L|]. apply Permutation_map_inv in P as (ks' & E & P).
  exists ks'. repeat split; try assumption; [apply (Permutation_NoDup P N)| |]; apply K, (Permutation_in _ (Permutation_sym P)); exact H.
Qed.
Lemma labs_app a b c c1 c2 : labs_ok a c1 b -> labs_ok b c2 c -> labs_ok a (c1 ++ c2) c.
Proof.
  intros (L1 & k1 & E1 & N1 & K1 & I1) (L2 & k2 & E2 & N2 & K2 & I2). split; [lia|]. exists (k1 ++ k2). split; [|split; [|split]].
  - rewrite (defs_app cdefs), E1, E2, map_app. reflexivity.
  - apply NoDup_app_intro; [exact N1|exact N2|]. intros k H1 H2. apply K1 in H1. apply K2 in H2. lia.
  - intros k H. apply in_app_or in H as [H|H]; [apply K1 in H|apply K2 in H]; lia.
  - rewrite (refs_app crefs), (defs_app cdefs). apply incl_app; [apply incl_appl|apply incl_appr]; assumption.
Qed.
(* skip_if_zero: one new label after the body *)
Lemma labs_skip a b body code :
  labs_ok a body b -> defs code = defs body ++ [lab (b + 1)] -> incl (refs code) (lab (b + 1) :: refs body) ->
  labs_ok a code (b + 1).
Proof.
  intros (L & ks & E & N & K & I) D R. split; [lia|]. exists (ks ++ [(b + 1)%N]). split; [|split; [|split]].
  - rewrite D, E, map_app. reflexivity.
  - apply NoDup_app_intro; [exact N|constructor; [intros []|constructor]|]. intros k H [<-|[]]. apply K in H. lia.
  - intros k H. apply in_app_or in H as [H|[<-|[]]]; [apply K in H|]; lia.
  - intros l Hl. apply R in Hl. rewrite D. apply in_or_app. destruct Hl as [<-|Hl]; [right; left; reflexivity|left; apply I; exact Hl].
Qed.
(* if_zero_then_else: the branches were generated before the two labels are drawn *)
Lemma labs_ite a b c th el code :
  labs_ok a th b -> labs_ok b el c ->
  defs code = defs el ++ lab (c + 1) :: defs th ++ [lab (c + 2)] ->
  incl (refs code) (lab (c + 1) :: refs el ++ lab (c + 2) :: refs th) ->
  labs_ok a code (c + 2).
Proof.
  intros (L1 & k1 & E1 & N1 & K1 & I1) (L2 & k2 & E2 & N2 & K2 & I2) D R.
  apply (labs_perm a (c + 2) code (k2 ++ (c + 1)%N :: k1 ++ [(c + 2)%N])); [lia| | | |].
  - rewrite D, E1, E2, map_app. cbn [map]. rewrite map_app. reflexivity.
  - apply NoDup_app_intro; [exact N2| |].
    + constructor.
      * intros H. apply in_app_or in H as [H|[H|[]]]; [apply K1 in H|]; lia.
      * apply NoDup_app_intro; [exact N1|constructor; [intros []|constructor]|]. intros k H [<-|[]]. apply K1 in H. lia.
    + intros k H1 [<-|H2]; [apply K2 in H1; lia|]. apply K2 in H1. apply in_app_or in H2 as [H2|[<-|[]]]; [apply K1 in H2|]; lia.
  - intros k H. apply in_app_or in H as [H|[<-|H]]; [apply K2 in H; lia|lia|].
    apply in_app_or in H as [H|[<-|[]]]; [apply K1 in H|]; lia.
  - intros l Hl. apply R in Hl. rewrite D. destruct Hl as [<-|Hl].
    + apply in_or_app. right. left. reflexivity.
    + apply in_app_or in Hl as [Hl|[<-|Hl]].
      * apply in_or_app. left. apply I2. exact Hl.
      * apply in_or_app. right. right. apply in_or_app. right. left. reflexivity.
      * apply in_or_app. right. right. apply in_or_app. left. apply I1. exact Hl.
Qed.
Lemma labs_cons_plain a b i c : cdefs i = [] -> crefs i = [] -> labs_ok a c b -> labs_ok a (i :: c) b.
Proof.
  intros D R H. change (i :: c) with ([i] ++ c). apply (labs_app a a b); [|exact H].
  apply labs_plain; unfold LabelGen.defs, LabelGen.refs; cbn [flat_map]; rewrite ?D, ?R; reflexivity.
Qed.
End LabsLemmas.
