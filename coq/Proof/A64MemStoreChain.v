(* `a_store` of any number of variables (objects chained over several blocks, axcut2aarch64 memory.rs store_fields)
   refines `Heap.alloc_object` on the AArch64 ISA semantics.  Port of Proof/X86MemStoreChain.v, X86MemStoreFull.v and
   X86MemStoreStk.v in ONE version (the strongest: words of the new object, chain, heap frame, stack frame):
     hdr64 / chain_hdr64 / alloc_object_hdr64   the extra AArch64 precondition: the header of the block reserved in the
                            HEAP register is a 64-bit value at every allocation of the chain (acquire_block tests it with
                            CMP #0 on the wrapped value; `acq_ok` does not bound it);
     a64_store_block_m      one round of store_fields: (link,) values, acquire_block = one `Heap.alloc`, from the machine-
                            level precondition; a64_store_block the same from `acq_ok` + `hdr64`;
     a64_store_fields_other the continuation blocks (BlockPosition::Other);
     a64_store_full         a_store to_store remaining = Heap.alloc_object (fsts ...) with the data and pointer words of
                            every stored variable addressed through the chain, the chain = the acquired blocks, the
                            frame for heap words and for the stack;
     a64_store_ok, a64_store_one_block_ok   corollaries in the shape of C09_x86_store / C09_x86_store_one_block.
   SHARED WITH x86-64 (qualified names, nothing copied): acq_ok, chain_pre, alloc_object_pre, alloc_congr, store_other_*,
   rest_len (Proof/X86MemStoreChain.v), chain_acq, alloc_object_acq (X86HeapAcq.v), wblocks, waddrs (X86HeapDefs.v),
   blk_words, chain_holds and their lemmas, chain_acq_congr, frame_blocks (X86MemStoreFull.v), nbo (X86MemLoadChain.v). *)
From Coq Require Import List ZArith NArith String Bool Lia FMapPositive.
From SCC Require Import Base.Sexp Lang.AxSyn Sem.AxSem Model.Backend Model.A64 Sem.A64Sem Generated.Constants
     Proof.A64State Proof.A64ImmHw Proof.A64Imm Proof.A64Sel Proof.A64Exec Proof.A64MemSubst Proof.A64Mem Proof.A64MemOps
     Proof.A64MemStore.
From SCC Require Model.Heap Model.X86 Sem.X86Sem Proof.X86Mem Proof.X86MemFrame Proof.X86MemStore Proof.X86MemStoreChain
     Proof.X86MemLoadChain Proof.X86HeapDefs Proof.X86HeapAcq Proof.X86MemStoreFull.
Import ListNotations.
Open Scope list_scope.
Open Scope Z_scope.

Notation acq_ok := X86MemStoreChain.acq_ok.
Notation chain_pre := X86MemStoreChain.chain_pre.
Notation alloc_object_pre := X86MemStoreChain.alloc_object_pre.
Notation rest_len := X86MemStoreChain.rest_len.
Notation chain_acq := X86HeapAcq.chain_acq.
Notation alloc_object_acq := X86HeapAcq.alloc_object_acq.
Notation wblocks := X86HeapDefs.wblocks.
Notation waddrs := X86HeapDefs.waddrs.
Notation blk_words := X86MemStoreFull.blk_words.
Notation chain_holds := X86MemStoreFull.chain_holds.
Notation nbo := X86MemLoadChain.nbo.
Notation st_eqB_trans := X86Mem.st_eqB_trans.
Notation st_eqB_sym := X86Mem.st_eqB_sym.
Notation st_eqB_refl := X86Mem.st_eqB_refl.

(* ---------- the extra AArch64 precondition ---------- *)
Definition hdr64 (a : Heap.st) : Prop := min_int <= Heap.hdr (Heap.m a (Heap.heap a)) <= max_int.

Fixpoint chain_hdr64 (fuel : nat) (rest : list Z) (link : Z) (a : Heap.st) : Prop :=
  match fuel with
  | O => True
  | S f =>
      match rest with
      | [] => True
      | _ => hdr64 a /\
             chain_hdr64 f (Heap.butlastn 2 rest) (fst (Heap.alloc (Heap.pad 2 (Heap.lastn 2 rest) ++ [link]) a))
                         (snd (Heap.alloc (Heap.pad 2 (Heap.lastn 2 rest) ++ [link]) a))
      end
  end.
Definition alloc_object_hdr64 (fields : list Z) (a : Heap.st) : Prop :=
  match fields with
  | [] => True
  | _ => hdr64 a /\
         chain_hdr64 (List.length fields) (Heap.butlastn 3 fields) (fst (Heap.alloc (Heap.pad 3 (Heap.lastn 3 fields)) a))
                     (snd (Heap.alloc (Heap.pad 3 (Heap.lastn 3 fields)) a))
  end.

Lemma hdr64_eqB a b : st_eqB a b -> is_blk (Heap.heap a) -> hdr64 a -> hdr64 b.
Proof. intros (E1 & _ & _ & E4) Hb H. unfold hdr64 in *. now rewrite <- E1, <- (E4 _ Hb). Qed.

Lemma chain_hdr64_congr : forall f rest link a b,
  st_eqB a b -> chain_pre f rest link a -> chain_hdr64 f rest link a -> chain_hdr64 f rest link b.
Proof.
  induction f as [|f IH]; intros rest link a b E Pre H; [exact I|].
  destruct rest as [|x r]; [exact I|].
  cbn [X86MemStoreChain.chain_pre chain_hdr64] in *. destruct Pre as [A Pre]. destruct H as [H64 H].
  destruct (X86MemStoreChain.alloc_congr a b (Heap.pad 2 (Heap.lastn 2 (x :: r)) ++ [link]) E A) as [Ef Es].
  rewrite <- Ef. split; [eapply hdr64_eqB; [exact E|apply A|exact H64]|]. eapply IH; eassumption.
Qed.

(* ---------- the precondition of acquire_block on the machine state ---------- *)
Lemma acq_ok_machine F s :
  acq_ok (abs_heap F s) ->
  exists rv h2, rget s HEAP = Some rv /\ is_blk rv /\ rget s FREE = Some h2 /\
    (hword s rv = 0 -> is_blk h2) /\
    (hword s rv = 0 -> hword s h2 <> 0 ->
       (forall off, off = 16 \/ off = 32 \/ off = 48 -> hword s (h2 + off) = 0 \/ is_blk (hword s (h2 + off))) /\
       bounded 3 s (hword s h2)).
Proof.
  intros (A1 & A2 & A3 & A4). cbn [abs_heap Heap.heap Heap.free Heap.m] in *.
  unfold reg_or0 in *.
  destruct (rget s HEAP) as [rv|] eqn:RH; [|apply is_blk_pos in A1; lia].
  destruct (rget s FREE) as [h2|] eqn:RF; [|contradiction].
  exists rv, h2. split; [reflexivity|]. split; [exact A1|]. split; [reflexivity|]. split; [exact A3|].
  intros H0 Hn0. destruct (A4 H0 Hn0) as (K & B1 & B2). cbn [abs_mem Heap.ps Heap.hdr] in *. split; [|split; [exact B1|exact B2]].
  inversion K as [|? ? K1 K']; subst. inversion K' as [|? ? K2 K'']; subst. inversion K'' as [|? ? K3 _]; subst.
  intros off [->|[->| ->]]; assumption.
Qed.

Section Chain.
Variable im : image.

(* ---------- one round of store_fields ---------- *)
Definition link_code (bp : block_position) (remaining to_store : ctx) : res (list acode) :=
  match bp with Other => store_field Fst (remaining ++ to_store) HEAP (FIELDS_PER_BLOCK - 1) | Last => Ok [] end.

Lemma store_fields_unfold fuel to_store remaining bp lc cs lc' :
  to_store <> [] -> store_fields (S fuel) to_store remaining bp lc = Ok (cs, lc') ->
  let rl := rest_len (List.length to_store) (3 - bp_n bp) in
  let k := (2 * N.of_nat (List.length (remaining ++ firstn rl to_store)))%N in
  exists c0 sv c3,
    link_code bp remaining to_store = Ok c0 /\
    store_values (rev (skipn rl to_store)) (remaining ++ firstn rl to_store) HEAP (3 - bp_n bp) = Ok sv /\
    (k < MAXPOS)%N /\
    store_fields fuel (firstn rl to_store) remaining Other (snd (acquire_block (tpos k) lc)) = Ok (c3, lc') /\
    cs = c0 ++ sv ++ fst (acquire_block (tpos k) lc) ++ c3.
Proof.
  intros Hne H rl k. cbn [store_fields] in H. destruct to_store as [|x r]; [contradiction|].
  change (FIELDS_PER_BLOCK - bp_n bp)%N with (3 - bp_n bp)%N in H.
  fold (X86MemStoreChain.rest_len (List.length (x :: r)) (3 - bp_n bp)) in H. fold rl in H.
  fold (link_code bp remaining (x :: r)) in H.
  destruct (link_code bp remaining (x :: r)) as [c0|] eqn:E0; [|discriminate]. cbn [rbind] in H.
  destruct (store_values (rev (skipn rl (x :: r))) (remaining ++ firstn rl (x :: r)) HEAP (3 - bp_n bp)) as [sv|] eqn:Esv; [|discriminate].
  cbn [rbind] in H.
  destruct (a_fresh Fst (remaining ++ firstn rl (x :: r))) as [t|] eqn:Et; [|discriminate]. cbn [rbind] in H.
  apply a_fresh_tpos in Et as [-> Hk]. cbn [tnum_n] in *. rewrite N.add_0_r in *. fold k in H, Hk.
  destruct (acquire_block (tpos k) lc) as [c2 lc2] eqn:EA.
  destruct (store_fields fuel (firstn rl (x :: r)) remaining Other lc2) as [[c3 lc3]|] eqn:E3; [|discriminate]. cbn [rbind] in H.
  inversion H; subst. exists c0, sv, c3. cbn [fst snd]. auto.
Qed.

Lemma a64_store_block_m pos bp to_store remaining lc c0 sv s sp F val link rv h2 :
  let E := List.length remaining in
  let n := List.length to_store in
  let cap := (3 - bp_n bp)%N in
  let rl := rest_len n cap in
  let k := (2 * N.of_nat (E + rl))%N in
  let acq := fst (acquire_block (tpos k) lc) in
  to_store <> [] ->
  link_code bp remaining to_store = Ok c0 ->
  store_values (rev (skipn rl to_store)) (remaining ++ firstn rl to_store) HEAP cap = Ok sv ->
  (k < MAXPOS)%N ->
  code_at im pos (c0 ++ sv ++ acq) -> labels_at im pos (c0 ++ sv ++ acq) ->
  frame_ok s sp -> vals_ok s sp val E to_store ->
  (bp = Other -> lget s sp (tpos (2 * N.of_nat (E + n))) = Some link) ->
  rget s HEAP = Some rv -> is_blk rv -> rget s FREE = Some h2 ->
  min_int <= hword s rv <= max_int ->
  (hword s rv = 0 -> is_blk h2) ->
  (hword s rv = 0 -> hword s h2 <> 0 ->
     (forall off, off = 16 \/ off = 32 \/ off = 48 -> hword s (h2 + off) = 0 \/ is_blk (hword s (h2 + off))) /\
     bounded 3 s (hword s h2)) ->
  let P := Heap.pad (N.to_nat cap) (Heap.lastn (N.to_nat cap) (fsts val E to_store)) ++ (match bp with Other => [link] | Last => [] end) in
  let res := Heap.alloc P (abs_heap F s) in
  exists s', exec_to im pos s (padd pos (List.length (c0 ++ sv ++ acq))) s' /\
    st_eqB (abs_heap (Heap.frontier (snd res)) s') (snd res) /\
    lget s' sp (tpos k) = Some (fst res) /\
    (forall k', (k' < MAXPOS)%N -> k' <> k -> lget s' sp (tpos k') = lget s sp (tpos k')) /\
    out s' = out s /\ frame_ok s' sp /\
    fst res = rv /\
    blk_words (hword s') val (E + rl) (skipn rl to_store) rv (N.to_nat cap) /\
    (bp = Other -> hword s' (rv + 48) = link) /\
    (forall a, ~ is_blk a -> a < rv \/ rv + 64 <= a -> hword s' a = hword s a) /\
    stack_frame s s' sp.
Proof.
  intros E n cap rl k acq Hne Hc0 Hsv Hk HC HL FR V Hlink R Hb Rf I64 Hb2 Hch P res.
  assert (Hcap : (cap = 3 \/ cap = 2)%N) by (unfold cap; destruct bp; cbn; auto).
  assert (Hrl : rl = (n - N.to_nat cap)%nat) by apply X86MemStoreChain.rest_len_val.
  assert (Hrln : (rl <= n)%nat) by lia.
  assert (Lfirst : List.length (firstn rl to_store) = rl) by (rewrite firstn_length; fold n; lia).
  assert (Lnext : List.length (skipn rl to_store) = (n - rl)%nat) by (rewrite skipn_length; reflexivity).
  assert (Lrr : List.length (remaining ++ firstn rl to_store) = (E + rl)%nat) by (rewrite app_length, Lfirst; reflexivity).
  apply code_at_app2 in HC as [HC0 HC]. apply labels_at_app2 in HL as [_ HL].
  apply code_at_app2 in HC as [HC1 HC2]. apply labels_at_app2 in HL as [_ HL2].
  (* the link *)
  assert (S0 : exists s0, exec_to im pos s (padd pos (List.length c0)) s0 /\ sbt s s0 /\
            (forall a, hword s0 a = if (match bp with Other => true | Last => false end) && (a =? rv + 48) then link else hword s a)).
  { destruct bp; cbn [link_code] in Hc0.
    - inversion Hc0; subst c0. exists s. split; [apply exec_refl|]. split; [apply sbt_refl|]. reflexivity.
    - change (FIELDS_PER_BLOCK - 1)%N with 2%N in Hc0. apply store_field_shape in Hc0 as [K0 ->].
      rewrite app_length in *. cbn [tnum_n] in *. rewrite N.add_0_r in *. fold E n in K0, HC0 |- *.
      destruct (a64_store_field_code_ok im pos _ HEAP _ s sp link rv HC0 FR (tpos_loc_ok _ K0) (Hlink eq_refl) I ltac:(discriminate) R)
        as (s0 & ST0 & SB0 & W0).
      { apply field_addr; auto. lia. }
      exists s0. split; [exact ST0|]. split; [exact SB0|]. intros a. rewrite W0. rewrite fo_F2. reflexivity. }
  destruct S0 as (s0 & ST0 & SB0 & W0).
  assert (FR0 : frame_ok s0 sp) by (eapply sbt_frame; eauto).
  assert (R0 : rget s0 HEAP = Some rv) by (destruct SB0 as (A & _); rewrite A by discriminate; exact R).
  assert (W0' : forall a, a <> rv + 48 -> hword s0 a = hword s a).
  { intros a Ha. rewrite W0. destruct (Z.eqb_spec a (rv + 48)); [contradiction|]. now rewrite andb_false_r. }
  (* the values *)
  assert (V0 : vals_ok s0 sp val (E + rl) (skipn rl to_store)).
  { eapply vals_ok_same; [exact SB0|]. rewrite <- Lfirst at 1. apply (vals_ok_app_r s sp val E (firstn rl to_store)).
    now rewrite firstn_skipn. }
  rewrite <- Lrr in V0.
  destruct (a64_store_values_ok im _ (skipn rl to_store) (remaining ++ firstn rl to_store) cap sv s0 sp rv F val Hsv Hcap
              ltac:(rewrite Lnext; lia) HC1 FR0 R0 Hb V0) as (s1 & ST1 & SB1 & St & EQ1).
  rewrite Lrr in St, EQ1.
  assert (Hff : (cap <= 3)%N) by (destruct Hcap as [-> | ->]; lia).
  assert (SB01 : sbt s s1) by (eapply sbt_trans; eassumption).
  assert (FR1 : frame_ok s1 sp) by (eapply sbt_frame; eauto).
  assert (R1 : rget s1 HEAP = Some rv) by (destruct SB01 as (A & _); rewrite A by discriminate; exact R).
  assert (Rf1 : rget s1 FREE = Some h2) by (destruct SB01 as (A & _); rewrite A by discriminate; exact Rf).
  assert (Hdr : forall x, is_blk x -> hword s1 x = hword s x).
  { intros x Hx. rewrite (X86MemStore.stored_blk_hdr _ _ _ _ _ _ _ x St Hff Hb Hx). apply W0'.
    destruct (Z.eq_dec x rv) as [->|Hne']; [lia|]. destruct (X86MemFrame.is_blk_apart x rv Hx Hb Hne'); lia. }
  assert (Hoth : forall x i, is_blk x -> x <> rv -> 0 <= i < 64 -> hword s1 (x + i) = hword s (x + i)).
  { intros x i Hx Hne' Hi. rewrite (X86MemStore.stored_other_blk _ _ _ _ _ _ _ x i St Hff Hb Hx Hne' Hi). apply W0'.
    destruct (X86MemFrame.is_blk_apart x rv Hx Hb Hne'); lia. }
  assert (I641 : min_int <= hword s1 rv <= max_int) by (rewrite Hdr by auto; exact I64).
  assert (Hb21 : hword s1 rv = 0 -> is_blk h2) by (rewrite Hdr by auto; exact Hb2).
  assert (Hch1 : hword s1 rv = 0 -> hword s1 h2 <> 0 ->
     (forall off, off = 16 \/ off = 32 \/ off = 48 -> hword s1 (h2 + off) = 0 \/ is_blk (hword s1 (h2 + off))) /\
     bounded 3 s1 (hword s1 h2)).
  { intros H0 Hn0. pose proof (Hb21 H0) as Hbh2.
    assert (Hne' : h2 <> rv) by (intros ->; contradiction).
    rewrite Hdr in H0, Hn0 by auto. destruct (Hch H0 Hn0) as [Kids [B1 B2]]. split.
    - intros off Hoff. rewrite Hoth by (auto; lia). now apply Kids.
    - rewrite Hdr by auto. split; [|exact B2]. intros x Hx. rewrite Hdr by auto. now apply B1. }
  fold k in HC2, HL2.
  destruct (a64_acquire_block_tpos_ok im _ k lc s1 sp rv h2 F Hk HC2 HL2 FR1 R1 Hb Rf1 I641 Hb21 Hch1)
    as (s2 & ST2 & EQ2 & Rr & Ef & Oth & Out & FR2 & NB & SF2).
  (* the abstract side *)
  assert (RH : reg_or0 s HEAP = rv) by (unfold reg_or0; now rewrite R).
  assert (RF : reg_or0 s FREE = h2) by (unfold reg_or0; now rewrite Rf).
  assert (RH0 : reg_or0 s0 HEAP = rv) by (unfold reg_or0; now rewrite R0).
  assert (RF0 : reg_or0 s0 FREE = h2) by (unfold reg_or0; destruct SB0 as (A & _); rewrite A by discriminate; now rewrite Rf).
  assert (EP : Heap.pad (N.to_nat cap) (fsts val (E + rl) (skipn rl to_store)) ++ link_slot cap (hword s0) rv = P).
  { unfold P. f_equal.
    - f_equal. rewrite X86MemStoreChain.fsts_skipn by (fold n; lia). unfold Heap.lastn. rewrite X86MemStore.fsts_length. fold n. now rewrite Hrl.
    - unfold X86MemStore.link_slot, cap. destruct bp; cbn [bp_n N.sub N.eqb Pos.eqb]; [reflexivity|].
      rewrite W0, Z.eqb_refl. reflexivity. }
  rewrite EP, RH0, RF0 in EQ1.
  set (A := {| Heap.m := Heap.set_ps (abs_mem s) rv P; Heap.heap := rv; Heap.free := h2; Heap.frontier := F |}).
  assert (Eres : res = Heap.acquire A).
  { unfold res, Heap.alloc, A. cbn [abs_heap Heap.m Heap.heap Heap.free Heap.frontier]. now rewrite RH, RF. }
  assert (EQ1' : st_eqB (abs_heap F s1) A).
  { eapply st_eqB_trans; [exact EQ1|]. split; [reflexivity|]. split; [reflexivity|]. split; [reflexivity|].
    intros x Hx. unfold A. cbn [Heap.m]. unfold Heap.set_ps, Heap.upd.
    destruct (Z.eqb_spec x rv) as [->|Hne'].
    - unfold abs_mem. cbn [Heap.hdr]. rewrite W0' by lia. reflexivity.
    - unfold abs_mem. destruct (X86MemFrame.is_blk_apart x rv Hx Hb Hne'); rewrite !W0' by lia; reflexivity. }
  destruct (X86MemFrame.acquire_st_eqB (abs_heap F s1) A EQ1') as [Efst Esnd].
  { cbn [abs_heap Heap.heap]. unfold reg_or0. now rewrite R1. }
  { cbn [abs_heap Heap.heap Heap.free Heap.m]. unfold reg_or0. rewrite R1, Rf1. exact Hb21. }
  { cbn [abs_heap Heap.heap Heap.free Heap.m]. unfold reg_or0. rewrite R1, Rf1. intros H0 Hn0.
    destruct (Hch1 H0 Hn0) as [Kids _]. cbn [abs_mem Heap.ps]. repeat (apply Forall_cons; [apply Kids; auto|]). apply Forall_nil. }
  assert (EFr : Heap.frontier (snd (Heap.acquire (abs_heap F s1))) = Heap.frontier (snd (Heap.acquire A)))
    by (destruct Esnd as (_ & _ & X & _); exact X).
  clearbody res. subst res.
  apply stored_a64 in St. destruct St as (S1 & S2 & S3).
  destruct (tpos_not_reserved k) as (NH & NF & NT & NT2 & _).
  exists s2. split; [|split; [|split; [|split; [|split; [|split; [|split; [|split; [|split; [|split]]]]]]]]].
  - rewrite !app_length, !padd_add. eapply exec_to_trans; [exact ST0|]. eapply exec_to_trans; [exact ST1|]. exact ST2.
  - rewrite <- EFr. eapply st_eqB_trans; eassumption.
  - rewrite <- Efst, Ef. exact Rr.
  - intros k' Hk' Hne'. rewrite Oth.
    + apply sbt_tpos. exact SB01.
    + now apply tpos_loc_ok.
    + intro Eq. apply tpos_inj in Eq. contradiction.
    + apply tpos_not_reserved.
    + apply tpos_not_reserved.
    + apply tpos_not_reserved.
    + apply tpos_not_reserved.
  - rewrite Out. destruct SB01 as (_ & _ & X). exact X.
  - exact FR2.
  - rewrite <- Efst. exact Ef.
  - split.
    + intros i b Hi. assert (Hil : (i < n - rl)%nat) by (rewrite <- Lnext; apply nth_error_Some; congruence).
      destruct (S1 i b Hi) as [A1 A2]. rewrite field_offset_val in A1, A2. cbn [tnum_n] in A1, A2.
      rewrite Lnext in *.
      assert (EA : rv + 16 + 16 * Z.of_nat (N.to_nat cap - (n - rl) + i)
                   = rv + (16 + 16 * Z.of_N (cap - N.of_nat (n - rl) + N.of_nat i) + 8 * Z.of_N 0)) by lia.
      assert (EB : rv + 16 + 16 * Z.of_nat (N.to_nat cap - (n - rl) + i) + 8
                   = rv + (16 + 16 * Z.of_N (cap - N.of_nat (n - rl) + N.of_nat i) + 8 * Z.of_N 1)) by lia.
      rewrite EB, EA. rewrite !NB by (apply X86MemFrame.not_blk_off; [exact Hb|lia]). auto.
    + intros j Hj. rewrite Lnext in *. specialize (S2 (N.of_nat j) ltac:(lia)).
      rewrite field_offset_val in S2. cbn [tnum_n] in S2.
      replace (rv + 16 + 16 * Z.of_nat j) with (rv + (16 + 16 * Z.of_N (N.of_nat j) + 8 * Z.of_N 0)) by lia.
      rewrite NB by (apply X86MemFrame.not_blk_off; [exact Hb|lia]). exact S2.
  - intros ->. rewrite NB by (apply X86MemFrame.not_blk_off; [exact Hb|lia]).
    rewrite S3 by (change (3 - bp_n Other)%N with 2%N in *; lia).
    rewrite W0, Z.eqb_refl. reflexivity.
  - intros a Ha Hout. rewrite NB by exact Ha. rewrite S3 by lia. apply W0'. lia.
  - eapply stack_frame_trans; [apply stack_frame_sbt; exact SB01|exact SF2].
Qed.

Lemma a64_store_block pos bp to_store remaining lc c0 sv s sp F val link :
  let E := List.length remaining in
  let n := List.length to_store in
  let cap := (3 - bp_n bp)%N in
  let rl := rest_len n cap in
  let k := (2 * N.of_nat (E + rl))%N in
  let acq := fst (acquire_block (tpos k) lc) in
  to_store <> [] ->
  link_code bp remaining to_store = Ok c0 ->
  store_values (rev (skipn rl to_store)) (remaining ++ firstn rl to_store) HEAP cap = Ok sv ->
  (k < MAXPOS)%N ->
  code_at im pos (c0 ++ sv ++ acq) -> labels_at im pos (c0 ++ sv ++ acq) ->
  frame_ok s sp -> vals_ok s sp val E to_store ->
  (bp = Other -> lget s sp (tpos (2 * N.of_nat (E + n))) = Some link) ->
  acq_ok (abs_heap F s) -> hdr64 (abs_heap F s) ->
  let P := Heap.pad (N.to_nat cap) (Heap.lastn (N.to_nat cap) (fsts val E to_store)) ++ (match bp with Other => [link] | Last => [] end) in
  let res := Heap.alloc P (abs_heap F s) in
  let rv := Heap.heap (abs_heap F s) in
  exists s', exec_to im pos s (padd pos (List.length (c0 ++ sv ++ acq))) s' /\
    st_eqB (abs_heap (Heap.frontier (snd res)) s') (snd res) /\
    lget s' sp (tpos k) = Some (fst res) /\ is_blk (fst res) /\
    (forall k', (k' < MAXPOS)%N -> k' <> k -> lget s' sp (tpos k') = lget s sp (tpos k')) /\
    out s' = out s /\ frame_ok s' sp /\
    fst res = rv /\
    blk_words (hword s') val (E + rl) (skipn rl to_store) rv (N.to_nat cap) /\
    (bp = Other -> hword s' (rv + 48) = link) /\
    (forall a, ~ is_blk a -> a < rv \/ rv + 64 <= a -> hword s' a = hword s a) /\
    stack_frame s s' sp.
Proof.
  intros E n cap rl k acq Hne Hc0 Hsv Hk HC HL FR V Hlink AOK H64 P res rv0.
  destruct (acq_ok_machine F s AOK) as (rv & h2 & R & Hb & Rf & Hb2 & Hch).
  assert (Erv : rv0 = rv) by (unfold rv0; cbn [abs_heap Heap.heap]; unfold reg_or0; now rewrite R).
  rewrite Erv. clear rv0 Erv.
  assert (I64 : min_int <= hword s rv <= max_int).
  { unfold hdr64 in H64. cbn [abs_heap Heap.heap Heap.m] in H64. unfold reg_or0 in H64. rewrite R in H64. exact H64. }
  destruct (a64_store_block_m pos bp to_store remaining lc c0 sv s sp F val link rv h2 Hne Hc0 Hsv Hk HC HL FR V Hlink R Hb Rf I64 Hb2 Hch)
    as (s' & X1 & X2 & X3 & X4 & X5 & X6 & X7 & X8 & X9 & X10 & X11).
  exists s'. fold E n cap rl k acq P res in X1, X2, X3, X4, X7, X8.
  split; [exact X1|]. split; [exact X2|]. split; [exact X3|]. split; [rewrite X7; exact Hb|].
  split; [exact X4|]. split; [exact X5|]. split; [exact X6|]. split; [exact X7|]. split; [exact X8|].
  split; [exact X9|]. split; [exact X10|exact X11].
Qed.
(* ---------- the continuation blocks (BlockPosition::Other) ---------- *)
(* the last conjunct (chain of the object, words of the variables) is conditional on the acquired blocks being
   pairwise different and different from the blocks already written: the rest holds without *)
Lemma a64_store_fields_other : forall fuel to_store remaining lc cs lc' pos s sp F val link fa,
  store_fields fuel to_store remaining Other lc = Ok (cs, lc') ->
  (List.length to_store < fuel)%nat -> (List.length to_store <= fa)%nat ->
  code_at im pos cs -> labels_at im pos cs -> frame_ok s sp ->
  vals_ok s sp val (List.length remaining) to_store ->
  lget s sp (tpos (2 * N.of_nat (List.length remaining + List.length to_store))) = Some link ->
  chain_pre fa (fsts val (List.length remaining) to_store) link (abs_heap F s) ->
  chain_hdr64 fa (fsts val (List.length remaining) to_store) link (abs_heap F s) ->
  let acq := chain_acq fa (fsts val (List.length remaining) to_store) link (abs_heap F s) in
  let res := Heap.store_other fa (fsts val (List.length remaining) to_store) link (abs_heap F s) in
  exists s', exec_to im pos s (padd pos (List.length cs)) s' /\
    st_eqB (abs_heap (Heap.frontier (snd res)) s') (snd res) /\
    lget s' sp (tpos (2 * N.of_nat (List.length remaining))) = Some (fst res) /\
    (forall k, (k < 2 * N.of_nat (List.length remaining))%N -> lget s' sp (tpos k) = lget s sp (tpos k)) /\
    out s' = out s /\ frame_ok s' sp /\
    (forall a, ~ is_blk a -> (forall b, In b acq -> a < b \/ b + 64 <= a) -> hword s' a = hword s a) /\
    stack_frame s s' sp /\
    (forall done kk,
       let bl := wblocks kk (hword s) link in
       let K := (kk + nbo (List.length to_store))%nat in
       NoDup acq -> Forall is_blk bl -> (forall b, In b acq -> ~ In b bl) ->
       chain_holds (hword s) val (List.length remaining + List.length to_store) done kk link ->
       (to_store <> [] -> List.length done = (2 * kk + 3)%nat) ->
       wblocks K (hword s') (fst res) = rev acq ++ bl /\
       Forall is_blk (rev acq ++ bl) /\
       chain_holds (hword s') val (List.length remaining) (to_store ++ done) K (fst res)).
Proof.
  induction fuel as [|fuel IH]; intros to_store remaining lc cs lc' pos s sp F val link fa Hsf Hfuel Hfa HC HL FR V Hlink Pre H64 acq res; [lia|].
  set (E := List.length remaining) in *.
  destruct to_store as [|x r].
  - cbn [store_fields] in Hsf. inversion Hsf; subst cs lc'. cbn [List.length] in Hlink |- *. rewrite Nat.add_0_r in Hlink |- *.
    assert (Hres : res = (link, abs_heap F s)) by (unfold res; destruct fa; reflexivity).
    assert (Hacq : acq = []) by (unfold acq; destruct fa; reflexivity).
    rewrite Hres, Hacq. cbn [fst snd abs_heap Heap.frontier List.length padd rev app].
    exists s. split; [apply exec_refl|]. split; [apply st_eqB_refl|]. repeat (split; [auto; fail|]).
    split; [apply stack_frame_refl|].
    intros done kk _ Hbl _ CH _. change (nbo 0) with 0%nat. rewrite Nat.add_0_r. auto.
  - set (to_store := x :: r) in *. set (n := List.length to_store) in *.
    destruct (store_fields_unfold fuel to_store remaining Other lc cs lc' ltac:(discriminate) Hsf) as (c0 & sv & c3 & Hc0 & Hsv & Hk & Hsf3 & ->).
    change (3 - bp_n Other)%N with 2%N in *. fold n in Hk, Hsv, Hsf3, HC, HL |- *.
    set (rl := rest_len n 2) in *.
    assert (Hn1 : (1 <= n)%nat) by (unfold n, to_store; cbn [List.length]; lia).
    assert (Hrl : rl = (n - 2)%nat) by apply X86MemStoreChain.rest_len_val.
    assert (Lfirst : List.length (firstn rl to_store) = rl) by (rewrite firstn_length; fold n; lia).
    assert (Lnext : List.length (skipn rl to_store) = (n - rl)%nat) by (rewrite skipn_length; reflexivity).
    assert (Lrr : List.length (remaining ++ firstn rl to_store) = (E + rl)%nat) by (rewrite app_length, Lfirst; reflexivity).
    rewrite Lrr in *.
    destruct fa as [|fa]; [unfold n, to_store in Hfa; cbn [List.length] in Hfa; lia|].
    set (fields := fsts val E to_store) in *.
    assert (Hfne : fields <> []) by (unfold fields, to_store; cbn [X86MemStore.fsts]; discriminate).
    assert (Lfields : List.length fields = n) by apply X86MemStore.fsts_length.
    set (P := Heap.pad 2 (Heap.lastn 2 fields) ++ [link]) in *.
    assert (Pre' : acq_ok (abs_heap F s) /\ chain_pre fa (Heap.butlastn 2 fields) (fst (Heap.alloc P (abs_heap F s))) (snd (Heap.alloc P (abs_heap F s)))).
    { cbn [X86MemStoreChain.chain_pre] in Pre. destruct fields; [contradiction|]. exact Pre. }
    destruct Pre' as [AOK Pre'].
    assert (H64' : hdr64 (abs_heap F s) /\ chain_hdr64 fa (Heap.butlastn 2 fields) (fst (Heap.alloc P (abs_heap F s))) (snd (Heap.alloc P (abs_heap F s)))).
    { cbn [chain_hdr64] in H64. destruct fields; [contradiction|]. exact H64. }
    destruct H64' as [H640 H64'].
    assert (Hres : res = Heap.store_other fa (Heap.butlastn 2 fields) (fst (Heap.alloc P (abs_heap F s))) (snd (Heap.alloc P (abs_heap F s))))
      by (unfold res; now rewrite X86MemStoreChain.store_other_step).
    assert (Hacq : acq = Heap.heap (abs_heap F s) ::
                     chain_acq fa (Heap.butlastn 2 fields) (fst (Heap.alloc P (abs_heap F s))) (snd (Heap.alloc P (abs_heap F s)))).
    { unfold acq. cbn [X86HeapAcq.chain_acq]. destruct fields; [contradiction|]. reflexivity. }
    rewrite Hres. clear Hres res. rewrite Hacq. clear Hacq acq.
    rewrite !app_assoc in HC, HL. apply code_at_app2 in HC as [HC1 HC3]. apply labels_at_app2 in HL as [HL1 HL3].
    rewrite <- !app_assoc in HC1, HL1. rewrite <- (app_assoc c0 sv) in HC3, HL3.
    destruct (a64_store_block pos Other to_store remaining lc c0 sv s sp F val link ltac:(discriminate) Hc0 Hsv Hk HC1 HL1 FR V (fun _ => Hlink) AOK H640)
      as (s2 & ST2 & EQ2 & Rr & Bb & Oth & Out & FR2 & Erv & BW & LK & Fr2 & SF2).
    specialize (LK eq_refl).
    change (N.to_nat (3 - bp_n Other)) with 2%nat in *. change (3 - bp_n Other)%N with 2%N in *. fold E n rl fields P in ST2, EQ2, Rr, Bb, Oth, Erv, BW.
    set (b := fst (Heap.alloc P (abs_heap F s))) in *. set (a1 := snd (Heap.alloc P (abs_heap F s))) in *.
    set (rv := Heap.heap (abs_heap F s)) in *. rewrite <- Erv in BW, LK, Fr2 |- *. clear Erv rv.
    assert (Hbut : Heap.butlastn 2 fields = fsts val E (firstn rl to_store)).
    { unfold Heap.butlastn. rewrite Lfields. unfold fields. rewrite X86MemStoreChain.fsts_firstn, Hrl. reflexivity. }
    rewrite Hbut in *.
    assert (V2 : vals_ok s2 sp val E (firstn rl to_store)).
    { intros i bb Hi. assert (Hi' : (i < rl)%nat) by (rewrite <- Lfirst; apply nth_error_Some; congruence).
      assert (Hin : nth_error to_store i = Some bb).
      { rewrite <- (firstn_skipn rl to_store). rewrite nth_error_app1 by (rewrite Lfirst; exact Hi'). exact Hi. }
      assert (Kmax : (2 * N.of_nat (E + i) + 1 < MAXPOS)%N) by lia.
      destruct (V i bb Hin) as [A B]. split.
      - rewrite Oth by lia. exact A.
      - intros Hx. rewrite Oth by lia. auto. }
    destruct (X86MemStoreChain.store_other_congr fa _ b a1 (abs_heap (Heap.frontier a1) s2) (st_eqB_sym _ _ EQ2) Pre') as (Pre2 & Ef & Es).
    pose proof (chain_hdr64_congr fa _ b a1 (abs_heap (Heap.frontier a1) s2) (st_eqB_sym _ _ EQ2) Pre' H64') as H642.
    pose proof (X86MemStoreFull.chain_acq_congr fa _ b a1 (abs_heap (Heap.frontier a1) s2) (st_eqB_sym _ _ EQ2) Pre') as Eacq.
    set (acq' := chain_acq fa (fsts val E (firstn rl to_store)) b a1) in *.
    rewrite (app_assoc sv), (app_assoc c0).
    destruct (IH (firstn rl to_store) remaining _ c3 lc' _ s2 sp (Heap.frontier a1) val b fa Hsf3
                ltac:(rewrite Lfirst; unfold n, to_store in *; cbn [List.length] in *; lia)
                ltac:(rewrite Lfirst; unfold n, to_store in *; cbn [List.length] in *; lia) HC3 HL3 FR2 V2)
      as (s3 & ST3 & EQ3 & R3 & Oth3 & Out3 & FR3 & Fr3 & SF3 & Strong3).
    { rewrite Lfirst. exact Rr. }
    { exact Pre2. }
    { exact H642. }
    fold E in EQ3, R3, Oth3, Fr3, Strong3. rewrite <- Eacq in Fr3, Strong3. rewrite Lfirst in Strong3.
    exists s3. split; [|split; [|split; [|split; [|split; [|split; [|split; [|split]]]]]]].
    + eapply exec_app_len; eassumption.
    + destruct Es as (X1 & X2 & X3 & X4). rewrite X3.
      eapply st_eqB_trans; [exact EQ3|]. apply st_eqB_sym. split; [exact X1|]. split; [exact X2|]. split; [exact X3|exact X4].
    + rewrite Ef. exact R3.
    + intros k Hk'. rewrite Oth3 by exact Hk'. apply Oth; lia.
    + congruence.
    + exact FR3.
    + intros a Ha Hout. rewrite Fr3; [apply Fr2; [exact Ha|apply Hout; left; reflexivity]|exact Ha|].
      intros y Hy. apply Hout. right. exact Hy.
    + eapply stack_frame_trans; [exact SF2|exact SF3].
    + (* the chain after this round *)
      intros done kk. cbv zeta. set (bl := wblocks kk (hword s) link). intros ND Hbl Hdisj CH Hfull.
      assert (Hnin : ~ In b bl) by (apply Hdisj; left; reflexivity).
      assert (Hsame : forall x, In x bl -> forall i, 0 < i < 64 -> hword s2 (x + i) = hword s (x + i))
        by (apply (X86MemStoreFull.frame_blocks (hword s) (hword s2) b bl Fr2 Bb Hbl Hnin)).
      destruct (X86MemStoreFull.wchain_congr (hword s) (hword s2) kk link) as [EB2 _]; [intros y Hy; apply Hsame; [exact Hy|lia]|].
      assert (Hbl2 : wblocks (S kk) (hword s2) b = b :: bl) by (cbn [X86HeapDefs.wblocks]; rewrite LK, EB2; reflexivity).
      assert (Ldone : List.length done = (2 * kk + 3)%nat) by (apply Hfull; discriminate).
      assert (CH2 : chain_holds (hword s2) val (E + rl) (skipn rl to_store ++ done) (S kk) b).
      { apply (X86MemStoreFull.chain_holds_ext _ _ _ _ _ _ link); [|exact Ldone|exact LK|exact BW|rewrite Lnext; lia].
        rewrite Lnext. replace (E + rl + (n - rl))%nat with (E + n)%nat by lia.
        eapply X86MemStoreFull.chain_holds_congr; [exact CH|exact Hsame]. }
      destruct (Strong3 (skipn rl to_store ++ done) (S kk)) as (WB3 & FB3 & CH3).
      { inversion ND; assumption. }
      { rewrite Hbl2. apply Forall_cons; [exact Bb|exact Hbl]. }
      { rewrite Hbl2. intros y Hy [<-|Hin].
        - inversion ND; contradiction.
        - apply (Hdisj y); [right; exact Hy|exact Hin]. }
      { exact CH2. }
      { intros Hne'. rewrite app_length, Lnext, Ldone.
        assert (rl <> 0)%nat by (intros H0; rewrite H0 in Hne'; apply Hne'; reflexivity). lia. }
      rewrite Hbl2 in WB3, FB3.
      assert (HK : (kk + nbo n = S kk + nbo rl)%nat) by (rewrite (X86MemLoadChain.nbo_step n Hn1), Hrl; lia).
      assert (Hrev : rev (b :: acq') ++ bl = rev acq' ++ b :: bl) by (cbn [rev]; now rewrite <- app_assoc).
      fold n. split; [|split].
      * rewrite HK, Ef, Hrev. exact WB3.
      * rewrite Hrev. exact FB3.
      * rewrite HK, Ef. rewrite app_assoc, firstn_skipn in CH3. exact CH3.
Qed.
(* ---------- the first round (BlockPosition::Last) followed by the continuation blocks ---------- *)
Lemma a64_store_rounds pos to_store remaining lc cs lc' s sp F val :
  a_store to_store remaining lc = Ok (cs, lc') -> to_store <> [] ->
  code_at im pos cs -> labels_at im pos cs -> frame_ok s sp ->
  vals_ok s sp val (List.length remaining) to_store ->
  let E := List.length remaining in let n := List.length to_store in let k := Heap.nlinks n in
  let fields := fsts val E to_store in
  alloc_object_pre fields (abs_heap F s) -> alloc_object_hdr64 fields (abs_heap F s) ->
  let res := Heap.alloc_object fields (abs_heap F s) in
  exists s', exec_to im pos s (padd pos (List.length cs)) s' /\
    st_eqB (abs_heap (Heap.frontier (snd res)) s') (snd res) /\
    lget s' sp (tpos (2 * N.of_nat E)) = Some (fst res) /\
    (forall q, (q < 2 * N.of_nat E)%N -> lget s' sp (tpos q) = lget s sp (tpos q)) /\
    out s' = out s /\ frame_ok s' sp /\
    (forall a, ~ is_blk a -> (forall b, In b (alloc_object_acq fields (abs_heap F s)) -> a < b \/ b + 64 <= a) -> hword s' a = hword s a) /\
    stack_frame s s' sp /\
    (NoDup (alloc_object_acq fields (abs_heap F s)) ->
     wblocks k (hword s') (fst res) = rev (alloc_object_acq fields (abs_heap F s)) /\
     Forall is_blk (wblocks k (hword s') (fst res)) /\
     (let A := waddrs k (hword s') (fst res) in
      (forall i b, nth_error to_store i = Some b ->
         let a := nth (List.length A - n + i) A 0 in
         hword s' a = fst_slot val (E + i) b /\ hword s' (a + 8) = snd_slot val (E + i)) /\
      (forall j, (j < List.length A - n)%nat -> hword s' (nth j A 0) = 0))).
Proof.
  intros Hx Hne HC HL FR V E n k fields Pre H64 res. unfold a_store in Hx. fold n in Hx.
  destruct (store_fields_unfold n to_store remaining Last lc cs lc' Hne Hx) as (c0 & sv & c3 & Hc0 & Hsv & Hk & Hsf3 & ->).
  change (3 - bp_n Last)%N with 3%N in *. fold n in Hk, Hsv, Hsf3, HC, HL |- *.
  set (rl := rest_len n 3) in *.
  assert (Hrl : rl = (n - 3)%nat) by apply X86MemStoreChain.rest_len_val.
  assert (Lfirst : List.length (firstn rl to_store) = rl) by (rewrite firstn_length; fold n; lia).
  assert (Lnext : List.length (skipn rl to_store) = (n - rl)%nat) by (rewrite skipn_length; reflexivity).
  assert (Hn : (1 <= n)%nat) by (unfold n; destruct to_store; [contradiction|cbn; lia]).
  assert (Lrr : List.length (remaining ++ firstn rl to_store) = (E + rl)%nat) by (rewrite app_length, Lfirst; reflexivity).
  rewrite Lrr in *.
  assert (Lfields : List.length fields = n) by apply X86MemStore.fsts_length.
  assert (Hfne : fields <> []) by (intros Hf; rewrite Hf in Lfields; cbn in Lfields; lia).
  set (P := Heap.pad 3 (Heap.lastn 3 fields)) in *.
  assert (Pre' : acq_ok (abs_heap F s) /\ chain_pre n (Heap.butlastn 3 fields) (fst (Heap.alloc P (abs_heap F s))) (snd (Heap.alloc P (abs_heap F s)))).
  { unfold X86MemStoreChain.alloc_object_pre in Pre. rewrite Lfields in Pre. destruct fields; [contradiction|]. exact Pre. }
  destruct Pre' as [AOK Pre'].
  assert (H64' : hdr64 (abs_heap F s) /\ chain_hdr64 n (Heap.butlastn 3 fields) (fst (Heap.alloc P (abs_heap F s))) (snd (Heap.alloc P (abs_heap F s)))).
  { unfold alloc_object_hdr64 in H64. rewrite Lfields in H64. destruct fields; [contradiction|]. exact H64. }
  destruct H64' as [H640 H64'].
  assert (Hres : res = Heap.store_other n (Heap.butlastn 3 fields) (fst (Heap.alloc P (abs_heap F s))) (snd (Heap.alloc P (abs_heap F s)))).
  { unfold res, Heap.alloc_object. rewrite Lfields. fold P. destruct fields; [contradiction|]. destruct (Heap.alloc P (abs_heap F s)). reflexivity. }
  assert (Hacq : alloc_object_acq fields (abs_heap F s) = Heap.heap (abs_heap F s) ::
                   chain_acq n (Heap.butlastn 3 fields) (fst (Heap.alloc P (abs_heap F s))) (snd (Heap.alloc P (abs_heap F s)))).
  { unfold X86HeapAcq.alloc_object_acq. rewrite Lfields. fold P. destruct fields; [contradiction|]. reflexivity. }
  rewrite Hres. clear Hres res. rewrite Hacq. clear Hacq.
  rewrite !app_assoc in HC, HL. apply code_at_app2 in HC as [HC1 HC3]. apply labels_at_app2 in HL as [HL1 HL3].
  rewrite <- !app_assoc in HC1, HL1. rewrite <- (app_assoc c0 sv) in HC3, HL3.
  destruct (a64_store_block pos Last to_store remaining lc c0 sv s sp F val 0 Hne Hc0 Hsv Hk HC1 HL1 FR V ltac:(discriminate) AOK H640)
    as (s2 & ST2 & EQ2 & Rr & Bb & Oth & Out & FR2 & Erv & BW & _ & Fr2 & SF2).
  change (N.to_nat (3 - bp_n Last)) with 3%nat in *. change (3 - bp_n Last)%N with 3%N in *. rewrite app_nil_r in *.
  fold E n rl fields P in ST2, EQ2, Rr, Bb, Oth, Erv, BW.
  set (b := fst (Heap.alloc P (abs_heap F s))) in *. set (a1 := snd (Heap.alloc P (abs_heap F s))) in *.
  set (rv := Heap.heap (abs_heap F s)) in *. rewrite <- Erv in BW, Fr2 |- *. clear Erv rv.
  assert (Hbut : Heap.butlastn 3 fields = fsts val E (firstn rl to_store)).
  { unfold Heap.butlastn. rewrite Lfields. unfold fields. rewrite X86MemStoreChain.fsts_firstn, Hrl. reflexivity. }
  rewrite Hbut in *.
  assert (V2 : vals_ok s2 sp val E (firstn rl to_store)).
  { intros i bb Hi. assert (Hi' : (i < rl)%nat) by (rewrite <- Lfirst; apply nth_error_Some; congruence).
    assert (Hin : nth_error to_store i = Some bb).
    { rewrite <- (firstn_skipn rl to_store). rewrite nth_error_app1 by (rewrite Lfirst; exact Hi'). exact Hi. }
    assert (Kmax : (2 * N.of_nat (E + i) + 1 < MAXPOS)%N) by lia.
    destruct (V i bb Hin) as [A B]. split.
    - rewrite Oth by lia. exact A.
    - intros Hx'. rewrite Oth by lia. auto. }
  destruct (X86MemStoreChain.store_other_congr n _ b a1 (abs_heap (Heap.frontier a1) s2) (st_eqB_sym _ _ EQ2) Pre') as (Pre2 & Ef & Es).
  pose proof (chain_hdr64_congr n _ b a1 (abs_heap (Heap.frontier a1) s2) (st_eqB_sym _ _ EQ2) Pre' H64') as H642.
  pose proof (X86MemStoreFull.chain_acq_congr n _ b a1 (abs_heap (Heap.frontier a1) s2) (st_eqB_sym _ _ EQ2) Pre') as Eacq.
  set (acq' := chain_acq n (fsts val E (firstn rl to_store)) b a1) in *.
  rewrite (app_assoc sv), (app_assoc c0).
  destruct (a64_store_fields_other n (firstn rl to_store) remaining _ c3 lc' _ s2 sp (Heap.frontier a1) val b n Hsf3
              ltac:(rewrite Lfirst; lia) ltac:(rewrite Lfirst; lia) HC3 HL3 FR2 V2)
    as (s3 & ST3 & EQ3 & R3 & Oth3 & Out3 & FR3 & Fr3 & SF3 & Strong3).
  { rewrite Lfirst. exact Rr. }
  { exact Pre2. }
  { exact H642. }
  fold E in EQ3, R3, Oth3, Fr3, Strong3. rewrite <- Eacq in Fr3, Strong3. rewrite Lfirst in Strong3.
  exists s3. split; [|split; [|split; [|split; [|split; [|split; [|split; [|split]]]]]]].
  + eapply exec_app_len; eassumption.
  + destruct Es as (X1 & X2 & X3 & X4). rewrite X3.
    eapply st_eqB_trans; [exact EQ3|]. apply st_eqB_sym. split; [exact X1|]. split; [exact X2|]. split; [exact X3|exact X4].
  + rewrite Ef. exact R3.
  + intros q Hq. rewrite Oth3 by exact Hq. apply Oth; lia.
  + congruence.
  + exact FR3.
  + intros a Ha Hout. rewrite Fr3; [apply Fr2; [exact Ha|apply Hout; left; reflexivity]|exact Ha|].
    intros y Hy. apply Hout. right. exact Hy.
  + eapply stack_frame_trans; [exact SF2|exact SF3].
  + intros ND.
    assert (CH2 : chain_holds (hword s2) val (E + rl) (skipn rl to_store) 0 b)
      by (apply X86MemStoreFull.chain_holds_last; [exact BW|rewrite Lnext; lia]).
    destruct (Strong3 (skipn rl to_store) 0%nat) as (WB3 & FB3 & CH3).
    { inversion ND; assumption. }
    { cbn [X86HeapDefs.wblocks]. apply Forall_cons; [exact Bb|apply Forall_nil]. }
    { cbn [X86HeapDefs.wblocks]. intros y Hy [<-|[]]. inversion ND; contradiction. }
    { exact CH2. }
    { intros Hne'. rewrite Lnext.
      assert (rl <> 0)%nat by (intros H0; rewrite H0 in Hne'; apply Hne'; reflexivity). lia. }
    cbn [X86HeapDefs.wblocks] in WB3, FB3. rewrite firstn_skipn in CH3. cbn [Nat.add] in WB3, CH3.
    assert (HK : k = nbo rl) by (unfold k; rewrite X86MemLoadChain.nlinks_nbo, Hrl; reflexivity).
    rewrite <- HK, <- Ef in WB3, CH3.
    assert (Hrev : rev (b :: acq') = rev acq' ++ [b]) by reflexivity.
    split; [rewrite Hrev; exact WB3|]. split; [rewrite WB3; exact FB3|].
    destruct CH3 as (C1 & C2 & _). cbv zeta. fold n in C1, C2. split; [exact C1|exact C2].
Qed.

(* ---------- a_store of any number of variables = Heap.alloc_object, with words, chain and frames ---------- *)
Theorem a64_store_full pos to_store remaining lc cs lc' s sp F val :
  a_store to_store remaining lc = Ok (cs, lc') -> to_store <> [] ->
  code_at im pos cs -> labels_at im pos cs -> frame_ok s sp ->
  vals_ok s sp val (List.length remaining) to_store ->
  let E := List.length remaining in let n := List.length to_store in let k := Heap.nlinks n in
  let fields := fsts val E to_store in
  alloc_object_pre fields (abs_heap F s) -> alloc_object_hdr64 fields (abs_heap F s) ->
  NoDup (alloc_object_acq fields (abs_heap F s)) ->
  let res := Heap.alloc_object fields (abs_heap F s) in
  exists s', exec_to im pos s (padd pos (List.length cs)) s' /\
    st_eqB (abs_heap (Heap.frontier (snd res)) s') (snd res) /\
    lget s' sp (tpos (2 * N.of_nat E)) = Some (fst res) /\
    (forall q, (q < 2 * N.of_nat E)%N -> lget s' sp (tpos q) = lget s sp (tpos q)) /\
    out s' = out s /\ frame_ok s' sp /\
    wblocks k (hword s') (fst res) = rev (alloc_object_acq fields (abs_heap F s)) /\
    Forall is_blk (wblocks k (hword s') (fst res)) /\
    (let A := waddrs k (hword s') (fst res) in
     (forall i b, nth_error to_store i = Some b ->
        let a := nth (List.length A - n + i) A 0 in
        hword s' a = fst_slot val (E + i) b /\ hword s' (a + 8) = snd_slot val (E + i)) /\
     (forall j, (j < List.length A - n)%nat -> hword s' (nth j A 0) = 0)) /\
    (forall a, ~ is_blk a -> (forall b, In b (alloc_object_acq fields (abs_heap F s)) -> a < b \/ b + 64 <= a) -> hword s' a = hword s a) /\
    stack_frame s s' sp.
Proof.
  intros Hx Hne HC HL FR V E n k fields Pre H64 ND res.
  destruct (a64_store_rounds pos to_store remaining lc cs lc' s sp F val Hx Hne HC HL FR V Pre H64)
    as (s' & X1 & X2 & X3 & X4 & X5 & X6 & X7 & X8 & X9).
  destruct (X9 ND) as (Y1 & Y2 & Y3).
  exists s'. split; [exact X1|]. split; [exact X2|]. split; [exact X3|]. split; [exact X4|]. split; [exact X5|].
  split; [exact X6|]. split; [exact Y1|]. split; [exact Y2|]. split; [exact Y3|]. split; [exact X7|exact X8].
Qed.

(* ---------- the shape of C09_x86_store ---------- *)
Theorem a64_store_ok pos to_store remaining lc cs lc' s sp F val :
  a_store to_store remaining lc = Ok (cs, lc') -> to_store <> [] ->
  code_at im pos cs -> labels_at im pos cs -> frame_ok s sp ->
  vals_ok s sp val (List.length remaining) to_store ->
  alloc_object_pre (fsts val (List.length remaining) to_store) (abs_heap F s) ->
  alloc_object_hdr64 (fsts val (List.length remaining) to_store) (abs_heap F s) ->
  let res := Heap.alloc_object (fsts val (List.length remaining) to_store) (abs_heap F s) in
  exists s', exec_to im pos s (padd pos (List.length cs)) s' /\
    st_eqB (abs_heap (Heap.frontier (snd res)) s') (snd res) /\
    lget s' sp (tpos (2 * N.of_nat (List.length remaining))) = Some (fst res) /\
    (forall k, (k < 2 * N.of_nat (List.length remaining))%N -> lget s' sp (tpos k) = lget s sp (tpos k)) /\
    out s' = out s /\ frame_ok s' sp.
Proof.
  intros Hx Hne HC HL FR V Pre H64 res.
  destruct (a64_store_rounds pos to_store remaining lc cs lc' s sp F val Hx Hne HC HL FR V Pre H64)
    as (s' & X1 & X2 & X3 & X4 & X5 & X6 & _).
  exists s'. split; [exact X1|]. split; [exact X2|]. split; [exact X3|]. split; [exact X4|]. split; [exact X5|exact X6].
Qed.
(* ---------- the shape of C09_x86_store_one_block: 1..3 variables = one Heap.alloc ---------- *)
Theorem a64_store_one_block_ok pos to_store remaining lc cs lc' s sp rv h2 F val :
  a_store to_store remaining lc = Ok (cs, lc') ->
  (1 <= List.length to_store <= 3)%nat ->
  code_at im pos cs -> labels_at im pos cs ->
  frame_ok s sp ->
  rget s HEAP = Some rv -> is_blk rv -> rget s FREE = Some h2 ->
  min_int <= hword s rv <= max_int ->
  (hword s rv = 0 -> is_blk h2) ->
  (hword s rv = 0 -> hword s h2 <> 0 ->
     (forall off, off = 16 \/ off = 32 \/ off = 48 -> hword s (h2 + off) = 0 \/ is_blk (hword s (h2 + off))) /\
     bounded 3 s (hword s h2)) ->
  vals_ok s sp val (List.length remaining) to_store ->
  let E := List.length remaining in
  let n := List.length to_store in
  let res := Heap.alloc (Heap.pad 3 (fsts val E to_store)) (abs_heap F s) in
  exists s', exec_to im pos s (padd pos (List.length cs)) s' /\
    st_eqB (abs_heap (Heap.frontier (snd res)) s') (snd res) /\
    fst res = rv /\
    lget s' sp (tpos (2 * N.of_nat E)) = Some rv /\
    (forall i, (i < n)%nat -> hword s' (rv + field_offset Snd (3 - N.of_nat n + N.of_nat i)) = snd_slot val (E + i)) /\
    (forall k, (k < MAXPOS)%N -> k <> (2 * N.of_nat E)%N -> lget s' sp (tpos k) = lget s sp (tpos k)) /\
    out s' = out s /\ frame_ok s' sp /\ stack_frame s s' sp.
Proof.
  intros Hx Hlen HC HL FR R Hb Rf I64 Hb2 Hch V E n res. unfold a_store in Hx. fold n in Hx, Hlen.
  assert (Hne : to_store <> []) by (intros ->; cbn in Hlen; lia).
  destruct (store_fields_unfold n to_store remaining Last lc cs lc' Hne Hx) as (c0 & sv & c3 & Hc0 & Hsv & Hk & Hsf3 & ->).
  pose proof (a64_store_block_m pos Last to_store remaining lc c0 sv s sp F val 0 rv h2 Hne Hc0) as BLK.
  change (3 - bp_n Last)%N with 3%N in *. change (N.to_nat 3) with 3%nat in *. fold n E in Hk, Hsv, Hsf3, BLK, HC, HL |- *.
  assert (Hrl : rest_len n 3 = 0%nat) by (rewrite X86MemStoreChain.rest_len_val; lia).
  rewrite Hrl in *. cbn [firstn skipn] in *. rewrite !app_nil_r in Hk, Hsv, Hsf3, BLK, HC, HL |- *. fold E in Hk, Hsf3, HC, HL |- *.
  replace (E + 0)%nat with E in BLK by lia.
  assert (Ec3 : c3 = []) by (destruct n; [lia|]; cbn [store_fields] in Hsf3; now inversion Hsf3).
  subst c3. rewrite !app_nil_r in HC, HL |- *.
  destruct (BLK Hsv Hk HC HL FR V ltac:(discriminate) R Hb Rf I64 Hb2 Hch) as (s' & X1 & X2 & X3 & X4 & X5 & X6 & X7 & (B1 & _) & _ & _ & X11).
  assert (EP : Heap.pad 3 (Heap.lastn 3 (fsts val E to_store)) ++ [] = Heap.pad 3 (fsts val E to_store)).
  { rewrite app_nil_r. f_equal. unfold Heap.lastn. rewrite X86MemStore.fsts_length. fold n. now replace (n - 3)%nat with 0%nat by lia. }
  rewrite EP in *. fold res in X2, X3, X7.
  exists s'. split; [exact X1|]. split; [exact X2|]. split; [exact X7|]. split; [rewrite <- X7; exact X3|].
  split; [|split; [exact X4|split; [exact X5|split; [exact X6|exact X11]]]].
  intros i Hi. destruct (nth_error to_store i) as [b|] eqn:Eb; [|apply nth_error_None in Eb; fold n in Eb; lia].
  destruct (B1 i b Eb) as [_ A]. fold n in A. rewrite <- A. f_equal. rewrite field_offset_val. cbn [tnum_n]. lia.
Qed.
End Chain.

Print Assumptions a64_store_full.
Print Assumptions a64_store_ok.
Print Assumptions a64_store_one_block_ok.

(* ---------- the image built from an instruction list (port of Proof/X86Mem.v mk_image_code_labels) ---------- *)
Lemma build_code_below : forall cs i a im j, (j < i)%positive -> PM.find j (code (build cs i a im)) = PM.find j (code im).
Proof.
  induction cs as [|c r IH]; intros i a im j Hj; cbn [build code]; auto.
  rewrite IH by lia. cbn [code]. apply PM.gso. lia.
Qed.
Lemma build_code_at : forall cs i a im, code_at (build cs i a im) i cs.
Proof.
  induction cs as [|c r IH]; intros i a im n c0 Hn; [destruct n; discriminate|].
  destruct n as [|n]; cbn [nth_error padd] in *.
  - inversion Hn; subst. cbn [build]. rewrite build_code_below by lia. cbn [code]. apply PM.gss.
  - cbn [build]. eapply IH; eauto.
Qed.
Definition label_names (cs : list acode) : list string :=
  flat_map (fun c => match c with LAB l => [l] | _ => [] end) cs.
Lemma build_labels_old : forall cs i a im l,
  ~ In l (label_names cs) -> find_label (labels (build cs i a im)) l = find_label (labels im) l.
Proof.
  induction cs as [|c r IH]; intros i a im l Hl; cbn [build labels]; auto.
  rewrite IH.
  - cbn [labels]. destruct c; auto. cbn [find_label]. destruct (String.eqb_spec l l0); auto.
    subst. exfalso. apply Hl. cbn. now left.
  - intro H. apply Hl. cbn [label_names flat_map]. apply in_app_iff. now right.
Qed.
Lemma build_labels_at : forall cs i a im, NoDup (label_names cs) -> labels_at (build cs i a im) i cs.
Proof.
  induction cs as [|c r IH]; intros i a im Hnd n l Hn; [destruct n; discriminate|].
  assert (Hnd' : NoDup (label_names r)).
  { cbn [label_names flat_map] in Hnd. now apply Heap.NoDup_app_r in Hnd. }
  destruct n as [|n]; cbn [nth_error padd] in *.
  - inversion Hn; subst. cbn [build]. rewrite build_labels_old.
    + cbn [labels find_label]. now rewrite String.eqb_refl.
    + cbn [label_names flat_map app] in Hnd. now inversion Hnd.
  - cbn [build]. eapply IH; eauto.
Qed.
Theorem a64_mk_image_code_labels cs :
  NoDup (label_names cs) -> code_at (mk_image cs) 1%positive cs /\ labels_at (mk_image cs) 1%positive cs.
Proof. intros H. split; [apply build_code_at|now apply build_labels_at]. Qed.

(* ---------- the hypotheses are satisfiable: five variables (two blocks) behind thirteen others, so that the variables
   stored, the link and BOTH new block pointers live in SPILL SLOTS (positions 26..35 = slots 1..10; the object
   pointer goes to position 26 = slot 1) ---------- *)
Definition ex5_val (k : N) : Z := 100 + Z.of_N k.
Definition ex_sp : Z := STACK_TOP - 4096.
Definition ex5_state : astate :=
  fold_left (fun s k => sset s ex_sp (k - 25)%N (Some (ex5_val k)))
            [26; 27; 28; 29; 30; 31; 32; 33; 34; 35]%N
            (rset (rset (rset (init_state []) SP (Some ex_sp)) HEAP (Some HEAP_BASE)) FREE (Some (HEAP_BASE + 64))).
Definition ex5_rem : ctx := repeat (mkb ("r"%string, 0%N) Ext I64) 13.
Definition ex5_store : ctx :=
  [mkb ("a"%string, 0%N) Ext I64; mkb ("b"%string, 1%N) Prd (Decl ("T"%string, 0%N)); mkb ("c"%string, 2%N) Ext I64;
   mkb ("d"%string, 3%N) Cns (Decl ("T"%string, 0%N)); mkb ("e"%string, 4%N) Ext I64].
Definition ex5_code : list acode := match a_store ex5_store ex5_rem 0 with Ok (cs, _) => cs | Err _ => [] end.

Example a64_store_example :
  let a := abs_heap (HEAP_BASE + 64) ex5_state in
  let res := Heap.alloc_object (fsts ex5_val 13 ex5_store) a in
  exists lc', a_store ex5_store ex5_rem 0 = Ok (ex5_code, lc') /\
  fsts ex5_val 13 ex5_store = [0; 128; 0; 132; 0] /\ tpos 26 = AS 1 /\
  fst res = HEAP_BASE + 64 /\ Heap.frontier (snd res) = HEAP_BASE + 192 /\
  exists s', exec_to (mk_image ex5_code) 1 ex5_state (padd 1 (List.length ex5_code)) s' /\
     st_eqB (abs_heap (HEAP_BASE + 192) s') (snd res) /\ sget s' ex_sp 1 = Some (HEAP_BASE + 64) /\
     wblocks 1 (hword s') (HEAP_BASE + 64) = [HEAP_BASE + 64; HEAP_BASE] /\
     hword s' (HEAP_BASE + 64 + 16 + 8) = 127 /\ hword s' (HEAP_BASE + 64 + 32) = 128 /\ hword s' (HEAP_BASE + 48 + 8) = 135 /\
     stack_frame ex5_state s' ex_sp.
Proof.
  intros a res.
  assert (Hx : exists lc', a_store ex5_store ex5_rem 0 = Ok (ex5_code, lc')) by (eexists; vm_compute; reflexivity).
  destruct Hx as [lc' Hx]. exists lc'. split; [exact Hx|]. split; [reflexivity|]. split; [reflexivity|].
  assert (Ef : fst res = HEAP_BASE + 64) by (vm_compute; reflexivity).
  assert (EF : Heap.frontier (snd res) = HEAP_BASE + 192) by (vm_compute; reflexivity).
  split; [exact Ef|]. split; [exact EF|].
  destruct (a64_mk_image_code_labels ex5_code) as [HC HL]; [apply X86MemStore.nodupb_sound; vm_compute; reflexivity|].
  assert (Bk : forall k, 0 <= k <= 3 -> is_blk (HEAP_BASE + 64 * k)).
  { intros k Hk. exists k. split; [lia|]. split; [reflexivity|]. unfb. lia. }
  assert (Eacq : alloc_object_acq (fsts ex5_val 13 ex5_store) a = [HEAP_BASE; HEAP_BASE + 64]) by (vm_compute; reflexivity).
  destruct (a64_store_full (mk_image ex5_code) 1 ex5_store ex5_rem 0 ex5_code lc' ex5_state ex_sp (HEAP_BASE + 64) ex5_val Hx ltac:(discriminate) HC HL)
    as (s' & ST & EQ & Rr & _ & _ & _ & WB & _ & (WD & _) & _ & SF).
  - split; [vm_compute; reflexivity|]. repeat split; vm_compute; easy.
  - intros i b Hi. destruct i as [|[|[|[|[|i]]]]]; cbn in Hi; try (destruct i; discriminate); inversion Hi; subst b;
      (split; [vm_compute; reflexivity|intros _; vm_compute; reflexivity]).
  - change (List.length ex5_rem) with 13%nat. change (fsts ex5_val 13 ex5_store) with [0; 128; 0; 132; 0].
    unfold X86MemStoreChain.alloc_object_pre. split.
    + split; [exact (Bk 0 ltac:(lia))|]. split; [vm_compute; discriminate|]. split.
      * intros _. exact (Bk 1 ltac:(lia)).
      * intros _ H. exfalso. apply H. vm_compute. reflexivity.
    + cbn [List.length X86MemStoreChain.chain_pre]. unfold Heap.butlastn at 1. cbn [List.length Nat.sub firstn]. split.
      * split; [|split; [|split]].
        -- replace (Heap.heap _) with (HEAP_BASE + 64 * 1) by (vm_compute; reflexivity). apply Bk. lia.
        -- vm_compute. discriminate.
        -- intros _. replace (Heap.free _) with (HEAP_BASE + 64 * 2) by (vm_compute; reflexivity). apply Bk. lia.
        -- intros _ H. exfalso. apply H. vm_compute. reflexivity.
      * unfold Heap.butlastn. cbn [List.length Nat.sub firstn X86MemStoreChain.chain_pre]. exact I.
  - change (List.length ex5_rem) with 13%nat. change (fsts ex5_val 13 ex5_store) with [0; 128; 0; 132; 0].
    unfold alloc_object_hdr64. split; [unfold hdr64; vm_compute; split; discriminate|].
    cbn [List.length chain_hdr64]. unfold Heap.butlastn at 1. cbn [List.length Nat.sub firstn]. split.
    + unfold hdr64; vm_compute; split; discriminate.
    + unfold Heap.butlastn. cbn [List.length Nat.sub firstn chain_hdr64]. exact I.
  - change (List.length ex5_rem) with 13%nat. fold a. rewrite Eacq.
    constructor; [intros [H|[]]; unfold HEAP_BASE in H; lia|]. constructor; [intros []|constructor].
  - change (List.length ex5_rem) with 13%nat in *. change (Heap.nlinks (List.length ex5_store)) with 1%nat in *.
    fold a in EQ, Rr, WB, WD. fold res in EQ, Rr, WB, WD. rewrite EF in EQ. rewrite Ef in Rr, WB, WD. rewrite Eacq in WB.
    exists s'. split; [exact ST|]. split; [exact EQ|]. split; [exact Rr|]. split; [exact WB|].
    assert (LK : hword s' (HEAP_BASE + 64 + 48) = HEAP_BASE).
    { pose proof WB as WB'. cbn [X86HeapDefs.wblocks rev app] in WB'. injection WB' as LK0. exact LK0. }
    cbn [X86HeapDefs.waddrs app List.length] in WD. rewrite LK in WD.
    pose proof (WD 0%nat _ eq_refl) as W0. pose proof (WD 1%nat _ eq_refl) as W1. pose proof (WD 4%nat _ eq_refl) as W4.
    cbn [List.length ex5_store Nat.sub Nat.add nth] in W0, W1, W4.
    split; [exact (proj2 W0)|]. split; [exact (proj1 W1)|]. split; [exact (proj2 W4)|exact SF].
Qed.
Print Assumptions a64_store_example.
