(* Correctness of the structural equality tests of Lang/FunSyn.v. *)
From Coq Require Import List ZArith String Bool.
From SCC Require Import Lang.SynUtil Lang.FunSyn.
Import ListNotations.

Lemma fty_eqb_eq : forall a b, fty_eqb a b = true -> a = b.
Proof.
  fix IH 1. intros [|n l] [|m k]; simpl; intros H; try discriminate; [reflexivity|].
  apply andb_true_iff in H. destruct H as [Hn Hl]. apply String.eqb_eq in Hn. subst m. f_equal.
  revert k Hl. induction l as [|x l' IHl]; intros [|y k'] Hl; try discriminate; [reflexivity|].
  apply andb_true_iff in Hl. destruct Hl as [Hx Hr]. f_equal; [apply IH; assumption|apply IHl; assumption].
Qed.
Lemma fty_eqb_refl : forall a, fty_eqb a a = true.
Proof.
  fix IH 1. intros [|n l]; simpl; [reflexivity|]. rewrite String.eqb_refl. simpl.
  induction l as [|x l' IHl]; [reflexivity|]. rewrite IH, IHl. reflexivity.
Qed.
Lemma fty_eqb_iff : forall a b, fty_eqb a b = true <-> a = b.
Proof. intros a b; split; [apply fty_eqb_eq|intros ->; apply fty_eqb_refl]. Qed.
Lemma fty_eqb_neq : forall a b, fty_eqb a b = false -> a <> b.
Proof. intros a b H E. subst. rewrite fty_eqb_refl in H. discriminate. Qed.
