(* C07, forward simulation for HEAP statements on AArch64, part 4: `a_load` (the memory part of Switch and Invoke) under
   `hrel`.  Port of Proof/X86HSimLoad.v: the hypotheses of `a64_load_full` (Proof/A64MemLoadChain.v) from the
   representation `xflds` of the loaded object (`lf_share_ok_words`, shared) and the header bounds of the allocator
   invariant (`hdr_bounds_x`, shared); the loaded temporaries hold the field words, so the new environment entries are
   represented (`load_ptrs_words`); `heq_load_object` (shared) for the abstraction afterwards. *)
From Coq Require Import List ZArith NArith String Bool Lia FMapPositive Permutation.
From SCC Require Import Base.Sexp Lang.AxSyn Sem.AxSem Sem.AxHeap Model.ParMoves Model.Backend Model.A64 Sem.A64Sem
     Generated.Constants Proof.A64State Proof.A64ImmHw Proof.A64Imm Proof.A64Sel Proof.A64PM Proof.A64Exec
     Proof.A64MemSubst Proof.SubstGraph Proof.SubstBackends Proof.A64Subst Proof.A64Wf Proof.A64Print
     Proof.A64SimRel Proof.A64SimStmt Proof.HRep Proof.A64Mem Proof.A64MemOps Proof.A64MemLoad Proof.A64MemLoadChain
     Proof.A64HSimRel Proof.A64HSimStmt Proof.A64HConv Proof.A64HSimStore.
From SCC Require Model.Heap Model.X86 Proof.HeapMore Proof.HeapTrace Proof.HeapRep
     Proof.X86Mem Proof.X86MemFrame Proof.X86MemStoreChain Proof.X86MemLoadChain Proof.X86MemLoadFull
     Proof.X86HeapDefs Proof.X86HeapCongr Proof.X86HBridge Proof.X86HFrame.
Import ListNotations.
Open Scope Z_scope.
Open Scope list_scope.

Notation lf_share_ok := X86MemLoadChain.lf_share_ok.
Notation lf_addrs := X86MemLoadChain.lf_addrs.
Notation lf_share_ok_words := X86MemLoadFull.lf_share_ok_words.
Notation lf_addrs_waddrs := X86MemLoadFull.lf_addrs_waddrs.
Notation heq_load_object := X86HeapCongr.heq_load_object.
Notation HB := X86HBridge.HB.
Notation hdr_bounds_x := X86HBridge.hdr_bounds_x.

(* the three slot words of a block of a chain: fields, or the link to the next block of the chain *)
Lemma wblocks_slots w : forall k q b, In b (wblocks k w q) ->
  In (b + 16) (waddrs k w q) /\ In (b + 32) (waddrs k w q) /\
  (In (b + 48) (waddrs k w q) \/ In (w (b + 48)) (wblocks k w q)).
Proof.
  induction k as [|k IH]; intros q b Hb; cbn [wblocks waddrs app In] in *.
  - destruct Hb as [<-|[]]. auto 8.
  - destruct Hb as [<-|Hb].
    + split; [auto|]. split; [auto|]. right. right. destruct k; now left.
    + destruct (IH _ _ Hb) as (A & B & C). split; [auto|]. split; [auto|]. destruct C as [C|C]; [left|right]; auto.
Qed.

Lemma nth_error_Some_lt {X} (l : list X) i x : nth_error l i = Some x -> (i < List.length l)%nat.
Proof. intros H. apply nth_error_Some. congruence. Qed.
Lemma Forall2_nth {X Y} (P : X -> Y -> Prop) : forall l1 l2 i x y,
  Forall2 P l1 l2 -> nth_error l1 i = Some x -> nth_error l2 i = Some y -> P x y.
Proof.
  induction l1 as [|a l1 IH]; intros l2 i x y H H1 H2; [destruct i; discriminate|].
  inversion H; subst. destruct i as [|i]; cbn [nth_error] in *; [inversion H1; inversion H2; subst; assumption|eauto].
Qed.
Lemma Forall2_len {X Y} (P : X -> Y -> Prop) l1 l2 : Forall2 P l1 l2 -> List.length l1 = List.length l2.
Proof. induction 1; cbn; auto. Qed.

Lemma a_load_temps cx cE lc cl lc1 : a_load cx cE lc = Ok (cl, lc1) -> cx <> [] ->
  (2 * N.of_nat (List.length cE + List.length cx) < MAXPOS + 1)%N.
Proof.
  intros XL NE. unfold a_load in XL. destruct cx as [|b0 cr]; [congruence|]. set (tl := b0 :: cr) in *.
  destruct (a_fresh Fst cE) as [t|]; cbn [rbind] in XL; [|discriminate].
  assert (G : forall br c l, load_register br tl cE lc = Ok (c, l) -> (2 * N.of_nat (List.length cE + List.length tl) < MAXPOS + 1)%N).
  { intros br c l Hc. unfold load_register in Hc.
    destruct (load_fields (S (List.length tl)) tl cE Last Release false lc) as [[[c1 f1] l1]|] eqn:E1; cbn [rbind] in Hc; [|discriminate].
    destruct (load_fields_unfold (List.length tl) tl cE Last Release false lc c1 f1 l1 ltac:(discriminate) E1)
      as (c0 & fr0 & lc0 & lv & _ & _ & _ & Hlv & _).
    assert (Ltl : (1 <= List.length tl)%nat) by (unfold tl; cbn; lia).
    apply load_values_pos in Hlv.
    - rewrite rev_length, skipn_length, app_length, firstn_length, X86MemStoreChain.rest_len_val in Hlv. lia.
    - intros E. apply (f_equal (@List.length binding)) in E. rewrite rev_length, skipn_length, X86MemStoreChain.rest_len_val in E.
      cbn [bp_n] in E. change (N.to_nat (3 - 0)) with 3%nat in E. cbn [List.length] in E. lia. }
  destruct t as [r|pp].
  - destruct (load_register r tl cE lc) as [[c l]|] eqn:ELR; cbn [rbind] in XL; [|discriminate]. eapply G; eauto.
  - destruct (load_register TEMP tl cE lc) as [[c l]|] eqn:ELR; cbn [rbind] in XL; [|discriminate]. eapply G; eauto.
Qed.

Section HLoad.
Variable im : image.
Variable types : list tydecl.
Variable CLO : Z -> ident -> list clause -> ctx -> Prop.
Local Notation hrel := (hrel types CLO).
Local Notation hvrep := (hvrep types CLO).
Local Notation xrep := (HRep.xrep types CLO jump_length in64).
Local Notation xflds := (HRep.xflds types CLO jump_length in64).
Local Notation xreps := (HRep.xreps types CLO jump_length in64).

Theorem hsim_load cE cx heE x vq q fs (e1 : env) hs s sp lc cl lc1 pc lk hl fl cl0 :
  hrel cE heE hs s sp ->
  lget s sp (mtpos (2 * N.of_nat (List.length cE))) = Some q ->
  xflds (hword s) fs q -> fs <> [] ->
  map snd e1 = fs -> env_ids e1 = ids cx ->
  Forall2 (fun b f => chi_of f = bchi b /\ ty_of f = bty b) cx fs ->
  NoDup (ids (cE ++ cx)) ->
  InvA X86Sem.HEAP_BASE hs (roots (heE ++ [(x, vq, q)])) hl fl cl0 -> P03 hs ->
  HeapRep.rep_flds lk (Heap.m hs) fs q ->
  Heap.frontier hs <= LIMIT ->
  a_load cx cE lc = Ok (cl, lc1) -> code_at im pc cl -> labels_at_nh im pc cl ->
  exists s', exec_to im pc s (padd pc (List.length cl)) s' /\ hframe_eq s s' sp /\
    hrel (cE ++ cx) (heE ++ attach e1 (load_ptrs hs (List.length fs) q))
         (Heap.load_object (Heap.nlinks (List.length fs)) q hs) s' sp.
Proof.
  intros R LQ XF NE E1S E1F KIN ND IA K03 RF HFr XL CA LA.
  pose proof (hrel_length R) as L0.
  pose proof (Forall2_len _ _ _ KIN) as Lcx.
  set (n := List.length fs) in *. set (k := Heap.nlinks n). set (w := hword s). set (F := Heap.frontier hs).
  assert (Hn : (0 < n)%nat) by (unfold n; destruct fs; [congruence|cbn; lia]).
  destruct (HRep.xflds_cons_inv types CLO jump_length in64 w fs q XF NE) as (Bq & FB & PAD & XS). fold n k in FB, PAD, XS.
  set (A := waddrs k w q) in *.
  assert (LA_ : List.length A = (2 * k + 3)%nat) by apply waddrs_length.
  pose proof (nlinks_bound n Hn) as NB1. pose proof (nlinks_upper n) as NB2. fold k in NB1, NB2.
  assert (NEcx : cx <> []) by (intros ->; cbn in Lcx; lia).
  (* the field slots *)
  assert (FLD : forall i f, nth_error fs i = Some f -> xrep w f (w (nth (List.length A - n + i) A 0)) (w (nth (List.length A - n + i) A 0 + 8))).
  { intros i f Hf. destruct (HRep.xreps_nth types CLO jump_length in64 w fs _ XS i f Hf) as (a & Ha & X).
    rewrite nth_error_skipn_add in Ha. rewrite (nth_error_nth _ _ 0 Ha). exact X. }
  assert (SLOT : forall a, In a A -> w a = 0 \/ is_blk (w a)).
  { intros a Ha. destruct (In_nth A a 0 Ha) as (j & Hj & <-).
    destruct (Nat.lt_ge_cases j (List.length A - n)) as [Lj|Lj]; [left; now apply PAD|].
    destruct (nth_error fs (j - (List.length A - n))) as [f|] eqn:Hf; [|apply nth_error_None in Hf; fold n in Hf; lia].
    pose proof (FLD _ f Hf) as X. replace (List.length A - n + (j - (List.length A - n)))%nat with j in X by lia.
    eapply (HRep.xrep_ptr types CLO jump_length in64); eauto. }
  (* hypotheses of the refinement theorem *)
  assert (OKW : lf_share_ok (S (List.length cx)) w cx X86.Last q).
  { apply lf_share_ok_words; [exact NEcx| | | |]; cbv zeta; rewrite Lcx; fold n k A; auto.
    intros i b Hb KE. destruct (nth_error fs i) as [f|] eqn:Hf; [|apply nth_error_None in Hf; apply nth_error_Some_lt in Hb; fold n in Hf; lia].
    destruct (Forall2_nth _ _ _ _ _ _ KIN Hb Hf) as [Kc _]. pose proof (FLD i f Hf) as X.
    destruct f; cbn in Kc; try congruence. inversion X; subst. congruence. }
  pose proof (hr_heq R) as HQ. fold F in HQ.
  assert (BND : forall y, is_blk y -> 0 <= hword s y <= HB).
  { intros y Hy. destruct (heq_abs_ps F s hs y HQ Hy) as [_ E]. rewrite <- E.
    eapply hdr_bounds_x; [exact IA|apply P03_P3; exact K03|exact HFr| |exact Hy].
    pose proof (roots_length (heE ++ [(x, vq, q)])) as RL. rewrite app_length in RL. cbn [List.length] in RL.
    pose proof (hrel_small types CLO _ _ _ _ _ R). lia. }
  pose proof (a_load_temps cx cE lc cl lc1 XL NEcx) as TMP.
  assert (ROOM : forall y, is_blk y -> min_int + 1 <= hword s y /\ hword s y + Z.of_nat (List.length cx) <= max_int).
  { intros y Hy. specialize (BND y Hy). unfold MAXPOS in TMP. unfold HB, min_int, max_int, two63 in *. lia. }
  assert (LAm : labels_at im pc cl) by (eapply labels_at_a_load; eauto).
  destruct (a64_load_full im pc cx cE lc cl lc1 s sp q (Heap.heap hs) F XL NEcx CA LAm (hr_frame R) LQ Bq (hr_heapreg R) OKW ROOM)
    as (s' & ST & EQ & LD & KEEP & OUT & FR' & NBS & (h' & RH') & RFR & SF).
  rewrite (lf_addrs_waddrs (hword s) cx q NEcx) in LD. rewrite Lcx in LD, EQ. fold n k w A in LD, EQ.
  (* the abstraction afterwards *)
  assert (HQL : heq (Heap.load_object k q (abs_heap F s)) (Heap.load_object k q hs)).
  { apply heq_load_object; [exact HQ|apply P03_P3; exact K03| |].
    - cbn [abs_heap Heap.m]. rewrite obj_blocks_abs. exact FB.
    - cbn [abs_heap Heap.m]. rewrite obj_blocks_abs. intros b Hb. cbn [abs_mem Heap.ps].
      destruct (wblocks_slots w k q b Hb) as (S1 & S2 & S3). fold A in S1, S2, S3.
      repeat (apply Forall_cons); [apply SLOT; exact S1|apply SLOT; exact S2| |apply Forall_nil].
      destruct S3 as [S3|S3]; [apply SLOT; exact S3|right]. rewrite Forall_forall in FB. apply FB. exact S3. }
  set (hs' := Heap.load_object k q hs) in *.
  assert (HQ1 : heq (abs_heap F s') hs') by (eapply heq_eqB; [exact EQ|exact HQL]).
  assert (EF' : Heap.frontier hs' = F) by (destruct HQ1 as (_ & _ & X & _); symmetry; exact X).
  assert (EH : h' = Heap.heap hs').
  { destruct HQ1 as (X & _). cbn [abs_heap Heap.heap] in X. unfold reg_or0 in X. rewrite RH' in X. exact X. }
  assert (EFREE : Heap.free hs' = Heap.free hs).
  { destruct HQ1 as (_ & X & _). cbn [abs_heap Heap.free] in X. unfold reg_or0 in X. rewrite RFR, (hr_freereg R) in X. congruence. }
  assert (EXT : forall a, ~ is_blk a -> hword s' a = hword s a) by exact NBS.
  (* the pointers of the machine are the loaded words *)
  assert (LP : load_ptrs hs n q = map w (skipn (List.length A - n) A)).
  { unfold n, w, A, k. apply (load_ptrs_words F s hs lk fs q HQ K03 NE RF). exact FB. }
  exists s'. split; [|split].
  - exact ST.
  - split; [exact OUT|exact SF].
  - destruct R as [F0 Ro Hr Fr HQ0 Ids NDc Vals]. split; auto.
    + rewrite RH'. now rewrite EH.
    + rewrite RFR, Fr. now rewrite EFREE.
    + rewrite EF'. exact HQ1.
    + unfold env_ids, ids, erase_env in *. rewrite !map_app. f_equal; [exact Ids|].
      fold (erase_env (attach e1 (load_ptrs hs n q))). rewrite attach_erase. exact E1F.
    + intros i y v p Hi. destruct (Nat.lt_ge_cases i (List.length heE)) as [Li|Li].
      * rewrite nth_error_app1 in Hi by exact Li.
        destruct (Vals i y v p Hi) as (b & Hb & V).
        exists b. split; [rewrite nth_error_app1 by lia; exact Hb|].
        destruct V as [b z p t A0 B T Lg I64|b v p a t1 t2 A0 K1 K2 T1 T2 Lg1 Lg2 X].
        -- eapply hv_int; eauto. apply atpos_mtpos in T as [-> _]. rewrite KEEP; [exact Lg|]. cbn [tnum_n]. lia.
        -- pose proof T1 as T1'. pose proof T2 as T2'.
           apply atpos_mtpos in T1' as [-> _]. apply atpos_mtpos in T2' as [-> _].
           eapply (hv_ptr types CLO s' sp i b v p a); eauto.
           ++ rewrite KEEP; [exact Lg1|]. cbn [tnum_n]. lia.
           ++ rewrite KEEP; [exact Lg2|]. cbn [tnum_n]. lia.
           ++ eapply (HRep.xrep_ext types CLO jump_length in64); [exact EXT|exact X].
      * rewrite nth_error_app2 in Hi by exact Li. set (j := (i - List.length heE)%nat) in *.
        destruct (attach_nth _ _ _ _ _ _ Hi) as [He1 Ep].
        assert (Hf : nth_error fs j = Some v).
        { rewrite <- E1S. rewrite nth_error_map, He1. reflexivity. }
        assert (Lj : (j < n)%nat) by (apply nth_error_Some_lt in Hf; exact Hf).
        destruct (nth_error cx j) as [b|] eqn:Hb; [|apply nth_error_None in Hb; lia].
        exists b. split; [rewrite nth_error_app2 by lia; replace (i - List.length cE)%nat with j by lia; exact Hb|].
        destruct (Forall2_nth _ _ _ _ _ _ KIN Hb Hf) as [Kc Kt].
        destruct (LD j b Hb) as [LS LF]. cbv zeta in LS, LF.
        replace (List.length cE + j)%nat with i in LS, LF by lia.
        set (a := nth (List.length A - n + j) A 0) in *.
        pose proof (FLD j v Hf) as X. fold a in X.
        assert (Ep' : p = w a).
        { rewrite Ep, LP. rewrite (nth_indep _ 0 (w 0)) by (rewrite map_length, skipn_length; lia).
          rewrite map_nth. f_equal. unfold a.
          assert (Hs : nth_error (skipn (List.length A - n) A) j = nth_error A (List.length A - n + j)) by apply nth_error_skipn_add.
          destruct (nth_error A (List.length A - n + j)) as [a0|] eqn:Ha; [|apply nth_error_None in Ha; lia].
          rewrite (nth_error_nth _ _ 0 Hs), (nth_error_nth _ _ 0 Ha). reflexivity. }
        assert (K1 : (2 * N.of_nat i + 1 < MAXPOS)%N) by (rewrite Lcx in TMP; unfold MAXPOS in *; lia).
        assert (K0 : (2 * N.of_nat i + 0 < MAXPOS)%N) by lia.
        destruct (bchi b) eqn:Kb.
        -- rewrite Ep'. eapply (hv_ptr types CLO s' sp i b v (w a) (w (a + 8))); try (rewrite ?Kb; congruence).
           ++ apply (mtpos_atpos Fst i). exact K0.
           ++ apply (mtpos_atpos Snd i). exact K1.
           ++ cbn [tnum_n]. rewrite N.add_0_r. apply LF. congruence.
           ++ exact LS.
           ++ eapply (HRep.xrep_ext types CLO jump_length in64); [exact EXT|exact X].
        -- rewrite Ep'. eapply (hv_ptr types CLO s' sp i b v (w a) (w (a + 8))); try (rewrite ?Kb; congruence).
           ++ apply (mtpos_atpos Fst i). exact K0.
           ++ apply (mtpos_atpos Snd i). exact K1.
           ++ cbn [tnum_n]. rewrite N.add_0_r. apply LF. congruence.
           ++ exact LS.
           ++ eapply (HRep.xrep_ext types CLO jump_length in64); [exact EXT|exact X].
        -- destruct v as [z| |]; cbn in Kc, Kt; try congruence. inversion X; subst.
           eapply hv_int; [exact Kb|congruence|apply (mtpos_atpos Snd i); exact K1| |assumption].
           cbn [tnum_n]. rewrite LS. congruence.
Qed.
End HLoad.
