(* Proof/ShrinkSimClosed.v (C04, fragment 2) - semantic preservation with no hypothesis on the output:
   the typing theorem (Proof/ShrinkTyProg.v) provides wt_ax of the shrunk program. *)
From Coq Require Import List ZArith NArith String Bool.
From SCC Require Import Sem.FsFrag2 Base.Sexp Lang.CoreSyn Lang.AxSyn Sem.AxSem Sem.FsCheck Model.Shrink
     Proof.ShrinkSem Proof.ShrinkRn Proof.ShrinkSimProg Proof.ShrinkTyProg.
From SCC Require Sem.AxCheck Sem.CoreSem.
Import ListNotations.

Theorem shrink_correct_fragment2_closed : forall p q n args o,
  frag2_prog p = true -> decls_ok p = true -> wt_fs p = true -> unique_binders p = true -> ids_bounded p = true ->
  shrink_prog p = SOk q ->
  CoreSem.run_fs n p args = o -> good o ->
  exists m, run_named m q args = o.
Proof.
  intros p q n args o Hfr Hd WF UB IB Hsh Hrun Hg.
  assert (Hn : names_ok p = true) by (unfold frag2_prog in Hfr; now apply andb_prop in Hfr as [? _]).
  destruct (shrink_typing_fragment2 p q Hn Hd WF UB IB Hsh) as [CK _].
  eapply shrink_correct_fragment2; eauto. unfold AxCheck.wt_ax. now rewrite CK.
Qed.
