(* C17: label-counter independence of the three code generators.
   [shift_labels]: the renaming of generated labels lab<k>, <Type>_<k>, <Type>_<k>_<Xtor> (k > c1) to
   the number k - c1 + c2; definition labels and `cleanup` are fixed.  The renaming is a FUNCTION on
   label texts only where the texts can be decoded (LabelStrings.decode): under the name-digits guard
   of C14.  [translate_shift]: `translate` started at counter c2 = shift_labels (translate started
   at c1), same errors, final counter shifted.  Hence [normal_form]: renumbering both outputs to
   base 0 gives identical code - the comparison the determinism check makes after renumbering. *)
From Coq Require Import List ZArith NArith String Ascii Bool Lia.
From SCC Require Import Base.Sexp Lang.AxSyn Model.ParMoves Model.Backend Model.X86 Model.A64 Model.RV
  Sem.X86Wf Sem.A64Wf Sem.RVWf Sem.LabelGuard
  Proof.LabelStrings Proof.LabelGen Proof.LabelShift Proof.LabelsX86 Proof.LabelsA64 Proof.LabelsRV
  Proof.ShiftX86 Proof.ShiftA64 Proof.ShiftRV.
Import ListNotations.
Local Open Scope string_scope.
Local Open Scope list_scope.

(* the guard: as labels_guard of C14, and calls go to lower-case names; which of the two decoders applies *)
Definition renaming_guard_types (ds : list def) : bool := shift_guard_defs ty_ok all_true ds.
Definition renaming_guard_xtors (ds : list def) : bool := shift_guard_defs all_true xtor_ok ds.
Definition renaming_guard (ds : list def) : bool := renaming_guard_types ds || renaming_guard_xtors ds.

Definition renumber (c1 c2 : N) (k : N) : N := (k - c1 + c2)%N.
Definition rename_label (ds : list def) (c1 c2 : N) : string -> string :=
  if renaming_guard_types ds then rho cut_first (renumber c1 c2) else rho cut_last (renumber c1 c2).

Section Generic.
Context {Code Temp : Type} (B : backend Code Temp) (cdefs crefs : Code -> list string).
Hypothesis LO : labels_ok B cdefs crefs.
Variable cmap : (string -> string) -> Code -> Code.
Hypothesis SO : forall rho a b, (forall k, (a < k)%N -> rho (pr (GLab k)) = pr (GLab (sh a b k))) -> shift_ok B cmap rho a b.

Definition shift_labels (ds : list def) (c1 c2 : N) (code : list Code) : list Code :=
  map (cmap (rename_label ds c1 c2)) code.
Definition shift_result (ds : list def) (c1 c2 : N) (r : res (list Code * N)) : res (list Code * N) :=
  match r with Ok (c, lc') => Ok (shift_labels ds c1 c2 c, renumber c1 c2 lc') | Err m => Err m end.

Lemma shift_with (r : string -> string) okS okX types ds c1 c2 :
  (forall g, in_univ okS okX g -> is_gen g = true -> r (pr g) = pr (with_key (sh c1 c2) g)) ->
  (forall s, lower_first s = true -> r (s ++ "_")%string = (s ++ "_")%string) ->
  r "cleanup" = "cleanup" ->
  shift_guard_defs okS okX ds = true ->
  translate B types ds c2
  = match translate B types ds c1 with Ok (c, lc') => Ok (map (cmap r) c, renumber c1 c2 lc') | Err m => Err m end.
Proof.
  intros RG RD RC G. assert (E : c2 = sh c1 c2 c1) by (unfold sh; lia). rewrite E at 1.
  assert (RL : forall k, (c1 < k)%N -> r (pr (GLab k)) = pr (GLab (sh c1 c2 k))) by (intros k _; apply (RG (GLab k) I eq_refl)).
  rewrite (translate_shift_gen B cdefs crefs LO cmap r c1 c2 (SO r c1 c2 RL) okS okX (fun g U GG _ => RG g U GG) RD RC types ds c1 G (N.le_refl c1)).
  unfold shr, shp. destruct (translate B types ds c1) as [[c l]|m]; reflexivity.
Qed.

Theorem translate_shift types ds c1 c2 :
  renaming_guard ds = true ->
  translate B types ds c2 = shift_result ds c1 c2 (translate B types ds c1).
Proof.
  unfold renaming_guard, shift_result, shift_labels, rename_label. intros G.
  destruct (renaming_guard_types ds) eqn:GT.
  - apply (shift_with _ ty_ok all_true); [| | |exact GT].
    + intros g U GG. apply (rho_gen ty_ok all_true cut_first); try assumption.
      * intros T k H. apply decode_first_tl; exact H.
      * intros T k X H _. apply decode_first_cl; exact H.
    + intros s H. apply rho_def. exact H.
    + reflexivity.
  - cbn [orb] in G. apply (shift_with _ all_true xtor_ok); [| | |exact G].
    + intros g U GG. apply (rho_gen all_true xtor_ok cut_last); try assumption.
      * intros T k _. apply decode_last_tl.
      * intros T k X _ H. apply decode_last_cl; exact H.
    + intros s H. apply rho_def. exact H.
    + reflexivity.
Qed.

(* renumbering to base 0 is a normal form: the outputs of two runs started at different counters
   coincide after it (errors included) *)
Definition normalize (ds : list def) (c : N) (r : res (list Code * N)) : res (list Code * N) := shift_result ds c 0 r.
Corollary normal_form types ds c1 c2 :
  renaming_guard ds = true ->
  normalize ds c1 (translate B types ds c1) = normalize ds c2 (translate B types ds c2).
Proof.
  intros G. unfold normalize. rewrite <- !(translate_shift types ds _ 0 G). reflexivity.
Qed.

Theorem compile_shift p c1 c2 :
  renaming_guard (pdefs p) = true ->
  compile B p c2 = match compile B p c1 with
                   | Ok (c, n, lc') => Ok (shift_labels (pdefs p) c1 c2 c, n, renumber c1 c2 lc')
                   | Err m => Err m
                   end.
Proof.
  intros G. unfold compile. destruct (pdefs p) as [|d0 ds] eqn:E; [reflexivity|]. rewrite <- E in *.
  rewrite (translate_shift (ptypes p) (pdefs p) c1 c2 G). unfold shift_result.
  destruct (translate B (ptypes p) (pdefs p) c1) as [[c l]|m]; reflexivity.
Qed.
End Generic.

(* ---------- the three back ends ---------- *)
Theorem x86_translate_shift types ds c1 c2 :
  renaming_guard ds = true ->
  translate x86_backend types ds c2 = shift_result xmap ds c1 c2 (translate x86_backend types ds c1).
Proof. apply (translate_shift x86_backend xdefs X86Wf.referenced x86_labels_ok xmap (fun r a b H => x86_shift_ok r a b H)). Qed.
Theorem a64_translate_shift types ds c1 c2 :
  renaming_guard ds = true ->
  translate a64_backend types ds c2 = shift_result amap ds c1 c2 (translate a64_backend types ds c1).
Proof. apply (translate_shift a64_backend A64Wf.all_defs A64Wf.referenced a64_labels_ok amap (fun r a b H => a64_shift_ok r a b H)). Qed.
Theorem rv_translate_shift types ds c1 c2 :
  renaming_guard ds = true ->
  translate rv_backend types ds c2 = shift_result rmap ds c1 c2 (translate rv_backend types ds c1).
Proof. apply (translate_shift rv_backend RVWf.all_defs RVWf.referenced rv_labels_ok rmap (fun r a b H => rv_shift_ok r a b H)). Qed.

(* the complete routines: preamble, set-up and cleanup carry no generated label *)
Lemma rename_asm_main ds c1 c2 : rename_label ds c1 c2 "asm_main" = "asm_main".
Proof. unfold rename_label. destruct (renaming_guard_types ds); reflexivity. Qed.
Lemma rename_cleanup ds c1 c2 : rename_label ds c1 c2 "cleanup" = "cleanup".
Proof. unfold rename_label. destruct (renaming_guard_types ds); reflexivity. Qed.
Lemma rn_args_x86 f : forall n x, X86.move_arguments n = Ok x -> map (xmap f) x = x.
Proof.
  induction n as [|n IH]; intros x E; cbn [X86.move_arguments] in E; [inversion E; reflexivity|].
  destruct (Nat.ltb 5 (S n)); [discriminate|]. rinv E. inversion E; subst. cbn [app map xmap]. rewrite (IH _ E0). reflexivity.
Qed.
Theorem x86_compile_shift p c1 c2 :
  renaming_guard (pdefs p) = true ->
  x86_compile p c2 = match x86_compile p c1 with
                     | Ok (r, n, lc') => Ok (shift_labels xmap (pdefs p) c1 c2 r, n, renumber c1 c2 lc')
                     | Err m => Err m
                     end.
Proof.
  intros G. unfold x86_compile, x86_compile_with.
  rewrite (compile_shift x86_backend xdefs X86Wf.referenced x86_labels_ok xmap (fun r a b H => x86_shift_ok r a b H) p c1 c2 G).
  destruct (compile x86_backend p c1) as [[[is n] l]|m]; cbn [rbind]; [|reflexivity].
  unfold into_x86_64_routine, X86.setup. destruct (X86.move_arguments n) as [s|m] eqn:E; cbn [rbind]; [|reflexivity].
  unfold shift_labels. rewrite !map_app, (rn_args_x86 _ _ _ E). cbn [map xmap X86.preamble X86.cleanup].
  rewrite rename_asm_main, rename_cleanup. reflexivity.
Qed.
Lemma rn_args_a64 f : forall n x, A64.move_arguments n = Ok x -> map (amap f) x = x.
Proof.
  induction n as [|n IH]; intros x E; cbn [A64.move_arguments] in E; [inversion E; reflexivity|].
  destruct (Nat.ltb 7 (S n)); [discriminate|]. rinv E. inversion E; subst. cbn [app map amap]. rewrite (IH _ E0). reflexivity.
Qed.
Theorem a64_compile_shift p c1 c2 :
  renaming_guard (pdefs p) = true ->
  a64_compile p c2 = match a64_compile p c1 with
                     | Ok (r, n, lc') => Ok (shift_labels amap (pdefs p) c1 c2 r, n, renumber c1 c2 lc')
                     | Err m => Err m
                     end.
Proof.
  intros G. unfold a64_compile, a64_compile_with. change (a64_backend_with (fun _ => [])) with a64_backend.
  rewrite (compile_shift a64_backend A64Wf.all_defs A64Wf.referenced a64_labels_ok amap (fun r a b H => a64_shift_ok r a b H) p c1 c2 G).
  destruct (compile a64_backend p c1) as [[[is n] l]|m]; cbn [rbind]; [|reflexivity].
  unfold into_aarch64_routine, A64.setup. destruct (A64.move_arguments n) as [s|m] eqn:E; cbn [rbind]; [|reflexivity].
  unfold shift_labels. rewrite !map_app, (rn_args_a64 _ _ _ E). cbn [map amap A64.preamble A64.cleanup].
  rewrite rename_asm_main, rename_cleanup. reflexivity.
Qed.
Theorem rv_compile_shift p c1 c2 :
  renaming_guard (pdefs p) = true ->
  rv_compile p c2 = match rv_compile p c1 with
                    | Ok (r, n, lc') => Ok (shift_labels rmap (pdefs p) c1 c2 r, n, renumber c1 c2 lc')
                    | Err m => Err m
                    end.
Proof.
  intros G. unfold rv_compile. destruct (prog_has_print p); [reflexivity|].
  apply (compile_shift rv_backend RVWf.all_defs RVWf.referenced rv_labels_ok rmap (fun r a b H => rv_shift_ok r a b H) p c1 c2 G).
Qed.

(* ---------- without the name-digits guard no FUNCTION on label texts relates the two outputs ---------- *)
Definition collide_defs : list def :=
  let v : ident := ("v", 0%N) in
  [mkd ("main", 0%N) []
     (Switch v (Decl ("Aa", 0%N))
        [(("Bx_2_Cy", 0%N), [], Switch v (Decl ("Aa_1_Bx", 0%N)) [(("Cy", 0%N), [], Call ("main", 0%N) [])])])].
Theorem translate_shift_refuted :
  shift_guard_defs all_true all_true collide_defs = true /\
  forall f : string -> string,
    match translate x86_backend [] collide_defs 0, translate x86_backend [] collide_defs 10 with
    | Ok (c0, _), Ok (c10, _) => map (xmap f) c0 <> c10
    | _, _ => False
    end.
Proof.
  split; [reflexivity|]. intros f.
  set (r0 := translate x86_backend [] collide_defs 0). vm_compute in r0.
  set (r10 := translate x86_backend [] collide_defs 10). vm_compute in r10. subst r0 r10. cbn [map xmap].
  intros E. injection E as _ _ E1 _ E2 _. rewrite E1 in E2. discriminate E2.
Qed.
(* inside the guard: the same program with neutral names, compiled at counters 0 and 10 *)
Definition neutral_defs : list def :=
  let v : ident := ("v", 0%N) in
  [mkd ("main", 0%N) []
     (Switch v (Decl ("Aa", 0%N))
        [(("Bx", 0%N), [], Switch v (Decl ("List[i64]", 0%N)) [(("Cy", 0%N), [], Call ("main", 0%N) [])])])].
Example renaming_guard_satisfiable :
  renaming_guard neutral_defs = true /\
  LabelGen.defs xdefs (match translate x86_backend [] neutral_defs 0 with Ok (c, _) => c | Err _ => [] end)
    = ["main_"; "Aa_1"; "Aa_1_Bx"; "List_i64_2"; "List_i64_2_Cy"] /\
  LabelGen.defs xdefs (match translate x86_backend [] neutral_defs 10 with Ok (c, _) => c | Err _ => [] end)
    = ["main_"; "Aa_11"; "Aa_11_Bx"; "List_i64_12"; "List_i64_12_Cy"] /\
  map (rename_label neutral_defs 0 10) ["main_"; "Aa_1"; "Aa_1_Bx"; "List_i64_2"; "List_i64_2_Cy"; "cleanup"; "lab7"]
    = ["main_"; "Aa_11"; "Aa_11_Bx"; "List_i64_12"; "List_i64_12_Cy"; "cleanup"; "lab17"].
Proof. vm_compute. repeat split. Qed.

(* ---------- the comparison of the run-time check ----------
   harness/src/cmd_det.rs normalize_labels replaces the numbers of generated labels by the index of their
   first occurrence (it cannot know the counter value a run started from).  [canon] is that numbering on
   a sequence of numbers; it is invariant under every renaming that is injective on the sequence, in
   particular under k |-> k - c1 + c2 on numbers above c1. *)
Fixpoint index_of (k : N) (seen : list N) : option nat :=
  match seen with [] => None | x :: r => if N.eqb k x then Some O else option_map S (index_of k r) end.
Fixpoint canon_aux (seen : list N) (l : list N) : list nat :=
  match l with
  | [] => []
  | k :: r => match index_of k seen with
              | Some i => i :: canon_aux seen r
              | None => List.length seen :: canon_aux (seen ++ [k]) r
              end
  end.
Definition canon (l : list N) : list nat := canon_aux [] l.

Lemma index_of_map f k seen :
  (forall x, In x seen -> f k = f x -> k = x) -> index_of (f k) (map f seen) = index_of k seen.
Proof.
  induction seen as [|x r IH]; intros I; [reflexivity|]. cbn [map index_of].
  destruct (N.eqb k x) eqn:E.
  - apply N.eqb_eq in E. subst. rewrite N.eqb_refl. reflexivity.
  - destruct (N.eqb (f k) (f x)) eqn:E'.
    + apply N.eqb_eq in E'. apply I in E'; [|left; reflexivity]. apply N.eqb_neq in E. contradiction.
    + rewrite IH; [reflexivity|]. intros y Hy. apply I. right. exact Hy.
Qed.
Lemma canon_aux_map f : forall l seen,
  (forall x y, In x (seen ++ l) -> In y (seen ++ l) -> f x = f y -> x = y) ->
  canon_aux (map f seen) (map f l) = canon_aux seen l.
Proof.
  induction l as [|k r IH]; intros seen I; [reflexivity|]. cbn [map canon_aux].
  rewrite index_of_map.
  - destruct (index_of k seen).
    + f_equal. apply IH. intros x y Hx Hy. apply I; apply in_app_or in Hx, Hy; apply in_or_app; (destruct Hx; [left|right; right]; assumption) || idtac;
        destruct Hy; [left|right; right]; assumption.
    + rewrite map_length. f_equal. replace (map f seen ++ [f k]) with (map f (seen ++ [k])) by (rewrite map_app; reflexivity).
      apply IH. intros x y Hx Hy. apply I; rewrite <- app_assoc in Hx, Hy; assumption.
  - intros x Hx. apply I; apply in_or_app; [right; left; reflexivity|left; exact Hx].
Qed.
Theorem canon_invariant f l :
  (forall x y, In x l -> In y l -> f x = f y -> x = y) -> canon (map f l) = canon l.
Proof. intros I. apply (canon_aux_map f l []). exact I. Qed.
Lemma renumber_injective c1 c2 x y : (c1 <= x)%N -> (c1 <= y)%N -> renumber c1 c2 x = renumber c1 c2 y -> x = y.
Proof. unfold renumber. lia. Qed.

(* the numbers of the generated labels in a sequence of label texts *)
Section Numbers.
Variables okS okX : string -> bool.
Variable cut : string -> option (string * string).
Hypothesis cut_tl : forall T k, okS T = true -> decode_with cut (pr (GTL T k)) = Some (GTL T k).
Hypothesis cut_cl : forall T k X, okS T = true -> okX X = true -> decode_with cut (pr (GCL T k X)) = Some (GCL T k X).
Definition numbers (ls : list string) : list N :=
  flat_map (fun l => match decode cut l with Some g => [key g] | None => [] end) ls.
(* labels a program in the universe can emit: generated ones, definition labels, cleanup *)
Definition known (l : string) : Prop :=
  (exists g, l = pr g /\ in_univ okS okX g) \/ l = "cleanup".
Lemma numbers_rename f ls :
  (forall l, In l ls -> known l) -> numbers (map (rho cut f) ls) = map f (numbers ls).
Proof.
  induction ls as [|l r IH]; intros K; [reflexivity|]. cbn [map numbers flat_map]. fold (numbers (map (rho cut f) r)). fold (numbers r).
  rewrite map_app, IH by (intros x Hx; apply K; right; exact Hx). f_equal.
  destruct (K l (or_introl eq_refl)) as [(g & -> & U)| ->].
  - destruct (is_gen g) eqn:G.
    + rewrite (rho_gen okS okX cut cut_tl cut_cl f g U G).
      assert (U' : in_univ okS okX (with_key f g)) by (destruct g; exact U).
      assert (G' : is_gen (with_key f g) = true) by (destruct g; try discriminate; reflexivity).
      rewrite (decode_pr okS okX cut cut_tl cut_cl _ U' G'), (decode_pr okS okX cut cut_tl cut_cl _ U G).
      destruct g; try discriminate; reflexivity.
    + destruct g; try discriminate. cbn [in_univ] in U. cbn [pr]. rewrite (rho_def cut f name U).
      change (name ++ "_")%string with (pr (GDef name)). rewrite (decode_def cut name U). reflexivity.
  - reflexivity.
Qed.
(* hence: first-occurrence renumbering cannot distinguish a run from its shifted copy *)
Theorem canon_numbers_shift c1 c2 ls :
  (forall l, In l ls -> known l) -> (forall k, In k (numbers ls) -> (c1 <= k)%N) ->
  canon (numbers (map (rho cut (renumber c1 c2)) ls)) = canon (numbers ls).
Proof.
  intros K B. rewrite (numbers_rename _ _ K). apply canon_invariant.
  intros x y Hx Hy. apply renumber_injective; apply B; assumption.
Qed.
End Numbers.
