(* C06, all statement forms: corollaries of Proof/X86HSimTop.x86_codegen_simulates.
   - for runs that end with a result the argument count is right (no arity hypothesis): the shape of the
     x86-64 link of the end-to-end composition (Proof/ComposeFull.v);
   - for outputs of the linearization pass the two structural checks (`lin_check_prog`, `ann_check_prog`)
     are theorems (C05 linearize_exact; Proof/X86HAnnLin.linearize_ann). *)
From Coq Require Import List ZArith NArith String Bool Lia.
From SCC Require Import Base.Sexp Lang.AxSyn Sem.AxSem Sem.AxHeap Model.Backend Model.X86 Sem.X86Sem Sem.X86Wf
     Model.Linearize Model.LinCheck Proof.LinearizeProof Proof.X86SimStmt Proof.X86SimAddr Proof.X86SimProg Proof.X86SimProgC
     Proof.X86HAnn Proof.X86HAnnLin Proof.X86HSimTop.
From SCC Require Model.Heap Proof.AxHeapTyping.
Import ListNotations.
Open Scope Z_scope.

Corollary x86_codegen_correct_heap p lc cs n lc' args fuel o :
  lin_check_prog p = true -> ann_check_prog p = true -> AxHeapTyping.entry_ext p = true ->
  plain_names p = true -> plain_types p = true ->
  x86_compile p lc = Ok (cs, n, lc') -> asm_wf cs = None -> code_small cs = true ->
  heap_fits p args ->
  run_linear fuel p args = o -> defined o = true ->
  exists outer inner, fst (run_x86 outer inner cs args) = o.
Proof.
  intros LIN ANN EE0 PL PLT XC WF SM FIT RUN D.
  assert (G : good o) by (left; unfold defined in D; destruct (snd o); try discriminate; eauto).
  eapply x86_codegen_simulates; eauto; [|apply good_not_oof; exact G].
  unfold x86_compile, x86_compile_with in XC.
  destruct (compile x86_backend p lc) as [[[is n0] lc0]|] eqn:CP; cbn [rbind] in XC; [|discriminate].
  destruct (into_x86_64_routine is n0) as [r|] eqn:RT; cbn [rbind] in XC; [|discriminate].
  inversion XC; subst r n0 lc0; clear XC.
  unfold compile in CP. unfold run_linear in RUN. destruct (pdefs p) as [|d0 rest] eqn:PD; [discriminate|].
  destruct (translate x86_backend (ptypes p) (d0 :: rest) lc) as [[is' lc1]|] eqn:TR; cbn [rbind] in CP; [|discriminate].
  cbn in CP. inversion CP; subst is n lc'; clear CP.
  destruct (entry_env d0 args) as [e0|] eqn:EE; [|subst o; exfalso; destruct G as [(z & H)|(z & H)]; discriminate].
  unfold entry_env in EE. apply bind_length in EE. unfold vars in EE. rewrite !map_length in EE. auto.
Qed.

(* the code generator applied to the output of the linearization pass *)
Corollary x86_codegen_correct_linearized a lc cs n lc' args fuel o :
  prog_ok a = true ->
  AxHeapTyping.entry_ext (linearize a) = true -> plain_names (linearize a) = true -> plain_types (linearize a) = true ->
  x86_compile (linearize a) lc = Ok (cs, n, lc') -> asm_wf cs = None -> code_small cs = true ->
  heap_fits (linearize a) args ->
  run_linear fuel (linearize a) args = o -> defined o = true ->
  exists outer inner, fst (run_x86 outer inner cs args) = o.
Proof.
  intros OK. intros. eapply x86_codegen_correct_heap; eauto using linearize_exact, linearize_ann.
Qed.
