(* Proof/ShrinkTyH.v (C12, fragment 2) - typing of the clauses of eta expansions and the unknown cuts. *)
From Coq Require Import List ZArith NArith String Bool Lia.
From SCC Require Import Base.Sexp Lang.SynUtil Lang.CoreSyn Lang.AxSyn Sem.FsCheck Model.Shrink Model.LinCheck Model.WtDefs
     Proof.ShrinkProof Proof.ShrinkRn Proof.ShrinkSimBase Proof.ShrinkSimData Proof.ShrinkSimEta Proof.ShrinkTfv
     Proof.ShrinkSimC Proof.ShrinkTyA Proof.ShrinkTyB Proof.ShrinkTyC Proof.ShrinkTyD Proof.ShrinkTyE Proof.ShrinkTyF Proof.ShrinkTyG.
From SCC Require Sem.AxCheck.
Import ListNotations.
Open Scope list_scope.

Lemma lookup_b_self : forall env Ga b, NoDup (ids env) -> In b env -> AxCheck.lookup_b (env ++ Ga) (idn (bvar b)) = Some b.
Proof.
  induction env as [|b0 r IH]; intros Ga b Hnd Hin; [contradiction|]. cbn [ids map] in Hnd. inversion Hnd as [|? ? Hni Hnd']; subst.
  cbn [app AxCheck.lookup_b]. destruct Hin as [->|Hin]; [now rewrite N.eqb_refl|].
  destruct (N.eqb (idn (bvar b0)) (idn (bvar b))) eqn:E; [|now apply IH].
  apply N.eqb_eq in E. exfalso. apply Hni. rewrite E. unfold ids. apply in_map_iff. eauto.
Qed.
Lemma lookup_b_skip : forall env Ga i, ~ In i (ids env) -> AxCheck.lookup_b (env ++ Ga) i = AxCheck.lookup_b Ga i.
Proof.
  induction env as [|b0 r IH]; intros Ga i H; [reflexivity|]. cbn [app AxCheck.lookup_b]. cbn [ids map] in H.
  destruct (N.eqb (idn (bvar b0)) i) eqn:E; [apply N.eqb_eq in E; exfalso; apply H; now left|]. apply IH. intros Hi. apply H. now right.
Qed.
Lemma bound_skip_list : forall env Ga y c t, AxCheck.bound Ga y c t = None -> (forall i, In i (ids env) -> ~ In i (ids Ga)) ->
  AxCheck.bound (env ++ Ga) y c t = None.
Proof.
  intros env Ga y c t H Hdis. unfold AxCheck.bound in *. destruct (AxCheck.lookup_b Ga (idn y)) as [b|] eqn:E; [|discriminate].
  rewrite lookup_b_skip, E; [exact H|]. intros Hin. apply (Hdis _ Hin). eapply lookup_b_in; eauto.
Qed.
Lemma args_ok_env : forall env Ga sg, NoDup (ids env) -> (forall what, AxCheck.params_ok what env sg = None) ->
  forall what, AxCheck.args_ok what (env ++ Ga) env sg = None.
Proof.
  intros env Ga sg Hnd Hp what. eapply args_ok_sig; [|apply Hp]. apply args_ok_self.
  intros b Hb. eapply bound_intro; [apply lookup_b_self; eauto | reflexivity | reflexivity].
Qed.

Section TyH.
Variable p : fsprog.
Variable ds' : list def.
Notation data := (fspdata p).
Notation codata := (fspcodata p).
Notation defs := (fspdefs p).
Notation m0 := (fspmax p).
Notation D := (data ++ [cont_int]).
Notation ts := (ts_of p).
Notation TLs := (TLs p ds').
Notation TLn := (TLn p ds').
Hypothesis Hdisj : forall n, find_decl data n <> None -> find_decl codata n = None.
Hypothesis Hcont : find_decl data cont_name = None /\ find_decl codata cont_name = None.
Hypothesis Hfields : forall d, In d (data ++ codata) -> forall sg, In sg (ctxtors d) -> forall b, In b (cxargs sg) -> ty_ok data codata (cbty b) = true.
Hypothesis Hxnd : forall d, In d (data ++ codata) -> nodup_by cident_eqb (map cxname (ctxtors d)) = true.

Definition sx (x : cident * cctx) : xtorsig := mkx (fst x) (shrink_context codata (snd x)).
Lemma sx_xtor_list : forall d, map sx (xtor_list d) = map (shrink_xtor codata) (ctxtors d).
Proof. intros d. unfold xtor_list. rewrite map_map. reflexivity. Qed.

(* every xtor of a declaration is found under its name *)
Lemma find_cxtor_self : forall d sg, In d (data ++ codata) -> In sg (ctxtors d) -> find_cxtor d (cxname sg) = Some sg.
Proof.
  intros d sg Hd Hsg. pose proof (Hxnd d Hd) as Hn. unfold find_cxtor. induction (ctxtors d) as [|s r IH]; [contradiction|].
  simpl in *. apply andb_prop in Hn as [Hn1 Hn2]. destruct Hsg as [->|Hsg]; [now rewrite cident_eqb_refl|].
  destruct (cident_eqb (cxname s) (cxname sg)) eqn:E; [|now apply IH].
  apply cident_eqb_eq in E. apply negb_true_iff in Hn1. exfalso.
  assert (existsb (cident_eqb (cxname s)) (map cxname r) = true); [|congruence].
  apply existsb_exists. exists (cxname sg). split; [now apply in_map | now apply cident_eqb_eq].
Qed.

(* the clauses of an eta-expanded variable cut *)
Lemma unk_cls_ok : forall th Ga T dT ve,
  AxCheck.find_type ts T = Some dT -> AxCheck.bound Ga (th ve) Cns (Decl T) = None ->
  (forall y, (m0 < idn y)%N -> th y = y) ->
  forall xs st cls st', unknown_clauses codata ve (Decl T) xs st = (cls, st') -> (m0 <= s_max st)%N ->
  (forall x, In x xs -> AxCheck.find_xtor dT (fst x) = Some (sx x)) ->
  (forall i, (s_max st < i <= s_max st')%N -> ~ In i (ids Ga)) ->
  cls_ok ts ds' Ga (arn_cls th cls) (map sx xs).
Proof.
  intros th Ga T dT ve HT Hve Hth. induction xs as [|[xt a] r IH]; intros st cls st' H Hm Hx Hfr; simpl in H.
  - inv H. constructor.
  - destruct (fresh_env _ st) as [env st1] eqn:He. destruct (unknown_clauses _ _ _ r st1) as [r' st2] eqn:Hr. inv H.
    pose proof (fresh_env_shape _ _ _ _ He) as (Hlen & Hm1 & _ & Hrng & Hnd). destruct (unknown_clauses_mono _ _ _ _ _ _ _ Hr) as [Hm2 _].
    rewrite <- ids_vars in Hnd.
    assert (Hdis : forall i, In i (ids env) -> ~ In i (ids Ga)).
    { intros i Hi. apply Hfr. rewrite ids_vars in Hi. apply in_map_iff in Hi as (y & <- & Hy). apply Hrng in Hy. lia. }
    assert (Hfix : arn_ctx th env = env).
    { apply arn_ctx_fix. intros y Hy. apply Hth. apply Hrng in Hy. lia. }
    cbn [arn_cls map fst snd]. constructor.
    + cbn [fst snd sx xname xargs]. unfold shrink_identifier. split; [reflexivity|].
      split; [eapply params_ok_fresh_env; eauto|]. split; [apply fresh_all_intro; auto|].
      cbn [arn]. rewrite Hfix. eapply ck_invoke; [exact HT | apply (Hx (xt, a)); now left | apply bound_skip_list; auto |].
      cbn [sx xargs snd]. apply args_ok_env; [exact Hnd | eapply params_ok_fresh_env; eauto].
    + apply (IH st1 r' st' Hr); [lia | intros x Hxin; apply Hx; now right | intros i Hi; apply Hfr; lia].
Qed.

(* the clauses of an eta-expanded critical pair: each binds the xtor and continues with the renamed expanded side *)
Lemma crit_cls_ok : forall th Ga T dT ve se,
  AxCheck.find_type ts T = Some dT -> (forall y, (m0 < idn y)%N -> th y = y) ->
  forall xs st cls st', critical_clauses codata ve (Decl T) se xs st = (cls, st') -> (m0 <= s_max st)%N ->
  (forall x, In x xs -> AxCheck.find_xtor dT (fst x) = Some (sx x)) ->
  (forall i, (s_max st < i <= s_max st')%N -> ~ In i (ids Ga)) ->
  (forall env var, NoDup (ids env) -> (forall i, In i (idn var :: ids env) -> (s_max st < i <= s_max st')%N) -> ~ In (idn var) (ids env) ->
     acheck ts ds' (mkb var Prd (Decl T) :: env ++ Ga) (arn (fun y => th (ax_subst_ident [(cid_id ve, var)] y)) se) = None) ->
  cls_ok ts ds' Ga (arn_cls th cls) (map sx xs).
Proof.
  intros th Ga T dT ve se HT Hth. induction xs as [|[xt a] r IH]; intros st cls st' H Hm Hx Hfr Hse; simpl in H.
  - inv H. constructor.
  - destruct (fresh_env _ st) as [env sta] eqn:He.
    destruct (critical_clauses _ _ _ _ r _) as [r' stc] eqn:Hr. inv H.
    pose proof (fresh_env_shape _ _ _ _ He) as (Hlen & Hm1 & _ & Hrng & Hnd). destruct (critical_clauses_mono _ _ _ _ _ _ _ _ Hr) as [Hm2 _].
    cbn [s_max] in Hm2. rewrite <- ids_vars in Hnd. unfold shrink_identifier.
    set (var := (fst ve, N.succ (s_max sta))) in *.
    assert (Hrng' : forall i, In i (ids env) -> (s_max st < i <= s_max sta)%N).
    { intros i Hi. rewrite ids_vars in Hi. apply in_map_iff in Hi as (y & <- & Hy). now apply Hrng. }
    assert (Hdis : forall i, In i (ids env) -> ~ In i (ids Ga)).
    { intros i Hi. apply Hfr. apply Hrng' in Hi. lia. }
    assert (Hfix : arn_ctx th env = env).
    { apply arn_ctx_fix. intros y Hy. apply Hth. apply Hrng in Hy. lia. }
    assert (Hvar_env : ~ In (idn var) (ids env)).
    { intros Hi. apply Hrng' in Hi. unfold idn, var in Hi. cbn [snd] in Hi. lia. }
    assert (Hvar_Ga : ~ In (idn var) (ids Ga)).
    { apply Hfr. unfold idn, var. cbn [snd]. lia. }
    cbn [arn_cls map fst snd]. constructor.
    + cbn [fst snd sx xname xargs]. split; [reflexivity|].
      split; [eapply params_ok_fresh_env; eauto|]. split; [apply fresh_all_intro; auto|].
      cbn [arn]. rewrite Hfix. eapply ck_let; [exact HT | apply (Hx (xt, a)); now left | | |].
      * cbn [sx xargs snd]. apply args_ok_env; [exact Hnd | eapply params_ok_fresh_env; eauto].
      * apply fresh_for_intro. unfold ids. rewrite map_app. intros Hin. apply in_app_or in Hin as [Hin|Hin]; contradiction.
      * rewrite ax_subst_is_arn, arn_comp. apply Hse; auto.
        intros i [<-|Hi]; [unfold idn, var; cbn [snd]; lia | apply Hrng' in Hi; lia].
    + apply (IH _ r' st' Hr); [cbn [s_max]; lia | intros x Hxin; apply Hx; now right | intros i Hi; apply Hfr; cbn [s_max] in Hi; lia |].
      intros env0 var0 Hnd0 Hr0 Hv0. apply Hse; auto. intros i Hi. apply Hr0 in Hi. cbn [s_max] in Hi. lia.
Qed.

Lemma xtors_found : forall d, In d (data ++ codata) ->
  forall x, In x (xtor_list d) -> AxCheck.find_xtor (shrink_declaration codata d) (fst x) = Some (sx x).
Proof.
  intros d Hd x Hx. unfold xtor_list in Hx. apply in_map_iff in Hx as (sg & <- & Hsg). cbn [fst].
  rewrite (find_xtor_shrink codata d (cxname sg) sg (find_cxtor_self d sg Hd Hsg)). reflexivity.
Qed.
Lemma th_fresh : forall G rho th st, inv p G rho th st -> forall y, (m0 < idn y)%N -> th y = y.
Proof. intros G rho th st Hinv y Hy. apply (inv_th _ _ _ _ _ Hinv). intros Hin. apply (inv_le _ _ _ _ _ Hinv) in Hin. unfold idn, cid_id in *. lia. Qed.

(* <x | a> *)
Lemma tl_unknown : forall k c1 x t1 ty c2 b t2, TLs (S k) (FsCut (FsXVar c1 x t1) ty (FsXVar c2 b t2)).
Proof.
  intros k c1 x t1 ty c2 b t2. tstart. cbn [rn_stmt rn_term shrink_step shrink_cut] in Hsh.
  rewrite check_stmt_cut_eq in Hck. apply seq_none in Hck as [Hty Hck]. apply seq_none in Hck as [Hcp Hck].
  cbn [check_term] in Hcp. apply seq_none in Hcp as [_ Hcp]. apply seq_none in Hcp as [_ Hcx].
  cbn [check_term] in Hck. apply seq_none in Hck as [_ Hck]. apply seq_none in Hck as [_ Hcb]. apply fensure_none in Hty.
  apply nc_cut in Hnc as [Hncx Hncb]. cbn [nc_term] in Hncx, Hncb.
  destruct ty as [|T].
  - cbn [shrink_unknown_cuts] in Hsh. inv Hsh. split; [|split; [reflexivity | exact Hlw]].
    cbn [arn invoke_ret]. unfold arn_ctx, arn_binding, shrink_identifier, cont_ty. cbn [map bvar bchi bty].
    eapply ck_invoke; [apply (find_type_cont p Hcont) | apply find_xtor_shrink; reflexivity | |].
    + apply (occ_bound p _ _ _ _ b CCns CI64 Hg Hcb Hncb). occ.
    + intros what. cbn. pose proof (occ_bound p _ _ _ _ x CPrd CI64 Hg Hcx Hncx ltac:(occ)) as Hb. cbn in Hb. rewrite Hb. reflexivity.
  - unfold shrink_unknown_cuts, xtors_of in Hsh. cbn [e_codata e_data] in Hsh. unfold ty_ok in Hty.
    destruct (find_decl codata T) as [d|] eqn:Hdc.
    + assert (Hco : is_codata codata (CDecl T) = true) by (eapply codata_is_codata; eauto).
      rewrite Hco in Hsh. unfold lookup_type_declaration in Hsh. unfold find_decl in Hdc. rewrite Hdc in Hsh. cbn [sbind] in Hsh.
      fold (xtor_list d) in Hsh. fold (find_decl codata T) in Hdc.
      destruct (unknown_clauses codata (rho x) (shrink_ty (CDecl T)) (xtor_list d) st) as [clauses st2] eqn:Euc. inv Hsh.
      destruct (unknown_clauses_mono _ _ _ _ _ _ _ Euc) as [Hm2 Hl2].
      split; [|split; [|intros d0 Hd0; apply Hlw; rewrite <- Hl2; exact Hd0]].
      * rewrite arn_switch. cbn [shrink_ty]. unfold shrink_identifier.
        eapply ck_switch; [apply (find_type_codata p Hdisj Hcont _ _ Hdc) | |].
        -- pose proof (occ_bound p _ _ _ _ b CCns (CDecl T) Hg Hcb Hncb ltac:(occ)) as Hb.
           rewrite (proj2 (sb_codata p b T Hco)) in Hb. exact Hb.
        -- cbn [shrink_declaration txtors]. rewrite <- sx_xtor_list.
           eapply (unk_cls_ok th Ga T _ (rho x) (find_type_codata p Hdisj Hcont _ _ Hdc)); eauto.
           ++ pose proof (occ_bound p _ _ _ _ x CPrd (CDecl T) Hg Hcx Hncx ltac:(occ)) as Hb.
              rewrite (proj1 (sb_codata p x T Hco)) in Hb. exact Hb.
           ++ eapply th_fresh; eauto.
           ++ apply (inv_st _ _ _ _ _ Hinv).
           ++ apply xtors_found. apply in_or_app. right. eapply find_decl_in; eauto.
           ++ intros i Hi. eapply ginv_fresh; eauto.
      * rewrite pre_linear_switch. clear -Euc. revert st clauses st' Euc. induction (xtor_list d) as [|[xt a] r IH]; intros st clauses st2 H; simpl in H.
        -- inv H. reflexivity.
        -- destruct (fresh_env _ st) as [env st1]. destruct (unknown_clauses _ _ _ r st1) as [r' st3] eqn:Hr. inv H. cbn [forallb snd pre_linear]. eapply IH; eauto.
    + destruct (find_decl data T) as [d|] eqn:Hdd; [|discriminate Hty].
      assert (Hco : is_codata codata (CDecl T) = false) by (eapply data_not_codata; eauto).
      rewrite Hco in Hsh. rewrite (lookup_decl_data p _ _ Hdd) in Hsh. cbn [sbind] in Hsh.
      fold (xtor_list d) in Hsh.
      destruct (unknown_clauses codata (rho b) (shrink_ty (CDecl T)) (xtor_list d) st) as [clauses st2] eqn:Euc. inv Hsh.
      destruct (unknown_clauses_mono _ _ _ _ _ _ _ Euc) as [Hm2 Hl2].
      split; [|split; [|intros d0 Hd0; apply Hlw; rewrite <- Hl2; exact Hd0]].
      * rewrite arn_switch. cbn [shrink_ty]. unfold shrink_identifier.
        eapply ck_switch; [apply (find_type_data p _ _ Hdd) | |].
        -- pose proof (occ_bound p _ _ _ _ x CPrd (CDecl T) Hg Hcx Hncx ltac:(occ)) as Hb.
           rewrite (proj1 (sb_data p x T Hco)) in Hb. exact Hb.
        -- cbn [shrink_declaration txtors]. rewrite <- sx_xtor_list.
           eapply (unk_cls_ok th Ga T _ (rho b) (find_type_data p _ _ Hdd)); eauto.
           ++ pose proof (occ_bound p _ _ _ _ b CCns (CDecl T) Hg Hcb Hncb ltac:(occ)) as Hb.
              rewrite (proj2 (sb_data p b T Hco)) in Hb. exact Hb.
           ++ eapply th_fresh; eauto.
           ++ apply (inv_st _ _ _ _ _ Hinv).
           ++ apply xtors_found. apply in_or_app. left. eapply find_decl_in; eauto.
           ++ intros i Hi. eapply ginv_fresh; eauto.
      * rewrite pre_linear_switch. clear -Euc. revert st clauses st' Euc. induction (xtor_list d) as [|[xt a] r IH]; intros st clauses st2 H; simpl in H.
        -- inv H. reflexivity.
        -- destruct (fresh_env _ st) as [env st1]. destruct (unknown_clauses _ _ _ r st1) as [r' st3] eqn:Hr. inv H. cbn [forallb snd pre_linear]. eapply IH; eauto.
Qed.
End TyH.
