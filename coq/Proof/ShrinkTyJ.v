(* Proof/ShrinkTyJ.v (C12, fragment 2) - the critical pair at a declared type, and the typing lemma for
   all statements: [TL_all]. *)
From Coq Require Import List ZArith NArith String Bool Lia.
From SCC Require Import Base.Sexp Lang.SynUtil Lang.CoreSyn Lang.AxSyn Sem.FsCheck Model.Shrink Model.LinCheck Model.WtDefs
     Proof.ShrinkProof Proof.ShrinkRn Proof.ShrinkSimBase Proof.ShrinkSimData Proof.ShrinkSimEta Proof.ShrinkTfv
     Proof.ShrinkSimC Proof.ShrinkSimLift Proof.ShrinkSimCrit Proof.ShrinkTyA Proof.ShrinkTyB Proof.ShrinkTyC Proof.ShrinkTyD Proof.ShrinkTyE Proof.ShrinkTyF
     Proof.ShrinkTyG Proof.ShrinkTyH Proof.ShrinkTyI.
From SCC Require Sem.AxCheck.
Import ListNotations.
Open Scope list_scope.

Lemma pre_linear_arn : forall f t, pre_linear (arn f t) = pre_linear t.
Proof.
  intros f. apply (stmt_ind' (fun t => pre_linear (arn f t) = pre_linear t)); intros; try reflexivity; try (simpl; now rewrite ?H, ?H0).
  - rewrite arn_switch, !pre_linear_switch. unfold arn_cls. rewrite forallb_map.
    induction H as [|[[x c] b] r Hb _ IH]; [reflexivity|]. simpl in *. now rewrite Hb, IH.
  - rewrite arn_create. destruct env as [ce|]; [reflexivity|]. cbn [option_map]. rewrite !pre_linear_create, H0. f_equal.
    unfold arn_cls. rewrite forallb_map. induction H as [|[[x c] b] r Hb _ IH]; [reflexivity|]. simpl in *. now rewrite Hb, IH.
Qed.
Lemma critical_clauses_pre_linear : forall cd ve tty se xs st cls st', critical_clauses cd ve tty se xs st = (cls, st') ->
  pre_linear se = true -> forallb (fun c : clause => pre_linear (snd c)) cls = true.
Proof.
  induction xs as [|[xt a] r IH]; intros st cls st' H Hse; simpl in H.
  - inv H. reflexivity.
  - destruct (fresh_env _ st) as [env sta]. destruct (critical_clauses _ _ _ _ r _) as [r' stc] eqn:Hr. inv H.
    cbn [forallb snd pre_linear]. rewrite ax_subst_is_arn, pre_linear_arn, Hse. eapply IH; eauto.
Qed.

Section TyJ.
Variable p : fsprog.
Variable ds' : list def.
Notation data := (fspdata p).
Notation codata := (fspcodata p).
Notation defs := (fspdefs p).
Notation m0 := (fspmax p).
Notation D := (data ++ [cont_int]).
Notation ts := (ts_of p).
Notation TLs := (TLs p ds').
Notation TLn := (TLn p ds').
Hypothesis Hdisj : forall n, find_decl data n <> None -> find_decl codata n = None.
Hypothesis Hcont : find_decl data cont_name = None /\ find_decl codata cont_name = None.
Hypothesis Hfields : forall d, In d (data ++ codata) -> forall sg, In sg (ctxtors d) -> forall b, In b (cxargs sg) -> ty_ok data codata (cbty b) = true.
Hypothesis Hxnd : forall d, In d (data ++ codata) -> nodup_by cident_eqb (map cxname (ctxtors d)) = true.
Hypothesis Hds_find : forall d, In d ds' -> find (fun d' => ident_eqb (dname d') (dname d)) ds' = Some d.
Hypothesis Hds_defs : forall d, In d defs -> exists t, In (mkd (fsdname d) (shrink_context codata (fsdctx d)) t) ds'.

Lemma grel_skip : forall (need : cident -> Prop) pi Ga G env, grel p need pi Ga G -> (forall i, In i (ids env) -> ~ In i (ids Ga)) ->
  grel p need pi (env ++ Ga) G.
Proof.
  intros need pi Ga G env Hg Hdis b Hb Hn. destruct (Hg b Hb Hn) as (b' & Hl & Hc & Ht). exists b'. split; [|auto].
  rewrite lookup_b_skip; [exact Hl|]. intros Hin. apply (Hdis _ Hin). eapply lookup_b_in; eauto.
Qed.

(* the expanded side: shrunk in place or lifted - typed either way *)
Lemma expand_typed : forall k, TLn k -> forall lbl (cond : bool) rho se st t_exp st1,
  (if cond then shrink_stmt k (mksenv D codata lbl) (rn_stmt rho se) st
   else lift (shrink_stmt k (mksenv D codata lbl)) (mksenv D codata lbl) (rn_stmt rho se) st) = SOk (t_exp, st1) ->
  ib_stmt m0 se = true -> (m0 <= s_max st)%N ->
  (exists R, R (rn_stmt rho se) st = SOk (t_exp, st1) /\ TLr p ds' R se) /\
  (s_max st <= s_max st1)%N /\ exists nd, s_lifted st1 = nd ++ s_lifted st.
Proof.
  intros k IH lbl cond rho se st t_exp st1 H Hib Hm. destruct cond.
  - split; [|eapply shrink_mono; eauto].
    exists (shrink_stmt k (mksenv D codata lbl)). split; [exact H|]. apply TLs_TLr. apply IH.
  - split; [|eapply (lift_mono p); eauto].
    exists (lift (shrink_stmt k (mksenv D codata lbl)) (mksenv D codata lbl)). split; [exact H|]. apply lift_typed; auto.
Qed.

(* the expanded side typed in the context of one clause of the eta expansion *)
Lemma expand_inst : forall R se G rho th st t_exp st1 Ga v cv T,
  TLr p ds' R se -> inv p G rho th st ->
  check_stmt data codata defs (mkcb v cv (CDecl T) :: G) se = None ->
  ub_stmt (cid_id v :: cids G) se = true -> ib_stmt m0 se = true -> nc_stmt (v :: cvars G) se = true ->
  decl_ok p G -> ty_ok data codata (CDecl T) = true ->
  ~ In (cid_id v) (cids G) -> (cid_id v <= m0)%N ->
  shrink_binding codata (mkcb v cv (CDecl T)) = mkb v Prd (Decl T) ->
  R (rn_stmt rho se) st = SOk (t_exp, st1) -> lifted_in' ds' st1 -> lift_wt p ds' st ->
  grel p (fun x => occurs x se) (fun x => th (rho x)) Ga G -> ginv p Ga G st st1 ->
  forall env var, NoDup (ids env) -> (forall i, In i (idn var :: ids env) -> (s_max st1 < i)%N /\ (m0 < i)%N /\ ~ In i (ids Ga)) ->
  ~ In (idn var) (ids env) ->
  acheck ts ds' (mkb var Prd (Decl T) :: env ++ Ga) (arn (fun y => th (ax_subst_ident [(cid_id v, var)] y)) t_exp) = None /\
  pre_linear t_exp = true /\ lift_wt p ds' st1.
Proof.
  intros R se G rho th st t_exp st1 Ga v cv T HR Hinv Hck Hub Hib Hnc Hdecl Hty Hv Hvm Hsb Hsh Hlin Hlw Hg Hgi env var Hnd Hfresh Hvenv.
  set (tau := fun y : ident => ax_subst_ident [(cid_id v, var)] y).
  set (th' := fun y => th (tau y)).
  assert (Hth_fresh : forall y, (m0 < cid_id y)%N -> th y = y) by (intros y Hy; eapply th_fresh; eauto).
  assert (Htau_other : forall y, cid_id y <> cid_id v -> tau y = y).
  { intros y Hy. unfold tau. cbn [ax_subst_ident]. unfold idn. destruct (N.eqb (cid_id v) (snd y)) eqn:E; [apply N.eqb_eq in E; exfalso; apply Hy; unfold cid_id in *; now rewrite E | reflexivity]. }
  assert (Htau_v : tau v = var).
  { unfold tau. cbn [ax_subst_ident]. unfold idn, cid_id. now rewrite N.eqb_refl. }
  pose proof (inv_push p _ _ _ _ v cv (CDecl T) Hinv Hv Hvm) as Hinv1.
  assert (Hinv' : inv p (mkcb v cv (CDecl T) :: G) rho th' st).
  { constructor.
    - apply (inv_nd _ _ _ _ _ Hinv1).
    - apply (inv_le _ _ _ _ _ Hinv1).
    - apply (inv_st _ _ _ _ _ Hinv1).
    - apply (inv_rho _ _ _ _ _ Hinv1).
    - intros y Hy. unfold th'. rewrite Htau_other; [apply (inv_th _ _ _ _ _ Hinv1); exact Hy|]. intros E. apply Hy. left. now rewrite E.
    - apply (inv_rng _ _ _ _ _ Hinv1).
    - intros x y Hxy. unfold th'. apply (inv_P _ _ _ _ _ Hinv). unfold tau. cbn [ax_subst_ident]. unfold idn. unfold cid_id in Hxy. rewrite Hxy.
      destruct (N.eqb (cid_id v) (snd y)); [reflexivity | exact Hxy]. }
  assert (Hdis : forall i, In i (ids env) -> ~ In i (ids Ga)) by (intros i Hi; apply Hfresh; now right).
  assert (Hvar_ni : ~ In (idn var) (ids (env ++ Ga))).
  { unfold ids. rewrite map_app. intros Hin. apply in_app_or in Hin as [Hin|Hin]; [contradiction|]. apply (Hfresh (idn var)); [now left | exact Hin]. }
  assert (Hg' : grel p (fun y => occurs y se) (fun y => th' (rho y)) (mkb var Prd (Decl T) :: env ++ Ga) (mkcb v cv (CDecl T) :: G)).
  { pose proof (grel_push p (fun y => occurs y se) (fun y => occurs y se) (fun y => th (rho y)) (fun y => th' (rho y)) (env ++ Ga) G v cv (CDecl T) var
                  (grel_skip _ _ _ _ env Hg Hdis) Hvar_ni) as H. rewrite Hsb in H. cbn [bchi bty] in H. apply H.
    - intros b Hb Hn. split; [exact Hn|]. unfold th'. rewrite Htau_other; [reflexivity|].
      intros E. destruct (inv_rng _ _ _ _ _ Hinv b Hb) as [H0|H0]; [apply Hv; now rewrite <- E | rewrite E in H0; lia].
    - unfold th'. rewrite (inv_rho _ _ _ _ _ Hinv v Hv Hvm), Htau_v. rewrite Hth_fresh; [reflexivity | apply (Hfresh (idn var)); now left]. }
  assert (Hgi' : ginv p (mkb var Prd (Decl T) :: env ++ Ga) (mkcb v cv (CDecl T) :: G) st st1).
  { intros i Hi. cbn [ids map bvar] in Hi. fold (ids (env ++ Ga)) in Hi. destruct Hi as [<-|Hi].
    - destruct (Hfresh (idn var) (or_introl eq_refl)) as (F1 & F2 & _). split; [now right | lia].
    - unfold ids in Hi. rewrite map_app in Hi. apply in_app_or in Hi as [Hi|Hi].
      + destruct (Hfresh i (or_intror Hi)) as (F1 & F2 & _). split; [now right | lia].
      + destruct (Hgi i Hi) as [[A|A] Bn]; (split; [|exact Bn]); [left; now right | now right]. }
  exact (HR _ rho th' st t_exp st1 _ Hinv' Hck Hub Hib Hnc (decl_push p _ v cv (CDecl T) Hdecl Hty) Hsh Hg' Hgi' Hlin Hlw).
Qed.

Definition lmax (l : list N) : N := fold_right N.max 0%N l.
Lemma lmax_le : forall l i, In i l -> (i <= lmax l)%N.
Proof. induction l as [|x r IH]; intros i Hi; [contradiction|]. destruct Hi as [<-|Hi]; simpl; [lia | apply IH in Hi; lia]. Qed.

(* the shared part of both critical pairs at a declared type *)
Lemma crit_typed : forall k, TLn k -> forall lbl G rho th st Ga T dT d v cv se vk ck sk (cond : bool) t_exp st1 clauses st2 next st',
  inv p G rho th st -> decl_ok p G -> ty_ok data codata (CDecl T) = true ->
  AxCheck.find_type ts T = Some dT -> dT = shrink_declaration codata d -> In d (data ++ codata) ->
  (* expanded side *)
  check_stmt data codata defs (mkcb v cv (CDecl T) :: G) se = None ->
  ub_stmt (cid_id v :: cids G) se = true -> ib_stmt m0 se = true -> nc_stmt (v :: cvars G) se = true ->
  ~ In (cid_id v) (cids G) -> (cid_id v <= m0)%N ->
  shrink_binding codata (mkcb v cv (CDecl T)) = mkb v Prd (Decl T) ->
  (* kept side *)
  check_stmt data codata defs (mkcb vk ck (CDecl T) :: G) sk = None ->
  ub_stmt (cid_id vk :: cids G) sk = true -> ib_stmt m0 sk = true -> nc_stmt (vk :: cvars G) sk = true ->
  ~ In (cid_id vk) (cids G) -> (cid_id vk <= m0)%N ->
  shrink_binding codata (mkcb vk ck (CDecl T)) = mkb vk Cns (Decl T) ->
  (if cond then shrink_stmt k (mksenv D codata lbl) (rn_stmt rho se) st
   else lift (shrink_stmt k (mksenv D codata lbl)) (mksenv D codata lbl) (rn_stmt rho se) st) = SOk (t_exp, st1) ->
  critical_clauses codata v (Decl T) t_exp (xtor_list d) st1 = (clauses, st2) ->
  shrink_stmt k (mksenv D codata lbl) (rn_stmt rho sk) st2 = SOk (next, st') ->
  grel p (fun y => occurs y se \/ occurs y sk) (fun y => th (rho y)) Ga G -> ginv p Ga G st st' ->
  lifted_in' ds' st' -> lift_wt p ds' st ->
  acheck ts ds' Ga (arn th (Create vk (Decl T) None clauses next)) = None /\
  pre_linear (Create vk (Decl T) None clauses next) = true /\ lift_wt p ds' st'.
Proof.
  intros k IH lbl G rho th st Ga T dT d v cv se vk ck sk cond t_exp st1 clauses st2 next st'
         Hinv Hdecl Hty HdT EdT Hdin Hcse Hubse Hibse Hncse Hv Hvm Hsbv Hcsk Hubsk Hibsk Hncsk Hvk Hvkm Hsbk E1 E2 E3 Hg Hgi Hlin Hlw.
  pose proof (inv_st _ _ _ _ _ Hinv) as Hst.
  destruct (expand_typed k IH lbl cond rho se st t_exp st1 E1 Hibse Hst) as ((R & HR & HTL) & Hm1 & nd1 & Hl1).
  destruct (critical_clauses_mono _ _ _ _ _ _ _ _ E2) as [Hm2 Hl2].
  assert (Hinv2 : inv p G rho th st2) by (eapply inv_st_mono; [exact Hinv | lia]).
  destruct (shrink_mono p _ _ _ _ _ _ _ Hibsk (inv_st _ _ _ _ _ Hinv2) E3) as [Hm3 (nd3 & Hl3)].
  assert (Hlin2 : lifted_in' ds' st2) by (eapply lifted_in'_mono; eauto).
  assert (Hlin1 : lifted_in' ds' st1) by (intros d0 Hd0; apply Hlin2; rewrite Hl2; exact Hd0).
  assert (Hg1 : grel p (fun y => occurs y se) (fun y => th (rho y)) Ga G) by (eapply grel_weaken; [exact Hg | intros y Hy; now left]).
  assert (Hgi1 : ginv p Ga G st st1) by (eapply ginv_sub; [exact Hgi | lia | lia]).
  pose proof (expand_inst R se G rho th st t_exp st1 Ga v cv T HTL Hinv Hcse Hubse Hibse Hncse Hdecl Hty Hv Hvm Hsbv HR Hlin1 Hlw Hg1 Hgi1) as Hinst.
  destruct (Hinst [] ("v"%string, N.succ (N.max (s_max st') (lmax (ids Ga)))) ltac:(constructor)) as (_ & Tpre & Tlw).
  { intros i [<-|[]]. cbn [idn snd]. split; [lia|]. split; [lia|]. intros Hin. apply lmax_le in Hin. lia. }
  { intros []. }
  assert (Hgi3 : ginv p Ga G st2 st') by (eapply ginv_sub; [exact Hgi | lia | lia]).
  assert (Hlw2 : lift_wt p ds' st2) by (intros d0 Hd0; apply Tlw; rewrite <- Hl2; exact Hd0).
  destruct (push_old p _ (fun y => occurs y sk) _ _ _ _ _ _ vk ck (CDecl T) Hinv2 Hg Hgi3 Hvk Hvkm ltac:(intros y Hy; now right)) as (Hfk & Hgk & Hgik).
  destruct (IH sk lbl _ rho th st2 next st' _ (inv_push p _ _ _ _ vk ck (CDecl T) Hinv2 Hvk Hvkm) Hcsk Hubsk Hibsk Hncsk (decl_push p _ vk ck (CDecl T) Hdecl Hty) E3 Hgk Hgik Hlin Hlw2) as (U1 & U2 & U3).
  split; [|split; [rewrite pre_linear_create, U2, (critical_clauses_pre_linear _ _ _ _ _ _ _ _ E2 Tpre); reflexivity | exact U3]].
  rewrite arn_create. cbn [option_map].
  eapply ck_create; [exact HdT | | exact Hfk | rewrite Hsbk in U1; exact U1].
  subst dT. cbn [shrink_declaration txtors]. rewrite <- sx_xtor_list.
  eapply (crit_cls_ok p ds' th Ga T _ v t_exp HdT); eauto.
  - eapply th_fresh; eauto.
  - lia.
  - apply xtors_found; auto.
  - intros i Hi. eapply ginv_fresh; [exact Hgi | lia].
  - intros env var Hnd Hr Hve. apply (Hinst env var Hnd); [|exact Hve].
    intros i Hi. apply Hr in Hi. split; [lia|]. split; [lia|]. eapply ginv_fresh; [exact Hgi | lia].
Qed.

(* <mu a.sp | mu~ x.sc> at a declared type *)
Lemma tl_crit_decl : forall k, TLn k -> forall c1 a sp t1 T c2 x sc t2, TLs (S k) (FsCut (FsMu c1 a sp t1) (CDecl T) (FsMu c2 x sc t2)).
Proof.
  intros k IH c1 a sp t1 T c2 x sc t2. tstart.
  cbn [rn_stmt rn_term shrink_step shrink_cut shrink_critical_pairs] in Hsh. unfold xtors_of in Hsh. cbn [e_codata e_data] in Hsh.
  rewrite check_stmt_cut_eq in Hck. apply seq_none in Hck as [Hty Hck]. apply seq_none in Hck as [Hcp Hck]. apply fensure_none in Hty.
  rewrite check_term_mu_eq in Hcp. apply seq_none in Hcp as [_ Hcp]. apply seq_none in Hcp as [_ Hcsp]. cbn [opp] in Hcsp.
  rewrite check_term_mu_eq in Hck. apply seq_none in Hck as [_ Hck]. apply seq_none in Hck as [_ Hcsc]. cbn [opp] in Hcsc.
  rewrite ib_stmt_cut, !ib_term_mu in Hib. apply andb_prop in Hib as [Hib1 Hib2].
  apply andb_prop in Hib1 as [Hia Hibp]. apply andb_prop in Hib2 as [Hix Hibc]. apply id_le_le' in Hia. apply id_le_le' in Hix.
  cbn [ub_stmt ub_term] in Hub. apply andb_prop in Hub as [Hub1 Hub2].
  apply andb_prop in Hub1 as [Hua Hubp]. apply andb_prop in Hub2 as [Hux Hubc].
  apply negb_mem_notin' in Hua. apply negb_mem_notin' in Hux.
  pose proof (nc_cut_mu_l _ _ _ _ _ _ _ Hnc) as Hncp. pose proof (nc_cut_mu_r _ _ _ _ _ _ _ Hnc) as Hncc.
  pose proof Hty as Hty'. unfold ty_ok in Hty.
  destruct (find_decl codata T) as [d|] eqn:Hdc.
  - assert (Hco : is_codata codata (CDecl T) = true) by (eapply codata_is_codata; eauto).
    rewrite Hco in Hsh. unfold lookup_type_declaration in Hsh. unfold find_decl in Hdc. rewrite Hdc in Hsh. cbn [sbind] in Hsh.
    fold (xtor_list d) in Hsh. fold (find_decl codata T) in Hdc. unfold shrink_identifier in Hsh. cbv beta iota zeta in Hsh.
    match type of Hsh with context [if ?c then _ else _] => set (cond := c) in Hsh end.
    destruct (if cond then _ else _) as [[t_exp st1]|] eqn:E1; [|discriminate Hsh]. cbn [sbind] in Hsh.
    destruct (critical_clauses codata a (shrink_ty (CDecl T)) t_exp (xtor_list d) st1) as [clauses st2] eqn:E2.
    destruct (shrink_stmt k _ (rn_stmt rho sc) st2) as [[next st3]|] eqn:E3; [|discriminate Hsh]. cbn [sbind] in Hsh. inv Hsh.
    eapply (crit_typed k IH lbl G rho th st Ga T _ d a CCns sp x CPrd sc cond t_exp st1 clauses st2 next st');
      try eassumption; try reflexivity;
      try (apply (find_type_codata p Hdisj Hcont _ _ Hdc)); try (apply in_or_app; right; eapply find_decl_in; eassumption);
      try (apply (proj2 (sb_codata p a T Hco))); try (apply (proj1 (sb_codata p x T Hco))).
  - destruct (find_decl data T) as [d|] eqn:Hdd; [|discriminate Hty].
    assert (Hco : is_codata codata (CDecl T) = false) by (eapply data_not_codata; eauto).
    rewrite Hco in Hsh. rewrite (lookup_decl_data p _ _ Hdd) in Hsh. cbn [sbind] in Hsh.
    fold (xtor_list d) in Hsh. unfold shrink_identifier in Hsh. cbv beta iota zeta in Hsh.
    match type of Hsh with context [if ?c then _ else _] => set (cond := c) in Hsh end.
    destruct (if cond then _ else _) as [[t_exp st1]|] eqn:E1; [|discriminate Hsh]. cbn [sbind] in Hsh.
    destruct (critical_clauses codata x (shrink_ty (CDecl T)) t_exp (xtor_list d) st1) as [clauses st2] eqn:E2.
    destruct (shrink_stmt k _ (rn_stmt rho sp) st2) as [[next st3]|] eqn:E3; [|discriminate Hsh]. cbn [sbind] in Hsh. inv Hsh.
    eapply (crit_typed k IH lbl G rho th st Ga T _ d x CPrd sc a CCns sp cond t_exp st1 clauses st2 next st');
      try eassumption; try reflexivity;
      try (apply (find_type_data p _ _ Hdd)); try (apply in_or_app; left; eapply find_decl_in; eassumption);
      try (apply (proj1 (sb_data p x T Hco))); try (apply (proj2 (sb_data p a T Hco))).
    eapply grel_weaken; [exact Hg|]. intros y [Hy|Hy]; occ.
Qed.

Theorem TL_all : forall k, TLn k.
Proof.
  induction k as [|k IH]; intros s.
  - unfold TLs. intros lbl G rho th st t st' Ga _ _ _ _ _ _ Hsh. discriminate Hsh.
  - destruct s as [pr ty kk|so a b t e|nl a nx|f args|v].
    + destruct pr as [c1 v1 t1|z|a o b|c1 v1 s1 t1|c1 x1 args1 t1|c1 cls1 t1];
      destruct kk as [c2 v2 t2|z2|a2 o2 b2|c2 v2 s2 t2|c2 x2 args2 t2|c2 cls2 t2];
      try (unfold TLs; intros lbl G rho th st t st' Ga Hinv Hck Hub Hib Hnc Hdecl Hsh;
           rewrite shrink_stmt_S in Hsh; cbn [rn_stmt rn_term shrink_step shrink_cut] in Hsh; discriminate Hsh).
      * apply tl_unknown; auto.
      * apply tl_ren_mut; auto.
      * apply tl_invoke_dtor; auto.
      * apply tl_switch_case; auto.
      * apply tl_lit_var; auto.
      * apply tl_lit_mu; auto.
      * apply tl_op_var; auto.
      * apply tl_op_mu; auto.
      * apply tl_ren_mu; auto.
      * destruct ty; [apply tl_crit_i64; auto | apply tl_crit_decl; auto].
      * apply tl_let_dtor; auto.
      * apply tl_create_case; auto.
      * apply tl_invoke_ctor; auto.
      * apply tl_let_ctor; auto.
      * apply tl_known_ctor; auto.
      * apply tl_switch_cocase; auto.
      * apply tl_create_cocase; auto.
      * apply tl_known_dtor; auto.
    + apply tl_ifc; auto.
    + apply tl_print; auto.
    + apply tl_call; auto.
    + apply tl_exit; auto.
Qed.
End TyJ.
