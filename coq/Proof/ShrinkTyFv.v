(* Proof/ShrinkTyFv.v (C12, fragment 2) - a statement accepted by the AxCut checker in a context only
   mentions variables of that context: its free variables (AxCheck.fv_stmt) are ids of the context.
   Hence the `lift-wrong-free-vars` check of check_def never fails on a well-typed definition. *)
From Coq Require Import List ZArith NArith String Bool Lia.
From SCC Require Import Base.Sexp Lang.SynUtil Lang.CoreSyn Lang.AxSyn Proof.ShrinkProof Proof.ShrinkTyA Proof.ShrinkTyB Proof.ShrinkTyC.
From SCC Require Sem.AxCheck.
Import ListNotations.
Open Scope list_scope.

Lemma mem_n_in : forall x l, AxCheck.mem_n x l = true <-> In x l.
Proof.
  intros. unfold AxCheck.mem_n. rewrite existsb_exists. split.
  - intros (y & Hy & He). apply N.eqb_eq in He. now subst.
  - intros H. exists x. split; [exact H | apply N.eqb_refl].
Qed.
Lemma add_n_in : forall x l y, In y (AxCheck.add_n x l) -> y = x \/ In y l.
Proof.
  intros x l y H. unfold AxCheck.add_n in H. destruct (AxCheck.mem_n x l); [now right|].
  apply in_app_or in H as [H|[<-|[]]]; auto.
Qed.
Lemma fold_add_in : forall xs acc y, In y (fold_left (fun acc x => AxCheck.add_n x acc) xs acc) -> In y xs \/ In y acc.
Proof.
  induction xs as [|x r IH]; intros acc y H; simpl in H; [now right|].
  apply IH in H as [H|H]; [left; now right|]. apply add_n_in in H as [->|H]; [left; now left | now right].
Qed.
Lemma union_n_in : forall a b y, In y (AxCheck.union_n a b) -> In y a \/ In y b.
Proof. intros a b y H. unfold AxCheck.union_n in H. apply fold_add_in in H. tauto. Qed.
Lemma minus_n_in : forall a b y, In y (AxCheck.minus_n a b) -> In y a /\ ~ In y b.
Proof.
  intros a b y H. unfold AxCheck.minus_n in H. apply filter_In in H as [H1 H2]. split; [exact H1|].
  apply negb_true_iff in H2. intros Hin. apply mem_n_in in Hin. congruence.
Qed.
Lemma minus_n_nil : forall a b, (forall y, In y a -> In y b) -> AxCheck.minus_n a b = [].
Proof.
  intros a b H. unfold AxCheck.minus_n. induction a as [|x r IH]; [reflexivity|]. simpl.
  assert (AxCheck.mem_n x b = true) by (apply mem_n_in; apply H; now left). rewrite H0. simpl. apply IH. intros y Hy. apply H. now right.
Qed.

Lemma bound_in : forall G x c t, AxCheck.bound G x c t = None -> In (idn x) (ids G).
Proof.
  intros G x c t H. unfold AxCheck.bound in H. destruct (AxCheck.lookup_b G (idn x)) eqn:E; [|discriminate]. eapply lookup_b_in; eauto.
Qed.
Lemma args_ok_in : forall what G args sg, AxCheck.args_ok what G args sg = None -> forall i, In i (ids args) -> In i (ids G).
Proof.
  intros what G. induction args as [|a r IH]; intros [|s sr] H i Hi; simpl in *; try discriminate; [contradiction|].
  apply ax_seq_none in H as [_ H]. apply ax_seq_none in H as [H1 H2]. destruct Hi as [<-|Hi]; [eapply bound_in; eauto | eapply IH; eauto].
Qed.

Section Fv.
Variable ts : list tydecl.
Variable ds : list def.

Lemma fv_scoped : forall t G, acheck ts ds G t = None -> forall i, In i (AxCheck.fv_stmt t) -> In i (ids G).
Proof.
  apply (stmt_ind' (fun t => forall G, acheck ts ds G t = None -> forall i, In i (AxCheck.fv_stmt t) -> In i (ids G))).
  - (* Substitute *) intros re n IH G H i Hi. simpl in H, Hi. apply ax_seq_none in H as [H _].
    apply in_map_iff in Hi as ([nb old] & <- & Hin). cbn [snd].
    induction re as [|[nb0 old0] r IHr]; [contradiction|]. apply ax_seq_none in H as [H1 H2].
    destruct Hin as [E|Hin]; [inv E; eapply bound_in; eauto | now apply IHr].
  - (* Call *) intros l a G H i Hi. simpl in H, Hi. destruct (find _ ds) as [d|]; [|discriminate].
    apply fold_add_in in Hi as [Hi|[]]. eapply args_ok_in; eauto.
  - (* Let *) intros v t tag a n IH G H i Hi. simpl in H, Hi.
    destruct (AxCheck.type_of ts _ t) as [[e|] [d|]]; try discriminate. destruct (AxCheck.find_xtor d tag); [|discriminate].
    apply ax_seq_none in H as [H1 H]. apply ax_seq_none in H as [_ H2].
    apply union_n_in in Hi as [Hi|Hi].
    + apply fold_add_in in Hi as [Hi|[]]. eapply args_ok_in; eauto.
    + apply minus_n_in in Hi as [Hi Hn]. apply (IH _ H2) in Hi. cbn [ids map bvar] in Hi. destruct Hi as [<-|Hi]; [exfalso; apply Hn; now left | exact Hi].
  - (* Switch *) intros v t cls IH G H i Hi. simpl in H, Hi.
    destruct (AxCheck.type_of ts _ t) as [[e|] [d|]]; try discriminate.
    apply ax_seq_none in H as [H1 H]. destruct (_ && _); [discriminate|].
    apply union_n_in in Hi as [[<-|[]]|Hi]; [eapply bound_in; eauto|].
    revert H Hi. generalize (txtors d). induction IH as [|[[x c] b] r Hb _ IHr]; intros xs H Hi; [contradiction|].
    destruct xs as [|sg xr]; [discriminate|].
    apply ax_seq_none in H as [_ H]. apply ax_seq_none in H as [_ H]. apply ax_seq_none in H as [_ H]. apply ax_seq_none in H as [H2 H3].
    simpl in Hi. apply union_n_in in Hi as [Hi|Hi]; [|eapply IHr; eauto].
    apply minus_n_in in Hi as [Hi Hn]. simpl in Hb. apply (Hb _ H2) in Hi. unfold ids in Hi. rewrite map_app in Hi.
    apply in_app_or in Hi as [Hi|Hi]; [contradiction | exact Hi].
  - (* Create *) intros v t env cls n IH IHn G H i Hi. simpl in H, Hi.
    destruct (AxCheck.type_of ts _ t) as [[e|] [d|]]; try discriminate.
    apply ax_seq_none in H as [H1 H]. apply ax_seq_none in H as [_ H2].
    apply union_n_in in Hi as [Hi|Hi].
    + destruct env as [ce|].
      * apply ax_seq_none in H1 as [H0 H1]. destruct (_ && _); [discriminate|].
        assert (Hce : forall j, In j (ids ce) -> In j (ids G)).
        { clear -H0. induction ce as [|b r IHc]; intros j Hj; [contradiction|]. apply ax_seq_none in H0 as [A Bc].
          destruct Hj as [<-|Hj]; [eapply bound_in; eauto | now apply IHc]. }
        apply Hce. revert H1 Hi. generalize (txtors d). induction IH as [|[[x c] b] r Hb _ IHr]; intros xs H1 Hi; [contradiction|].
        destruct xs as [|sg xr]; [discriminate|].
        apply ax_seq_none in H1 as [_ H1]. apply ax_seq_none in H1 as [_ H1]. apply ax_seq_none in H1 as [_ H1]. apply ax_seq_none in H1 as [H3 H4].
        simpl in Hi. apply union_n_in in Hi as [Hi|Hi]; [|eapply IHr; eauto].
        apply minus_n_in in Hi as [Hi Hn]. simpl in Hb. apply (Hb _ H3) in Hi. unfold ids in Hi. rewrite map_app in Hi.
        apply in_app_or in Hi as [Hi|Hi]; [contradiction | exact Hi].
      * destruct (_ && _); [discriminate|].
        revert H1 Hi. generalize (txtors d). induction IH as [|[[x c] b] r Hb _ IHr]; intros xs H1 Hi; [contradiction|].
        destruct xs as [|sg xr]; [discriminate|].
        apply ax_seq_none in H1 as [_ H1]. apply ax_seq_none in H1 as [_ H1]. apply ax_seq_none in H1 as [_ H1]. apply ax_seq_none in H1 as [H3 H4].
        simpl in Hi. apply union_n_in in Hi as [Hi|Hi]; [|eapply IHr; eauto].
        apply minus_n_in in Hi as [Hi Hn]. simpl in Hb. apply (Hb _ H3) in Hi. unfold ids in Hi. rewrite map_app in Hi.
        apply in_app_or in Hi as [Hi|Hi]; [contradiction | exact Hi].
    + apply minus_n_in in Hi as [Hi Hn]. apply (IHn _ H2) in Hi. cbn [ids map bvar] in Hi. destruct Hi as [<-|Hi]; [exfalso; apply Hn; now left | exact Hi].
  - (* Invoke *) intros v tag t a G H i Hi. simpl in H, Hi.
    destruct (AxCheck.type_of ts _ t) as [[e|] [d|]]; try discriminate. destruct (AxCheck.find_xtor d tag); [|discriminate].
    apply ax_seq_none in H as [H1 H2]. apply fold_add_in in Hi as [Hi|[<-|[]]]; [eapply args_ok_in; eauto | eapply bound_in; eauto].
  - (* Literal *) intros z v n IH G H i Hi. simpl in H, Hi. apply ax_seq_none in H as [_ H].
    apply minus_n_in in Hi as [Hi Hn]. apply (IH _ H) in Hi. cbn [ids map bvar] in Hi. destruct Hi as [<-|Hi]; [exfalso; apply Hn; now left | exact Hi].
  - (* Op *) intros a o b v n IH G H i Hi. simpl in H, Hi. apply ax_seq_none in H as [Ha H]. apply ax_seq_none in H as [Hb H]. apply ax_seq_none in H as [_ H].
    apply union_n_in in Hi as [Hi|Hi].
    + apply add_n_in in Hi as [->|[<-|[]]]; eapply bound_in; eauto.
    + apply minus_n_in in Hi as [Hi Hn]. apply (IH _ H) in Hi. cbn [ids map bvar] in Hi. destruct Hi as [<-|Hi]; [exfalso; apply Hn; now left | exact Hi].
  - (* Print *) intros nl v n IH G H i Hi. simpl in H, Hi. apply ax_seq_none in H as [Hv H].
    apply union_n_in in Hi as [[<-|[]]|Hi]; [eapply bound_in; eauto | eapply IH; eauto].
  - (* IfC *) intros so a b t e IHt IHe G H i Hi. simpl in H, Hi. apply ax_seq_none in H as [Ha H]. apply ax_seq_none in H as [Hb H]. apply ax_seq_none in H as [Ht He].
    apply union_n_in in Hi as [Hi|Hi].
    + destruct b as [b|].
      * apply add_n_in in Hi as [->|[<-|[]]]; eapply bound_in; eauto.
      * destruct Hi as [<-|[]]. eapply bound_in; eauto.
    + apply union_n_in in Hi as [Hi|Hi]; [eapply IHt | eapply IHe]; eauto.
  - (* Exit *) intros v G H i Hi. simpl in H, Hi. destruct Hi as [<-|[]]. eapply bound_in; eauto.
Qed.
End Fv.
