(* C03, semantic preservation, part 3: target runs, kind clashes, and the simulation of the value
   interactions (khead, select, interact_val, interact_mu, cut_with_k).

   KIND CLASH.  The machine of Sem/CoreSem.v is untyped but two of its decisions are type directed
   (is_codata of the annotation of a mu-abstraction / of a cut).  Focusing turns the by-value
   return continuation [KRet m] into a mu~-closure and the machine gives a mu~-closure priority
   over forcing a by-name thunk; so a by-name producer (PThunk / PDelay / a mu at a codata cut)
   that meets a [KRet] is treated differently before and after focusing.  In a well-typed program
   this never happens (KRet comes from a mu of a NON-codata type, the by-name producers have codata
   types).  [clash_config] recognises exactly these source configurations; the simulation assumes
   the run meets none. *)
From Coq Require Import List ZArith NArith String Bool Lia.
From SCC Require Import Base.Sexp Lang.CoreSyn Sem.AxSem Sem.CoreSem Model.Backend Model.Uniquify Model.Focus
     Model.FocusCheck Proof.FocusKont Proof.FocusRel Proof.FocusMono.
From SCC Require Import Model.FocusGuard.
Import ListNotations.
Open Scope list_scope.
Open Scope N_scope.

Lemma fs2c_xcase : forall c cls ty, fs2c_term (FsXCase c cls ty) = CXCase c (map fs2c_clause cls) ty.
Proof. intros. reflexivity. Qed.

Lemma cident_eqb_refl' : forall x : cident, cident_eqb x x = true.
Proof. intros [a i]. unfold cident_eqb; simpl. rewrite String.eqb_refl, N.eqb_refl. reflexivity. Qed.

Section Sim.
Variables (ps qt : cprog) (M0 : N).
Hypothesis Hcod : forall ty, is_codata qt ty = is_codata ps ty.

Notation V := (V ps M0).
Notation Vs := (Vs ps M0).
Notation env_rel := (env_rel ps M0).
Notation mk_rel := (mk_rel ps M0).
Notation kv_rel := (kv_rel ps M0).
Notation crel := (crel ps M0).

Lemma mk_rel_kmono_gen :
  (forall c m k e', mk_rel c m k e' -> kmono k) /\ (forall c d f kv e', kv_rel c d f kv e' -> kvmono kv).
Proof.
  split.
  - apply (mk_rel_mind ps M0 (fun _ _ k _ => kmono k) (fun _ _ _ kv _ => kvmono kv)); intros;
      auto using kmono_opR, kmono_opL, kmono_cutopR, kmono_cutopL, kmono_if2, kmono_if1, kmono_print, kmono_exit,
        kvmono_cons, kmono_many, kvmono_xtorP, kvmono_xtorK, kvmono_cutP, kvmono_cutK, kvmono_call.
  - apply (kv_rel_mind ps M0 (fun _ _ k _ => kmono k) (fun _ _ _ kv _ => kvmono kv)); intros;
      auto using kmono_opR, kmono_opL, kmono_cutopR, kmono_cutopL, kmono_if2, kmono_if1, kmono_print, kmono_exit,
        kvmono_cons, kmono_many, kvmono_xtorP, kvmono_xtorK, kvmono_cutP, kvmono_cutK, kvmono_call.
Qed.
Lemma mk_rel_kmono : forall c m k e', mk_rel c m k e' -> kmono k.
Proof. exact (proj1 mk_rel_kmono_gen). Qed.
Lemma kv_rel_kvmono : forall c d f kv e', kv_rel c d f kv e' -> kvmono kv.
Proof. exact (proj2 mk_rel_kmono_gen). Qed.

(* ---------- runs of the target machine ---------- *)
Definition tsteps (c' : config) (pre : prints) (c2' : config) : Prop :=
  exists n, forall fuel out, crun (n + fuel) qt c' out = crun fuel qt c2' (pre ++ out).
Definition thalt (c' : config) (o : outcome) : Prop :=
  exists n, forall fuel out, crun (S n + fuel) qt c' out = finish out o.

Lemma tsteps_refl : forall c, tsteps c [] c.
Proof. intros c. exists 0%nat. intros; reflexivity. Qed.
Lemma tsteps_next : forall c c1 pre c2, cstep qt c = SNext c1 -> tsteps c1 pre c2 -> tsteps c pre c2.
Proof.
  intros c c1 pre c2 H (n & Hn). exists (S n). intros fuel out.
  change (S n + fuel)%nat with (S (n + fuel)). simpl. rewrite H. apply Hn.
Qed.
Lemma tsteps_print : forall c nl z c1, cstep qt c = SPrint nl z c1 -> tsteps c [(nl, z)] c1.
Proof. intros c nl z c1 H. exists 1%nat. intros fuel out. simpl. rewrite H. reflexivity. Qed.
Lemma tsteps_trans : forall a p1 b p2 c, tsteps a p1 b -> tsteps b p2 c -> tsteps a (p2 ++ p1) c.
Proof.
  intros a p1 b p2 c (n1 & H1) (n2 & H2). exists (n1 + n2)%nat. intros fuel out.
  rewrite <- Nat.add_assoc, H1, H2, app_assoc. reflexivity.
Qed.
Lemma tsteps_trans0 : forall a b p2 c, tsteps a [] b -> tsteps b p2 c -> tsteps a p2 c.
Proof. intros a b p2 c H1 H2. pose proof (tsteps_trans _ _ _ _ _ H1 H2) as H. rewrite app_nil_r in H. exact H. Qed.
Lemma thalt_now : forall c o, cstep qt c = SHalt o -> thalt c o.
Proof. intros c o H. exists 0%nat. intros fuel out. simpl. rewrite H. reflexivity. Qed.
Lemma thalt_steps : forall a b o, tsteps a [] b -> thalt b o -> thalt a o.
Proof.
  intros a b o (n1 & H1) (n2 & H2). exists (n1 + n2)%nat. intros fuel out.
  replace (S (n1 + n2) + fuel)%nat with (n1 + (S n2 + fuel))%nat by lia. rewrite H1. simpl app. apply H2.
Qed.

(* what a source transition result requires of the target configuration *)
Definition sres_sim (r : sres) (c' : config) : Prop :=
  match r with
  | SNext c2 => exists c2', tsteps c' [] c2' /\ crel c2 c2'
  | SPrint nl z c2 => exists c2', tsteps c' [(nl, z)] c2' /\ crel c2 c2'
  | SHalt (OStuck _) => True
  | SHalt o => thalt c' o
  end.
(* ... and of a target transition result *)
Definition sres_rel (r r' : sres) : Prop :=
  match r with
  | SNext c2 => exists c2', r' = SNext c2' /\ crel c2 c2'
  | SPrint nl z c2 => exists c2', r' = SPrint nl z c2' /\ crel c2 c2'
  | SHalt (OStuck _) => True
  | SHalt o => r' = SHalt o
  end.
Lemma sres_rel_sim : forall r r' c' c1', sres_rel r r' -> tsteps c' [] c1' -> cstep qt c1' = r' -> sres_sim r c'.
Proof.
  intros r r' c' c1' R T S. destruct r as [c2|nl z c2|o]; simpl in *.
  - destruct R as (c2' & -> & CR). exists c2'. split; [|exact CR].
    eapply tsteps_trans0; [exact T|]. eapply tsteps_next; [exact S|apply tsteps_refl].
  - destruct R as (c2' & -> & CR). exists c2'. split; [|exact CR].
    eapply tsteps_trans0; [exact T|]. apply tsteps_print; exact S.
  - destruct o; auto; subst r'; (eapply thalt_steps; [exact T|]; apply thalt_now; exact S).
Qed.
Lemma sres_sim_steps : forall r a b, tsteps a [] b -> sres_sim r b -> sres_sim r a.
Proof.
  intros r a b T S. destruct r as [c2|nl z c2|o]; simpl in *.
  - destruct S as (c2' & T2 & CR). exists c2'. split; [eapply tsteps_trans0; eauto | exact CR].
  - destruct S as (c2' & T2 & CR). exists c2'. split; [eapply tsteps_trans0; eauto | exact CR].
  - destruct o; auto; eapply thalt_steps; eauto.
Qed.

(* ---------- consumer heads ---------- *)
Lemma V_BK_inv : forall kv v', V (BK kv) v' -> exists kv', v' = BK kv'.
Proof. intros kv v' H. apply V_kind in H. destruct v' as [p|k]; [discriminate | eauto]. Qed.
Lemma V_BP_inv : forall pv v', V (BP pv) v' -> exists pv', v' = BP pv'.
Proof. intros pv v' H. apply V_kind in H. destruct v' as [p|k]; [eauto | discriminate]. Qed.

Lemma khead_sim : forall q e q' e' mc m2 kv,
  focus_term CCns q mc = Ok (q', m2) -> M0 <= mc -> ids_le_term M0 q = true -> env_rel e e' ->
  khead q e = inl kv -> exists kv', khead (fs2c_term q') e' = inl kv' /\ V (BK kv) (BK kv').
Proof.
  intros q e q' e' mc m2 kv F L HI E H.
  destruct q as [c v t|n|a o b|c v s t|c x args t|c cls t]; simpl in H; try discriminate.
  - rewrite focus_term_xvar in F. okinv F. simpl in HI. apply N.leb_le in HI.
    destruct (clookup e v) as [[pv|kv0]|] eqn:L1; try discriminate. okinv H.
    destruct (env_lookup_some _ _ _ _ _ _ E HI L1) as (v' & L2 & HV).
    destruct (V_BK_inv _ _ HV) as (kv' & ->). exists kv'. simpl. rewrite L2. split; [reflexivity | exact HV].
  - rewrite focus_term_mu in F. rinv F. okinv F. okinv H. simpl in HI. apply andb_true_iff in HI. destruct HI as [_ HI].
    eexists. simpl. split; [reflexivity|]. eapply V_mut; eauto.
  - rewrite focus_term_xcase in F. rinv F. okinv F. okinv H. simpl in HI.
    eexists. rewrite fs2c_xcase. simpl. split; [reflexivity|]. eapply V_case; eauto.
Qed.

(* ---------- clause selection ---------- *)
Lemma select_sim : forall cls cls' mc m2 ce ce' tag args args',
  maprs focus_clause cls mc = Ok (cls', m2) -> M0 <= mc -> forallb (ids_le_clause M0) cls = true ->
  env_rel ce ce' -> Vs args args' ->
  sres_rel (select cls ce tag args) (select (map fs2c_clause cls') ce' tag args').
Proof.
  induction cls as [|cl cls IH]; intros cls' mc m2 ce ce' tag args args' F L HI E HV.
  - simpl in F. okinv F. exact I.
  - simpl in F. rinv F. rinv F. okinv F. simpl in HI. apply andb_true_iff in HI. destruct HI as [I1 I2].
    destruct cl as [c x ctx body]. rewrite focus_clause_eq in E0. rinv E0. okinv E0.
    unfold select, cfind_clause. simpl.
    destruct (cident_eqb x tag) eqn:Q.
    + simpl. destruct (cbind (cvars ctx) args ce) as [e1|] eqn:B; [|exact I].
      destruct (cbind_rel _ _ _ _ _ _ _ _ HV E B) as (e1' & B' & R1). rewrite B'.
      eexists. split; [reflexivity|]. simpl in I1. apply andb_true_iff in I1. destruct I1 as [_ I1].
      eapply CR_run; eauto.
    + apply (IH _ _ _ ce ce' tag args args' E1); auto.
      apply focus_stmt_mono in E2. lia.
Qed.

(* resuming a continuation that focusing turned into code *)
Lemma crel_resume : forall m k b c mc sk m2 e' v v',
  k b mc = Ok (sk, m2) -> c < cid_id (cbvar b) <= mc -> M0 <= c -> mk_rel c m k e' ->
  V v v' -> bkind v = cbchi b ->
  crel (App m v) (Run (fs2c_stmt sk) ((cbvar b, v') :: e')).
Proof.
  intros m k b c mc sk m2 e' v v' K B L R HV HB.
  eapply CR_app with (c := c) (b := b) (mc := mc); eauto; try lia.
  - simpl. rewrite cident_eqb_refl'. reflexivity.
  - apply mk_rel_push; auto; lia.
Qed.

(* ---------- a producer value meets a consumer value ---------- *)
Lemma interact_val_sim : forall pv pv' kv kv',
  V (BP pv) (BP pv') -> V (BK kv) (BK kv') -> clash_val pv kv = false ->
  sres_rel (interact_val pv kv) (interact_val pv' kv').
Proof.
  intros pv pv' kv kv' HP HK CL.
  inversion HK; subst.
  - (* KMuT *) simpl. eexists. split; [reflexivity|]. eapply CR_run; eauto. apply ER_both; assumption.
  - (* KCase *) inversion HP; subst; simpl; try exact I.
    + eapply select_sim; eauto.
    + eexists. split; [reflexivity|]. eapply CR_run; eauto. apply ER_both; assumption.
    + eexists. split; [reflexivity|]. eapply crel_resume; eauto; simpl; congruence.
  - (* KDtor *) inversion HP; subst; simpl; try exact I.
    + eapply select_sim; eauto.
    + eexists. split; [reflexivity|]. eapply CR_run; eauto. apply ER_both; assumption.
    + eexists. split; [reflexivity|]. eapply crel_resume; eauto; simpl; congruence.
  - (* KRet *) inversion HP; subst; simpl in CL; try discriminate; simpl;
      (eexists; split; [reflexivity|]; eapply crel_resume; eauto; simpl; congruence).
Qed.

(* ---------- the syntactic producer mu a.s meets a consumer value ---------- *)
Lemma interact_mu_sim : forall cd a s e s' e' mc m2 kv kv',
  focus_stmt s mc = Ok (s', m2) -> M0 <= mc -> ids_le_stmt M0 s = true -> env_rel e e' ->
  V (BK kv) (BK kv') -> cd && is_kret kv = false ->
  sres_rel (interact_mu cd a s e kv) (interact_mu cd a (fs2c_stmt s') e' kv').
Proof.
  intros cd a s e s' e' mc m2 kv kv' F L HI E HK CL.
  assert (G : forall kv kv', V (BK kv) (BK kv') ->
              sres_rel (SNext (Run s ((a, BK kv) :: e))) (SNext (Run (fs2c_stmt s') ((a, BK kv') :: e')))).
  { intros k1 k2 H. eexists. split; [reflexivity|]. eapply CR_run; eauto. apply ER_both; assumption. }
  destruct cd.
  - inversion HK; subst; simpl in CL; try discriminate; simpl; try (apply G; assumption).
    eexists. split; [reflexivity|]. eapply CR_run; eauto. apply ER_both; [|assumption]. eapply V_thunk; eauto.
  - inversion HK; subst; simpl; apply G; assumption.
Qed.

(* ---------- producer head against a consumer value ---------- *)
Lemma cut_with_k_sim : forall cd p e p' e' mc m2 kv kv',
  focus_term CPrd p mc = Ok (p', m2) -> M0 <= mc -> ids_le_term M0 p = true -> env_rel e e' ->
  V (BK kv) (BK kv') -> clash_cut cd p e kv = false ->
  sres_rel (cut_with_k cd p e kv) (cut_with_k cd (fs2c_term p') e' kv').
Proof.
  intros cd p e p' e' mc m2 kv kv' F L HI E HK CL.
  destruct p as [c v t|n|a o b|c v s t|c x args t|c cls t]; try exact I.
  - rewrite focus_term_xvar in F. okinv F. simpl in HI. apply N.leb_le in HI. simpl in *.
    destruct (clookup e v) as [[pv|kv0]|] eqn:L1; try exact I.
    destruct (env_lookup_some _ _ _ _ _ _ E HI L1) as (v' & L2 & HV).
    destruct (V_BP_inv _ _ HV) as (pv' & ->). rewrite L2. apply interact_val_sim; assumption.
  - simpl in F. okinv F. simpl. apply interact_val_sim; [constructor | assumption | destruct kv; reflexivity].
  - rewrite focus_term_mu in F. rinv F. okinv F. simpl in HI. apply andb_true_iff in HI. destruct HI as [_ HI].
    simpl in *. eapply interact_mu_sim; eauto.
  - rewrite focus_term_xcase in F. rinv F. okinv F. rewrite fs2c_xcase. simpl in *.
    apply interact_val_sim; [eapply V_cocase; eauto | assumption | destruct kv; reflexivity].
Qed.

End Sim.
