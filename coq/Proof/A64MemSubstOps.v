(* The memory part of a substitution at the AArch64 level: the code `code_weakening_contraction` emits for the transposed
   map tm (an erase_block or a share_block_n per non-ext binding, in the order of tm) refines, through abs_heap, the operation
   list the instrumented machine of Sem/AxHeap.v performs for the substitution (`rc_op` per binding, the same order).
   Composition of a64_erase_block_ok / a64_share_block_ok (Proof/A64MemOps.v) over the list; the header bounds `hb` keep the
   64-bit counts from wrapping (and, AArch64, every tested header a 64-bit value).  Port of Proof/X86MemSubstOps.v. *)
From Coq Require Import List ZArith NArith String Bool Lia FMapPositive.
From SCC Require Import Base.Sexp Lang.AxSyn Sem.AxSem Sem.AxHeap Model.Backend Model.A64 Sem.A64Sem Generated.Constants
     Proof.A64State Proof.A64ImmHw Proof.A64Imm Proof.A64Sel Proof.A64Exec Proof.A64MemSubst Proof.A64Mem Proof.A64MemOps Proof.A64MemTop.
From SCC Require Model.Heap Proof.X86Mem Proof.X86MemFrame Proof.X86MemStore Proof.X86MemSubstOps.
Import Sem.AxHeap.
Import ListNotations.
Open Scope list_scope.
Open Scope Z_scope.

(* ---------- actions: (temporary holding the pointer, pointer, new number of copies) ---------- *)
Definition act := (atemp * Z * nat)%type.
Definition act_code (a : act) (lc : N) : list acode * N :=
  match snd a with
  | O => a_erase_block (fst (fst a)) lc
  | S O => ([], lc)
  | S (S m) => a_share_block_n (fst (fst a)) (N.of_nat (S m)) lc
  end.
Fixpoint acts_code (acts : list act) (lc : N) : list acode * N :=
  match acts with
  | [] => ([], lc)
  | a :: r => let '(c1, lc1) := act_code a lc in let '(c2, lc2) := acts_code r lc1 in (c1 ++ c2, lc2)
  end.
Definition act_op (a : act) : list Heap.op :=
  match snd a with
  | O => [Heap.OErase (snd (fst a))]
  | S O => []
  | S (S m) => [Heap.OShare (snd (fst a)) (Z.of_nat (S m))]
  end.
Definition n_erase (acts : list act) : Z := Z.of_nat (List.length (filter (fun a : act => match snd a with O => true | _ => false end) acts)).
Definition n_share (acts : list act) : Z := fold_right (fun (a : act) z => Z.of_nat (snd a) + z) 0 acts.
Lemma n_share_nonneg acts : 0 <= n_share acts.
Proof. unfold n_share. induction acts as [|a r IH]; cbn [fold_right]; lia. Qed.
Lemma n_erase_nonneg acts : 0 <= n_erase acts.
Proof. unfold n_erase. lia. Qed.

(* headers of all blocks and the free pointer lie lo above the smallest and hi below the largest
   64-bit integer *)
Definition hb (lo hi : Z) (s : astate) (f : Z) : Prop :=
  (forall x, is_blk x -> min_int + lo <= hword s x /\ hword s x + hi <= max_int) /\
  (min_int + lo <= f /\ f + hi <= max_int).

Lemma sbtf_lget s s' sp k : sbtf s s' -> lget s' sp (tpos k) = lget s sp (tpos k).
Proof.
  intros (R & St & _). destruct (tpos_not_reserved k) as (_ & NF & NT & NT2 & _).
  destruct (tpos k) as [r|q] eqn:E; cbn [lget].
  - apply R; congruence.
  - unfold sget. now rewrite St.
Qed.
Lemma sbtf_refl a : sbtf a a.
Proof. repeat split; auto. Qed.

Lemma hrun_app ops1 ops2 a : hrun (ops1 ++ ops2) a = hrun ops2 (hrun ops1 a).
Proof. unfold hrun. apply fold_left_app. Qed.
Lemma blk_small p : is_blk p -> 0 < p /\ p < 2 ^ 40.
Proof. intros (k & Hk & -> & H). unfb. lia. Qed.

(* the operations of a list of actions respect the block-wise equality of abstract states *)
Lemma acts_st_eqB : forall acts a b,
  st_eqB a b -> Forall (fun x : act => snd (fst x) = 0 \/ is_blk (snd (fst x))) acts ->
  st_eqB (hrun (flat_map act_op acts) a) (hrun (flat_map act_op acts) b).
Proof.
  induction acts as [|[[t p] n] acts IH]; intros a b E HF; cbn [flat_map]; [exact E|].
  inversion HF as [|? ? Hp HF']; subst. cbn [fst snd] in Hp. rewrite !hrun_app. apply IH; auto.
  unfold act_op; cbn [fst snd]. destruct n as [|[|n]]; cbn [hrun fold_left Heap.step]; auto.
  - now apply X86Mem.erase_st_eqB.
  - now apply X86MemFrame.share_st_eqB.
Qed.

Section WC.
Variable im : image.

Theorem a64_acts_ok F sp : forall acts lc cs lc' pos s f,
  acts_code acts lc = (cs, lc') ->
  code_at im pos cs -> labels_at im pos cs -> frame_ok s sp -> rget s FREE = Some f ->
  Forall (fun a : act => exists k, fst (fst a) = tpos k /\ (k < MAXPOS)%N /\ lget s sp (tpos k) = Some (snd (fst a)) /\
                                   (snd (fst a) = 0 \/ is_blk (snd (fst a)))) acts ->
  hb (n_erase acts) (n_share acts) s f -> n_share acts <= 2 ^ 31 - 1 -> n_erase acts <= 2 ^ 31 - 1 ->
  exists s', exec_to im pos s (padd pos (List.length cs)) s' /\
    st_eqB (abs_heap F s') (hrun (flat_map act_op acts) (abs_heap F s)) /\
    sbtf s s' /\ frame_ok s' sp /\
    rget s' FREE = Some (Heap.free (hrun (flat_map act_op acts) (abs_heap F s))).
Proof.
  induction acts as [|[[t p] n] acts IH]; intros lc cs lc' pos s f HC CA LA FR Hf HV HB HS HR.
  - cbn in HC. inversion HC; subst. exists s. cbn [flat_map hrun fold_left List.length padd]. split; [apply exec_refl|]. split; [apply X86Mem.st_eqB_refl|].
    split; [apply sbtf_refl|]. split; [exact FR|]. rewrite Hf. cbn [abs_heap Heap.free]. unfold reg_or0. now rewrite Hf.
  - cbn [acts_code] in HC. destruct (act_code (t, p, n) lc) as [c1 lc1] eqn:E1.
    destruct (acts_code acts lc1) as [c2 lc2] eqn:E2. inversion HC; subst. clear HC.
    destruct (code_at_app2 _ _ _ _ CA) as [CA1 CA2]. destruct (labels_at_app2 _ _ _ _ LA) as [LA1 LA2].
    inversion HV as [|? ? (k & Et & Hk & Hl & Hp) HV']; subst. cbn [fst snd] in Et, Hl, Hp. subst t.
    pose proof (tpos_loc_ok _ Hk) as Tok.
    assert (HPs : Forall (fun x : act => snd (fst x) = 0 \/ is_blk (snd (fst x))) acts).
    { eapply Forall_impl; [|exact HV']. intros a (k' & _ & _ & _ & H). exact H. }
    pose proof (n_share_nonneg acts) as Hsh. pose proof (n_erase_nonneg acts) as Her.
    assert (Ff : Heap.free (abs_heap F s) = f) by (cbn [abs_heap Heap.free]; unfold reg_or0; now rewrite Hf).
    assert (HR' : n_erase acts <= 2 ^ 31 - 1).
    { unfold n_erase in *. cbn [filter snd] in HR. destruct n; cbn [List.length] in HR; lia. }
    assert (HS' : n_share acts <= 2 ^ 31 - 1) by (unfold n_share in *; cbn [fold_right snd] in HS; lia).
    (* the first action: a state s1 refining its operation, with the bounds for the rest *)
    assert (H1 : exists s1 f1, exec_to im pos s (padd pos (List.length c1)) s1 /\
               st_eqB (abs_heap F s1) (hrun (act_op (tpos k, p, n)) (abs_heap F s)) /\
               sbtf s s1 /\ frame_ok s1 sp /\ rget s1 FREE = Some f1 /\
               f1 = Heap.free (hrun (act_op (tpos k, p, n)) (abs_heap F s)) /\
               hb (n_erase acts) (n_share acts) s1 f1).
    { unfold act_code, act_op in *; cbn [fst snd] in *. destruct n as [|[|n]].
      - (* erase *)
        assert (HBe : hb (1 + n_erase acts) (n_share acts) s f).
        { unfold n_erase in *. cbn [filter snd List.length] in HB. rewrite Nat2Z.inj_succ in HB.
          unfold n_share in *. cbn [fold_right snd] in HB. replace (Z.of_nat 0 + fold_right (fun (a : act) z => Z.of_nat (snd a) + z) 0 acts) with (fold_right (fun (a : act) z => Z.of_nat (snd a) + z) 0 acts) in HB by lia.
          replace (1 + Z.of_nat (List.length (filter (fun a : act => match snd a with O => true | _ => false end) acts))) with (Z.succ (Z.of_nat (List.length (filter (fun a : act => match snd a with O => true | _ => false end) acts)))) by lia. exact HB. }
        assert (Hw : p <> 0 -> min_int + 1 <= hword s p <= max_int).
        { intros Hp0. destruct Hp as [|Hblk]; [contradiction|]. destruct HBe as [B1 _]. specialize (B1 _ Hblk). lia. }
        destruct (tpos_not_reserved k) as (NH & NF & _).
        pose proof (a64_erase_block_ok im pos (tpos k) lc s sp p f F) as HE. rewrite E1 in HE. cbn [fst] in HE.
        destruct (HE CA1 LA1 FR (tpos_operand_ok k Hk) NF NH Hl Hf Hp Hw) as (s1 & ST1 & EQ1 & SB1 & FR1 & Hf1 & _).
        exists s1, (Heap.free (Heap.erase p (abs_heap F s))). cbn [hrun fold_left Heap.step].
        split; [exact ST1|]. split; [exact EQ1|]. split; [exact SB1|]. split; [exact FR1|]. split; [exact Hf1|]. split; [reflexivity|].
        destruct HBe as [B1 [B2 B3]]. destruct EQ1 as (_ & _ & _ & EM). split.
        + intros x Hx. change (hword s1 x) with (Heap.hdr (Heap.m (abs_heap F s1) x)). rewrite (EM x Hx).
          specialize (B1 x Hx). change (hword s x) with (Heap.hdr (Heap.m (abs_heap F s) x)) in B1.
          destruct (X86Mem.erase_hdr_cases (abs_heap F s) p x) as [->|[->| ->]]; rewrite ?Ff; lia.
        + destruct (X86Mem.erase_free_cases (abs_heap F s) p) as [->| ->]; [rewrite Ff; lia|].
          destruct Hp as [->|Hblk]; [unfold min_int, max_int, two63 in *; lia|].
          destruct (X86MemSubstOps.blk_small _ Hblk). unfold min_int, max_int, two63 in *. lia.
      - (* one copy: no code *)
        inversion E1 as [[Ec Elc]]. subst c1 lc1. exists s, f. cbn [List.length padd hrun fold_left].
        split; [apply exec_refl|]. split; [apply X86Mem.st_eqB_refl|]. split; [apply sbtf_refl|]. split; [exact FR|]. split; [exact Hf|].
        split; [symmetry; exact Ff|].
        unfold n_erase, n_share in *. cbn [filter snd fold_right] in HB. destruct HB as [B1 B2]. split.
        * intros x Hx. specialize (B1 x Hx). lia.
        * lia.
      - (* share *)
        set (m := N.of_nat (S n)) in *.
        assert (Em : Z.of_N m = Z.of_nat (S n)) by (unfold m; lia).
        assert (HSn : Z.of_nat (S (S n)) + n_share acts <= 2 ^ 31 - 1) by (unfold n_share in *; cbn [fold_right snd] in HS; exact HS).
        assert (HBs : hb (n_erase acts) (Z.of_nat (S (S n)) + n_share acts) s f).
        { unfold n_erase, n_share in *. cbn [filter snd fold_right] in HB. exact HB. }
        assert (Hw : p <> 0 -> wrap (hword s p + Z.of_N m) = hword s p + Z.of_N m).
        { intros Hp0. destruct Hp as [|Hblk]; [contradiction|]. destruct HBs as [B1 _]. specialize (B1 _ Hblk). apply wrap_in64. lia. }
        pose proof (a64_share_block_ok im pos (tpos k) m lc s sp p F) as HE. rewrite E1 in HE. cbn [fst] in HE.
        destruct (HE CA1 LA1 FR (tpos_operand_ok k Hk) Hl Hp Hw) as (s1 & ST1 & EQ1 & SB1 & FR1 & _).
        exists s1, f. cbn [hrun fold_left Heap.step]. rewrite <- Em.
        split; [exact ST1|]. split; [exact EQ1|]. split; [apply sbt_sbtf; exact SB1|]. split; [exact FR1|].
        split; [destruct SB1 as (R & _); rewrite R by discriminate; exact Hf|].
        split; [unfold Heap.share; destruct (p =? 0); cbn [Heap.free]; symmetry; exact Ff|].
        destruct HBs as [B1 B2]. destruct EQ1 as (_ & _ & _ & EM). split; [|lia].
        intros x Hx. change (hword s1 x) with (Heap.hdr (Heap.m (abs_heap F s1) x)). rewrite (EM x Hx).
        specialize (B1 x Hx). change (hword s x) with (Heap.hdr (Heap.m (abs_heap F s) x)) in B1.
        unfold Heap.share. destruct (Z.eqb_spec p 0); [lia|]. cbn [Heap.m].
        destruct (Z.eq_dec x p) as [->|Hne]; [rewrite Heap.hdr_set_hdr_same|rewrite Heap.hdr_set_hdr_other by exact Hne]; lia. }
    destruct H1 as (s1 & f1 & ST1 & EQ1 & SB1 & FR1 & Hf1 & Ef1 & HB1).
    assert (HV1 : Forall (fun a : act => exists k, fst (fst a) = tpos k /\ (k < MAXPOS)%N /\ lget s1 sp (tpos k) = Some (snd (fst a)) /\
                                              (snd (fst a) = 0 \/ is_blk (snd (fst a)))) acts).
    { eapply Forall_impl; [|exact HV']. intros a (k' & A & B & C & D). exists k'. rewrite (sbtf_lget s s1 sp k' SB1). auto. }
    assert (HS1 : n_share acts <= 2 ^ 31 - 1) by (unfold n_share in *; cbn [fold_right snd] in HS; lia).
    assert (HR1 : n_erase acts <= 2 ^ 31 - 1).
    { unfold n_erase in *. cbn [filter snd] in HR. destruct n; cbn [List.length] in HR; lia. }
    destruct (IH lc1 c2 lc' _ s1 f1 E2 CA2 LA2 FR1 Hf1 HV1 HB1 HS1 HR1) as (s2 & ST2 & EQ2 & SB2 & FR2 & Hf2).
    pose proof (acts_st_eqB acts _ _ EQ1 HPs) as EQr.
    exists s2. cbn [flat_map]. rewrite hrun_app. split; [|split; [|split; [|split]]].
    + rewrite app_length, padd_add. eapply exec_to_trans; eauto.
    + eapply X86Mem.st_eqB_trans; [exact EQ2|exact EQr].
    + eapply sbtf_trans; eauto.
    + exact FR2.
    + rewrite Hf2. f_equal. destruct EQr as (_ & E & _). exact E.
Qed.

(* ---------- code_weakening_contraction is the code of the actions of tm ---------- *)
Definition tm_acts (ptr : binding -> Z) (context : ctx) (tm : list (binding * list N)) : list act :=
  flat_map (fun bt : binding * list N =>
              match bchi (fst bt) with
              | Ext => []
              | _ => match position_of context (idn (bvar (fst bt))) 0 with
                     | Some q => [(tpos (2 * q + tnum_n Fst), ptr (fst bt), List.length (snd bt))]
                     | None => []
                     end
              end) tm.

Lemma tm_acts_cons ptr context b targets tm :
  tm_acts ptr context ((b, targets) :: tm) =
  (match bchi b with
   | Ext => []
   | _ => match position_of context (idn (bvar b)) 0 with
          | Some q => [(tpos (2 * q + tnum_n Fst), ptr b, List.length targets)]
          | None => []
          end
   end) ++ tm_acts ptr context tm.
Proof. reflexivity. Qed.

Lemma urc_act v context n lc r (p : Z) :
  update_reference_count a64_backend v context n lc = Ok r ->
  exists q, position_of context (idn v) 0 = Some q /\ (2 * q + tnum_n Fst < MAXPOS)%N /\
            r = act_code (tpos (2 * q + tnum_n Fst), p, n) lc.
Proof.
  unfold update_reference_count, variable_temporary. destruct (position_of context (idn v) 0) as [q|]; cbn [rbind]; [|discriminate].
  cbn [b_temporary_from_position a64_backend a64_backend_with].
  destruct (temporary_from_position (2 * q + tnum_n Fst)) as [t|] eqn:Et; cbn [rbind]; [|discriminate].
  apply tfp_tpos in Et as [-> Hk]. intros H. exists q. split; [reflexivity|]. split; [exact Hk|].
  unfold act_code; cbn [fst snd]. destruct n as [|[|n]]; cbn [b_erase b_share_n a64_backend a64_backend_with] in H; inversion H; reflexivity.
Qed.

Lemma cwc_acts ptr context : forall tm lc cs lc',
  code_weakening_contraction a64_backend tm context lc = Ok (cs, lc') ->
  acts_code (tm_acts ptr context tm) lc = (cs, lc').
Proof.
  induction tm as [|[b targets] tm IH]; intros lc cs lc' H.
  - cbn in H. inversion H. reflexivity.
  - cbn [code_weakening_contraction] in H. rewrite tm_acts_cons.
    destruct (bchi b) eqn:Eb; [| |apply IH; exact H].
    all: destruct (update_reference_count a64_backend (bvar b) context (List.length targets) lc) as [r|] eqn:EU; cbn [rbind] in H; [|discriminate];
      destruct (urc_act _ _ _ _ _ (ptr b) EU) as (q & Ep & _ & ->); rewrite Ep; cbn [app acts_code];
      destruct (act_code (tpos (2 * q + tnum_n Fst), ptr b, List.length targets) lc) as [c1 lc1];
      destruct (code_weakening_contraction a64_backend tm context lc1) as [[c2 lc2]|] eqn:E2; cbn [rbind] in H; [|discriminate];
      inversion H; subst; rewrite (IH _ _ _ E2); reflexivity.
Qed.

Lemma tm_acts_ops ptr context tm :
  (forall b targets, In (b, targets) tm -> bchi b <> Ext -> position_of context (idn (bvar b)) 0 <> None) ->
  flat_map act_op (tm_acts ptr context tm) =
  flat_map (fun bt : binding * list N => rc_op (bchi (fst bt)) (ptr (fst bt)) (List.length (snd bt))) tm.
Proof.
  induction tm as [|[b targets] tm IH]; intros H; [reflexivity|].
  rewrite tm_acts_cons. cbn [flat_map fst snd]. rewrite flat_map_app. unfold act in *.
  rewrite IH; [|intros b0 t0 Hin Hne; apply (H b0 t0); [now right|exact Hne]]. f_equal.
  destruct (bchi b) eqn:Eb; [| |reflexivity].
  all: destruct (position_of context (idn (bvar b)) 0) eqn:Ep; [|exfalso; eapply (H b targets); [now left|rewrite Eb; discriminate|exact Ep]].
  all: cbn [flat_map app]; rewrite app_nil_r; unfold act_op, rc_op; cbn [fst snd]; destruct targets as [|t1 [|t2 ts]]; reflexivity.
Qed.

(* the theorem in terms of the code generator and the operations of the instrumented machine *)
Theorem a64_weakening_contraction_ok (ptr : binding -> Z) context F sp tm lc cs lc' pos s f :
  code_weakening_contraction a64_backend tm context lc = Ok (cs, lc') ->
  code_at im pos cs -> labels_at im pos cs -> frame_ok s sp -> rget s FREE = Some f ->
  (forall b targets t, In (b, targets) tm -> bchi b <> Ext ->
     variable_temporary a64_backend Fst context (idn (bvar b)) = Ok t ->
     lget s sp t = Some (ptr b) /\ (ptr b = 0 \/ is_blk (ptr b))) ->
  let acts := tm_acts ptr context tm in
  hb (n_erase acts) (n_share acts) s f -> n_share acts <= 2 ^ 31 - 1 -> n_erase acts <= 2 ^ 31 - 1 ->
  let ops := flat_map (fun bt : binding * list N => rc_op (bchi (fst bt)) (ptr (fst bt)) (List.length (snd bt))) tm in
  exists s', exec_to im pos s (padd pos (List.length cs)) s' /\
    st_eqB (abs_heap F s') (hrun ops (abs_heap F s)) /\
    sbtf s s' /\ frame_ok s' sp /\
    rget s' FREE = Some (Heap.free (hrun ops (abs_heap F s))).
Proof.
  intros HC CA LA FR Hf HV acts HB HS HR ops.
  pose proof (cwc_acts ptr context tm lc cs lc' HC) as HA. fold acts in HA.
  (* every non-ext binding of tm has a position: otherwise the generator fails *)
  assert (Hpos : forall b targets, In (b, targets) tm -> bchi b <> Ext -> position_of context (idn (bvar b)) 0 <> None).
  { clear -HC. revert lc cs lc' HC. induction tm as [|[b0 t0] tm IH]; intros lc cs lc' HC b targets Hin Hne; [destruct Hin|].
    cbn [code_weakening_contraction] in HC. destruct Hin as [E|Hin].
    - inversion E; subst. destruct (bchi b) eqn:Eb; try congruence.
      all: unfold update_reference_count, variable_temporary in HC; destruct (position_of context (idn (bvar b)) 0); cbn [rbind] in HC; [discriminate|discriminate].
    - destruct (bchi b0).
      3: eapply IH; eauto.
      all: destruct (update_reference_count a64_backend (bvar b0) context (List.length t0) lc) as [[c1 lc1]|]; cbn [rbind] in HC; try discriminate;
        destruct (code_weakening_contraction a64_backend tm context lc1) as [[c2 lc2]|] eqn:E2; cbn [rbind] in HC; try discriminate; eapply IH; eauto. }
  assert (HVa : Forall (fun a : act => exists k, fst (fst a) = tpos k /\ (k < MAXPOS)%N /\ lget s sp (tpos k) = Some (snd (fst a)) /\
                                            (snd (fst a) = 0 \/ is_blk (snd (fst a)))) acts).
  { unfold acts, tm_acts. apply Forall_forall. intros a Ha. apply in_flat_map in Ha as ([b targets] & Hin & Ha). cbn [fst snd] in Ha.
    destruct (bchi b) eqn:Eb; [| |destruct Ha].
    all: destruct (position_of context (idn (bvar b)) 0) as [q|] eqn:Ep; [|destruct Ha]; destruct Ha as [<-|[]]; cbn [fst snd];
      assert (Hne : bchi b <> Ext) by (rewrite Eb; discriminate);
      (* the generator succeeded, so the position has a temporary *)
      assert (Hk : (2 * q + tnum_n Fst < MAXPOS)%N);
      [ clear -HC Hin Ep Hne; revert lc cs lc' HC; induction tm as [|[b0 t0] tm IH]; intros lc cs lc' HC; [destruct Hin|];
        cbn [code_weakening_contraction] in HC; destruct Hin as [E|Hin];
        [ inversion E; subst; destruct (bchi b) eqn:Eb'; try congruence;
          unfold update_reference_count, variable_temporary in HC; rewrite Ep in HC; cbn [b_temporary_from_position a64_backend a64_backend_with] in HC;
          destruct (temporary_from_position (2 * q + tnum_n Fst)) eqn:Et; cbn [rbind] in HC; try discriminate; apply tfp_tpos in Et; tauto
        | destruct (bchi b0);
          [ destruct (update_reference_count a64_backend (bvar b0) context (List.length t0) lc) as [[c1 lc1]|]; cbn [rbind] in HC; try discriminate;
            destruct (code_weakening_contraction a64_backend tm context lc1) as [[c2 lc2]|] eqn:E2; cbn [rbind] in HC; try discriminate; eapply IH; eauto
          | destruct (update_reference_count a64_backend (bvar b0) context (List.length t0) lc) as [[c1 lc1]|]; cbn [rbind] in HC; try discriminate;
            destruct (code_weakening_contraction a64_backend tm context lc1) as [[c2 lc2]|] eqn:E2; cbn [rbind] in HC; try discriminate; eapply IH; eauto
          | eapply IH; eauto ] ]
      | exists (2 * q + tnum_n Fst)%N; split; [reflexivity|]; split; [exact Hk|];
        apply (HV b targets (tpos (2 * q + tnum_n Fst)) Hin Hne);
        unfold variable_temporary; rewrite Ep; cbn [b_temporary_from_position a64_backend a64_backend_with]; now apply tpos_tfp ]. }
  destruct (a64_acts_ok F sp acts lc cs lc' pos s f HA CA LA FR Hf HVa HB HS HR) as (s' & A & B & C & D & E).
  unfold ops. rewrite <- (tm_acts_ops ptr context tm Hpos). fold acts. eauto 10.
Qed.
End WC.

(* ---------- the hypotheses are satisfiable: drop x, duplicate y, keep the integer z ---------- *)
Definition exs_T := Decl ("T"%string, 0%N).
Definition exs_ctx : ctx := [mkb ("x"%string, 1%N) Prd exs_T; mkb ("y"%string, 2%N) Prd exs_T; mkb ("z"%string, 3%N) Ext I64].
Definition exs_re : list (binding * ident) :=
  [(mkb ("y1"%string, 4%N) Prd exs_T, ("y"%string, 2%N)); (mkb ("y2"%string, 5%N) Prd exs_T, ("y"%string, 2%N));
   (mkb ("z1"%string, 6%N) Ext I64, ("z"%string, 3%N))].
Definition exs_tm := transpose exs_re exs_ctx.
Definition exs_code : list acode := match code_weakening_contraction a64_backend exs_tm exs_ctx 0 with Ok (cs, _) => cs | Err _ => [] end.
Definition exs_sp : Z := STACK_TOP - 4096.
Definition exs_state : astate :=
  rset (rset (rset (rset (rset (init_state []) SP (Some exs_sp)) HEAP (Some HEAP_BASE)) FREE (Some (HEAP_BASE + 192)))
             (X 4) (Some (HEAP_BASE + 64))) (X 6) (Some (HEAP_BASE + 128)).
Definition exs_ptr (b : binding) : Z := match snd (bvar b) with 1%N => HEAP_BASE + 64 | 2%N => HEAP_BASE + 128 | _ => 0 end.
Fixpoint exs_nodupb (l : list string) : bool :=
  match l with [] => true | x :: r => negb (existsb (String.eqb x) r) && exs_nodupb r end.
Lemma exs_nodupb_sound l : exs_nodupb l = true -> NoDup l.
Proof.
  induction l as [|x r IH]; cbn [exs_nodupb]; intros H; [constructor|].
  apply andb_true_iff in H as [H1 H2]. constructor; auto.
  intros Hin. apply negb_true_iff in H1. assert (existsb (String.eqb x) r = true); [|congruence].
  apply existsb_exists. exists x. split; [exact Hin|apply String.eqb_refl].
Qed.

Example a64_substitute_memory_example :
  let ops := flat_map (fun bt : binding * list N => rc_op (bchi (fst bt)) (exs_ptr (fst bt)) (List.length (snd bt))) exs_tm in
  ops = [Heap.OErase (HEAP_BASE + 64); Heap.OShare (HEAP_BASE + 128) 1] /\
  exists lc', code_weakening_contraction a64_backend exs_tm exs_ctx 0 = Ok (exs_code, lc') /\
  exists s', exec_to (mk_image exs_code) 1 exs_state (padd 1 (List.length exs_code)) s' /\
    st_eqB (abs_heap (HEAP_BASE + 192) s') (hrun ops (abs_heap (HEAP_BASE + 192) exs_state)) /\
    rget s' FREE = Some (HEAP_BASE + 64) /\ hword s' (HEAP_BASE + 64) = HEAP_BASE + 192 /\ hword s' (HEAP_BASE + 128) = 1.
Proof.
  intros ops. split; [vm_compute; reflexivity|].
  destruct (code_weakening_contraction a64_backend exs_tm exs_ctx 0) as [[cs lc']|] eqn:E; [|vm_compute in E; discriminate].
  assert (Ecs : exs_code = cs) by (unfold exs_code; rewrite E; reflexivity). exists lc'. rewrite Ecs. split; [reflexivity|].
  destruct (A64MemTop.mk_image_code_labels cs) as [HC HL]; [apply exs_nodupb_sound; rewrite <- Ecs; vm_compute; reflexivity|].
  assert (Hz : forall x, hword exs_state x = 0) by (intros x; unfold hword, hget, exs_state; rewrite !heap_rset; cbn [heap init_state]; now rewrite PM.gempty).
  destruct (a64_weakening_contraction_ok (mk_image cs) exs_ptr exs_ctx (HEAP_BASE + 192) exs_sp exs_tm 0 cs lc' 1 exs_state (HEAP_BASE + 192) E HC HL)
    as (s' & ST & EQ & _ & _ & Hf).
  - split; [vm_compute; reflexivity|]. repeat split; vm_compute; easy.
  - vm_compute; reflexivity.
  - intros b targets t Hin Hne Ht. vm_compute in Hin.
    destruct Hin as [Ei|[Ei|[Ei|[]]]]; inversion Ei; subst b targets; try (exfalso; apply Hne; reflexivity);
      vm_compute in Ht; inversion Ht; subst t; (split; [vm_compute; reflexivity|right]).
    + exists 1. split; [lia|]. split; [reflexivity|]. vm_compute; easy.
    + exists 2. split; [lia|]. split; [reflexivity|]. vm_compute; easy.
  - split; [intros x _; rewrite Hz; vm_compute; split; discriminate|vm_compute; split; discriminate].
  - vm_compute; discriminate.
  - vm_compute; discriminate.
  - exists s'. split; [exact ST|]. split; [exact EQ|].
    assert (Eb1 : is_blk (HEAP_BASE + 64)) by (exists 1; split; [lia|]; split; [reflexivity|]; vm_compute; easy).
    assert (Eb2 : is_blk (HEAP_BASE + 128)) by (exists 2; split; [lia|]; split; [reflexivity|]; vm_compute; easy).
    destruct EQ as (_ & _ & _ & EM).
    split; [rewrite Hf; f_equal; vm_compute; reflexivity|]. split.
    + change (hword s' (HEAP_BASE + 64)) with (Heap.hdr (Heap.m (abs_heap (HEAP_BASE + 192) s') (HEAP_BASE + 64))). rewrite (EM _ Eb1).
      vm_compute. reflexivity.
    + change (hword s' (HEAP_BASE + 128)) with (Heap.hdr (Heap.m (abs_heap (HEAP_BASE + 192) s') (HEAP_BASE + 128))). rewrite (EM _ Eb2).
      vm_compute. reflexivity.
Qed.
Print Assumptions a64_weakening_contraction_ok.
Print Assumptions a64_substitute_memory_example.
