(* C03, semantic preservation, part 7: a static (boolean) guard under which no run meets a kind
   clash (Proof/FocusSim.v).

   A clash needs a by-name producer value (PThunk / PDelay, or a mu at a codata cut) AND a by-value
   return continuation (KRet).  The guard [sg_* cod bn kr] forbids syntactically
     bn = false : everything that creates a by-name value: a mu-abstraction annotated with a codata
                  type in an argument position (producer or consumer), a cut at a codata type whose
                  producer is a mu;
     kr = false : everything that creates a KRet: a producer mu-abstraction annotated with a
                  NON-codata type in an argument position.
   With bn && kr = false one of the two kinds of value never exists ([nc] is an invariant of the
   machine), hence no clash.  Well-typed programs that mix both are clash free as well, but showing
   that needs a type system for Core (not available in the framework): they are covered by the
   theorems with the explicit [clash_free] hypothesis. *)
From Coq Require Import List ZArith NArith String Bool Lia.
From SCC Require Import Base.Sexp Lang.CoreSyn Sem.AxSem Sem.CoreSem Proof.FocusKont Proof.FocusSim Proof.FocusRun.
From SCC Require Import Model.FocusGuard.
Import ListNotations.
Open Scope list_scope.

Section Inv.
Variable ps : cprog.
Variables bn kr : bool.
Hypothesis Hflags : bn && kr = false.
Hypothesis Hprog : sg_prog bn kr ps = true.

Notation sgt := (sg_term (is_codata ps) bn kr).
Notation sga := (sg_arg (is_codata ps) bn kr).
Notation sgc := (sg_clause (is_codata ps) bn kr).
Notation sgs := (sg_stmt (is_codata ps) bn kr).
Notation aop := (arg_ok_prd (is_codata ps) bn kr).

Inductive nv : bval -> Prop :=
| nv_int : forall z, nv (BP (PInt z))
| nv_ctor : forall tag args, nvs args -> nv (BP (PCtor tag args))
| nv_cocase : forall cls e, forallb sgc cls = true -> ne e -> nv (BP (PCocase cls e))
| nv_thunk : forall a s e, bn = true -> sgs s = true -> ne e -> nv (BP (PThunk a s e))
| nv_delay : forall m, bn = true -> nm m -> nv (BP (PDelay m))
| nv_mut : forall x s e, sgs s = true -> ne e -> nv (BK (KMuT x s e))
| nv_case : forall cls e, forallb sgc cls = true -> ne e -> nv (BK (KCase cls e))
| nv_dtor : forall tag args, nvs args -> nv (BK (KDtor tag args))
| nv_ret : forall m, kr = true -> nm m -> nv (BK (KRet m))
with nvs : list bval -> Prop :=
| nvs_nil : nvs []
| nvs_cons : forall v l, nv v -> nvs l -> nvs (v :: l)
with ne : cenv -> Prop :=
| ne_nil : ne []
| ne_cons : forall x v e, nv v -> ne e -> ne ((x, v) :: e)
with nm : mk -> Prop :=
| nm_args : forall done rest e f, nvs done -> forallb sga rest = true -> ne e -> nf f -> nm (MArgs done rest e f)
| nm_opL : forall o b e m, sgt b = true -> aop b = true -> ne e -> nm m -> nm (MOpL o b e m)
| nm_opR : forall o x m, nm m -> nm (MOpR o x m)
| nm_if1 : forall so b t el e,
    match b with Some b' => sgt b' && aop b' | None => true end = true -> sgs t = true -> sgs el = true -> ne e ->
    nm (MIf1 so b t el e)
| nm_if2 : forall so x t el e, sgs t = true -> sgs el = true -> ne e -> nm (MIf2 so x t el e)
| nm_print : forall nl next e, sgs next = true -> ne e -> nm (MPrint nl next e)
| nm_exit : nm MExit
| nm_cutK : forall k e, sgt k = true -> ne e -> nm (MCutK k e)
| nm_cutP : forall cd p e, sgt p = true -> cut_ok bn cd p = true -> ne e -> nm (MCutP cd p e)
with nf : fin -> Prop :=
| nf_call : forall f, nf (FinCall f)
| nf_xp : forall tag m, nm m -> nf (FinXtorP tag m)
| nf_xk : forall tag m, nm m -> nf (FinXtorK tag m).

Inductive nc : config -> Prop :=
| nc_run : forall s e, sgs s = true -> ne e -> nc (Run s e)
| nc_arg : forall a e m, sga a = true -> ne e -> nm m -> nc (Arg a e m)
| nc_app : forall m v, nm m -> nv v -> nc (App m v).

Definition sres_ok (r : sres) : Prop :=
  match r with SNext c => nc c | SPrint _ _ c => nc c | SHalt _ => True end.

Lemma ne_lookup : forall e x v, ne e -> clookup e x = Some v -> nv v.
Proof.
  induction 1 as [|y w e Hw He IH]; simpl; intros L; [discriminate|].
  destruct (cident_eqb y x); [congruence | auto].
Qed.
Lemma ne_cbind : forall xs vs e e1, nvs vs -> ne e -> cbind xs vs e = Some e1 -> ne e1.
Proof.
  induction xs as [|x xs IH]; intros vs e e1 HV HE B; destruct vs as [|v vs]; simpl in B; try discriminate.
  - congruence.
  - destruct (cbind xs vs e) as [e2|] eqn:E2; [|discriminate]. inversion B; subst.
    inversion HV; subst. constructor; eauto.
Qed.
Lemma nvs_rev_append : forall a b, nvs a -> nvs b -> nvs (rev_append a b).
Proof. induction a as [|x a IH]; simpl; intros b Ha Hb; auto. inversion Ha; subst. apply IH; auto. constructor; auto. Qed.

Lemma sg_find_clause : forall cls tag c, forallb sgc cls = true -> cfind_clause cls tag = Some c -> sgs (cl_body c) = true.
Proof.
  unfold cfind_clause. induction cls as [|c0 cls IH]; simpl; intros tag c H F; [discriminate|].
  apply andb_true_iff in H. destruct H as [H0 H].
  destruct (cident_eqb (cl_xtor c0) tag).
  - inversion F; subst. destruct c; exact H0.
  - eauto.
Qed.

Lemma select_n : forall cls ce tag args, forallb sgc cls = true -> ne ce -> nvs args -> sres_ok (select cls ce tag args).
Proof.
  intros cls ce tag args H HE HV. unfold select.
  destruct (cfind_clause cls tag) as [c|] eqn:F; [|exact I].
  destruct (cbind (cvars (cl_ctx c)) args ce) as [e1|] eqn:B; [|exact I].
  simpl. constructor; [eapply sg_find_clause; eauto | eapply ne_cbind; eauto].
Qed.

Lemma sg_find_def : forall f d, cfind_def ps f = Some d -> sgs (cdbody d) = true.
Proof.
  unfold cfind_def, sg_prog in *. intros f d F. apply find_some in F. destruct F as [F _].
  rewrite forallb_forall in Hprog. apply Hprog; exact F.
Qed.

Lemma finish_n : forall f vals, nf f -> nvs vals -> sres_ok (finish_args ps f vals).
Proof.
  intros f vals HF HV. destruct HF; simpl.
  - destruct (cfind_def ps f) as [d|] eqn:FD; [|exact I].
    destruct (cbind (cvars (cdctx d)) vals []) as [e1|] eqn:B; [|exact I].
    simpl. constructor; [eapply sg_find_def; eauto | eapply ne_cbind; eauto; constructor].
  - constructor; [assumption | constructor; assumption].
  - constructor; [assumption | constructor; assumption].
Qed.
Lemma start_n : forall args e f, forallb sga args = true -> ne e -> nf f -> sres_ok (start_args ps args e f).
Proof.
  intros args e f HA HE HF. destruct args as [|a r]; simpl.
  - apply finish_n; [assumption | constructor].
  - simpl in HA. apply andb_true_iff in HA. destruct HA. constructor; auto. constructor; auto. constructor.
Qed.

Lemma interact_val_n : forall pv kv, nv (BP pv) -> nv (BK kv) -> sres_ok (interact_val pv kv).
Proof.
  intros pv kv HP HK. inversion HK; subst.
  - simpl. constructor; auto. constructor; auto.
  - inversion HP; subst; simpl; try exact I.
    + apply select_n; auto.
    + constructor; auto. constructor; auto.
    + constructor; auto.
  - inversion HP; subst; simpl; try exact I.
    + apply select_n; auto.
    + constructor; auto. constructor; auto.
    + constructor; auto.
  - inversion HP; subst; simpl; try (constructor; auto).
    + constructor; auto.
Qed.
Lemma interact_mu_n : forall cd a s e kv,
  sgs s = true -> (cd = true -> bn = true) -> ne e -> nv (BK kv) -> sres_ok (interact_mu cd a s e kv).
Proof.
  intros cd a s e kv HS HC HE HK.
  assert (G : nc (Run s ((a, BK kv) :: e))) by (constructor; auto; constructor; auto).
  destruct cd; simpl; [|exact G].
  inversion HK; subst; try exact G.
  constructor; auto. constructor; auto. constructor; auto.
Qed.
Lemma khead_n : forall k e kv, sgt k = true -> ne e -> khead k e = inl kv -> nv (BK kv).
Proof.
  intros k e kv HK HE H. destruct k; simpl in H; try discriminate.
  - destruct (clookup e v) as [[pv|kv0]|] eqn:L; try discriminate. inversion H; subst. eapply ne_lookup; eauto.
  - inversion H; subst. constructor; auto.
  - inversion H; subst. constructor; auto.
Qed.
Lemma cut_with_k_n : forall cd p e kv,
  sgt p = true -> cut_ok bn cd p = true -> ne e -> nv (BK kv) -> sres_ok (cut_with_k cd p e kv).
Proof.
  intros cd p e kv HP HC HE HK. destruct p; simpl; try exact I.
  - destruct (clookup e v) as [[pv|kv0]|] eqn:L; try exact I. apply interact_val_n; auto. eapply ne_lookup; eauto.
  - apply interact_val_n; auto. constructor.
  - apply interact_mu_n; auto. intros ->. simpl in HC. exact HC.
  - apply interact_val_n; auto. constructor; auto.
Qed.

Lemma sg_arg_prd : forall t, sgt t = true -> aop t = true -> sga (CProducer t) = true.
Proof. intros t A B. change (sgt t && aop t = true). rewrite A, B. reflexivity. Qed.

Theorem nc_step : forall c, nc c -> sres_ok (cstep ps c).
Proof.
  intros c H. destruct H as [s e HS HE|a e m HA HE HM|m v HM HV].
  - destruct s as [p ty k|so a b t el|nl a next|f args ty|a ty]; simpl in HS.
    + apply andb_true_iff in HS. destruct HS as [HS HC]. apply andb_true_iff in HS. destruct HS as [HP HK].
      assert (XP : forall pc px pargs pt, p = CXtor pc px pargs pt -> sres_ok (cstep ps (Run (CCut p ty k) e))).
      { intros pc px pargs pt ->. simpl. apply start_n; auto. constructor. constructor; auto. }
      assert (XK : forall qc qx qargs qt0, not_xtor p -> k = CXtor qc qx qargs qt0 -> sres_ok (cstep ps (Run (CCut p ty k) e))).
      { intros qc qx qargs qt0 NP ->.
        replace (cstep ps (Run (CCut p ty (CXtor qc qx qargs qt0)) e))
          with (start_args ps qargs e (FinXtorK qx (MCutP (is_codata ps ty) p e)))
          by (destruct p; try contradiction; reflexivity).
        apply start_n; auto. constructor. constructor; auto. }
      assert (XO : forall a o b, not_xtor k -> p = COp a o b -> sres_ok (cstep ps (Run (CCut p ty k) e))).
      { intros a o b NK ->.
        replace (cstep ps (Run (CCut (COp a o b) ty k) e))
          with (SNext (Arg (CProducer a) e (MOpL o b e (MCutK k e))))
          by (destruct k; try contradiction; reflexivity).
        simpl in HP. apply andb_true_iff in HP. destruct HP as [HA HB].
        apply andb_true_iff in HA. destruct HA. apply andb_true_iff in HB. destruct HB.
        simpl. constructor; auto. { apply sg_arg_prd; auto. } constructor; auto. constructor; auto. }
      assert (XH : head_prd p -> not_xtor k -> sres_ok (cstep ps (Run (CCut p ty k) e))).
      { intros HPp NK.
        replace (cstep ps (Run (CCut p ty k) e))
          with (match khead k e with inl kv => cut_with_k (is_codata ps ty) p e kv | inr why => stuck why end)
          by (destruct p; try contradiction; destruct k; try contradiction; reflexivity).
        destruct (khead k e) as [kv|why] eqn:KH; [|exact I].
        apply cut_with_k_n; auto. eapply khead_n; eauto. }
      destruct p; try (eapply XP; reflexivity);
        destruct k; try (eapply XK; [exact I|reflexivity]); try (eapply XO; [exact I|reflexivity]);
        apply XH; exact I.
    + repeat (apply andb_true_iff in HS; destruct HS as [HS ?]).
      simpl. constructor; auto. { apply sg_arg_prd; auto. } constructor; auto.
    + repeat (apply andb_true_iff in HS; destruct HS as [HS ?]).
      simpl. constructor; auto. { apply sg_arg_prd; auto. } constructor; auto.
    + simpl. apply start_n; auto. constructor.
    + apply andb_true_iff in HS. destruct HS.
      simpl. constructor; auto. { apply sg_arg_prd; auto. } constructor.
  - destruct a as [t|t]; simpl in HA; apply andb_true_iff in HA; destruct HA as [HT HO].
    + destruct t as [c0 v ty|n|a o b|c0 v s ty|c0 tag args ty|c0 cls ty]; simpl.
      * destruct (clookup e v) as [[pv|kv]|] eqn:L; try exact I. constructor; auto. eapply ne_lookup; eauto.
      * constructor; auto. constructor.
      * simpl in HT. apply andb_true_iff in HT. destruct HT as [HA HB].
        apply andb_true_iff in HA. destruct HA. apply andb_true_iff in HB. destruct HB.
        constructor; auto. { apply sg_arg_prd; auto. } constructor; auto.
      * simpl in HT, HO. destruct (is_codata ps ty).
        -- constructor; auto. constructor; auto.
        -- constructor; auto. constructor; auto. constructor; auto.
      * apply start_n; auto. constructor; auto.
      * constructor; auto. constructor; auto.
    + destruct t as [c0 v ty|n|a o b|c0 v s ty|c0 tag args ty|c0 cls ty]; simpl; try exact I.
      * destruct (clookup e v) as [[pv|kv]|] eqn:L; try exact I. constructor; auto. eapply ne_lookup; eauto.
      * simpl in HT, HO. destruct (is_codata ps ty).
        -- constructor; auto. constructor; auto. constructor; auto.
        -- constructor; auto. constructor; auto.
      * apply start_n; auto. constructor; auto.
      * constructor; auto. constructor; auto.
  - destruct HM; simpl.
    + destruct rest as [|a r].
      * apply finish_n; auto. apply nvs_rev_append; [assumption | constructor; [assumption | constructor]].
      * simpl in H0. apply andb_true_iff in H0. destruct H0. constructor; auto. constructor; auto. constructor; auto.
    + destruct (as_int v); [|exact I]. constructor; auto. { apply sg_arg_prd; auto. } constructor; auto.
    + destruct (as_int v); [|exact I]. destruct (eval_op (ax_binop o) x z); [|exact I]. constructor; auto. constructor.
    + destruct (as_int v); [|exact I]. destruct b as [b0|].
      * apply andb_true_iff in H. destruct H. constructor; auto. { apply sg_arg_prd; auto. } constructor; auto.
      * constructor; auto. destruct (eval_cmp (ax_ifsort so) z 0); auto.
    + destruct (as_int v); [|exact I]. constructor; auto. destruct (eval_cmp (ax_ifsort so) x z); auto.
    + destruct (as_int v); [|exact I]. constructor; auto.
    + destruct (as_int v); exact I.
    + destruct v as [pv|kv]; [|exact I]. destruct (khead k e) as [kv|why] eqn:KH; [|exact I].
      apply interact_val_n; auto. eapply khead_n; eauto.
    + destruct v as [pv|kv]; [exact I|]. apply cut_with_k_n; auto.
Qed.

(* ---------- no clash in an invariant configuration ---------- *)
Lemma nv_no_clash : forall pv kv, nv (BP pv) -> nv (BK kv) -> clash_val pv kv = false.
Proof.
  intros pv kv HP HK. unfold clash_val. destruct kv; simpl; try reflexivity.
  inversion HK. destruct pv; simpl; try reflexivity; inversion HP;
    (pose proof Hflags as HF; match goal with A : bn = true, B : kr = true |- _ => rewrite A, B in HF end; discriminate).
Qed.
Lemma cut_no_clash : forall cd p e kv,
  cut_ok bn cd p = true -> ne e -> nv (BK kv) -> clash_cut cd p e kv = false.
Proof.
  intros cd p e kv HC HE HK. destruct p; simpl; try reflexivity.
  - destruct (clookup e v) as [[pv|kv0]|] eqn:L; try reflexivity. apply nv_no_clash; auto. eapply ne_lookup; eauto.
  - simpl in HC. destruct cd; [|reflexivity]. destruct kv; simpl; try reflexivity.
    inversion HK. pose proof Hflags as HF. match goal with B : kr = true |- _ => rewrite HC, B in HF end. discriminate.
Qed.

Theorem nc_no_clash : forall c, nc c -> clash_config ps c = false.
Proof.
  intros c H. destruct H as [s e HS HE|a e m HA HE HM|m v HM HV]; simpl; try reflexivity.
  - destruct s as [p ty k| | | |]; try reflexivity. simpl in HS.
    apply andb_true_iff in HS. destruct HS as [HS HC]. apply andb_true_iff in HS. destruct HS as [HP HK].
    assert (G : match khead k e with inl kv => clash_cut (is_codata ps ty) p e kv | inr _ => false end = false).
    { destruct (khead k e) as [kv|] eqn:KH; [|reflexivity]. apply cut_no_clash; auto. eapply khead_n; eauto. }
    destruct p; try reflexivity; destruct k; try reflexivity; exact G.
  - destruct HM; try reflexivity.
    + destruct v as [pv|kv]; [|reflexivity]. destruct (khead k e) as [kv|] eqn:KH; [|reflexivity].
      apply nv_no_clash; auto. eapply khead_n; eauto.
    + destruct v as [pv|kv]; [reflexivity|]. apply cut_no_clash; auto.
Qed.

Theorem nc_clash_free : forall fuel c, nc c -> clash_free ps fuel c = true.
Proof.
  induction fuel as [|f IH]; intros c H; simpl; [reflexivity|].
  rewrite (nc_no_clash c H). simpl. pose proof (nc_step c H) as S.
  destruct (cstep ps c); simpl in S; auto.
Qed.

Lemma nvs_ints : forall zs : list Z, nvs (map (fun z => BP (PInt z)) zs).
Proof. induction zs; simpl; constructor; auto. constructor. Qed.

Theorem sg_clash_free_prog : forall fuel args, clash_free_prog fuel ps args = true.
Proof.
  intros fuel args. unfold clash_free_prog.
  destruct (cpdefs ps) as [|d ds] eqn:DP; [reflexivity|].
  destruct (centry_env d args) as [e|] eqn:CE; [|reflexivity].
  apply nc_clash_free. constructor.
  - unfold sg_prog in Hprog. rewrite DP in Hprog. simpl in Hprog. apply andb_true_iff in Hprog. tauto.
  - unfold centry_env in CE. destruct (forallb _ (cdctx d)); [|discriminate].
    eapply ne_cbind; eauto; [apply nvs_ints | constructor].
Qed.
End Inv.
