(* ======================================================================================
   Proof/Fun2CoreTyTotal  -  no internal failure of fun2core on guarded programs (C12):
     prog_tyguard p = true -> exists c, compile_prog p = Ok c.
   The failures of the model are `.expect("Types should be annotated ..")` - the guard [tg] demands every
   annotation the translation reads - and, since the repair d5d4151, the (unbounded recursion of the Rust code
   in the) case that the fresh covariable that names a continuation is itself captured by the binder: impossible,
   because the state of the translation of a definition records all its binders ([tot] carries the invariant
   B <= used variables, B the binders of the definition body).
   ====================================================================================== *)
From Coq Require Import List ZArith NArith String Bool Lia.
From SCC Require Import Base.Sexp Lang.SynUtil Lang.FunSyn Lang.FunTy Lang.CoreSyn.
From SCC Require Import Sem.AxSem Sem.FunSem Sem.FsCheck Sem.CoreCheck Model.Fun2Core Model.Fun2CoreGuard Model.Fun2CoreTyGuard.
From SCC Require Import Proof.Fun2CoreProof Proof.Fun2CoreInv Proof.Fun2CoreProg Proof.CoreTyRules Proof.Fun2CoreTyBase Proof.Fun2CoreTyScope Proof.Fun2CoreTyEntry.
Import ListNotations.
Open Scope string_scope.
Open Scope list_scope.

Arguments var_ok : simpl never.

Section Tot.
Variable B : list string.      (* names that are in use in every state considered: the binders of the definition *)
Definition tot {X} (m : M X) : Prop :=
  forall st, incl B (st_used_vars st) -> exists x st', m st = Ok (x, st') /\ incl B (st_used_vars st').

Lemma tot_ret : forall X (x : X), tot (mret x).
Proof. intros X x st H. exists x, st. split; [reflexivity | exact H]. Qed.
Lemma tot_bind : forall X Y (m : M X) (f : X -> M Y), tot m -> (forall x, tot (f x)) -> tot (mbind m f).
Proof.
  intros X Y m f Hm Hf st H. destruct (Hm st H) as [x [st1 [E H1]]]. destruct (Hf x st1 H1) as [y [st2 [E2 H2]]].
  exists y, st2. unfold mbind. rewrite E. split; [exact E2 | exact H2].
Qed.
Lemma tot_lift : forall X (x : X), tot (mlift (Ok x)).
Proof. intros X x st H. exists x, st. split; [reflexivity | exact H]. Qed.
Lemma tot_fresh_in_vars : forall base, tot (fresh_in_vars base).
Proof.
  intros base st H. destruct (fresh_in_vars base st) as [[x st']|e] eqn:E.
  - exists x, st'. split; [reflexivity|]. destruct (fresh_in_vars_inv _ _ _ _ E) as [_ [Hu _]]. rewrite Hu. apply incl_tl. exact H.
  - exfalso. unfold fresh_in_vars in E. destruct (fresh_name (st_used_vars st) base). discriminate E.
Qed.
Lemma tot_fresh_label : forall base, tot (fresh_label base).
Proof.
  intros base st H. unfold fresh_label. destruct (fresh_name (st_used_labels st) base) as [nm used'].
  eexists _, _. split; [reflexivity | exact H].
Qed.
Lemma tot_push : forall d, tot (push_lifted d).
Proof. intros d st H. unfold push_lifted. eexists _, _. split; [reflexivity | exact H]. Qed.
Lemma tot_share : forall cur cont, tot (share cur cont).
Proof.
  intros cur cont. unfold share. apply tot_bind.
  - destruct cont; try (apply tot_bind; [apply tot_fresh_in_vars | intros; apply tot_ret]). apply tot_ret.
  - intros [[var ty] body]. apply tot_bind; [apply tot_fresh_label|]. intros name.
    apply tot_bind; [apply tot_push|]. intros _. apply tot_ret.
Qed.
Lemma tot_default : forall (w : cterm -> M cstmt) ty, (forall cont, tot (w cont)) -> tot (default_compile w ty).
Proof.
  intros w ty H. unfold default_compile. apply tot_bind; [apply tot_fresh_in_vars|]. intros a.
  apply tot_bind; [apply H|]. intros s. apply tot_ret.
Qed.
(* the repaired placement of a continuation under binders: the fresh covariable is not one of the binders *)
Lemma tot_guard : forall binders (w : cterm -> M cstmt) lty cont,
  (forall c, tot (w c)) -> (binders <> [] -> exists ty0, lty = Some ty0) -> incl binders B ->
  tot (guard_capture false binders w lty cont).
Proof.
  intros binders w lty cont Hw Hty Hb. unfold guard_capture. destruct (captures binders cont) eqn:Ecap; [|apply Hw].
  destruct Hty as [ty0 ->]; [intros ->; discriminate Ecap|].
  simpl. apply tot_bind; [apply tot_lift|]. intros ty. intros st Hst.
  destruct (tot_fresh_in_vars "a" st Hst) as [a [sta [Ea Hsta]]].
  destruct (fresh_in_vars_inv _ _ _ _ Ea) as [Hfresh _].
  assert (Hc : captures binders (CXVar CCns (new_id a) (compile_ty ty)) = false).
  { unfold captures. simpl.
    match goal with |- ?e = false => destruct e eqn:E; [|reflexivity] end. exfalso.
    apply existsb_exists in E. destruct E as [v [Hv E]]. rewrite orb_false_r in E. apply String.eqb_eq in E. subst v.
    apply Hfresh. apply Hst. apply Hb. exact Hv. }
  destruct (Hw (CXVar CCns (new_id a) (compile_ty ty)) sta Hsta) as [s0 [st' [Es Hst']]].
  eexists _, st'. split; [|exact Hst'].
  unfold mbind. unfold fresh_covar. rewrite Ea. rewrite Hc. rewrite Es. reflexivity.
Qed.
End Tot.

Section Total.
  Variable p : fcprog.
  Variables data codata : list ctydecl.
  Variable cdt : list ctydecl.      (* CompileState.codata_types *)
  Variable cur : string.
  Variable B : list string.
  Notation tot := (tot B).
  Notation tg := (tg p data codata).
  Notation tg_args := (tg_args p data codata).
  Notation tg_clauses := (tg_clauses p data codata).
  Notation tg_coclauses := (tg_coclauses p data codata).
  Notation wc' := (wc cdt cur false).
  Notation cmp' := (cmp cdt cur false).

  Definition TW (t : fterm) : Prop := forall G cont, tg G t = true -> tot (wc' t cont).
  Definition TC (t : fterm) : Prop := forall G ty, tg G t = true -> tot (cmp' t ty).

  Lemma has_ty_some : forall t ty, has_ty t ty = true -> exists ty0, fterm_type t = Some ty0.
  Proof. intros t ty H. unfold has_ty, tyo in H. destruct (fterm_type t) as [ty0|]; [eauto | discriminate]. Qed.

  Lemma tot_args : forall args, Forall TC args -> forall G sig, tg_args G args sig = true ->
    tot (subst_with (fun y => cmp' y) args).
  Proof.
    intros args H G. induction H as [|y r Hy Hr IH]; intros sig Hg; simpl; [apply tot_ret|].
    destruct sig as [|b sr]; [discriminate|]. rewrite tg_args_cons in Hg. apply andb_prop in Hg. destruct Hg as [Hg1 Hg2].
    apply tot_bind; [|intros a; apply tot_bind; [eapply IH; exact Hg2 | intros; apply tot_ret]].
    unfold Fun2CoreTyGuard.tg_arg in Hg1. unfold compile_arg. destruct (cbchi b).
    - apply andb_prop in Hg1. destruct Hg1 as [Hg1 _]. apply andb_prop in Hg1. destruct Hg1 as [Hg1 Hh].
      apply andb_prop in Hg1. destruct Hg1 as [Hnc Hgy]. destruct (has_ty_some _ _ Hh) as [ty0 Ety].
      assert (Hgen : tot (dom ty <- mlift (expect_ty (fterm_type y)); dom p0 <- cmp' y (compile_ty ty); mret (CProducer p0))).
      { rewrite Ety. simpl. apply tot_bind; [apply tot_lift|]. intros ty. apply tot_bind; [eapply Hy; exact Hgy | intros; apply tot_ret]. }
      destruct y; try exact Hgen. destruct chi as [[|]|]; try exact Hgen. discriminate.
    - destruct y; try discriminate. destruct chi as [[|]|]; try discriminate.
      apply andb_prop in Hg1. destruct Hg1 as [Hg1 _]. apply andb_prop in Hg1. destruct Hg1 as [Hv _].
      apply var_ok_look in Hv. destruct Hv as [ty0 [-> _]]. simpl.
      apply tot_bind; [apply tot_lift | intros; apply tot_ret].
  Qed.
  Lemma tot_clauses : forall cls, Forall (fun c => TW (clause_body c)) cls -> forall G ty xs cont,
    tg_clauses G ty cls xs = true -> tot (clauses_with (fun b => wc' b) cont cls).
  Proof.
    intros cls H G ty. induction H as [|c r Hc Hr IH]; intros xs cont Hg; simpl; [apply tot_ret|].
    destruct xs as [|sg xr]; [discriminate|]. rewrite tg_clauses_cons in Hg. apply andb_prop in Hg. destruct Hg as [Hg1 Hg2].
    destruct c as [pl x names ctx body]. unfold Fun2CoreTyGuard.tg_clause in Hg1.
    apply andb_prop in Hg1. destruct Hg1 as [Hg1 _]. apply andb_prop in Hg1. destruct Hg1 as [_ Hgb].
    apply tot_bind; [|intros a; apply tot_bind; [eapply IH; exact Hg2 | intros; apply tot_ret]].
    unfold compile_clause. apply tot_bind; [eapply Hc; exact Hgb | intros; apply tot_ret].
  Qed.
  Lemma tot_coclauses : forall cls, Forall (fun c => TW (clause_body c)) cls -> forall G xs,
    tg_coclauses G cls xs = true -> tot (coclauses_with (fun b => wc' b) cls).
  Proof.
    intros cls H G. induction H as [|c r Hc Hr IH]; intros xs Hg; simpl; [apply tot_ret|].
    destruct xs as [|sg xr]; [discriminate|]. rewrite tg_coclauses_cons in Hg. apply andb_prop in Hg. destruct Hg as [Hg1 Hg2].
    destruct c as [pl x names ctx body]. unfold Fun2CoreTyGuard.tg_coclause in Hg1.
    apply andb_prop in Hg1. destruct Hg1 as [Hg1 Hgb]. apply andb_prop in Hg1. destruct Hg1 as [Hg1 _].
    apply andb_prop in Hg1. destruct Hg1 as [_ Hsig].
    destruct (split_last (cxargs sg)) as [[pre last]|]; [|discriminate].
    apply andb_prop in Hsig. destruct Hsig as [Hsig _]. apply andb_prop in Hsig. destruct Hsig as [_ Hh].
    destruct (has_ty_some _ _ Hh) as [ty0 Ety].
    apply tot_bind; [|intros a; apply tot_bind; [eapply IH; exact Hg2 | intros; apply tot_ret]].
    unfold compile_coclause. rewrite Ety. simpl. apply tot_bind; [apply tot_lift|]. intros ty.
    apply tot_bind; [apply tot_fresh_in_vars|]. intros a. apply tot_bind; [eapply Hc; exact Hgb | intros; apply tot_ret].
  Qed.

  Lemma tot_op : forall a o b G, TC a -> TC b -> tg G (FOp a o b) = true -> tot (cmp_op (cmp' a CI64) o (cmp' b CI64)).
  Proof.
    intros a o b G Ha Hb Hg. rewrite tg_op in Hg. apply andb_prop in Hg. destruct Hg as [Hg _]. apply andb_prop in Hg. destruct Hg as [Hg _].
    apply andb_prop in Hg. destruct Hg as [H1 H2]. unfold cmp_op.
    apply tot_bind; [eapply Ha; exact H1|]. intros a'. apply tot_bind; [eapply Hb; exact H2 | intros; apply tot_ret].
  Qed.

  Ltac sb Hb := let z := fresh "z" in let Hz := fresh "Hz" in
    intros z Hz; apply Hb; simpl; rewrite ?in_app_iff; tauto.
  Ltac sb_args Hb H :=
    let H' := fresh in
    match type of H with Forall _ ?l => assert (H' : Forall (fun a => TW a /\ TC a) l) end;
    [apply Forall_forall; intros a0 Ha0; apply (proj1 (Forall_forall _ _) H a0 Ha0);
     intros z0 Hz0; apply Hb; simpl; rewrite ?in_app_iff; try right; apply in_flat_map; exists a0; split; assumption
    | clear H; rename H' into H].
  Ltac sb_cls Hb H :=
    let H' := fresh in
    match type of H with Forall _ ?l => assert (H' : Forall (fun c => TW (clause_body c) /\ TC (clause_body c)) l) end;
    [apply Forall_forall; intros a0 Ha0; apply (proj1 (Forall_forall _ _) H a0 Ha0);
     intros z0 Hz0; apply Hb; simpl; rewrite ?in_app_iff; try right; apply in_flat_map; exists a0; split; [exact Ha0|];
     destruct a0; simpl in *; apply in_or_app; right; exact Hz0
    | clear H; rename H' into H].

  Theorem total_all : forall t, incl (bnd t) B -> TW t /\ TC t.
  Proof.
    induction t using fterm_ind'; intros Hb.
    - (* var *)
      assert (Hty : forall G, tg G (FVar v ty chi) = true -> exists ty0, ty = Some ty0).
      { intros G Hg. rewrite tg_var in Hg. pose proof Hg as Hv. apply var_ok_look in Hv.
        destruct Hv as [ty0 [-> _]]. eauto. }
      split.
      + intros G cont Hg. rewrite wc_unfold. destruct (Hty G Hg) as [ty0 ->]. unfold wc_var. simpl.
        apply tot_bind; [apply tot_lift | intros; apply tot_ret].
      + intros G ty0 Hg. rewrite cmp_unfold. destruct (Hty G Hg) as [ty1 ->]. unfold cmp_var. simpl.
        apply tot_bind; [apply tot_lift | intros; apply tot_ret].
    - split; [intros G cont _; rewrite wc_unfold; apply tot_ret | intros G ty _; rewrite cmp_unfold; apply tot_ret].
    - (* op *)
      specialize (IHt1 ltac:(sb Hb)). specialize (IHt2 ltac:(sb Hb)).
      destruct IHt1 as [_ C1], IHt2 as [_ C2]. split.
      + intros G cont Hg. rewrite wc_unfold. unfold wc_op. apply tot_bind; [eapply tot_op; eauto | intros; apply tot_ret].
      + intros G ty Hg. rewrite cmp_unfold. eapply tot_op; eauto.
    - (* ifc *)
      specialize (IHt1 ltac:(sb Hb)). specialize (IHt2 ltac:(sb Hb)). specialize (IHt3 ltac:(sb Hb)).
      assert (H' : opt_P (fun t => TW t /\ TC t) b) by (destruct b as [b'|]; [apply H; sb Hb | exact I]). clear H. rename H' into H.
      destruct IHt1 as [_ C1], IHt2 as [W2 _], IHt3 as [W3 _].
      assert (HW : TW (FIfC s t1 b t2 t3 ty)).
      { intros G cont Hg. rewrite wc_unfold. rewrite tg_ifc in Hg.
        apply andb_prop in Hg. destruct Hg as [Hg _]. apply andb_prop in Hg. destruct Hg as [Hg _].
        apply andb_prop in Hg. destruct Hg as [Hg Hg3].
        apply andb_prop in Hg. destruct Hg as [Hg Hg2]. apply andb_prop in Hg. destruct Hg as [Hg Hgb].
        apply andb_prop in Hg. destruct Hg as [Hg1 _].
        unfold wc_ifc. apply tot_bind; [destruct (cont_is_small cont); [apply tot_ret | apply tot_share]|]. intros cont1.
        apply tot_bind; [eapply C1; exact Hg1|]. intros a.
        apply tot_bind.
        { destruct b as [b'|]; [|apply tot_ret]. apply andb_prop in Hgb. destruct Hgb as [Hgb _]. simpl in H. destruct H as [_ Cb].
          apply tot_bind; [eapply Cb; exact Hgb | intros; apply tot_ret]. }
        intros b0. apply tot_bind; [eapply W2; exact Hg2|]. intros t. apply tot_bind; [eapply W3; exact Hg3 | intros; apply tot_ret]. }
      split; [exact HW|]. intros G ty0 Hg. rewrite cmp_unfold. apply tot_default. intros cont.
      specialize (HW G cont Hg). rewrite wc_unfold in HW. exact HW.
    - (* print *)
      specialize (IHt1 ltac:(sb Hb)). specialize (IHt2 ltac:(sb Hb)).
      destruct IHt1 as [_ C1], IHt2 as [W2 _].
      assert (HW : TW (FPrint nl t1 t2 ty)).
      { intros G cont Hg. rewrite wc_unfold. rewrite tg_print in Hg. apply andb_prop in Hg. destruct Hg as [Hg _].
        apply andb_prop in Hg. destruct Hg as [Hg Hg2]. apply andb_prop in Hg. destruct Hg as [Hg1 _].
        unfold wc_print. apply tot_bind; [eapply C1; exact Hg1|]. intros a. apply tot_bind; [eapply W2; exact Hg2 | intros; apply tot_ret]. }
      split; [exact HW|]. intros G ty0 Hg. rewrite cmp_unfold. apply tot_default. intros cont.
      specialize (HW G cont Hg). rewrite wc_unfold in HW. exact HW.
    - (* let *)
      specialize (IHt1 ltac:(sb Hb)). specialize (IHt2 ltac:(sb Hb)).
      destruct IHt1 as [W1 C1], IHt2 as [W2 _].
      assert (HW : TW (FLet v vty t1 t2 ty)).
      { intros G cont Hg. rewrite wc_unfold. rewrite tg_let in Hg. apply andb_prop in Hg. destruct Hg as [Hg Hsame].
        apply andb_prop in Hg. destruct Hg as [Hg Hg2]. apply andb_prop in Hg. destruct Hg as [Hg _]. apply andb_prop in Hg. destruct Hg as [Hg1 _].
        apply tot_guard.
        - intros c. unfold wc_let. apply tot_bind; [eapply W2; exact Hg2|]. intros body.
          destruct (ty_is_codata cdt (compile_ty vty)); [|eapply W1; exact Hg1].
          apply tot_bind; [eapply C1; exact Hg1 | intros; apply tot_ret].
        - intros _. unfold same_ty in Hsame. destruct ty as [ty0|]; [eauto | discriminate].
        - intros z [<-|[]]. apply Hb. simpl. left. reflexivity. }
      split; [exact HW|]. intros G ty0 Hg. rewrite cmp_unfold. apply tot_default. intros cont.
      specialize (HW G cont Hg). rewrite wc_unfold in HW. exact HW.
    - (* call *)
      sb_args Hb H.
      assert (HA : Forall TC args) by (eapply Forall_impl; [|exact H]; intros a [_ Ca]; exact Ca).
      assert (HW : TW (FCall f args ret)).
      { intros G cont Hg. rewrite wc_unfold. rewrite tg_call in Hg. apply andb_prop in Hg. destruct Hg as [_ Hg].
        destruct (ffind_def p f) as [d|]; [|discriminate]. destruct ret as [r|]; [|discriminate].
        apply andb_prop in Hg. destruct Hg as [Hg _]. apply andb_prop in Hg. destruct Hg as [Hg _].
        unfold wc_call. apply tot_bind; [eapply tot_args; eauto|]. intros a. simpl.
        apply tot_bind; [apply tot_lift | intros; apply tot_ret]. }
      split; [exact HW|]. intros G ty0 Hg. rewrite cmp_unfold. apply tot_default. intros cont.
      specialize (HW G cont Hg). rewrite wc_unfold in HW. exact HW.
    - (* ctor *)
      sb_args Hb H.
      assert (HA : Forall TC args) by (eapply Forall_impl; [|exact H]; intros a [_ Ca]; exact Ca).
      assert (HC : TC (FCtor x args ty)).
      { intros G ty0 Hg. rewrite cmp_unfold. rewrite tg_ctor in Hg. unfold tyo in Hg. simpl in Hg. destruct ty as [ty1|]; [|discriminate].
        simpl in Hg. destruct (compile_ty ty1) as [|n]; [discriminate|].
        destruct (find_decl data n) as [d|]; [|discriminate]. destruct (find_cxtor d (new_id x)) as [sg|]; [|discriminate].
        unfold cmp_ctor. apply tot_bind; [eapply tot_args; eauto|]. intros a. simpl.
        apply tot_bind; [apply tot_lift | intros; apply tot_ret]. }
      split; [|exact HC]. intros G cont Hg. rewrite wc_unfold. unfold wc_ctor.
      assert (Hs : exists ty1, ty = Some ty1).
      { rewrite tg_ctor in Hg. unfold tyo in Hg. simpl in Hg. destruct ty as [ty1|]; [eauto | discriminate]. }
      destruct Hs as [ty1 ->]. simpl. apply tot_bind; [apply tot_lift|]. intros ty'.
      apply tot_bind; [|intros; apply tot_ret]. specialize (HC G CI64 Hg). rewrite cmp_unfold in HC. exact HC.
    - (* dtor *)
      specialize (IHt ltac:(sb Hb)). sb_args Hb H.
      destruct IHt as [Ws _].
      assert (HA : Forall TC args) by (eapply Forall_impl; [|exact H]; intros a [_ Ca]; exact Ca).
      assert (HW : TW (FDtor t x targs args ty)).
      { intros G cont Hg. rewrite wc_unfold. rewrite tg_dtor in Hg. apply andb_prop in Hg. destruct Hg as [Hgs Hg].
        unfold tyo in Hg. destruct (fterm_type t) as [sty|] eqn:Est; [|discriminate]. simpl in Hg.
        destruct (compile_ty sty) as [|n]; [discriminate|].
        destruct (find_decl codata n) as [d|]; [|discriminate]. destruct (find_cxtor d (new_id x)) as [sg|]; [|discriminate].
        destruct (split_last (cxargs sg)) as [[pre last]|]; [|discriminate].
        apply andb_prop in Hg. destruct Hg as [Hg _]. apply andb_prop in Hg. destruct Hg as [Hg _].
        unfold wc_dtor. apply tot_bind; [eapply tot_args; eauto|]. intros a. simpl.
        apply tot_bind; [apply tot_lift|]. intros sty0. eapply Ws; exact Hgs. }
      split; [exact HW|]. intros G ty0 Hg. rewrite cmp_unfold. apply tot_default. intros cont.
      specialize (HW G cont Hg). rewrite wc_unfold in HW. exact HW.
    - (* case *)
      specialize (IHt ltac:(sb Hb)). sb_cls Hb H.
      destruct IHt as [Ws _].
      assert (HB : Forall (fun c => TW (clause_body c)) cls) by (eapply Forall_impl; [|exact H]; intros a [Wa _]; exact Wa).
      assert (HW : TW (FCase t targs cls ty)).
      { intros G cont Hg. rewrite wc_unfold. rewrite tg_case in Hg. apply andb_prop in Hg. destruct Hg as [Hgs Hg].
        unfold tyo in Hg. destruct (fterm_type t) as [sty|] eqn:Est; [|discriminate]. simpl in Hg.
        destruct (compile_ty sty) as [|n]; [discriminate|]. destruct (find_decl data n) as [d|]; [|discriminate].
        apply tot_guard.
        - intros c. unfold wc_case. apply tot_bind; [destruct (Nat.leb (List.length cls) 1 || cont_is_small c); [apply tot_ret | apply tot_share]|].
          intros cont1. apply tot_bind; [eapply tot_clauses; eauto|]. intros cls'. simpl.
          apply tot_bind; [apply tot_lift|]. intros sty0. eapply Ws; exact Hgs.
        - intros Hne. destruct cls as [|[pl x names ctx body] r]; [contradiction Hne; reflexivity|].
          destruct (ctxtors d) as [|sg xr]; [discriminate|]. rewrite tg_clauses_cons in Hg. apply andb_prop in Hg. destruct Hg as [Hg1 _].
          unfold Fun2CoreTyGuard.tg_clause in Hg1. apply andb_prop in Hg1. destruct Hg1 as [_ Hsame].
          unfold same_ty in Hsame. destruct ty as [ty0|]; [eauto | discriminate].
        - intros z Hz. apply Hb. simpl. apply in_or_app. right. apply in_flat_map in Hz. destruct Hz as [[pl x names ctx body] [Hc Hz]].
          apply in_flat_map. exists (FClause pl x names ctx body). split; [exact Hc | apply in_or_app; left; exact Hz]. }
      split; [exact HW|]. intros G ty0 Hg. rewrite cmp_unfold. apply tot_default. intros cont.
      specialize (HW G cont Hg). rewrite wc_unfold in HW. exact HW.
    - (* new *)
      sb_cls Hb H.
      assert (HB : Forall (fun c => TW (clause_body c)) cls) by (eapply Forall_impl; [|exact H]; intros a [Wa _]; exact Wa).
      assert (HC : TC (FNew cls ty)).
      { intros G ty0 Hg. rewrite cmp_unfold. rewrite tg_new in Hg. unfold tyo in Hg. simpl in Hg. destruct ty as [ty1|]; [|discriminate].
        simpl in Hg. destruct (compile_ty ty1) as [|n]; [discriminate|]. destruct (find_decl codata n) as [d|]; [|discriminate].
        unfold cmp_new. apply tot_bind; [eapply tot_coclauses; eauto|]. intros a. simpl.
        apply tot_bind; [apply tot_lift | intros; apply tot_ret]. }
      split; [|exact HC]. intros G cont Hg. rewrite wc_unfold. unfold wc_new.
      assert (Hs : exists ty1, ty = Some ty1).
      { rewrite tg_new in Hg. unfold tyo in Hg. simpl in Hg. destruct ty as [ty1|]; [eauto | discriminate]. }
      destruct Hs as [ty1 ->]. simpl. apply tot_bind; [apply tot_lift|]. intros ty'.
      apply tot_bind; [|intros; apply tot_ret]. specialize (HC G CI64 Hg). rewrite cmp_unfold in HC. exact HC.
    - (* label *)
      specialize (IHt ltac:(sb Hb)).
      destruct IHt as [W _].
      assert (HC : TC (FLabel l t ty)).
      { intros G ty0 Hg. rewrite cmp_unfold. rewrite tg_label in Hg. destruct ty as [ty1|]; [|discriminate].
        apply andb_prop in Hg. destruct Hg as [Hg _]. apply andb_prop in Hg. destruct Hg as [_ Hg].
        unfold cmp_label. simpl. apply tot_bind; [apply tot_lift|]. intros ty'.
        apply tot_bind; [eapply W; exact Hg | intros; apply tot_ret]. }
      split; [|exact HC]. intros G cont Hg. rewrite wc_unfold. unfold wc_label.
      assert (Hs : exists ty1, ty = Some ty1) by (rewrite tg_label in Hg; destruct ty as [ty1|]; [eauto | discriminate]).
      destruct Hs as [ty1 ->]. simpl. apply tot_bind; [apply tot_lift|]. intros ty'.
      apply tot_bind; [|intros; apply tot_ret]. specialize (HC G CI64 Hg). rewrite cmp_unfold in HC. exact HC.
    - (* goto *)
      specialize (IHt ltac:(sb Hb)).
      destruct IHt as [W _].
      assert (HW : forall G, tg G (FGoto l t ty) = true -> tot (wc_goto false l (wc' t) ty (fterm_type t))).
      { intros G Hg. rewrite tg_goto in Hg. apply andb_prop in Hg. destruct Hg as [Hg Hgt]. apply andb_prop in Hg. destruct Hg as [Hv _].
        apply var_ok_look in Hv. destruct Hv as [ty0 [Et _]]. unfold wc_goto. rewrite Et. simpl.
        apply tot_bind; [apply tot_lift|]. intros ty'. eapply W; exact Hgt. }
      split.
      + intros G cont Hg. rewrite wc_unfold. eapply HW; exact Hg.
      + intros G ty0 Hg. rewrite cmp_unfold. apply tot_default. intros cont. eapply HW; exact Hg.
    - (* exit *)
      specialize (IHt ltac:(sb Hb)).
      destruct IHt as [_ Ca].
      assert (HW : forall G, tg G (FExit t ty) = true -> tot (wc_exit (cmp' t CI64) ty)).
      { intros G Hg. rewrite tg_exit in Hg. apply andb_prop in Hg. destruct Hg as [Hg Han]. apply andb_prop in Hg. destruct Hg as [Hga _].
        destruct ty as [ty1|]; [|discriminate]. unfold wc_exit. apply tot_bind; [eapply Ca; exact Hga|]. intros a. simpl.
        apply tot_bind; [apply tot_lift | intros; apply tot_ret]. }
      split.
      + intros G cont Hg. rewrite wc_unfold. eapply HW; exact Hg.
      + intros G ty0 Hg. rewrite cmp_unfold. apply tot_default. intros cont. eapply HW; exact Hg.
    - (* paren *)
      specialize (IHt ltac:(sb Hb)).
      destruct IHt as [W Ca]. split.
      + intros G cont Hg. rewrite wc_unfold. eapply W. rewrite tg_paren in Hg. exact Hg.
      + intros G ty0 Hg. rewrite cmp_unfold. eapply Ca. rewrite tg_paren in Hg. exact Hg.
  Qed.
End Total.

(* ---------- definitions and programs ---------- *)
Lemma compile_main_total : forall p d ul bty,
  tg p (cdata_of p) (ccodata_of p) (compile_ctx (fdctx d)) (fdbody d) = true -> fterm_type (fdbody d) = Some bty ->
  exists g ul', compile_main false d (ccodata_of p) ul = Ok (g, ul').
Proof.
  intros p d ul bty Htg Ebty.
  set (B := bnd (fdbody d)).
  assert (HB : incl B (used_binders (fdbody d) (fvars (fdctx d)))).
  { intros x Hx. eapply (tg_bnd_used p (cdata_of p) (ccodata_of p)); eassumption. }
  unfold compile_main, run_def_body. rewrite Ebty.
  match goal with |- context [mbind ?m ?f ?st] => destruct (tot_bind B _ _ m f (tot_fresh_in_vars B "x")
     (fun x => proj1 (total_all p (cdata_of p) (ccodata_of p) (ccodata_of p) (fdname d) B (fdbody d) (incl_refl _)) _ _ Htg) st HB) as [body [st' [E _]]] end.
  rewrite E. simpl. eauto.
Qed.
Lemma compile_def_total : forall p d ul bty,
  tg p (cdata_of p) (ccodata_of p) (compile_ctx (fdctx d)) (fdbody d) = true -> fterm_type (fdbody d) = Some bty ->
  exists g ul', compile_def false d (ccodata_of p) ul = Ok (g, ul').
Proof.
  intros p d ul bty Htg Ebty.
  set (B := bnd (fdbody d)).
  assert (HB : incl B (used_binders (fdbody d) (fvars (fdctx d)))).
  { intros x Hx. eapply (tg_bnd_used p (cdata_of p) (ccodata_of p)); eassumption. }
  unfold compile_def, run_def_body. rewrite Ebty.
  match goal with |- context [mbind ?m ?f ?st] =>
    assert (Ht : tot B (mbind m f)) end.
  { apply tot_bind; [apply tot_fresh_in_vars|]. intros a. apply tot_bind; [|intros; apply tot_ret].
    eapply (proj1 (total_all p (cdata_of p) (ccodata_of p) (ccodata_of p) (fdname d) B (fdbody d) (incl_refl _))). exact Htg. }
  match goal with |- context [mbind ?m ?f ?st] => destruct (Ht st HB) as [[a body] [st' [E _]]] end.
  rewrite E. simpl. eauto.
Qed.

(* the definitions that come first (fix f929eb7): when main is called, the entry point and main compiled by compile_def *)
Lemma compile_main_group_total : forall p d ul,
  def_tyguard p (cdata_of p) (ccodata_of p) d = true -> fdname d = "main" -> ffind_def p (fdname d) = Some d ->
  exists g ul', compile_main_group false (calls_main_prog p) d (ccodata_of p) ul = Ok (g, ul').
Proof.
  intros p d ul Hd Em Hfind. unfold def_tyguard in Hd. rewrite Em in Hd. cbn [String.eqb Ascii.eqb Bool.eqb] in Hd.
  apply andb_prop in Hd. destruct Hd as [Hd Hret]. apply andb_prop in Hret. destruct Hret as [Hret Hcalled].
  apply andb_prop in Hd. destruct Hd as [Hd Htg]. apply andb_prop in Hd. destruct Hd as [Hnd Hctd].
  assert (Hbty : exists bty, fterm_type (fdbody d) = Some bty).
  { unfold has_ty, tyo in Hret; destruct (fterm_type (fdbody d)) as [bty|]; eauto; discriminate. }
  destruct Hbty as [bty Ebty].
  unfold compile_main_group. rewrite andb_true_r. destruct (calls_main_prog p) eqn:Hcm.
  - cbn [negb orb] in Hcalled. apply ceq_ty in Hcalled.
    destruct (fresh_name ul "main") as [nm ul1].
    assert (Htge : tg p (cdata_of p) (ccodata_of p) (compile_ctx (fdctx (entry_fdef d nm))) (fdbody (entry_fdef d nm)) = true).
    { refine (entry_tg p _ _ d nm Hnd Hctd Hfind Em Hcm _). rewrite Hcalled. reflexivity. }
    destruct (compile_main_total p (entry_fdef d nm) ul1 (fdret d) Htge eq_refl) as [e [ule Ee]]. rewrite Ee. cbn [rbind snd fst].
    destruct (compile_def_total p d ule bty Htg Ebty) as [m [ulm Em']]. rewrite Em'. cbn [rbind]. eauto.
  - eapply compile_main_total; eassumption.
Qed.

Lemma compile_defs_total : forall p defs ul front back,
  (forall d, In d defs -> def_tyguard p (cdata_of p) (ccodata_of p) d = true) ->
  (forall d, In d defs -> ffind_def p (fdname d) = Some d) ->
  exists res, compile_defs false (calls_main_prog p) defs (ccodata_of p) ul front back = Ok res.
Proof.
  intros p. induction defs as [|d r IH]; intros ul front back Hg Hf; simpl; [eauto|].
  pose proof (Hg d (or_introl eq_refl)) as Hd.
  destruct (String.eqb (fdname d) "main") eqn:Em.
  - apply String.eqb_eq in Em.
    destruct (compile_main_group_total p d ul Hd Em (Hf d (or_introl eq_refl))) as [g [ul' E]]. rewrite E. simpl.
    apply IH; intros d0 Hd0; [apply Hg | apply Hf]; right; exact Hd0.
  - unfold def_tyguard in Hd. rewrite Em in Hd.
    apply andb_prop in Hd. destruct Hd as [Hd Hret].
    apply andb_prop in Hd. destruct Hd as [_ Htg].
    assert (Hbty : exists bty, fterm_type (fdbody d) = Some bty).
    { apply andb_prop in Hret; destruct Hret as [Hret _];
      unfold has_ty, tyo in Hret; destruct (fterm_type (fdbody d)) as [bty|]; eauto; discriminate. }
    destruct Hbty as [bty Ebty].
    destruct (compile_def_total p d ul bty Htg Ebty) as [g [ul' E]]. rewrite E. simpl.
    apply IH; intros d0 Hd0; [apply Hg | apply Hf]; right; exact Hd0.
Qed.

Theorem fun2core_total_guarded : forall p, prog_tyguard p = true -> exists c, compile_prog p = Ok c.
Proof.
  intros p Hg. unfold prog_tyguard in Hg. apply andb_prop in Hg. destruct Hg as [Hd Hg]. rewrite forallb_forall in Hg.
  assert (Hnd : NoDup (map fdname (fcpdefs p))).
  { unfold decls_tyguard in Hd. apply andb_prop in Hd. destruct Hd as [_ Hd]. apply nodup_str_nd0. exact Hd. }
  unfold compile_prog, compile_prog_gen. fold (ccodata_of p).
  destruct (compile_defs_total p (fcpdefs p) (map fdname (fcpdefs p)) [] [] Hg (fun d Hd0 => find_def_nodup p d Hnd Hd0)) as [res E].
  rewrite E. simpl. eauto.
Qed.
