(* C19, shrinking (focused Core -> AxCut): the total size of the output (the statement plus every
   definition lifted while producing it) is bounded by a quadratic polynomial in the weighted size
   of the input whose coefficients depend only on the type declarations:
       F w = w * (a + b * w),   a = 2 + X * (2 + A),  b = 2 * (1 + X)
   X = largest number of xtors of a declared type, A = largest xtor arity.
   Reason (the heart is [lift]): a critical pair at a declared type copies the EXPANDED side into
   every clause of the eta-expansion; a non-leaf expanded side is first replaced by a call whose size
   is 1 + the number of its free variables (<= 2 * its weighted size), and a leaf is a statement of
   size <= its own weight; the renamings performed on the way preserve the weight. *)
From Coq Require Import String List ZArith NArith Bool Lia.
From SCC Require Import Base.Sexp Lang.SynUtil Lang.CoreSyn Lang.AxSyn Lang.AxSize Lang.FsSize
     Model.Shrink Model.SizeDefs Proof.LinBasics Proof.ShrinkProof Proof.SizeLin.
Import ListNotations.
Open Scope list_scope.
Open Scope N_scope.
Local Arguments N.add : simpl never.
Local Arguments N.mul : simpl never.
Local Arguments N.of_nat : simpl never.
Local Arguments len : simpl never.

Ltac lens := repeat (progress (rewrite ?len_cons, ?len_app, ?len_map)); repeat match goal with |- context [@len ?X []] => change (@len X []) with 0 end.
Ltac lens_in H := repeat (progress (rewrite ?len_cons, ?len_app, ?len_map in H)); repeat match type of H with context [@len ?X []] => change (@len X []) with 0 in H end.

(* ---------- weights ---------- *)
Lemma fs_wterm_xcase : forall c cls t, fs_wterm (FsXCase c cls t) = 1 + fs_wclauses cls.
Proof. intros; simpl; f_equal; induction cls as [|y r IH]; simpl; auto; rewrite IH; auto. Qed.
Lemma fs_wstmt_pos : forall s, 1 <= fs_wstmt s.
Proof. destruct s; simpl; lia. Qed.
Lemma fs_wterm_pos : forall t, 1 <= fs_wterm t.
Proof. destruct t; simpl; lia. Qed.

Lemma fs_w_subst_all : forall sub,
  (forall t, fs_wterm (subst_term sub t) = fs_wterm t) /\
  (forall c, fs_wclause (subst_clause sub c) = fs_wclause c) /\
  (forall s, fs_wstmt (subst_stmt sub s) = fs_wstmt s).
Proof.
  intro sub. apply fs_mutind; intros; cbn [subst_term subst_clause subst_stmt fs_wterm fs_wclause fs_wstmt]; try reflexivity; try congruence.
  - unfold subst_ctx. rewrite len_map. reflexivity.
  - change (fs_wterm (FsXCase c ((fix go (l : list fsclause) : list fsclause :=
              match l with [] => [] | y :: r => subst_clause sub y :: go r end) cls) t) = fs_wterm (FsXCase c cls t)).
    rewrite !fs_wterm_xcase. f_equal.
    induction H as [|y r Hy Hr IH]; simpl; [reflexivity|]. rewrite Hy, IH. reflexivity.
  - unfold subst_ctx. rewrite len_map. reflexivity.
Qed.
Lemma fs_w_subst : forall sub s, fs_wstmt (subst_stmt sub s) = fs_wstmt s.
Proof. intros. apply (fs_w_subst_all sub). Qed.

(* ---------- the AxCut renaming preserves the size ---------- *)
Lemma ax_size_cls_subst : forall sub cls,
  Forall (fun c => ax_size (ax_subst sub (cl_body c)) = ax_size (cl_body c)) cls ->
  ax_size_cls (ax_subst_cls sub cls) = ax_size_cls cls.
Proof.
  induction cls as [|[[x cc] b] r IH]; intros HF; simpl; auto.
  inversion HF; subst. unfold cl_body in *; simpl in *. rewrite H1, IH; auto.
Qed.
Lemma ax_size_subst_ax : forall sub s, ax_size (ax_subst sub s) = ax_size s.
Proof.
  intros sub s; induction s using stmt_ind2.
  - simpl. rewrite IHs, len_map. auto.
  - simpl. unfold ax_subst_ctx. rewrite len_map. auto.
  - simpl. unfold ax_subst_ctx. rewrite IHs, len_map. auto.
  - rewrite ax_subst_switch, !ax_size_switch, ax_size_cls_subst; auto.
  - rewrite ax_subst_create, !ax_size_create, ax_size_cls_subst, IHs; auto.
    destruct env; simpl; unfold ax_subst_ctx; rewrite ?len_map; auto.
  - simpl. unfold ax_subst_ctx. rewrite len_map. auto.
  - simpl. rewrite IHs; auto.
  - simpl. rewrite IHs; auto.
  - simpl. rewrite IHs; auto.
  - simpl. rewrite IHs1, IHs2; auto.
  - reflexivity.
Qed.

(* ---------- number of free variables <= 2 * weight ---------- *)
Lemma bs_insert_len : forall b l, len (bs_insert b l) <= 1 + len l.
Proof.
  induction l as [|x r IH]; simpl; lens; [lia|].
  destruct (cbinding_compare b x); lens; lia.
Qed.
Lemma bs_remove_len : forall b l, len (bs_remove b l) <= len l.
Proof.
  induction l as [|x r IH]; simpl; lens; [lia|].
  destruct (cbinding_compare b x); lens; lia.
Qed.
Lemma bs_extend_len : forall bs l, len (bs_extend bs l) <= len bs + len l.
Proof.
  unfold bs_extend. induction bs as [|b r IH]; intros l; simpl; lens; [lia|].
  specialize (IH (bs_insert b l)). pose proof (bs_insert_len b l). lia.
Qed.
Lemma bs_remove_all_len : forall bs l, len (bs_remove_all bs l) <= len l.
Proof.
  unfold bs_remove_all. induction bs as [|b r IH]; intros l; simpl; [lia|].
  specialize (IH (bs_remove b l)). pose proof (bs_remove_len b l). lia.
Qed.
Lemma tfv_len_all :
  (forall t vars, len (tfv_term t vars) <= len vars + 2 * fs_wterm t) /\
  (forall c vars, len (tfv_clause c vars) <= len vars + 2 * fs_wclause c) /\
  (forall s vars, len (tfv_stmt s vars) <= len vars + 2 * fs_wstmt s).
Proof.
  apply fs_mutind; intros; cbn [tfv_term tfv_clause tfv_stmt fs_wterm fs_wclause fs_wstmt].
  - pose proof (bs_insert_len (mkcb v c t) vars). lia.
  - lia.
  - pose proof (bs_insert_len (i64_prd a) vars). pose proof (bs_insert_len (i64_prd b) (bs_insert (i64_prd a) vars)). lia.
  - match goal with |- len (bs_remove ?b ?l) <= _ => pose proof (bs_remove_len b l) end. specialize (H vars). lia.
  - pose proof (bs_extend_len args vars). lia.
  - change (len ((fix go (l : list fsclause) (vars : bset) : bset :=
         match l with [] => vars | y :: r => go r (tfv_clause y vars) end) cls vars) <= len vars + 2 * fs_wterm (FsXCase c cls t)).
    rewrite fs_wterm_xcase. revert vars.
    induction H as [|y r Hy Hr IH]; intros vars; simpl; [lia|].
    specialize (IH (tfv_clause y vars)). specialize (Hy vars). lia.
  - match goal with |- len (bs_remove_all ?b ?l) <= _ => pose proof (bs_remove_all_len b l) end. specialize (H vars). lia.
  - specialize (H vars). specialize (H0 (tfv_term p vars)). lia.
  - set (v1 := bs_insert (i64_prd a) vars).
    set (v2 := match b with Some b' => bs_insert (i64_prd b') v1 | None => v1 end).
    assert (len v2 <= 2 + len vars).
    { unfold v2, v1. pose proof (bs_insert_len (i64_prd a) vars). destruct b as [b'|]; [pose proof (bs_insert_len (i64_prd b') (bs_insert (i64_prd a) vars))|]; lia. }
    specialize (H v2). specialize (H0 (tfv_stmt t v2)). lia.
  - pose proof (bs_insert_len (i64_prd a) vars). specialize (H (bs_insert (i64_prd a) vars)). lia.
  - pose proof (bs_extend_len args vars). lia.
  - pose proof (bs_insert_len (i64_prd v) vars). lia.
Qed.
Lemma typed_free_vars_len : forall s, len (typed_free_vars s) <= 2 * fs_wstmt s.
Proof. intros s. unfold typed_free_vars. destruct tfv_len_all as [_ [_ H]]. specialize (H s []). lens_in H. lia. Qed.

(* ---------- the polynomial ---------- *)
Section Poly.
Variables X A : N.
Definition sh_a : N := 2 + X * (2 + A).
Definition sh_b : N := 2 * (1 + X).
Definition sh_F (w : N) : N := w * (sh_a + sh_b * w).

Lemma sh_F_add : forall x y, sh_F x + sh_F y <= sh_F (x + y).
Proof.
  intros. unfold sh_F. generalize sh_a sh_b. intros a b.
  replace ((x + y) * (a + b * (x + y))) with (x * (a + b * x) + y * (a + b * y) + 2 * b * x * y) by ring.
  pose proof (N.le_0_l (2 * b * x * y)). lia.
Qed.
Lemma sh_F_node : forall x c, sh_F x + c * sh_a + 2 * sh_b * c * x <= sh_F (x + c).
Proof.
  intros. unfold sh_F. generalize sh_a sh_b. intros a b.
  replace ((x + c) * (a + b * (x + c))) with (x * (a + b * x) + c * a + 2 * b * c * x + b * c * c) by ring.
  pose proof (N.le_0_l (b * c * c)). lia.
Qed.
Lemma sh_F_mono : forall x y, x <= y -> sh_F x <= sh_F y.
Proof. intros x y H. replace y with (x + (y - x)) by lia. pose proof (sh_F_add x (y - x)). lia. Qed.
Lemma sh_F_ge : forall x, 2 * x <= sh_F x.
Proof.
  intros. unfold sh_F, sh_a. generalize sh_b. intros b.
  replace (x * (2 + X * (2 + A) + b * x)) with (2 * x + (x * X * (2 + A) + x * b * x)) by ring. lia.
Qed.
End Poly.

(* ---------- the declarations bound the eta-expansions ---------- *)

Lemma max_list_in : forall l x, In x l -> x <= max_list l.
Proof. induction l as [|y r IH]; intros x Hin; simpl in *; [contradiction|]. destruct Hin as [->|Hin]; [lia|]. specialize (IH x Hin). lia. Qed.

Lemma lookup_decl_bounds : forall n ds d, lookup_type_declaration n ds = Some d ->
  len (ctxtors d) <= decl_xtors ds /\ Forall (fun x => len (cxargs x) <= decl_arity ds) (ctxtors d).
Proof.
  intros n ds d H. unfold lookup_type_declaration in H. apply find_some in H as [Hin _]. split.
  - apply max_list_in. apply in_map_iff. exists d; auto.
  - apply Forall_forall. intros x Hx.
    assert (len (cxargs x) <= max_list (map (fun x => len (cxargs x)) (ctxtors d))).
    { apply max_list_in. apply in_map_iff. exists x; auto. }
    assert (max_list (map (fun x => len (cxargs x)) (ctxtors d)) <= decl_arity ds).
    { apply max_list_in. apply in_map_iff. exists d; auto. }
    lia.
Qed.

Definition xs_ok (E : senv) (xs : list (cident * cctx)) : Prop :=
  len xs <= env_X E /\ Forall (fun p => len (snd p) <= env_A E) xs.
Lemma xtors_of_bounds : forall E ty name xs, xtors_of E ty name = SOk xs -> xs_ok E xs.
Proof.
  intros E ty name xs H. unfold xtors_of in H.
  destruct (lookup_type_declaration name _) as [d|] eqn:L; [|discriminate]. inversion H; subst; clear H.
  apply lookup_decl_bounds in L as [L1 L2]. unfold xs_ok, env_X, env_A. rewrite len_map. split.
  - destruct (is_codata (e_codata E) ty); lia.
  - apply Forall_forall. intros p Hp. apply in_map_iff in Hp as [x [<- Hx]]. simpl.
    rewrite Forall_forall in L2. specialize (L2 x Hx). destruct (is_codata (e_codata E) ty); lia.
Qed.

(* ---------- state: total size of the lifted definitions ---------- *)
Definition Lsz (st : sst) : N := ax_size_defs (s_lifted st).

Lemma fresh_env_size : forall bs st env st1, fresh_env bs st = (env, st1) -> len env = len bs /\ Lsz st1 = Lsz st.
Proof.
  induction bs as [|b r IH]; intros st env st1 H; simpl in H.
  - inversion H; subst. auto.
  - destruct (fresh_env r _) as [r' st2] eqn:Hr. inversion H; subst; clear H.
    apply IH in Hr as [H1 H2]. lens. split; [lia|exact H2].
Qed.

Lemma shrink_context_len : forall codata c, len (shrink_context codata c) = len c.
Proof. intros. unfold shrink_context. apply len_map. Qed.

Lemma unknown_clauses_size : forall E ve tty xs st cls st',
  unknown_clauses (e_codata E) ve tty xs st = (cls, st') -> Forall (fun p => len (snd p) <= env_A E) xs ->
  ax_size_cls cls <= len xs * (2 + 2 * env_A E) /\ Lsz st' = Lsz st.
Proof.
  induction xs as [|[xt args] r IH]; intros st cls st' H HF; simpl in H.
  - inversion H; subst. simpl. lens. split; [lia|auto].
  - destruct (fresh_env _ _) as [env st1] eqn:He.
    destruct (unknown_clauses _ _ _ r _) as [r' st2] eqn:Hr. inversion H; subst; clear H.
    inversion HF as [|? ? Ha HF']; subst. simpl in Ha.
    apply fresh_env_size in He as [E1 E2]. rewrite shrink_context_len in E1.
    apply IH in Hr as [H1 H2]; auto. simpl. lens. split; [nia|congruence].
Qed.

Lemma critical_clauses_size : forall E ve tty se xs st cls st',
  critical_clauses (e_codata E) ve tty se xs st = (cls, st') -> Forall (fun p => len (snd p) <= env_A E) xs ->
  ax_size_cls cls <= len xs * (2 + 2 * env_A E + ax_size se) /\ Lsz st' = Lsz st.
Proof.
  induction xs as [|[xt args] r IH]; intros st cls st' H HF; simpl in H.
  - inversion H; subst. simpl. lens. split; [lia|auto].
  - destruct (fresh_env _ _) as [env sta] eqn:He.
    destruct (critical_clauses _ _ _ _ r _) as [r' stc] eqn:Hr. inversion H; subst; clear H.
    inversion HF as [|? ? Ha HF']; subst. simpl in Ha.
    apply fresh_env_size in He as [E1 E2]. rewrite shrink_context_len in E1.
    apply IH in Hr as [H1 H2]; auto. simpl. rewrite ax_size_subst_ax. lens. split; [nia|].
    rewrite H2. unfold Lsz. simpl. exact E2.
Qed.

(* ---------- one step of shrinking ---------- *)
Section Step.
Variable rec : fsstmt -> sst -> shres (stmt * sst).
Variable E : senv.
Let F := sh_F (env_X E) (env_A E).

(* the invariant: total output (statement + newly lifted definitions) <= F (weight); a leaf statement
   becomes a statement no bigger than its weight and lifts nothing *)
Definition size_inv (s : fsstmt) (st : sst) (r : stmt) (st' : sst) : Prop :=
  ax_size r + Lsz st' <= Lsz st + F (fs_wstmt s) /\
  (is_leaf_statement s = true -> ax_size r <= fs_wstmt s /\ Lsz st' = Lsz st).

Hypothesis Hrec : forall s st r st', rec s st = SOk (r, st') -> size_inv s st r st'.

Lemma F_add : forall x y, F x + F y <= F (x + y).
Proof. apply sh_F_add. Qed.
Lemma F_mono : forall x y, x <= y -> F x <= F y.
Proof. apply sh_F_mono. Qed.
Lemma F_ge : forall x, 2 * x <= F x.
Proof. apply sh_F_ge. Qed.

Lemma shrink_clauses_size : forall cls st r st',
  shrink_clauses rec E cls st = SOk (r, st') ->
  ax_size_cls r + Lsz st' <= Lsz st + F (fs_wclauses cls).
Proof.
  induction cls as [|[c x cx body] rest IH]; intros st r st' H; simpl in H.
  - inversion H; subst. simpl. unfold F, sh_F. lia.
  - destruct (rec body st) as [[b st1]|] eqn:Hb; [|discriminate]. cbn [sbind] in H.
    destruct (shrink_clauses rec E rest st1) as [[r' st2]|] eqn:Hr; [|discriminate]. cbn [sbind] in H.
    inversion H; subst; clear H. apply Hrec in Hb as [Hb _]. apply IH in Hr.
    simpl. rewrite shrink_context_len.
    pose proof (F_add (1 + len cx + fs_wstmt body) (fs_wclauses rest)).
    pose proof (sh_F_node (env_X E) (env_A E) (fs_wstmt body) (1 + len cx)) as Hn. fold F in Hn.
    replace (fs_wstmt body + (1 + len cx)) with (1 + len cx + fs_wstmt body) in Hn by lia.
    unfold sh_a in Hn. nia.
Qed.

Lemma fs_wclause_find : forall (f : fsclause -> bool) cls c, find f cls = Some c -> fs_wstmt (clause_body c) <= fs_wclauses cls.
Proof.
  induction cls as [|y r IH]; intros c H; simpl in H; [discriminate|].
  destruct (f y).
  - inversion H; subst. destruct c; simpl. lia.
  - apply IH in H. simpl. lia.
Qed.

Lemma lift_size : forall s st r st',
  lift rec E s st = SOk (r, st') ->
  ax_size r = 1 + len (typed_free_vars s) /\
  ax_size r + Lsz st' <= Lsz st + F (fs_wstmt s) + 2 + 2 * len (typed_free_vars s).
Proof.
  intros s st r st' H. apply lift_closed in H. cbv zeta in H.
  destruct H as (_ & _ & _ & Hsig & label & body & st3 & _ & _ & _ & -> & Hb & ->).
  apply Hrec in Hb as [Hb _]. rewrite fs_w_subst in Hb.
  assert (Hl : len (fresh_params (typed_free_vars s) (s_max st)) = len (typed_free_vars s)).
  { clear. generalize (s_max st). induction (typed_free_vars s) as [|b r IH]; intros m; simpl; lens; [reflexivity|]. rewrite IH. reflexivity. }
  cbn [ax_size]. rewrite shrink_context_len. split; [reflexivity|].
  unfold Lsz in *. cbn [s_lifted ax_size_defs] in *. unfold ax_size_def. cbn [dctx dbody].
  rewrite shrink_context_len, Hl. lia.
Qed.

Lemma invoke_ret_size : forall v x, ax_size (invoke_ret v x) = 2.
Proof. reflexivity. Qed.

Lemma critical_size : forall vp sp vc sc ty st r st',
  shrink_critical_pairs rec E vp sp vc sc ty st = SOk (r, st') ->
  ax_size r + Lsz st' <= Lsz st + F (3 + fs_wstmt sp + fs_wstmt sc).
Proof.
  intros vp sp vc sc ty st r st' H. unfold shrink_critical_pairs in H. destruct ty as [|name].
  - (* i64: both bodies once *)
    destruct (rec sc st) as [[body st1]|] eqn:H1; [|discriminate]. cbn [sbind] in H.
    destruct (rec sp st1) as [[next st2]|] eqn:H2; [|discriminate]. cbn [sbind] in H.
    inversion H; subst; clear H. apply Hrec in H1 as [H1 _]. apply Hrec in H2 as [H2 _].
    rewrite ax_size_create. cbn [ax_size_cls]. lens.
    pose proof (F_add (fs_wstmt sp) (fs_wstmt sc)).
    pose proof (sh_F_node (env_X E) (env_A E) (fs_wstmt sp + fs_wstmt sc) 3) as Hn. fold F in Hn.
    replace (fs_wstmt sp + fs_wstmt sc + 3) with (3 + fs_wstmt sp + fs_wstmt sc) in Hn by lia.
    unfold sh_a in Hn. nia.
  - destruct (xtors_of E (CDecl name) name) as [xs|] eqn:Hx; [|discriminate]. cbn [sbind] in H.
    apply xtors_of_bounds in Hx as [HX HA].
    (* the two orientations are symmetric: (keep, expand) *)
    assert (G : forall keep expand ve vk,
      (dos (se, st1) <- (if Nat.leb (List.length xs) 1 || is_leaf_statement expand then rec expand st else lift rec E expand st);
       let '(clauses, st2) := critical_clauses (e_codata E) ve (shrink_ty (CDecl name)) se xs st1 in
       dos (next, st3) <- rec keep st2;
       SOk (Create (shrink_identifier vk) (Decl (shrink_identifier name)) None clauses next, st3)) = SOk (r, st') ->
      ax_size r + Lsz st' <= Lsz st + F (3 + fs_wstmt keep + fs_wstmt expand)).
    { clear H. intros keep expand ve vk H.
      pose proof (F_add (fs_wstmt keep) (fs_wstmt expand)) as Hadd.
      pose proof (sh_F_node (env_X E) (env_A E) (fs_wstmt keep + fs_wstmt expand) 3) as Hn. fold F in Hn.
      replace (fs_wstmt keep + fs_wstmt expand + 3) with (3 + fs_wstmt keep + fs_wstmt expand) in Hn by lia.
      unfold sh_a, sh_b in Hn.
      destruct (Nat.leb (List.length xs) 1) eqn:Hle; [|destruct (is_leaf_statement expand) eqn:Hleaf]; cbn [orb] in H.
      - (* at most one xtor: the expanded side is copied at most once *)
        destruct (rec expand st) as [[se st1]|] eqn:H1; [|discriminate]. cbn [sbind] in H.
        destruct (critical_clauses _ _ _ _ _ _) as [cls st2] eqn:Hc.
        destruct (rec keep st2) as [[next st3]|] eqn:H2; [|discriminate]. cbn [sbind] in H. inversion H; subst; clear H.
        apply Hrec in H1 as [H1 _]. apply Hrec in H2 as [H2 _]. apply critical_clauses_size in Hc as [Hc1 Hc2]; auto.
        apply Nat.leb_le in Hle. assert (len xs <= 1) by (unfold len; lia).
        rewrite ax_size_create. nia.
      - (* leaf: copied into every clause, but no bigger than its weight *)
        destruct (rec expand st) as [[se st1]|] eqn:H1; [|discriminate]. cbn [sbind] in H.
        destruct (critical_clauses _ _ _ _ _ _) as [cls st2] eqn:Hc.
        destruct (rec keep st2) as [[next st3]|] eqn:H2; [|discriminate]. cbn [sbind] in H. inversion H; subst; clear H.
        apply Hrec in H1 as [_ H1]. destruct (H1 Hleaf) as [H1a H1b].
        apply Hrec in H2 as [H2 _]. apply critical_clauses_size in Hc as [Hc1 Hc2]; auto.
        rewrite ax_size_create. nia.
      - (* shared: every clause calls the lifted definition *)
        destruct (lift rec E expand st) as [[se st1]|] eqn:H1; [|discriminate]. cbn [sbind] in H.
        destruct (critical_clauses _ _ _ _ _ _) as [cls st2] eqn:Hc.
        destruct (rec keep st2) as [[next st3]|] eqn:H2; [|discriminate]. cbn [sbind] in H. inversion H; subst; clear H.
        apply lift_size in H1 as [H1a H1b]. pose proof (typed_free_vars_len expand) as Hfv.
        apply Hrec in H2 as [H2 _]. apply critical_clauses_size in Hc as [Hc1 Hc2]; auto.
        rewrite ax_size_create. nia. }
    destruct (is_codata (e_codata E) (CDecl name)); cbv beta iota in H.
    + apply G in H. replace (3 + fs_wstmt sp + fs_wstmt sc) with (3 + fs_wstmt sc + fs_wstmt sp) by lia. exact H.
    + apply G in H. exact H.
Qed.

Lemma unknown_size : forall vp vc ty st r st',
  shrink_unknown_cuts E vp vc ty st = SOk (r, st') -> ax_size r + Lsz st' <= Lsz st + F 3.
Proof.
  intros vp vc ty st r st' H. unfold shrink_unknown_cuts in H.
  assert (HF3 : 3 * sh_a (env_X E) (env_A E) <= F 3).
  { unfold F, sh_F. lia. }
  unfold sh_a in HF3.
  destruct ty as [|name].
  - inversion H; subst. rewrite invoke_ret_size. lia.
  - destruct (xtors_of E (CDecl name) name) as [xs|] eqn:Hx; [|discriminate]. cbn [sbind] in H.
    apply xtors_of_bounds in Hx as [HX HA].
    destruct (is_codata (e_codata E) (CDecl name));
      (destruct (unknown_clauses _ _ _ _ _) as [cls st1] eqn:Hc; inversion H; subst; clear H;
       apply unknown_clauses_size in Hc as [Hc1 Hc2]; auto; rewrite ax_size_switch; nia).
Qed.

(* a node of own weight c above sub-statements of total weight x whose outputs fit F x *)
Lemma F_node : forall x c, F x + c * (2 + env_X E * (2 + env_A E)) <= F (x + c).
Proof.
  intros. pose proof (sh_F_node (env_X E) (env_A E) x c) as Hn. fold F in Hn. unfold sh_a in Hn.
  pose proof (N.le_0_l (2 * sh_b (env_X E) * c * x)). lia.
Qed.

Lemma cut_size : forall p ty c st r st',
  shrink_cut rec E p ty c st = SOk (r, st') -> size_inv (FsCut p ty c) st r st'.
Proof.
  intros p ty c st r st' H. unfold size_inv. cbn [fs_wstmt].
  destruct p, c; cbn [shrink_cut] in H; try discriminate; rewrite ?fs_wterm_xcase; cbn [is_leaf_statement fs_wterm].
  all: try (split; [|discriminate]).
  - (* XVar / XVar: unknown cut *)
    apply unknown_size in H. replace (1 + 1 + 1) with 3 by lia. exact H.
  - (* XVar / Mu: renaming *)
    unfold shrink_renaming in H. apply Hrec in H as [H _]. rewrite fs_w_subst in H.
    pose proof (F_mono (fs_wstmt s) (1 + 1 + (1 + fs_wstmt s)) ltac:(lia)). lia.
  - (* XVar / Xtor: invoke (a leaf) *)
    inversion H; subst. cbn [ax_size]. rewrite shrink_context_len.
    pose proof (F_ge (1 + 1 + (1 + len args))). split; [lia|]. intros _. split; [lia|reflexivity].
  - (* XVar / XCase: switch *)
    destruct (shrink_clauses rec E cls st) as [[cls' st1]|] eqn:Hc; [|discriminate]. cbn [sbind] in H. inversion H; subst; clear H.
    apply shrink_clauses_size in Hc. rewrite ax_size_switch.
    pose proof (F_node (fs_wclauses cls) 3). replace (fs_wclauses cls + 3) with (1 + 1 + (1 + fs_wclauses cls)) in * by lia. lia.
  - (* Lit / XVar *)
    destruct (fresh_var st) as [x st1] eqn:Hf. inversion H; subst; clear H. cbn [ax_size]. rewrite invoke_ret_size.
    unfold fresh_var, fresh_identifier in Hf. inversion Hf; subst. unfold Lsz; cbn [s_lifted].
    pose proof (F_ge (1 + 1 + 1)). lia.
  - (* Lit / Mu *)
    destruct (rec s st) as [[next st1]|] eqn:Hr; [|discriminate]. cbn [sbind] in H. inversion H; subst; clear H.
    apply Hrec in Hr as [Hr _]. cbn [ax_size].
    pose proof (F_node (fs_wstmt s) 3). replace (fs_wstmt s + 3) with (1 + 1 + (1 + fs_wstmt s)) in * by lia. lia.
  - (* Op / XVar *)
    destruct (fresh_var st) as [x st1] eqn:Hf. inversion H; subst; clear H. cbn [ax_size]. rewrite invoke_ret_size.
    unfold fresh_var, fresh_identifier in Hf. inversion Hf; subst. unfold Lsz; cbn [s_lifted].
    pose proof (F_ge (1 + 1 + 1)). lia.
  - (* Op / Mu *)
    destruct (rec s st) as [[next st1]|] eqn:Hr; [|discriminate]. cbn [sbind] in H. inversion H; subst; clear H.
    apply Hrec in Hr as [Hr _]. cbn [ax_size].
    pose proof (F_node (fs_wstmt s) 3). replace (fs_wstmt s + 3) with (1 + 1 + (1 + fs_wstmt s)) in * by lia. lia.
  - (* Mu / XVar: renaming *)
    unfold shrink_renaming in H. apply Hrec in H as [H _]. rewrite fs_w_subst in H.
    pose proof (F_mono (fs_wstmt s) (1 + (1 + fs_wstmt s) + 1) ltac:(lia)). lia.
  - (* Mu / Mu: critical pair *)
    apply critical_size in H. replace (1 + (1 + fs_wstmt s) + (1 + fs_wstmt s0)) with (3 + fs_wstmt s + fs_wstmt s0) by lia. exact H.
  - (* Mu / Xtor: let *)
    destruct (rec s st) as [[next st1]|] eqn:Hr; [|discriminate]. cbn [sbind] in H. inversion H; subst; clear H.
    apply Hrec in Hr as [Hr _]. cbn [ax_size]. rewrite shrink_context_len.
    pose proof (F_node (fs_wstmt s) (3 + len args)). replace (fs_wstmt s + (3 + len args)) with (1 + (1 + fs_wstmt s) + (1 + len args)) in * by lia. nia.
  - (* Mu / XCase: create *)
    destruct (shrink_clauses rec E cls st) as [[cls' st1]|] eqn:Hc; [|discriminate]. cbn [sbind] in H.
    destruct (rec s st1) as [[next st2]|] eqn:Hr; [|discriminate]. cbn [sbind] in H. inversion H; subst; clear H.
    apply shrink_clauses_size in Hc. apply Hrec in Hr as [Hr _]. rewrite ax_size_create.
    pose proof (F_add (fs_wstmt s) (fs_wclauses cls)).
    pose proof (F_node (fs_wstmt s + fs_wclauses cls) 3).
    replace (fs_wstmt s + fs_wclauses cls + 3) with (1 + (1 + fs_wstmt s) + (1 + fs_wclauses cls)) in * by lia. lia.
  - (* Xtor / XVar: invoke (a leaf) *)
    inversion H; subst. cbn [ax_size]. rewrite shrink_context_len.
    pose proof (F_ge (1 + (1 + len args) + 1)). split; [lia|]. intros _. split; [lia|reflexivity].
  - (* Xtor / Mu: let *)
    destruct (rec s st) as [[next st1]|] eqn:Hr; [|discriminate]. cbn [sbind] in H. inversion H; subst; clear H.
    apply Hrec in Hr as [Hr _]. cbn [ax_size]. rewrite shrink_context_len.
    pose proof (F_node (fs_wstmt s) (3 + len args)). replace (fs_wstmt s + (3 + len args)) with (1 + (1 + len args) + (1 + fs_wstmt s)) in * by lia. nia.
  - (* Xtor / XCase: known cut *)
    unfold shrink_known_cuts in H. destruct (find _ cls) as [cl|] eqn:Hf; [|discriminate].
    apply fs_wclause_find in Hf. apply Hrec in H as [H _]. rewrite fs_w_subst in H.
    pose proof (F_mono (fs_wstmt (clause_body cl)) (1 + (1 + len args) + (1 + fs_wclauses cls)) ltac:(lia)). lia.
  - (* XCase / XVar: switch *)
    destruct (shrink_clauses rec E cls st) as [[cls' st1]|] eqn:Hc; [|discriminate]. cbn [sbind] in H. inversion H; subst; clear H.
    apply shrink_clauses_size in Hc. rewrite ax_size_switch.
    pose proof (F_node (fs_wclauses cls) 3). replace (fs_wclauses cls + 3) with (1 + (1 + fs_wclauses cls) + 1) in * by lia. lia.
  - (* XCase / Mu: create *)
    destruct (shrink_clauses rec E cls st) as [[cls' st1]|] eqn:Hc; [|discriminate]. cbn [sbind] in H.
    destruct (rec s st1) as [[next st2]|] eqn:Hr; [|discriminate]. cbn [sbind] in H. inversion H; subst; clear H.
    apply shrink_clauses_size in Hc. apply Hrec in Hr as [Hr _]. rewrite ax_size_create.
    pose proof (F_add (fs_wstmt s) (fs_wclauses cls)).
    pose proof (F_node (fs_wstmt s + fs_wclauses cls) 3).
    replace (fs_wstmt s + fs_wclauses cls + 3) with (1 + (1 + fs_wclauses cls) + (1 + fs_wstmt s)) in * by lia. lia.
  - (* XCase / Xtor: known cut *)
    unfold shrink_known_cuts in H. destruct (find _ cls) as [cl|] eqn:Hf; [|discriminate].
    apply fs_wclause_find in Hf. apply Hrec in H as [H _]. rewrite fs_w_subst in H.
    pose proof (F_mono (fs_wstmt (clause_body cl)) (1 + (1 + fs_wclauses cls) + (1 + len args)) ltac:(lia)). lia.
Qed.

Lemma step_size : forall s st r st',
  shrink_step rec E s st = SOk (r, st') -> size_inv s st r st'.
Proof.
  intros s st r st' H. destruct s; cbn [shrink_step] in H.
  - apply cut_size; auto.
  - destruct (rec s2 st) as [[t' st1]|] eqn:H1; [|discriminate]. cbn [sbind] in H.
    destruct (rec s3 st1) as [[e' st2]|] eqn:H2; [|discriminate]. cbn [sbind] in H. inversion H; subst; clear H.
    apply Hrec in H1 as [H1 _]. apply Hrec in H2 as [H2 _]. split; [|discriminate]. cbn [ax_size fs_wstmt].
    pose proof (F_add (fs_wstmt s2) (fs_wstmt s3)). pose proof (F_node (fs_wstmt s2 + fs_wstmt s3) 1).
    replace (fs_wstmt s2 + fs_wstmt s3 + 1) with (1 + fs_wstmt s2 + fs_wstmt s3) in * by lia. lia.
  - destruct (rec s st) as [[n' st1]|] eqn:H1; [|discriminate]. cbn [sbind] in H. inversion H; subst; clear H.
    apply Hrec in H1 as [H1 _]. split; [|discriminate]. cbn [ax_size fs_wstmt].
    pose proof (F_node (fs_wstmt s) 1). replace (fs_wstmt s + 1) with (1 + fs_wstmt s) in * by lia. lia.
  - inversion H; subst. unfold size_inv. cbn [ax_size fs_wstmt is_leaf_statement]. rewrite shrink_context_len.
    pose proof (F_ge (1 + len args)). split; [lia|]. intros _. split; [lia|reflexivity].
  - inversion H; subst. unfold size_inv. cbn [ax_size fs_wstmt is_leaf_statement].
    pose proof (F_ge 1). split; [lia|]. intros _. split; [lia|reflexivity].
Qed.
End Step.

(* ---------- statements, definitions, programs ---------- *)
Theorem shrink_stmt_size : forall fuel E s st r st',
  shrink_stmt fuel E s st = SOk (r, st') ->
  ax_size r + Lsz st' <= Lsz st + sh_F (env_X E) (env_A E) (fs_wstmt s).
Proof.
  intros fuel E. 
  assert (G : forall s st r st', shrink_stmt fuel E s st = SOk (r, st') -> size_inv E s st r st').
  { induction fuel as [|f IH]; intros s st r st' H; simpl in H; [discriminate|].
    eapply step_size; eauto. }
  intros s st r st' H. apply G in H as [H _]. exact H.
Qed.

Lemma ax_size_defs_app : forall a b, ax_size_defs (a ++ b) = ax_size_defs a + ax_size_defs b.
Proof. induction a as [|d r IH]; intros b; simpl; [lia|]. rewrite IH. lia. Qed.
Lemma ax_size_defs_rev_append : forall a b, ax_size_defs (rev_append a b) = ax_size_defs a + ax_size_defs b.
Proof. induction a as [|d r IH]; intros b; simpl; [lia|]. rewrite IH. simpl. lia. Qed.

Lemma shrink_def_size : forall d data codata used m out used' m',
  shrink_def d data codata used m = SOk (out, used', m') ->
  ax_size_defs out <= sh_F (env_X (mksenv data codata (fst (fsdname d)))) (env_A (mksenv data codata (fst (fsdname d)))) (fs_wdef d).
Proof.
  intros d data codata used m out used' m' H. unfold shrink_def in H.
  destruct (shrink_stmt _ _ _ _) as [[body st]|] eqn:Hs; [|discriminate]. cbn [sbind] in H. inversion H; subst; clear H.
  apply shrink_stmt_size in Hs. unfold Lsz in Hs. cbn [s_lifted ax_size_defs] in Hs.
  cbn [ax_size_defs]. unfold ax_size_def. cbn [dctx dbody]. rewrite shrink_context_len. unfold fs_wdef.
  set (X := env_X _) in *. set (A := env_A _) in *.
  pose proof (sh_F_node X A (fs_wstmt (fsdbody d)) (1 + len (fsdctx d))) as Hn. unfold sh_a in Hn.
  replace (fs_wstmt (fsdbody d) + (1 + len (fsdctx d))) with (1 + len (fsdctx d) + fs_wstmt (fsdbody d)) in Hn by lia.
  pose proof (N.le_0_l (2 * sh_b X * (1 + len (fsdctx d)) * fs_wstmt (fsdbody d))). nia.
Qed.

Lemma shrink_defs_size : forall ds data codata used m acc out m',
  shrink_defs ds data codata used m acc = SOk (out, m') ->
  ax_size_defs out <= ax_size_defs acc + sh_F (N.max (decl_xtors data) (decl_xtors codata)) (N.max (decl_arity data) (decl_arity codata)) (fs_wdefs ds).
Proof.
  induction ds as [|d r IH]; intros data codata used m acc out m' H; simpl in H.
  - inversion H; subst. unfold frev. rewrite ax_size_defs_rev_append. simpl. unfold sh_F. lia.
  - destruct (shrink_def d data codata used m) as [[[o u] m1]|] eqn:Hd; [|discriminate]. cbn [sbind] in H.
    apply shrink_def_size in Hd. apply IH in H. rewrite ax_size_defs_rev_append in H.
    unfold env_X, env_A in Hd. cbn [e_data e_codata] in Hd.
    pose proof (sh_F_add (N.max (decl_xtors data) (decl_xtors codata)) (N.max (decl_arity data) (decl_arity codata)) (fs_wdef d) (fs_wdefs r)).
    cbn [fs_wdefs]. lia.
Qed.

(* the xtors / arities of a program: its data types plus the continuation type `_Cont { Ret(x) }`, its codata types *)

Theorem shrink_size_lemma : forall p q, shrink_prog p = SOk q ->
  ax_size_prog q <= fs_wprog p * ((2 + prog_X p * (2 + prog_A p)) + 2 * (1 + prog_X p) * fs_wprog p).
Proof.
  intros p q H. unfold shrink_prog in H.
  destruct (_ || _)%bool; [discriminate|].
  destruct (shrink_defs _ _ _ _ _ _) as [[defs m]|] eqn:Hd; [|discriminate]. cbn [sbind] in H. inversion H; subst; clear H.
  apply shrink_defs_size in Hd. unfold ax_size_prog; cbn [pdefs]. simpl in Hd.
  unfold sh_F, sh_a, sh_b, prog_X, prog_A, fs_wprog in *. lia.
Qed.

(* ---------- (d) the sharing step in isolation ---------- *)
Lemma shrink_stmt_inv : forall fuel E s st r st', shrink_stmt fuel E s st = SOk (r, st') -> size_inv E s st r st'.
Proof.
  induction fuel as [|f IH]; intros E s st r st' H; simpl in H; [discriminate|].
  eapply step_size; eauto.
Qed.

(* a critical pair <mu a.sp | T | mu~ x.sc> at a declared type T with at least two xtors whose
   expanded side (the consumer's body for data, the producer's body for codata) is not a leaf:
   the expanded side is lifted ONCE; what every clause of the eta-expansion receives is a call of
   size 1 + |free variables| (at most 1 + 2 * weight of the expanded side); the clauses together
   have size at most  #xtors * (2 + 2 * arity + that call). *)
Theorem critical_pair_shares_lemma : forall fuel E vp sp vc sc name xs st r st',
  shrink_critical_pairs (shrink_stmt fuel E) E vp sp vc sc (CDecl name) st = SOk (r, st') ->
  xtors_of E (CDecl name) name = SOk xs -> (2 <= List.length xs)%nat ->
  let cod := is_codata (e_codata E) (CDecl name) in
  let expand := if cod then sp else sc in
  let keep := if cod then sc else sp in
  let ve := if cod then vp else vc in
  let vk := if cod then vc else vp in
  is_leaf_statement expand = false ->
  exists call st1 cls st2 next,
    lift (shrink_stmt fuel E) E expand st = SOk (call, st1) /\
    ax_size call = 1 + len (typed_free_vars expand) /\
    len (typed_free_vars expand) <= 2 * fs_wstmt expand /\
    critical_clauses (e_codata E) ve (shrink_ty (CDecl name)) call xs st1 = (cls, st2) /\
    ax_size_cls cls <= len xs * (2 + 2 * env_A E + ax_size call) /\
    shrink_stmt fuel E keep st2 = SOk (next, st') /\
    r = Create vk (Decl name) None cls next.
Proof.
  intros fuel E vp sp vc sc name xs st r st' H Hx Hn cod expand keep ve vk Hleaf.
  unfold shrink_critical_pairs in H. rewrite Hx in H. cbn [sbind] in H.
  pose proof (xtors_of_bounds _ _ _ _ Hx) as [HX HA].
  assert (Hle : Nat.leb (List.length xs) 1 = false) by (apply Nat.leb_gt; lia).
  subst cod expand keep ve vk.
  destruct (is_codata (e_codata E) (CDecl name)); cbv beta iota in H; rewrite Hle, Hleaf in H; cbn [orb] in H.
  - destruct (lift _ E sp st) as [[call st1]|] eqn:H1; [|discriminate]. cbn [sbind] in H.
    destruct (critical_clauses _ _ _ _ _ _) as [cls st2] eqn:Hc.
    destruct (shrink_stmt fuel E sc st2) as [[next st3]|] eqn:H2; [|discriminate]. cbn [sbind] in H. inversion H; subst; clear H.
    exists call, st1, cls, st2, next.
    pose proof (lift_size (shrink_stmt fuel E) E (shrink_stmt_inv fuel E) _ _ _ _ H1) as [L1 _].
    pose proof (critical_clauses_size _ _ _ _ _ _ _ _ Hc HA) as [C1 _].
    repeat split; auto. apply typed_free_vars_len.
  - destruct (lift _ E sc st) as [[call st1]|] eqn:H1; [|discriminate]. cbn [sbind] in H.
    destruct (critical_clauses _ _ _ _ _ _) as [cls st2] eqn:Hc.
    destruct (shrink_stmt fuel E sp st2) as [[next st3]|] eqn:H2; [|discriminate]. cbn [sbind] in H. inversion H; subst; clear H.
    exists call, st1, cls, st2, next.
    pose proof (lift_size (shrink_stmt fuel E) E (shrink_stmt_inv fuel E) _ _ _ _ H1) as [L1 _].
    pose proof (critical_clauses_size _ _ _ _ _ _ _ _ Hc HA) as [C1 _].
    repeat split; auto. apply typed_free_vars_len.
Qed.
