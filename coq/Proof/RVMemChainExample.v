(* C09 on RISC-V: the hypotheses of rv_store_chain / rv_load_chain are satisfiable.  A 5-field object (2 blocks) stored
   behind three variables on a fresh heap, and a SHARED 2-block object with five fields loaded behind three variables
   (counts go up, the head's count goes down, nothing is released). *)
From Coq Require Import List ZArith NArith String Bool Lia FMapPositive.
From SCC Require Import Base.Sexp Lang.AxSyn Sem.AxSem Sem.AxHeap Model.Backend Model.RV Sem.RVSem Generated.Constants
     Proof.RVSel Proof.RVHeapAbs Proof.RVHDefs Proof.RVHMem Proof.RVMemStoreChain Proof.RVMemLoadChain.
From SCC Require Model.Heap Model.X86 Proof.X86Mem Proof.X86MemStore Proof.X86MemStoreChain Proof.X86MemLoad Proof.X86MemLoadChain
     Proof.X86HeapDefs Proof.X86HeapAcq.
Import ListNotations.
Open Scope list_scope.
Open Scope Z_scope.

Lemma placed_whole cs : NoDup (labels_of cs) -> placed (mk_image cs) 1%positive cs.
Proof.
  intros ND. pose proof (placed_mk_image [] cs [] ltac:(cbn [app]; rewrite app_nil_r; exact ND)) as H.
  cbn [app List.length padd] in H. rewrite app_nil_r in H. exact H.
Qed.

Definition ex5_val (k : N) : Z := 100 + Z.of_N k.
Definition ex5_rem : ctx := repeat (mkb ("r"%string, 0%N) Ext I64) 3.
Definition ex5_store : ctx := X86MemStoreChain.ex5_store.
(* registers of positions 3..7 = X10..X19 hold ex5_val of their temporary position; HEAP / FREE as at entry *)
Definition ex5_state : rstate :=
  fold_left (fun s k => rset s (rtp k) (Some (ex5_val k))) [6; 7; 8; 9; 10; 11; 12; 13; 14; 15]%N (init_state []).
Definition ex5_code : list rcode := match r_store ex5_store ex5_rem 0 with Ok (cs, _) => cs | Err _ => [] end.

Lemma Bk k : 0 <= k <= 4 -> is_blk (HEAP_BASE + 64 * k).
Proof. intros Hk. exists k. split; [lia|]. split; [reflexivity|]. unfold HEAP_BASE, HEAP_SIZE. lia. Qed.

Example rv_store_example :
  let a := abs_heap (HEAP_BASE + 64) ex5_state in
  let res := Heap.alloc_object (xfsts ex5_val 3 ex5_store) a in
  exists lc', r_store ex5_store ex5_rem 0 = Ok (ex5_code, lc') /\
  xfsts ex5_val 3 ex5_store = [0; 108; 0; 112; 0] /\
  fst res = HEAP_BASE + 64 /\ Heap.frontier (snd res) = HEAP_BASE + 192 /\
  exists s', star (mk_image ex5_code) 1 ex5_state (padd 1 (List.length ex5_code)) s' /\
     st_eqB (abs_heap (HEAP_BASE + 192) s') (snd res) /\ rget s' (rtp 6) = Some (HEAP_BASE + 64) /\
     wblocks 1 (hword s') (HEAP_BASE + 64) = [HEAP_BASE + 64; HEAP_BASE] /\
     hword s' (HEAP_BASE + 64 + 16 + 8) = 107 /\ hword s' (HEAP_BASE + 64 + 32) = 108 /\ hword s' (HEAP_BASE + 48 + 8) = 115.
Proof.
  intros a res.
  assert (Hx : exists lc', r_store ex5_store ex5_rem 0 = Ok (ex5_code, lc')) by (eexists; vm_compute; reflexivity).
  destruct Hx as [lc' Hx]. exists lc'. split; [exact Hx|]. split; [reflexivity|].
  assert (Ef : fst res = HEAP_BASE + 64) by (vm_compute; reflexivity).
  assert (EF : Heap.frontier (snd res) = HEAP_BASE + 192) by (vm_compute; reflexivity).
  split; [exact Ef|]. split; [exact EF|].
  assert (PL : placed (mk_image ex5_code) 1 ex5_code) by (apply placed_whole; apply X86MemStore.nodupb_sound; vm_compute; reflexivity).
  assert (Eacq : alloc_object_acq (xfsts ex5_val 3 ex5_store) a = [HEAP_BASE; HEAP_BASE + 64]) by (vm_compute; reflexivity).
  destruct (rv_store_chain (mk_image ex5_code) 1 ex5_store ex5_rem 0 ex5_code lc' ex5_state (HEAP_BASE + 64) ex5_val Hx ltac:(discriminate) PL)
    as (s' & ST & EQ & Rr & _ & WB & _ & (WD & _) & _).
  - intros i b Hi. destruct i as [|[|[|[|[|i]]]]]; cbn in Hi; try (destruct i; discriminate); inversion Hi; subst b;
      (split; [vm_compute; reflexivity|intros _; vm_compute; reflexivity]).
  - change (List.length ex5_rem) with 3%nat. change (xfsts ex5_val 3 ex5_store) with [0; 108; 0; 112; 0].
    unfold X86MemStoreChain.alloc_object_pre. split.
    + split; [exact (Bk 0 ltac:(lia))|]. split; [vm_compute; discriminate|]. split.
      * intros _. exact (Bk 1 ltac:(lia)).
      * intros _ H. exfalso. apply H. vm_compute. reflexivity.
    + cbn [List.length X86MemStoreChain.chain_pre]. unfold Heap.butlastn at 1. cbn [List.length Nat.sub firstn]. split.
      * split; [|split; [|split]].
        -- replace (Heap.heap _) with (HEAP_BASE + 64 * 1) by (vm_compute; reflexivity). apply Bk. lia.
        -- vm_compute. discriminate.
        -- intros _. replace (Heap.free _) with (HEAP_BASE + 64 * 2) by (vm_compute; reflexivity). apply Bk. lia.
        -- intros _ H. exfalso. apply H. vm_compute. reflexivity.
      * unfold Heap.butlastn. cbn [List.length Nat.sub firstn X86MemStoreChain.chain_pre]. exact I.
  - change (List.length ex5_rem) with 3%nat. fold a. rewrite Eacq.
    constructor; [intros [H|[]]; unfold HEAP_BASE in H; lia|]. constructor; [intros []|constructor].
  - change (List.length ex5_rem) with 3%nat in *. change (Heap.nlinks (List.length ex5_store)) with 1%nat in *.
    fold a in EQ, Rr, WB, WD. fold res in EQ, Rr, WB, WD. rewrite EF in EQ. rewrite Ef in Rr, WB, WD. rewrite Eacq in WB.
    exists s'. split; [exact ST|]. split; [exact EQ|]. split; [exact Rr|]. split; [exact WB|].
    assert (LK : hword s' (HEAP_BASE + 64 + 48) = HEAP_BASE).
    { pose proof WB as WB'. cbn [X86HeapDefs.wblocks rev app] in WB'. injection WB' as LK0. exact LK0. }
    cbn [X86HeapDefs.waddrs app List.length] in WD. rewrite LK in WD.
    pose proof (WD 0%nat _ eq_refl) as W0. pose proof (WD 1%nat _ eq_refl) as W1. pose proof (WD 4%nat _ eq_refl) as W4.
    cbn [List.length ex5_store X86MemStoreChain.ex5_store Nat.sub Nat.add nth] in W0, W1, W4.
    split; [exact (proj2 W0)|]. split; [exact (proj1 W1)|exact (proj2 W4)].
Qed.
Print Assumptions rv_store_example.

(* ---------- load: a shared two-block object with five fields behind three variables ---------- *)
Definition ex3_existing : ctx := map (fun i => mkb ("v"%string, i) Ext I64) [0; 1; 2]%N.
Definition ex3_state : rstate :=
  let r := rset (rset (rset (rset (init_state []) HEAP (Some (HEAP_BASE + 192))) FREE (Some (HEAP_BASE + 256))) (rtp 4) (Some 777)) (rtp 6) (Some HEAP_BASE) in
  fold_left (fun s (az : Z * Z) => sstore s (HEAP_BASE + fst az) (snd az))
            [(0, 1); (24, 11); (32, HEAP_BASE + 128); (40, 22); (48, HEAP_BASE + 64); (64 + 24, 33); (64 + 40, 44); (64 + 56, 55)] r.
Definition ex3_code : list rcode := match r_load ex5_store ex3_existing 0 with Ok (cs, _) => cs | Err _ => [] end.

Example rv_load_example :
  exists lc', r_load ex5_store ex3_existing 0 = Ok (ex3_code, lc') /\
  hword ex3_state HEAP_BASE = 1 /\ rget ex3_state (rtp 4) = Some 777 /\
  exists s', star (mk_image ex3_code) 1 ex3_state (padd 1 (List.length ex3_code)) s' /\
     st_eqB (abs_heap (HEAP_BASE + 256) s') (Heap.load_object 1 HEAP_BASE (abs_heap (HEAP_BASE + 256) ex3_state)) /\
     rget s' (rtp 7) = Some 11 /\ rget s' (rtp 8) = Some (HEAP_BASE + 128) /\ rget s' (rtp 15) = Some 55 /\
     rget s' (rtp 4) = Some 777.
Proof.
  assert (Hx : exists lc', r_load ex5_store ex3_existing 0 = Ok (ex3_code, lc')) by (eexists; vm_compute; reflexivity).
  destruct Hx as [lc' Hx]. exists lc'. split; [exact Hx|]. split; [vm_compute; reflexivity|]. split; [vm_compute; reflexivity|].
  assert (PL : placed (mk_image ex3_code) 1 ex3_code) by (apply placed_whole; apply X86MemStore.nodupb_sound; vm_compute; reflexivity).
  assert (W : forall o, hword ex3_state (HEAP_BASE + o) =
     if o =? 120 then 55 else if o =? 104 then 44 else if o =? 88 then 33 else if o =? 48 then HEAP_BASE + 64 else
     if o =? 40 then 22 else if o =? 32 then HEAP_BASE + 128 else if o =? 24 then 11 else if o =? 0 then 1 else 0).
  { intros o. unfold ex3_state. cbn [fold_left fst snd]. rewrite !hword_sstore by (vm_compute; reflexivity).
    rewrite !hword_rset. replace (hword (init_state []) (HEAP_BASE + o)) with 0 by (unfold hword, init_state; cbn [heap]; now rewrite PM.gempty).
    unfold HEAP_BASE.
    repeat match goal with |- context [?a =? ?b] => destruct (Z.eqb_spec a b); try lia end; reflexivity. }
  destruct (rv_load_chain (mk_image ex3_code) 1 ex5_store ex3_existing 0 ex3_code lc' ex3_state HEAP_BASE (HEAP_BASE + 256) Hx ltac:(discriminate) PL)
    as (s' & ST & EQ & V & O & _).
  - vm_compute; reflexivity.
  - exact (Bk 0 ltac:(lia)).
  - eexists. vm_compute. reflexivity.
  - eexists. vm_compute. reflexivity.
  - unfold ex5_store, X86MemStoreChain.ex5_store. cbn [X86MemLoadChain.lf_share_ok List.length]. change (3 - X86.bp_n X86.Last)%N with 3%N. change (3 - X86.bp_n X86.Other)%N with 2%N.
    change (rest_len 5 3) with 2%nat. cbn [firstn skipn List.length]. change (rest_len 2 2) with 0%nat. cbn [firstn skipn List.length X86MemLoadChain.lf_ptr].
    change (rest_len 2 (3 - X86.bp_n X86.Other)) with 0%nat. cbn [firstn X86MemLoadChain.lf_ptr]. fo.
    replace (hword ex3_state (HEAP_BASE + 48)) with (HEAP_BASE + 64 * 1) by (rewrite W; reflexivity).
    split; [split; [exact I|]|].
    + split; [exact (Bk 0 ltac:(lia))|]. split; [|split].
      * intros j Hj. assert (Hc : (j = 0 \/ j = 1)%N) by lia. destruct Hc as [-> | ->]; rewrite ?fo_val; cbn [tnum_n Z.of_N Z.mul Z.add Pos.mul Pos.add]; rewrite W; cbn; auto.
        right. exact (Bk 2 ltac:(lia)).
      * intros j Hj. cbn in Hj. lia.
      * intros i b Hi Hb. destruct i as [|[|i]]; cbn in Hi; try (destruct i; discriminate); inversion Hi; subst b; cbn in Hb; try discriminate.
        change (hword ex3_state (HEAP_BASE + 16) = 0). rewrite W. reflexivity.
    + split; [exact (Bk 1 ltac:(lia))|]. split; [|split].
      * intros j Hj. assert (Hc : (j = 0 \/ j = 1 \/ j = 2)%N) by lia.
        destruct Hc as [->|[->| ->]]; rewrite ?fo_val; cbn [tnum_n Z.of_N Z.mul Z.add Pos.mul Pos.add]; rewrite <- Z.add_assoc, W; cbn; auto.
      * intros j Hj. cbn in Hj. lia.
      * intros i b Hi Hb. destruct i as [|[|[|i]]]; cbn in Hi; try (destruct i; discriminate); inversion Hi; subst b; cbn in Hb; try discriminate;
          first [change (hword ex3_state (HEAP_BASE + (64 * 1 + 16)) = 0)|change (hword ex3_state (HEAP_BASE + (64 * 1 + 48)) = 0)]; rewrite W; reflexivity.
  - intros x Hx'. destruct Hx' as (k & Hk & -> & Hhi). rewrite W.
    cbn [List.length ex5_store X86MemStoreChain.ex5_store]. unfold min_int, max_int, two63, HEAP_BASE.
    repeat match goal with |- context [?a =? ?b] => destruct (Z.eqb_spec a b) end; lia.
  - exists s'. split; [exact ST|]. split; [exact EQ|].
    destruct (V 0%nat _ eq_refl) as [V0 _]. destruct (V 1%nat _ eq_refl) as [_ V1]. destruct (V 4%nat _ eq_refl) as [V4 _].
    specialize (V1 ltac:(discriminate)). specialize (O 4%N ltac:(cbn; lia)).
    split; [|split; [|split]].
    + etransitivity; [exact V0|]. vm_compute; reflexivity.
    + etransitivity; [exact V1|]. vm_compute; reflexivity.
    + etransitivity; [exact V4|]. vm_compute; reflexivity.
    + etransitivity; [exact O|]. vm_compute. reflexivity.
Qed.
Print Assumptions rv_load_example.
