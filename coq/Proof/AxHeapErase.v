(* Erasure: the instrumented machine of Sem/AxHeap.v computes the observation of the linear machine
   `exec_linear` of Sem/AxSem.v (for every program, well-typed or not: the heap component never
   influences values or control). *)
From Coq Require Import List ZArith NArith String Bool Lia.
From SCC Require Import Base.Sexp Lang.AxSyn Sem.AxSem Sem.AxHeap.
From SCC Require Model.Heap.
Import ListNotations.
Open Scope list_scope.

Lemma erase_app a b : erase_env (a ++ b) = erase_env a ++ erase_env b.
Proof. apply map_app. Qed.
Lemma erase_attach : forall e ps, erase_env (attach e ps) = e.
Proof. induction e as [|xv e IH]; intros ps; cbn; auto. destruct ps; cbn; now rewrite IH. Qed.
Lemma erase_length he : List.length (erase_env he) = List.length he.
Proof. apply map_length. Qed.
Lemma map_snd_erase he : map snd (erase_env he) = map h_val he.
Proof. unfold erase_env. rewrite map_map. reflexivity. Qed.
Lemma attach_length : forall e ps, List.length (attach e ps) = List.length e.
Proof. induction e as [|xv e IH]; intros ps; cbn; auto. destruct ps; cbn; now rewrite IH. Qed.

Lemma hlookup_erase : forall he x,
  lookup (erase_env he) x = match hlookup he x with Some en => Some (h_val en) | None => None end.
Proof.
  induction he as [|[[y v] q] he IH]; intros x; cbn; auto.
  unfold h_id; cbn. destruct (N.eqb (idn y) x); auto.
Qed.

Lemma hsubst_erase : forall re he,
  match hsubst he re with
  | Some he' => exists vs, lookups (erase_env he) (map snd re) = Some vs /\
                           bind (map (fun r => bvar (fst r)) re) vs = Some (erase_env he')
  | None => lookups (erase_env he) (map snd re) = None
  end.
Proof.
  induction re as [|[nb old] re IH]; intros he; cbn [hsubst map lookups].
  - exists []. split; reflexivity.
  - specialize (IH he). unfold lookup_id. rewrite hlookup_erase. cbn [snd].
    destruct (hlookup he (idn old)) as [en|]; [|reflexivity].
    destruct (hsubst he re) as [he'|].
    + destruct IH as (vs & H1 & H2). exists (h_val en :: vs). rewrite H1. split; [reflexivity|].
      cbn [bind fst]. rewrite H2. reflexivity.
    + rewrite IH. reflexivity.
Qed.

Lemma split_last_erase n he :
  split_last n (erase_env he) =
  match split_last n he with Some (a, b) => Some (erase_env a, erase_env b) | None => None end.
Proof.
  unfold split_last. rewrite erase_length. destruct (Nat.leb n (List.length he)); auto.
  unfold erase_env. now rewrite firstn_map, skipn_map.
Qed.

Theorem hexec_erase p : forall fuel c out tr,
  fst (fst (hexec fuel p c out tr)) = exec_linear fuel p (erase_env (hc_env c)) (hc_stmt c) out.
Proof.
  induction fuel as [|fuel IH]; intros [he hs s] out tr; [reflexivity|].
  cbn [hexec exec_linear hc_env hc_heap hc_stmt].
  destruct s as [re next|l args|v t tag args next|v t cls|v t [cenv|] cls next|v tag t args|n v next|a o b v next|nl v next|so a b t el|v];
    cbn [hstep].
  - (* substitute *)
    pose proof (hsubst_erase re he) as H. destruct (hsubst he re) as [he'|].
    + destruct H as (vs & H1 & H2). rewrite H1, H2. rewrite IH. reflexivity.
    + rewrite H. reflexivity.
  - (* call *)
    destruct (find_def p l) as [d|]; [|reflexivity].
    destruct (bind (vars (dctx d)) (map snd (erase_env he))) as [e'|]; [|reflexivity].
    rewrite IH. cbn [hc_env hc_stmt]. now rewrite erase_attach.
  - (* let *)
    rewrite split_last_erase. destruct (ty_name t) as [tn|]; [|reflexivity].
    destruct (split_last (List.length args) he) as [[he0 fs]|]; [|reflexivity].
    destruct (ids_eqb (env_ids (erase_env fs)) (ids args)); [|reflexivity].
    rewrite IH. cbn [hc_env hc_stmt]. rewrite erase_app, map_snd_erase. reflexivity.
  - (* switch *)
    rewrite split_last_erase. destruct (split_last 1 he) as [[he0 l]|]; [|reflexivity].
    destruct l as [|[[x v0] q] [|en2 l]]; cbn [erase_env map fst]; [reflexivity| |destruct v0; reflexivity].
    destruct v0 as [z|ty tg fs|ty cs ce]; [reflexivity| |reflexivity].
    destruct (N.eqb (idn x) (idn v)); [|reflexivity].
    destruct (find_clause cls tg) as [c|]; [|reflexivity].
    destruct (bind (vars (cl_ctx c)) fs) as [e1|]; [|reflexivity].
    rewrite IH. cbn [hc_env hc_stmt]. rewrite erase_app, erase_attach. reflexivity.
  - (* create, annotated *)
    rewrite split_last_erase. destruct (ty_name t) as [tn|]; [|reflexivity].
    destruct (split_last (List.length cenv) he) as [[he0 cap]|]; [|reflexivity].
    destruct (ids_eqb (env_ids (erase_env cap)) (ids cenv)); [|reflexivity].
    rewrite map_snd_erase. destruct (bind (vars cenv) (map h_val cap)) as [ce|]; [|reflexivity].
    rewrite IH. cbn [hc_env hc_stmt]. rewrite erase_app. reflexivity.
  - reflexivity.
  - (* invoke *)
    rewrite split_last_erase. destruct (split_last 1 he) as [[he0 l]|]; [|reflexivity].
    destruct l as [|[[x v0] q] [|en2 l]]; cbn [erase_env map fst]; [reflexivity| |destruct v0; reflexivity].
    destruct v0 as [z|ty tg fs|ty cs ce]; [reflexivity|reflexivity|].
    destruct (N.eqb (idn x) (idn v)); [|reflexivity].
    destruct (find_clause cs tag) as [c|]; [|reflexivity].
    fold (erase_env he0).
    destruct (bind (vars (cl_ctx c)) (map snd (erase_env he0))) as [e1|]; [|reflexivity].
    rewrite IH. cbn [hc_env hc_stmt]. rewrite erase_app, !erase_attach. reflexivity.
  - (* literal *)
    rewrite IH. cbn [hc_env hc_stmt]. rewrite erase_app. reflexivity.
  - (* op *)
    destruct (lookup_int (erase_env he) a) as [x|]; [|reflexivity].
    destruct (lookup_int (erase_env he) b) as [y|]; [|reflexivity].
    destruct (eval_op o x y) as [z|w]; [|reflexivity].
    rewrite IH. cbn [hc_env hc_stmt]. rewrite erase_app. reflexivity.
  - (* print *)
    destruct (lookup_int (erase_env he) v) as [z|]; [|reflexivity].
    rewrite IH. reflexivity.
  - (* ifc *)
    destruct (lookup_int (erase_env he) a) as [x|]; [|reflexivity].
    destruct (match b with Some b0 => lookup_int (erase_env he) b0 | None => Some 0%Z end) as [y|]; [|reflexivity].
    rewrite IH. reflexivity.
  - (* exit *)
    destruct (lookup_int (erase_env he) v) as [z|]; reflexivity.
Qed.

(* whole programs: the instrumented run observes what run_linear observes *)
Theorem hrun_prog_erase fuel base p args :
  match hrun_prog fuel base p args with
  | Some r => fst (fst r) = run_linear fuel p args
  | None => exists w, run_linear fuel p args = ([], OStuck w)
  end.
Proof.
  unfold hrun_prog, run_linear. destruct (pdefs p) as [|d ds]; [eexists; reflexivity|].
  destruct (entry_env d args) as [e|]; [|eexists; reflexivity].
  rewrite hexec_erase. unfold hinit; cbn [hc_env hc_stmt]. now rewrite erase_attach.
Qed.
