(* The move graph and the reference-count updates of a Substitute statement (substitution.rs):
   (A) the edges of `connections (transpose re ctx) ctx (map fst re)`,
   (B) in-degree <= 1, duplicate-free target sets, sorted keys,
   (C) one reference-count operation per object variable, in binding order,
   generically over a back end satisfying [backend_ok], and the x86 instance. *)
From Coq Require Import List ZArith NArith String Bool Lia Sorted Permutation.
From SCC Require Import Base.Sexp Lang.AxSyn Model.ParMoves Model.Backend Model.X86.
Import ListNotations.
(* AxSyn's [ifsort] constructors shadow those of [comparison] *)
Local Notation Lt := Datatypes.Lt (only parsing).
Local Notation Gt := Datatypes.Gt (only parsing).

(* ================= strict total orders given by a comparison function ================= *)
Record sto {K : Type} (cmp : K -> K -> comparison) : Prop := {
  sto_eq : forall a b, cmp a b = Datatypes.Eq <-> a = b;
  sto_antisym : forall a b, cmp b a = CompOpp (cmp a b);
  sto_trans : forall a b c, cmp a b = Lt -> cmp b c = Lt -> cmp a c = Lt }.

Definition lexc {A B : Type} (c1 : A -> A -> comparison) (c2 : B -> B -> comparison) (a b : A * B) : comparison :=
  match c1 (fst a) (fst b) with Datatypes.Eq => c2 (snd a) (snd b) | Lt => Lt | Gt => Gt end.

Lemma sto_refl {K} (cmp : K -> K -> comparison) : sto cmp -> forall a, cmp a a = Datatypes.Eq.
Proof. intros S a. now apply (sto_eq _ S). Qed.

Lemma sto_lex {A B} (c1 : A -> A -> comparison) (c2 : B -> B -> comparison) :
  sto c1 -> sto c2 -> sto (lexc c1 c2).
Proof.
  intros S1 S2. split.
  - intros [a1 a2] [b1 b2]. unfold lexc; cbn. split.
    + destruct (c1 a1 b1) eqn:E1; try discriminate. intros E2.
      apply (sto_eq _ S1) in E1. apply (sto_eq _ S2) in E2. congruence.
    + intros E. inversion E; subst. now rewrite (sto_refl _ S1), (sto_refl _ S2).
  - intros [a1 a2] [b1 b2]. unfold lexc; cbn.
    rewrite (sto_antisym _ S1 a1 b1). destruct (c1 a1 b1); cbn; auto. apply (sto_antisym _ S2).
  - intros [a1 a2] [b1 b2] [d1 d2]. unfold lexc; cbn.
    destruct (c1 a1 b1) eqn:E1; try discriminate; destruct (c1 b1 d1) eqn:E2; try discriminate; intros H1 H2.
    + apply (sto_eq _ S1) in E1, E2. subst. rewrite (sto_refl _ S1). eapply (sto_trans _ S2); eauto.
    + apply (sto_eq _ S1) in E1. subst. now rewrite E2.
    + apply (sto_eq _ S1) in E2. subst. now rewrite E1.
    + now rewrite (sto_trans _ S1 _ _ _ E1 E2).
Qed.

Lemma sto_inj {A K} (cmp : K -> K -> comparison) (f : A -> K) :
  sto cmp -> (forall a b, f a = f b -> a = b) -> sto (fun a b => cmp (f a) (f b)).
Proof.
  intros S I. split.
  - intros a b. rewrite (sto_eq _ S). split; [apply I|congruence].
  - intros; apply (sto_antisym _ S).
  - intros a b c; apply (sto_trans _ S).
Qed.

Lemma sto_ext {K} (c1 c2 : K -> K -> comparison) : (forall a b, c1 a b = c2 a b) -> sto c1 -> sto c2.
Proof.
  intros E S. split.
  - intros; rewrite <- E; apply (sto_eq _ S).
  - intros; rewrite <- !E; apply (sto_antisym _ S).
  - intros a b c; rewrite <- !E; apply (sto_trans _ S).
Qed.

Lemma sto_N : sto N.compare.
Proof.
  split.
  - apply N.compare_eq_iff.
  - intros; apply N.compare_antisym.
  - intros a b c. rewrite !N.compare_lt_iff. lia.
Qed.

Lemma sto_ascii : sto Ascii.compare.
Proof.
  apply (sto_inj N.compare Ascii.N_of_ascii sto_N).
  intros a b E. rewrite <- (Ascii.ascii_N_embedding a), <- (Ascii.ascii_N_embedding b). now rewrite E.
Qed.

Lemma sto_string : sto String.compare.
Proof.
  assert (R : forall s, String.compare s s = Datatypes.Eq).
  { intros s. pose proof (String.compare_antisym s s) as H. destruct (String.compare s s); cbn in H; congruence. }
  split.
  - intros a b; split; [apply String.compare_eq_iff|intros ->; apply R].
  - intros; apply String.compare_antisym.
  - induction a as [|x a IH]; intros [|y b] [|z c]; cbn; try congruence.
    destruct (Ascii.compare x y) eqn:E1; try discriminate; destruct (Ascii.compare y z) eqn:E2; try discriminate; intros H1 H2.
    + apply (sto_eq _ sto_ascii) in E1, E2. subst. rewrite (sto_refl _ sto_ascii). eauto.
    + apply (sto_eq _ sto_ascii) in E1. subst. now rewrite E2.
    + apply (sto_eq _ sto_ascii) in E2. subst. now rewrite E1.
    + now rewrite (sto_trans _ sto_ascii _ _ _ E1 E2).
Qed.

Lemma sto_ident : sto ident_compare.
Proof.
  apply (sto_ext (lexc String.compare N.compare)); [|apply sto_lex; [apply sto_string|apply sto_N]].
  intros [a1 a2] [b1 b2]. unfold lexc, ident_compare; cbn. now destruct (String.compare a1 b1).
Qed.

Lemma sto_ty : sto ty_compare.
Proof.
  split.
  - intros [|x] [|y]; cbn; try (split; congruence).
    rewrite (sto_eq _ sto_ident). split; congruence.
  - intros [|x] [|y]; cbn; auto. apply (sto_antisym _ sto_ident).
  - intros [|x] [|y] [|z]; cbn; try congruence. apply (sto_trans _ sto_ident).
Qed.

Lemma sto_binding : sto binding_compare.
Proof.
  apply (sto_ext (fun a b => lexc ident_compare (lexc N.compare ty_compare)
                                  (bvar a, (chi_rank (bchi a), bty a)) (bvar b, (chi_rank (bchi b), bty b)))).
  - intros a b. unfold lexc, binding_compare; cbn.
    destruct (ident_compare (bvar a) (bvar b)); auto.
  - apply (sto_inj (lexc ident_compare (lexc N.compare ty_compare))
                   (fun a => (bvar a, (chi_rank (bchi a), bty a)))).
    + apply sto_lex; [apply sto_ident|apply sto_lex; [apply sto_N|apply sto_ty]].
    + intros [v1 c1 t1] [v2 c2 t2]; cbn. intros E. inversion E; subst.
      f_equal. destruct c1, c2; cbn in *; congruence.
Qed.

(* ================= association lists and sets kept in key order ================= *)
Section Ord.
Context {K : Type} (cmp : K -> K -> comparison).
Hypothesis Heq : forall a b, cmp a b = Datatypes.Eq <-> a = b.

Definition ceqb (a b : K) : bool := match cmp a b with Datatypes.Eq => true | _ => false end.
Lemma ceqb_spec a b : reflect (a = b) (ceqb a b).
Proof.
  unfold ceqb. destruct (cmp a b) eqn:E; constructor.
  - now apply Heq.
  - intros H; apply Heq in H; congruence.
  - intros H; apply Heq in H; congruence.
Qed.
Lemma ceqb_refl a : ceqb a a = true.
Proof. destruct (ceqb_spec a a); congruence. Qed.

Lemma lookup_map_insert k (v : list K) m k' :
  lookup K ceqb (map_insert cmp k v m) k' = if ceqb k' k then Some v else lookup K ceqb m k'.
Proof.
  induction m as [|[k1 v1] m IH]; cbn [map_insert lookup]; [reflexivity|].
  destruct (cmp k k1) eqn:E; cbn [lookup].
  - apply Heq in E; subst. destruct (ceqb k' k1); reflexivity.
  - reflexivity.
  - rewrite IH. destruct (ceqb_spec k' k1), (ceqb_spec k' k); auto.
    subst. rewrite (proj2 (Heq _ _) eq_refl) in E. discriminate.
Qed.

Lemma In_map_insert {V} (kv : K * V) k v m : In kv (map_insert cmp k v m) -> kv = (k, v) \/ In kv m.
Proof.
  induction m as [|[k1 v1] m IH]; cbn [map_insert]; [cbn; intuition|].
  destruct (cmp k k1); cbn; intuition.
Qed.

Lemma keys_map_insert {V} x k (v : V) m : In x (map fst (map_insert cmp k v m)) <-> x = k \/ In x (map fst m).
Proof.
  induction m as [|[k1 v1] m IH]; cbn [map_insert map fst]; [cbn; intuition|].
  destruct (cmp k k1) eqn:E; cbn [map fst In].
  - apply Heq in E; subst. intuition.
  - intuition.
  - rewrite IH. intuition.
Qed.

Lemma map_insert_perm {V} k (v : V) m :
  (forall k', In k' (map fst m) -> k' <> k) -> Permutation (map_insert cmp k v m) ((k, v) :: m).
Proof.
  induction m as [|[k1 v1] m IH]; cbn [map_insert]; intros F; [reflexivity|].
  destruct (cmp k k1) eqn:E.
  - apply Heq in E. exfalso. apply (F k1); cbn; auto.
  - reflexivity.
  - rewrite IH; [apply perm_swap|]. intros k' H; apply F; cbn; auto.
Qed.

Lemma In_set_insert x k s : In x (set_insert cmp k s) <-> x = k \/ In x s.
Proof.
  induction s as [|k1 s IH]; cbn [set_insert]; [cbn; intuition|].
  destruct (cmp k k1) eqn:E; cbn [In].
  - apply Heq in E; subst. intuition.
  - intuition.
  - rewrite IH. intuition.
Qed.

Lemma In_set_of_list x l : In x (set_of_list cmp l) <-> In x l.
Proof.
  unfold set_of_list.
  assert (G : forall s, In x (fold_left (fun s k => set_insert cmp k s) l s) <-> In x l \/ In x s).
  { induction l as [|k l IH]; intros s; cbn [fold_left]; [cbn; tauto|].
    rewrite IH, In_set_insert. cbn; intuition. }
  rewrite G. cbn; tauto.
Qed.

(* lookups after a sequence of inserts, when equal keys carry equal values *)
Definition insf (m : list (K * list K)) (kv : K * list K) := map_insert cmp (fst kv) (snd kv) m.

Lemma lookup_fold_insert kvs : forall m a v,
  (forall v1 v2, In (a, v1) kvs -> In (a, v2) kvs -> v1 = v2) ->
  (lookup K ceqb (fold_left insf kvs m) a = Some v <->
   In (a, v) kvs \/ (~ In a (map fst kvs) /\ lookup K ceqb m a = Some v)).
Proof.
  induction kvs as [|[k0 v0] kvs IH]; intros m a v F; cbn [fold_left].
  - cbn; tauto.
  - rewrite IH by (intros; apply F; cbn; auto).
    unfold insf. cbn [fst snd]. rewrite lookup_map_insert. cbn [map fst In].
    destruct (ceqb_spec a k0) as [->|N].
    + split.
      * intros [H|[H1 H2]]; [auto|]. inversion H2; subst. auto.
      * intros [[H|H]|[H _]]; [|left; auto|exfalso; auto].
        inversion H; subst.
        destruct (in_dec (fun x y => reflect_dec _ _ (ceqb_spec x y)) k0 (map fst kvs)) as [I|I]; [|auto].
        apply in_map_iff in I as ([k1 v1] & E1 & I). cbn in E1; subst.
        left. rewrite (F v v1); cbn; auto.
    + split.
      * intros [H|[H1 H2]]; [auto|]. right; split; auto. intros [E|E]; [congruence|auto].
      * intros [[H|H]|[H1 H2]]; [inversion H; congruence|auto|]. right; split; auto.
Qed.

Lemma keys_fold_insert kvs : forall m x,
  In x (map fst (fold_left insf kvs m)) <-> In x (map fst kvs) \/ In x (map fst m).
Proof.
  induction kvs as [|[k0 v0] kvs IH]; intros m x; cbn [fold_left]; [cbn; tauto|].
  rewrite IH. unfold insf. rewrite keys_map_insert. cbn. intuition.
Qed.

Lemma values_fold_insert (P : list K -> Prop) kvs : forall m,
  Forall (fun kv => P (snd kv)) kvs -> Forall (fun kv => P (snd kv)) m ->
  Forall (fun kv => P (snd kv)) (fold_left insf kvs m).
Proof.
  induction kvs as [|[k0 v0] kvs IH]; intros m F1 F2; cbn [fold_left]; [auto|].
  inversion F1; subst. apply IH; auto.
  apply Forall_forall. intros kv H. apply In_map_insert in H as [->|H]; [auto|].
  rewrite Forall_forall in F2; auto.
Qed.

Lemma lookup_In m a v : lookup K ceqb m a = Some v -> exists k, In (k, v) m.
Proof.
  induction m as [|[k1 v1] m IH]; cbn; [discriminate|].
  destruct (ceqb a k1).
  - intros E; inversion E; subst. eauto.
  - intros H. destruct (IH H) as (k & I). eauto.
Qed.

Lemma lookup_keys m a : In a (map fst m) <-> exists v, lookup K ceqb m a = Some v.
Proof.
  induction m as [|[k1 v1] m IH]; cbn.
  - split; [tauto|intros (v & H); discriminate].
  - destruct (ceqb_spec a k1) as [->|N].
    + split; eauto.
    + rewrite IH. split; [intros [H|H]; [congruence|auto]|auto].
Qed.

(* ---------- sortedness ---------- *)
Hypothesis Hanti : forall a b, cmp b a = CompOpp (cmp a b).
Hypothesis Htrans : forall a b c, cmp a b = Lt -> cmp b c = Lt -> cmp a c = Lt.
Definition clt (a b : K) : Prop := cmp a b = Lt.

Lemma gt_lt a b : cmp a b = Gt -> cmp b a = Lt.
Proof. intros H. rewrite Hanti, H. reflexivity. Qed.

Lemma set_insert_sorted k s : StronglySorted clt s -> StronglySorted clt (set_insert cmp k s).
Proof.
  induction s as [|k1 s IH]; cbn [set_insert]; intros S.
  - repeat constructor.
  - apply StronglySorted_inv in S as (S & F). destruct (cmp k k1) eqn:E.
    + constructor; auto.
    + constructor; [constructor; auto|]. constructor; [exact E|].
      eapply Forall_impl; [|exact F]. intros x Hx. eapply Htrans; eauto.
    + constructor; [auto|]. apply Forall_forall. intros x Hx.
      apply In_set_insert in Hx as [->|Hx]; [now apply gt_lt|].
      rewrite Forall_forall in F; auto.
Qed.

Lemma set_of_list_sorted l : StronglySorted clt (set_of_list cmp l).
Proof.
  unfold set_of_list.
  assert (G : forall s, StronglySorted clt s -> StronglySorted clt (fold_left (fun s k => set_insert cmp k s) l s)).
  { induction l as [|k l IH]; intros s S; cbn [fold_left]; auto using set_insert_sorted. }
  apply G. constructor.
Qed.

Lemma sorted_nodup l : StronglySorted clt l -> NoDup l.
Proof.
  induction 1 as [|a l S IH F]; constructor; auto.
  intros I. rewrite Forall_forall in F. specialize (F _ I). unfold clt in F.
  assert (cmp a a = Datatypes.Eq) by now apply Heq. congruence.
Qed.

Lemma map_insert_sorted {V} k (v : V) m :
  StronglySorted clt (map fst m) -> StronglySorted clt (map fst (map_insert cmp k v m)).
Proof.
  induction m as [|[k1 v1] m IH]; cbn [map_insert map fst]; intros S.
  - repeat constructor.
  - apply StronglySorted_inv in S as (S & F). destruct (cmp k k1) eqn:E; cbn [map fst].
    + apply Heq in E; subst. constructor; auto.
    + constructor; [constructor; auto|]. constructor; [exact E|].
      eapply Forall_impl; [|exact F]. intros x Hx. eapply Htrans; eauto.
    + constructor; [auto|]. apply Forall_forall. intros x Hx.
      apply keys_map_insert in Hx as [->|Hx]; [now apply gt_lt|].
      rewrite Forall_forall in F; auto.
Qed.

Lemma fold_insert_sorted kvs : forall m,
  StronglySorted clt (map fst m) -> StronglySorted clt (map fst (fold_left insf kvs m)).
Proof.
  induction kvs as [|kv kvs IH]; intros m S; cbn [fold_left]; auto.
  apply IH. apply map_insert_sorted; auto.
Qed.
End Ord.

(* ================= small list facts ================= *)
Lemma rmap_Forall2 {X Y} (f : X -> res Y) l : forall ys,
  rmap f l = Ok ys -> Forall2 (fun x y => f x = Ok y) l ys.
Proof.
  induction l as [|x l IH]; cbn; intros ys H.
  - inversion H; constructor.
  - destruct (f x) eqn:E; cbn in H; try discriminate.
    destruct (rmap f l) eqn:E2; cbn in H; try discriminate.
    inversion H; subst. constructor; auto.
Qed.
Lemma Forall2_In_l {X Y} (R : X -> Y -> Prop) l l' x :
  Forall2 R l l' -> In x l -> exists y, In y l' /\ R x y.
Proof. induction 1; cbn; [tauto|]. intros [<-|H1]; [eauto|]. destruct (IHForall2 H1) as (y0 & ? & ?); eauto. Qed.
Lemma Forall2_In_r {X Y} (R : X -> Y -> Prop) l l' y :
  Forall2 R l l' -> In y l' -> exists x, In x l /\ R x y.
Proof. induction 1; cbn; [tauto|]. intros [<-|H1]; [eauto|]. destruct (IHForall2 H1) as (x0 & ? & ?); eauto. Qed.
Lemma Permutation_filter {X} (f : X -> bool) l l' : Permutation l l' -> Permutation (filter f l) (filter f l').
Proof.
  induction 1; cbn.
  - constructor.
  - destruct (f x); auto.
  - destruct (f x), (f y); auto. apply perm_swap.
  - etransitivity; eauto.
Qed.
Lemma StronglySorted_filter {X} (R : X -> X -> Prop) (f : X -> bool) l :
  StronglySorted R l -> StronglySorted R (filter f l).
Proof.
  induction 1 as [|a l S IH F]; cbn; [constructor|].
  destruct (f a); auto. constructor; auto.
  rewrite Forall_forall in *. intros x Hx. apply filter_In in Hx as (Hx & _). auto.
Qed.
Lemma StronglySorted_map_inv {X Y} (R : Y -> Y -> Prop) (f : X -> Y) l :
  StronglySorted R (map f l) -> StronglySorted (fun x y => R (f x) (f y)) l.
Proof.
  induction l as [|a l IH]; cbn; intros S; [constructor|].
  apply StronglySorted_inv in S as (S & F). constructor; auto.
  rewrite Forall_forall in *. intros x Hx. apply F. now apply in_map.
Qed.

(* ================= positions in a context ================= *)
Lemma position_of_nth c : forall i b k,
  NoDup (ids c) -> nth_error c i = Some b -> position_of c (idn (bvar b)) k = Some (k + N.of_nat i)%N.
Proof.
  induction c as [|b0 c IH]; intros i b k ND H; [destruct i; discriminate|].
  cbn in ND. inversion ND as [|? ? NI ND']; subst. destruct i as [|i]; cbn in H; cbn [position_of].
  - inversion H; subst. rewrite N.eqb_refl. f_equal. lia.
  - destruct (N.eqb_spec (idn (bvar b0)) (idn (bvar b))) as [E|E].
    + exfalso. apply NI. rewrite E. apply nth_error_In in H.
      unfold ids. now apply (in_map (fun b => idn (bvar b))).
    + rewrite (IH i b (k + 1)%N ND' H). f_equal. lia.
Qed.
Lemma position_of_inv c : forall id k p,
  position_of c id k = Some p ->
  exists i b, p = (k + N.of_nat i)%N /\ nth_error c i = Some b /\ idn (bvar b) = id.
Proof.
  induction c as [|b0 c IH]; intros id k p H; cbn in H; [discriminate|].
  destruct (N.eqb_spec (idn (bvar b0)) id) as [E|E].
  - inversion H; subst. exists O, b0. cbn. repeat split. lia.
  - apply IH in H as (i & b & -> & Hn & Hi). exists (S i), b. cbn. repeat split; auto. lia.
Qed.
Lemma ids_nth_inj c i i' b b' :
  NoDup (ids c) -> nth_error c i = Some b -> nth_error c i' = Some b' ->
  idn (bvar b) = idn (bvar b') -> i = i'.
Proof.
  intros ND H H' E. rewrite NoDup_nth_error in ND. apply ND.
  - unfold ids. rewrite map_length. apply nth_error_Some. congruence.
  - unfold ids. rewrite (map_nth_error _ _ _ H), (map_nth_error _ _ _ H'). now rewrite E.
Qed.

Section G.
Context {Code Temp : Type} (B : backend Code Temp).

(* what the generic code needs from a back end's Temporary type and numbering *)
Record backend_ok : Prop := {
  cmp_eq : forall a b, b_tcompare B a b = Datatypes.Eq <-> a = b;
  cmp_antisym : forall a b, b_tcompare B b a = CompOpp (b_tcompare B a b);
  cmp_trans : forall a b c, b_tcompare B a b = Lt -> b_tcompare B b c = Lt -> b_tcompare B a c = Lt;
  pos_inj : forall p q t, b_temporary_from_position B p = Ok t -> b_temporary_from_position B q = Ok t -> p = q }.

Definition tpos (n : tnum) (i : nat) : res Temp := b_temporary_from_position B (2 * N.of_nat i + tnum_n n).
Definition new_ids (re : list (binding * ident)) : list N := map (fun p => idn (bvar (fst p))) re.

Lemma teqb_spec : backend_ok -> forall a b, reflect (a = b) (teqb B a b).
Proof. intros OKB. exact (ceqb_spec (b_tcompare B) (cmp_eq OKB)). Qed.

Lemma tpos_inj : backend_ok -> forall n n' i i' t, tpos n i = Ok t -> tpos n' i' = Ok t -> n = n' /\ i = i'.
Proof.
  intros OKB n n' i i' t H H'. pose proof (pos_inj OKB _ _ _ H H') as E.
  destruct n, n'; unfold tnum_n in E; split; try reflexivity; try lia.
Qed.

Lemma vt_tpos n c i b :
  NoDup (ids c) -> nth_error c i = Some b -> variable_temporary B n c (idn (bvar b)) = tpos n i.
Proof.
  intros ND H. unfold variable_temporary, tpos. rewrite (position_of_nth c i b 0 ND H).
  now rewrite N.add_0_l.
Qed.
Lemma ids_new re : ids (map fst re) = new_ids re.
Proof. unfold ids, new_ids. now rewrite map_map. Qed.
Lemma vt_tpos_new n re j p :
  NoDup (new_ids re) -> nth_error re j = Some p ->
  variable_temporary B n (map fst re) (idn (bvar (fst p))) = tpos n j.
Proof.
  intros ND H. apply vt_tpos; [now rewrite ids_new|]. now apply map_nth_error.
Qed.

(* ---------- transpose ---------- *)
Definition targets (re : list (binding * ident)) (b : binding) : list N :=
  map (fun p => idn (bvar (fst p))) (filter (fun p => N.eqb (idn (bvar b)) (idn (snd p))) re).

Lemma transpose_fold_perm re l : forall m0,
  NoDup l -> (forall b, In b l -> ~ In b (map fst m0)) ->
  Permutation (fold_left (fun m b => map_insert binding_compare b (targets re b) m) l m0)
              (map (fun b => (b, targets re b)) l ++ m0).
Proof.
  induction l as [|b l IH]; intros m0 ND F; cbn [fold_left map app]; [reflexivity|].
  inversion ND as [|? ? NI ND']; subst.
  rewrite IH; auto.
  - rewrite (map_insert_perm binding_compare (sto_eq _ sto_binding)).
    + symmetry. apply Permutation_middle.
    + intros k' Hk ->. apply (F b); cbn; auto.
  - intros b' Hb' Hk. apply (keys_map_insert binding_compare (sto_eq _ sto_binding)) in Hk as [->|Hk]; [auto|].
    apply (F b'); cbn; auto.
Qed.
Lemma transpose_perm re c :
  NoDup c -> Permutation (transpose re c) (map (fun b => (b, targets re b)) c).
Proof.
  intros ND. unfold transpose.
  rewrite <- (app_nil_r (map _ c)). apply (transpose_fold_perm re c []); auto.
Qed.
Lemma In_transpose re c b tg :
  NoDup c -> (In (b, tg) (transpose re c) <-> In b c /\ tg = targets re b).
Proof.
  intros ND. pose proof (transpose_perm re c ND) as P. split.
  - intros H. apply (Permutation_in _ P) in H. apply in_map_iff in H as (b' & E & H). inversion E; subst; auto.
  - intros (H & ->). apply (Permutation_in _ (Permutation_sym P)). apply in_map_iff; eauto.
Qed.
Lemma transpose_sorted re c :
  StronglySorted (fun a b => binding_compare a b = Lt) (map fst (transpose re c)).
Proof.
  unfold transpose.
  assert (G : forall l m0, StronglySorted (clt binding_compare) (map fst m0) ->
            StronglySorted (clt binding_compare)
              (map fst (fold_left (fun m b => map_insert binding_compare b (targets re b) m) l m0))).
  { induction l as [|b l IH]; intros m0 S; cbn [fold_left]; auto.
    apply IH. apply map_insert_sorted; auto.
    - apply (sto_eq _ sto_binding).
    - apply (sto_antisym _ sto_binding).
    - apply (sto_trans _ sto_binding). }
  apply (G c []). constructor.
Qed.

(* ---------- connections as a sequence of inserts ---------- *)
Definition allowed (n : tnum) (b : binding) : Prop := n = Snd \/ bchi b <> Ext.
Definition op := (tnum * binding * list N)%type.
Definition ops_of (bt : binding * list N) : list op :=
  match bchi (fst bt) with
  | Ext => [(Snd, fst bt, snd bt)]
  | _ => [(Fst, fst bt, snd bt); (Snd, fst bt, snd bt)]
  end.
Definition op_kv (c nc : ctx) (o : op) : res (Temp * list Temp) :=
  let '(n, b, tg) := o in
  dor k <- variable_temporary B n c (idn (bvar b));
  dor ts <- rmap (fun t => variable_temporary B n nc t) tg;
  Ok (k, set_of_list (b_tcompare B) ts).

Lemma In_ops_of o bt : In o (ops_of bt) <-> exists n, allowed n (fst bt) /\ o = (n, fst bt, snd bt).
Proof.
  unfold ops_of, allowed. destruct (bchi (fst bt)) eqn:E; cbn; split.
  - intros [<-|[<-|[]]]; [exists Fst|exists Snd]; (split; [right; discriminate|reflexivity]).
  - intros (n & _ & ->). destruct n; auto.
  - intros [<-|[<-|[]]]; [exists Fst|exists Snd]; (split; [right; discriminate|reflexivity]).
  - intros (n & _ & ->). destruct n; auto.
  - intros [<-|[]]; exists Snd; split; auto.
  - intros (n & [->|A] & ->); [auto|congruence].
Qed.

Definition ins (c nc : ctx) (n : tnum) (b : binding) (tg : list N) (m : list (Temp * list Temp)) :=
  dor k <- variable_temporary B n c (idn (bvar b));
  dor ts <- rmap (fun t => variable_temporary B n nc t) tg;
  Ok (map_insert (b_tcompare B) k (set_of_list (b_tcompare B) ts) m).
Definition conn_step (c nc : ctx) (rm : res (list (Temp * list Temp))) (bt : binding * list N) :=
  dor m <- rm;
  let '(b, tg) := bt in
  match bchi b with
  | Ext => ins c nc Snd b tg m
  | _ => dor m1 <- ins c nc Fst b tg m; ins c nc Snd b tg m1
  end.
Lemma connections_unfold tm c nc : connections B tm c nc = fold_left (conn_step c nc) tm (Ok []).
Proof. reflexivity. Qed.
Lemma ins_ok c nc n b tg m m' :
  ins c nc n b tg m = Ok m' -> exists kv, op_kv c nc (n, b, tg) = Ok kv /\ m' = insf (b_tcompare B) m kv.
Proof.
  unfold ins, op_kv. destruct (variable_temporary B n c _); cbn; try discriminate.
  destruct (rmap _ tg); cbn; try discriminate. intros E; inversion E; subst. eexists; split; eauto.
Qed.
Lemma conn_fold_err c nc tm e : fold_left (conn_step c nc) tm (Err e) = Err e.
Proof. induction tm; cbn; auto. Qed.
Lemma conn_fold c nc tm : forall m am,
  fold_left (conn_step c nc) tm (Ok m) = Ok am ->
  exists kvs, Forall2 (fun o kv => op_kv c nc o = Ok kv) (flat_map ops_of tm) kvs /\
              am = fold_left (insf (b_tcompare B)) kvs m.
Proof.
  induction tm as [|[b tg] tm IH]; intros m am H; cbn [fold_left flat_map] in *.
  - inversion H; subst. exists []. split; constructor.
  - destruct (conn_step c nc (Ok m) (b, tg)) as [m'|e] eqn:E; [|rewrite conn_fold_err in H; discriminate].
    apply IH in H as (kvs & F & ->). unfold conn_step in E; cbn [rbind] in E.
    unfold ops_of; cbn [fst snd]. destruct (bchi b).
    1,2: destruct (ins c nc Fst b tg m) eqn:E1; cbn [rbind] in E; try discriminate;
         apply ins_ok in E1 as (kv1 & K1 & ->); apply ins_ok in E as (kv2 & K2 & ->);
         exists (kv1 :: kv2 :: kvs); split; [repeat constructor; auto|reflexivity].
    apply ins_ok in E as (kv2 & K2 & ->). exists (kv2 :: kvs). split; [repeat constructor; auto|reflexivity].
Qed.

Section Conn.
Hypothesis OKB : backend_ok.
Variables (c : ctx) (re : list (binding * ident)) (am : list (Temp * list Temp)).
Hypothesis ND1 : NoDup (ids c).
Hypothesis ND2 : NoDup (new_ids re).
Hypothesis HC : connections B (transpose re c) c (map fst re) = Ok am.

Lemma op_kv_spec n i b a v :
  nth_error c i = Some b -> op_kv c (map fst re) (n, b, targets re b) = Ok (a, v) ->
  tpos n i = Ok a /\
  forall x, In x v <-> exists j pj, nth_error re j = Some pj /\ idn (snd pj) = idn (bvar b) /\ tpos n j = Ok x.
Proof.
  intros Hi. unfold op_kv. rewrite (vt_tpos n c i b ND1 Hi).
  destruct (tpos n i) as [t|] eqn:T; cbn [rbind]; try discriminate.
  destruct (rmap _ (targets re b)) as [ts|] eqn:R; cbn [rbind]; try discriminate.
  intros E; inversion E; subst. split; auto. intros x.
  rewrite (In_set_of_list _ (cmp_eq OKB)). apply rmap_Forall2 in R. split.
  - intros Hx. destruct (Forall2_In_r _ _ _ _ R Hx) as (t0 & Ht & Vt).
    unfold targets in Ht. apply in_map_iff in Ht as (p & <- & Hp).
    apply filter_In in Hp as (Hp & Q). apply N.eqb_eq in Q.
    apply In_nth_error in Hp as (j & Hj). exists j, p. repeat split; auto.
    now rewrite <- Vt, (vt_tpos_new n re j p ND2 Hj).
  - intros (j & pj & Hj & Q & Tx).
    assert (In (idn (bvar (fst pj))) (targets re b)) as I.
    { unfold targets. apply in_map_iff. exists pj. split; auto. apply filter_In. split.
      - eapply nth_error_In; eauto.
      - apply N.eqb_eq; auto. }
    destruct (Forall2_In_l _ _ _ _ R I) as (y & Hy & Vy). cbn beta in Vy.
    rewrite (vt_tpos_new n re j pj ND2 Hj), Tx in Vy. inversion Vy; subst; auto.
Qed.

Lemma ops_char o :
  In o (flat_map ops_of (transpose re c)) <->
  exists n i b, nth_error c i = Some b /\ allowed n b /\ o = (n, b, targets re b).
Proof.
  pose proof (NoDup_map_inv _ _ ND1) as ND. rewrite in_flat_map. split.
  - intros ([b tg] & H & Ho). apply (In_transpose re c b tg ND) in H as (H & ->).
    apply In_ops_of in Ho as (n & A & ->). cbn [fst snd] in *.
    apply In_nth_error in H as (i & H). eauto 6.
  - intros (n & i & b & H & A & ->). exists (b, targets re b). split.
    + apply In_transpose; auto. split; auto. eapply nth_error_In; eauto.
    + apply In_ops_of. exists n. cbn; auto.
Qed.

Lemma conn_kvs :
  exists kvs, Forall2 (fun o kv => op_kv c (map fst re) o = Ok kv) (flat_map ops_of (transpose re c)) kvs /\
              am = fold_left (insf (b_tcompare B)) kvs [].
Proof. pose proof HC as H. rewrite connections_unfold in H. now apply conn_fold in H. Qed.

Lemma am_lookup a v :
  lookup Temp (teqb B) am a = Some v <->
  exists n i b, nth_error c i = Some b /\ allowed n b /\ op_kv c (map fst re) (n, b, targets re b) = Ok (a, v).
Proof.
  destruct conn_kvs as (kvs & F & ->).
  change (teqb B) with (ceqb (b_tcompare B)).
  assert (CH : forall v0, In (a, v0) kvs <->
            exists n i b, nth_error c i = Some b /\ allowed n b /\ op_kv c (map fst re) (n, b, targets re b) = Ok (a, v0)).
  { intros v0. split.
    - intros H. destruct (Forall2_In_r _ _ _ _ F H) as (o & Ho & K).
      apply ops_char in Ho as (n & i & b & Hi & A & ->). eauto 6.
    - intros (n & i & b & Hi & A & K).
      assert (In (n, b, targets re b) (flat_map ops_of (transpose re c))) as Ho by (apply ops_char; eauto 6).
      destruct (Forall2_In_l _ _ _ _ F Ho) as (kv & Hkv & K'). cbn beta in K'. congruence. }
  rewrite (lookup_fold_insert _ (cmp_eq OKB)).
  - rewrite CH. cbn [lookup]. split; [intros [H|[_ H]]; [auto|discriminate]|auto].
  - intros v1 v2 H1 H2. apply CH in H1 as (n1 & i1 & b1 & Hi1 & A1 & K1). apply CH in H2 as (n2 & i2 & b2 & Hi2 & A2 & K2).
    destruct (op_kv_spec _ _ _ _ _ Hi1 K1) as (T1 & _). destruct (op_kv_spec _ _ _ _ _ Hi2 K2) as (T2 & _).
    destruct (tpos_inj OKB _ _ _ _ _ T1 T2) as (-> & ->). congruence.
Qed.

Lemma all_ok n i b :
  nth_error c i = Some b -> allowed n b ->
  exists a v, op_kv c (map fst re) (n, b, targets re b) = Ok (a, v) /\ lookup Temp (teqb B) am a = Some v.
Proof.
  intros Hi A. destruct conn_kvs as (kvs & F & _).
  assert (In (n, b, targets re b) (flat_map ops_of (transpose re c))) as Ho by (apply ops_char; eauto 6).
  destruct (Forall2_In_l _ _ _ _ F Ho) as ([a v] & Hkv & K). cbn beta in K.
  exists a, v. split; auto. apply am_lookup. eauto 6.
Qed.

Lemma edges_char a b :
  edge Temp (teqb B) am a b <->
    exists i j bi pj n, nth_error c i = Some bi /\ nth_error re j = Some pj /\
       idn (snd pj) = idn (bvar bi) /\ (n = Snd \/ bchi bi <> Ext) /\ tpos n i = Ok a /\ tpos n j = Ok b.
Proof.
  unfold edge. split.
  - intros (ts & L & I). apply am_lookup in L as (n & i & bi & Hi & A & K).
    destruct (op_kv_spec _ _ _ _ _ Hi K) as (T & S). apply S in I as (j & pj & Hj & Q & Tj).
    exists i, j, bi, pj, n. auto 7.
  - intros (i & j & bi & pj & n & Hi & Hj & Q & A & Ti & Tj).
    destruct (all_ok n i bi Hi A) as (a' & v & K & L).
    destruct (op_kv_spec _ _ _ _ _ Hi K) as (T & S).
    assert (a' = a) by congruence. subst a'. exists v. split; auto. apply S. eauto.
Qed.

Lemma am_props :
  indeg1 Temp (teqb B) am /\ nodup_targets Temp (teqb B) am /\
  StronglySorted (fun a b => b_tcompare B a b = Lt) (map fst am) /\
  (forall a, In a (map fst am) -> exists i bi n, nth_error c i = Some bi /\ (n = Snd \/ bchi bi <> Ext) /\ tpos n i = Ok a).
Proof.
  split; [|split; [|split]].
  - intros a a' b E1 E2.
    apply edges_char in E1 as (i1 & j1 & b1 & p1 & n1 & Hi1 & Hj1 & Q1 & A1 & Ti1 & Tj1).
    apply edges_char in E2 as (i2 & j2 & b2 & p2 & n2 & Hi2 & Hj2 & Q2 & A2 & Ti2 & Tj2).
    destruct (tpos_inj OKB _ _ _ _ _ Tj1 Tj2) as (-> & ->).
    assert (p1 = p2) by congruence. subst p2.
    assert (i1 = i2) by (eapply ids_nth_inj; eauto; congruence). subst i2. congruence.
  - intros a ts L. apply am_lookup in L as (n & i & b & Hi & A & K).
    unfold op_kv in K. destruct (variable_temporary B n c _); cbn [rbind] in K; try discriminate.
    destruct (rmap _ (targets re b)) as [ts0|]; cbn [rbind] in K; try discriminate.
    inversion K; subst.
    apply (sorted_nodup (b_tcompare B) (cmp_eq OKB)).
    apply set_of_list_sorted; [apply (cmp_eq OKB)|apply (cmp_antisym OKB)|apply (cmp_trans OKB)].
  - destruct conn_kvs as (kvs & _ & ->).
    apply (fold_insert_sorted (b_tcompare B) (cmp_eq OKB) (cmp_antisym OKB) (cmp_trans OKB)). constructor.
  - intros a Ha. apply (lookup_keys (b_tcompare B) (cmp_eq OKB)) in Ha as (v & L).
    change (ceqb (b_tcompare B)) with (teqb B) in L.
    apply am_lookup in L as (n & i & b & Hi & A & K).
    destruct (op_kv_spec _ _ _ _ _ Hi K) as (T & _). eauto 7.
Qed.
End Conn.

(* (A) the edges of the move graph of a Substitute are exactly: old variable i -> new variable j whose
   source is i, for the second temporary always and for the first temporary of non-Ext variables *)
Theorem connections_edges (OKB : backend_ok) ctx re am :
  NoDup (ids ctx) -> NoDup (new_ids re) ->
  connections B (transpose re ctx) ctx (map fst re) = Ok am ->
  forall a b, edge Temp (teqb B) am a b <->
    exists i j bi pj n, nth_error ctx i = Some bi /\ nth_error re j = Some pj /\
       idn (snd pj) = idn (bvar bi) /\ (n = Snd \/ bchi bi <> Ext) /\ tpos n i = Ok a /\ tpos n j = Ok b.
Proof. intros. now apply edges_char. Qed.

(* (B) hence in-degree <= 1, duplicate-free target sets, keys in strictly increasing order, and
   every key is the temporary of a context variable *)
Theorem transpose_connections_indeg1 (OKB : backend_ok) ctx re am :
  NoDup (ids ctx) -> NoDup (new_ids re) ->
  connections B (transpose re ctx) ctx (map fst re) = Ok am ->
  indeg1 Temp (teqb B) am /\ nodup_targets Temp (teqb B) am /\
  StronglySorted (fun a b => b_tcompare B a b = Lt) (map fst am) /\
  (forall a, In a (map fst am) -> exists i bi n, nth_error ctx i = Some bi /\ (n = Snd \/ bchi bi <> Ext) /\ tpos n i = Ok a).
Proof. intros. now apply am_props with (re := re). Qed.

(* (C) reference-count updates: one abstract operation per non-Ext variable, in binding order *)
Inductive rc_op := RcErase (t : Temp) | RcShare (t : Temp) (n : N).
Definition emit_rc_op (o : rc_op) (lc : N) : list Code * N :=
  match o with RcErase t => b_erase B t lc | RcShare t n => b_share_n B t n lc end.
Fixpoint emit_rc (ops : list rc_op) (lc : N) : list Code * N :=
  match ops with
  | [] => ([], lc)
  | o :: r => let '(c1, lc1) := emit_rc_op o lc in let '(c2, lc2) := emit_rc r lc1 in ((c1 ++ c2)%list, lc2)
  end.
Definition count_targets (re : list (binding * ident)) (b : binding) : nat :=
  List.length (filter (fun p => N.eqb (idn (bvar b)) (idn (snd p))) re).
(* the operation for an object variable at context index i with k targets *)
Definition rc_op_for (t : Temp) (k : nat) : list rc_op :=
  match k with O => [RcErase t] | S O => [] | S (S n) => [RcShare t (N.of_nat (S n))] end.
Definition is_obj (b : binding) : bool := match bchi b with Ext => false | _ => true end.

Lemma emit_rc_app a b lc :
  emit_rc (a ++ b) lc =
  let '(c1, l1) := emit_rc a lc in let '(c2, l2) := emit_rc b l1 in ((c1 ++ c2)%list, l2).
Proof.
  revert lc; induction a as [|o a IH]; intros lc; cbn [emit_rc app].
  - destruct (emit_rc b lc); reflexivity.
  - destruct (emit_rc_op o lc) as [c0 l0]. rewrite IH.
    destruct (emit_rc a l0) as [c1 l1]. destruct (emit_rc b l1) as [c2 l2]. now rewrite app_assoc.
Qed.

Lemma urc_spec c i b k lc cl :
  NoDup (ids c) -> nth_error c i = Some b ->
  update_reference_count B (bvar b) c k lc = Ok cl ->
  exists t, tpos Fst i = Ok t /\ cl = emit_rc (rc_op_for t k) lc.
Proof.
  intros ND Hi. unfold update_reference_count. rewrite (vt_tpos Fst c i b ND Hi).
  destruct (tpos Fst i) as [t|]; cbn [rbind]; try discriminate.
  intros H. exists t. split; auto.
  destruct k as [|[|k]]; inversion H; subst; cbn [rc_op_for emit_rc emit_rc_op]; auto.
  - destruct (b_erase B t lc). now rewrite app_nil_r.
  - destruct (b_share_n B t _ lc). now rewrite app_nil_r.
Qed.

Lemma cwc_spec c re : NoDup (ids c) -> forall tm lc code lc',
  (forall b tg, In (b, tg) tm -> In b c /\ tg = targets re b) ->
  code_weakening_contraction B tm c lc = Ok (code, lc') ->
  exists order : list (nat * binding),
    map snd order = filter is_obj (map fst tm) /\
    (forall i b, In (i, b) order -> nth_error c i = Some b) /\
    exists ops, Forall2 (fun ib o => exists t, tpos Fst (fst ib) = Ok t /\ o = rc_op_for t (count_targets re (snd ib))) order ops /\
                (code, lc') = emit_rc (List.concat ops) lc.
Proof.
  intros ND. induction tm as [|[b tg] tm IH]; intros lc code lc' F H; cbn [code_weakening_contraction] in H.
  - inversion H; subst. exists []. cbn. repeat split; [tauto|]. exists []. split; [constructor|reflexivity].
  - assert (F' : forall b tg, In (b, tg) tm -> In b c /\ tg = targets re b) by (intros; apply F; cbn; auto).
    destruct (F b tg (or_introl eq_refl)) as (Hb & ->).
    cbn [map fst filter]. unfold is_obj at 1.
    destruct (bchi b) eqn:E.
    3: { apply (IH _ _ _ F' H). }
    all: destruct (update_reference_count B (bvar b) c _ lc) as [[c1 lc1]|] eqn:U; cbn [rbind] in H; try discriminate;
      destruct (code_weakening_contraction B tm c lc1) as [[c2 lc2]|] eqn:R; cbn [rbind] in H; try discriminate;
      inversion H; subst;
      apply In_nth_error in Hb as (i & Hi);
      destruct (urc_spec _ _ _ _ _ _ ND Hi U) as (t & T & E1);
      destruct (IH _ _ _ F' R) as (order & O1 & O2 & ops & O3 & O4);
      exists ((i, b) :: order); cbn [map snd]; (split; [now rewrite O1|]);
      (split; [intros i0 b0 [X|X]; [inversion X; subst; auto|auto]|]);
      exists (rc_op_for t (count_targets re b) :: ops); (split; [constructor; [exists t; auto|auto]|]);
      cbn [List.concat]; rewrite emit_rc_app;
      (replace (count_targets re b) with (List.length (targets re b)) by (unfold targets, count_targets; apply map_length));
      rewrite <- E1, <- O4; reflexivity.
Qed.

Theorem weakening_contraction_counts ctx re lc code lc' :
  NoDup (ids ctx) ->
  code_weakening_contraction B (transpose re ctx) ctx lc = Ok (code, lc') ->
  exists order : list (nat * binding),           (* (context index, binding) of the object variables *)
    Permutation (map snd order) (filter is_obj ctx) /\
    StronglySorted (fun x y => binding_compare (snd x) (snd y) = Lt) order /\
    (forall i b, In (i, b) order -> nth_error ctx i = Some b) /\
    exists ops, Forall2 (fun ib o => exists t, tpos Fst (fst ib) = Ok t /\ o = rc_op_for t (count_targets re (snd ib))) order ops /\
                (code, lc') = emit_rc (List.concat ops) lc.
Proof.
  intros ND H. pose proof (NoDup_map_inv _ _ ND) as ND'.
  destruct (cwc_spec ctx re ND (transpose re ctx) lc code lc') as (order & O1 & O2 & O3); auto.
  { intros b tg Hb. now apply In_transpose in Hb. }
  exists order. split; [|split; [|split]]; auto.
  - rewrite O1. apply Permutation_filter.
    rewrite (Permutation_map fst (transpose_perm re ctx ND')). rewrite map_map. cbn [fst]. now rewrite map_id.
  - apply (StronglySorted_map_inv (fun a b => binding_compare a b = Lt) snd). rewrite O1.
    apply StronglySorted_filter. apply transpose_sorted.
Qed.
End G.

(* ================= the x86 instance ================= *)
Lemma x86_backend_ok : backend_ok x86_backend.
Proof.
  split; cbn [x86_backend x86_backend_with b_tcompare b_temporary_from_position].
  - intros [x|x] [y|y]; cbn; try (split; congruence); rewrite N.compare_eq_iff; split; congruence.
  - intros [x|x] [y|y]; cbn; auto using N.compare_antisym.
  - intros [x|x] [y|y] [z|z]; cbn; try congruence; rewrite !N.compare_lt_iff; lia.
  - intros p q t. unfold temporary_from_position.
    change RESERVED with 4%N. change REGISTER_NUM with 16%N. change RESERVED_SPILLS with 1%N. change SPILL_NUM with 256%N.
    cbv zeta.
    destruct (N.ltb_spec (p + 4) 16); destruct (N.ltb_spec (q + 4) 16);
      repeat match goal with |- context [N.ltb ?a ?b] => destruct (N.ltb_spec a b) end;
      intros E1 E2; inversion E1; subst; inversion E2; lia.
Qed.

Print Assumptions connections_edges.
Print Assumptions transpose_connections_indeg1.
Print Assumptions weakening_contraction_counts.
Print Assumptions x86_backend_ok.
