(* C03: the preservation statement with the shape predicates pre_check and focus_wf as its ONLY
   hypotheses (Props/C03.v, C03_focus_preserves_statement) is false: typing is needed.

   Witness (ill-typed: a covariable of type i64 is used as a consumer of the codata type T):
     codata T { }
     def main() { exit (mu a:i64. < mu b:T. (print 7; <5 | b>) | a >_T) }
   Source machine: the argument mu a (i64, by value) binds a := KRet(exit); the cut at the codata
   type T meets the consumer value KRet, which is no mu~-closure, so mu b is run: print 7, <5 | b>
   returns 5 to exit: prints [7], exit 5.
   Focused: <mu a. <mu b. ... | a> | mu~ x. exit x>; now a is the mu~-CLOSURE (x, exit x), the cut at
   the codata type gives the closure priority: x := thunk(mu b ...), exit x is stuck on a thunk.
   This is the kind clash that the round-2 theorems exclude (clash_free / sg_prog). *)
From Coq Require Import List ZArith NArith String Bool Lia.
From SCC Require Import Base.Sexp Lang.CoreSyn Sem.AxSem Sem.CoreSem Model.Backend Model.Uniquify Model.Focus
     Model.FocusCheck Model.FocusGuard.
Import ListNotations.
Open Scope string_scope.
Open Scope Z_scope.

Definition tT : cty := CDecl ("T", 0%N).
Definition wit_clash : cprog :=
  mkcp [mkcd ("main", 0%N) []
          (CExit (CMu CPrd ("a", 0%N)
                    (CCut (CMu CPrd ("b", 0%N) (CPrint false (CLit 7) (CCut (CLit 5) CI64 (CXVar CCns ("b", 0%N) CI64))) tT)
                          tT (CXVar CCns ("a", 0%N) tT)) CI64) CI64)]
       [] [mkct CCodata ("T", 0%N) []] 0%N.

Definition wit_clash_q : fsprog :=
  match focus_prog wit_clash with Ok q => q | Err _ => mkfsp [] [] [] 0%N end.

Lemma crun_stable : forall fuel p c out k, snd (crun fuel p c out) <> OOutOfFuel ->
  crun (fuel + k) p c out = crun fuel p c out.
Proof.
  induction fuel as [|f IH]; intros p c out k H; simpl in *.
  - exfalso. apply H. reflexivity.
  - destruct (cstep p c); auto.
Qed.

Lemma wit_clash_facts :
  pre_check wit_clash = true /\ focus_wf wit_clash = true /\ focus_prog wit_clash = Ok wit_clash_q /\
  run_core 20 wit_clash [] = ([(false, 7)], OExit 5) /\
  clash_free_prog 20 wit_clash [] = false /\
  run_fs 20 wit_clash_q [] = ([], OStuck "exit-operand").
Proof. vm_compute. repeat split; reflexivity. Qed.

Lemma run_core_stable : forall fuel p args k, snd (run_core fuel p args) <> OOutOfFuel ->
  run_core (fuel + k) p args = run_core fuel p args.
Proof.
  intros fuel p args k H. unfold run_core in *. destruct (cpdefs p) as [|d ds]; [reflexivity|].
  destruct (centry_env d args); [apply crun_stable; exact H | reflexivity].
Qed.

Lemma wit_clash_never : forall fuel', run_fs fuel' wit_clash_q [] <> ([(false, 7)], OExit 5).
Proof.
  intros fuel'. destruct wit_clash_facts as (_ & _ & _ & _ & _ & R).
  destruct (le_lt_dec 20 fuel') as [L|L].
  - replace fuel' with (20 + (fuel' - 20))%nat by lia.
    unfold run_fs in *. rewrite run_core_stable; rewrite R; discriminate.
  - do 20 (destruct fuel' as [|fuel']; [vm_compute; discriminate|]). lia.
Qed.

Theorem focus_preserves_statement_refuted :
  ~ (forall p q args fuel, pre_check p = true -> focus_wf p = true -> focus_prog p = Ok q ->
       let o := run_core fuel p args in
       ((exists z, snd o = OExit z) \/ (exists w, snd o = OUndef w)) ->
       exists fuel', run_fs fuel' q args = o).
Proof.
  intros H. destruct wit_clash_facts as (P & W & F & R & _).
  destruct (H wit_clash wit_clash_q [] 20%nat P W F) as (fuel' & E).
  - rewrite R. left. eexists. reflexivity.
  - rewrite R in E. exact (wit_clash_never fuel' E).
Qed.
