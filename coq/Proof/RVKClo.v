(* C08, heap statements, all statement forms: what the data word of a closure points to (`hclo_ok`; as in Proof/RVHClo.v,
   but the landing point of the jump is promised only if the clause code contains an instruction of non-zero size - a
   clause code made of labels only, i.e. of empty Switches, has none, and can never run): clause k of a closure whose
   clauses are the declared destructors in declaration order is entered, by an indirect jump to a (at most one
   clause) or to a + 4k (jump table), at the code `load of the captured environment ++ body` of the clause:
   a run from that code and a run from the landing point of the jump finish alike (the jump lands behind the
   labels in front of the code).  The counterpart of `hclo_ok` in Proof/X86HSimHeapB.v. *)
From Coq Require Import List ZArith NArith String Bool Lia FMapPositive.
From SCC Require Import Base.Sexp Lang.AxSyn Sem.AxSem Model.Backend Model.RV Sem.RVSem Sem.RVWf
     Model.Linearize Model.LinCheck Proof.LinBasics Proof.RVSel Proof.RVSimAddr Proof.RVSimRel Proof.RVHLayout Proof.RVKFrag Proof.X86HAnn.
Import ListNotations.
Open Scope Z_scope.
Open Scope list_scope.

Section Clo.
Variable im : image.
Variable p : prog.
Variable stop : positive.

Definition hclo_ok (a : Z) (tn : ident) (cls : list clause) (cenv : ctx) : Prop :=
  cls_ok (sigs_of p) (Decl tn) cls = true /\ 0 <= a < 4611686018427387904 - 32 /\ a mod 2 = 0 /\
  forall k c, nth_error cls k = Some c ->
    exists pcc lcl cl lcb cb lcb',
      r_load cenv (cl_ctx c) lcl = Ok (cl, lcb) /\ rcs (ptypes p) (cl_body c) (cl_ctx c ++ cenv) lcb = Ok (cb, lcb') /\
      placed im pcc (cl ++ cb) /\
      lin_check (sigs_of p) (cl_ctx c ++ cenv) (cl_body c) = true /\ ann_check (cl_ctx c ++ cenv) (cl_body c) = true /\
      stmt_k (cl_body c) = true /\
      (* the address the (repaired) add_and_jump computes does not wrap *)
      a + (if Nat.leb (List.length cls) 1 then 0 else jump_length (N.of_nat k)) < 4611686018427387904 - 32 /\
      (* the landing point of the indirect jump: it exists as soon as the clause code contains an instruction of non-zero
         size (always for a table entry); the code of a statement the machine executes does (Proof/RVKSimProg.v) *)
      (has_nz (cl ++ cb) ->
       exists i, PM.find (key (a + (if Nat.leb (List.length cls) 1 then 0 else jump_length (N.of_nat k)))) (index_at im) = Some i /\
                 (forall s o, rfin im stop pcc s o -> rfin im stop i s o)).
End Clo.
