(* Renamings (`sub_s`) as used by the simulation proof: identity, composition, free variables of a
   renamed statement, and scoping from `ax_check`. *)
From Coq Require Import String List ZArith NArith Bool Lia Permutation.
From SCC Require Import Base.Sexp Lang.AxSyn Model.Linearize Model.LinCheck.
From SCC Require Import Proof.LinBasics Proof.LinTyping.
Import ListNotations.
Open Scope list_scope.
Open Scope N_scope.

(* ---------- identity ---------- *)
Lemma sub_id_nil : forall x, sub_id [] x = x.
Proof. reflexivity. Qed.
Lemma sub_b_nil : forall b, sub_b [] b = b.
Proof. intros [v c t]; reflexivity. Qed.
Lemma map_sub_b_nil : forall c, map (sub_b []) c = c.
Proof. induction c as [|b c IH]; simpl; auto. rewrite sub_b_nil, IH; auto. Qed.
Lemma map_cls_id : forall (f : stmt -> stmt) (cls : list clause),
  Forall (fun c => f (cl_body c) = cl_body c) cls ->
  map (fun c => (cl_xtor c, cl_ctx c, f (cl_body c))) cls = cls.
Proof.
  induction cls as [|[[x cc] b] r IH]; intros H; simpl; auto. inversion H; subst.
  unfold cl_xtor, cl_ctx, cl_body in *; simpl in *. rewrite H2, IH; auto.
Qed.
Lemma sub_s_nil : forall s, has_subst s = false -> sub_s [] s = s.
Proof.
  intros s; induction s using stmt_ind2; intros Hs.
  - discriminate.
  - simpl. rewrite map_sub_b_nil; auto.
  - simpl in *. rewrite map_sub_b_nil, IHs; auto.
  - rewrite sub_s_switch. rewrite has_subst_switch in Hs. rewrite sub_id_nil. f_equal.
    apply map_cls_id. rewrite Forall_forall in *. intros c Hc. apply H; auto.
    destruct (has_subst (cl_body c)) eqn:E; auto.
    assert (existsb (fun c0 => has_subst (cl_body c0)) cls = true) by (apply existsb_exists; eauto). congruence.
  - rewrite sub_s_create. rewrite has_subst_create in Hs. apply orb_false_iff in Hs. destruct Hs as [Hs1 Hs2].
    rewrite IHs by auto. f_equal.
    + destruct env as [env|]; simpl; auto. rewrite map_sub_b_nil; auto.
    + apply map_cls_id. rewrite Forall_forall in *. intros c Hc. apply H; auto.
      destruct (has_subst (cl_body c)) eqn:E; auto.
      assert (existsb (fun c0 => has_subst (cl_body c0)) cls = true) by (apply existsb_exists; eauto). congruence.
  - simpl. rewrite map_sub_b_nil; auto.
  - simpl in *. rewrite IHs; auto.
  - simpl in *. rewrite IHs; auto.
  - simpl in *. rewrite IHs; auto.
  - simpl in *. apply orb_false_iff in Hs. destruct Hs. rewrite IHs1, IHs2; auto. destruct b; auto.
  - reflexivity.
Qed.

(* ---------- composition: first rho, then su ---------- *)
Definition compose (su rho : list (N * ident)) : list (N * ident) :=
  map (fun p => (fst p, sub_id su (snd p))) rho ++ su.

Lemma find_map_key : forall (su rho : list (N * ident)) n,
  find (fun p => N.eqb (fst p) n) (map (fun p => (fst p, sub_id su (snd p))) rho) =
  option_map (fun p => (fst p, sub_id su (snd p))) (find (fun p => N.eqb (fst p) n) rho).
Proof.
  induction rho as [|p rho IH]; intros n; simpl; auto.
  destruct (N.eqb (fst p) n); auto.
Qed.
Lemma find_app : forall {A} (f : A -> bool) a b,
  find f (a ++ b) = match find f a with Some x => Some x | None => find f b end.
Proof. induction a as [|x a IH]; intros; simpl; auto. destruct (f x); auto. Qed.

Lemma sub_id_compose : forall su rho x, sub_id su (sub_id rho x) = sub_id (compose su rho) x.
Proof.
  intros su rho x. unfold sub_id at 2 3, compose. rewrite find_app, find_map_key.
  destruct (find (fun p => N.eqb (fst p) (idn x)) rho) as [p|]; simpl; auto.
Qed.
Lemma sub_b_compose : forall su rho b, sub_b su (sub_b rho b) = sub_b (compose su rho) b.
Proof. intros; unfold sub_b; simpl. rewrite sub_id_compose; auto. Qed.
Lemma map_sub_b_compose : forall su rho c, map (sub_b su) (map (sub_b rho) c) = map (sub_b (compose su rho)) c.
Proof. intros; rewrite map_map. apply map_ext. intros; apply sub_b_compose. Qed.

Lemma map_cls_compose : forall (f g h : stmt -> stmt) (cls : list clause),
  Forall (fun c => f (g (cl_body c)) = h (cl_body c)) cls ->
  map (fun c => (cl_xtor c, cl_ctx c, f (cl_body c))) (map (fun c => (cl_xtor c, cl_ctx c, g (cl_body c))) cls) =
  map (fun c => (cl_xtor c, cl_ctx c, h (cl_body c))) cls.
Proof.
  induction cls as [|[[x cc] b] r IH]; intros H; simpl; auto. inversion H; subst.
  unfold cl_xtor, cl_ctx, cl_body in *; simpl in *. rewrite H2, IH; auto.
Qed.

Lemma sub_s_compose : forall su rho s, has_subst s = false ->
  sub_s su (sub_s rho s) = sub_s (compose su rho) s.
Proof.
  intros su rho s; induction s using stmt_ind2; intros Hs.
  - discriminate.
  - simpl. rewrite map_sub_b_compose; auto.
  - simpl in *. rewrite map_sub_b_compose, IHs; auto.
  - rewrite !sub_s_switch. rewrite has_subst_switch in Hs. rewrite sub_id_compose. f_equal.
    apply map_cls_compose. rewrite Forall_forall in *. intros c Hc. apply H; auto.
    destruct (has_subst (cl_body c)) eqn:E; auto.
    assert (existsb (fun c0 => has_subst (cl_body c0)) cls = true) by (apply existsb_exists; eauto). congruence.
  - rewrite !sub_s_create. rewrite has_subst_create in Hs. apply orb_false_iff in Hs. destruct Hs as [Hs1 Hs2].
    rewrite IHs by auto. f_equal.
    + destruct env as [env|]; simpl; auto. rewrite map_sub_b_compose; auto.
    + apply map_cls_compose. rewrite Forall_forall in *. intros c Hc. apply H; auto.
      destruct (has_subst (cl_body c)) eqn:E; auto.
      assert (existsb (fun c0 => has_subst (cl_body c0)) cls = true) by (apply existsb_exists; eauto). congruence.
  - simpl. rewrite sub_id_compose, map_sub_b_compose; auto.
  - simpl in *. rewrite IHs; auto.
  - simpl in *. rewrite !sub_id_compose, IHs; auto.
  - simpl in *. rewrite sub_id_compose, IHs; auto.
  - simpl in *. apply orb_false_iff in Hs. destruct Hs. rewrite sub_id_compose, IHs1, IHs2; auto.
    destruct b; simpl; auto. rewrite sub_id_compose; auto.
  - simpl. rewrite sub_id_compose; auto.
Qed.

Lemma compose_dom : forall su rho, map fst (compose su rho) = map fst rho ++ map fst su.
Proof. intros; unfold compose. rewrite map_app, map_map. simpl. auto. Qed.
Lemma sub_n_compose : forall su rho n, sub_n (compose su rho) n = sub_n su (sub_n rho n).
Proof.
  intros su rho n.
  pose proof (sub_id_compose su rho ("x"%string, n)) as H.
  apply (f_equal idn) in H. rewrite !sub_id_n in H. simpl in H. auto.
Qed.
Lemma compose_range : forall su rho x,
  In x (map (fun p : N * ident => idn (snd p)) (compose su rho)) ->
  In x (map (fun p : N * ident => idn (snd p)) rho) \/ In x (map (fun p : N * ident => idn (snd p)) su).
Proof.
  intros su rho x H. unfold compose in H. rewrite map_app in H. apply in_app_or in H.
  destruct H as [H|H]; auto.
  rewrite map_map in H. simpl in H. apply in_map_iff in H. destruct H as [p [H1 H2]].
  rewrite sub_id_n in H1. destruct (sub_n_range su (idn (snd p))) as [E|E].
  - left. apply in_map_iff. exists p. split; auto. congruence.
  - right. rewrite H1 in E. auto.
Qed.

(* ---------- free variables of a renamed statement ---------- *)
Definition untouched (rho : list (N * ident)) (xs : list N) : Prop :=
  forall x, In x xs -> ~ In x (map fst rho) /\ ~ In x (map (fun p => idn (snd p)) rho).

Lemma ids_sub_b : forall rho c, ids (map (sub_b rho) c) = map (sub_n rho) (ids c).
Proof.
  intros; unfold ids. rewrite !map_map. apply map_ext. intros b. unfold sub_b; simpl. apply sub_id_n.
Qed.
Lemma sub_n_untouched_ne : forall rho x y, ~ In y (map fst rho) -> ~ In y (map (fun p => idn (snd p)) rho) ->
  x <> y -> sub_n rho x <> y.
Proof.
  intros rho x y H1 H2 Hne E. destruct (sub_n_range rho x) as [H|H]; [congruence|]. rewrite E in H. auto.
Qed.

Lemma fv_sub : forall rho s x, has_subst s = false -> untouched rho (binders s) ->
  In x (fv s) -> In (sub_n rho x) (fv (sub_s rho s)).
Proof.
  intros rho s; induction s using stmt_ind2; intros x Hs Hu Hx.
  - discriminate.
  - simpl in *. apply union_In in Hx. destruct Hx as [Hx|[]]. apply union_In. left.
    rewrite ids_sub_b. apply in_map; auto.
  - simpl in *. apply union_In in Hx. apply union_In. destruct Hx as [Hx|Hx].
    + left. rewrite ids_sub_b. apply in_map; auto.
    + right. apply remove_In in Hx. destruct Hx as [Hx Hne]. apply remove_In. split.
      * apply IHs; auto. intros y Hy. apply Hu. simpl; auto.
      * apply sub_n_untouched_ne; auto; apply Hu; simpl; auto.
  - rewrite sub_s_switch. rewrite fv_switch in *. rewrite has_subst_switch in Hs. rewrite binders_switch in Hu.
    apply add_In in Hx. apply add_In. destruct Hx as [->|Hx]; [left; rewrite sub_id_n; auto|]. right.
    apply fv_clauses_In in Hx. destruct Hx as [cl [C1 [C2 C3]]].
    apply fv_clauses_In. exists (cl_xtor cl, cl_ctx cl, sub_s rho (cl_body cl)).
    split; [apply in_map_iff; exists cl; auto|].
    unfold cl_body at 1, cl_ctx at 1; simpl. split.
    + rewrite Forall_forall in H. apply H; auto.
      * destruct (has_subst (cl_body cl)) eqn:E; auto.
        assert (existsb (fun c0 => has_subst (cl_body c0)) cls = true) by (apply existsb_exists; eauto). congruence.
      * intros y Hy. apply Hu. eapply binders_cls_In; eauto. apply in_or_app; auto.
    + intros Hin. assert (Hy : untouched rho (ids (cl_ctx cl))).
      { intros y Hy. apply Hu. eapply binders_cls_In; eauto. apply in_or_app; auto. }
      destruct (Hy _ Hin) as [Y1 Y2].
      destruct (N.eq_dec x (sub_n rho x)) as [E|E]; [rewrite <- E in Hin; auto|].
      apply (sub_n_untouched_ne rho x (sub_n rho x) Y1 Y2); auto.
  - rewrite sub_s_create. rewrite fv_create in *. rewrite has_subst_create in Hs.
    apply orb_false_iff in Hs. destruct Hs as [Hs1 Hs2]. rewrite binders_create in Hu.
    apply union_In in Hx. apply union_In. destruct Hx as [Hx|Hx].
    + left. apply fv_clauses_In in Hx. destruct Hx as [cl [C1 [C2 C3]]].
      apply fv_clauses_In. exists (cl_xtor cl, cl_ctx cl, sub_s rho (cl_body cl)).
      split; [apply in_map_iff; exists cl; auto|].
      unfold cl_body at 1, cl_ctx at 1; simpl.
      assert (Hy : untouched rho (ids (cl_ctx cl) ++ binders (cl_body cl))).
      { intros y Hy. apply Hu. right. apply in_or_app. left. eapply binders_cls_In; eauto. }
      split.
      * rewrite Forall_forall in H. apply H; auto.
        -- destruct (has_subst (cl_body cl)) eqn:E; auto.
           assert (existsb (fun c0 => has_subst (cl_body c0)) cls = true) by (apply existsb_exists; eauto). congruence.
        -- intros y Hy'. apply Hy. apply in_or_app; auto.
      * intros Hin. destruct (Hy (sub_n rho x)) as [Y1 Y2]; [apply in_or_app; auto|].
        destruct (N.eq_dec x (sub_n rho x)) as [E|E]; [rewrite <- E in Hin; auto|].
        apply (sub_n_untouched_ne rho x (sub_n rho x) Y1 Y2); auto.
    + right. apply remove_In in Hx. destruct Hx as [Hx Hne]. apply remove_In. split.
      * apply IHs; auto. intros y Hy. apply Hu. right. apply in_or_app; auto.
      * apply sub_n_untouched_ne; auto; apply Hu; simpl; auto.
  - simpl in *. apply add_In in Hx. apply add_In. destruct Hx as [->|Hx]; [left; rewrite sub_id_n; auto|].
    right. apply union_In in Hx. destruct Hx as [Hx|[]]. apply union_In. left.
    rewrite ids_sub_b. apply in_map; auto.
  - simpl in *. apply remove_In in Hx. destruct Hx as [Hx Hne]. apply remove_In. split.
    + apply IHs; auto. intros y Hy. apply Hu. simpl; auto.
    + apply sub_n_untouched_ne; auto; apply Hu; simpl; auto.
  - simpl in *. rewrite !sub_id_n. apply add_In in Hx. apply add_In. destruct Hx as [->|Hx]; auto.
    right. apply add_In in Hx. apply add_In. destruct Hx as [->|Hx]; auto.
    right. apply remove_In in Hx. destruct Hx as [Hx Hne]. apply remove_In. split.
    + apply IHs; auto. intros y Hy. apply Hu. simpl; auto.
    + apply sub_n_untouched_ne; auto; apply Hu; simpl; auto.
  - simpl in *. rewrite sub_id_n. apply add_In in Hx. apply add_In. destruct Hx as [->|Hx]; auto.
  - simpl in Hs, Hu. apply orb_false_iff in Hs. destruct Hs as [Hs1 Hs2].
    assert (U1 : untouched rho (binders s1)) by (intros y Hy; apply Hu; apply in_or_app; auto).
    assert (U2 : untouched rho (binders s2)) by (intros y Hy; apply Hu; apply in_or_app; auto).
    simpl in Hx. simpl. destruct b as [b|]; simpl; rewrite ?sub_id_n.
    + apply add_In in Hx. apply add_In. destruct Hx as [->|Hx]; auto. right.
      apply add_In in Hx. apply add_In. destruct Hx as [->|Hx]; auto. right.
      apply union_In in Hx. apply union_In. destruct Hx; auto.
    + apply add_In in Hx. apply add_In. destruct Hx as [->|Hx]; auto. right.
      apply union_In in Hx. apply union_In. destruct Hx; auto.
  - simpl in *. destruct Hx as [<-|[]]. left. rewrite sub_id_n; auto.
Qed.

(* ---------- a typed statement only mentions variables of its context ---------- *)
Lemma ax_check_fv : forall S s c x, ax_check S c s = true -> In x (fv s) -> In x (ids c).
Proof.
  intros S s; induction s using stmt_ind2; intros c x Hc Hx.
  - discriminate.
  - simpl in *. destruct (lookup_label S l); try discriminate. btrue.
    apply union_In in Hx. destruct Hx as [Hx|[]].
    apply In_ids_ex in Hx. destruct Hx as [b [B1 B2]]. subst.
    match goal with Hf : forallb _ args = true |- _ => rewrite forallb_forall in Hf; apply Hf in B1 end.
    unfold has_b, has in B1. destruct (lookup_b c (idn (bvar b))) eqn:E; try discriminate.
    apply lookup_b_Some in E. destruct E as [E1 E2]. rewrite <- E2. apply In_ids; auto.
  - simpl in *. btrue. apply union_In in Hx. destruct Hx as [Hx|Hx].
    + apply In_ids_ex in Hx. destruct Hx as [b [B1 B2]]. subst.
      match goal with Hf : forallb _ args = true |- _ => rewrite forallb_forall in Hf; apply Hf in B1 end.
      unfold has_b, has in B1. destruct (lookup_b c (idn (bvar b))) eqn:E; try discriminate.
      apply lookup_b_Some in E. destruct E as [E1 E2]. rewrite <- E2. apply In_ids; auto.
    + apply remove_In in Hx. destruct Hx as [Hx Hne].
      match goal with Ha : ax_check _ (_ :: c) s = true |- _ => specialize (IHs _ _ Ha Hx) end.
      simpl in IHs. destruct IHs; auto. congruence.
  - rewrite ax_check_switch in Hc. rewrite fv_switch in Hx. btrue.
    apply add_In in Hx. destruct Hx as [->|Hx].
    + match goal with Hh : has c v Prd t = true |- _ => unfold has in Hh;
        destruct (lookup_b c (idn v)) eqn:E; try discriminate end.
      apply lookup_b_Some in E. destruct E as [E1 E2]. rewrite <- E2. apply In_ids; auto.
    + apply fv_clauses_In in Hx. destruct Hx as [cl [C1 [C2 C3]]].
      match goal with Hl : ax_clauses _ _ _ = true |- _ => unfold ax_clauses in Hl; rewrite forallb_forall in Hl;
        specialize (Hl _ C1) end.
      rewrite Forall_forall in H. specialize (H _ C1 _ _ H1 C2).
      rewrite ids_app in H. apply in_app_or in H. tauto.
  - rewrite ax_check_create in Hc. rewrite fv_create in Hx. btrue.
    apply union_In in Hx. destruct Hx as [Hx|Hx].
    + apply fv_clauses_In in Hx. destruct Hx as [cl [C1 [C2 C3]]].
      match goal with Hl : ax_clauses _ _ _ = true |- _ => unfold ax_clauses in Hl; rewrite forallb_forall in Hl;
        specialize (Hl _ C1) end.
      rewrite Forall_forall in H. specialize (H _ C1 _ _ H2 C2).
      rewrite ids_app in H. apply in_app_or in H. tauto.
    + apply remove_In in Hx. destruct Hx as [Hx Hne].
      match goal with Ha : ax_check _ (_ :: c) s = true |- _ => specialize (IHs _ _ Ha Hx) end.
      simpl in IHs. destruct IHs; auto. congruence.
  - simpl in *. btrue. apply add_In in Hx. destruct Hx as [->|Hx].
    + match goal with Hh : has c v Cns t = true |- _ => unfold has in Hh;
        destruct (lookup_b c (idn v)) eqn:E; try discriminate end.
      apply lookup_b_Some in E. destruct E as [E1 E2]. rewrite <- E2. apply In_ids; auto.
    + apply union_In in Hx. destruct Hx as [Hx|[]].
      apply In_ids_ex in Hx. destruct Hx as [b [B1 B2]]. subst.
      match goal with Hf : forallb _ args = true |- _ => rewrite forallb_forall in Hf; apply Hf in B1 end.
      unfold has_b, has in B1. destruct (lookup_b c (idn (bvar b))) eqn:E; try discriminate.
      apply lookup_b_Some in E. destruct E as [E1 E2]. rewrite <- E2. apply In_ids; auto.
  - simpl in *. apply remove_In in Hx. destruct Hx as [Hx Hne].
    specialize (IHs _ _ Hc Hx). simpl in IHs. destruct IHs; auto. congruence.
  - simpl in *. btrue.
    assert (Hh : forall y, has_ext c y = true -> In (idn y) (ids c)).
    { intros y Hy. unfold has_ext, has in Hy. destruct (lookup_b c (idn y)) eqn:E; try discriminate.
      apply lookup_b_Some in E. destruct E as [E1 E2]. rewrite <- E2. apply In_ids; auto. }
    apply add_In in Hx. destruct Hx as [->|Hx]; auto.
    apply add_In in Hx. destruct Hx as [->|Hx]; auto.
    apply remove_In in Hx. destruct Hx as [Hx Hne].
    match goal with Ha : ax_check _ (_ :: c) s = true |- _ => specialize (IHs _ _ Ha Hx) end.
    simpl in IHs. destruct IHs; auto. congruence.
  - simpl in *. btrue.
    apply add_In in Hx. destruct Hx as [->|Hx]; eauto.
    match goal with Hh : has_ext c v = true |- _ => unfold has_ext, has in Hh;
      destruct (lookup_b c (idn v)) eqn:E; try discriminate end.
    apply lookup_b_Some in E. destruct E as [E1 E2]. rewrite <- E2. apply In_ids; auto.
  - simpl in Hc. btrue.
    assert (Hh : forall y, has_ext c y = true -> In (idn y) (ids c)).
    { intros y Hy. unfold has_ext, has in Hy. destruct (lookup_b c (idn y)) eqn:E; try discriminate.
      apply lookup_b_Some in E. destruct E as [E1 E2]. rewrite <- E2. apply In_ids; auto. }
    simpl in Hx. destruct b as [b|].
    + apply add_In in Hx. destruct Hx as [->|Hx]; auto.
      apply add_In in Hx. destruct Hx as [->|Hx]; auto.
      apply union_In in Hx. destruct Hx; eauto.
    + apply add_In in Hx. destruct Hx as [->|Hx]; auto.
      apply union_In in Hx. destruct Hx; eauto.
  - simpl in *. destruct Hx as [<-|[]].
    unfold has_ext, has in Hc. destruct (lookup_b c (idn v)) eqn:E; try discriminate.
    apply lookup_b_Some in E. destruct E as [E1 E2]. rewrite <- E2. apply In_ids; auto.
Qed.
