(* Type preservation for the (instrumented) linear machine: in every configuration reachable by a
   linearity-checked program the environment is exactly the typing context of the statement (names,
   and kinds/types of the values), closures carry clauses that are typed in the context they
   will run in, objects carry fields of the kinds their constructor declares.  This is what makes
   `ctx_of` (Sem/AxHeap.v) the context `code_statement` is called with. *)
From Coq Require Import List ZArith NArith String Bool Lia.
From SCC Require Import Base.Sexp Lang.AxSyn Sem.AxSem Model.Linearize Model.LinCheck Sem.AxHeap.
From SCC Require Import Proof.LinBasics Proof.LinTyping Proof.LinMachine Proof.AxHeapErase.
From SCC Require Model.Heap.
Import ListNotations.
Open Scope list_scope.

(* ---------- typed values ---------- *)
Inductive val_wt (S : sigs) : value -> chi -> ty -> Prop :=
| VW_int z : val_wt S (VInt z) Ext I64
| VW_obj tn tag fs sg :
    lookup_xtor S (Decl tn) tag = Some sg -> vals_wt S fs sg -> val_wt S (VObj tn tag fs) Prd (Decl tn)
| VW_clo tn cls ce cenv xs :
    type_xtors S (Decl tn) = Some xs -> clauses_sig cls xs ->
    map fst ce = vars cenv -> vals_wt S (map snd ce) cenv ->
    Forall (fun cl => lin_wt S (cl_ctx cl ++ cenv) (cl_body cl)) cls ->
    val_wt S (VClo tn cls ce) Cns (Decl tn)
with vals_wt (S : sigs) : list value -> ctx -> Prop :=
| VSW_nil : vals_wt S [] []
| VSW_cons v vs b bs : val_wt S v (bchi b) (bty b) -> vals_wt S vs bs -> vals_wt S (v :: vs) (b :: bs).

Definition env_wt (S : sigs) (e : env) (c : ctx) : Prop := map fst e = vars c /\ vals_wt S (map snd e) c.
Definition cfg_wt (p : prog) (he : henv) (s : stmt) : Prop :=
  exists c, lin_wt (sigs_of p) c s /\ env_wt (sigs_of p) (erase_env he) c.

Lemma val_wt_kind S v k t : val_wt S v k t -> chi_of v = k /\ ty_of v = t.
Proof. destruct 1; cbn; auto. Qed.

Lemma vals_wt_length S vs c : vals_wt S vs c -> List.length vs = List.length c.
Proof. induction 1; cbn; auto. Qed.
Lemma vals_wt_same_kt S vs : forall c c', vals_wt S vs c -> same_kt c c' -> vals_wt S vs c'.
Proof.
  induction vs as [|v vs IH]; intros c c' H K; inversion H; subst; inversion K; subst; constructor.
  - match goal with HK : _ /\ _ |- _ => destruct HK as [E1 E2] end. rewrite <- E1, <- E2. assumption.
  - eapply IH; eauto.
Qed.
Lemma vals_wt_app S : forall vs1 c1 vs2 c2, vals_wt S vs1 c1 -> vals_wt S vs2 c2 -> vals_wt S (vs1 ++ vs2) (c1 ++ c2).
Proof. induction vs1 as [|v vs1 IH]; intros c1 vs2 c2 H1 H2; inversion H1; subst; cbn; auto. constructor; auto. Qed.
Lemma vals_wt_app_inv S : forall vs1 vs2 c1 c2,
  vals_wt S (vs1 ++ vs2) (c1 ++ c2) -> List.length vs1 = List.length c1 -> vals_wt S vs1 c1 /\ vals_wt S vs2 c2.
Proof.
  induction vs1 as [|v vs1 IH]; intros vs2 c1 c2 H L; destruct c1 as [|b c1]; cbn in *; try discriminate.
  - split; [constructor|assumption].
  - inversion H; subst. destruct (IH vs2 c1 c2) as [A B]; auto. split; [constructor; auto|auto].
Qed.

Lemma same_kt_sym a b : same_kt a b -> same_kt b a.
Proof. induction 1 as [|x y a b [E1 E2] H IH]; constructor; auto. Qed.
Lemma same_kt_trans a b c : same_kt a b -> same_kt b c -> same_kt a c.
Proof.
  intros H; revert c. induction H as [|x y a b [E1 E2] H IH]; intros c K; inversion K; subst; constructor.
  - match goal with HK : _ /\ _ |- _ => destruct HK end. split; congruence.
  - apply IH. assumption.
Qed.

Lemma env_wt_app S e1 c1 e2 c2 : env_wt S e1 c1 -> env_wt S e2 c2 -> env_wt S (e1 ++ e2) (c1 ++ c2).
Proof.
  intros [A1 B1] [A2 B2]. split.
  - rewrite map_app, vars_app. congruence.
  - rewrite map_app. now apply vals_wt_app.
Qed.
Lemma app_inv_length {X} : forall (a1 a2 b1 b2 : list X),
  a1 ++ a2 = b1 ++ b2 -> List.length a1 = List.length b1 -> a1 = b1 /\ a2 = b2.
Proof.
  induction a1 as [|x a1 IH]; intros a2 [|y b1] b2 H L; cbn in *; try discriminate; auto.
  inversion H; subst. destruct (IH a2 b1 b2) as [-> ->]; auto.
Qed.
Lemma env_wt_app_inv S e1 e2 c1 c2 :
  env_wt S (e1 ++ e2) (c1 ++ c2) -> List.length e1 = List.length c1 -> env_wt S e1 c1 /\ env_wt S e2 c2.
Proof.
  intros [A B] L. rewrite map_app in A, B. rewrite vars_app in A.
  destruct (vals_wt_app_inv S _ _ _ _ B) as [B1 B2]; [rewrite map_length; exact L|].
  assert (List.length (map fst e1) = List.length (vars c1)) as L1 by (rewrite map_length, vars_length; exact L).
  apply app_inv_length in A; auto. destruct A as [A1 A2]. split; split; auto.
Qed.

Lemma env_wt_length S e c : env_wt S e c -> List.length e = List.length c.
Proof. intros [_ B]. apply vals_wt_length in B. now rewrite map_length in B. Qed.
Lemma env_wt_ids S e c : env_wt S e c -> env_ids e = ids c.
Proof. intros [A _]. now apply env_ids_shape. Qed.

(* the entry found by id in the environment has the kind and type of the binding found by id in the
   context *)
Lemma env_wt_lookup S : forall he c x b en,
  env_wt S (erase_env he) c -> lookup_b c x = Some b -> hlookup he x = Some en ->
  val_wt S (h_val en) (bchi b) (bty b).
Proof.
  induction he as [|[[y v] q] he IH]; intros c x b en [A B] Hb He; [discriminate|].
  destruct c as [|b0 c]; [discriminate|]. cbn in A, B. inversion A; subst. inversion B; subst.
  cbn in Hb, He. unfold h_id in He; cbn in He. unfold lookup_b in Hb; cbn in Hb.
  destruct (N.eqb (idn (bvar b0)) x).
  - inversion Hb; inversion He; subst. cbn. assumption.
  - eapply IH; eauto. split; auto.
Qed.

Lemma bind_env_wt S : forall xs vs e c,
  bind xs vs = Some e -> xs = vars c -> vals_wt S vs c -> env_wt S e c.
Proof.
  intros xs vs e c Hb -> Hv. apply bind_Some_length in Hb as [L ->]. split.
  - now apply combine_map_fst.
  - rewrite combine_map_snd; auto.
Qed.

(* ---------- signatures of a checked program ---------- *)
Lemma find_map {A B} (f : B -> bool) (g : A -> B) l : find f (map g l) = option_map g (find (fun x => f (g x)) l).
Proof. induction l as [|a l IH]; cbn; auto. destruct (f (g a)); auto. Qed.

Lemma lookup_label_find_def p l d : find_def p l = Some d -> lookup_label (sigs_of p) l = Some (dctx d).
Proof.
  unfold find_def, lookup_label, sigs_of. cbn [sg_labels]. intros H. rewrite find_map. cbn [fst]. rewrite H. reflexivity.
Qed.
Lemma lin_prog_def p d : lin_check_prog p = true -> In d (pdefs p) -> lin_wt (sigs_of p) (dctx d) (dbody d).
Proof.
  unfold lin_check_prog. rewrite forallb_forall. intros H Hd. apply lin_check_sound. apply (H d Hd).
Qed.

(* the clause selected for a tag binds what the constructor of that tag declares *)
Lemma find_clause_sig : forall cls xs tag c,
  clauses_sig cls xs -> find_clause cls tag = Some c ->
  exists x, find (fun x => ident_eqb (xname x) tag) xs = Some x /\ same_kt (cl_ctx c) (xargs x) /\ In c cls.
Proof.
  unfold find_clause. induction 1 as [|cl x cls xs [E K] H IH]; cbn; [discriminate|]. intros Hf.
  rewrite <- E. destruct (ident_eqb (cl_xtor cl) tag).
  - inversion Hf; subst. exists x. auto.
  - destruct (IH Hf) as (x' & A & B & C). exists x'. auto.
Qed.
Lemma lookup_xtor_xs S t tag xs sg :
  type_xtors S t = Some xs -> lookup_xtor S t tag = Some sg ->
  exists x, find (fun x => ident_eqb (xname x) tag) xs = Some x /\ xargs x = sg.
Proof.
  unfold lookup_xtor. intros ->. destruct (find _ xs) as [x|]; [|discriminate]. intros H; inversion H. eauto.
Qed.

(* ---------- preservation ---------- *)
Lemma split_last_Some_app {X} n (l a b : list X) : AxSem.split_last n l = Some (a, b) -> l = a ++ b /\ List.length b = n.
Proof.
  unfold AxSem.split_last. destruct (Nat.leb n (List.length l)) eqn:E; [|discriminate]. intros H; inversion H; subst.
  apply Nat.leb_le in E. split; [symmetry; apply firstn_skipn|]. rewrite skipn_length. lia.
Qed.

Lemma ids_length_eq a b : ids a = ids b -> List.length a = List.length b.
Proof. intros H. rewrite <- (ids_length a), <- (ids_length b). now rewrite H. Qed.

Theorem hstep_wt p he hs s ops he' s' pr :
  lin_check_prog p = true -> cfg_wt p he s ->
  hstep p he hs s = HStep ops he' s' pr -> cfg_wt p he' s'.
Proof.
  intros LP (c & W & E) HS. set (S := sigs_of p) in *.
  destruct W as [c re next ND SRC W|c l args ps ND LL K|c0 tl v t tag args sg next ND IDS K1 LX K2 W
                |c0 b v t cls xs ND IDV KB TB TX CS WC|c0 tl v t cenv cls xs next ND IDS K1 TX CS WC W
                |c0 b v tag t args sg ND IDV KB TB LX K|c n v next ND W|c a o b v next ND EA EB W
                |c nl v next ND EV W|c so a b t e ND EA EB WT WE|c v ND EV]; cbn [hstep] in HS.
  - (* substitute *)
    destruct (hsubst he re) as [he1|] eqn:HSu; [|discriminate]. inversion HS; subst. clear HS.
    exists (map fst re). split; [exact W|].
    clear W ND. revert he' HSu. induction re as [|[nb old] re IH]; intros he' HSu; cbn [hsubst] in HSu.
    + inversion HSu; subst. split; constructor.
    + destruct (hlookup he (idn old)) as [en|] eqn:HL; [|discriminate].
      destruct (hsubst he re) as [he2|] eqn:H2; [|discriminate]. inversion HSu; subst. clear HSu.
      inversion SRC as [|? ? S1 S2]; subst. destruct (IH S2 he2 eq_refl) as [A B].
      destruct S1 as (b & Lb & Kb & Tb). cbn [fst snd] in *.
      pose proof (env_wt_lookup S he c (idn old) b en E Lb HL) as Hv. rewrite Kb, Tb in Hv.
      split; cbn [erase_env map fst snd vars bvar]; [f_equal; exact A|constructor; auto].
  - (* call *)
    destruct (find_def p l) as [d|] eqn:FD; [|discriminate].
    destruct (bind (vars (dctx d)) (map snd (erase_env he))) as [e1|] eqn:B; [|discriminate]. inversion HS; subst. clear HS.
    pose proof (lookup_label_find_def p l d FD) as LL'. fold S in LL'. rewrite LL in LL'. inversion LL'; subst ps.
    exists (dctx d). split.
    + apply lin_prog_def; auto. unfold find_def in FD. apply find_some in FD. tauto.
    + rewrite erase_attach. eapply bind_env_wt; eauto. destruct E as [_ B1]. eapply vals_wt_same_kt; eauto.
  - (* let *)
    destruct (ty_name t) as [tn|] eqn:TN; [|discriminate].
    destruct (AxSem.split_last (List.length args) he) as [[he0 fs]|] eqn:SL; [|discriminate].
    destruct (ids_eqb _ _); [|discriminate]. inversion HS; subst. clear HS.
    apply split_last_Some_app in SL as [-> Lfs].
    assert (Lt : List.length tl = List.length args) by now apply ids_length_eq.
    rewrite erase_app in E.
    assert (L0 : List.length (erase_env he0) = List.length c0).
    { pose proof (env_wt_length _ _ _ E) as L. rewrite !app_length, !erase_length in *. lia. }
    destruct (env_wt_app_inv S _ _ _ _ E L0) as [E0 [_ Ef]].
    destruct t as [|tn']; [discriminate|]. cbn in TN. inversion TN; subst tn'.
    exists (c0 ++ [mkb v Prd (Decl tn)]). split; [exact W|].
    rewrite erase_app. apply env_wt_app; auto. split; [reflexivity|]. cbn. constructor; [|constructor]. cbn.
    econstructor; eauto. rewrite <- map_snd_erase. eapply vals_wt_same_kt; [exact Ef|]. eapply same_kt_trans; eauto.
  - (* switch *)
    destruct (AxSem.split_last 1 he) as [[he0 l]|] eqn:SL; [|discriminate].
    destruct l as [|[[x v0] q] [|en2 l]]; [discriminate| |destruct v0; discriminate].
    destruct v0 as [z|ty tg fs|ty cs ce]; [discriminate| |discriminate].
    destruct (N.eqb (idn x) (idn v)); [|discriminate].
    destruct (find_clause cls tg) as [cl|] eqn:FC; [|discriminate].
    destruct (bind (vars (cl_ctx cl)) fs) as [e1|] eqn:B; [|discriminate]. inversion HS; subst. clear HS.
    apply split_last_Some_app in SL as [-> _]. rewrite erase_app in E.
    assert (L0 : List.length (erase_env he0) = List.length c0).
    { pose proof (env_wt_length _ _ _ E) as L. rewrite !app_length, !erase_length in *. cbn in L. lia. }
    destruct (env_wt_app_inv S _ _ _ _ E L0) as [E0 [_ Ef]]. cbn in Ef. inversion Ef as [|? ? ? ? Hv _]; subst.
    rewrite KB in Hv. inversion Hv as [|? ? ? sg LX VS|]; subst.
    destruct (find_clause_sig cls xs tg cl CS FC) as (x1 & F1 & K1 & IN).
    match goal with H : Decl _ = bty b |- _ => symmetry in H; rename H into TB end.
    rewrite TB in TX. destruct (lookup_xtor_xs S _ tg xs sg TX LX) as (x2 & F2 & <-).
    rewrite F1 in F2. inversion F2; subst x2.
    exists (c0 ++ cl_ctx cl). split.
    + rewrite Forall_forall in WC. now apply WC.
    + rewrite erase_app, erase_attach. apply env_wt_app; auto. eapply bind_env_wt; eauto.
      eapply vals_wt_same_kt; [exact VS|]. now apply same_kt_sym.
  - (* create *)
    destruct (ty_name t) as [tn|] eqn:TN; [|discriminate].
    destruct (AxSem.split_last (List.length cenv) he) as [[he0 cap]|] eqn:SL; [|discriminate].
    destruct (ids_eqb _ _); [|discriminate].
    destruct (bind (vars cenv) (map h_val cap)) as [ce|] eqn:B; [|discriminate]. inversion HS; subst. clear HS.
    apply split_last_Some_app in SL as [-> Lcap].
    assert (Lt : List.length tl = List.length cenv) by now apply ids_length_eq.
    rewrite erase_app in E.
    assert (L0 : List.length (erase_env he0) = List.length c0).
    { pose proof (env_wt_length _ _ _ E) as L. rewrite !app_length, !erase_length in *. lia. }
    destruct (env_wt_app_inv S _ _ _ _ E L0) as [E0 [_ Ef]].
    destruct t as [|tn']; [discriminate|]. cbn in TN. inversion TN; subst tn'.
    exists (c0 ++ [mkb v Cns (Decl tn)]). split; [exact W|].
    rewrite erase_app. apply env_wt_app; auto. split; [reflexivity|]. cbn. constructor; [|constructor]. cbn.
    assert (Ece : env_wt S ce cenv).
    { eapply bind_env_wt; eauto. rewrite <- map_snd_erase. eapply vals_wt_same_kt; eauto. }
    destruct Ece as [A1 B1]. econstructor; eauto.
  - (* invoke *)
    destruct (AxSem.split_last 1 he) as [[he0 l]|] eqn:SL; [|discriminate].
    destruct l as [|[[x v0] q] [|en2 l]]; [discriminate| |destruct v0; discriminate].
    destruct v0 as [z|ty tg fs|ty cs ce]; [discriminate|discriminate|].
    destruct (N.eqb (idn x) (idn v)); [|discriminate].
    destruct (find_clause cs tag) as [cl|] eqn:FC; [|discriminate].
    destruct (bind (vars (cl_ctx cl)) (map snd (erase_env he0))) as [e1|] eqn:B; [|discriminate]. inversion HS; subst. clear HS.
    apply split_last_Some_app in SL as [-> _]. rewrite erase_app in E.
    assert (L0 : List.length (erase_env he0) = List.length c0).
    { pose proof (env_wt_length _ _ _ E) as L. rewrite !app_length, !erase_length in *. cbn in L. lia. }
    destruct (env_wt_app_inv S _ _ _ _ E L0) as [E0 [_ Ef]]. cbn in Ef. inversion Ef as [|? ? ? ? Hv _]; subst.
    rewrite KB in Hv. inversion Hv as [| |? ? ? cenv xs TX CS A1 B1 WC]; subst.
    destruct (find_clause_sig cs xs tag cl CS FC) as (x1 & F1 & K1 & IN).
    match goal with H : Decl _ = bty b |- _ => symmetry in H; rename H into TB end.
    rewrite TB in LX. destruct (lookup_xtor_xs S _ tag xs sg TX LX) as (x2 & F2 & <-).
    rewrite F1 in F2. inversion F2; subst x2.
    exists (cl_ctx cl ++ cenv). split.
    + rewrite Forall_forall in WC. now apply WC.
    + rewrite erase_app, !erase_attach. apply env_wt_app; [|split; auto].
      eapply bind_env_wt; eauto. destruct E0 as [_ B0]. eapply vals_wt_same_kt; [exact B0|].
      eapply same_kt_trans; [exact K|]. now apply same_kt_sym.
  - (* literal *)
    inversion HS; subst. exists (c ++ [mkb v Ext I64]). split; [exact W|].
    rewrite erase_app. apply env_wt_app; auto. split; [reflexivity|]. cbn. constructor; constructor.
  - (* op *)
    destruct (lookup_int (erase_env he) a); [|discriminate]. destruct (lookup_int (erase_env he) b); [|discriminate].
    destruct (eval_op o z z0); [|discriminate]. inversion HS; subst.
    exists (c ++ [mkb v Ext I64]). split; [exact W|].
    rewrite erase_app. apply env_wt_app; auto. split; [reflexivity|]. cbn. constructor; constructor.
  - (* print *)
    destruct (lookup_int (erase_env he) v); [|discriminate]. inversion HS; subst. exists c. auto.
  - (* ifc *)
    destruct (lookup_int (erase_env he) a); [|discriminate].
    destruct (match b with Some b0 => lookup_int (erase_env he) b0 | None => Some 0%Z end); [|discriminate].
    inversion HS; subst. exists c. split; auto. destruct (eval_cmp so z z0); auto.
  - (* exit *)
    destruct (lookup_int (erase_env he) v); discriminate.
Qed.

(* the context a checked statement is typed in is the one the machine reconstructs from its values *)
Lemma env_wt_ctx_of S he c : env_wt S (erase_env he) c -> ctx_of he = c.
Proof.
  revert c. induction he as [|[[x v] q] he IH]; intros c [A B]; destruct c as [|b c]; try discriminate; auto.
  cbn in A, B. inversion A; subst. inversion B; subst. cbn. f_equal.
  - unfold binding_of, h_id, h_val; cbn. match goal with H : val_wt _ _ _ _ |- _ => apply val_wt_kind in H as [-> ->] end.
    now destruct b.
  - apply IH. split; auto.
Qed.

(* ---------- the initial configuration ---------- *)
Definition all_ext (c : ctx) : bool := forallb (fun b => chi_eqb (bchi b) Ext && ty_eqb (bty b) I64) c.
Definition entry_ext (p : prog) : bool := match pdefs p with d :: _ => all_ext (dctx d) | [] => true end.

Lemma vals_wt_ints S : forall c args, all_ext c = true -> List.length args = List.length c -> vals_wt S (map VInt args) c.
Proof.
  induction c as [|b c IH]; intros [|z args] H L; cbn in *; try discriminate; [constructor|].
  apply andb_true_iff in H as [H1 H2]. apply andb_true_iff in H1 as [K T].
  apply chi_eqb_eq in K. apply ty_eqb_eq in T. constructor; [rewrite K, T; constructor|]. apply IH; auto.
Qed.

Lemma hinit_wt base p d ds e args :
  lin_check_prog p = true -> entry_ext p = true -> pdefs p = d :: ds -> entry_env d args = Some e ->
  cfg_wt p (hc_env (hinit base d e)) (hc_stmt (hinit base d e)).
Proof.
  intros LP EE PD EN. unfold hinit; cbn [hc_env hc_stmt]. exists (dctx d). split.
  - apply lin_prog_def; auto. rewrite PD. now left.
  - rewrite erase_attach. unfold entry_env in EN. unfold entry_ext in EE. rewrite PD in EE.
    pose proof (bind_Some_length _ _ _ EN) as [L _]. rewrite vars_length, map_length in L.
    eapply bind_env_wt; eauto. apply vals_wt_ints; auto.
Qed.

Theorem hsteps_wt p c tr c' :
  lin_check_prog p = true -> cfg_wt p (hc_env c) (hc_stmt c) -> hsteps p c tr c' ->
  cfg_wt p (hc_env c') (hc_stmt c').
Proof.
  intros LP W H. induction H as [|c tr c1 ops he' s' pr H IH HS]; auto.
  cbn [hc_env hc_stmt]. eapply hstep_wt; [exact LP|exact (IH W)|exact HS].
Qed.
