(* Loads and the representation invariant: the precondition of `OLoadObj` follows from the chain
   invariant KI; after the load (either mode) KI holds for the roots "fields of the object ++ the
   other roots"; pointer slots are not touched. *)
From Coq Require Import List ZArith Lia Bool Permutation.
From SCC Require Import Model.Heap Proof.HeapMore Proof.HeapTrace Proof.HeapRep.
Import ListNotations.
Open Scope Z_scope.

(* ---------- what the two load modes touch ---------- *)
Lemma release_hdr_other p s x : x <> p -> hdr (m (release p s) x) = hdr (m s x).
Proof. intros H. unfold release; cbn. now rewrite hdr_set_hdr_other. Qed.

Lemma load_object_release_ps : forall k p s x, ps (m (load_object_release k p s) x) = ps (m s x).
Proof. induction k as [|k IH]; intros p s x; cbn [load_object_release]; [apply release_ps|]. rewrite IH. apply release_ps. Qed.
Lemma load_object_release_hdr_other : forall k p s x,
  ~ In x (obj_blocks k (m s) p) -> hdr (m (load_object_release k p s) x) = hdr (m s x).
Proof.
  induction k as [|k IH]; intros p s x Hx; cbn [load_object_release obj_blocks] in *.
  - apply release_hdr_other. intros ->. apply Hx. now left.
  - rewrite IH.
    + apply release_hdr_other. intros ->. apply Hx. now left.
    + rewrite (obj_blocks_ext (m s)) by (intros; apply release_ps). intros Hin. apply Hx. now right.
Qed.

Lemma share_walk_ps : forall k p s x, ps (m (share_walk k p s) x) = ps (m s x).
Proof.
  induction k as [|k IH]; intros p s x; cbn [share_walk]; [apply share_list_ps|]. rewrite IH. apply share_list_ps.
Qed.
Lemma share_walk_hdr_other : forall k p s x,
  ~ In x (obj_fields k (m s) p) -> hdr (m (share_walk k p s) x) = hdr (m s x).
Proof.
  induction k as [|k IH]; intros p s x Hx; cbn [share_walk obj_fields] in *.
  - now apply share_list_hdr_other.
  - rewrite in_app_iff in Hx. rewrite IH.
    + apply share_list_hdr_other. tauto.
    + rewrite (obj_fields_ext (m s)) by (intros; apply share_list_ps). tauto.
Qed.
Lemma dec_hdr_other p s x : x <> p -> hdr (m (dec p s) x) = hdr (m s x).
Proof. intros H. unfold dec; cbn. now rewrite hdr_set_hdr_other. Qed.

Lemma load_object_ps k p s x : ps (m (load_object k p s) x) = ps (m s x).
Proof.
  unfold load_object, load_object_share. destruct (hdr (m s p) =? 0); [apply load_object_release_ps|].
  rewrite share_walk_ps. apply dec_ps.
Qed.

(* ---------- the released blocks are on the reuse list afterwards ---------- *)
Lemma load_object_release_invA_hl base : forall k p s R R0 hl fl cl,
  InvA base s R hl fl cl -> Permutation R (p :: R0) -> obj_ok k (m s) p ->
  exists hl' cl', InvA base (load_object_release k p s) (nz (obj_fields k (m s) p) ++ R0) hl' fl cl' /\
                  incl hl hl' /\ (forall b, In b (obj_blocks k (m s) p) -> In b hl').
Proof.
  induction k as [|k IH]; intros p s R R0 hl fl cl IA HR HO.
  - destruct (HO p (or_introl eq_refl)) as [Hp0 Hh0].
    destruct (release_invA base s R R0 hl fl cl p IA Hp0 HR Hh0) as (cl' & I1 & _). cbn.
    exists (p :: hl), cl'. split; [exact I1|]. split; [apply incl_tl, incl_refl|]. intros b [<-|[]]. now left.
  - destruct (HO p (or_introl eq_refl)) as [Hp0 Hh0].
    destruct (release_invA base s R R0 hl fl cl p IA Hp0 HR Hh0) as (cl1 & I1 & Hcl1).
    cbn [load_object_release obj_fields obj_blocks]. set (q := link_of (m s) p) in *.
    assert (Hq0 : q <> 0) by (apply (HO q); cbn [obj_blocks]; right; destruct k; now left).
    pose proof (proj1 IA) as I.
    assert (HpR : In p R) by (eapply Permutation_in; [symmetry; eauto|now left]).
    assert (Hpcl : In p cl) by (eapply root_counted; eauto).
    assert (Hpslot : forall x, In x cl -> ~ In p (ps (m s x))).
    { intros x Hx Hin. pose proof (i_rc _ _ _ _ _ I p Hpcl) as Hrc. unfold refs in Hrc. rewrite cnt_app, Hh0 in Hrc.
      pose proof (cnt_in_pos _ _ HpR).
      pose proof (cnt_flat_map_in (fun x => ps (m s x)) (cl ++ fl) x p ltac:(rewrite in_app_iff; auto) Hin). lia. }
    assert (HL : links_ok k (m s) q).
    { intros b Hb. apply (HO b). cbn [obj_blocks]. now right. }
    assert (Hne : forall b, In b (obj_blocks k (m s) q) -> b <> p).
    { intros b Hb ->. destruct (obj_blocks_children s R hl fl cl I k p Hpcl HL p Hb) as (x & Hx & Hin).
      eapply Hpslot; eauto. }
    assert (HO1 : obj_ok k (m (release p s)) q).
    { intros b Hb. rewrite (obj_blocks_ext (m s)) in Hb by (intros; apply release_ps).
      destruct (HO b ltac:(cbn [obj_blocks]; now right)) as [Hb0 Hbh]. split; auto.
      unfold release; cbn. rewrite hdr_set_hdr_other; auto. }
    assert (HP1 : Permutation (nz (ps (m s p)) ++ R0) (q :: nz (fields_of (m s) p) ++ R0)).
    { change (q :: nz (fields_of (m s) p) ++ R0) with ((q :: nz (fields_of (m s) p)) ++ R0).
      apply Permutation_app_tail. now apply nz_ps_link. }
    destruct (IH q (release p s) _ _ (p :: hl) fl cl1 I1 HP1 HO1) as (hl2 & cl2 & I2 & Hi2 & Hb2).
    exists hl2, cl2. split; [|split].
    + eapply invA_perm_R; [|exact I2].
      rewrite (obj_fields_ext (m s)) by (intros; apply release_ps).
      rewrite nz_app. rewrite <- !app_assoc. apply Permutation_app_swap_app.
    + intros x Hx. apply Hi2. now right.
    + intros b [<-|Hb]; [apply Hi2; now left|]. apply Hb2.
      rewrite (obj_blocks_ext (m s)) by (intros; apply release_ps). exact Hb.
Qed.

(* ---------- a field of a chained object is never the link of a reachable chain block ---------- *)
Lemma cnt_link_field (l : list Z) c :
  nth 2 l 0 = c -> c <> 0 -> In c (firstn 2 l ++ skipn 3 l) -> 2 <= cnt l c.
Proof.
  intros E Hc0 Hin. rewrite <- E in Hc0. rewrite (nth_split_ps l Hc0), E. rewrite cnt_app, cnt_cons.
  destruct (Z.eq_dec c c); [|congruence].
  apply in_app_iff in Hin as [Hin|Hin]; apply cnt_in_pos in Hin.
  - pose proof (cnt_nonneg (skipn 3 l) c). lia.
  - pose proof (cnt_nonneg (firstn 2 l) c). lia.
Qed.

Lemma field_not_link lk s R hl fl cl :
  Inv s R hl fl cl -> KI lk s R -> forall k p, reach (m s) R p -> lk p = k ->
  forall c, In c (obj_fields k (m s) p) -> c <> 0 ->
  forall x, reach (m s) R x -> lk x <> O -> link_of (m s) x <> c.
Proof.
  intros I K. induction k as [|k IH]; intros p Hp Hk c Hc Hc0 x Hx Hl E.
  - cbn [obj_fields] in Hc.
    destruct (link_sole s R hl fl cl lk x I K Hx Hl) as (_ & _ & _ & _ & U & _). rewrite E in U.
    pose proof (reach_root_counted _ _ _ _ _ _ I Hp) as Hpc.
    pose proof (U p ltac:(rewrite in_app_iff; auto) Hc) as Epx. subst p. congruence.
  - cbn [obj_fields] in Hc. apply in_app_iff in Hc as [Hc|Hc].
    + destruct (link_sole s R hl fl cl lk x I K Hx Hl) as (_ & _ & _ & _ & U & C1). rewrite E in U, C1.
      pose proof (reach_root_counted _ _ _ _ _ _ I Hp) as Hpc.
      pose proof (U p ltac:(rewrite in_app_iff; auto) (fields_in _ _ _ Hc)) as Epx. subst p.
      pose proof (cnt_link_field (ps (m s x)) c E Hc0 Hc). lia.
    + destruct (K p Hp ltac:(lia)) as (Hq0 & _ & Hlq).
      apply (IH (link_of (m s) p)) with (c := c) (x := x); auto; [|lia].
      eapply reach_slot; [exact Hp|now apply link_in|exact Hq0].
Qed.

(* ---------- the load of a represented object ---------- *)
Lemma load_object_KI base lk s R R0 hl fl cl p k j pl :
  InvA base s R hl fl cl -> KI lk s R -> Permutation R (p :: R0) -> p <> 0 ->
  lk p = k -> obj_fields k (m s) p = repeat 0 j ++ pl ->
  pre s R (OLoadObj k p) /\
  (exists hl' fl' cl', InvA base (load_object k p s) (nz pl ++ R0) hl' fl' cl') /\
  KI lk (load_object k p s) (nz pl ++ R0).
Proof.
  intros IA K HP Hp0 Hk HF. pose proof (proj1 IA) as I.
  assert (HpR : In p R) by (eapply Permutation_in; [symmetry; exact HP|now left]).
  assert (Hp : reach (m s) R p) by (apply reach_src; auto).
  destruct (KI_chain lk s R K k p Hp Hk) as (HL & Hch & Hchr).
  assert (HO : hdr (m s p) = 0 -> obj_ok k (m s) p) by (intros Hh; rewrite <- Hk; eapply KI_obj_ok; eauto).
  assert (Hnz : nz (obj_fields k (m s) p) = nz pl) by (rewrite HF, nz_app, nz_repeat0; reflexivity).
  (* the new roots are reachable from the old ones *)
  assert (Hsub : forall r, In r (nz pl ++ R0) -> r <> 0 -> reach (m s) R r).
  { intros r Hr Hr0. apply in_app_iff in Hr as [Hr|Hr].
    - apply in_nz in Hr as [Hr _]. eapply reach_trans; [|eapply (obj_fields_reach (m s) k p r HL); auto].
      + intros q [<-|[]] _. exact Hp.
      + rewrite HF, in_app_iff. now right.
    - apply reach_src; auto. eapply Permutation_in; [symmetry; exact HP|now right]. }
  assert (Hpre : pre s R (OLoadObj k p)) by (cbn [pre]; auto).
  split; [exact Hpre|].
  assert (Hinv : exists hl' fl' cl', InvA base (load_object k p s) (nz pl ++ R0) hl' fl' cl').
  { destruct (heap_inv_step base s R hl fl cl (OLoadObj k p) IA Hpre) as (hl' & fl' & cl' & I1 & _).
    exists hl', fl', cl'. cbn [step ghost] in I1. rewrite Hnz in I1. eapply invA_perm_R; [|exact I1].
    apply Permutation_app_head. apply (Permutation_cons_inv (a := p)).
    etransitivity; [symmetry; apply rem1_perm; exact HpR|exact HP]. }
  split; [exact Hinv|].
  intros x Hx Hl.
  assert (Hx1 : reach (m s) (nz pl ++ R0) x).
  { apply (reach_ext (m (load_object k p s)) (m s)) in Hx; auto. intros; symmetry; apply load_object_ps. }
  assert (Hx0 : reach (m s) R x) by (eapply reach_trans; [exact Hsub|exact Hx1]).
  destruct (link_sole s R hl fl cl lk x I K Hx0 Hl) as (Hc0 & Hc & Hh & HnR & U & _).
  destruct (K x Hx0 Hl) as (_ & _ & Hlk).
  unfold link_of in *. rewrite load_object_ps. set (c := nth 2 (ps (m s x)) 0) in *.
  split; [exact Hc0|]. split; [|exact Hlk].
  assert (Hcp : c <> p) by (intros E; rewrite E in HnR; contradiction).
  unfold load_object. destruct (Z.eqb_spec (hdr (m s p)) 0) as [Hh0|Hhn].
  - (* release: the chain blocks end on the reuse list, so none of them is reachable afterwards *)
    destruct (load_object_release_invA_hl base k p s R R0 hl fl cl IA HP (HO Hh0)) as (hl' & cl' & I1 & _ & Hrel).
    rewrite Hnz in I1. pose proof (proj1 I1) as I1i.
    rewrite load_object_release_hdr_other; auto. intros Hin.
    (* c is a chain block other than p: its only referrer x is a chain block, which is reachable *)
    assert (Hxrel : In x hl').
    { apply Hrel. clear -Hin Hcp U HL Hchr I Hc0. unfold c in *.
      revert p Hin Hcp HL Hchr. induction k as [|k IH]; intros p Hin Hcp HL Hchr; cbn [obj_blocks] in *.
      - destruct Hin as [E|[]]. congruence.
      - destruct Hin as [E|Hin]; [congruence|].
        set (q := link_of (m s) p) in *.
        destruct (Z.eq_dec (nth 2 (ps (m s x)) 0) q) as [E|Hne].
        + left. apply U.
          * pose proof (reach_root_counted _ _ _ _ _ _ I (Hchr p (or_introl eq_refl))). rewrite in_app_iff. auto.
          * rewrite E. apply link_in. apply HL. right. destruct k; now left.
        + right. apply IH; auto.
          * intros b Hb. apply HL. now right.
          * intros b Hb. apply Hchr. now right. }
    assert (Hxcl : In x cl').
    { eapply reach_root_counted; [exact I1i|]. unfold load_object in Hx. destruct (Z.eqb_spec (hdr (m s p)) 0); [exact Hx|contradiction]. }
    destruct (proj1 (nodup3 hl' fl cl' x (i_nodup _ _ _ _ _ I1i)) Hxcl) as [N _]. contradiction.
  - (* share: only p and the fields change their headers *)
    unfold load_object_share. rewrite share_walk_hdr_other.
    + rewrite dec_hdr_other by exact Hcp. exact Hh.
    + rewrite (obj_fields_ext (m s)) by (intros; apply dec_ps). intros Hin.
      eapply (field_not_link lk s R hl fl cl I K k p Hp Hk c Hin Hc0 x Hx0 Hl). reflexivity.
Qed.
