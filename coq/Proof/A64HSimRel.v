(* C07, forward simulation for HEAP statements on AArch64, part 1: the state relation between a configuration of the
   heap-instrumented linear machine (Sem/AxHeap.v: environment entries carry the block pointer, the abstract allocator
   state evolves by Heap.step) and a state of Sem/A64Sem.v.  Port of Proof/X86HSimRel.v; the representation of values
   in heap words is the shared one of Proof/HRep.v with JL := A64.jump_length (4 bytes per table entry) and
   INT := in64 (the integer statements of AArch64 are exact on 64-bit values only).

     hvrep   position i of the environment: an `ext i64` variable has its 64-bit value in the SECOND temporary; every
             other variable has the block pointer of the machine's entry in the FIRST and the data word in the SECOND
             temporary (registers X(2i+4), X(2i+5) for i < 13, spill slots from position 13 on);
     hrel    frame as in Proof/A64SimRel.v (SP = sp = 0 mod 16, 144 bytes of room), HEAP = X0 / FREE = X1 = reuse list /
             deferred list of the abstract state, `abs_heap` = the abstract state up to zero padding (`heq`, shared). *)
From Coq Require Import List ZArith NArith String Bool Lia FMapPositive.
From SCC Require Import Base.Sexp Lang.AxSyn Sem.AxSem Sem.AxHeap Model.ParMoves Model.Backend Model.A64 Sem.A64Sem
     Generated.Constants Proof.A64State Proof.A64ImmHw Proof.A64Imm Proof.A64Sel Proof.A64PM Proof.A64Exec
     Proof.A64MemSubst Proof.SubstGraph Proof.SubstBackends Proof.A64Subst Proof.A64Wf Proof.A64Print
     Proof.A64SimRel Proof.A64Mem Proof.HRep.
From SCC Require Model.Heap Proof.X86Mem Proof.X86HeapDefs Proof.X86HFrame Proof.HeapRep.
Import ListNotations.
Open Scope Z_scope.
Open Scope list_scope.

Notation heq := X86HeapDefs.heq.
Notation P3 := X86HeapDefs.P3.
Notation pad3 := X86HeapDefs.pad3.
Notation P03 := X86HFrame.P03.

(* ---------- the shared agreement `heq`, read on an AArch64 state ---------- *)
Lemma heq_eqB a' a hs : st_eqB a' a -> heq a hs -> heq a' hs.
Proof. apply X86HeapDefs.heq_eqB. Qed.
Lemma heq_abs_ps F s hs x : heq (abs_heap F s) hs -> is_blk x ->
  pad3 (Heap.ps (Heap.m hs x)) = [hword s (x + 16); hword s (x + 32); hword s (x + 48)] /\ Heap.hdr (Heap.m hs x) = hword s x.
Proof. intros (_ & _ & _ & H) Hx. destruct (H x Hx) as [A B]. split; [now rewrite <- B|now rewrite <- A]. Qed.
Lemma obj_blocks_abs s : forall k p, Heap.obj_blocks k (abs_mem s) p = wblocks k (hword s) p.
Proof. induction k as [|k IH]; intros p; cbn [Heap.obj_blocks X86HeapDefs.wblocks]; [reflexivity|]. f_equal. apply IH. Qed.
Lemma heq_slots_agree F s hs : heq (abs_heap F s) hs -> slots_agree (Heap.m hs) (hword s).
Proof. intros H b Hb. exact (proj1 (heq_abs_ps F s hs b H Hb)). Qed.
(* the pointers the instrumented machine gives to the variables loaded from a represented object *)
Lemma load_ptrs_words F s hs lk fs q :
  heq (abs_heap F s) hs -> P03 hs -> fs <> [] ->
  HeapRep.rep_flds lk (Heap.m hs) fs q ->
  Forall is_blk (wblocks (Heap.nlinks (List.length fs)) (hword s) q) ->
  load_ptrs hs (List.length fs) q =
    map (hword s) (skipn (List.length (waddrs (Heap.nlinks (List.length fs)) (hword s) q) - List.length fs)
                         (waddrs (Heap.nlinks (List.length fs)) (hword s) q)).
Proof.
  intros HQ K NE RF FB. inversion RF as [|fs0 q0 j pl _ Hlk HL HF RS]; subst; [congruence|].
  pose proof (HeapRep.reps_length _ _ _ _ RS) as Lpl.
  unfold load_ptrs. rewrite <- Hlk in *.
  rewrite (X86HFrame.obj_fields_words hs (hword s) (heq_slots_agree F s hs HQ) K (lk q) q FB).
  - unfold Heap.lastn. rewrite map_length, <- skipn_map. reflexivity.
  - rewrite HF, app_length, repeat_length, Lpl. pose proof (X86HFrame.nlinks_bound (List.length fs)). rewrite <- Hlk in *.
    assert (0 < List.length fs)%nat by (destruct fs; [congruence|cbn; lia]). lia.
Qed.

Section HRel.
Variable types : list tydecl.
(* what the data word of a closure points to: (address, type name, clauses, captured context) *)
Variable CLO : Z -> ident -> list clause -> ctx -> Prop.
Notation xrep := (HRep.xrep types CLO jump_length in64).
Notation xflds := (HRep.xflds types CLO jump_length in64).
Notation xreps := (HRep.xreps types CLO jump_length in64).

(* ---------- positions ---------- *)
Inductive hvrep (s : astate) (sp : Z) (i : nat) : binding -> value -> Z -> Prop :=
| hv_int b z q t :
    bchi b = Ext -> bty b = I64 -> atpos Snd i = Ok t -> lget s sp t = Some z -> in64 z -> hvrep s sp i b (VInt z) q
| hv_ptr b v q a t1 t2 :
    bchi b <> Ext -> chi_of v = bchi b -> ty_of v = bty b ->
    atpos Fst i = Ok t1 -> atpos Snd i = Ok t2 -> lget s sp t1 = Some q -> lget s sp t2 = Some a ->
    xrep (hword s) v q a -> hvrep s sp i b v q.

Record hrel (c : ctx) (he : henv) (hs : Heap.st) (s : astate) (sp : Z) : Prop := mk_hrel {
  hr_frame : frame_ok s sp;                 (* SP = sp, 0 mod 16, the spill area inside the stack region *)
  hr_room : STACK_LIMIT + 144 <= sp;        (* room for the pushes around a print call *)
  hr_heapreg : rget s HEAP = Some (Heap.heap hs);
  hr_freereg : rget s FREE = Some (Heap.free hs);
  hr_heq : heq (abs_heap (Heap.frontier hs) s) hs;
  hr_ids : env_ids (erase_env he) = ids c;
  hr_nodup : NoDup (ids c);
  hr_vals : forall i x v q, nth_error he i = Some (x, v, q) -> exists b, nth_error c i = Some b /\ hvrep s sp i b v q
}.

Lemma hrel_length c he hs s sp : hrel c he hs s sp -> List.length he = List.length c.
Proof.
  intros R. pose proof (hr_ids _ _ _ _ _ R) as H. apply (f_equal (@List.length N)) in H.
  unfold env_ids, ids, erase_env in H. now rewrite !map_length in H.
Qed.

Lemma hword_heap s s' a : heap s' = heap s -> hword s' a = hword s a.
Proof. intros E. unfold hword. now rewrite E. Qed.

Lemma hvrep_keep s s' sp i b v q :
  heap s' = heap s ->
  (forall n t, allowed n b -> atpos n i = Ok t -> lget s' sp t = lget s sp t) -> hvrep s sp i b v q -> hvrep s' sp i b v q.
Proof.
  intros HE K V. destruct V as [b z q t A B T L I64|b v q a t1 t2 A K1 K2 T1 T2 L1 L2 X].
  - eapply hv_int; eauto. rewrite (K Snd _ (or_introl eq_refl) T). exact L.
  - assert (AL : forall n, allowed n b) by (intros n; right; exact A).
    apply (hv_ptr s' sp i b v q a t1 t2); auto.
    + rewrite (K Fst t1 (AL Fst) T1). exact L1.
    + rewrite (K Snd t2 (AL Snd) T2). exact L2.
    + apply (HRep.xrep_ext types CLO jump_length in64 (hword s) (hword s')); [intros a0 _; apply hword_heap; exact HE|exact X].
Qed.
Lemma hvrep_kind s sp i b b' v q : bchi b' = bchi b -> bty b' = bty b -> hvrep s sp i b v q -> hvrep s sp i b' v q.
Proof.
  intros K T V. destruct V as [b z q t A B T0 L I64|b v q a t1 t2 A K1 K2 T1 T2 L1 L2 X].
  - eapply hv_int; eauto; congruence.
  - eapply hv_ptr; eauto; congruence.
Qed.

Lemma heq_same_heap F s s' hs :
  heap s' = heap s -> rget s' HEAP = rget s HEAP -> rget s' FREE = rget s FREE ->
  heq (abs_heap F s) hs -> heq (abs_heap F s') hs.
Proof.
  intros HE RH RF. apply heq_eqB. unfold abs_heap, reg_or0. rewrite RH, RF.
  split; [reflexivity|]. split; [reflexivity|]. split; [reflexivity|].
  intros x _. unfold abs_mem. cbn [Heap.m]. now rewrite !(hword_heap s s') by exact HE.
Qed.

(* a state change that keeps the heap, the allocator registers and every live variable location keeps the relation *)
Lemma hrel_keep c he hs s s' sp :
  hrel c he hs s sp -> frame_ok s' sp -> heap s' = heap s ->
  rget s' HEAP = rget s HEAP -> rget s' FREE = rget s FREE ->
  (forall i b n t, nth_error c i = Some b -> allowed n b -> atpos n i = Ok t -> lget s' sp t = lget s sp t) ->
  hrel c he hs s' sp.
Proof.
  intros R F HE RH RF K. destruct R as [F0 Ro Hr Fr HQ Ids ND Vals]. split; auto.
  - now rewrite RH.
  - now rewrite RF.
  - eapply heq_same_heap; eauto.
  - intros i x v q Hn. destruct (Vals i x v q Hn) as (b & Hb & V). exists b. split; [exact Hb|].
    eapply hvrep_keep; [exact HE| |exact V]. intros n t AL T. apply (K i b n t); auto.
Qed.

(* reading an integer operand *)
Lemma hlookup_nth (he : henv) x v :
  AxSem.lookup (erase_env he) x = Some v -> exists i y q, nth_error he i = Some (y, v, q) /\ idn y = x.
Proof.
  induction he as [|[[y w] q] he IH]; cbn; [discriminate|].
  destruct (N.eqb_spec (idn y) x) as [E|E].
  - intros H; inversion H; subst. exists O, y, q. cbn. auto.
  - intros H. destruct (IH H) as (i & y' & q' & Hn & Hy). exists (S i), y', q'. cbn. auto.
Qed.
Lemma henv_ctx_nth c (he : henv) i y v q :
  env_ids (erase_env he) = ids c -> nth_error he i = Some (y, v, q) -> exists b, nth_error c i = Some b /\ idn (bvar b) = idn y.
Proof.
  intros E H. apply (env_ctx_nth c (erase_env he) i y v E).
  unfold erase_env. now rewrite (map_nth_error _ _ _ H).
Qed.
Lemma hrel_lookup c he hs s sp a x :
  hrel c he hs s sp -> lookup_int (erase_env he) a = Some x ->
  exists i b t, nth_error c i = Some b /\ idn (bvar b) = idn a /\ atpos Snd i = Ok t /\ lget s sp t = Some x /\ in64 x.
Proof.
  intros R H. unfold lookup_int, lookup_id in H.
  destruct (AxSem.lookup (erase_env he) (idn a)) as [[z| |]|] eqn:L; try discriminate.
  inversion H; subst z. destruct (hlookup_nth he (idn a) (VInt x) L) as (i & y & q & Hn & Hy).
  destruct (henv_ctx_nth c he i y _ q (hr_ids _ _ _ _ _ R) Hn) as (b & Hb & Eb).
  destruct (hr_vals _ _ _ _ _ R i y _ q Hn) as (b' & Hb' & V). assert (b' = b) by congruence. subst b'.
  inversion V; subst.
  - exists i, b, t. split; [auto|]. split; [congruence|]. split; [auto|]. split; assumption.
  - match goal with K : chi_of (VInt x) = bchi b |- _ => cbn in K end. congruence.
Qed.

(* extending the environment by a new last integer variable whose temporary has been written *)
Lemma hrel_push c he hs s s' sp v z t :
  hrel c he hs s sp -> NoDup (ids (c ++ [mkb v Ext I64])) ->
  atpos Snd (List.length c) = Ok t -> lget s' sp t = Some z -> in64 z -> preserved_rem s s' sp t ->
  hrel (c ++ [mkb v Ext I64]) (he ++ [(v, VInt z, 0)]) hs s' sp.
Proof.
  intros R ND Ht Hv IZ (PR & HE & _ & _ & F').
  pose proof (hrel_length _ _ _ _ _ R) as LEN. destruct R as [F0 Ro Hr Fr HQ Ids ND0 Vals].
  destruct (atpos_ok _ _ _ Ht) as (_ & NF & NH).
  destruct free_operand as (FA & FB & FC & FD).
  assert (RH : rget s' HEAP = rget s HEAP).
  { apply (PR (AR HEAP)); [exact I|congruence|discriminate|discriminate|discriminate]. }
  assert (RF : rget s' FREE = rget s FREE).
  { apply (PR (AR FREE)); auto. }
  split; auto.
  - now rewrite RH.
  - now rewrite RF.
  - eapply heq_same_heap; eauto.
  - unfold env_ids, ids, erase_env in *. rewrite !map_app. f_equal. exact Ids.
  - intros i x w q Hn. destruct (Nat.lt_ge_cases i (List.length he)) as [L|L].
    + rewrite nth_error_app1 in Hn by exact L. destruct (Vals i x w q Hn) as (b & Hb & V).
      exists b. split; [rewrite nth_error_app1 by lia; exact Hb|].
      eapply hvrep_keep; [exact HE| |exact V]. intros n t0 _ T0.
      destruct (atpos_ok _ _ _ T0) as (((A & B & C) & D) & _). apply PR; auto.
      intros E; subst t0. destruct (SubstGraph.tpos_inj a64_backend a64_backend_ok _ _ _ _ _ T0 Ht) as [_ E]. lia.
    + rewrite nth_error_app2 in Hn by exact L. destruct (i - List.length he)%nat as [|k] eqn:K; cbn in Hn; [|destruct k; discriminate].
      inversion Hn; subst. exists (mkb x Ext I64). split.
      * rewrite nth_error_app2 by lia. replace (i - List.length c)%nat with O by lia. reflexivity.
      * eapply hv_int; eauto. replace i with (List.length c) by lia. exact Ht.
Qed.

(* dropping the last variable *)
Lemma hrel_prefix c0 b he0 en hs s sp : hrel (c0 ++ [b]) (he0 ++ [en]) hs s sp -> hrel c0 he0 hs s sp.
Proof.
  intros R. pose proof (hrel_length _ _ _ _ _ R) as LEN. rewrite !app_length in LEN. cbn [List.length] in LEN.
  destruct R as [F Ro Hr Fr HQ Ids ND Vals]. split; auto.
  - unfold env_ids, ids, erase_env in *. rewrite !map_app in Ids. cbn [map] in Ids. apply app_inj_tail in Ids. tauto.
  - unfold ids in *. rewrite map_app in ND. clear -ND. induction (map (fun b => idn (bvar b)) c0) as [|x l IH]; cbn in *; [constructor|].
    inversion ND; subst. constructor; auto. intros I. apply H1. apply in_app_iff. now left.
  - intros i x v q Hi. assert (Li : (i < List.length he0)%nat) by (apply nth_error_Some; congruence).
    destruct (Vals i x v q) as (b' & Hb' & V); [rewrite nth_error_app1 by exact Li; exact Hi|].
    exists b'. split; [|exact V]. rewrite nth_error_app1 in Hb' by lia. exact Hb'.
Qed.
End HRel.

Arguments hr_frame {types CLO c he hs s sp}.
Arguments hr_room {types CLO c he hs s sp}.
Arguments hr_heapreg {types CLO c he hs s sp}.
Arguments hr_freereg {types CLO c he hs s sp}.
Arguments hr_heq {types CLO c he hs s sp}.
Arguments hr_ids {types CLO c he hs s sp}.
Arguments hr_nodup {types CLO c he hs s sp}.
Arguments hr_vals {types CLO c he hs s sp}.
Arguments hrel_length {types CLO c he hs s sp}.
