(* C08, forward simulation of the RISC-V code generator, part 5: `sim_exec` - by induction on the
   fuel of the linear machine, the code emitted for a statement of the fragment `stmt_fr`, placed in an
   image in which the definitions' labels and `cleanup` resolve, runs to the machine's observation
   (results and undefined operations).  Progress is part of the proof: a `lin_check`ed statement never
   gets stuck under the relation. *)
From Coq Require Import List ZArith NArith String Bool Lia FMapPositive.
From SCC Require Import Base.Sexp Lang.AxSyn Sem.AxSem Model.ParMoves Model.Backend Model.RV Sem.RVSem Sem.RVWf
     Model.Linearize Model.LinCheck Generated.Constants Proof.LinBasics
     Proof.RVSel Proof.SubstGraph Proof.SubstBackends Proof.RVSubst Proof.RVSimAddr Proof.BackendInv Proof.RVSimRel Proof.RVSimStmt
     Proof.RVSimClo.
Import ListNotations.
Open Scope Z_scope.
Open Scope list_scope.

(* progress: operands are found *)
Lemma has_ext_lookup_int CL c e st a : rrel CL c e st -> has_ext c a = true -> exists x, lookup_int e a = Some x.
Proof.
  intros R H. unfold has_ext, has in H. destruct (lookup_b c (idn a)) as [b|] eqn:L; [|discriminate].
  apply lookup_b_Some in L as [Hin Hid]. apply andb_true_iff in H as [K T]. apply chi_eqb_eq in K. apply ty_eqb_eq in T.
  assert (I : In (idn a) (env_ids e)).
  { rewrite (rr_ids R), <- Hid. now apply In_ids. }
  destruct (XP.lookup_of_in e _ I) as (v & Lv). destruct (XR.lookup_nth e _ _ Lv) as (i & y & Hi & Ey).
  destruct (rr_vals R i y v Hi) as (b' & Hb' & V).
  destruct (XR.env_ctx_nth c e i y v (rr_ids R) Hi) as (b0 & Hb0 & Eb0). assert (b0 = b') by congruence. subst b0.
  apply In_nth_error in Hin as (i' & Hi').
  assert (i' = i) by (eapply (ids_nth_inj c i' i b b'); eauto using (rr_nodup R); congruence). subst i'.
  assert (b' = b) by congruence. subst b'.
  inversion V; subst; [|congruence]. exists z. unfold lookup_int, lookup_id. now rewrite Lv.
Qed.
Lemma has_lookup_id CL c e st a k t : rrel CL c e st -> has c a k t = true -> exists v, lookup_id e a = Some v.
Proof.
  intros R H. unfold has in H. destruct (lookup_b c (idn a)) as [b|] eqn:L; [|discriminate].
  apply lookup_b_Some in L as [Hin Hid]. apply XP.lookup_of_in. rewrite (rr_ids R), <- Hid. now apply In_ids.
Qed.

Section Main.
Variable im : image.
Variable p : prog.
Variable clo : bool.
Variable stop : positive.
Hypothesis IMG : rimg_ok im.
Hypothesis EVEN : forall pc a, PM.find pc (addr_of im) = Some a -> a mod 2 = 0.
Hypothesis SMALL : clo = true -> forall pc a, PM.find pc (addr_of im) = Some a -> a < 4611686018427387904 - 32.
Hypothesis ENC : forall pc c, PM.find pc (code im) = Some c -> instr_wf c = true.
Hypothesis STOPL : find_label (labels im) "cleanup" = Some stop.
Hypothesis STOPC : exists l, PM.find stop (code im) = Some (LAB l).
Hypothesis ENDC : PM.find (Pos.succ stop) (code im) = None.
Notation CLO := (clo_ok im p clo).
Local Notation rrel := (rrel CLO).
Hypothesis DEFS : forall d, In d (pdefs p) ->
  exists pcd lcd cd lcd', find_label (labels im) (show_ident (dname d) +++ "_") = Some pcd /\
    (exists a, PM.find pcd (code im) = Some (LAB (show_ident (dname d) +++ "_")) /\ PM.find pcd (addr_of im) = Some a) /\
    rcs (ptypes p) (dbody d) (dctx d) lcd = Ok (cd, lcd') /\ placed im (Pos.succ pcd) cd.
Hypothesis LIN : forall d, In d (pdefs p) -> lin_check (sigs_of p) (dctx d) (dbody d) = true.
Hypothesis FRG : forall d, In d (pdefs p) -> stmt_fr clo (dbody d) = true.

Lemma sim_exec : forall fuel s c e st pc cd lc lc',
  stmt_fr clo s = true -> lin_check (sigs_of p) c s = true ->
  rcs (ptypes p) s c lc = Ok (cd, lc') -> placed im pc cd ->
  rrel c e st ->
  XP.not_oof (exec_linear fuel p e s []) -> rfin im stop pc st (exec_linear fuel p e s []).
Proof.
  induction fuel as [|fuel IH]; intros s c e st pc cd lc lc' SI LC CS PL R G.
  { exfalso. apply G. reflexivity. }
  destruct s as [re next|label args|v t tag args next|v t cls|v t env cls next|v tag t args|n v next|a op b v next|nl v next|so a b thenc elsec|v];
    try (cbn [stmt_fr] in SI; discriminate); cbn [exec_linear] in G |- *.
  - (* Substitute *)
    cbn [stmt_fr] in SI.
    cbn [lin_check] in LC. apply andb_true_iff in LC as [_ LC]. apply andb_true_iff in LC as [LCs LC].
    destruct (XP.lookups_total e (map snd re)) as (vs & LK & LV).
    { intros x Hx. apply in_map_iff in Hx as (q & <- & Hq). rewrite forallb_forall in LCs. eapply (has_lookup_id CLO); eauto. }
    destruct (XS.bind_total (map (fun r : binding * ident => bvar (fst r)) re) vs) as (e' & BD); [rewrite LV, !map_length; reflexivity|].
    rewrite LK, BD in G |- *.
    destruct (cs_substitute _ _ _ _ _ _ _ _ CS) as (c1 & lc1 & c2 & c3 & WC & CE & NX & ->). cbn [b_mark rv_backend app] in PL.
    assert (NDn : NoDup (new_ids re)) by (rewrite <- ids_new; exact (XS.lin_nodup _ _ _ LC)).
    rewrite app_assoc in PL. apply placed_app in PL as [PL2 PL3].
    destruct (sim_substitute im CLO c e st re vs e' c1 lc lc1 c2 pc R NDn) as (s' & X & R' & _); auto.
    { intros q Hq. rewrite forallb_forall in LCs. exact (LCs q Hq). }
    eapply star_rfin; eauto.
  - (* Call *)
    cbn [lin_check] in LC. apply andb_true_iff in LC as [_ LC].
    destruct (lookup_label (sigs_of p) label) as [ps|] eqn:LL; [|discriminate].
    destruct (XP.lookup_label_find_def p label ps LL) as (d & FD & <-).
    destruct (XS.bind_total (vars (dctx d)) (map snd e)) as (e' & BD).
    { apply sig_match_iff, same_kt_length in LC. unfold vars. rewrite !map_length, (rr_length R). auto. }
    rewrite FD, BD in G |- *.
    unfold find_def in FD. apply find_some in FD as [IN EQ]. apply ident_eqb_eq in EQ. subst label.
    destruct (DEFS d IN) as (pcd & lcd & cdd & lcd' & FL & CLb & CSd & PLd).
    pose proof (sim_call im st _ _ _ _ _ _ _ pc pcd CS (proj1 PL) FL CLb) as X.
    eapply star_rfin; eauto.
    eapply (IH (dbody d) (dctx d) e' st); eauto.
    eapply rr_bind; eauto. exact (XS.lin_nodup _ _ _ (LIN d IN)).
  - (* Create *)
    destruct (stmt_fr_create _ _ _ _ _ _ SI) as (CLT & -> & NE & CFc & CFn).
    rewrite lin_check_create in LC. apply andb_true_iff in LC as [_ LC].
    cbn [List.length] in LC. unfold split_lastn in LC. cbn [Nat.leb] in LC. rewrite Nat.sub_0_r, firstn_all, skipn_all in LC.
    apply andb_true_iff in LC as [LC LCn]. apply andb_true_iff in LC as [LC LCc]. apply andb_true_iff in LC as [_ CO].
    assert (TN : exists tn, t = Decl tn).
    { unfold cls_ok, type_xtors in CO. destruct t as [|tn]; [discriminate|eauto]. }
    destruct TN as (tn & ->).
    cbn [ty_name List.length] in G |- *. unfold AxSem.split_last in G |- *. cbn [Nat.leb] in G |- *.
    rewrite Nat.sub_0_r, firstn_all, skipn_all in G |- *. cbn [env_ids map ids ids_eqb vars bind] in G |- *.
    assert (STAT : forall cl, In cl cls -> lin_check (sigs_of p) (cl_ctx cl) (cl_body cl) = true /\ stmt_fr clo (cl_body cl) = true).
    { intros cl Hcl. unfold lin_clauses_cr in LCc. rewrite forallb_forall in LCc. specialize (LCc cl Hcl). rewrite app_nil_r in LCc.
      unfold clauses_fr in CFc. rewrite forallb_forall in CFc. specialize (CFc cl Hcl). auto. }
    destruct (sim_create im p clo IMG EVEN SMALL c e st v tn cls next lc cd lc' pc CLT R (XS.lin_nodup _ _ _ LCn) CS PL NE CO STAT)
      as (c3 & lc3 & rest & s' & -> & NX & X & R' & _).
    apply placed_app in PL as [_ PL]. apply placed_app in PL as [PL3 _]. cbn [List.length] in PL3.
    eapply star_rfin; eauto.
  - (* Invoke *)
    destruct (invoke_progress im p clo c e st v tag t args R LC) as (e0 & x & tn & cls & cl & e1 & SL & IDX & FC & BD).
    rewrite SL, IDX, FC, BD in G |- *.
    destruct (sim_invoke im p clo c e st v tag t args cd lc lc' pc e0 x tn cls [] cl e1 R SL IDX FC BD LC CS (proj1 PL))
      as (pcb & lcb & cb & lcb' & s' & X & CSb & PLb & LCb & FRb & R' & _).
    eapply star_rfin; eauto.
  - (* Literal *)
    cbn [stmt_fr] in SI. cbn [lin_check] in LC. apply andb_true_iff in LC as [_ LC].
    destruct (cs_literal _ _ _ _ _ _ _ _ _ CS) as (tv & c2 & TV & NX & ->). cbn [b_mark b_load_immediate rv_backend app] in PL.
    apply placed_app in PL as [PL1 PL2].
    destruct (sim_literal im CLO c e st n v tv pc R (XS.lin_nodup _ _ _ LC) TV (proj1 PL1)) as (s' & X & R' & _).
    eapply star_rfin; eauto.
  - (* Op *)
    cbn [stmt_fr] in SI. cbn [lin_check] in LC. apply andb_true_iff in LC as [_ LC]. apply andb_true_iff in LC as [LCo LC].
    apply andb_true_iff in LCo as [HA HB].
    destruct (has_ext_lookup_int CLO c e st a R HA) as (x & LA1).
    destruct (has_ext_lookup_int CLO c e st b R HB) as (y & LB1).
    rewrite LA1, LB1 in G |- *.
    destruct (cs_op _ _ _ _ _ _ _ _ _ _ _ CS) as (tv & ta & tb & c2 & TV & TA & TB & NX & ->). cbn [b_mark b_arith rv_backend app] in PL.
    apply placed_app in PL as [PL1 PL2].
    destruct (eval_op op x y) as [z|w] eqn:EV.
    + destruct (sim_op im CLO c e st a op b v x y z tv ta tb pc R (XS.lin_nodup _ _ _ LC) LA1 LB1 EV TV TA TB (proj1 PL1)) as (s' & X & R' & _).
      replace (List.length (r_arith op tv ta tb)) with 1%nat in PL2 by (destruct op; reflexivity).
      eapply star_rfin; eauto.
    + destruct (sim_op_undef im CLO c e st a op b v x y w tv ta tb R (XS.lin_nodup _ _ _ LC) LA1 LB1 EV TV TA TB) as (ci & E & ST).
      rewrite E in PL1. destruct (proj1 PL1 O ci eq_refl) as (HC & (ad & HA')). cbn [padd] in HC, HA'.
      exact (rfin_undef im stop STOPC pc ci ad st w st HC HA' (ST ad)).
  - (* IfC *)
    cbn [stmt_fr] in SI. apply andb_true_iff in SI as [SI1 SI2].
    cbn [lin_check] in LC. apply andb_true_iff in LC as [_ LC].
    apply andb_true_iff in LC as [LC LCe]. apply andb_true_iff in LC as [LCo LCt]. apply andb_true_iff in LCo as [HA HB].
    destruct (has_ext_lookup_int CLO c e st a R HA) as (x & LA1).
    assert (LB1 : exists y, match b with Some b0 => lookup_int e b0 | None => Some 0 end = Some y).
    { destruct b as [b|]; [|eauto]. exact (has_ext_lookup_int CLO c e st b R HB). }
    destruct LB1 as (y & LB1). rewrite LA1, LB1 in G |- *.
    destruct (sim_ifc im CLO c e st so a b x y (ptypes p) thenc elsec lc cd lc' pc R LA1 LB1 CS PL)
      as (c2 & lc2 & c3 & -> & EL & TH & X).
    apply placed_app in PL as [_ PL]. apply placed_app in PL as [PL2 PL]. apply placed_app in PL as [_ PL3].
    rewrite <- !padd_add in PL3. cbn [List.length] in PL2, PL3. rewrite Nat.add_assoc in PL3.
    eapply star_rfin; eauto.
    destruct (eval_cmp so x y).
    + eapply (IH thenc c e st); eauto.
    + eapply (IH elsec c e st); eauto.
  - (* Exit *)
    cbn [lin_check] in LC. apply andb_true_iff in LC as [_ HV].
    destruct (has_ext_lookup_int CLO c e st v R HV) as (z & LV).
    rewrite LV in G |- *.
    destruct (sim_exit im CLO c e st v z (ptypes p) lc cd lc' pc stop R LV CS (proj1 PL) STOPL) as (s' & X & FC & _).
    eapply star_rfin; eauto. cbn [finish rev_append]. rewrite <- FC. apply rfin_stop; assumption.
Qed.
End Main.
