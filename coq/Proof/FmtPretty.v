(* C16: the layout computed by the model of the `pretty` crate (Model/Pretty.v) is one of the layouts
   the layout-independence theorem quantifies over:   renders d (render width d). *)
From Coq Require Import List ZArith NArith String Ascii Bool Lia.
From SCC Require Import Base.Sexp Lang.FunSyn Model.Printer Model.Parser Model.Pretty
  Proof.FmtDefs Proof.FmtGlue Proof.FmtLex.
Import ListNotations.
Local Open Scope string_scope.

Fixpoint flat_stack (bc : list cmd) : list item :=
  match bc with [] => [] | (_, _, d) :: r => (flat d ++ flat_stack r)%list end.
Fixpoint stack_size (bc : list cmd) : nat :=
  match bc with [] => 0%nat | (_, _, d) :: r => (dsize d + stack_size r)%nat end.

Lemma concat_rev_acc l acc : concat_rev l acc = concat_rev l "" ++ acc.
Proof.
  revert acc. induction l as [|x l IH]; intros acc; cbn [concat_rev]; [reflexivity|].
  rewrite IH, (IH (x ++ "")). rewrite sapp_nil_r. now rewrite sapp_assoc.
Qed.
Lemma concat_rev_cons x l : concat_rev (x :: l) "" = concat_rev l "" ++ x.
Proof. cbn [concat_rev]. rewrite concat_rev_acc. now rewrite sapp_nil_r. Qed.

Lemma blank_spaces n : blankstr (spaces n) = true.
Proof.
  unfold spaces. rewrite N2Nat.inj_iter. induction (N.to_nat n) as [|k IH]; [reflexivity|].
  unfold blankstr in *. simpl. exact IH.
Qed.
Lemma blank_newline n : blankstr (newline n) = true /\ newline n <> "".
Proof. unfold newline. split; [|discriminate]. unfold blankstr. cbn [all_chars]. apply blank_spaces. Qed.
Lemma flat_append a b : flat (DAppend a b) = (flat a ++ flat b)%list.
Proof. unfold flat. cbn [flat_acc]. now rewrite flat_acc_app. Qed.

Lemma best_renders ff width : forall fuel bc pos out, (stack_size bc <= fuel)%nat ->
  exists s', concat_rev (best fuel ff bc pos width out) "" = concat_rev out "" ++ s' /\
             renders_items (flat_stack bc) s'.
Proof.
  induction fuel as [|fuel IH]; intros bc pos out Hf.
  - destruct bc as [|[[i f] d] bc]; [|cbn in Hf; destruct d; cbn in Hf; lia].
    exists "". rewrite sapp_nil_r. split; [reflexivity|constructor].
  - destruct bc as [|[[i f] d] bc].
    + exists "". rewrite sapp_nil_r. split; [reflexivity|constructor].
    + cbn [stack_size] in Hf. destruct d; cbn [best dsize] in *.
      * (* nil *) destruct (IH bc pos out ltac:(lia)) as (s' & E & R). exists s'. split; [exact E | exact R].
      * (* text *)
        destruct (IH bc (pos + text_len a)%N (atom_text a :: out) ltac:(lia)) as (s' & E & R).
        exists (atom_text a ++ s'). rewrite E, concat_rev_cons, sapp_assoc. split; [reflexivity|].
        cbn [flat_stack]. unfold flat. cbn [flat_acc app]. now constructor.
      * (* space *)
        destruct (IH bc (pos + 1)%N (" " :: out) ltac:(lia)) as (s' & E & R).
        exists (" " ++ s'). rewrite E, concat_rev_cons, sapp_assoc. split; [reflexivity|].
        cbn [flat_stack]. unfold flat. cbn [flat_acc app]. constructor; [reflexivity | discriminate | assumption].
      * (* line *)
        destruct f.
        -- destruct (IH bc (pos + 1)%N (" " :: out) ltac:(lia)) as (s' & E & R).
           exists (" " ++ s'). rewrite E, concat_rev_cons, sapp_assoc. split; [reflexivity|].
           cbn [flat_stack]. unfold flat. cbn [flat_acc app]. constructor; [reflexivity | discriminate | assumption].
        -- destruct (IH bc i (newline i :: out) ltac:(lia)) as (s' & E & R).
           exists (newline i ++ s'). rewrite E, concat_rev_cons, sapp_assoc. split; [reflexivity|].
           cbn [flat_stack]. unfold flat. cbn [flat_acc app]. destruct (blank_newline i). now constructor.
      * (* line_ *)
        destruct f.
        -- destruct (IH bc pos out ltac:(lia)) as (s' & E & R).
           exists ("" ++ s'). split; [exact E|].
           cbn [flat_stack]. unfold flat. cbn [flat_acc app]. now constructor.
        -- destruct (IH bc i (newline i :: out) ltac:(lia)) as (s' & E & R).
           exists (newline i ++ s'). rewrite E, concat_rev_cons, sapp_assoc. split; [reflexivity|].
           cbn [flat_stack]. unfold flat. cbn [flat_acc app]. destruct (blank_newline i). now constructor.
      * (* hardline *)
        destruct (IH bc i (newline i :: out) ltac:(lia)) as (s' & E & R).
        exists (newline i ++ s'). rewrite E, concat_rev_cons, sapp_assoc. split; [reflexivity|].
        cbn [flat_stack]. unfold flat. cbn [flat_acc app]. destruct (blank_newline i). now constructor.
      * (* comment: "//", newline, indentation *)
        destruct (IH bc i (spaces i :: comment_text :: out) ltac:(lia)) as (s' & E & R).
        exists (atom_text AComment ++ spaces i ++ s'). rewrite E, !concat_rev_cons, !sapp_assoc. split; [reflexivity|].
        cbn [flat_stack]. unfold flat. cbn [flat_acc app]. constructor. constructor; [apply blank_spaces | assumption].
      * (* append *)
        destruct (IH ((i, f, d1) :: (i, f, d2) :: bc) pos out ltac:(cbn [stack_size]; lia)) as (s' & E & R).
        exists s'. split; [exact E|]. cbn [flat_stack] in *. now rewrite flat_append, <- app_assoc.
      * (* nest *)
        destruct (IH ((nest_ind i i0, f, d) :: bc) pos out ltac:(cbn [stack_size]; lia)) as (s' & E & R).
        exists s'. split; [exact E|]. exact R.
      * (* group *)
        match goal with |- context [best fuel ff ((i, ?fl, d) :: bc)] =>
          destruct (IH ((i, fl, d) :: bc) pos out ltac:(cbn [stack_size]; lia)) as (s' & E & R) end.
        exists s'. split; [exact E|]. exact R.
      * (* align *)
        destruct (IH ((pos, f, d) :: bc) pos out ltac:(cbn [stack_size]; lia)) as (s' & E & R).
        exists s'. split; [exact E|]. exact R.
Qed.

(* The layout the model of `pretty` computes is a rendering in the sense of FmtLex.renders. *)
Theorem render_renders width d : renders d (render width d).
Proof.
  unfold render, renders.
  destruct (best_renders (2 * dsize d + 8) width (2 * dsize d + 8) [(0%N, false, d)] 0%N [])
    as (s' & E & R); [cbn [stack_size]; lia|].
  cbn [concat_rev append] in E. rewrite E. cbn [flat_stack] in R. now rewrite app_nil_r in R.
Qed.
