(* C15, the checker on the fragment WITHOUT type parameters and type arguments ("mono" programs):
   invariants of the symbol table during checking, and the relation between the model's
   [check_term_gen] and the declarative [chk].  In this fragment instance names coincide with
   template names (print_targs [] = ""), so no reasoning about printed names is needed. *)
From Coq Require Import List ZArith String Bool Permutation Lia.
From SCC Require Import Base.Sexp Lang.SynUtil Lang.FunSyn Model.Check Sem.FunTyping
  Proof.FunInd Proof.FunEq Proof.CheckAnn Proof.TypingReject Proof.CheckBuild.
Import ListNotations.
Open Scope list_scope.

(* ---------- the fragment ---------- *)
Definition mono_ty (t : fty) : bool := match t with FI64 => true | FDecl _ [] => true | _ => false end.
Definition mono_ctx (c : fctx) : bool := forallb (fun b => mono_ty (fbty b)) c.
Definition no_targs (l : list fty) : bool := match l with [] => true | _ => false end.
Definition mono_ann (a : option fty) : bool := match a with None => true | Some t => mono_ty t end.

Fixpoint mono_term (t : fterm) : bool :=
  let ml := fix go (l : list fterm) : bool := match l with [] => true | a :: r => mono_term a && go r end in
  let mc := fix go (l : list fclause) : bool :=
    match l with [] => true | FClause _ _ _ _ b :: r => mono_term b && go r end in
  match t with
  | FVar _ a _ => mono_ann a
  | FLit _ => true
  | FOp a _ b => mono_term a && mono_term b
  | FIfC _ a b th el _ => mono_term a && match b with Some b' => mono_term b' | None => true end && mono_term th && mono_term el
  | FPrint _ a n _ => mono_term a && mono_term n
  | FLet _ vty a b _ => mono_ty vty && mono_term a && mono_term b
  | FCall _ args _ | FCtor _ args _ => ml args
  | FDtor s _ targs args _ => no_targs targs && mono_term s && ml args
  | FCase s targs cls _ => no_targs targs && mono_term s && mc cls
  | FNew cls _ => mc cls
  | FLabel _ t _ | FGoto _ t _ | FExit t _ | FParen t => mono_term t
  end.
Definition mono_terms (l : list fterm) : bool := forallb mono_term l.
Definition mono_clauses (l : list fclause) : bool := forallb (fun c => mono_term (clause_body c)) l.
Lemma mono_terms_eq : forall l,
  (fix go (l : list fterm) : bool := match l with [] => true | a :: r => mono_term a && go r end) l = mono_terms l.
Proof. induction l; simpl; [reflexivity|]. rewrite IHl. reflexivity. Qed.
Lemma mono_clauses_eq : forall l,
  (fix go (l : list fclause) : bool :=
     match l with [] => true | FClause _ _ _ _ b :: r => mono_term b && go r end) l = mono_clauses l.
Proof. induction l as [|[? ? ? ? ?] r IH]; simpl; [reflexivity|]. rewrite IH. reflexivity. Qed.

Definition mono_decl (d : fdecl) : bool :=
  match d with
  | FDData d => match fdaparams d with [] => true | _ => false end && forallb (fun c => mono_ctx (fctargs c)) (fdactors d)
  | FDCodata d => match fcoparams d with [] => true | _ => false end
                  && forallb (fun c => mono_ctx (fdtargs c) && mono_ty (fdtcont c)) (fcodtors d)
  | FDDef d => mono_ctx (fdctx d) && mono_ty (fdret d) && mono_term (fdbody d)
  end.
(* programs without type parameters and type arguments *)
Definition mono_prog (p : fprog) : bool := forallb mono_decl (fpdecls p).

(* ---------- strings and substitutions in the fragment ---------- *)
Lemma append_nil_r : forall s : string, (s ++ "")%string = s.
Proof. induction s; simpl; [reflexivity|]. rewrite IHs. reflexivity. Qed.
Lemma print_targs_nil : print_targs [] = ""%string.
Proof. reflexivity. Qed.
Lemma str_remove_nil : forall s, str_remove s "" = s.
Proof. reflexivity. Qed.
Lemma subst_ty_nil : forall t, subst_ty [] t = t.
Proof.
  fix IH 1. intros [|n args]; simpl; [reflexivity|]. f_equal.
  induction args as [|a r IHr]; simpl; [reflexivity|]. rewrite IH, IHr. reflexivity.
Qed.
Lemma subst_ctx_nil : forall c, subst_ctx [] c = c.
Proof.
  induction c as [|[v ch t] r IH]; simpl; [reflexivity|].
  unfold subst_binding. simpl. rewrite subst_ty_nil, IH. reflexivity.
Qed.
Lemma mono_ty_decl : forall n args, mono_ty (FDecl n args) = true -> args = [].
Proof. intros n [|a r] H; [reflexivity|discriminate]. Qed.

(* ---------- frame conditions ---------- *)
Definition same_templates (st st' : symtab) : Prop :=
  st_type_templates st' = st_type_templates st /\ st_ctor_templates st' = st_ctor_templates st
  /\ st_dtor_templates st' = st_dtor_templates st /\ st_defs st' = st_defs st.
Definition grows (st st' : symtab) : Prop :=
  forall n, ahas (st_types st) n = true -> ahas (st_types st') n = true.
Lemma same_templates_refl : forall st, same_templates st st.
Proof. intros; repeat split. Qed.
Lemma same_templates_trans : forall a b c, same_templates a b -> same_templates b c -> same_templates a c.
Proof. intros a b c [? [? [? ?]]] [? [? [? ?]]]. repeat split; congruence. Qed.
Lemma grows_refl : forall st, grows st st.
Proof. intros st n H; exact H. Qed.
Lemma grows_trans : forall a b c, grows a b -> grows b c -> grows a c.
Proof. intros a b c H1 H2 n H. auto. Qed.
Lemma tables_same : forall ts fs st st', tables ts fs st -> same_templates st st' -> tables ts fs st'.
Proof.
  intros ts fs st st' [A B C D L] [E1 [E2 [E3 E4]]]. constructor; intros; rewrite ?E1, ?E2, ?E3, ?E4; auto.
Qed.

(* ---------- the instance loops, in the fragment (suffix "", empty substitution) ---------- *)
Lemma insert_ctor_instances_mono : forall xs st,
  (forall x, In x xs -> exists sg, aget (st_ctor_templates st) x = Some sg) ->
  exists st', insert_ctor_instances [] "" xs st = COk st'
    /\ same_templates st st' /\ st_types st' = st_types st /\ st_dtors st' = st_dtors st
    /\ forall k, aget (st_ctors st') k = if mem k xs then aget (st_ctor_templates st) k else aget (st_ctors st) k.
Proof.
  induction xs as [|x r IH]; intros st H; simpl.
  - exists st. repeat split; reflexivity.
  - destruct (H x (or_introl eq_refl)) as [sg Hsg]. rewrite Hsg.
    destruct (IH (set_ctors st (ainsert (st_ctors st) (x ++ "")%string (subst_ctx [] sg)))) as [st' [Hr [Hs [Ht [Hd Hk]]]]].
    { intros y Hy. simpl. apply H. right. assumption. }
    exists st'. split; [exact Hr|]. simpl in *.
    split; [destruct Hs as [? [? [? ?]]]; repeat split; assumption|].
    split; [assumption|]. split; [assumption|].
    intros k. rewrite Hk. unfold mem. simpl.
    destruct (existsb (String.eqb k) r) eqn:Er.
    + rewrite orb_true_r. reflexivity.
    + rewrite orb_false_r. rewrite aget_ainsert, append_nil_r, subst_ctx_nil.
      rewrite (String.eqb_sym k x). destruct (String.eqb x k) eqn:E; [|reflexivity].
      apply String.eqb_eq in E. subst. symmetry. assumption.
Qed.
Lemma insert_dtor_instances_mono : forall xs st,
  (forall x, In x xs -> exists sg, aget (st_dtor_templates st) x = Some sg) ->
  exists st', insert_dtor_instances [] "" xs st = COk st'
    /\ same_templates st st' /\ st_types st' = st_types st /\ st_ctors st' = st_ctors st
    /\ forall k, aget (st_dtors st') k = if mem k xs then aget (st_dtor_templates st) k else aget (st_dtors st) k.
Proof.
  induction xs as [|x r IH]; intros st H; simpl.
  - exists st. repeat split; reflexivity.
  - destruct (H x (or_introl eq_refl)) as [[sg ret] Hsg]. rewrite Hsg.
    destruct (IH (set_dtors st (ainsert (st_dtors st) (x ++ "")%string (subst_ctx [] sg, subst_ty [] ret)))) as [st' [Hr [Hs [Ht [Hd Hk]]]]].
    { intros y Hy. simpl. apply H. right. assumption. }
    exists st'. split; [exact Hr|]. simpl in *.
    split; [destruct Hs as [? [? [? ?]]]; repeat split; assumption|].
    split; [assumption|]. split; [assumption|].
    intros k. rewrite Hk. unfold mem. simpl.
    destruct (existsb (String.eqb k) r) eqn:Er.
    + rewrite orb_true_r. reflexivity.
    + rewrite orb_false_r. rewrite aget_ainsert, append_nil_r, subst_ctx_nil, subst_ty_nil.
      rewrite (String.eqb_sym k x). destruct (String.eqb x k) eqn:E; [|reflexivity].
      apply String.eqb_eq in E. subst. symmetry. assumption.
Qed.
(* the loops only fail with Undefined, when a template entry is missing *)
Lemma insert_ctor_instances_err : forall m sfx xs st e, insert_ctor_instances m sfx xs st = CErr e -> e = EUndefined.
Proof.
  induction xs as [|x r IH]; intros st e H; simpl in H; [discriminate|].
  destruct (aget (st_ctor_templates st) x); [eapply IH; eassumption|inversion H; reflexivity].
Qed.

Lemma insert_dtor_instances_err : forall m sfx xs st e, insert_dtor_instances m sfx xs st = CErr e -> e = EUndefined.
Proof.
  induction xs as [|x r IH]; intros st e H; simpl in H; [discriminate|].
  destruct (aget (st_dtor_templates st) x) as [[? ?]|]; [eapply IH; eassumption|inversion H; reflexivity].
Qed.

Lemma find_exists : forall {X} (f : X -> bool) l x, In x l -> f x = true -> exists y, find f l = Some y.
Proof.
  intros X f l x Hin Hf. destruct (find f l) eqn:E; [eauto|].
  eapply find_none in E; [|eassumption]. congruence.
Qed.
Lemma find_xsig_in_name : forall td x, In x (map xs_name (td_xtors td)) -> exists s, find_xsig td x = Some s.
Proof.
  intros td x H. apply in_map_iff in H. destruct H as [s [Hn Hin]].
  unfold find_xsig. eapply find_exists; [eassumption|]. rewrite Hn. apply String.eqb_refl.
Qed.
Lemma find_xsig_spec : forall td x s, find_xsig td x = Some s -> In s (td_xtors td) /\ xs_name s = x.
Proof. intros td x s H. unfold find_xsig in H. apply find_some in H. destruct H as [? E]. apply String.eqb_eq in E. auto. Qed.
Lemma fpol_eqb_refl : forall p, fpol_eqb p p = true.
Proof. destruct p; reflexivity. Qed.
Lemma fpol_eqb_eq : forall p q, fpol_eqb p q = true -> p = q.
Proof. destruct p, q; simpl; congruence. Qed.
Lemma find_xtor_exists : forall ts td x, In td ts -> In x (map xs_name (td_xtors td)) ->
  exists td' s, find_xtor ts (td_pol td) x = Some (td', s).
Proof.
  intros ts td x Hin Hx. destruct (find_xsig_in_name _ _ Hx) as [s Hs].
  unfold find_xtor.
  destruct (find_exists (fun t => fpol_eqb (td_pol t) (td_pol td) && is_some (find_xsig t x)) ts td Hin) as [td' Hf].
  { rewrite fpol_eqb_refl, Hs. reflexivity. }
  rewrite Hf. apply find_some in Hf. destruct Hf as [_ Hb]. apply andb_true_iff in Hb. destruct Hb as [_ Hb].
  destruct (find_xsig td' x) as [s'|]; [eauto|discriminate].
Qed.

Ltac splits := repeat match goal with |- _ /\ _ => split end.

Section Mono.
  Variable ts : list tdecl.
  Variable fs : list fdef.
  Hypothesis Hret : forall td s, In td ts -> td_pol td = FCodata -> In s (td_xtors td) -> xs_ret s <> None.

  (* the xtors of a template have template signatures *)
  Lemma template_xtors_present : forall st n pol ps xs,
    tables ts fs st -> aget (st_type_templates st) n = Some (pol, ps, xs) ->
    forall x, In x xs ->
      match pol with
      | FData => exists sg, aget (st_ctor_templates st) x = Some sg
      | FCodata => exists sg, aget (st_dtor_templates st) x = Some sg
      end.
  Proof.
    intros st n pol ps xs T H x Hx. rewrite (t_tt _ _ _ T) in H.
    destruct (find_type ts n) as [td|] eqn:Ef; [|discriminate]. simpl in H. unfold tt_val in H. inversion H; subst.
    pose proof (find_type_in _ _ _ Ef) as Hin.
    destruct (find_xtor_exists ts td x Hin Hx) as [td' [s Hs]].
    destruct (td_pol td) eqn:Ep.
    - rewrite (t_ct _ _ _ T), Hs. simpl. eauto.
    - rewrite (t_dt _ _ _ T), Hs. unfold dt_val. simpl.
      apply find_xtor_in in Hs. destruct Hs as [Hin' [Hp' Hs']]. apply find_xsig_spec in Hs'. destruct Hs' as [Hs' _].
      destruct (xs_ret s) eqn:Er; [eauto|]. exfalso. eapply Hret; eauto.
  Qed.

  (* ---------- the invariant of the instance tables ---------- *)
  Record minv (st : symtab) : Prop := {
    mi_types : forall n pol targs xs, aget (st_types st) n = Some (pol, targs, xs) ->
                 targs = [] /\ aget (st_type_templates st) n = Some (pol, [], xs);
    mi_ctors_of : forall n xs x, aget (st_types st) n = Some (FData, [], xs) -> In x xs ->
                 exists sg, aget (st_ctors st) x = Some sg /\ aget (st_ctor_templates st) x = Some sg;
    mi_dtors_of : forall n xs x, aget (st_types st) n = Some (FCodata, [], xs) -> In x xs ->
                 exists sg, aget (st_dtors st) x = Some sg /\ aget (st_dtor_templates st) x = Some sg;
    mi_ctors : forall x sg, aget (st_ctors st) x = Some sg ->
                 aget (st_ctor_templates st) x = Some sg
                 /\ exists n xs, aget (st_types st) n = Some (FData, [], xs) /\ In x xs;
    mi_dtors : forall x sg, aget (st_dtors st) x = Some sg ->
                 aget (st_dtor_templates st) x = Some sg
                 /\ exists n xs, aget (st_types st) n = Some (FCodata, [], xs) /\ In x xs;
    mi_nodup : NoDup (map fst (st_types st))
  }.

  Lemma minv_start : forall st, st_types st = [] -> st_ctors st = [] -> st_dtors st = [] -> minv st.
  Proof.
    intros st Ht Hc Hd. constructor; intros; rewrite ?Ht, ?Hc, ?Hd in *; simpl in *; try discriminate. constructor.
  Qed.

  Definition has_inst (st : symtab) (t : fty) : Prop :=
    match t with FI64 => True | FDecl n _ => ahas (st_types st) n = true end.

  (* creating the instance of a template without parameters *)
  Lemma create_instance_mono : forall st n pol xs,
    tables ts fs st -> minv st ->
    aget (st_types st) n = None -> aget (st_type_templates st) n = Some (pol, [], xs) ->
    exists st', create_instance_tail n [] pol [] xs st = COk st'
      /\ minv st' /\ same_templates st st' /\ grows st st' /\ ahas (st_types st') n = true.
  Proof.
    intros st n pol xs T I Hn Ht.
    pose proof (template_xtors_present st n pol [] xs T Ht) as Hx.
    unfold create_instance_tail. change (mk_mappings [] []) with (@nil (fname * fty)). rewrite print_targs_nil.
    destruct pol.
    - destruct (insert_ctor_instances_mono xs st Hx) as [st1 [Hr [Hs [Hty [Hd Hk]]]]].
      rewrite Hr. simpl. eexists. split; [reflexivity|].
      destruct Hs as [E1 [E2 [E3 E4]]].
      split; [|split; [repeat split; simpl; assumption|split]].
      + constructor; simpl; intros.
        * rewrite Hty, aget_ainsert in H. rewrite E1.
          destruct (String.eqb n n0) eqn:E.
          -- apply String.eqb_eq in E. subst. inversion H; subst. auto.
          -- eapply (mi_types _ I); eassumption.
        * rewrite Hty, aget_ainsert in H. rewrite Hk, E2.
          destruct (String.eqb n n0) eqn:E.
          -- inversion H; subst. assert (Hm : mem x xs0 = true) by (apply mem_In; assumption). rewrite Hm.
             destruct (Hx x H0) as [sg Hsg]. eauto.
          -- destruct (mi_ctors_of _ I _ _ _ H H0) as [sg [Hc Hct]].
             destruct (mem x xs); eauto.
        * rewrite Hty, aget_ainsert in H. rewrite Hd, E3.
          destruct (String.eqb n n0) eqn:E; [discriminate|].
          eapply (mi_dtors_of _ I); eassumption.
        * rewrite Hk in H. rewrite E2, Hty.
          destruct (mem x xs) eqn:Em.
          -- split; [assumption|]. exists n, xs. rewrite aget_ainsert, String.eqb_refl.
             split; [reflexivity|apply mem_In; assumption].
          -- destruct (mi_ctors _ I _ _ H) as [Hc [n0 [xs0 [Hn0 Hin0]]]]. split; [assumption|].
             exists n0, xs0. rewrite aget_ainsert. destruct (String.eqb n n0) eqn:E; [|auto].
             apply String.eqb_eq in E. subst. congruence.
        * rewrite Hd in H. rewrite E3, Hty.
          destruct (mi_dtors _ I _ _ H) as [Hc [n0 [xs0 [Hn0 Hin0]]]]. split; [assumption|].
          exists n0, xs0. rewrite aget_ainsert. destruct (String.eqb n n0) eqn:E; [|auto].
          apply String.eqb_eq in E. subst. congruence.
        * rewrite Hty, ainsert_fresh by assumption. rewrite map_app. simpl.
          apply NoDup_app_snoc; [apply (mi_nodup _ I)|]. apply aget_none_notin. assumption.
      + intros m Hm. simpl. unfold ahas in *. rewrite Hty, aget_ainsert.
        destruct (String.eqb n m); [reflexivity|assumption].
      + simpl. unfold ahas. rewrite aget_ainsert, String.eqb_refl. reflexivity.
    - destruct (insert_dtor_instances_mono xs st Hx) as [st1 [Hr [Hs [Hty [Hd Hk]]]]].
      rewrite Hr. simpl. eexists. split; [reflexivity|].
      destruct Hs as [E1 [E2 [E3 E4]]].
      split; [|split; [repeat split; simpl; assumption|split]].
      + constructor; simpl; intros.
        * rewrite Hty, aget_ainsert in H. rewrite E1.
          destruct (String.eqb n n0) eqn:E.
          -- apply String.eqb_eq in E. subst. inversion H; subst. auto.
          -- eapply (mi_types _ I); eassumption.
        * rewrite Hty, aget_ainsert in H. rewrite Hd, E2.
          destruct (String.eqb n n0) eqn:E; [discriminate|].
          eapply (mi_ctors_of _ I); eassumption.
        * rewrite Hty, aget_ainsert in H. rewrite Hk, E3.
          destruct (String.eqb n n0) eqn:E.
          -- inversion H; subst. assert (Hm : mem x xs0 = true) by (apply mem_In; assumption). rewrite Hm.
             destruct (Hx x H0) as [sg Hsg]. eauto.
          -- destruct (mi_dtors_of _ I _ _ _ H H0) as [sg [Hc Hct]].
             destruct (mem x xs); eauto.
        * rewrite Hd in H. rewrite E2, Hty.
          destruct (mi_ctors _ I _ _ H) as [Hc [n0 [xs0 [Hn0 Hin0]]]]. split; [assumption|].
          exists n0, xs0. rewrite aget_ainsert. destruct (String.eqb n n0) eqn:E; [|auto].
          apply String.eqb_eq in E. subst. congruence.
        * rewrite Hk in H. rewrite E3, Hty.
          destruct (mem x xs) eqn:Em.
          -- split; [assumption|]. exists n, xs. rewrite aget_ainsert, String.eqb_refl.
             split; [reflexivity|apply mem_In; assumption].
          -- destruct (mi_dtors _ I _ _ H) as [Hc [n0 [xs0 [Hn0 Hin0]]]]. split; [assumption|].
             exists n0, xs0. rewrite aget_ainsert. destruct (String.eqb n n0) eqn:E; [|auto].
             apply String.eqb_eq in E. subst. congruence.
        * rewrite Hty, ainsert_fresh by assumption. rewrite map_app. simpl.
          apply NoDup_app_snoc; [apply (mi_nodup _ I)|]. apply aget_none_notin. assumption.
      + intros m Hm. simpl. unfold ahas in *. rewrite Hty, aget_ainsert.
        destruct (String.eqb n m); [reflexivity|assumption].
      + simpl. unfold ahas. rewrite aget_ainsert, String.eqb_refl. reflexivity.
  Qed.

  (* ---------- Ty::check on a type of the fragment: succeeds exactly on well-formed types ---------- *)
  Lemma find_type_tt : forall st n pol ps xs, tables ts fs st ->
    aget (st_type_templates st) n = Some (pol, ps, xs) ->
    exists td, find_type ts n = Some td /\ td_pol td = pol /\ td_params td = ps /\ map xs_name (td_xtors td) = xs.
  Proof.
    intros st n pol ps xs T H. rewrite (t_tt _ _ _ T) in H.
    destruct (find_type ts n) as [td|]; [|discriminate]. simpl in H. unfold tt_val in H. inversion H; subst. eauto.
  Qed.
  Lemma find_type_tt_none : forall st n, tables ts fs st -> aget (st_type_templates st) n = None -> find_type ts n = None.
  Proof. intros st n T H. rewrite (t_tt _ _ _ T) in H. destruct (find_type ts n); [discriminate|reflexivity]. Qed.

  Lemma ty_check_mono : forall t st, mono_ty t = true -> tables ts fs st -> minv st ->
    (exists st', ty_check t st = COk st' /\ wf_ty ts t = true /\ minv st' /\ same_templates st st'
                 /\ grows st st' /\ has_inst st' t)
    \/ (exists e, ty_check t st = CErr e /\ wf_ty ts t = false).
  Proof.
    intros t st Hm T I. destruct t as [|n args].
    - left. exists st. simpl. splits; auto using grows_refl, same_templates_refl.
    - apply mono_ty_decl in Hm. subst args. simpl. rewrite !append_nil_r.
      destruct (aget (st_types st) n) as [[[pol targs] xs]|] eqn:En.
      + left. exists st. destruct (mi_types _ I _ _ _ _ En) as [-> Ht].
        destruct (find_type_tt _ _ _ _ _ T Ht) as [td [Hf [Hp [Hps Hxs]]]].
        rewrite Hf, Hps. simpl.
        splits; auto using grows_refl, same_templates_refl. unfold ahas. rewrite En. reflexivity.
      + destruct (aget (st_type_templates st) n) as [[[pol ps] xs]|] eqn:Et.
        * destruct (find_type_tt _ _ _ _ _ T Et) as [td [Hf [Hp [Hps Hxs]]]]. rewrite Hf, Hps.
          destruct ps as [|p0 pr].
          -- simpl. destruct (create_instance_mono st n pol xs T I En Et) as [st' [Hc [I' [S [G Hh]]]]].
             left. exists st'. splits; try assumption; reflexivity.
          -- right. simpl. eauto.
        * right. rewrite (find_type_tt_none _ _ T Et). eauto.
  Qed.

  (* errors of Ty::check on the fragment are Undefined or WrongNumberOfTypeArguments; on a
     well-formed type it cannot fail *)
  Lemma ty_check_mono_ok : forall t st, mono_ty t = true -> tables ts fs st -> minv st -> wf_ty ts t = true ->
    exists st', ty_check t st = COk st' /\ minv st' /\ same_templates st st' /\ grows st st' /\ has_inst st' t.
  Proof.
    intros t st Hm T I Hw. destruct (ty_check_mono t st Hm T I) as [[st' [H1 [H2 [H3 [H4 [H5 H6]]]]]]|[e [H1 H2]]].
    - eauto 10.
    - congruence.
  Qed.
  Lemma ty_check_mono_sound : forall t st st', mono_ty t = true -> tables ts fs st -> minv st ->
    ty_check t st = COk st' ->
    wf_ty ts t = true /\ minv st' /\ same_templates st st' /\ grows st st' /\ has_inst st' t.
  Proof.
    intros t st st' Hm T I H. destruct (ty_check_mono t st Hm T I) as [[st2 [H1 [H2 [H3 [H4 [H5 H6]]]]]]|[e [H1 H2]]].
    - rewrite H in H1. inversion H1; subst. auto.
    - congruence.
  Qed.

  (* check_equality *)
  Lemma check_equality_mono_sound : forall a b st st', mono_ty a = true -> mono_ty b = true ->
    tables ts fs st -> minv st -> check_equality st a b = COk st' ->
    a = b /\ wf_ty ts a = true /\ minv st' /\ same_templates st st' /\ grows st st' /\ has_inst st' a.
  Proof.
    intros a b st st' Ha Hb T I H. unfold check_equality in H. inv_ok.
    match goal with H1 : ty_check a st = COk ?s1, H2 : ty_check b ?s1 = COk _ |- _ =>
      destruct (ty_check_mono_sound _ _ _ Ha T I H1) as [Hw [I1 [S1 [G1 Hi1]]]];
      destruct (ty_check_mono_sound _ _ _ Hb (tables_same _ _ _ _ T S1) I1 H2) as [Hw2 [I2 [S2 [G2 Hi2]]]]
    end.
    assert (a = b) by (apply fty_eqb_eq; assumption). subst b.
    splits; eauto using same_templates_trans, grows_trans.
  Qed.
  Lemma check_equality_mono_ok : forall a st, mono_ty a = true -> tables ts fs st -> minv st -> wf_ty ts a = true ->
    exists st', check_equality st a a = COk st' /\ minv st' /\ same_templates st st' /\ grows st st' /\ has_inst st' a.
  Proof.
    intros a st Ha T I Hw. unfold check_equality.
    destruct (ty_check_mono_ok a st Ha T I Hw) as [s1 [H1 [I1 [S1 [G1 Hi1]]]]]. rewrite H1. simpl.
    destruct (ty_check_mono_ok a s1 Ha (tables_same _ _ _ _ T S1) I1 Hw) as [s2 [H2 [I2 [S2 [G2 Hi2]]]]]. rewrite H2. simpl.
    rewrite fty_eqb_refl. exists s2. splits; eauto using same_templates_trans, grows_trans.
  Qed.
End Mono.
