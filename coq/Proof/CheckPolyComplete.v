(* C15, completeness of the checker (check_term_gen true: the code since fix d524b1f) with respect to
   the declarative rules, for programs WITH type parameters and type arguments (term level). *)
From Coq Require Import List ZArith String Bool Permutation Lia.
From SCC Require Import Base.Sexp Lang.SynUtil Lang.FunSyn Model.Check Sem.FunTyping
  Proof.FunInd Proof.FunEq Proof.CheckAnn Proof.TypingReject Proof.CheckBuild Proof.CheckMono Proof.CheckMonoSound
  Proof.CheckMonoComplete Proof.PrintInj Proof.CheckPoly Proof.CheckPolySound.
Import ListNotations.
Open Scope list_scope.

(* the declarations and definition signatures are well-formed *)
Record pwf_world (ts : list tdecl) (fs : list fdef) : Prop := {
  PWF_sigs : forall td s, In td ts -> In s (td_xtors td) ->
               forallb (fun b => wf_tty ts (td_params td) (fbty b)) (xs_args s) = true
               /\ (forall r, xs_ret s = Some r -> wf_tty ts (td_params td) r = true);
  PWF_defs : forall d, In d fs -> ctx_wf ts (fdctx d) = true /\ wf_ty ts (fdret d) = true
}.

Section PComplete.
  Variable ts : list tdecl.
  Variable fs : list fdef.
  Hypothesis W : poly_world ts fs.
  Hypothesis WF : pwf_world ts fs.

  Notation pinv := (pinv ts).
  Notation targs_ok := (targs_ok ts).
  Ltac frame := eauto using same_templates_trans, grows_trans, same_templates_refl, grows_refl.

  Lemma ctx_wf_names_ok : forall c, ctx_wf ts c = true -> ctx_names_ok c = true.
  Proof.
    intros c H. unfold ctx_wf, ctx_names_ok in *. rewrite forallb_forall in *. intros b Hb.
    apply (wf_ty_names_ok ts fs W). auto.
  Qed.
  Lemma inst_ctx_wf : forall td s targs, In td ts -> In s (td_xtors td) -> forallb (wf_ty ts) targs = true ->
    ctx_wf ts (inst_ctx (td_params td) targs (xs_args s)) = true.
  Proof.
    intros td s targs Htd Hs Hw. destruct (PWF_sigs _ _ WF td s Htd Hs) as [Hsg _].
    unfold ctx_wf, inst_ctx. rewrite forallb_forall. rewrite forallb_forall in Hsg. intros b Hb.
    apply in_map_iff in Hb. destruct Hb as [b0 [<- Hb0]]. simpl. apply wf_tty_inst; auto.
  Qed.
  Lemma inst_ret_wf : forall td s r targs, In td ts -> In s (td_xtors td) -> xs_ret s = Some r ->
    forallb (wf_ty ts) targs = true -> wf_ty ts (inst (td_params td) targs r) = true.
  Proof.
    intros td s r targs Htd Hs Hr Hw. destruct (PWF_sigs _ _ WF td s Htd Hs) as [_ Hret].
    apply wf_tty_inst; auto.
  Qed.
  Lemma wf_decl : forall td targs, In td ts -> targs_ok td targs -> wf_ty ts (FDecl (td_name td) targs) = true.
  Proof.
    intros td targs Htd [Hl Hw]. simpl. rewrite (pw_find_type ts fs W td Htd), Hl, PeanoNat.Nat.eqb_refl. exact Hw.
  Qed.

  Definition pcomplete_at (t : fterm) : Prop :=
    forall st ctx T,
      term_names_ok t = true -> tables ts fs st -> pinv st ->
      ctx_wf ts ctx = true -> wf_ty ts T = true ->
      chk ts fs (E ctx) t T = true ->
      exists t' st', check_term_gen true t st ctx T = COk (t', st').

  (* success together with the frame conditions (from soundness) *)
  Lemma pcomplete_frame : forall t st ctx T,
    pcomplete_at t -> term_names_ok t = true -> tables ts fs st -> pinv st ->
    ctx_wf ts ctx = true -> wf_ty ts T = true -> chk ts fs (E ctx) t T = true ->
    exists t' st', check_term_gen true t st ctx T = COk (t', st')
                   /\ pinv st' /\ same_templates st st' /\ grows st st'.
  Proof.
    intros t st ctx T Hc Hm Tb I Hw HwT Hk.
    destruct (Hc st ctx T Hm Tb I Hw HwT Hk) as [t' [st' Hr]].
    destruct (check_term_gen_psound ts fs W t true st ctx T t' st' Hm (ctx_wf_names_ok _ Hw)
                (wf_ty_names_ok ts fs W _ HwT) Tb I Hr) as [_ [I' [S [G _]]]].
    eauto 10.
  Qed.

  Lemma ann_check_pok : forall (a : option fty) T st, ann_ok a T = true -> wf_ty ts T = true ->
    tables ts fs st -> pinv st ->
    exists st', match a with Some t => check_equality st t T | None => COk st end = COk st'
                /\ pinv st' /\ same_templates st st' /\ grows st st'.
  Proof.
    intros a T st Ha Hw Tb I. destruct a as [t|].
    - simpl in Ha. apply fty_eqb_eq in Ha. subst t.
      destruct (check_equality_ok ts fs W T st Hw Tb I) as [st' [H [I' [S [G _]]]]]. eauto 10.
    - exists st. splits; frame.
  Qed.

  (* ---------- arguments ---------- *)
  Lemma check_args_with_pcomplete : forall args, Forall pcomplete_at args ->
    forall ps targs sg st ctx,
      terms_names_ok args = true -> tables ts fs st -> pinv st ->
      ctx_wf ts ctx = true -> ctx_wf ts (inst_ctx ps targs sg) = true ->
      chk_args_with (chk ts fs) (E ctx) ps targs args sg = true ->
      exists args' st', check_args_with (check_term_gen true) args (inst_ctx ps targs sg) st ctx = COk (args', st')
                        /\ pinv st' /\ same_templates st st' /\ grows st st'.
  Proof.
    intros args HF. induction HF as [|a ar Ha _ IH]; intros ps targs sg st ctx Hm Tb I Hw Hwt Hk.
    - destruct sg; [|discriminate]. simpl. exists [], st. splits; frame.
    - destruct sg as [|b br]; [discriminate|]. simpl in Hm, Hwt.
      apply andb_true_iff in Hm. destruct Hm as [Hma Hmr].
      apply andb_true_iff in Hwt. destruct Hwt as [Hwb Hwr].
      simpl in Hk. apply andb_true_iff in Hk. destruct Hk as [Hka Hkr].
      simpl. destruct (fbchi b) eqn:Ech.
      + destruct (ty_check_ok ts fs W _ st Hwb Tb I) as [st1 [H1 [I1 [S1 [G1 _]]]]]. rewrite H1. simpl.
        destruct (pcomplete_frame a st1 ctx _ Ha Hma (tables_same _ _ _ _ Tb S1) I1 Hw Hwb Hka) as [a' [st2 [H2 [I2 [S2 G2]]]]].
        rewrite H2. simpl.
        assert (S02 : same_templates st st2) by frame.
        destruct (IH ps targs br st2 ctx Hmr (tables_same _ _ _ _ Tb S02) I2 Hw Hwr Hkr) as [ar' [st3 [H3 [I3 [S3 G3]]]]].
        rewrite H3. simpl. exists (a' :: ar'), st3. splits; frame.
      + destruct a as [v ann chi| | | | | | | | | | | | | |]; try discriminate.
        apply andb_true_iff in Hka. destruct Hka as [Hka Hchi]. apply andb_true_iff in Hka. destruct Hka as [Hcns Hann].
        set (Tb0 := inst ps targs (fbty b)) in *.
        assert (Hl : lookup_covar ctx v = COk Tb0).
        { unfold is_cns in Hcns. destruct (E_cns ctx v Tb0) as [Hl _]; [|exact Hl].
          unfold cns_ty. destruct (E ctx v) as [[[|] T']|]; try discriminate. apply fty_eqb_eq in Hcns. subst. reflexivity. }
        assert (Hgo : exists ar' st', (doc found <- lookup_covar ctx v;
                                       doc st1 <- match ann with Some t => check_equality st t found | None => COk st end;
                                       doc st2 <- check_equality st1 Tb0 found;
                                       doc (ar', st3) <- check_args_with (check_term_gen true) ar (inst_ctx ps targs br) st2 ctx;
                                       COk (FVar v (Some found) (Some FCns) :: ar', st3)) = COk (FVar v (Some Tb0) (Some FCns) :: ar', st')
                                      /\ pinv st' /\ same_templates st st' /\ grows st st').
        { rewrite Hl. simpl.
          destruct (ann_check_pok ann Tb0 st Hann Hwb Tb I) as [st1 [H1 [I1 [S1 G1]]]]. rewrite H1. simpl.
          destruct (check_equality_ok ts fs W Tb0 st1 Hwb (tables_same _ _ _ _ Tb S1) I1) as [st2 [H2 [I2 [S2 [G2 _]]]]].
          rewrite H2. simpl. assert (S02 : same_templates st st2) by frame.
          destruct (IH ps targs br st2 ctx Hmr (tables_same _ _ _ _ Tb S02) I2 Hw Hwr Hkr) as [ar' [st3 [H3 [I3 [S3 G3]]]]].
          rewrite H3. simpl. exists ar', st3. splits; frame. }
        destruct Hgo as [ar' [st' [Hgo Hfr]]].
        destruct chi as [[|]|]; try discriminate; eauto.
  Qed.

  Lemma check_args_pcomplete : forall args, Forall pcomplete_at args ->
    forall ps targs sg st ctx,
      terms_names_ok args = true -> tables ts fs st -> pinv st ->
      ctx_wf ts ctx = true -> ctx_wf ts (inst_ctx ps targs sg) = true ->
      chk_args_with (chk ts fs) (E ctx) ps targs args sg = true ->
      exists args' st', check_args (check_term_gen true) args (inst_ctx ps targs sg) st ctx = COk (args', st')
                        /\ pinv st' /\ same_templates st st' /\ grows st st'.
  Proof.
    intros args HF ps targs sg st ctx Hm Tb I Hw Hwt Hk. unfold check_args.
    rewrite inst_ctx_length, (chk_args_length ts fs _ _ _ _ _ Hk), PeanoNat.Nat.eqb_refl. simpl.
    eapply check_args_with_pcomplete; eassumption.
  Qed.

  (* ---------- what an existing instance provides ---------- *)
  Definition inst_key (td : tdecl) (targs : list fty) : string := (td_name td ++ print_targs targs)%string.

  Lemma instance_entry_p : forall st td targs, pinv st -> In td ts -> targs_ok td targs ->
    ahas (st_types st) (inst_key td targs) = true ->
    aget (st_types st) (inst_key td targs) = Some (td_pol td, targs, map xs_name (td_xtors td)).
  Proof.
    intros st td targs I Htd Hok Ha. apply ahas_true in Ha. destruct Ha as [[[pol targs'] xs] Hg].
    destruct (pi_types _ _ I _ _ _ _ Hg) as [td' [Htd' [Ek [Hp [-> Hok']]]]]. rewrite Hg.
    destruct (instance_key_inj ts fs W td td' targs targs' Htd Htd' (targs_ok_names ts fs W _ _ Hok)
                (targs_ok_names ts fs W _ _ Hok') Ek) as [<- <-].
    subst pol. reflexivity.
  Qed.
  Lemma instance_ctor_p : forall st td targs s, pinv st -> In td ts -> targs_ok td targs -> td_pol td = FData ->
    ahas (st_types st) (inst_key td targs) = true -> In s (td_xtors td) ->
    aget (st_ctors st) (xs_name s ++ print_targs targs)%string = Some (inst_ctx (td_params td) targs (xs_args s)).
  Proof.
    intros st td targs s I Htd Hok Hp Ha Hs. pose proof (instance_entry_p st td targs I Htd Hok Ha) as Hg. rewrite Hp in Hg.
    pose proof (pi_xtors_of _ _ I _ _ _ _ (xs_name s) Hg (in_map _ _ _ Hs)) as Hh. simpl in Hh.
    apply ahas_true in Hh. destruct Hh as [sg Hc]. rewrite Hc. f_equal.
    destruct (ctor_instance_sound ts fs W _ _ _ _ I (PW_xnames _ _ W td s Htd Hs) (targs_ok_names ts fs W _ _ Hok) Hc)
      as [td' [s' [Htd' [Hp' [Hs' [Hn' [_ ->]]]]]]].
    destruct (xtor_owner_unique ts fs W td td' s s' Htd Htd' ltac:(congruence) Hs Hs' ltac:(congruence)) as [<- <-].
    reflexivity.
  Qed.
  Lemma instance_dtor_p : forall st td targs s, pinv st -> In td ts -> targs_ok td targs -> td_pol td = FCodata ->
    ahas (st_types st) (inst_key td targs) = true -> In s (td_xtors td) ->
    exists r, xs_ret s = Some r
      /\ aget (st_dtors st) (xs_name s ++ print_targs targs)%string
         = Some (inst_ctx (td_params td) targs (xs_args s), inst (td_params td) targs r).
  Proof.
    intros st td targs s I Htd Hok Hp Ha Hs. pose proof (instance_entry_p st td targs I Htd Hok Ha) as Hg. rewrite Hp in Hg.
    pose proof (pi_xtors_of _ _ I _ _ _ _ (xs_name s) Hg (in_map _ _ _ Hs)) as Hh. simpl in Hh.
    apply ahas_true in Hh. destruct Hh as [[sg ret] Hc]. rewrite Hc.
    destruct (dtor_instance_sound ts fs W _ _ _ _ _ I (PW_xnames _ _ W td s Htd Hs) (targs_ok_names ts fs W _ _ Hok) Hc)
      as [td' [s' [r0 [Htd' [Hp' [Hs' [Hn' [_ [Hr [-> ->]]]]]]]]]].
    destruct (xtor_owner_unique ts fs W td td' s s' Htd Htd' ltac:(congruence) Hs Hs' ltac:(congruence)) as [<- <-].
    eauto.
  Qed.
  (* an existing instance is found by the scan *)
  Lemma lookup_ty_for_xtor_found_p : forall st pol x key targs xs,
    aget (st_types st) key = Some (pol, targs, xs) -> In x xs ->
    exists ty xs', lookup_ty_for_xtor pol st (x ++ print_targs targs)%string = Some (ty, xs').
  Proof.
    intros st pol x key targs xs Hg Hx. unfold lookup_ty_for_xtor.
    apply aget_In in Hg. revert Hg. generalize (st_types st). intros l.
    induction l as [|[name [[p targs'] xtors]] r IH]; intros Hin; [destruct Hin|].
    simpl. destruct (fpol_eqb p pol && xtor_matches (print_targs targs') (x ++ print_targs targs)%string xtors) eqn:Ec; [eauto|].
    destruct Hin as [Heq|Hin]; [|auto].
    inversion Heq; subst. rewrite fpol_eqb_refl in Ec. simpl in Ec.
    assert (xtor_matches (print_targs targs) (x ++ print_targs targs)%string xs = true).
    { unfold xtor_matches. apply existsb_exists. exists x. split; [assumption|]. apply String.eqb_refl. }
    congruence.
  Qed.

  (* ---------- clauses ---------- *)
  Definition pc_pcomplete (pc : pclause) : Prop :=
    forall st ctx T,
      tables ts fs st -> pinv st ->
      ctx_wf ts ctx = true -> wf_ty ts T = true -> chk ts fs (E ctx) (pc_body pc) T = true ->
      exists t' st', pc_chk pc st ctx T = COk (t', st').

  Lemma check_clauses_pcomplete : forall (is_case : bool) T td targs xtors pcls st ctx,
    Forall (pc_psound ts fs) pcls -> Forall pc_pcomplete pcls ->
    ctx_wf ts ctx = true -> tables ts fs st -> pinv st ->
    In td ts -> targs_ok td targs -> td_pol td = (if is_case then FData else FCodata) ->
    (is_case = true -> wf_ty ts T = true) ->
    ahas (st_types st) (inst_key td targs) = true ->
    NoDup xtors -> (forall x, In x xtors -> In x (map xs_name (td_xtors td))) ->
    (forall x, In x xtors -> exists pc, In pc pcls /\ pc_xtor pc = x) ->
    Forall (fun pc => clause_ok ts fs (E ctx) td targs (if is_case then Some T else None) (clause_of pc) = true) pcls ->
    exists cls' leftover st', check_clauses is_case (print_targs targs) T xtors pcls st ctx = COk (cls', leftover, st')
      /\ pinv st' /\ same_templates st st' /\ grows st st'.
  Proof.
    intros is_case T td targs xtors. induction xtors as [|x xr IH];
      intros pcls st ctx HS HC Hwc Tb I Htd Hok Hpol HT Hinst Hnd Hxs Hex Hcok.
    - simpl. exists [], pcls, st. splits; frame.
    - simpl. destruct (Hex x (or_introl eq_refl)) as [pc0 [Hpc0 Hx0]].
      destruct (swap_remove_first_some (fun c => String.eqb (pc_xtor c) x) pcls pc0 Hpc0) as [cl [pcls' Es]];
        [rewrite Hx0; apply String.eqb_refl|].
      rewrite Es. pose proof (swap_remove_first_spec _ _ _ _ Es) as [Hx Hperm]. apply String.eqb_eq in Hx.
      assert (Hall : forall (P : pclause -> Prop), Forall P pcls -> P cl /\ Forall P pcls').
      { intros P HP. assert (HP' : Forall P (cl :: pcls')) by (eapply Permutation_Forall; [apply Permutation_sym; eassumption|assumption]).
        inversion HP'; auto. }
      destruct (Hall _ HS) as [HScl HSr]. destruct (Hall _ HC) as [HCcl HCr]. destruct (Hall _ Hcok) as [Hokcl Hokr].
      (* the clause is fine by the rules *)
      unfold clause_of, clause_ok in Hokcl. rewrite Hx in Hokcl.
      destruct (find_xsig td x) as [s|] eqn:Hs; [|discriminate].
      apply andb_true_iff in Hokcl. destruct Hokcl as [Hokcl Hbody]. apply andb_true_iff in Hokcl. destruct Hokcl as [Hnod Hlen].
      destruct (find_xsig_spec _ _ _ Hs) as [Hsin Hsn].
      destruct Hok as [Hlt Hwt].
      pose proof (inst_ctx_wf td s targs Htd Hsin Hwt) as Hws.
      rewrite extend_sig_inst in Hbody.
      set (sg := inst_ctx (td_params td) targs (xs_args s)) in *.
      (* the signature in the table, and the type of the body *)
      assert (Hsig : exists bty,
                (if is_case
                 then match aget (st_ctors st) (x ++ print_targs targs)%string with Some sg => COk (sg, T) | None => CErr EUndefined end
                 else match aget (st_dtors st) (x ++ print_targs targs)%string with Some (sg, ret) => COk (sg, ret) | None => CErr EUndefined end)
                = COk (sg, bty)
                /\ wf_ty ts bty = true
                /\ chk ts fs (E (ctx ++ zip_names (pc_names cl) sg)) (pc_body cl) bty = true).
      { unfold E. rewrite env_of_ctx_app. fold (E ctx). rewrite <- Hsn. destruct is_case.
        - rewrite (instance_ctor_p st td targs s I Htd (conj Hlt Hwt) Hpol Hinst Hsin). exists T. auto.
        - destruct (instance_dtor_p st td targs s I Htd (conj Hlt Hwt) Hpol Hinst Hsin) as [r [Hr Hd]]. rewrite Hd.
          exists (inst (td_params td) targs r). rewrite Hr in Hbody.
          split; [reflexivity|]. split; [eapply inst_ret_wf; eassumption|assumption]. }
      destruct Hsig as [bty [Hsig [Hwb Hkb]]]. rewrite Hsig. simpl.
      rewrite (nodup_names_no_dups _ Hnod). simpl.
      unfold add_types. unfold sg at 1. rewrite inst_ctx_length, Hlen. simpl.
      assert (Hwc' : ctx_wf ts (ctx ++ zip_names (pc_names cl) sg) = true)
        by (apply ctx_wf_app; [assumption|apply ctx_wf_zip; assumption]).
      destruct (HCcl st _ bty Tb I Hwc' Hwb Hkb) as [body' [st1 Hb]].
      destruct (HScl st _ bty body' st1 (ctx_wf_names_ok _ Hwc') (wf_ty_names_ok ts fs W _ Hwb) Tb I Hb) as [_ [I1 [S1 [G1 _]]]].
      rewrite Hb. simpl.
      inversion Hnd as [|? ? Hnotin Hnd']; subst.
      destruct (IH pcls' st1 ctx HSr HCr Hwc (tables_same _ _ _ _ Tb S1) I1 Htd (conj Hlt Hwt) Hpol HT (G1 _ Hinst) Hnd')
        as [rest [leftover [st2 [Hr [I2 [S2 G2]]]]]]; try assumption.
      + intros y Hy. apply Hxs. right. assumption.
      + intros y Hy. destruct (Hex y (or_intror Hy)) as [pc [Hpc Hpx]].
        exists pc. split; [|assumption].
        apply (Permutation_in _ (Permutation_sym Hperm)) in Hpc. destruct Hpc as [<-|Hpc]; [|assumption].
        exfalso. apply Hnotin. rewrite <- Hx, Hpx. assumption.
      + rewrite Hr. simpl. eexists _, leftover, st2. splits; frame.
  Qed.

  Lemma prep_clauses_pcomplete : forall cls,
    Forall (fun c => pcomplete_at (clause_body c)) cls -> clauses_names_ok cls = true ->
    Forall pc_pcomplete (prep_clauses (check_term_gen true) cls).
  Proof.
    intros cls HF. induction HF as [|[p x ns c b] r Hc _ IH]; intros Hm; simpl; constructor.
    - simpl in Hm. apply andb_true_iff in Hm. destruct Hm as [Hb _].
      unfold clause_names_ok in Hb. apply andb_true_iff in Hb. destruct Hb as [_ Hb].
      unfold pc_pcomplete. simpl. intros. eapply Hc; eassumption.
    - apply IH. simpl in Hm. apply andb_true_iff in Hm. tauto.
  Qed.

  Lemma clauses_pcomplete_result : forall (is_case : bool) T td targs cls st ctx,
    Forall (fun c => pcomplete_at (clause_body c)) cls ->
    clauses_names_ok cls = true -> ctx_wf ts ctx = true -> tables ts fs st -> pinv st ->
    In td ts -> targs_ok td targs -> td_pol td = (if is_case then FData else FCodata) ->
    (is_case = true -> wf_ty ts T = true) ->
    ahas (st_types st) (inst_key td targs) = true ->
    same_names (map clause_xtor cls) (map xs_name (td_xtors td)) = true ->
    chk_clauses_with (chk ts fs) (E ctx) td targs (if is_case then Some T else None) cls = true ->
    exists cls' st', check_clauses is_case (print_targs targs) T (map xs_name (td_xtors td)) (prep_clauses (check_term_gen true) cls) st ctx
                     = COk (cls', [], st')
                     /\ pinv st' /\ same_templates st st' /\ grows st st'.
  Proof.
    intros is_case T td targs cls st ctx HC Hm Hwc Tb I Htd Hok Hpol HT Hinst Hsn Hk.
    assert (HS : Forall (fun c => psound_at ts fs (clause_body c)) cls).
    { apply Forall_forall. intros c _. apply (check_term_gen_psound ts fs W). }
    pose proof (prep_clauses_psound ts fs true cls HS Hm) as HPS.
    assert (Hnd : nodup (map xs_name (td_xtors td)) = true).
    { eapply xtor_names_of_type_nodup; [apply (pw_nodup_xtors ts fs W)|eassumption|reflexivity]. }
    destruct (check_clauses_pcomplete is_case T td targs (map xs_name (td_xtors td)) (prep_clauses (check_term_gen true) cls) st ctx
                HPS (prep_clauses_pcomplete cls HC Hm) Hwc Tb I Htd Hok Hpol HT Hinst (nodup_NoDup _ Hnd) (fun x H => H))
      as [cls' [leftover [st' [Hr [I' [S G]]]]]].
    - intros x Hx. pose proof (same_names_covers _ _ Hsn x Hx) as Hin.
      apply in_map_iff in Hin. destruct Hin as [c [Hcx Hc]].
      rewrite <- (prep_clauses_map (check_term_gen true) cls) in Hc. apply in_map_iff in Hc. destruct Hc as [pc [<- Hpc]].
      exists pc. split; assumption.
    - apply Forall_forall. intros pc Hpc. rewrite chk_clauses_forallb, forallb_forall in Hk.
      apply Hk. eapply prep_clauses_in. eassumption.
    - exists cls', st'. splits; try assumption.
      assert (HT' : is_case = true -> ty_names_ok T = true) by (intros E0; apply (wf_ty_names_ok ts fs W); apply HT; assumption).
      destruct (check_clauses_psound ts fs W is_case T td targs _ _ st ctx cls' leftover st' HPS (ctx_wf_names_ok _ Hwc) Tb I Htd Hok
                  (fun x H => H) Hpol HT' Hr) as [used [Hp [Hmap _]]].
      assert (Hlen : List.length leftover = 0).
      { apply Permutation_length in Hp. rewrite app_length, prep_clauses_length in Hp.
        assert (List.length used = List.length (map xs_name (td_xtors td))) by (rewrite <- Hmap, map_length; reflexivity).
        unfold same_names in Hsn. apply andb_true_iff in Hsn. destruct Hsn as [Hsn _]. apply andb_true_iff in Hsn. destruct Hsn as [_ Hl].
        apply PeanoNat.Nat.eqb_eq in Hl. rewrite map_length in Hl. lia. }
      destruct leftover; [exact Hr|discriminate].
  Qed.

  (* ---------- the type of a scrutinee ---------- *)
  Lemma lookup_or_template_pcomplete : forall pol st x td sg targs,
    tables ts fs st -> pinv st -> find_xtor ts pol x = Some (td, sg) -> targs_ok td targs ->
    exists st1, lookup_ty_for_xtor_or_template pol st x targs = COk (FDecl (td_name td) targs, map xs_name (td_xtors td), st1)
                /\ pinv st1 /\ same_templates st st1 /\ grows st st1 /\ ahas (st_types st1) (inst_key td targs) = true.
  Proof.
    intros pol st x td sg targs Tb I Hf Hok. pose proof (find_xtor_in _ _ _ _ _ Hf) as [Hin [Hp Hs]].
    destruct (find_xsig_spec _ _ _ Hs) as [Hsin Hsn].
    pose proof (PW_xnames _ _ W td sg Hin Hsin) as Nx. rewrite Hsn in Nx.
    pose proof (targs_ok_names ts fs W _ _ Hok) as Nt.
    unfold lookup_ty_for_xtor_or_template.
    destruct (lookup_ty_for_xtor pol st (x ++ print_targs targs)%string) as [[ty xs]|] eqn:El.
    - destruct (lookup_ty_for_xtor_sound ts fs W _ _ _ _ _ _ I Nx Nt El) as [td' [Htd' [Hp' [-> [-> [Hx' Hok']]]]]].
      assert (td' = td).
      { eapply (owner_of_names ts fs W); [exact Htd'|exact Hin|congruence|exact Hx'|]. rewrite <- Hsn. apply in_map. assumption. }
      subst td'. exists st. splits; frame.
      (* the instance that was found is in the table *)
      clear - El W I Nx Nt Hin Hok. unfold lookup_ty_for_xtor in El.
      assert (Hall : forall k v, In (k, v) (st_types st) -> In (k, v) (st_types st)) by auto.
      revert Hall El. generalize (st_types st) at 1 3. intros l.
      induction l as [|[name [[p targs'] xtors]] r IH]; intros Hall El; simpl in El; [discriminate|].
      destruct (fpol_eqb p pol && xtor_matches (print_targs targs') (x ++ print_targs targs)%string xtors) eqn:Ec.
      + inversion El; subst. clear El.
        pose proof (Hall _ _ (or_introl eq_refl)) as Hi. apply In_aget in Hi; [|apply (pi_nodup _ _ I)].
        destruct (pi_types _ _ I _ _ _ _ Hi) as [td2 [Htd2 [-> [Hp2 [Hxs2 Hok2]]]]].
        rewrite str_remove_instance_name in H0 by (apply name_ok_no_delim; apply (PW_tnames _ _ W); assumption).
        assert (td2 = td).
        { pose proof (pw_find_type ts fs W td Hin) as F1. pose proof (pw_find_type ts fs W td2 Htd2) as F2.
          rewrite <- H0 in F1. rewrite F1 in F2. inversion F2. reflexivity. }
        subst td2. unfold ahas, inst_key. rewrite Hi. reflexivity.
      + apply IH; [|assumption]. intros. apply Hall. right. assumption.
    - unfold lookup_ty_template_for_xtor. rewrite (t_tt_list _ _ _ Tb), find_template_find_xtor, Hf. simpl.
      destruct (ty_check_ok ts fs W (FDecl (td_name td) targs) st (wf_decl td targs Hin Hok) Tb I) as [st1 [H1 [I1 [S1 [G1 Hi]]]]].
      exists st1. split; [|splits; assumption].
      transitivity (doc st1' <- ty_check (FDecl (td_name td) targs) st; COk (FDecl (td_name td) targs, map xs_name (td_xtors td), st1')); [reflexivity|].
      rewrite H1. reflexivity.
  Qed.

  Local Opaque ty_check.

  Theorem check_term_pcomplete : forall t, pcomplete_at t.
  Proof.
    intros t. induction t using fterm_ind'; unfold pcomplete_at;
      intros st ctx T Hm Tb I Hw HwT Hk; simpl in Hk; simpl in Hm.
    - (* FVar *)
      apply andb_true_iff in Hk. destruct Hk as [Hk Hchi]. apply andb_true_iff in Hk. destruct Hk as [Hprd Hann].
      pose proof (E_prd _ _ _ Hprd) as Hl.
      destruct (ann_check_pok ty T st Hann HwT Tb I) as [st1 [H1 [I1 [S1 G1]]]].
      destruct (check_equality_ok ts fs W T st1 HwT (tables_same _ _ _ _ Tb S1) I1) as [st2 [H2 _]].
      assert (Hgo : (doc found <- lookup_var ctx v;
                     doc st1 <- match ty with Some t => check_equality st t found | None => COk st end;
                     doc st2 <- check_equality st1 T found; COk (FVar v (Some T) (Some FPrd), st2))
                    = COk (FVar v (Some T) (Some FPrd), st2)).
      { rewrite Hl. simpl. rewrite H1. simpl. rewrite H2. reflexivity. }
      simpl. destruct chi as [[|]|]; try discriminate; eauto.
    - (* FLit *)
      apply fty_eqb_eq in Hk. subst T. simpl.
      destruct (check_equality_ok ts fs W FI64 st eq_refl Tb I) as [st1 [H1 _]].
      rewrite H1. simpl. eauto.
    - (* FOp *)
      apply andb_true_iff in Hm. destruct Hm as [Hm1 Hm2].
      apply andb_true_iff in Hk. destruct Hk as [Hk K2]. apply andb_true_iff in Hk. destruct Hk as [K0 K1].
      apply fty_eqb_eq in K0. subst T. simpl.
      destruct (check_equality_ok ts fs W FI64 st eq_refl Tb I) as [st1 [H1 [I1 [S1 [G1 _]]]]].
      rewrite H1. simpl.
      destruct (pcomplete_frame _ st1 ctx FI64 IHt1 Hm1 (tables_same _ _ _ _ Tb S1) I1 Hw eq_refl K1) as [a' [st2 [H2 [I2 [S2 G2]]]]].
      rewrite H2. simpl. assert (S02 : same_templates st st2) by frame.
      destruct (IHt2 st2 ctx FI64 Hm2 (tables_same _ _ _ _ Tb S02) I2 Hw eq_refl K2) as [b' [st3 H3]].
      rewrite H3. simpl. eauto.
    - (* FIfC *)
      apply andb_true_iff in Hm. destruct Hm as [Hm Hm4]. apply andb_true_iff in Hm. destruct Hm as [Hm Hm3].
      apply andb_true_iff in Hm. destruct Hm as [Hm1 Hm2].
      apply andb_true_iff in Hk. destruct Hk as [Hk K4]. apply andb_true_iff in Hk. destruct Hk as [Hk K3].
      apply andb_true_iff in Hk. destruct Hk as [K1 K2].
      simpl.
      destruct (pcomplete_frame _ st ctx FI64 IHt1 Hm1 Tb I Hw eq_refl K1) as [a' [st1 [H1 [I1 [S1 G1]]]]].
      rewrite H1. simpl.
      assert (Hb : exists b' st2, match b with
                                  | None => COk (None, st1)
                                  | Some b0 => doc (b1, s0) <- check_term_gen true b0 st1 ctx FI64; COk (Some b1, s0)
                                  end = COk (b', st2) /\ pinv st2 /\ same_templates st1 st2 /\ grows st1 st2).
      { destruct b as [b0|].
        - destruct (pcomplete_frame b0 st1 ctx FI64 (H _ eq_refl) Hm2 (tables_same _ _ _ _ Tb S1) I1 Hw eq_refl K2) as [b1 [st2 [H2 [I2 [S2 G2]]]]].
          rewrite H2. simpl. eauto 10.
        - exists None, st1. splits; frame. }
      destruct Hb as [b' [st2 [H2 [I2 [S2 G2]]]]]. rewrite H2. simpl.
      assert (S02 : same_templates st st2) by frame.
      destruct (pcomplete_frame _ st2 ctx T IHt2 Hm3 (tables_same _ _ _ _ Tb S02) I2 Hw HwT K3) as [th' [st3 [H3 [I3 [S3 G3]]]]].
      rewrite H3. simpl. assert (S03 : same_templates st st3) by frame.
      destruct (IHt3 st3 ctx T Hm4 (tables_same _ _ _ _ Tb S03) I3 Hw HwT K4) as [el' [st4 H4]].
      rewrite H4. simpl. eauto.
    - (* FPrint *)
      apply andb_true_iff in Hm. destruct Hm as [Hm1 Hm2].
      apply andb_true_iff in Hk. destruct Hk as [K1 K2]. simpl.
      destruct (pcomplete_frame _ st ctx FI64 IHt1 Hm1 Tb I Hw eq_refl K1) as [a' [st1 [H1 [I1 [S1 G1]]]]].
      rewrite H1. simpl.
      destruct (IHt2 st1 ctx T Hm2 (tables_same _ _ _ _ Tb S1) I1 Hw HwT K2) as [n' [st2 H2]].
      rewrite H2. simpl. eauto.
    - (* FLet *)
      apply andb_true_iff in Hm. destruct Hm as [Hm Hm3]. apply andb_true_iff in Hm. destruct Hm as [Hm1 Hm2].
      apply andb_true_iff in Hk. destruct Hk as [Hk K2]. apply andb_true_iff in Hk. destruct Hk as [Kw K1]. simpl.
      destruct (ty_check_ok ts fs W vty st Kw Tb I) as [st1 [H1 [I1 [S1 [G1 _]]]]]. rewrite H1. simpl.
      destruct (pcomplete_frame _ st1 ctx vty IHt1 Hm2 (tables_same _ _ _ _ Tb S1) I1 Hw Kw K1) as [a' [st2 [H2 [I2 [S2 G2]]]]].
      rewrite H2. simpl. assert (S02 : same_templates st st2) by frame.
      assert (Hw' : ctx_wf ts (ctx ++ [mkfb v FPrd vty]) = true).
      { apply ctx_wf_app; [assumption|]. unfold ctx_wf. simpl. rewrite Kw. reflexivity. }
      rewrite <- E_snoc in K2.
      destruct (IHt2 st2 _ T Hm3 (tables_same _ _ _ _ Tb S02) I2 Hw' HwT K2) as [b' [st3 H3]].
      rewrite H3. simpl. eauto.
    - (* FCall *)
      rewrite terms_names_ok_eq in Hm.
      destruct (find_def fs f) as [d|] eqn:Ef; [|discriminate].
      apply andb_true_iff in Hk. destruct Hk as [Kr Ka]. apply fty_eqb_eq in Kr. subst T.
      assert (Hdin : In d fs) by (unfold find_def in Ef; apply find_some in Ef; tauto).
      destruct (PWF_defs _ _ WF d Hdin) as [Hwd Hwr].
      simpl. rewrite (t_df _ _ _ Tb), Ef. simpl.
      destruct (check_equality_ok ts fs W (fdret d) st Hwr Tb I) as [st1 [H1 [I1 [S1 [G1 _]]]]].
      rewrite H1. simpl.
      assert (Hwd' : ctx_wf ts (inst_ctx [] [] (fdctx d)) = true) by (rewrite inst_ctx_nil; exact Hwd).
      destruct (check_args_pcomplete args H [] [] (fdctx d) st1 ctx Hm (tables_same _ _ _ _ Tb S1) I1 Hw Hwd' Ka) as [args' [st2 [H2 _]]].
      rewrite inst_ctx_nil in H2. rewrite H2. simpl. eauto.
    - (* FCtor *)
      apply andb_true_iff in Hm. destruct Hm as [Nx Hm]. rewrite terms_names_ok_eq in Hm.
      destruct T as [|n targs]; [discriminate|].
      destruct (find_type ts n) as [td|] eqn:Eft; [|discriminate].
      apply andb_true_iff in Hk. destruct Hk as [Hk Ka]. apply andb_true_iff in Hk. destruct Hk as [Kp Kl].
      apply fpol_eqb_eq in Kp. apply PeanoNat.Nat.eqb_eq in Kl.
      destruct (find_xsig td x) as [s|] eqn:Es; [|discriminate].
      pose proof (find_type_in _ _ _ Eft) as Hin. pose proof (find_type_name _ _ _ Eft) as Hn. subst n.
      destruct (find_xsig_spec _ _ _ Es) as [Hsin Hsn].
      pose proof (wf_decl_inv ts fs W td targs Hin HwT) as Hok. destruct Hok as [_ Hwt].
      simpl.
      destruct (ty_check_ok ts fs W (FDecl (td_name td) targs) st HwT Tb I) as [st0 [H0 [I0 [S0 [G0 Hi0]]]]].
      simpl in Hi0. pose proof (tables_same _ _ _ _ Tb S0) as Tb0.
      rewrite H0. simpl.
      rewrite <- Hsn.
      rewrite (instance_ctor_p st0 td targs s I0 Hin (conj Kl Hwt) Kp Hi0 Hsin).
      pose proof (instance_entry_p st0 td targs I0 Hin (conj Kl Hwt) Hi0) as Hent. rewrite Kp in Hent.
      destruct (lookup_ty_for_xtor_found_p st0 FData (xs_name s) _ _ _ Hent (in_map _ _ _ Hsin)) as [ty [xs' El]]. rewrite El.
      rewrite <- Hsn in Nx.
      destruct (lookup_ty_for_xtor_sound ts fs W _ _ _ _ _ _ I0 Nx (wf_tys_names_ok ts fs W _ Hwt) El)
        as [td' [Htd' [Hp' [-> [-> [Hx' _]]]]]].
      assert (td' = td).
      { eapply (owner_of_names ts fs W); [exact Htd'|exact Hin|congruence|exact Hx'|]. apply in_map. assumption. }
      subst td'.
      destruct (check_args_pcomplete args H _ _ _ st0 ctx Hm Tb0 I0 Hw (inst_ctx_wf td s targs Hin Hsin Hwt) Ka) as [args' [st1 [H1 [I1 [S1 G1]]]]].
      rewrite H1. simpl. assert (S01 : same_templates st st1) by frame.
      destruct (check_equality_ok ts fs W (FDecl (td_name td) targs) st1 HwT (tables_same _ _ _ _ Tb S01) I1) as [st2 [H2 _]].
      rewrite H2. simpl. eauto.
    - (* FDtor *)
      apply andb_true_iff in Hm. destruct Hm as [Hm Hm3]. apply andb_true_iff in Hm. destruct Hm as [Hm Hm2].
      apply andb_true_iff in Hm. destruct Hm as [Nx Nt].
      rewrite terms_names_ok_eq in Hm3.
      destruct (find_xtor ts FCodata x) as [[td sg]|] eqn:Ef; [|discriminate].
      apply andb_true_iff in Hk. destruct Hk as [Hk Kr]. apply andb_true_iff in Hk. destruct Hk as [Hk Ka].
      apply andb_true_iff in Hk. destruct Hk as [Hk Ks]. apply andb_true_iff in Hk. destruct Hk as [Kl Kw].
      apply PeanoNat.Nat.eqb_eq in Kl.
      pose proof (find_xtor_in _ _ _ _ _ Ef) as [Hin [Hp Hs]].
      destruct (find_xsig_spec _ _ _ Hs) as [Hsin Hsn].
      destruct (xs_ret sg) as [R|] eqn:ER; [|discriminate]. apply fty_eqb_eq in Kr. subst T.
      simpl.
      destruct (lookup_or_template_pcomplete FCodata st x td sg targs Tb I Ef (conj Kl Kw)) as [st1 [H1 [I1 [S1 [G1 Hi1]]]]].
      rewrite H1. simpl.
      pose proof (wf_decl td targs Hin (conj Kl Kw)) as Hwtd.
      destruct (pcomplete_frame _ st1 ctx _ IHt Hm2 (tables_same _ _ _ _ Tb S1) I1 Hw Hwtd Ks) as [s' [st2 [H2 [I2 [S2 G2]]]]].
      rewrite H2. simpl. assert (S02 : same_templates st st2) by frame. pose proof (tables_same _ _ _ _ Tb S02) as Tb2.
      destruct (instance_dtor_p st2 td targs sg I2 Hin (conj Kl Kw) Hp (G2 _ Hi1) Hsin) as [rr [Hr Hd]].
      rewrite ER in Hr. inversion Hr; subst rr. rewrite Hsn in Hd. rewrite Hd.
      destruct (check_args_pcomplete args H _ _ _ st2 ctx Hm3 Tb2 I2 Hw (inst_ctx_wf td sg targs Hin Hsin Kw) Ka) as [args' [st3 [H3 [I3 [S3 G3]]]]].
      rewrite H3. simpl. assert (S03 : same_templates st st3) by frame.
      destruct (check_equality_ok ts fs W _ st3 HwT (tables_same _ _ _ _ Tb S03) I3) as [st4 [H4 _]].
      rewrite H4. simpl. eauto.
    - (* FCase *)
      apply andb_true_iff in Hm. destruct Hm as [Hm Hm3]. apply andb_true_iff in Hm. destruct Hm as [Nt Hm2].
      rewrite clauses_names_ok_eq in Hm3.
      destruct cls as [|c0 clr]; [discriminate|].
      destruct (find_xtor ts FData (clause_xtor c0)) as [[td sg]|] eqn:Ef; [|discriminate].
      apply andb_true_iff in Hk. destruct Hk as [Hk Kc]. apply andb_true_iff in Hk. destruct Hk as [Hk Ksn].
      apply andb_true_iff in Hk. destruct Hk as [Hk Ks]. apply andb_true_iff in Hk. destruct Hk as [Kl Kw].
      apply PeanoNat.Nat.eqb_eq in Kl.
      pose proof (find_xtor_in _ _ _ _ _ Ef) as [Hin [Hp Hs]].
      pose proof (wf_decl td targs Hin (conj Kl Kw)) as Hwtd.
      destruct c0 as [p0 x0 ns0 cx0 b0]. simpl clause_xtor in Ef.
      simpl.
      destruct (lookup_or_template_pcomplete FData st x0 td sg targs Tb I Ef (conj Kl Kw)) as [st1 [H1 [I1 [S1 [G1 Hi1]]]]].
      rewrite H1. simpl.
      destruct (pcomplete_frame _ st1 ctx _ IHt Hm2 (tables_same _ _ _ _ Tb S1) I1 Hw Hwtd Ks) as [s' [st2 [H2 [I2 [S2 G2]]]]].
      rewrite H2. simpl. assert (S02 : same_templates st st2) by frame.
      destruct (clauses_pcomplete_result true T td targs (FClause p0 x0 ns0 cx0 b0 :: clr) st2 ctx H Hm3 Hw
                  (tables_same _ _ _ _ Tb S02) I2 Hin (conj Kl Kw) Hp (fun _ => HwT) (G2 _ Hi1) Ksn Kc)
        as [cls' [st3 [H3 _]]].
      change (prep_clauses (check_term_gen true) (FClause p0 x0 ns0 cx0 b0 :: clr)) with
        (mkpc p0 x0 ns0 cx0 b0 (check_term_gen true b0) :: prep_clauses (check_term_gen true) clr) in H3.
      rewrite H3. simpl. eauto.
    - (* FNew *)
      rewrite clauses_names_ok_eq in Hm.
      destruct T as [|n targs]; [discriminate|].
      destruct (find_type ts n) as [td|] eqn:Eft; [|discriminate].
      apply andb_true_iff in Hk. destruct Hk as [Hk Kc]. apply andb_true_iff in Hk. destruct Hk as [Hk Ksn].
      apply andb_true_iff in Hk. destruct Hk as [Kp Kl]. apply fpol_eqb_eq in Kp. apply PeanoNat.Nat.eqb_eq in Kl.
      pose proof (find_type_in _ _ _ Eft) as Hin. pose proof (find_type_name _ _ _ Eft) as Hn. subst n.
      pose proof (wf_decl_inv ts fs W td targs Hin HwT) as Hok. destruct Hok as [_ Hwt].
      simpl.
      destruct (ty_check_ok ts fs W (FDecl (td_name td) targs) st HwT Tb I) as [st0 [H0 [I0 [S0 [G0 Hi0]]]]].
      simpl in Hi0. pose proof (tables_same _ _ _ _ Tb S0) as Tb0.
      rewrite H0. simpl.
      pose proof (instance_entry_p st0 td targs I0 Hin (conj Kl Hwt) Hi0) as Hent. rewrite Kp in Hent.
      unfold inst_key in Hent. rewrite Hent.
      destruct (clauses_pcomplete_result false (FDecl (td_name td) targs) td targs cls st0 ctx H Hm Hw
                  Tb0 I0 Hin (conj Kl Hwt) Kp (fun E0 => ltac:(discriminate)) Hi0 Ksn Kc)
        as [cls' [st3 [H3 _]]].
      rewrite H3. simpl. eauto.
    - (* FLabel *)
      simpl.
      assert (Hw' : ctx_wf ts (ctx ++ [mkfb l FCns T]) = true).
      { apply ctx_wf_app; [assumption|]. unfold ctx_wf. simpl. rewrite HwT. reflexivity. }
      rewrite <- E_snoc in Hk.
      destruct (IHt st _ T Hm Tb I Hw' HwT Hk) as [b' [st1 H1]]. rewrite H1. simpl. eauto.
    - (* FGoto *)
      destruct (cns_ty (E ctx) l) as [S0|] eqn:Ec; [|discriminate].
      destruct (E_cns _ _ _ Ec) as [Hl [b0 [Hb0 Hbt]]].
      simpl. rewrite Hl. simpl.
      assert (HwS : wf_ty ts S0 = true) by (subst S0; apply (ctx_wf_in ts ctx); assumption).
      destruct (IHt st ctx S0 Hm Tb I Hw HwS Hk) as [b' [st1 H1]]. rewrite H1. simpl. eauto.
    - (* FExit *)
      simpl. destruct (IHt st ctx FI64 Hm Tb I Hw eq_refl Hk) as [b' [st1 H1]]. rewrite H1. simpl. eauto.
    - (* FParen *)
      simpl. destruct (IHt st ctx T Hm Tb I Hw HwT Hk) as [b' [st1 H1]]. rewrite H1. simpl. eauto.
  Qed.
End PComplete.
