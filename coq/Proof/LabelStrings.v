(* C14 / C17: the texts of generated labels.
   The generic code generator prints four kinds of labels:
     definition      <name>_                       (coder.rs)
     memory/branch   lab<k>                        (memory.rs of each back end, statements/ifc.rs)
     table           <Type>_<k>                    (switch.rs, create.rs; <Type> = sanitised type name)
     clause          <Type>_<k>_<Xtor>             (utils.rs code_table, switch.rs, create.rs)
   [gl] is the abstract label, [pr] its text.  [pr] is NOT injective (pr_not_injective): type and
   xtor names may contain `_<digits>` themselves.  It is injective when no sanitised type name
   contains an underscore followed by a digit ([pr_inj_types]), or when no xtor name does and none
   starts with a digit ([pr_inj_xtors]); definition labels are kept apart from table / clause labels
   by the first character (lower-case letter or not), which is the lexical discipline of the source
   language.  Under either guard the texts can be decoded ([decode_pr]), which gives the renaming
   function of C17 ([rho]). *)
From Coq Require Import List NArith String Ascii Bool Lia DecimalString DecimalN DecimalPos.
From SCC Require Import Base.Sexp Sem.LabelGuard.
Import ListNotations.
Local Open Scope string_scope.

(* ---------- strings ---------- *)
Lemma sapp_assoc (a b c : string) : (a ++ b) ++ c = a ++ (b ++ c).
Proof. induction a; cbn; [reflexivity|]. now rewrite IHa. Qed.
Lemma sapp_nil_r (a : string) : a ++ "" = a.
Proof. induction a; cbn; [reflexivity|]. now rewrite IHa. Qed.
Lemma sapp_inj_l (a b c : string) : a ++ b = a ++ c -> b = c.
Proof. induction a; cbn; intros H; [exact H|]. inversion H. auto. Qed.
Lemma sapp_inj_r (a b c : string) : a ++ c = b ++ c -> a = b.
Proof.
  assert (L : forall x y : string, String.length (x ++ y) = (String.length x + String.length y)%nat).
  { induction x; cbn; intros; [reflexivity|]. now rewrite IHx. }
  revert b; induction a as [|ch a IH]; intros [|ch' b] H; cbn in H.
  - reflexivity.
  - exfalso. apply (f_equal String.length) in H. cbn in H. rewrite L in H. lia.
  - exfalso. apply (f_equal String.length) in H. cbn in H. rewrite L in H. lia.
  - inversion H. f_equal. auto.
Qed.

(* ---------- character classes ---------- *)
Lemma dig_not_us c : is_dig c = true -> is_us c = false.
Proof. destruct c as [[] [] [] [] [] [] [] []]; cbv; intros; try discriminate; reflexivity. Qed.
Lemma is_us_eq c : is_us c = true -> c = "_"%char.
Proof. apply Ascii.eqb_eq. Qed.

Fixpoint all_dig (s : string) : bool := match s with "" => true | String c r => is_dig c && all_dig r end.
Definition hd_us (s : string) : bool := match s with String c _ => is_us c | "" => false end.
Fixpoint has_us (s : string) : bool := match s with "" => false | String c r => is_us c || has_us r end.
Fixpoint ends_us (s : string) : bool :=
  match s with "" => false | String c "" => is_us c | String _ r => ends_us r end.

Lemma all_dig_no_us s : all_dig s = true -> has_us s = false.
Proof.
  induction s as [|c r IH]; cbn; [reflexivity|]. intros H. apply andb_true_iff in H as [H1 H2].
  rewrite (dig_not_us _ H1), IH by exact H2. reflexivity.
Qed.
Lemma has_us_app a b : has_us (a ++ b) = has_us a || has_us b.
Proof. induction a; cbn; [reflexivity|]. rewrite IHa. now rewrite orb_assoc. Qed.
Lemma no_us_no_usd s : has_us s = false -> has_usd s = false.
Proof.
  induction s as [|c r IH]; cbn; [reflexivity|]. intros H. apply orb_false_iff in H as [H1 H2].
  rewrite H1, IH by exact H2. reflexivity.
Qed.
Lemma hd_dig_app a b : a <> "" -> hd_dig (a ++ b) = hd_dig a.
Proof. destruct a; [congruence|reflexivity]. Qed.
Lemma lower_first_app a b : lower_first a = true -> lower_first (a ++ b) = true.
Proof. destruct a; cbn; [discriminate|auto]. Qed.
Lemma lower_first_app_false a b : a <> "" -> lower_first (a ++ b) = lower_first a.
Proof. destruct a; [congruence|reflexivity]. Qed.
Lemma ends_us_app_us a : ends_us (a ++ "_") = true.
Proof.
  induction a as [|c r IH]; [reflexivity|]. cbn [append ends_us].
  destruct (r ++ "_") eqn:E; [destruct r; discriminate|]. exact IH.
Qed.
Lemma ends_us_app a c r : ends_us (a ++ String c r) = ends_us (String c r).
Proof.
  induction a as [|d a IH]; [reflexivity|]. cbn [append]. change (ends_us (String d (a ++ String c r))) with
    (match a ++ String c r with "" => is_us d | _ => ends_us (a ++ String c r) end).
  destruct (a ++ String c r) eqn:E; [destruct a; discriminate|]. exact IH.
Qed.
Lemma all_dig_ends s : s <> "" -> all_dig s = true -> ends_us s = false.
Proof.
  induction s as [|c r IH]; [congruence|]. intros _ H. cbn in H. apply andb_true_iff in H as [H1 H2].
  destruct r as [|d r]; [cbn; apply dig_not_us; exact H1|]. change (ends_us (String d r) = false). apply IH; [discriminate|exact H2].
Qed.

(* ---------- decimal numbers ---------- *)
Notation dec := n_to_string.
Lemma digits_of_uint d : all_dig (NilEmpty.string_of_uint d) = true.
Proof. induction d; cbn; auto. Qed.
Lemma dec_digits k : all_dig (dec k) = true.
Proof.
  unfold n_to_string. destruct (N.to_uint k) eqn:E; cbn [NilZero.string_of_uint]; try reflexivity;
    apply (digits_of_uint (_ u)) || (rewrite <- E; apply digits_of_uint) || idtac.
  all: cbn; apply digits_of_uint.
Qed.
Lemma dec_nonempty k : dec k <> "".
Proof.
  unfold n_to_string. destruct (N.to_uint k); cbn; discriminate.
Qed.
Lemma dec_hd k : hd_dig (dec k) = true.
Proof.
  pose proof (dec_digits k) as H. pose proof (dec_nonempty k) as N.
  destruct (dec k); [congruence|]. cbn in *. apply andb_true_iff in H as [H _]. exact H.
Qed.
Lemma dec_no_us k : has_us (dec k) = false.
Proof. apply all_dig_no_us, dec_digits. Qed.
Lemma n_of_dec k : n_of_string (dec k) = Some k.
Proof.
  unfold n_of_string, n_to_string. rewrite NilZero.usu.
  - now rewrite DecimalN.Unsigned.of_to.
  - destruct k; cbn; [discriminate | apply DecimalPos.Unsigned.to_uint_nonnil].
Qed.
Lemma dec_inj a b : dec a = dec b -> a = b.
Proof. intros H. pose proof (n_of_dec a) as Ha. rewrite H, n_of_dec in Ha. congruence. Qed.

(* ---------- abstract labels and their texts ---------- *)
Inductive gl :=
| GDef (name : string)
| GLab (k : N)
| GTL (ty : string) (k : N)
| GCL (ty : string) (k : N) (xtor : string).
Definition pr (g : gl) : string :=
  match g with
  | GDef s => s ++ "_"
  | GLab k => "lab" ++ dec k
  | GTL T k => T ++ "_" ++ dec k
  | GCL T k X => T ++ "_" ++ dec k ++ "_" ++ X
  end.
Definition key (g : gl) : N := match g with GDef _ => 0%N | GLab k | GTL _ k | GCL _ k _ => k end.
Definition is_gen (g : gl) : bool := match g with GDef _ => false | _ => true end.
Definition with_key (f : N -> N) (g : gl) : gl :=
  match g with GDef s => GDef s | GLab k => GLab (f k) | GTL T k => GTL T (f k) | GCL T k X => GCL T (f k) X end.

(* the finding behind the guards: two different abstract labels with one text *)
Lemma pr_not_injective :
  pr (GCL "Aa" 18 "Bx_19_Cy") = pr (GCL "Aa_18_Bx" 19 "Cy") /\ pr (GCL "Aa" 18 "Bx_19") = pr (GTL "Aa_18_Bx" 19).
Proof. split; reflexivity. Qed.

(* ---------- classification by cheap observations ---------- *)
Lemma pr_def_ends s : ends_us (pr (GDef s)) = true.
Proof. apply ends_us_app_us. Qed.
Lemma pr_lab_no_us k : has_us (pr (GLab k)) = false.
Proof. cbn [pr]. rewrite has_us_app, dec_no_us. reflexivity. Qed.
Lemma pr_tl_has_us T k : has_us (pr (GTL T k)) = true.
Proof. cbn [pr]. rewrite has_us_app. cbn. now rewrite orb_true_r. Qed.
Lemma pr_cl_has_us T k X : has_us (pr (GCL T k X)) = true.
Proof. cbn [pr]. rewrite has_us_app. cbn. now rewrite orb_true_r. Qed.
Lemma pr_def_has_us s : has_us (pr (GDef s)) = true.
Proof. cbn [pr]. rewrite has_us_app. cbn. now rewrite orb_true_r. Qed.
Lemma pr_tl_ends T k : ends_us (pr (GTL T k)) = false.
Proof.
  cbn [pr]. pose proof (dec_nonempty k) as N. pose proof (dec_digits k) as D.
  destruct (dec k) as [|c r] eqn:E; [congruence|].
  change (T ++ "_" ++ String c r) with (T ++ String "_" (String c r)).
  replace (T ++ String "_" (String c r)) with ((T ++ "_") ++ String c r) by (rewrite sapp_assoc; reflexivity).
  rewrite ends_us_app. apply all_dig_ends; [discriminate|exact D].
Qed.
Lemma pr_lab_ends k : ends_us (pr (GLab k)) = false.
Proof.
  cbn [pr]. pose proof (dec_nonempty k) as N. pose proof (dec_digits k) as D.
  destruct (dec k) as [|c r] eqn:E; [congruence|]. rewrite ends_us_app. apply all_dig_ends; [discriminate|exact D].
Qed.
Lemma has_usd_app_r a b : has_usd b = true -> has_usd (a ++ b) = true.
Proof. induction a; cbn; intros H; [exact H|]. rewrite IHa by exact H. apply orb_true_r. Qed.
Lemma pr_tl_has_usd T k : has_usd (pr (GTL T k)) = true.
Proof. cbn [pr]. apply has_usd_app_r. cbn. rewrite dec_hd. reflexivity. Qed.
Lemma pr_cl_has_usd T k X : has_usd (pr (GCL T k X)) = true.
Proof.
  cbn [pr]. apply has_usd_app_r. cbn [append has_usd is_us]. rewrite hd_dig_app by apply dec_nonempty. rewrite dec_hd. reflexivity.
Qed.
Lemma pr_gen_lower T : lower_first T = false -> forall k X,
  lower_first (pr (GTL T k)) = false /\ lower_first (pr (GCL T k X)) = false.
Proof. intros H k X. cbn [pr]. destruct T as [|c r]; [split; reflexivity|]. cbn in *. rewrite H. split; reflexivity. Qed.

(* ---------- cutting a text at an underscore followed by a digit ---------- *)
Fixpoint cut_first (s : string) : option (string * string) :=
  match s with
  | "" => None
  | String c r =>
      if is_us c && hd_dig r then Some ("", r)
      else match cut_first r with Some (p, q) => Some (String c p, q) | None => None end
  end.
Fixpoint cut_last (s : string) : option (string * string) :=
  match s with
  | "" => None
  | String c r =>
      match cut_last r with
      | Some (p, q) => Some (String c p, q)
      | None => if is_us c && hd_dig r then Some ("", r) else None
      end
  end.
Lemma hd_dig_us r : hd_dig (String "_" r) = false.
Proof. reflexivity. Qed.
Lemma cut_first_app T R : has_usd T = false -> hd_dig R = true -> cut_first (T ++ String "_" R) = Some (T, R).
Proof.
  intros HS HR. induction T as [|c r IH]; cbn [append cut_first].
  - change (is_us "_") with true. rewrite HR. reflexivity.
  - cbn [has_usd] in HS. apply orb_false_iff in HS as [H1 H2].
    assert (E : is_us c && hd_dig (r ++ String "_" R) = false).
    { destruct r as [|d r]; [cbn [append]; rewrite hd_dig_us; apply andb_false_r|exact H1]. }
    rewrite E, IH by exact H2. reflexivity.
Qed.
Lemma cut_last_none s : has_usd s = false -> cut_last s = None.
Proof.
  induction s as [|c r IH]; [reflexivity|]. cbn [has_usd cut_last]. intros H. apply orb_false_iff in H as [H1 H2].
  rewrite IH, H1 by exact H2. reflexivity.
Qed.
Lemma cut_last_app T R : has_usd R = false -> hd_dig R = true -> cut_last (T ++ String "_" R) = Some (T, R).
Proof.
  intros HU HR. induction T as [|c r IH]; cbn [append cut_last].
  - rewrite cut_last_none by exact HU. change (is_us "_") with true. rewrite HR. reflexivity.
  - rewrite IH. reflexivity.
Qed.

(* the digits at the front of a text *)
Fixpoint span_dig (s : string) : string * string :=
  match s with
  | "" => ("", "")
  | String c r => if is_dig c then let (a, b) := span_dig r in (String c a, b) else ("", s)
  end.
Lemma span_dig_app D R : all_dig D = true -> hd_dig R = false -> span_dig (D ++ R) = (D, R).
Proof.
  intros HD HR. induction D as [|c r IH]; cbn [append].
  - destruct R as [|c r]; [reflexivity|]. cbn in *. rewrite HR. reflexivity.
  - cbn in HD. apply andb_true_iff in HD as [H1 H2]. cbn [span_dig]. rewrite H1, IH by exact H2. reflexivity.
Qed.

(* the part after the cut: <k> or <k>_<Xtor> *)
Definition decode_tail (T R : string) : option gl :=
  let (K, rest) := span_dig R in
  match n_of_string K with
  | Some k =>
      match rest with
      | "" => Some (GTL T k)
      | String c X => if is_us c then Some (GCL T k X) else None
      end
  | None => None
  end.
Definition decode_with (cut : string -> option (string * string)) (l : string) : option gl :=
  match cut l with Some (T, R) => decode_tail T R | None => None end.
Lemma decode_tail_tl T k : decode_tail T (dec k) = Some (GTL T k).
Proof.
  unfold decode_tail. rewrite <- (sapp_nil_r (dec k)), span_dig_app by (apply dec_digits || reflexivity).
  rewrite n_of_dec. reflexivity.
Qed.
Lemma decode_tail_cl T k X : decode_tail T (dec k ++ "_" ++ X) = Some (GCL T k X).
Proof.
  unfold decode_tail. rewrite span_dig_app by (apply dec_digits || reflexivity).
  rewrite n_of_dec. reflexivity.
Qed.

(* ---------- the two guards ---------- *)

Lemma usd_tail_gen D X : all_dig D = true -> has_usd X = false -> hd_dig X = false -> has_usd (D ++ String "_" X) = false.
Proof.
  intros D0 H1 H2. induction D as [|c r IH]; cbn [append has_usd].
  - change (is_us "_") with true. rewrite H2, H1. reflexivity.
  - cbn in D0. apply andb_true_iff in D0 as [D1 D2]. rewrite (dig_not_us _ D1), IH by exact D2. reflexivity.
Qed.
Lemma usd_tail k X : xtor_ok X = true -> has_usd (dec k ++ "_" ++ X) = false.
Proof.
  unfold xtor_ok. intros H. apply andb_true_iff in H as [H1 H2]. apply negb_true_iff in H1, H2.
  change (dec k ++ "_" ++ X) with (dec k ++ String "_" X). apply usd_tail_gen; [apply dec_digits|exact H1|exact H2].
Qed.

Lemma decode_first_tl T k : ty_ok T = true -> decode_with cut_first (pr (GTL T k)) = Some (GTL T k).
Proof.
  intros H. apply negb_true_iff in H. unfold decode_with. cbn [pr].
  change (T ++ "_" ++ dec k) with (T ++ String "_" (dec k)). rewrite cut_first_app by (exact H || apply dec_hd).
  apply decode_tail_tl.
Qed.
Lemma decode_first_cl T k X : ty_ok T = true -> decode_with cut_first (pr (GCL T k X)) = Some (GCL T k X).
Proof.
  intros H. apply negb_true_iff in H. unfold decode_with. cbn [pr].
  change (T ++ "_" ++ dec k ++ "_" ++ X) with (T ++ String "_" (dec k ++ "_" ++ X)).
  rewrite cut_first_app; [apply decode_tail_cl|exact H|]. rewrite hd_dig_app by apply dec_nonempty. apply dec_hd.
Qed.
Lemma decode_last_tl T k : decode_with cut_last (pr (GTL T k)) = Some (GTL T k).
Proof.
  unfold decode_with. cbn [pr]. change (T ++ "_" ++ dec k) with (T ++ String "_" (dec k)).
  rewrite cut_last_app; [apply decode_tail_tl| |apply dec_hd]. apply no_us_no_usd, dec_no_us.
Qed.
Lemma decode_last_cl T k X : xtor_ok X = true -> decode_with cut_last (pr (GCL T k X)) = Some (GCL T k X).
Proof.
  intros H. unfold decode_with. cbn [pr].
  change (T ++ "_" ++ dec k ++ "_" ++ X) with (T ++ String "_" (dec k ++ "_" ++ X)).
  rewrite cut_last_app; [apply decode_tail_cl|apply usd_tail; exact H|]. rewrite hd_dig_app by apply dec_nonempty. apply dec_hd.
Qed.

(* ---------- which abstract labels a program can generate ---------- *)
Section Universe.
Variable okS okX : string -> bool.       (* the sanitised type names / the xtor names of the program *)
Definition in_univ (g : gl) : Prop :=
  match g with
  | GDef s => lower_first s = true
  | GLab _ => True
  | GTL T _ => okS T = true /\ lower_first T = false
  | GCL T _ X => okS T = true /\ lower_first T = false /\ okX X = true
  end.

(* decoding of generated labels, given a cut function that is right on the universe *)
Variable cut : string -> option (string * string).
Hypothesis cut_tl : forall T k, okS T = true -> decode_with cut (pr (GTL T k)) = Some (GTL T k).
Hypothesis cut_cl : forall T k X, okS T = true -> okX X = true -> decode_with cut (pr (GCL T k X)) = Some (GCL T k X).

Definition strip_lab (l : string) : option N :=
  match l with
  | String c1 (String c2 (String c3 r)) =>
      if Ascii.eqb c1 "l" && Ascii.eqb c2 "a" && Ascii.eqb c3 "b" && all_dig r && hd_dig r then n_of_string r else None
  | _ => None
  end.
Lemma strip_lab_pr k : strip_lab (pr (GLab k)) = Some k.
Proof. cbn [pr append strip_lab]. rewrite dec_digits, dec_hd. apply n_of_dec. Qed.
Lemma strip_lab_us l : has_us l = true -> strip_lab l = None.
Proof.
  destruct l as [|c1 [|c2 [|c3 r]]]; try reflexivity. intros H. cbn [strip_lab].
  destruct (Ascii.eqb c1 "l" && Ascii.eqb c2 "a" && Ascii.eqb c3 "b" && all_dig r && hd_dig r) eqn:E; [|reflexivity].
  exfalso. repeat (apply andb_true_iff in E as [E ?]).
  apply Ascii.eqb_eq in E; subst c1.
  match goal with H1 : Ascii.eqb c2 _ = true |- _ => apply Ascii.eqb_eq in H1; subst c2 end.
  match goal with H1 : Ascii.eqb c3 _ = true |- _ => apply Ascii.eqb_eq in H1; subst c3 end.
  match goal with H1 : all_dig r = true |- _ => apply all_dig_no_us in H1; cbn in H; rewrite H1 in H; discriminate end.
Qed.

Definition decode (l : string) : option gl :=
  match strip_lab l with
  | Some k => Some (GLab k)
  | None => if lower_first l then None else decode_with cut l
  end.

Lemma decode_pr g : in_univ g -> is_gen g = true -> decode (pr g) = Some g.
Proof.
  destruct g as [s|k|T k|T k X]; cbn [in_univ is_gen]; intros U G; try discriminate; unfold decode.
  - rewrite strip_lab_pr. reflexivity.
  - destruct U as [U1 U2]. rewrite strip_lab_us by apply pr_tl_has_us.
    rewrite (proj1 (pr_gen_lower T U2 k "")). apply cut_tl. exact U1.
  - destruct U as (U1 & U2 & U3). rewrite strip_lab_us by apply pr_cl_has_us.
    rewrite (proj2 (pr_gen_lower T U2 k X)). apply cut_cl; assumption.
Qed.
Lemma decode_def s : lower_first s = true -> decode (pr (GDef s)) = None.
Proof.
  intros H. unfold decode. rewrite strip_lab_us by apply pr_def_has_us.
  cbn [pr]. rewrite lower_first_app by exact H. reflexivity.
Qed.

(* injectivity of the label texts on the universe *)
Lemma pr_inj g1 g2 : in_univ g1 -> in_univ g2 -> pr g1 = pr g2 -> g1 = g2.
Proof.
  intros U1 U2 E.
  destruct (is_gen g1) eqn:G1, (is_gen g2) eqn:G2.
  - pose proof (decode_pr g1 U1 G1) as D1. rewrite E, (decode_pr g2 U2 G2) in D1. congruence.
  - destruct g2; try discriminate. cbn [in_univ] in U2.
    pose proof (decode_pr g1 U1 G1) as D1. rewrite E, decode_def in D1 by exact U2. discriminate.
  - destruct g1; try discriminate. cbn [in_univ] in U1.
    pose proof (decode_pr g2 U2 G2) as D2. rewrite <- E, decode_def in D2 by exact U1. discriminate.
  - destruct g1, g2; try discriminate. cbn [pr] in E. apply sapp_inj_r in E. congruence.
Qed.

(* ---------- the renaming function of C17: apply f to the number of a generated label ---------- *)
Definition rho (f : N -> N) (l : string) : string :=
  match decode l with Some g => pr (with_key f g) | None => l end.
Lemma rho_gen f g : in_univ g -> is_gen g = true -> rho f (pr g) = pr (with_key f g).
Proof. intros U G. unfold rho. rewrite decode_pr by assumption. reflexivity. Qed.
Lemma rho_def f s : lower_first s = true -> rho f (s ++ "_") = s ++ "_".
Proof. intros H. unfold rho. change (s ++ "_") with (pr (GDef s)). rewrite (decode_def s H). reflexivity. Qed.
Lemma rho_fixed f l : decode l = None -> rho f l = l.
Proof. intros H. unfold rho. rewrite H. reflexivity. Qed.
End Universe.

(* the two instances *)
Definition decode_types := decode cut_first.
Definition decode_xtors := decode cut_last.
Lemma pr_inj_types g1 g2 :
  in_univ ty_ok (fun _ => true) g1 -> in_univ ty_ok (fun _ => true) g2 -> pr g1 = pr g2 -> g1 = g2.
Proof.
  apply (pr_inj ty_ok (fun _ => true) cut_first).
  - intros T k H. apply decode_first_tl; exact H.
  - intros T k X H _. apply decode_first_cl; exact H.
Qed.
Lemma pr_inj_xtors g1 g2 :
  in_univ (fun _ => true) xtor_ok g1 -> in_univ (fun _ => true) xtor_ok g2 -> pr g1 = pr g2 -> g1 = g2.
Proof.
  apply (pr_inj (fun _ => true) xtor_ok cut_last).
  - intros T k _. apply decode_last_tl.
  - intros T k X _ H. apply decode_last_cl; exact H.
Qed.

(* fixed symbols of the routines are never generated labels nor definition labels *)
Lemma cleanup_not_pr g : pr g <> "cleanup".
Proof.
  intros E. destruct g as [s|k|T k|T k X].
  - pose proof (pr_def_has_us s) as H. rewrite E in H. discriminate.
  - cbn in E. discriminate.
  - pose proof (pr_tl_has_us T k) as H. rewrite E in H. discriminate.
  - pose proof (pr_cl_has_us T k X) as H. rewrite E in H. discriminate.
Qed.
Lemma asm_main_not_pr g : pr g <> "asm_main".
Proof.
  intros E. destruct g as [s|k|T k|T k X].
  - pose proof (pr_def_ends s) as H. rewrite E in H. discriminate.
  - cbn in E. discriminate.
  - pose proof (pr_tl_has_usd T k) as H. rewrite E in H. discriminate.
  - pose proof (pr_cl_has_usd T k X) as H. rewrite E in H. discriminate.
Qed.
