(* C08, heap statements WITHOUT the one-block restriction: non-vacuity of rv_codegen_simulates_all on a program whose
   objects need CHAINS of blocks.  The loop of Proof/RVHSimExample.v with the five-field record of Proof/AxHeapExample.v
   (two blocks: stored by `store_fields` with a continuation block, loaded destructively along the link) holding a list
   twice (sharing, non-destructive then destructive loads), and a closure that captures FOUR integers (a two-block
   environment: Create stores a chain, Invoke loads it).  Print-free (the RISC-V back end rejects print).  Written in
   named AxCut and linearized by the model of the compiler's linearization pass.  All hypotheses are evaluated, the
   theorem is applied, and both machines are computed. *)
From Coq Require Import List ZArith NArith String Bool Lia.
From SCC Require Import Base.Sexp Lang.AxSyn Sem.AxSem Sem.AxHeap Model.Backend Model.RV Sem.RVSem Sem.RVWf
     Model.Linearize Model.LinCheck Model.Capacity Proof.RVSimAddr Proof.RVSimTop Proof.RVHDefs Proof.RVKFrag Proof.X86HAnn
     Proof.RVKSimProgA Proof.RVKSimTop.
From SCC Require Model.Heap Proof.AxHeapTyping Proof.RVHSimExample Proof.RVHFrag.
Import ListNotations.
Open Scope Z_scope.

Notation fits_run := RVHSimExample.fits_run.
Notation fits_run_sound := RVHSimExample.fits_run_sound.

Section Ex.
Local Open Scope string_scope.
Local Open Scope N_scope.
Definition ki (n : string) (k : N) : ident := (n, k).
Definition KCont := Decl ("Cont", 0).
Definition KListT := Decl ("List", 0).
Definition KRecT := Decl ("Rec", 0).
Definition ke (x : ident) := mkb x Ext I64.
Definition kpl (x : ident) := mkb x Prd KListT.
Definition kck (x : ident) := mkb x Cns KCont.

Definition rk_types : list tydecl :=
  [ mkt ("Cont", 0) [mkx (ki "Ret" 0) [ke (ki "x" 0)]];
    mkt ("List", 0) [mkx (ki "Nil" 0) []; mkx (ki "Cons" 0) [ke (ki "x" 0); kpl (ki "xs" 0)]];
    mkt ("Rec", 0) [mkx (ki "R5" 0) [ke (ki "a" 0); ke (ki "b" 0); kpl (ki "l" 0); ke (ki "c" 0); kpl (ki "m" 0)]] ].

(* main(n, w, u1, u2, u3): k = { Ret(r) => s1 = r + w; s2 = s1 + u1; s3 = s2 + u2; s4 = s3 + u3; exit s4 }
   (captures w, u1, u2, u3: FOUR variables, two blocks); z = 0; loop(n, z, k) *)
Definition rk_main_ctx : ctx := [ke (ki "n" 1); ke (ki "w" 5); ke (ki "u1" 30); ke (ki "u2" 31); ke (ki "u3" 32)].
Definition rk_main_body : stmt :=
  Create (ki "k" 2) KCont None
    [ (ki "Ret" 0, [ke (ki "r" 3)],
        Op (ki "r" 3) Sum (ki "w" 5) (ki "s1" 6)
        (Op (ki "s1" 6) Sum (ki "u1" 30) (ki "s2" 33)
        (Op (ki "s2" 33) Sum (ki "u2" 31) (ki "s3" 34)
        (Op (ki "s3" 34) Sum (ki "u3" 32) (ki "s4" 35) (Exit (ki "s4" 35)))))) ]
  (Literal 0 (ki "z" 4)
  (Call (ki "loop" 0) [ke (ki "n" 1); ke (ki "z" 4); kck (ki "k" 2)])).

(* loop(j, acc, k): if j == 0 then k.Ret(acc) else
     nil = Nil; l1 = Cons(j, nil); l2 = Cons(j, l1); r = R5(j, acc, l2, j, l2)        (FIVE fields, two blocks)
     switch r { R5(a, b, l, c, m) =>
       switch l { Nil => k.Ret(a);
                  Cons(y, ys) => switch m { Nil => k.Ret(y);
                                            Cons(y2, ys2) => j' = j - 1; acc' = b + y2; loop(j', acc', k) } } } *)
Definition rk_loop_ctx : ctx := [ke (ki "j" 10); ke (ki "acc" 11); kck (ki "k" 12)].
Definition rk_loop_body : stmt :=
  IfC Eq (ki "j" 10) None
    (Invoke (ki "k" 12) (ki "Ret" 0) KCont [ke (ki "acc" 11)])
    (Let (ki "nil" 13) KListT (ki "Nil" 0) []
    (Let (ki "l1" 14) KListT (ki "Cons" 0) [ke (ki "j" 10); kpl (ki "nil" 13)]
    (Let (ki "l2" 15) KListT (ki "Cons" 0) [ke (ki "j" 10); kpl (ki "l1" 14)]
    (Let (ki "r" 16) KRecT (ki "R5" 0) [ke (ki "j" 10); ke (ki "acc" 11); kpl (ki "l2" 15); ke (ki "j" 10); kpl (ki "l2" 15)]
    (Switch (ki "r" 16) KRecT
      [ (ki "R5" 0, [ke (ki "a" 17); ke (ki "b" 18); kpl (ki "l" 19); ke (ki "c" 20); kpl (ki "m" 21)],
          Switch (ki "l" 19) KListT
            [ (ki "Nil" 0, [], Invoke (ki "k" 12) (ki "Ret" 0) KCont [ke (ki "a" 17)]);
              (ki "Cons" 0, [ke (ki "y" 22); kpl (ki "ys" 23)],
                 Switch (ki "m" 21) KListT
                   [ (ki "Nil" 0, [], Invoke (ki "k" 12) (ki "Ret" 0) KCont [ke (ki "y" 22)]);
                     (ki "Cons" 0, [ke (ki "y2" 27); kpl (ki "ys2" 28)],
                        Literal 1 (ki "one" 24)
                        (Op (ki "c" 20) Sub (ki "one" 24) (ki "j2" 25)
                        (Op (ki "b" 18) Sum (ki "y2" 27) (ki "acc2" 26)
                        (Call (ki "loop" 0) [ke (ki "j2" 25); ke (ki "acc2" 26); kck (ki "k" 12)])))) ]) ]) ]))))).

Definition rk_prog : prog :=
  mkp [mkd (ki "main" 0) rk_main_ctx rk_main_body; mkd (ki "loop" 0) rk_loop_ctx rk_loop_body] rk_types 35.
End Ex.
Definition rk_lin : prog := linearize rk_prog.

Definition rk_code : list rcode := match rv_compile rk_lin 0 with Ok (cs, _, _) => cs | Err _ => [] end.
Definition rk_args : list Z := [3; 100; 1000; 10000; 100000].

(* the widest Let / Switch clause / captured environment of a statement: the program is OUTSIDE the one-block fragment *)
Lemma rk_outside_h_frag : RVHFrag.h_frag rk_lin = false.
Proof. vm_compute. reflexivity. Qed.

Lemma rk_hypotheses :
  XTC.entry_int rk_lin = true /\ lin_check_prog rk_lin = true /\ ann_check_prog rk_lin = true /\
  (exists lc', rv_compile rk_lin 0 = Ok (rk_code, 5%nat, lc')) /\ asm_wf rk_code = None /\ code_small rk_code = true /\
  Nat.leb (main_arity rk_lin) 14 = true /\ fits_run 2000 rk_lin rk_args = true.
Proof.
  split; [vm_compute; reflexivity|]. split; [vm_compute; reflexivity|]. split; [vm_compute; reflexivity|].
  split; [eexists; vm_compute; reflexivity|]. split; [vm_compute; reflexivity|]. split; [vm_compute; reflexivity|].
  split; vm_compute; reflexivity.
Qed.

(* the theorem applies: there are step counts for which the RISC-V run gives the observation of the linear machine ... *)
Lemma rk_simulated : exists outer inner, fst (run_rv outer inner rk_code rk_args) = run_linear 2000 rk_lin rk_args.
Proof.
  destruct rk_hypotheses as (H1 & H2 & H3 & (lc' & H5) & H6 & H7 & H8 & H9).
  eapply (rv_codegen_simulates_all rk_lin 0 rk_code 5 lc' rk_args 2000); eauto.
  - now apply fits_run_sound with (fuel := 2000%nat).
  - vm_compute. discriminate.
Qed.
(* ... and, evaluated, both sides: three iterations, each allocating a two-block record, sharing, loading along the link
   and dropping objects; the closure adds the four captured integers loaded from its two-block environment *)
Lemma rk_runs :
  run_linear 2000 rk_lin rk_args = ([], OExit 111106) /\
  fst (run_rv 20 2000 rk_code rk_args) = ([], OExit 111106).
Proof. split; vm_compute; reflexivity. Qed.

(* the code really contains the chain layer: a link is stored into and loaded from the third pointer slot (offset 48) *)
Lemma rk_code_has_links :
  existsb (fun c => match c with SW _ 2%N 48 => true | _ => false end) rk_code = true /\
  existsb (fun c => match c with LW _ _ 48 => true | _ => false end) rk_code = true.
Proof. split; vm_compute; reflexivity. Qed.

(* ---------- an EMPTY Switch is covered too ----------
   A match on a data type without constructors emits a label only.  main(n) creates a single-destructor closure whose clause
   body is such a Switch (no captured variable: the clause code consists of three labels, no instruction - an indirect jump
   to it would have nothing to land on) and exits; the closure is dropped.  The landing of an Invoke is established when
   the closure is invoked, where the code of the statement the machine executes provably contains an instruction
   (Proof/RVKSimProg.v), so no guard on the program excludes this shape. *)
Section ExEmpty.
Local Open Scope string_scope.
Local Open Scope N_scope.
Definition re_types : list tydecl :=
  [ mkt ("Empty", 0) []; mkt ("K", 0) [mkx (ki "D" 0) [mkb (ki "e" 0) Prd (Decl ("Empty", 0))]] ].
Definition re_main_body : stmt :=
  Create (ki "k" 2) (Decl ("K", 0)) None
    [ (ki "D" 0, [mkb (ki "e" 3) Prd (Decl ("Empty", 0))], Switch (ki "e" 3) (Decl ("Empty", 0)) []) ]
  (Exit (ki "n" 1)).
Definition re_prog : prog := mkp [mkd (ki "main" 0) [ke (ki "n" 1)] re_main_body] re_types 3.
End ExEmpty.
Definition re_lin : prog := linearize re_prog.
Definition re_code : list rcode := match rv_compile re_lin 0 with Ok (cs, _, _) => cs | Err _ => [] end.

Lemma re_hypotheses :
  XTC.entry_int re_lin = true /\ lin_check_prog re_lin = true /\ ann_check_prog re_lin = true /\
  (exists lc', rv_compile re_lin 0 = Ok (re_code, 1%nat, lc')) /\ asm_wf re_code = None /\ code_small re_code = true /\
  Nat.leb (main_arity re_lin) 14 = true /\ fits_run 100 re_lin [7] = true.
Proof.
  split; [vm_compute; reflexivity|]. split; [vm_compute; reflexivity|]. split; [vm_compute; reflexivity|].
  split; [eexists; vm_compute; reflexivity|]. split; [vm_compute; reflexivity|]. split; [vm_compute; reflexivity|].
  split; vm_compute; reflexivity.
Qed.
(* the last three items of the code are the labels of the clause: nothing of non-zero size follows the closure's label *)
Lemma re_code_ends_with_labels :
  match rev re_code with LAB _ :: LAB _ :: LAB _ :: _ => true | _ => false end = true.
Proof. vm_compute. reflexivity. Qed.
Lemma re_simulated : exists outer inner, fst (run_rv outer inner re_code [7]) = run_linear 100 re_lin [7].
Proof.
  destruct re_hypotheses as (H1 & H2 & H3 & (lc' & H5) & H6 & H7 & H8 & H9).
  eapply (rv_codegen_simulates_all re_lin 0 re_code 1 lc' [7] 100); eauto.
  - now apply fits_run_sound with (fuel := 100%nat).
  - vm_compute. discriminate.
Qed.
Lemma re_runs : run_linear 100 re_lin [7] = ([], OExit 7) /\ fst (run_rv 20 2000 re_code [7]) = ([], OExit 7).
Proof. split; vm_compute; reflexivity. Qed.
