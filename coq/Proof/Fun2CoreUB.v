(* ======================================================================================
   Proof/Fun2CoreUB  -  the free-variable bound of the translation, for the fragment [frag]:
   every free binding (name, chirality, type) of  wc t cont  is either EXACTLY the binding in scope
   of a name occurring in t, or a free binding of cont; every free binding of  cmp t ty  is of the
   first kind.  In particular compiler-generated names are never free in the output, and a shared
   continuation's parameter list never mentions a name that is not in scope.
   ====================================================================================== *)
From Coq Require Import List ZArith NArith String Bool Lia.
From SCC Require Import Base.Sexp Lang.SynUtil Lang.FunSyn Lang.FunTy Lang.CoreSyn.
From SCC Require Import Model.Fun2Core Proof.Fun2CoreProof Proof.Fun2CoreTfv Proof.Fun2CoreInv.
Import ListNotations.
Open Scope string_scope.
Open Scope list_scope.

Arguments var_ok : simpl never.

Definition inG (G : list cbinding) (l : list string) (bb : cbinding) : Prop :=
  gl G (cbvar bb) = Some bb /\ In (cbvar bb) (map new_id l).
Lemma inG_incl : forall G l l' bb, inG G l bb -> incl l l' -> inG G l' bb.
Proof.
  intros G l l' bb [H1 H2] Hi. split; [exact H1|]. apply in_map_iff in H2. destruct H2 as [x [Hx Hin]].
  apply in_map_iff. exists x. split; [exact Hx | apply Hi; exact Hin].
Qed.
Definition cont_cns (cont : cterm) : Prop := match cont with CMu c _ _ _ => c = CCns | _ => True end.

Ltac inc := let z := fresh "z" in let Hz := fresh "Hz" in
  intros z Hz; simpl; rewrite ?in_app_iff; simpl; tauto.

(* a binding found in a scope extended by one binder, other than that binder *)
Lemma inG_cons_inv : forall b0 G l bb, inG (b0 :: G) l bb -> bb <> b0 -> inG G l bb.
Proof.
  intros b0 G l bb [H1 H2] Hne. split; [|exact H2]. rewrite gl_cons in H1.
  destruct (cident_eqb (cbvar b0) (cbvar bb)); [injection H1 as H1; congruence | exact H1].
Qed.
Lemma inG_app_inv : forall A G l bb, inG (A ++ G) l bb -> ~ In bb A -> inG G l bb.
Proof.
  intros A G l bb [H1 H2] Hn. split; [|exact H2]. apply gl_app in H1. destruct H1; [contradiction | assumption].
Qed.

Section UB.
  Variable p : fcprog.
  Variable cur : string.
  Notation wc' := (wc (codata_of p) cur false).
  Notation cmp' := (cmp (codata_of p) cur false).

  Lemma share_fvt : forall cont st k st', share cur cont st = Ok (k, st') -> cont_cns cont ->
    cont_cns k /\ forall bb, In bb (fvt k) -> In bb (fvt cont).
  Proof.
    intros cont st k st' H Hc.
    destruct (share_inv _ _ _ _ _ H) as [var [ty [body [stv [name [Hm [Hv [Hl Hk]]]]]]]]. subst k.
    split; [reflexivity|]. intros bb Hb. apply fvt_mu_iff in Hb. destruct Hb as [Hb Hne]. simpl in Hne.
    apply (proj1 (fvs_call _ _ _ _)) in Hb. apply (proj1 (fva_arg_of_binding _ _)) in Hb. fold (fvs body) in Hb.
    destruct cont;
      try (destruct Hm as [xx [_ [Hvar [Hty Hbody]]]]; subst body; apply fvs_cut in Hb; destruct Hb as [Hb|Hb];
           [apply fvt_var in Hb; subst var; congruence | exact Hb]).
    destruct Hm as [Hvar [Hty [Hbody _]]]. simpl in Hc. subst.
    apply fvt_mu_iff. split; assumption.
  Qed.

  Definition ubw (t : fterm) : Prop :=
    forall G cont st s st', wc' t cont st = Ok (s, st') -> frag p t = true -> ws G t = true -> cont_cns cont ->
      forall bb, In bb (fvs s) -> inG G (nm t) bb \/ In bb (fvt cont).
  Definition ubc (t : fterm) : Prop :=
    forall G ty st c st', cmp' t ty st = Ok (c, st') -> frag p t = true -> ws G t = true ->
      forall bb, In bb (fvt c) -> inG G (nm t) bb.

  Lemma ub_default : forall (w : cterm -> M cstmt) l G,
    (forall cont st s st', w cont st = Ok (s, st') -> cont_cns cont ->
       forall bb, In bb (fvs s) -> inG G l bb \/ In bb (fvt cont)) ->
    forall ty st c st', default_compile w ty st = Ok (c, st') -> forall bb, In bb (fvt c) -> inG G l bb.
  Proof.
    intros w l G Hw ty st c st' H bb Hb. apply default_compile_inv in H.
    destruct H as [a [sta [s [Ha [Hs Hc]]]]]. subst c. apply fvt_mu_iff in Hb. destruct Hb as [Hb Hne].
    destruct (Hw _ _ _ _ Hs I bb Hb) as [Hg|Hg]; [exact Hg|]. apply fvt_var in Hg. simpl in Hne. congruence.
  Qed.

  Lemma ub_guard : forall (w : cterm -> M cstmt) l G binders ty,
    (forall cont st s st', w cont st = Ok (s, st') -> cont_cns cont ->
       forall bb, In bb (fvs s) -> inG G l bb \/ In bb (fvt cont)) ->
    forall cont st s st', guard_capture false binders w ty cont st = Ok (s, st') -> cont_cns cont ->
    forall bb, In bb (fvs s) -> inG G l bb \/ In bb (fvt cont).
  Proof.
    intros w l G binders ty Hw cont st s st' H Hc bb Hb. apply guard_capture_inv in H.
    destruct H as [[_ H]|[_ [ty0 [a [sta [s0 [Ety [Ha [_ [Hs Es]]]]]]]]]].
    - eapply Hw; eauto.
    - subst s. apply fvs_cut in Hb. destruct Hb as [Hb|Hb]; [|right; exact Hb].
      apply fvt_mu_iff in Hb. destruct Hb as [Hb Hne].
      destruct (Hw _ _ _ _ Hs I bb Hb) as [Hg|Hg]; [left; exact Hg|]. apply fvt_var in Hg. simpl in Hne. congruence.
  Qed.

  Lemma ws_arg_not_cns : forall G y, match y with FVar _ _ (Some FCns) => False | _ => True end ->
    ws_arg G y = ws G y /\ arg_ok p y = (frag p y && is_some (fterm_type y)).
  Proof. intros G y H. destruct y; try (split; reflexivity). destruct chi as [[|]|]; try contradiction; split; reflexivity. Qed.

  Lemma ub_args : forall G args, Forall ubc args ->
    forall st l st', subst_with (fun y => cmp' y) args st = Ok (l, st') ->
    forallb (arg_ok p) args = true -> forallb (ws_arg G) args = true ->
    forall bb, In bb (fva l) -> inG G (flat_map nm args) bb.
  Proof.
    intros G args H. induction H as [|y r Hy Hr IH]; intros st l st' Hs Hf Hw bb Hb.
    - simpl in Hs. apply mret_inv in Hs. destruct Hs; subst. apply fva_nil in Hb. contradiction.
    - apply subst_with_cons_inv in Hs. destruct Hs as [a [st1 [rest [Ha [Hrest Hl]]]]]. subst l.
      simpl in Hf, Hw. apply andb_prop in Hf. destruct Hf as [Hf1 Hf2]. apply andb_prop in Hw. destruct Hw as [Hw1 Hw2].
      apply fva_cons in Hb. destruct Hb as [Hb|Hb].
      + apply compile_arg_inv in Ha. destruct Ha as [[v [ty [ty0 [Ey [Ety [Ea Est]]]]]]|[Hn [ty0 [c [Ety [Ec Ea]]]]]].
        * subst. simpl in Hw1. apply var_ok_inv in Hw1. destruct Hw1 as [ty1 [E1 Hg]]. injection E1 as E1. subst ty1.
          apply fvt_var in Hb. subst bb. split; [exact Hg|]. simpl. left. reflexivity.
        * subst a. destruct (ws_arg_not_cns G y Hn) as [Ew Ef]. rewrite Ew in Hw1. rewrite Ef in Hf1.
          apply andb_prop in Hf1. destruct Hf1 as [Hf1 _].
          eapply inG_incl; [eapply Hy; eauto|]. inc.
      + eapply inG_incl; [eapply IH; eauto|]. inc.
  Qed.

  Lemma ub_clauses : forall G cont1 cls, Forall (fun c => ubw (clause_body c)) cls -> cont_cns cont1 ->
    forall st l st', clauses_with (fun b => wc' b) cont1 cls st = Ok (l, st') ->
    forallb (fun c => match c with FClause _ _ names ctx body =>
                        list_eqb String.eqb names (fvars ctx) && ctx_data p ctx && frag p body end) cls = true ->
    forallb (fun c => match c with FClause _ _ _ ctx body => ws (compile_ctx ctx ++ G) body end) cls = true ->
    forall bb, In bb (fvc l) -> inG G (flat_map cl_nm cls) bb \/ In bb (fvt cont1).
  Proof.
    intros G cont1 cls H Hc. induction H as [|c r Hy Hr IH]; intros st l st' Hs Hf Hw bb Hb.
    - simpl in Hs. apply mret_inv in Hs. destruct Hs; subst. apply fvc_nil in Hb. contradiction.
    - destruct c as [pl x names ctx body]. apply clauses_with_cons_inv in Hs.
      destruct Hs as [c' [st1 [rest [Ha [Hrest Hl]]]]]. subst l.
      apply compile_clause_inv in Ha. destruct Ha as [body' [Hbody Ec]]. subst c'.
      simpl in Hf, Hw. apply andb_prop in Hf. destruct Hf as [Hf1 Hf2]. apply andb_prop in Hw. destruct Hw as [Hw1 Hw2].
      apply andb_prop in Hf1. destruct Hf1 as [_ Hf1].
      apply fvc_cons_iff in Hb. destruct Hb as [[Hb Hn]|Hb].
      + simpl in Hy. destruct (Hy _ _ _ _ _ Hbody Hf1 Hw1 Hc bb Hb) as [Hg|Hg]; [left | right; exact Hg].
        apply inG_app_inv in Hg; [|exact Hn]. eapply inG_incl; [exact Hg|]. inc.
      + destruct (IH _ _ _ Hrest Hf2 Hw2 bb Hb) as [Hg|Hg]; [left | right; exact Hg].
        eapply inG_incl; [exact Hg|]. inc.
  Qed.

  Lemma darg_arg_ok : forall args, forallb (darg_ok p) args = true ->
    forallb (arg_ok p) args = true /\ forallb (fun y => negb (is_cns_var y)) args = true.
  Proof.
    induction args as [|y r IH]; intros H; [split; reflexivity|]. simpl in H. apply andb_prop in H. destruct H as [Hy Hr].
    destruct (IH Hr) as [IH1 IH2]. simpl. rewrite IH1, IH2. unfold darg_ok in Hy.
    apply andb_prop in Hy. destruct Hy as [Hy Hd]. apply andb_prop in Hy. destruct Hy as [Hc Hf].
    rewrite Hc. split; [|reflexivity]. rewrite andb_true_r.
    assert (Hs : is_some (fterm_type y) = true) by (unfold data_ty in Hd; destruct (fterm_type y); [reflexivity | discriminate]).
    unfold arg_ok. destruct y; try (rewrite Hf, Hs; reflexivity). destruct chi as [[|]|]; try (rewrite Hf, Hs; reflexivity). reflexivity.
  Qed.

  Lemma ub_coclauses : forall G cls, Forall (fun c => ubw (clause_body c)) cls ->
    forall st l st', coclauses_with (fun b => wc' b) cls st = Ok (l, st') ->
    forallb (fun c => match c with FClause _ _ names ctx body =>
                        list_eqb String.eqb names (fvars ctx) && ctx_data p ctx && frag p body end) cls = true ->
    forallb (fun c => match c with FClause _ _ _ ctx body => ws (compile_ctx ctx ++ G) body end) cls = true ->
    forall bb, In bb (fvc l) -> inG G (flat_map cl_nm cls) bb.
  Proof.
    intros G cls H. induction H as [|c r Hy Hr IH]; intros st l st' Hs Hf Hw bb Hb.
    - simpl in Hs. apply mret_inv in Hs. destruct Hs; subst. apply fvc_nil in Hb. contradiction.
    - destruct c as [pl x names ctx body]. apply coclauses_with_cons_inv in Hs.
      destruct Hs as [c' [st1 [rest [Ha [Hrest Hl]]]]]. subst l.
      apply compile_coclause_inv in Ha. destruct Ha as [ty0 [a [sta [body' [Ety [Hfr [Hbody Ec]]]]]]]. subst c'.
      simpl in Hf, Hw. apply andb_prop in Hf. destruct Hf as [Hf1 Hf2]. apply andb_prop in Hw. destruct Hw as [Hw1 Hw2].
      apply andb_prop in Hf1. destruct Hf1 as [_ Hf1].
      apply fvc_cons_iff in Hb. destruct Hb as [[Hb Hn]|Hb].
      + simpl in Hy. destruct (Hy _ _ _ _ _ Hbody Hf1 Hw1 I bb Hb) as [Hg|Hg].
        * apply inG_app_inv in Hg; [|intros Hc; apply Hn; apply in_or_app; left; exact Hc].
          eapply inG_incl; [exact Hg|]. inc.
        * apply fvt_var in Hg. exfalso. apply Hn. apply in_or_app. right. left. symmetry. exact Hg.
      + eapply inG_incl; [eapply IH; eauto|]. inc.
  Qed.

  Lemma ub_both : forall t, ubw t /\ ubc t.
  Proof.
    induction t using fterm_ind'.
    - (* FVar *)
      split.
      + intros G cont st s st' H Hf Hw Hc bb Hb. rewrite wc_unfold in H. apply wc_var_inv in H.
        destruct H as [ty0 [Ety [Es Est]]]. subst. simpl in Hw. apply var_ok_inv in Hw.
        destruct Hw as [ty1 [E1 Hg]]. injection E1 as E1. subst ty1.
        apply fvs_cut in Hb. destruct Hb as [Hb|Hb]; [left | right; exact Hb].
        apply fvt_var in Hb. subst bb. split; [exact Hg | simpl; left; reflexivity].
      + intros G ty0' st c st' H Hf Hw bb Hb. rewrite cmp_unfold in H. apply cmp_var_inv in H.
        destruct H as [ty0 [Ety [Es Est]]]. subst. simpl in Hw. apply var_ok_inv in Hw.
        destruct Hw as [ty1 [E1 Hg]]. injection E1 as E1. subst ty1.
        apply fvt_var in Hb. subst bb. split; [exact Hg | simpl; left; reflexivity].
    - (* FLit *)
      split.
      + intros G cont st s st' H Hf Hw Hc bb Hb. rewrite wc_unfold in H. unfold wc_lit in H.
        apply mret_inv in H. destruct H; subst. apply fvs_cut in Hb. destruct Hb as [Hb|Hb]; [|right; exact Hb].
        apply fvt_lit in Hb. contradiction.
      + intros G ty0' st c st' H Hf Hw bb Hb. rewrite cmp_unfold in H. unfold cmp_lit in H.
        apply mret_inv in H. destruct H; subst. apply fvt_lit in Hb. contradiction.
    - (* FOp *)
      destruct IHt1 as [_ C1], IHt2 as [_ C2].
      assert (HC : ubc (FOp t1 o t2)).
      { intros G ty0' st c st' H Hf Hw bb Hb. rewrite cmp_unfold in H. apply cmp_op_inv in H.
        destruct H as [a [st1 [b [Ha [Hb' Ec]]]]]. subst c. simpl in Hf, Hw.
        apply andb_prop in Hf. destruct Hf as [Hf1 Hf2]. apply andb_prop in Hw. destruct Hw as [Hw1 Hw2].
        apply fvt_op in Hb. destruct Hb as [Hb|Hb].
        - eapply inG_incl; [eapply C1; eauto|]. inc.
        - eapply inG_incl; [eapply C2; eauto|]. inc. }
      split; [|exact HC].
      intros G cont st s st' H Hf Hw Hc bb Hb. rewrite wc_unfold in H. unfold wc_op in H.
      minv H. apply mret_inv in H. destruct H; subst. apply fvs_cut in Hb. destruct Hb as [Hb|Hb]; [left | right; exact Hb].
      eapply (HC G CI64); [rewrite cmp_unfold; exact E | exact Hf | exact Hw | exact Hb].
    - (* FIfC *)
      destruct IHt1 as [_ C1], IHt2 as [W2 _], IHt3 as [W3 _].
      assert (HW : ubw (FIfC s t1 b t2 t3 ty)).
      { intros G cont st s0 st' H0 Hf Hw Hc bb Hb. rewrite wc_unfold in H0. apply wc_ifc_inv in H0.
        destruct H0 as [cont1 [st0 [a [sta [b' [stb [t [stt [e [Hsh [Ha [Hbb [Ht [He Er]]]]]]]]]]]]]]. subst s0.
        simpl in Hf, Hw.
        apply andb_prop in Hf. destruct Hf as [Hf Hf3]. apply andb_prop in Hf. destruct Hf as [Hf Hf2].
        apply andb_prop in Hf. destruct Hf as [Hf1 Hfb].
        apply andb_prop in Hw. destruct Hw as [Hw Hw3]. apply andb_prop in Hw. destruct Hw as [Hw Hw2].
        apply andb_prop in Hw. destruct Hw as [Hw1 Hwb].
        assert (Hc1 : cont_cns cont1 /\ forall bb, In bb (fvt cont1) -> In bb (fvt cont)).
        { destruct (cont_is_small cont); [destruct Hsh; subst; auto | eapply share_fvt; eauto]. }
        destruct Hc1 as [Hc1 Hsub].
        apply fvs_ifc in Hb. destruct Hb as [Hb|[Hb|[Hb|Hb]]].
        - left. eapply inG_incl; [eapply C1; eauto|]. inc.
        - left. destruct b as [b0|].
          + destruct Hbb as [b1 [Hb1 Eb]]. subst b'. simpl in H. destruct H as [_ Cb].
            eapply inG_incl; [eapply Cb; eauto|]. inc.
          + destruct Hbb as [Eb _]. subst b'. contradiction.
        - destruct (W2 _ _ _ _ _ Ht Hf2 Hw2 Hc1 bb Hb) as [Hg|Hg]; [left | right; apply Hsub; exact Hg].
          eapply inG_incl; [exact Hg|]. inc.
        - destruct (W3 _ _ _ _ _ He Hf3 Hw3 Hc1 bb Hb) as [Hg|Hg]; [left | right; apply Hsub; exact Hg].
          eapply inG_incl; [exact Hg|]. inc. }
      split; [exact HW|].
      intros G ty0' st c st' H0 Hf Hw bb Hb. rewrite cmp_unfold in H0.
      eapply ub_default; [|exact H0|exact Hb]. intros cont st0 s0 st0' Hs Hc bb0 Hb0.
      eapply HW; eauto; rewrite wc_unfold; exact Hs.
    - (* FPrint *)
      destruct IHt1 as [_ C1], IHt2 as [W2 _].
      assert (HW : ubw (FPrint nl t1 t2 ty)).
      { intros G cont st s0 st' H0 Hf Hw Hc bb Hb. rewrite wc_unfold in H0. apply wc_print_inv in H0.
        destruct H0 as [a [st1 [next [Ha [Hn Es]]]]]. subst s0. simpl in Hf, Hw.
        apply andb_prop in Hf. destruct Hf as [Hf1 Hf2]. apply andb_prop in Hw. destruct Hw as [Hw1 Hw2].
        apply fvs_print in Hb. destruct Hb as [Hb|Hb].
        - left. eapply inG_incl; [eapply C1; eauto|]. inc.
        - destruct (W2 _ _ _ _ _ Hn Hf2 Hw2 Hc bb Hb) as [Hg|Hg]; [left | right; exact Hg].
          eapply inG_incl; [exact Hg|]. inc. }
      split; [exact HW|].
      intros G ty0' st c st' H0 Hf Hw bb Hb. rewrite cmp_unfold in H0.
      eapply ub_default; [|exact H0|exact Hb]. intros cont st0 s0 st0' Hs Hc bb0 Hb0.
      eapply HW; eauto; rewrite wc_unfold; exact Hs.
    - (* FLet *)
      destruct IHt1 as [W1 C1], IHt2 as [W2 _].
      assert (HW : ubw (FLet v vty t1 t2 ty)).
      { intros G cont0 st0 s00 st0' H00 Hf Hw Hc0. rewrite wc_unfold in H00. simpl in Hf, Hw.
        apply andb_prop in Hf. destruct Hf as [Hf1 Hf2].
        apply andb_prop in Hw. destruct Hw as [Hw1 Hw2].
        revert cont0 st0 s00 st0' H00 Hc0. apply ub_guard.
        intros cont st s0 st' H0 Hc bb Hb.
        assert (Hbody : forall body st1, wc' t2 cont st = Ok (body, st1) ->
                  forall bb, In bb (fvt (CMu CCns (new_id v) body (compile_ty vty))) ->
                  inG G (nm (FLet v vty t1 t2 ty)) bb \/ In bb (fvt cont)).
        { intros body st1 Hbody bb0 Hg. apply fvt_mu_iff in Hg. destruct Hg as [Hg Hne]. simpl in Hne.
          destruct (W2 _ _ _ _ _ Hbody Hf2 Hw2 Hc bb0 Hg) as [Hg2|Hg2]; [left | right; exact Hg2].
          apply inG_cons_inv in Hg2; [|exact Hne]. eapply inG_incl; [exact Hg2|]. inc. }
        destruct (ty_is_codata (codata_of p) (compile_ty vty)) eqn:Hcd.
        - apply wc_let_inv_codata in H0; [|exact Hcd]. destruct H0 as [body [st1 [pb [Hbody0 [Hpb Es]]]]]. subst s0.
          apply fvs_cut in Hb. destruct Hb as [Hb|Hb].
          + left. eapply inG_incl; [eapply C1; eauto|]. inc.
          + eapply Hbody; eauto.
        - apply wc_let_inv in H0; [|exact Hcd]. destruct H0 as [body [st1 [Hbody0 Hbound]]].
          destruct (W1 _ _ _ _ _ Hbound Hf1 Hw1 eq_refl bb Hb) as [Hg|Hg].
          + left. eapply inG_incl; [exact Hg|]. inc.
          + eapply Hbody; eauto. }
      split; [exact HW|].
      intros G ty0' st c st' H0 Hf Hw bb Hb. rewrite cmp_unfold in H0.
      eapply ub_default; [|exact H0|exact Hb]. intros cont st0 s0 st0' Hs Hc bb0 Hb0.
      eapply HW; eauto; rewrite wc_unfold; exact Hs.
    - (* FCall *)
      assert (HA : Forall ubc args). { eapply Forall_impl; [|exact H]. intros a [_ Ca]. exact Ca. }
      assert (HW : ubw (FCall f args ret)).
      { intros G cont st s0 st' H0 Hf Hw Hc bb Hb. rewrite wc_unfold in H0. apply wc_call_inv in H0.
        destruct H0 as [args' [ret0 [Hargs [Eret Es]]]]. subst s0. simpl in Hf, Hw.
        apply andb_prop in Hf. destruct Hf as [_ Hf].
        apply fvs_call in Hb. apply fva_app in Hb. destruct Hb as [Hb|Hb].
        - left. eapply (ub_args G args HA); eauto.
        - right. apply fva_cons in Hb. destruct Hb as [Hb|Hb]; [exact Hb | apply fva_nil in Hb; contradiction]. }
      split; [exact HW|].
      intros G ty0' st c st' H0 Hf Hw bb Hb. rewrite cmp_unfold in H0.
      eapply ub_default; [|exact H0|exact Hb]. intros cont st0 s0 st0' Hs Hc bb0 Hb0.
      eapply HW; eauto; rewrite wc_unfold; exact Hs.
    - (* FCtor *)
      assert (HA : Forall ubc args). { eapply Forall_impl; [|exact H]. intros a [_ Ca]. exact Ca. }
      assert (HC : ubc (FCtor x args ty)).
      { intros G ty0' st c st' H0 Hf Hw bb Hb. rewrite cmp_unfold in H0. apply cmp_ctor_inv in H0.
        destruct H0 as [args' [ty0 [Hargs [Ety Ec]]]]. subst c. simpl in Hf, Hw.
        apply darg_arg_ok in Hf. destruct Hf as [Hf _].
        apply fvt_xtor in Hb. eapply (ub_args G args HA); eauto. }
      split; [|exact HC].
      intros G cont st s0 st' H0 Hf Hw Hc bb Hb. rewrite wc_unfold in H0. unfold wc_ctor in H0.
      minv H0. apply mlift_inv in E. destruct E as [E ->]. minv H0. apply mret_inv in H0. destruct H0; subst.
      apply fvs_cut in Hb. destruct Hb as [Hb|Hb]; [left | right; exact Hb].
      eapply (HC G CI64); [rewrite cmp_unfold; exact E0 | exact Hf | exact Hw | exact Hb].
    - (* FDtor *)
      destruct IHt as [Ws _].
      assert (HA : Forall ubc args). { eapply Forall_impl; [|exact H]. intros a [_ Ca]. exact Ca. }
      assert (HW : ubw (FDtor t x targs args ty)).
      { intros G cont st s0 st' H0 Hf Hw Hc bb Hb. rewrite wc_unfold in H0. apply wc_dtor_inv in H0.
        destruct H0 as [args' [st1 [sty0 [Hargs [Esty Hscrut]]]]]. simpl in Hf, Hw.
        apply andb_prop in Hf. destruct Hf as [Hf _]. apply andb_prop in Hf. destruct Hf as [Hfs Hfa].
        apply andb_prop in Hw. destruct Hw as [Hws Hwa].
        apply darg_arg_ok in Hfa. destruct Hfa as [Hfa _].
        destruct (Ws _ _ _ _ _ Hscrut Hfs Hws I bb Hb) as [Hg|Hg].
        - left. eapply inG_incl; [exact Hg|]. inc.
        - apply fvt_xtor in Hg. apply fva_app in Hg. destruct Hg as [Hg|Hg].
          + left. eapply inG_incl; [eapply (ub_args G args HA); eauto|]. inc.
          + right. apply fva_cons in Hg. destruct Hg as [Hg|Hg]; [exact Hg | apply fva_nil in Hg; contradiction]. }
      split; [exact HW|].
      intros G ty0' st c st' H0 Hf Hw bb Hb. rewrite cmp_unfold in H0.
      eapply ub_default; [|exact H0|exact Hb]. intros cont st0 s0 st0' Hs Hc bb0 Hb0.
      eapply HW; eauto; rewrite wc_unfold; exact Hs.
    - (* FCase *)
      destruct IHt as [Ws _].
      assert (HB : Forall (fun c => ubw (clause_body c)) cls).
      { eapply Forall_impl; [|exact H]. intros a [Wa _]. exact Wa. }
      assert (HW : ubw (FCase t targs cls ty)).
      { intros G cont0 st0 s00 st0' H00 Hf Hw Hc0. rewrite wc_unfold in H00. simpl in Hf, Hw.
        apply andb_prop in Hf. destruct Hf as [Hf1 Hf2]. apply andb_prop in Hf1. destruct Hf1 as [Hf1 _].
        apply andb_prop in Hw. destruct Hw as [Hw1 Hw2].
        revert cont0 st0 s00 st0' H00 Hc0. apply ub_guard.
        intros cont st s0 st' H0 Hc bb Hb. apply wc_case_inv in H0.
        destruct H0 as [cont1 [st0 [cls' [st1 [sty0 [Hsh [Hcls [Esty Hscrut]]]]]]]].
        assert (Hc1 : cont_cns cont1 /\ forall bb, In bb (fvt cont1) -> In bb (fvt cont)).
        { destruct (Nat.leb (List.length cls) 1 || cont_is_small cont);
            [destruct Hsh; subst; auto | eapply share_fvt; eauto]. }
        destruct Hc1 as [Hc1 Hsub].
        destruct (Ws _ _ _ _ _ Hscrut Hf1 Hw1 I bb Hb) as [Hg|Hg].
        - left. eapply inG_incl; [exact Hg|]. inc.
        - apply fvt_xcase in Hg.
          destruct (ub_clauses G cont1 cls HB Hc1 _ _ _ Hcls Hf2 Hw2 bb Hg) as [Hg2|Hg2]; [left | right; apply Hsub; exact Hg2].
          eapply inG_incl; [exact Hg2|]. intros z Hz. simpl. apply in_or_app. right. exact Hz. }
      split; [exact HW|].
      intros G ty0' st c st' H0 Hf Hw bb Hb. rewrite cmp_unfold in H0.
      eapply ub_default; [|exact H0|exact Hb]. intros cont st0 s0 st0' Hs Hc bb0 Hb0.
      eapply HW; eauto; rewrite wc_unfold; exact Hs.
    - (* FNew *)
      assert (HB : Forall (fun c => ubw (clause_body c)) cls).
      { eapply Forall_impl; [|exact H]. intros a [Wa _]. exact Wa. }
      assert (HC : ubc (FNew cls ty)).
      { intros G ty0' st c st' H0 Hf Hw bb Hb. rewrite cmp_unfold in H0. apply cmp_new_inv in H0.
        destruct H0 as [cls' [ty0 [Hcls [Ety Ec]]]]. subst c. simpl in Hf, Hw.
        apply fvt_xcase in Hb. eapply (ub_coclauses G cls HB); eauto. }
      split; [|exact HC].
      intros G cont st s0 st' H0 Hf Hw Hc bb Hb. rewrite wc_unfold in H0. unfold wc_new in H0.
      minv H0. apply mlift_inv in E. destruct E as [E ->]. minv H0. apply mret_inv in H0. destruct H0; subst.
      apply fvs_cut in Hb. destruct Hb as [Hb|Hb]; [left | right; exact Hb].
      eapply (HC G CI64); [rewrite cmp_unfold; exact E0 | exact Hf | exact Hw | exact Hb].
    - (* FLabel *)
      destruct IHt as [W _].
      assert (HC : ubc (FLabel l t ty)).
      { intros G ty0' st c st' H0 Hf Hw bb Hb. rewrite cmp_unfold in H0. apply cmp_label_inv in H0.
        destruct H0 as [ty0 [s0 [Ety [Hs Ec]]]]. subst c ty. simpl in Hf, Hw.
        apply andb_prop in Hf. destruct Hf as [_ Hf].
        apply fvt_mu_iff in Hb. destruct Hb as [Hb Hne]. simpl in Hne.
        destruct (W _ _ _ _ _ Hs Hf Hw I bb Hb) as [Hg|Hg].
        - apply inG_cons_inv in Hg; [|exact Hne]. eapply inG_incl; [exact Hg|]. inc.
        - apply fvt_var in Hg. congruence. }
      split; [|exact HC].
      intros G cont st s0 st' H0 Hf Hw Hc bb Hb. rewrite wc_unfold in H0. unfold wc_label in H0.
      minv H0. apply mlift_inv in E. destruct E as [E ->]. minv H0. apply mret_inv in H0. destruct H0; subst.
      apply fvs_cut in Hb. destruct Hb as [Hb|Hb]; [left | right; exact Hb].
      eapply (HC G CI64); [rewrite cmp_unfold; exact E0 | exact Hf | exact Hw | exact Hb].
    - (* FGoto *)
      destruct IHt as [W _].
      assert (HW : ubw (FGoto l t ty)).
      { intros G cont st s0 st' H0 Hf Hw Hc bb Hb. rewrite wc_unfold in H0. apply wc_goto_inv in H0.
        destruct H0 as [ty0 [Ety Hs]]. simpl in Hf, Hw. apply andb_prop in Hw. destruct Hw as [Hw1 Hw2].
        left. destruct (W _ _ _ _ _ Hs Hf Hw2 I bb Hb) as [Hg|Hg].
        - eapply inG_incl; [exact Hg|]. inc.
        - apply fvt_var in Hg. subst bb. apply var_ok_inv in Hw1. destruct Hw1 as [ty1 [E1 Hg]].
          rewrite Ety in E1. injection E1 as E1. subst ty1. split; [exact Hg | simpl; left; reflexivity]. }
      split; [exact HW|].
      intros G ty0' st c st' H0 Hf Hw bb Hb. rewrite cmp_unfold in H0.
      eapply (ub_default (fun _ => wc_goto false l (wc' t) ty (fterm_type t))); [|exact H0|exact Hb].
      intros cont st0 s0 st0' Hs Hc bb0 Hb0.
      eapply (HW G cont); eauto; rewrite wc_unfold; exact Hs.
    - (* FExit *)
      destruct IHt as [_ C].
      assert (HW : ubw (FExit t ty)).
      { intros G cont st s0 st' H0 Hf Hw Hc bb Hb. rewrite wc_unfold in H0. apply wc_exit_inv in H0.
        destruct H0 as [a [ty0 [Ha [Ety Es]]]]. subst s0. simpl in Hf, Hw. left.
        apply fvs_exit in Hb. eapply C; eauto. }
      split; [exact HW|].
      intros G ty0' st c st' H0 Hf Hw bb Hb. rewrite cmp_unfold in H0.
      eapply (ub_default (fun _ => wc_exit (cmp' t CI64) ty)); [|exact H0|exact Hb].
      intros cont st0 s0 st0' Hs Hc bb0 Hb0.
      eapply (HW G cont); eauto; rewrite wc_unfold; exact Hs.
    - (* FParen *)
      destruct IHt as [W C]. split.
      + intros G cont st s0 st' H0 Hf Hw Hc bb Hb. rewrite wc_unfold in H0. eapply W; eauto.
      + intros G ty0' st c st' H0 Hf Hw bb Hb. rewrite cmp_unfold in H0. eapply C; eauto.
  Qed.

  Definition ub_wc (t : fterm) := proj1 (ub_both t).
  Definition ub_cmp (t : fterm) := proj2 (ub_both t).
End UB.
