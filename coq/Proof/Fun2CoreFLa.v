(* ======================================================================================
   Proof/Fun2CoreFLa  -  the environment and continuation invariants of the forward simulation
   (see Proof/Fun2CoreRel.v for the value relation) and the lemmas about them:

     erel n G S e ce     every binding of the scope G whose name satisfies S is bound in the source
                         environment e and in the Core environment ce to related values ([brel n]) of
                         the kind the scope says
     KS n k cont ce      the source continuation k is what the syntactic consumer cont means in ce:
                           cont = mu~ x.s   for every j < n and data value v ~_j pv, in EVERY
                                            environment that agrees with (x,pv)::ce on the free
                                            variables of s, running s simulates FRet k v
                                            (this covers the closure, the machine continuation and
                                            the LIFTED definition share_f_n, whose environment is
                                            just the parameters)
                           otherwise        in every ce' that agrees with ce on the free variables
                                            of cont, the consumer value of cont is Kb-related to k
     CK n k cont ce S    the free bindings of cont whose names satisfy S are bound in ce with the
                         right kind, and if ALL names of cont satisfy S then KS n k cont ce
                         (S = the names free in the statement being run: a continuation that the
                         statement has dropped - exit, goto - need not mean anything any more)
   ====================================================================================== *)
From Coq Require Import List ZArith NArith String Bool Lia.
From SCC Require Import Base.Sexp Lang.SynUtil Lang.FunSyn Lang.FunTy Lang.CoreSyn.
From SCC Require Import Sem.AxSem Sem.CoreSem Sem.FunSem Model.Fun2Core.
From SCC Require Import Proof.Fun2CoreProof Proof.Fun2CoreSim Proof.Fun2CoreTfv Proof.Fun2CoreInv Proof.Fun2CoreUB Proof.Fun2CoreRel.
Import ListNotations.
Open Scope string_scope.
Open Scope list_scope.

Definition fkind (b : fbv) : cchi := match b with FbP _ => CPrd | FbK _ => CCns end.
Definition ckind (b : bval) : cchi := match b with BP _ => CPrd | BK _ => CCns end.
Definition cnames (bs : bset) : list cident := map cbvar bs.
Definition agree (S : list cident) (ce ce' : cenv) : Prop := forall x, In x S -> clookup ce' x = clookup ce x.

Lemma agree_refl : forall S ce, agree S ce ce.
Proof. intros S ce x _. reflexivity. Qed.
Lemma in_cnames : forall bb bs, In bb bs -> In (cbvar bb) (cnames bs).
Proof. intros bb bs H. unfold cnames. apply in_map. exact H. Qed.
Lemma in_cnames_inv : forall x bs, In x (cnames bs) -> exists bb, In bb bs /\ cbvar bb = x.
Proof. intros x bs H. unfold cnames in H. apply in_map_iff in H. destruct H as [bb [E Hin]]. eauto. Qed.

Lemma flookup_cons : forall x b e y, flookup ((x, b) :: e) y = if String.eqb x y then Some b else flookup e y.
Proof. reflexivity. Qed.
Lemma clookup_cons : forall x b e y, clookup ((x, b) :: e) y = if cident_eqb x y then Some b else clookup e y.
Proof. reflexivity. Qed.
Lemma new_id_neq : forall a b, new_id a <> new_id b -> a <> b.
Proof. intros a b H E. apply H. subst. reflexivity. Qed.

Section FLa.
  Variable p : fcprog.
  Variable cp : cprog.
  Hypothesis Hcod : cpcodata cp = codata_of p.

  Lemma is_codata_compile : forall ty, is_codata cp (compile_ty ty) = f_is_codata p ty.
  Proof.
    intros ty. rewrite <- ty_is_codata_compile. unfold is_codata, ty_is_codata. rewrite Hcod. reflexivity.
  Qed.

  Lemma brel_kind : forall n b b', brel p cp n b b' -> fkind b = ckind b'.
  Proof. intros n [v|k] [pv|kv] H; simpl in *; try contradiction; reflexivity. Qed.

  (* ---------- environments ---------- *)
  (* what an environment may bind at a type of kind c: a value of that kind, or a continuation *)
  Definition vok (c : bool) (b : fbv) : Prop := match b with FbP v => vkind c v | FbK _ => True end.
  Definition erel (n : nat) (G : list cbinding) (S : cident -> Prop) (e : fenv) (ce : cenv) : Prop :=
    forall bb, gl G (cbvar bb) = Some bb -> S (cbvar bb) ->
      exists x b b', cbvar bb = new_id x /\ flookup e x = Some b /\ clookup ce (new_id x) = Some b' /\
                     brel p cp n b b' /\ vok (is_codata cp (cbty bb)) b /\ fkind b = cbchi bb.

  Lemma erel_weaken : forall n n' G (S S' : cident -> Prop) e ce,
    erel n G S e ce -> (forall x, S' x -> S x) -> (n' <= n)%nat -> erel n' G S' e ce.
  Proof.
    intros n n' G S S' e ce H HS Hle bb Hg Hs. destruct (H bb Hg (HS _ Hs)) as [x [b [b' [E1 [E2 [E3 [E4 [E5 E6]]]]]]]].
    exists x, b, b'. repeat split; auto. eapply brel_mono; eauto.
  Qed.
  Lemma erel_agree : forall n G (S S' : cident -> Prop) e ce ce',
    erel n G S e ce -> (forall x, S' x -> S x /\ clookup ce' x = clookup ce x) -> erel n G S' e ce'.
  Proof.
    intros n G S S' e ce ce' H HS bb Hg Hs. destruct (HS _ Hs) as [Hs1 Ha].
    destruct (H bb Hg Hs1) as [x [b [b' [E1 [E2 [E3 [E4 [E5 E6]]]]]]]].
    exists x, b, b'. repeat split; auto. rewrite <- E1, Ha, E1. exact E3.
  Qed.
  Lemma erel_var : forall n G (S : cident -> Prop) e ce v ty,
    erel n G S e ce -> gl G (new_id v) = Some (mkcb (new_id v) CPrd ty) -> S (new_id v) ->
    exists val pv, flookup e v = Some (FbP val) /\ clookup ce (new_id v) = Some (BP pv) /\
                   vrel p cp n val pv /\ vkind (is_codata cp ty) val.
  Proof.
    intros n G S e ce v ty H Hg Hs. destruct (H (mkcb (new_id v) CPrd ty) Hg Hs) as [x [b [b' [E1 [E2 [E3 [E4 [E5 E6]]]]]]]].
    simpl in E1. apply new_id_inj in E1. subst x. simpl in E6.
    destruct b as [val|k]; [|discriminate]. destruct b' as [pv|kv]; [|contradiction].
    exists val, pv. auto.
  Qed.
  Lemma erel_covar : forall n G (S : cident -> Prop) e ce v ty,
    erel n G S e ce -> gl G (new_id v) = Some (mkcb (new_id v) CCns ty) -> S (new_id v) ->
    exists k kv, flookup e v = Some (FbK k) /\ clookup ce (new_id v) = Some (BK kv) /\ Kb p cp n k kv.
  Proof.
    intros n G S e ce v ty H Hg Hs. destruct (H (mkcb (new_id v) CCns ty) Hg Hs) as [x [b [b' [E1 [E2 [E3 [E4 [E5 E6]]]]]]]].
    simpl in E1. apply new_id_inj in E1. subst x. simpl in E6.
    destruct b as [val|k]; [discriminate|]. destruct b' as [pv|kv]; [contradiction|].
    exists k, kv. auto.
  Qed.
  (* one more source binder *)
  Lemma erel_bind1 : forall n G (S S' : cident -> Prop) e ce v chi ty b b',
    erel n G S e ce -> brel p cp n b b' -> vok (is_codata cp ty) b -> fkind b = chi ->
    (forall x, S' x -> x <> new_id v -> S x) ->
    erel n (mkcb (new_id v) chi ty :: G) S' ((v, b) :: e) ((new_id v, b') :: ce).
  Proof.
    intros n G S S' e ce v chi ty b b' H Hb Hd Hk HS bb Hg Hs. rewrite gl_cons in Hg. simpl in Hg.
    destruct (cident_eqb (new_id v) (cbvar bb)) eqn:E.
    - injection Hg as Hg. subst bb. exists v, b, b'. rewrite flookup_cons, String.eqb_refl.
      rewrite clookup_cons, cid_eqb_refl. simpl. repeat split; auto.
    - apply cid_eqb_neq in E. assert (Hne : cbvar bb <> new_id v) by congruence.
      destruct (H bb Hg (HS _ Hs Hne)) as [x [b0 [b0' [E1 [E2 [E3 [E4 [E5 E6]]]]]]]].
      exists x, b0, b0'. rewrite flookup_cons, clookup_cons.
      assert (Hvx : String.eqb v x = false).
      { apply String.eqb_neq. intros Ev. subst x. apply Hne. exact E1. }
      rewrite Hvx, cid_eqb_new_id, Hvx. repeat split; auto.
  Qed.
  (* one more Core-only (generated) binder *)
  Lemma erel_gen : forall n G (S S' : cident -> Prop) e ce g b',
    erel n G S e ce -> (forall bb, In bb G -> cbvar bb <> g) -> (forall x, S' x -> x <> g -> S x) ->
    erel n G S' e ((g, b') :: ce).
  Proof.
    intros n G S S' e ce g b' H Hg HS bb Hgl Hs.
    assert (Hne : cbvar bb <> g) by (apply Hg; eapply gl_In; exact Hgl).
    destruct (H bb Hgl (HS _ Hs Hne)) as [x [b0 [b0' [E1 [E2 [E3 [E4 [E5 E6]]]]]]]].
    exists x, b0, b0'. rewrite clookup_cons.
    assert (Hgx : cident_eqb g (new_id x) = false) by (apply cid_eqb_neq; congruence).
    rewrite Hgx. repeat split; auto.
  Qed.
  (* a whole context (clause parameters, definition parameters) *)
  Lemma erel_binds : forall n G ctx (S' P : cident -> Prop) vals vals' e ce e1,
    Forall2 (brel p cp n) vals vals' ->
    Forall2 (fun v b => vok (is_codata cp (compile_ty (fbty b))) v) vals ctx ->
    map fkind vals = map (fun b => compile_chi (fbchi b)) ctx ->
    fbind (fvars ctx) vals e = Some e1 ->
    erel n G P e ce ->
    (forall x, S' x -> ~ In x (cvars (compile_ctx ctx)) -> P x) ->
    exists ce1, cbind (cvars (compile_ctx ctx)) vals' ce = Some ce1 /\
                erel n (compile_ctx ctx ++ G) S' e1 ce1 /\
                (forall x, ~ In x (cvars (compile_ctx ctx)) -> clookup ce1 x = clookup ce x).
  Proof.
    intros n G. induction ctx as [|cb r IH]; intros S' P vals vals' e ce e1 Hv Hd Hk Hb He HP.
    - destruct vals as [|v vr]; [|discriminate]. inversion Hv; subst. simpl in Hb. injection Hb as Hb. subst e1.
      exists ce. split; [reflexivity|]. split; [|reflexivity].
      eapply erel_weaken; [exact He | | apply Nat.le_refl]. intros x Hx. apply HP; [exact Hx | exact (fun H => H)].
    - destruct vals as [|v vr]; [discriminate|]. inversion Hv as [|? v' ? vr' Hv1 Hv2]; subst.
      inversion Hd as [|? ? ? ? Hd1 Hd2]; subst. simpl in Hk. injection Hk as Hk1 Hk2.
      simpl in Hb. destruct (fbind (fvars r) vr e) as [er|] eqn:Er; [|discriminate]. injection Hb as Hb. subst e1.
      destruct (IH (fun x => S' x /\ x <> new_id (fbvar cb)) P vr vr' e ce er Hv2 Hd2 Hk2 Er He) as [cer [Hc [Hr Hl]]].
      { intros x [Hx Hne] Hn. apply HP; [exact Hx|]. unfold cvars, compile_ctx. simpl. intros [E|Hin]; [congruence | exact (Hn Hin)]. }
      unfold cvars, compile_ctx in *. simpl. rewrite Hc. eexists. split; [reflexivity|]. split.
      + change (compile_binding cb :: map compile_binding r ++ G) with
          (mkcb (new_id (fbvar cb)) (compile_chi (fbchi cb)) (compile_ty (fbty cb)) :: (map compile_binding r ++ G)).
        eapply erel_bind1; [exact Hr | exact Hv1 | exact Hd1 | exact Hk1 | intros x Hx Hne; split; assumption].
      + intros x Hn. rewrite clookup_cons.
        assert (Hx : cident_eqb (new_id (fbvar cb)) x = false).
        { apply cid_eqb_neq. intros E. apply Hn. left. exact E. }
        rewrite Hx. apply Hl. intros Hin. apply Hn. right. exact Hin.
  Qed.

  (* ---------- Core-only steps ---------- *)
  Definition rreach (r r' : sres) : Prop :=
    exists k, forall m out, crun_res cp (k + m) r out = crun_res cp m r' out.
  Lemma rreach_refl : forall r, rreach r r.
  Proof. intros r. exists 0%nat. reflexivity. Qed.
  Lemma rreach_step : forall c r', rreach (cstep cp c) r' -> rreach (SNext c) r'.
  Proof.
    intros c r' [k H]. exists (S k). intros m out. simpl plus.
    change (crun (S (k + m)) cp c out = crun_res cp m r' out). rewrite crun_S. apply H.
  Qed.
  Lemma rreach_trans : forall r1 r2 r3, rreach r1 r2 -> rreach r2 r3 -> rreach r1 r3.
  Proof.
    intros r1 r2 r3 [k1 H1] [k2 H2]. exists (k1 + k2)%nat. intros m out. rewrite <- Nat.add_assoc, H1. apply H2.
  Qed.
  Lemma rreach_one : forall c, rreach (SNext c) (cstep cp c).
  Proof. intros c. apply rreach_step. apply rreach_refl. Qed.
  Lemma sim_rreach : forall n cf r r', sim p cp n cf r' -> rreach r r' -> sim p cp n cf r.
  Proof.
    intros n cf r r' H [k Hk] out o Hr F. destruct (H out o Hr F) as [m Hm]. exists (k + m)%nat. rewrite Hk. exact Hm.
  Qed.

  (* ---------- continuations ---------- *)
  (* the shapes of the continuations the translation hands down, by the KIND (c = codata?) of the values
     they receive: covariables at both kinds; mu~ and case consumers at data kinds only; destructor
     consumers at codata kinds only *)
  Definition cont_shape (c : bool) (cont : cterm) : Prop :=
    match cont with
    | CXVar _ _ _ => True
    | CXCase _ _ ty => c = false /\ is_codata cp ty = false
    | CMu ch v _ ty => c = false /\ ch = CCns /\ is_codata cp ty = false /\ ~ In v (cnames (fvt cont))
    | CXtor _ _ _ _ => c = true
    | _ => False
    end.
  Lemma cont_shape_cns : forall c cont, cont_shape c cont -> cont_cns cont.
  Proof. intros c cont H. destruct cont; simpl in *; try exact I. tauto. Qed.

  Definition KS (n : nat) (c : bool) (k : fkont) (cont : cterm) (ce : cenv) : Prop :=
    match cont with
    | CMu _ x s _ =>
        forall j, (j < n)%nat -> forall v pv, dval v -> vrel p cp j v pv ->
        forall env, agree (cnames (fvs s)) ((x, BP pv) :: ce) env ->
        sim p cp j (FRet k v) (SNext (Run s env))
    | CXtor _ tag args _ =>
        forall ce', agree (cnames (fvt cont)) ce ce' -> forall m,
        exists kv, rreach (start_args cp args ce' (FinXtorK tag m)) (SNext (App m (BK kv))) /\ Kk p cp n c k kv
    | _ =>
        forall ce', agree (cnames (fvt cont)) ce ce' ->
        exists kv, khead cont ce' = inl kv /\ Kk p cp n c k kv
    end.
  Definition kinds_on (cont : cterm) (ce : cenv) (S : cident -> Prop) : Prop :=
    forall bb, In bb (fvt cont) -> S (cbvar bb) ->
      exists b', clookup ce (cbvar bb) = Some b' /\ ckind b' = cbchi bb.
  Definition CK (n : nat) (c : bool) (k : fkont) (cont : cterm) (ce : cenv) (S : cident -> Prop) : Prop :=
    kinds_on cont ce S /\ ((forall x, In x (cnames (fvt cont)) -> S x) -> KS n c k cont ce).

  (* names of the body of a mu~ other than its variable are names of the mu~ *)
  Lemma mu_body_names : forall c x s ty y, In y (cnames (fvs s)) -> y <> x ->
    In y (cnames (fvt (CMu c x s ty))).
  Proof.
    intros c x s ty y Hy Hne. apply in_cnames_inv in Hy. destruct Hy as [bb [Hb E]]. subst y.
    apply in_cnames. apply fvt_mu_2; [exact Hb|]. intros Eb. subst bb. apply Hne. reflexivity.
  Qed.

  Lemma KS_mono : forall n n' c k cont ce, KS n c k cont ce -> (n' <= n)%nat -> KS n' c k cont ce.
  Proof.
    intros n n' c k cont ce H Hle.
    assert (Hgen : (forall ce', agree (cnames (fvt cont)) ce ce' -> exists kv, khead cont ce' = inl kv /\ Kk p cp n c k kv) ->
                   forall ce', agree (cnames (fvt cont)) ce ce' -> exists kv, khead cont ce' = inl kv /\ Kk p cp n' c k kv).
    { intros H0 ce' Ha. destruct (H0 ce' Ha) as [kv [E1 E2]]. exists kv. split; [exact E1 | eapply Kk_mono; eauto]. }
    destruct cont; unfold KS in *; try (apply Hgen; exact H).
    - intros j Hj. apply H. lia.
    - intros ce' Ha m. destruct (H ce' Ha m) as [kv [E1 E2]]. exists kv. split; [exact E1 | eapply Kk_mono; eauto].
  Qed.
  Lemma KS_agree : forall n c k cont ce ce', cont_shape c cont ->
    KS n c k cont ce -> agree (cnames (fvt cont)) ce ce' -> KS n c k cont ce'.
  Proof.
    intros n c k cont ce ce' Hsh H Ha.
    assert (Hgen : (forall ce', agree (cnames (fvt cont)) ce ce' -> exists kv, khead cont ce' = inl kv /\ Kk p cp n c k kv) ->
                   forall ce'', agree (cnames (fvt cont)) ce' ce'' -> exists kv, khead cont ce'' = inl kv /\ Kk p cp n c k kv).
    { intros H0 ce'' Ha'. apply H0. intros x Hx. rewrite (Ha' x Hx). apply Ha. exact Hx. }
    destruct cont; unfold KS in *; try (apply Hgen; exact H).
    - intros j Hj v0 pv Hd Hv env He. apply (H j Hj v0 pv Hd Hv). intros y Hy. rewrite (He y Hy).
      rewrite !clookup_cons. destruct (cident_eqb v y) eqn:E; [reflexivity|]. apply Ha.
      apply mu_body_names; [exact Hy|]. apply cid_eqb_neq in E. congruence.
    - intros ce'' Ha' m. apply H. intros y Hy. rewrite (Ha' y Hy). apply Ha. exact Hy.
  Qed.
  (* the consumer VALUE a related syntactic continuation of a DATA kind denotes *)
  Lemma KS_head : forall n k cont ce, cont_shape false cont -> KS n false k cont ce ->
    exists kv, khead cont ce = inl kv /\ Kb p cp n k kv.
  Proof.
    intros n k cont ce Hsh H. destruct cont; simpl in Hsh; try contradiction; try discriminate Hsh.
    - apply (H ce). apply agree_refl.
    - simpl in H. exists (KMuT v s ce). split; [reflexivity|]. apply Kb_intro.
      intros j Hj v0 pv Hd Hv. simpl. apply (H j Hj v0 pv Hd Hv). apply agree_refl.
    - apply (H ce). apply agree_refl.
  Qed.

  Lemma CK_transfer : forall n n' c k cont ce ce' (S S' : cident -> Prop), cont_shape c cont ->
    CK n c k cont ce S ->
    (forall x, In x (cnames (fvt cont)) -> S' x -> S x /\ clookup ce' x = clookup ce x) ->
    (n' <= n)%nat -> CK n' c k cont ce' S'.
  Proof.
    intros n n' c k cont ce ce' S S' Hsh [Hk HK] HS Hle. split.
    - intros bb Hb Hs. destruct (HS _ (in_cnames _ _ Hb) Hs) as [Hs1 Ha].
      destruct (Hk bb Hb Hs1) as [b' [E1 E2]]. exists b'. rewrite Ha. auto.
    - intros Hall. eapply KS_mono; [|exact Hle]. eapply KS_agree; [exact Hsh | apply HK |].
      + intros x Hx. apply (HS x Hx (Hall x Hx)).
      + intros x Hx. apply (HS x Hx (Hall x Hx)).
  Qed.

  (* ---------- machine steps that involve the continuation ---------- *)
  Lemma cstep_cut_var : forall cont ce c v ty ty', cont_shape false cont ->
    cstep cp (Run (CCut (CXVar c v ty) ty' cont) ce) =
    match khead cont ce with
    | inl kv => match clookup ce v with
                | Some (BP pv) => interact_val pv kv
                | Some (BK _) => stuck "var-kind"
                | None => stuck "var-unbound"
                end
    | inr why => stuck why
    end.
  Proof. intros cont ce c v ty ty' H. destruct cont; simpl in H; try contradiction; try discriminate H; reflexivity. Qed.
  Lemma cstep_cut_lit : forall cont ce z ty', cont_shape false cont ->
    cstep cp (Run (CCut (CLit z) ty' cont) ce) =
    match khead cont ce with inl kv => interact_val (PInt z) kv | inr why => stuck why end.
  Proof. intros cont ce z ty' H. destruct cont; simpl in H; try contradiction; try discriminate H; reflexivity. Qed.
  Lemma cstep_cut_mu : forall cont ce c a s ty ty', cont_shape false cont ->
    cstep cp (Run (CCut (CMu c a s ty) ty' cont) ce) =
    match khead cont ce with inl kv => interact_mu (is_codata cp ty') a s ce kv | inr why => stuck why end.
  Proof. intros cont ce c a s ty ty' H. destruct cont; simpl in H; try contradiction; try discriminate H; reflexivity. Qed.
  Lemma cstep_cut_op : forall cont ce a o b ty',
    cstep cp (Run (CCut (COp a o b) ty' cont) ce) =
    match cont with
    | CXtor _ tag args _ => start_args cp args ce (FinXtorK tag (MCutP (is_codata cp ty') (COp a o b) ce))
    | _ => SNext (Arg (CProducer a) ce (MOpL o b ce (MCutK cont ce)))
    end.
  Proof. intros. destruct cont; reflexivity. Qed.

  (* a continuation of either kind, evaluated as a consumer argument / met by a head producer *)
  Lemma KS_arg : forall n c k cont ce m, cont_shape c cont -> KS n c k cont ce ->
    exists kv, rreach (cstep cp (Arg (CConsumer cont) ce m)) (SNext (App m (BK kv))) /\ Kk p cp n c k kv.
  Proof.
    intros n c k cont ce m Hsh H. destruct cont; simpl in Hsh; try contradiction.
    - destruct (H ce (agree_refl _ _)) as [kv [Hh Hk]]. exists kv. split; [|exact Hk].
      simpl in *. destruct (clookup ce v) as [[pv|kv']|]; try discriminate. injection Hh as Hh. subst. apply rreach_refl.
    - destruct Hsh as [Ec [_ [Hc _]]]. subst c. exists (KMuT v s ce). split.
      + simpl. rewrite Hc. apply rreach_refl.
      + apply Kk_intro; [discriminate|]. intros j Hj v0 pv Hd Hv. simpl. apply (H j Hj v0 pv Hd Hv). apply agree_refl.
    - subst c. destruct (H ce (agree_refl _ _) m) as [kv [Hr Hk]]. exists kv. split; [exact Hr | exact Hk].
    - destruct (H ce (agree_refl _ _)) as [kv [Hh Hk]]. exists kv. split; [|exact Hk].
      simpl in *. injection Hh as Hh. subst. apply rreach_refl.
  Qed.
  Definition head_producer (pr : cterm) : Prop :=
    match pr with CXVar _ _ _ | CLit _ | CMu _ _ _ _ | CXCase _ _ _ => True | _ => False end.
  Lemma KS_cut : forall n c k cont ce pr ty, cont_shape c cont -> KS n c k cont ce -> head_producer pr ->
    exists kv, rreach (cstep cp (Run (CCut pr ty cont) ce)) (cut_with_k (is_codata cp ty) pr ce kv) /\ Kk p cp n c k kv.
  Proof.
    intros n c k cont ce pr ty Hsh H Hp.
    destruct cont; simpl in Hsh; try contradiction.
    - destruct (H ce (agree_refl _ _)) as [kv [Hh Hk]]. exists kv. split; [|exact Hk].
      destruct pr; simpl in Hp; try contradiction; simpl; simpl in Hh; rewrite Hh; apply rreach_refl.
    - destruct Hsh as [Ec _]. subst c. exists (KMuT v s ce). split.
      + destruct pr; simpl in Hp; try contradiction; apply rreach_refl.
      + apply Kk_intro; [discriminate|]. intros j Hj v0 pv Hd Hv. simpl. apply (H j Hj v0 pv Hd Hv). apply agree_refl.
    - subst c. destruct (H ce (agree_refl _ _) (MCutP (is_codata cp ty) pr ce)) as [kv [Hr Hk]]. exists kv. split; [|exact Hk].
      assert (E : cstep cp (Run (CCut pr ty (CXtor c0 x args t)) ce) =
                  start_args cp args ce (FinXtorK x (MCutP (is_codata cp ty) pr ce))).
      { destruct pr; simpl in Hp; try contradiction; reflexivity. }
      rewrite E. eapply rreach_trans; [exact Hr|]. apply rreach_one.
    - destruct (H ce (agree_refl _ _)) as [kv [Hh Hk]]. exists kv. split; [|exact Hk].
      simpl in Hh. injection Hh as Hh. subst kv.
      destruct pr; simpl in Hp; try contradiction; apply rreach_refl.
  Qed.

  (* the machine continuation "cut the value against cont" (data kinds) *)
  Lemma Kb_mcutk : forall n k cont ce, cont_shape false cont -> KS n false k cont ce -> Kb p cp n k (KRet (MCutK cont ce)).
  Proof.
    intros n k cont ce Hsh H. destruct (KS_head _ _ _ _ Hsh H) as [kv [Hh Hk]].
    apply Kb_intro. intros j Hj v pv Hd Hv. rewrite (dval_interact_ret p cp j v pv _ Hd Hv).
    apply sim_cstep. simpl. rewrite Hh. eapply Kb_use; eauto.
  Qed.
End FLa.
