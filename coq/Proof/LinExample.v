(* A concrete non-trivial program for the Examples of Props/C05.v: `def g` of the design spike
   (DESIGN.md Appendix F: a closure capturing two of four parameters, a switch on a live list, a
   nested continuation closure) plus a `main` that calls it with a duplicated argument. *)
From Coq Require Import String List ZArith NArith Bool.
From SCC Require Import Base.Sexp Lang.AxSyn Sem.AxSem Model.Linearize Model.LinCheck.
Import ListNotations.
Open Scope string_scope.
Open Scope N_scope.

Definition i (n : string) (k : N) : ident := (n, k).
Definition Cont := Decl ("_Cont", 0).
Definition FunT := Decl ("Fun[i64, i64]", 0).
Definition ListT := Decl ("List[i64]", 0).
Definition e (x : ident) := mkb x Ext I64.

Definition g_ctx : ctx := [e (i "a" 2); e (i "b" 3); mkb (i "l" 4) Prd ListT; mkb (i "a0" 5) Cns Cont].
Definition g_body : stmt :=
  Create (i "f" 8) FunT None
    [ (i "apply" 0, [e (i "x" 6); mkb (i "a2" 7) Cns Cont],
        Op (i "x" 6) Sum (i "a" 2) (i "x" 18)
        (Op (i "x" 18) Sum (i "b" 3) (i "x" 20)
        (Invoke (i "a2" 7) (i "Ret" 0) Cont [e (i "x" 20)]))) ]
  (Switch (i "l" 4) ListT
    [ (i "Nil" 0, [], Invoke (i "f" 8) (i "apply" 0) FunT [e (i "b" 3); mkb (i "a0" 5) Cns Cont]);
      (i "Cons" 0, [e (i "y" 9); mkb (i "ys" 10) Prd ListT],
         Create (i "a1" 11) Cont None
           [ (i "Ret" 0, [e (i "x" 19)],
               Op (i "x" 19) Sum (i "a" 2) (i "x" 21)
               (Invoke (i "a0" 5) (i "Ret" 0) Cont [e (i "x" 21)])) ]
           (Invoke (i "f" 8) (i "apply" 0) FunT [e (i "y" 9); mkb (i "a1" 11) Cns Cont])) ]).

(* main(n, k): k0 = { Ret(r) => println r; exit r }; l = Cons(k, Nil); g(n, n, l, k0) *)
Definition main_ctx : ctx := [e (i "n" 22); e (i "k" 23)].
Definition main_body : stmt :=
  Create (i "k0" 24) Cont None
    [ (i "Ret" 0, [e (i "r" 25)], PrintI64 true (i "r" 25) (Exit (i "r" 25))) ]
  (Let (i "nil" 26) ListT (i "Nil" 0) []
  (Let (i "l" 27) ListT (i "Cons" 0) [e (i "k" 23); mkb (i "nil" 26) Prd ListT]
  (Call (i "g" 0) [e (i "n" 22); e (i "n" 22); mkb (i "l" 27) Prd ListT; mkb (i "k0" 24) Cns Cont]))).

Definition ex_types : list tydecl :=
  [ mkt ("_Cont", 0) [mkx (i "Ret" 0) [e (i "x" 0)]];
    mkt ("Fun[i64, i64]", 0) [mkx (i "apply" 0) [e (i "x" 0); mkb (i "a" 0) Cns Cont]];
    mkt ("List[i64]", 0) [mkx (i "Nil" 0) []; mkx (i "Cons" 0) [e (i "x" 0); mkb (i "xs" 0) Prd ListT]] ].

Definition ex_prog : prog :=
  mkp [mkd (i "main" 0) main_ctx main_body; mkd (i "g" 0) g_ctx g_body] ex_types 27.
