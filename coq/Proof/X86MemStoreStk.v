(* `x86_store_full` (Proof/X86MemStoreFull.v) with one more conjunct: the stack words that are not spill slots
   of the frame at sp are unchanged (`stack_frame`, Proof/X86StackFrame.v).  The code of `x_store` writes stack
   memory only when acquire_block puts the new block into a spill slot (MOVS _ STACK (stack_offset q)).
   The lemmas of the dependency cone whose conclusions say nothing about the rest of the stack are proved
   again (same statement + the conjunct `stack_frame s s' sp` at the end, proofs copied and threaded):
     x86_acquire_block_spill_frame_s   (Proof/X86MemFrame.v)
     x86_acquire_block_tpos_ok_s       (Proof/X86MemStore.v)
     x86_store_block_full_s, x86_store_fields_other_full_s, x86_store_full_s   (Proof/X86MemStoreFull.v). *)
From Coq Require Import List ZArith NArith String Bool Lia FMapPositive.
From SCC Require Import Base.Sexp Lang.AxSyn Sem.AxSem Model.Backend Model.X86 Sem.X86Sem Generated.Constants
  Proof.X86State Proof.X86Sel Proof.X86Mem Proof.X86MemFrame Proof.X86MemStore Proof.X86MemStoreChain
  Proof.X86MemLoadChain Proof.X86HeapDefs Proof.X86HeapAcq Proof.X86MemStoreFull Proof.X86StackFrame.
From SCC Require Model.Heap.
Import ListNotations.
Open Scope list_scope.
Open Scope Z_scope.

Lemma stack_frame_sbt s s' sp : same_but_temp s s' -> stack_frame s s' sp.
Proof. intros (_ & E & _). now apply stack_frame_eq. Qed.
Lemma stack_frame_sbtf s s' sp : same_but_temp_free s s' -> stack_frame s s' sp.
Proof. intros (_ & E & _). now apply stack_frame_eq. Qed.

Section StoreStk.
Variable im : image.

Ltac nxt HC k := eapply steps_next; [apply (HC k); reflexivity| |].
Ltac jmp HC k := eapply steps_jump; [apply (HC k); reflexivity| |].
Ltac rg := repeat first [rewrite rget_set_flags | rewrite rget_hset | rewrite rget_sset | rewrite rget_rset_other by (first [congruence|discriminate])].

(* ---------- acquire_block, the new block in a spill slot ---------- *)
Theorem x86_acquire_block_spill_frame_s pos q lc s sp rv h2 F :
  let cs := fst (acquire_block (XS q) lc) in
  code_at im pos cs -> labels_at im pos cs ->
  frame_ok s sp -> slot_ok q ->
  rget s HEAP = Some rv -> is_blk rv -> rget s FREE = Some h2 ->
  (hword s rv = 0 -> is_blk h2) ->
  (hword s rv = 0 -> hword s h2 <> 0 ->
     (forall off, off = 16 \/ off = 32 \/ off = 48 -> hword s (h2 + off) = 0 \/ is_blk (hword s (h2 + off))) /\
     bounded 3 s (hword s h2)) ->
  exists s', steps im pos s (pnth pos (List.length cs)) s' /\
    st_eqB (abs_heap (Heap.frontier (snd (Heap.acquire (abs_heap F s)))) s') (snd (Heap.acquire (abs_heap F s))) /\
    sget s' sp q = Some rv /\ fst (Heap.acquire (abs_heap F s)) = rv /\
    (forall r', r' <> TEMP -> r' <> HEAP -> r' <> FREE -> rget s' r' = rget s r') /\
    (forall q', slot_ok q' -> q' <> q -> sget s' sp q' = sget s sp q') /\ out s' = out s /\ frame_ok s' sp /\ nonblk_same s s' /\
    stack_frame s s' sp.
Proof.
  intros cs HC HL FR Q Hh Hb Hf Hb2 Hch. unfold cs in *. clear cs.
  unfold acquire_block, erase_fields in *. change (nseq 0 FIELDS_PER_BLOCK) with [0;1;2]%N in *.
  cbn [fold_left x_erase_block erase_valid_object if_zero_then_else skip_if_zero compare_immediate fst snd app List.length] in *.
  assert (HA : Heap.heap (abs_heap F s) = rv) by (unfold abs_heap, reg_or0; cbn [Heap.heap]; now rewrite Hh).
  assert (FA : Heap.free (abs_heap F s) = h2) by (unfold abs_heap, reg_or0; cbn [Heap.free]; now rewrite Hf).
  pose proof (blk_heap_addr rv Hb) as Ha.
  set (s0 := rset s TEMP (Some rv)).
  assert (F0 : frame_ok s0 sp) by (apply frame_ok_rset; [discriminate|exact FR]).
  set (s1 := sset s0 sp q (Some rv)).
  set (s2 := rset s1 HEAP (Some (hword s rv))).
  set (s3 := set_flags s2 (Some (hword s rv, 0))).
  assert (P1 : rget s1 HEAP = Some rv) by (unfold s1, s0; rewrite rget_sset, rget_rset_other by discriminate; exact Hh).
  assert (ST3 : forall pc' s', steps im (pnth pos 4) s3 pc' s' -> steps im pos s pc' s').
  { intros pc' s' H.
    nxt HC 0%nat. { cbn [step]. rewrite Hh. reflexivity. }
    nxt HC 1%nat. { rewrite (step_MOVS_slot im s0 sp F0) by exact Q. unfold s0 at 2. rewrite rget_rset_other by discriminate. rewrite Hh. reflexivity. }
    nxt HC 2%nat. { change NEXT_ELEMENT_OFFSET with 0. eapply step_MOVL_heap; [exact P1|rewrite Z.add_0_r; exact Ha]. }
    nxt HC 3%nat. { apply step_CMPI0. rewrite Z.add_0_r. apply rget_rset_same. }
    rewrite Z.add_0_r. exact H. }
  unfold Heap.acquire. rewrite HA, FA.
  change (Heap.hdr (Heap.m (abs_heap F s) rv)) with (hword s rv).
  change (Heap.hdr (Heap.m (abs_heap F s) h2)) with (hword s h2).
  destruct (Z.eqb_spec (hword s rv) 0) as [H0|Hn0]; cbn [negb].
  2:{ (* case 1 *)
    exists (hset s3 rv 0). split; [|split; [|split; [|split; [|split; [|split; [|split; [|split; [|split]]]]]]]].
    - apply ST3.
      nxt HC 4%nat. { rewrite (step_JEL im _ _ (hword s rv) 0) by reflexivity. destruct (Z.eqb_spec (hword s rv) 0); [contradiction|reflexivity]. }
      nxt HC 5%nat. { change REFERENCE_COUNT_OFFSET with 0. eapply step_MOVIM_heap; [|exact Ha|reflexivity].
        unfold s3, s2, s1, s0. rg. apply rget_rset_same. }
      jmp HC 6%nat. { cbn [step]. unfold goto_label. rewrite (HL 54%nat _ eq_refl). reflexivity. }
      nxt HC 54%nat. { reflexivity. }
      apply steps_refl.
    - cbn [snd Heap.frontier]. split; [|split; [|split; [reflexivity|]]].
      + cbn [abs_heap Heap.heap]. unfold reg_or0. rewrite rget_hset. unfold s3, s2. rewrite rget_set_flags, rget_rset_same. reflexivity.
      + cbn [abs_heap Heap.free]. unfold reg_or0. unfold s3, s2, s1, s0. rg. now rewrite Hf.
      + intros x Hx. cbn [abs_heap Heap.m]. change (abs_mem (hset s3 rv 0) x) with (abs_mem (hset s rv 0) x). now apply abs_mem_hset.
    - change (sget (hset s3 rv 0) sp q) with (sget s1 sp q). unfold s1. apply sget_sset_same.
    - reflexivity.
    - intros r' A C D. unfold s3, s2, s1, s0. rg. reflexivity.
    - intros q' Q' N. change (sget (hset s3 rv 0) sp q') with (sget s1 sp q'). unfold s1. rewrite sget_sset_other by (auto; apply FR). apply sget_rset.
    - reflexivity.
    - apply frame_ok_hset, frame_ok_set_flags. unfold s2, s1. apply frame_ok_rset; [discriminate|]. apply frame_ok_sset. exact F0.
    - intros a0 Hnb; exact (nonblk_same_hset s rv 0 Hb a0 Hnb).
    - exact (stack_frame_sset s sp q (Some rv) Q). }
  pose proof (Hb2 H0) as Hbh2. pose proof (blk_heap_addr h2 Hbh2) as Ha2.
  set (s4 := rset s3 HEAP (Some h2)).
  set (s5 := rset s4 FREE (Some (hword s h2))).
  set (s6 := set_flags s5 (Some (hword s h2, 0))).
  assert (P3F : rget s3 FREE = Some h2).
  { unfold s3, s2, s1, s0. rg. exact Hf. }
  assert (P4F : rget s4 FREE = Some h2) by (unfold s4; rewrite rget_rset_other by discriminate; exact P3F).
  assert (ST6 : forall pc' s', steps im (pnth pos 11) s6 pc' s' -> steps im pos s pc' s').
  { intros pc' s' H. apply ST3.
    jmp HC 4%nat. { rewrite (step_JEL im _ _ (hword s rv) 0) by reflexivity. rewrite H0. cbn [Z.eqb]. unfold goto_label. rewrite (HL 7%nat _ eq_refl). reflexivity. }
    nxt HC 7%nat. { reflexivity. }
    nxt HC 8%nat. { cbn [step]. rewrite P3F. reflexivity. }
    nxt HC 9%nat. { change NEXT_ELEMENT_OFFSET with 0. eapply step_MOVL_heap; [exact P4F|rewrite Z.add_0_r; exact Ha2]. }
    nxt HC 10%nat. { apply step_CMPI0. rewrite Z.add_0_r. apply rget_rset_same. }
    rewrite Z.add_0_r. exact H. }
  assert (P6q : sget s6 sp q = Some rv).
  { change (sget s6 sp q) with (sget s1 sp q). unfold s1. apply sget_sset_same. }
  assert (P6s : forall q', slot_ok q' -> q' <> q -> sget s6 sp q' = sget s sp q').
  { intros q' Q' N. change (sget s6 sp q') with (sget s1 sp q'). unfold s1. rewrite sget_sset_other by (auto; apply FR). apply sget_rset. }
  assert (P6k : stack_frame s s6 sp) by exact (stack_frame_sset s sp q (Some rv) Q).
  assert (P6H : rget s6 HEAP = Some h2).
  { unfold s6, s5. rg. apply rget_rset_same. }
  assert (P6o : forall r', r' <> TEMP -> r' <> HEAP -> r' <> FREE -> rget s6 r' = rget s r').
  { intros r' B C D. unfold s6, s5, s4, s3, s2, s1, s0. rg. reflexivity. }
  assert (F6 : frame_ok s6 sp).
  { unfold s6, s5, s4, s3, s2, s1. apply frame_ok_set_flags. apply frame_ok_rset; [discriminate|]. apply frame_ok_rset; [discriminate|].
    apply frame_ok_set_flags. apply frame_ok_rset; [discriminate|]. apply frame_ok_sset. exact F0. }
  destruct (Z.eqb_spec (hword s h2) 0) as [Hf0|Hfn].
  - (* case 3: bump *)
    set (s7 := rset s6 FREE (Some h2)).
    exists (set_flags (rset s7 FREE (Some (wrap (h2 + 64)))) None).
    assert (W : wrap (h2 + 64) = h2 + 64).
    { apply wrap_id. destruct Hbh2 as (k & Hk & -> & Hhi). unfold min_int, max_int, two63, HEAP_BASE, HEAP_SIZE in *. lia. }
    split; [|split; [|split; [|split; [|split; [|split; [|split; [|split; [|split]]]]]]]].
    + apply ST6.
      jmp HC 11%nat. { rewrite (step_JEL im _ _ (hword s h2) 0) by reflexivity. rewrite Hf0. cbn [Z.eqb]. unfold goto_label. rewrite (HL 50%nat _ eq_refl). reflexivity. }
      nxt HC 50%nat. { reflexivity. }
      nxt HC 51%nat. { cbn [step]. rewrite P6H. reflexivity. }
      nxt HC 52%nat. { eapply step_ADDI; [apply rget_rset_same|reflexivity]. }
      nxt HC 53%nat. { reflexivity. }
      nxt HC 54%nat. { reflexivity. }
      apply steps_refl.
    + cbn [snd Heap.frontier]. split; [|split; [|split; [reflexivity|intros; reflexivity]]].
      * cbn [abs_heap Heap.heap]. unfold reg_or0. rewrite rget_set_flags, rget_rset_other by discriminate. unfold s7. rewrite rget_rset_other by discriminate. now rewrite P6H.
      * cbn [abs_heap Heap.free]. unfold reg_or0. rewrite rget_set_flags, rget_rset_same. exact W.
    + exact P6q.
    + reflexivity.
    + intros r' B C D. rewrite rget_set_flags. unfold s7. rewrite !rget_rset_other by (first [congruence|discriminate]). now apply P6o.
    + exact P6s.
    + reflexivity.
    + apply frame_ok_set_flags. unfold s7. do 2 (apply frame_ok_rset; [discriminate|]). exact F6.
    + intros a _; reflexivity.
    + exact P6k.
  - (* case 2: recycle the first deferred block, erase its children *)
    destruct (Hch H0 Hfn) as [Hkids [B1 B2]].
    set (f' := hword s h2) in *.
    set (sm := hset s6 h2 0).
    pose proof (is_blk_nonneg h2 Hbh2) as Hh2nn.
    assert (Wm : forall x, 0 <= x -> x <> h2 -> hword sm x = hword s x).
    { intros x A B. unfold sm. rewrite hword_hset_other by auto. reflexivity. }
    assert (PmH : rget sm HEAP = Some h2) by exact P6H.
    assert (PmF : rget sm FREE = Some f') by (unfold sm, s6, s5; rg; apply rget_rset_same).
    assert (Fm : frame_ok sm sp) by (apply frame_ok_hset; exact F6).
    assert (Bm : bounded 3 sm f').
    { split; [|exact B2]. intros x Hx. destruct (Z.eq_dec x h2) as [->|Hne].
      - unfold sm. rewrite hword_hset_same. unfold min_int, max_int, two63. lia.
      - rewrite Wm by (auto using is_blk_nonneg). now apply B1. }
    set (a1 := {| Heap.m := Heap.set_hdr (Heap.m (abs_heap F s)) h2 0; Heap.heap := h2; Heap.free := f'; Heap.frontier := Heap.frontier (abs_heap F s) |}).
    assert (Em : st_eqB (abs_heap F sm) a1).
    { unfold a1. split; [|split; [|split; [reflexivity|]]].
      - cbn [abs_heap Heap.heap]. unfold reg_or0. now rewrite PmH.
      - cbn [abs_heap Heap.free]. unfold reg_or0. now rewrite PmF.
      - intros x Hx. cbn [abs_heap Heap.m]. change (abs_mem sm x) with (abs_mem (hset s h2 0) x). now apply abs_mem_hset. }
    set (c1 := hword s (h2 + 16)). set (c2 := hword s (h2 + 32)). set (c3 := hword s (h2 + 48)).
    assert (K1 : c1 = 0 \/ is_blk c1) by (apply Hkids; auto).
    assert (K2 : c2 = 0 \/ is_blk c2) by (apply Hkids; auto).
    assert (K3 : c3 = 0 \/ is_blk c3) by (apply Hkids; auto).
    assert (Cm : hword sm (h2 + 16) = c1 /\ hword sm (h2 + 32) = c2 /\ hword sm (h2 + 48) = c3).
    { repeat split; apply Wm; lia. }
    destruct Cm as (Cm1 & Cm2 & Cm3).
    (* the slots of the recycled block are not changed by the erasures *)
    assert (Slots : forall s' a, st_eqB (abs_heap F s') (Heap.erase a (abs_heap F sm)) ->
              hword s' (h2 + 16) = c1 /\ hword s' (h2 + 32) = c2 /\ hword s' (h2 + 48) = c3).
    { intros s' a (_ & _ & _ & E). specialize (E h2 Hbh2). apply (f_equal Heap.ps) in E. rewrite erase_ps_abs in E.
      cbn [abs_heap Heap.m abs_mem Heap.ps] in E. inversion E. rewrite Cm1, Cm2, Cm3 in *. auto. }
    (* first child *)
    assert (HC1 : code_at im (pnth pos 13) (MOVL TEMP HEAP 16 :: fst (x_erase_block (XR TEMP) lc))) by (apply (code_at_slice _ _ _ 13 _ HC); reflexivity).
    assert (HL1 : labels_at im (pnth pos 13) (MOVL TEMP HEAP 16 :: fst (x_erase_block (XR TEMP) lc))) by (apply (labels_at_slice _ _ _ 13 _ HL); reflexivity).
    destruct (x86_erase_field_frame im (pnth pos 13) 16 lc sm sp h2 f' F HC1 HL1 ltac:(auto) Fm PmH Hbh2 PmF) as (se1 & ST1 & EQ1 & SB1 & FR1 & FREE1 & NB1).
    { rewrite Cm1. exact K1. }
    { rewrite Cm1. intros A B. apply wrap_id. destruct K1 as [|Kb]; [contradiction|]. pose proof (proj1 Bm c1 Kb). lia. }
    rewrite Cm1 in *.
    assert (Efm : Heap.free (abs_heap F sm) = f') by (destruct Em as (_ & E & _); exact E).
    set (am := abs_heap F sm) in *.
    pose proof (bounded_after_erase F 2 sm f' se1 c1 Bm ltac:(lia) Efm K1 EQ1) as Bd1. fold am in Bd1.
    destruct (Slots se1 c1 EQ1) as (_ & S12 & S13).
    assert (P1H : rget se1 HEAP = Some h2) by (destruct SB1 as (A & _); rewrite A by discriminate; exact PmH).
    (* second child *)
    assert (HC2 : code_at im (pnth pos 25) (MOVL TEMP HEAP 32 :: fst (x_erase_block (XR TEMP) (lc + 2 + 1)))) by (apply (code_at_slice _ _ _ 25 _ HC); reflexivity).
    assert (HL2 : labels_at im (pnth pos 25) (MOVL TEMP HEAP 32 :: fst (x_erase_block (XR TEMP) (lc + 2 + 1)))) by (apply (labels_at_slice _ _ _ 25 _ HL); reflexivity).
    destruct (x86_erase_field_frame im (pnth pos 25) 32 (lc + 2 + 1) se1 sp h2 _ F HC2 HL2 ltac:(auto) FR1 P1H Hbh2 FREE1) as (se2 & ST2 & EQ2 & SB2 & FR2 & FREE2 & NB2).
    { rewrite S12. exact K2. }
    { rewrite S12. intros A B. apply wrap_id. destruct K2 as [|Kb]; [contradiction|]. pose proof (proj1 Bd1 c2 Kb). lia. }
    rewrite S12 in *.
    assert (EQ2' : st_eqB (abs_heap F se2) (Heap.erase c2 (Heap.erase c1 am))).
    { eapply st_eqB_trans; [exact EQ2|]. apply erase_st_eqB; auto. }
    assert (Ef1 : Heap.free (abs_heap F se1) = Heap.free (Heap.erase c1 am)) by (destruct EQ1 as (_ & E & _); exact E).
    pose proof (bounded_after_erase F 1 se1 _ se2 c2 Bd1 ltac:(lia) Ef1 K2 EQ2) as Bd2.
    assert (S23 : hword se2 (h2 + 48) = c3).
    { destruct EQ2' as (_ & _ & _ & E). specialize (E h2 Hbh2). apply (f_equal Heap.ps) in E. rewrite !erase_ps_abs in E.
      unfold am in E. cbn [abs_heap Heap.m abs_mem Heap.ps] in E. inversion E. rewrite Cm3 in *. auto. }
    assert (P2H : rget se2 HEAP = Some h2) by (destruct SB2 as (A & _); rewrite A by discriminate; exact P1H).
    (* third child *)
    assert (HC3 : code_at im (pnth pos 37) (MOVL TEMP HEAP 48 :: fst (x_erase_block (XR TEMP) (lc + 2 + 1 + 2 + 1)))) by (apply (code_at_slice _ _ _ 37 _ HC); reflexivity).
    assert (HL3 : labels_at im (pnth pos 37) (MOVL TEMP HEAP 48 :: fst (x_erase_block (XR TEMP) (lc + 2 + 1 + 2 + 1)))) by (apply (labels_at_slice _ _ _ 37 _ HL); reflexivity).
    destruct (x86_erase_field_frame im (pnth pos 37) 48 (lc + 2 + 1 + 2 + 1) se2 sp h2 _ F HC3 HL3 ltac:(auto) FR2 P2H Hbh2 FREE2) as (se3 & ST3' & EQ3 & SB3 & FR3 & FREE3 & NB3).
    { rewrite S23. exact K3. }
    { rewrite S23. intros A B. apply wrap_id. destruct K3 as [|Kb]; [contradiction|]. pose proof (proj1 Bd2 c3 Kb). lia. }
    rewrite S23 in *.
    assert (EQ3' : st_eqB (abs_heap F se3) (Heap.erase c3 (Heap.erase c2 (Heap.erase c1 a1)))).
    { eapply st_eqB_trans; [exact EQ3|]. apply erase_st_eqB; auto.
      eapply st_eqB_trans; [exact EQ2'|]. apply erase_st_eqB; auto. apply erase_st_eqB; auto. }
    exists se3. split; [|split; [|split; [|split; [|split; [|split; [|split; [|split; [|split]]]]]]]].
    + apply ST6.
      nxt HC 11%nat. { rewrite (step_JEL im _ _ (hword s h2) 0) by reflexivity. fold f'. destruct (Z.eqb_spec f' 0); [contradiction|reflexivity]. }
      nxt HC 12%nat. { change NEXT_ELEMENT_OFFSET with 0. eapply step_MOVIM_heap; [exact P6H|exact Ha2|reflexivity]. }
      fold sm.
      eapply steps_trans; [exact ST1|]. eapply steps_trans; [exact ST2|]. eapply steps_trans; [exact ST3'|].
      jmp HC 49%nat. { cbn [step]. unfold goto_label. rewrite (HL 53%nat _ eq_refl). reflexivity. }
      nxt HC 53%nat. { reflexivity. }
      nxt HC 54%nat. { reflexivity. }
      apply steps_refl.
    + cbn [snd]. cbn [abs_heap Heap.m abs_mem Heap.ps fold_left]. fold c1 c2 c3. fold f'.
      assert (FE : Heap.frontier (Heap.erase c3 (Heap.erase c2 (Heap.erase c1 a1))) = F).
      { destruct EQ3' as (_ & _ & E & _). rewrite <- E. reflexivity. }
      change {| Heap.m := Heap.set_hdr (abs_mem s) h2 0; Heap.heap := h2; Heap.free := f'; Heap.frontier := F |} with a1.
      rewrite FE. exact EQ3'.
    + destruct SB3 as (_ & A3 & _), SB2 as (_ & A2 & _), SB1 as (_ & A1 & _). unfold sget. rewrite A3, A2, A1. exact P6q.
    + reflexivity.
    + intros r' B C D. destruct SB3 as (A3 & _), SB2 as (A2 & _), SB1 as (A1 & _). rewrite A3, A2, A1 by auto. unfold sm. rewrite rget_hset. now apply P6o.
    + intros q' Q' N. destruct SB3 as (_ & A3 & _), SB2 as (_ & A2 & _), SB1 as (_ & A1 & _). unfold sget. rewrite A3, A2, A1. now apply P6s.
    + destruct SB3 as (_ & _ & A3), SB2 as (_ & _ & A2), SB1 as (_ & _ & A1). rewrite A3, A2, A1. reflexivity.
    + exact FR3.
    + eapply nonblk_same_trans; [|exact NB3]. eapply nonblk_same_trans; [|exact NB2]. eapply nonblk_same_trans; [|exact NB1].
      intros a0 Hnb; exact (nonblk_same_hset s h2 0 Hbh2 a0 Hnb).
    + destruct SB3 as (_ & A3 & _), SB2 as (_ & A2 & _), SB1 as (_ & A1 & _). intros k Hk. rewrite A3, A2, A1. exact (P6k k Hk).
Qed.

(* ---------- acquire_block into the temporary of a position (register or spill slot) ---------- *)
Lemma x86_acquire_block_tpos_ok_s pos k lc s sp rv h2 F :
  let cs := fst (acquire_block (tpos k) lc) in
  (k < MAXPOS)%N ->
  code_at im pos cs -> labels_at im pos cs -> frame_ok s sp ->
  rget s HEAP = Some rv -> is_blk rv -> rget s FREE = Some h2 ->
  (hword s rv = 0 -> is_blk h2) ->
  (hword s rv = 0 -> hword s h2 <> 0 ->
     (forall off, off = 16 \/ off = 32 \/ off = 48 -> hword s (h2 + off) = 0 \/ is_blk (hword s (h2 + off))) /\
     bounded 3 s (hword s h2)) ->
  exists s', steps im pos s (pnth pos (List.length cs)) s' /\
    st_eqB (abs_heap (Heap.frontier (snd (Heap.acquire (abs_heap F s)))) s') (snd (Heap.acquire (abs_heap F s))) /\
    lget s' sp (tpos k) = Some rv /\ fst (Heap.acquire (abs_heap F s)) = rv /\
    (forall l, loc_ok l -> l <> tpos k -> l <> XR TEMP -> l <> XR HEAP -> l <> XR FREE -> lget s' sp l = lget s sp l) /\
    out s' = out s /\ frame_ok s' sp /\ nonblk_same s s' /\ stack_frame s s' sp.
Proof.
  intros cs Hk HC HL FR R Hb Rf Hb2 Hch. unfold cs in *. clear cs.
  pose proof (tpos_loc_ok k Hk) as LK. destruct (tpos_not_reserved k) as (N0 & NT & NH & NF & _).
  destruct (tpos k) as [r|q] eqn:Et; cbn [loc_ok] in LK.
  - destruct (x86_acquire_block_reg_frame im pos r lc s sp rv h2 F HC HL FR) as (s' & ST & EQ & Rr & Ef & Oth & Stk & Out & FR' & NB); auto; try congruence.
    exists s'. split; [exact ST|]. split; [exact EQ|]. split; [exact Rr|]. split; [exact Ef|]. split; [|auto using stack_frame_eq].
    intros l Ll N1 N2 N3 N4. destruct l as [r'|q']; cbn [lget].
    + apply Oth; congruence.
    + unfold sget. now rewrite Stk.
  - destruct (x86_acquire_block_spill_frame_s pos q lc s sp rv h2 F HC HL FR LK R Hb Rf Hb2 Hch) as (s' & ST & EQ & Rr & Ef & Oth & Slots & Out & FR' & NB & SF).
    exists s'. split; [exact ST|]. split; [exact EQ|]. split; [exact Rr|]. split; [exact Ef|]. split; [|auto].
    intros l Ll N1 N2 N3 N4. destruct l as [r'|q']; cbn [lget loc_ok] in *.
    + apply Oth; congruence.
    + apply Slots; auto. congruence.
Qed.

(* ---------- one round of store_fields ---------- *)
Lemma x86_store_block_full_s pos bp to_store remaining lc c0 sv s sp F val link :
  let E := List.length remaining in
  let n := List.length to_store in
  let cap := (3 - bp_n bp)%N in
  let rl := rest_len n cap in
  let k := (2 * N.of_nat (E + rl))%N in
  let acq := fst (acquire_block (tpos k) lc) in
  to_store <> [] ->
  link_code bp remaining to_store = Ok c0 ->
  store_values (rev (skipn rl to_store)) (remaining ++ firstn rl to_store) HEAP cap = Ok sv ->
  (k < MAXPOS)%N ->
  code_at im pos (c0 ++ sv ++ acq) -> labels_at im pos (c0 ++ sv ++ acq) ->
  frame_ok s sp -> vals_ok s sp val E to_store ->
  (bp = Other -> lget s sp (tpos (2 * N.of_nat (E + n))) = Some link) ->
  acq_ok (abs_heap F s) ->
  let P := Heap.pad (N.to_nat cap) (Heap.lastn (N.to_nat cap) (fsts val E to_store)) ++ (match bp with Other => [link] | Last => [] end) in
  let res := Heap.alloc P (abs_heap F s) in
  let rv := Heap.heap (abs_heap F s) in
  exists s', steps im pos s (pnth pos (List.length (c0 ++ sv ++ acq))) s' /\
    st_eqB (abs_heap (Heap.frontier (snd res)) s') (snd res) /\
    lget s' sp (tpos k) = Some (fst res) /\ is_blk (fst res) /\
    (forall k', (k' < MAXPOS)%N -> k' <> k -> lget s' sp (tpos k') = lget s sp (tpos k')) /\
    out s' = out s /\ frame_ok s' sp /\
    fst res = rv /\
    blk_words (hword s') val (E + rl) (skipn rl to_store) rv (N.to_nat cap) /\
    (bp = Other -> hword s' (rv + 48) = link) /\
    (forall a, ~ is_blk a -> a < rv \/ rv + 64 <= a -> hword s' a = hword s a) /\
    stack_frame s s' sp.
Proof.
  intros E n cap rl k acq Hne Hc0 Hsv Hk HC HL FR V Hlink AOK P res rv0.
  destruct (acq_ok_machine F s AOK) as (rv & h2 & R & Hb & Rf & Hb2 & Hch).
  assert (Erv : rv0 = rv) by (unfold rv0; cbn [abs_heap Heap.heap]; unfold reg_or0; now rewrite R).
  rewrite Erv. clear Erv rv0.
  assert (Hcap : (cap = 3 \/ cap = 2)%N) by (unfold cap; destruct bp; cbn; auto).
  assert (Hrl : rl = (n - N.to_nat cap)%nat) by apply rest_len_val.
  assert (Hrln : (rl <= n)%nat) by lia.
  assert (Lfirst : List.length (firstn rl to_store) = rl) by (rewrite firstn_length; fold n; lia).
  assert (Lnext : List.length (skipn rl to_store) = (n - rl)%nat) by (rewrite skipn_length; reflexivity).
  assert (Lrr : List.length (remaining ++ firstn rl to_store) = (E + rl)%nat) by (rewrite app_length, Lfirst; reflexivity).
  apply code_at_app2 in HC as [HC0 HC]. apply labels_at_app2 in HL as [_ HL].
  apply code_at_app2 in HC as [HC1 HC2]. apply labels_at_app2 in HL as [_ HL2].
  (* the link *)
  assert (S0 : exists s0, steps im pos s (pnth pos (List.length c0)) s0 /\ same_but_temp s s0 /\
            (forall a, hword s0 a = if (match bp with Other => true | Last => false end) && (a =? rv + 48) then link else hword s a)).
  { destruct bp; cbn [link_code] in Hc0.
    - inversion Hc0; subst c0. exists s. split; [apply steps_refl|]. split; [apply same_but_temp_refl|]. reflexivity.
    - change (FIELDS_PER_BLOCK - 1)%N with 2%N in Hc0. apply store_field_shape in Hc0 as [K0 ->].
      rewrite app_length in *. cbn [tnum_n] in *. rewrite N.add_0_r in *. fold E n in K0, HC0 |- *.
      destruct (x86_store_field_code_ok im pos _ HEAP _ s sp link rv HC0 FR (tpos_loc_ok _ K0) (Hlink eq_refl) ltac:(discriminate) R)
        as (s0 & ST0 & SB0 & W0).
      { apply field_addr; auto. lia. }
      exists s0. split; [exact ST0|]. split; [exact SB0|]. intros a. rewrite W0. rewrite fo_F2. reflexivity. }
  destruct S0 as (s0 & ST0 & SB0 & W0).
  assert (FR0 : frame_ok s0 sp) by (eapply same_but_temp_frame; eauto).
  assert (R0 : rget s0 HEAP = Some rv) by (destruct SB0 as (A & _); rewrite A by discriminate; exact R).
  assert (W0' : forall a, a <> rv + 48 -> hword s0 a = hword s a).
  { intros a Ha. rewrite W0. destruct (Z.eqb_spec a (rv + 48)); [contradiction|]. now rewrite andb_false_r. }
  (* the values *)
  assert (V0 : vals_ok s0 sp val (E + rl) (skipn rl to_store)).
  { eapply vals_ok_same; [exact SB0|]. rewrite <- Lfirst at 1. apply (vals_ok_app_r s sp val E (firstn rl to_store)).
    now rewrite firstn_skipn. }
  rewrite <- Lrr in V0.
  destruct (x86_store_values_ok im _ (skipn rl to_store) (remaining ++ firstn rl to_store) cap sv s0 sp rv F val Hsv Hcap
              ltac:(rewrite Lnext; lia) HC1 FR0 R0 Hb V0) as (s1 & ST1 & SB1 & St & EQ1).
  rewrite Lrr in St, EQ1.
  assert (Hff : (cap <= 3)%N) by (destruct Hcap as [-> | ->]; lia).
  assert (SB01 : same_but_temp s s1) by (eapply same_but_temp_trans; eassumption).
  assert (FR1 : frame_ok s1 sp) by (eapply same_but_temp_frame; eauto).
  assert (R1 : rget s1 HEAP = Some rv) by (destruct SB01 as (A & _); rewrite A by discriminate; exact R).
  assert (Rf1 : rget s1 FREE = Some h2) by (destruct SB01 as (A & _); rewrite A by discriminate; exact Rf).
  assert (Hdr : forall x, is_blk x -> hword s1 x = hword s x).
  { intros x Hx. rewrite (stored_blk_hdr _ _ _ _ _ _ _ x St Hff Hb Hx). apply W0'.
    destruct (Z.eq_dec x rv) as [->|Hne']; [lia|]. destruct (is_blk_apart x rv Hx Hb Hne'); lia. }
  assert (Hoth : forall x i, is_blk x -> x <> rv -> 0 <= i < 64 -> hword s1 (x + i) = hword s (x + i)).
  { intros x i Hx Hne' Hi. rewrite (stored_other_blk _ _ _ _ _ _ _ x i St Hff Hb Hx Hne' Hi). apply W0'.
    destruct (is_blk_apart x rv Hx Hb Hne'); lia. }
  assert (Hb21 : hword s1 rv = 0 -> is_blk h2) by (rewrite Hdr by auto; exact Hb2).
  assert (Hch1 : hword s1 rv = 0 -> hword s1 h2 <> 0 ->
     (forall off, off = 16 \/ off = 32 \/ off = 48 -> hword s1 (h2 + off) = 0 \/ is_blk (hword s1 (h2 + off))) /\
     bounded 3 s1 (hword s1 h2)).
  { intros H0 Hn0. pose proof (Hb21 H0) as Hbh2.
    assert (Hne' : h2 <> rv) by (intros ->; contradiction).
    rewrite Hdr in H0, Hn0 by auto. destruct (Hch H0 Hn0) as [Kids [B1 B2]]. split.
    - intros off Hoff. rewrite Hoth by (auto; lia). now apply Kids.
    - rewrite Hdr by auto. split; [|exact B2]. intros x Hx. rewrite Hdr by auto. now apply B1. }
  fold k in HC2, HL2.
  destruct (x86_acquire_block_tpos_ok_s _ k lc s1 sp rv h2 F Hk HC2 HL2 FR1 R1 Hb Rf1 Hb21 Hch1)
    as (s2 & ST2 & EQ2 & Rr & Ef & Oth & Out & FR2 & NB & SF2).
  (* the abstract side *)
  assert (RH : reg_or0 s HEAP = rv) by (unfold reg_or0; now rewrite R).
  assert (RF : reg_or0 s FREE = h2) by (unfold reg_or0; now rewrite Rf).
  assert (RH0 : reg_or0 s0 HEAP = rv) by (unfold reg_or0; now rewrite R0).
  assert (RF0 : reg_or0 s0 FREE = h2) by (unfold reg_or0; destruct SB0 as (A & _); rewrite A by discriminate; now rewrite Rf).
  assert (EP : Heap.pad (N.to_nat cap) (fsts val (E + rl) (skipn rl to_store)) ++ link_slot cap (hword s0) rv = P).
  { unfold P. f_equal.
    - f_equal. rewrite fsts_skipn by (fold n; lia). unfold Heap.lastn. rewrite fsts_length. fold n. now rewrite Hrl.
    - unfold link_slot, cap. destruct bp; cbn [bp_n N.sub N.eqb Pos.eqb]; [reflexivity|].
      rewrite W0, Z.eqb_refl. reflexivity. }
  rewrite EP, RH0, RF0 in EQ1.
  set (A := {| Heap.m := Heap.set_ps (abs_mem s) rv P; Heap.heap := rv; Heap.free := h2; Heap.frontier := F |}).
  assert (Eres : res = Heap.acquire A).
  { unfold res, Heap.alloc, A. cbn [abs_heap Heap.m Heap.heap Heap.free Heap.frontier]. now rewrite RH, RF. }
  assert (EQ1' : st_eqB (abs_heap F s1) A).
  { eapply st_eqB_trans; [exact EQ1|]. split; [reflexivity|]. split; [reflexivity|]. split; [reflexivity|].
    intros x Hx. unfold A. cbn [Heap.m]. unfold Heap.set_ps, Heap.upd.
    destruct (Z.eqb_spec x rv) as [->|Hne'].
    - unfold abs_mem. cbn [Heap.hdr]. rewrite W0' by lia. reflexivity.
    - unfold abs_mem. destruct (is_blk_apart x rv Hx Hb Hne'); rewrite !W0' by lia; reflexivity. }
  destruct (acquire_st_eqB (abs_heap F s1) A EQ1') as [Efst Esnd].
  { cbn [abs_heap Heap.heap]. unfold reg_or0. now rewrite R1. }
  { cbn [abs_heap Heap.heap Heap.free Heap.m]. unfold reg_or0. rewrite R1, Rf1. exact Hb21. }
  { cbn [abs_heap Heap.heap Heap.free Heap.m]. unfold reg_or0. rewrite R1, Rf1. intros H0 Hn0.
    destruct (Hch1 H0 Hn0) as [Kids _]. cbn [abs_mem Heap.ps]. repeat (apply Forall_cons; [apply Kids; auto|]). apply Forall_nil. }
  assert (EFr : Heap.frontier (snd (Heap.acquire (abs_heap F s1))) = Heap.frontier (snd (Heap.acquire A)))
    by (destruct Esnd as (_ & _ & X & _); exact X).
  clearbody res. subst res.
  destruct St as (S1 & S2 & S3).
  exists s2. split; [|split; [|split; [|split; [|split; [|split; [|split; [|split; [|split; [|split; [|split]]]]]]]]]].
  - rewrite !app_length, <- !pnth_add. eapply steps_trans; [exact ST0|]. eapply steps_trans; [exact ST1|]. exact ST2.
  - rewrite <- EFr. eapply st_eqB_trans; eassumption.
  - rewrite <- Efst, Ef. exact Rr.
  - rewrite <- Efst, Ef. exact Hb.
  - intros k' Hk' Hne'. rewrite Oth.
    + apply same_but_temp_lget; [exact SB01|apply tpos_not_temp].
    + now apply tpos_loc_ok.
    + intro Eq. apply tpos_inj in Eq. contradiction.
    + apply tpos_not_reserved.
    + apply tpos_not_reserved.
    + apply tpos_not_reserved.
  - rewrite Out. destruct SB01 as (_ & _ & X). exact X.
  - exact FR2.
  - rewrite <- Efst. exact Ef.
  - split.
    + intros i b Hi. assert (Hil : (i < n - rl)%nat) by (rewrite <- Lnext; apply nth_error_Some; congruence).
      destruct (S1 i b Hi) as [A1 A2]. rewrite field_offset_val in A1, A2. cbn [tnum_n] in A1, A2.
      rewrite Lnext in *.
      assert (EA : rv + 16 + 16 * Z.of_nat (N.to_nat cap - (n - rl) + i)
                   = rv + (16 + 16 * Z.of_N (cap - N.of_nat (n - rl) + N.of_nat i) + 8 * Z.of_N 0)) by lia.
      assert (EB : rv + 16 + 16 * Z.of_nat (N.to_nat cap - (n - rl) + i) + 8
                   = rv + (16 + 16 * Z.of_N (cap - N.of_nat (n - rl) + N.of_nat i) + 8 * Z.of_N 1)) by lia.
      rewrite EB, EA. rewrite !NB by (apply not_blk_off; [exact Hb|lia]). auto.
    + intros j Hj. rewrite Lnext in *. specialize (S2 (N.of_nat j) ltac:(lia)).
      rewrite field_offset_val in S2. cbn [tnum_n] in S2.
      replace (rv + 16 + 16 * Z.of_nat j) with (rv + (16 + 16 * Z.of_N (N.of_nat j) + 8 * Z.of_N 0)) by lia.
      rewrite NB by (apply not_blk_off; [exact Hb|lia]). exact S2.
  - intros ->. rewrite NB by (apply not_blk_off; [exact Hb|lia]).
    rewrite S3 by (change (3 - bp_n Other)%N with 2%N in *; lia).
    rewrite W0, Z.eqb_refl. reflexivity.
  - intros a Ha Hout. rewrite NB by exact Ha. rewrite S3 by lia. apply W0'. lia.
  - eapply stack_frame_trans; [apply stack_frame_sbt; exact SB01|exact SF2].
Qed.

(* ---------- the continuation blocks (BlockPosition::Other) ---------- *)
Lemma x86_store_fields_other_full_s : forall fuel to_store remaining lc cs lc' pos s sp F val link fa done kk,
  store_fields fuel to_store remaining Other lc = Ok (cs, lc') ->
  (List.length to_store < fuel)%nat -> (List.length to_store <= fa)%nat ->
  code_at im pos cs -> labels_at im pos cs -> frame_ok s sp ->
  vals_ok s sp val (List.length remaining) to_store ->
  lget s sp (tpos (2 * N.of_nat (List.length remaining + List.length to_store))) = Some link ->
  chain_pre fa (fsts val (List.length remaining) to_store) link (abs_heap F s) ->
  let acq := chain_acq fa (fsts val (List.length remaining) to_store) link (abs_heap F s) in
  let bl := wblocks kk (hword s) link in
  NoDup acq -> Forall is_blk bl -> (forall b, In b acq -> ~ In b bl) ->
  chain_holds (hword s) val (List.length remaining + List.length to_store) done kk link ->
  (to_store <> [] -> List.length done = (2 * kk + 3)%nat) ->
  let res := Heap.store_other fa (fsts val (List.length remaining) to_store) link (abs_heap F s) in
  let K := (kk + nbo (List.length to_store))%nat in
  exists s', steps im pos s (pnth pos (List.length cs)) s' /\
    st_eqB (abs_heap (Heap.frontier (snd res)) s') (snd res) /\
    lget s' sp (tpos (2 * N.of_nat (List.length remaining))) = Some (fst res) /\
    (forall k, (k < 2 * N.of_nat (List.length remaining))%N -> lget s' sp (tpos k) = lget s sp (tpos k)) /\
    out s' = out s /\ frame_ok s' sp /\
    wblocks K (hword s') (fst res) = rev acq ++ bl /\
    Forall is_blk (rev acq ++ bl) /\
    chain_holds (hword s') val (List.length remaining) (to_store ++ done) K (fst res) /\
    (forall a, ~ is_blk a -> (forall b, In b acq -> a < b \/ b + 64 <= a) -> hword s' a = hword s a) /\
    stack_frame s s' sp.
Proof.
  induction fuel as [|fuel IH]; intros to_store remaining lc cs lc' pos s sp F val link fa done kk Hsf Hfuel Hfa HC HL FR V Hlink Pre acq bl
    ND Hbl Hdisj CH Hfull res K; [lia|].
  set (E := List.length remaining) in *.
  destruct to_store as [|x r].
  - cbn [store_fields] in Hsf. inversion Hsf; subst cs lc'. cbn [List.length] in Hlink, CH. rewrite Nat.add_0_r in Hlink, CH.
    assert (Hres : res = (link, abs_heap F s)) by (unfold res; destruct fa; reflexivity).
    assert (Hacq : acq = []) by (unfold acq; destruct fa; reflexivity).
    assert (HK : K = kk) by (unfold K; cbn [List.length]; change (nbo 0) with 0%nat; lia).
    rewrite Hres, Hacq, HK. cbn [fst snd abs_heap Heap.frontier List.length pnth rev app].
    exists s. split; [apply steps_refl|]. split; [apply st_eqB_refl|]. repeat (split; [auto; fail|]). apply stack_frame_refl.
  - set (to_store := x :: r) in *. set (n := List.length to_store) in *.
    destruct (store_fields_unfold fuel to_store remaining Other lc cs lc' ltac:(discriminate) Hsf) as (c0 & sv & c3 & Hc0 & Hsv & Hk & Hsf3 & ->).
    change (3 - bp_n Other)%N with 2%N in *. fold n in Hk, Hsv, Hsf3, HC, HL |- *.
    set (rl := rest_len n 2) in *.
    assert (Hn1 : (1 <= n)%nat) by (unfold n, to_store; cbn [List.length]; lia).
    assert (Hrl : rl = (n - 2)%nat) by apply rest_len_val.
    assert (Lfirst : List.length (firstn rl to_store) = rl) by (rewrite firstn_length; fold n; lia).
    assert (Lnext : List.length (skipn rl to_store) = (n - rl)%nat) by (rewrite skipn_length; reflexivity).
    assert (Lrr : List.length (remaining ++ firstn rl to_store) = (E + rl)%nat) by (rewrite app_length, Lfirst; reflexivity).
    rewrite Lrr in *.
    destruct fa as [|fa]; [unfold n, to_store in Hfa; cbn [List.length] in Hfa; lia|].
    set (fields := fsts val E to_store) in *.
    assert (Hfne : fields <> []) by (unfold fields, to_store; cbn [fsts]; discriminate).
    assert (Lfields : List.length fields = n) by apply fsts_length.
    set (P := Heap.pad 2 (Heap.lastn 2 fields) ++ [link]) in *.
    assert (Pre' : acq_ok (abs_heap F s) /\ chain_pre fa (Heap.butlastn 2 fields) (fst (Heap.alloc P (abs_heap F s))) (snd (Heap.alloc P (abs_heap F s)))).
    { cbn [chain_pre] in Pre. destruct fields; [contradiction|]. exact Pre. }
    destruct Pre' as [AOK Pre'].
    assert (Hres : res = Heap.store_other fa (Heap.butlastn 2 fields) (fst (Heap.alloc P (abs_heap F s))) (snd (Heap.alloc P (abs_heap F s))))
      by (unfold res; now rewrite store_other_step).
    assert (Hacq : acq = Heap.heap (abs_heap F s) ::
                     chain_acq fa (Heap.butlastn 2 fields) (fst (Heap.alloc P (abs_heap F s))) (snd (Heap.alloc P (abs_heap F s)))).
    { unfold acq. cbn [chain_acq]. destruct fields; [contradiction|]. reflexivity. }
    rewrite Hres. clear Hres res. rewrite Hacq in ND, Hdisj |- *. clear Hacq acq.
    rewrite !app_assoc in HC, HL. apply code_at_app2 in HC as [HC1 HC3]. apply labels_at_app2 in HL as [HL1 HL3].
    rewrite <- !app_assoc in HC1, HL1. rewrite <- (app_assoc c0 sv) in HC3, HL3.
    destruct (x86_store_block_full_s pos Other to_store remaining lc c0 sv s sp F val link ltac:(discriminate) Hc0 Hsv Hk HC1 HL1 FR V (fun _ => Hlink) AOK)
      as (s2 & ST2 & EQ2 & Rr & Bb & Oth & Out & FR2 & Erv & BW & LK & Fr2 & SF2).
    specialize (LK eq_refl).
    change (N.to_nat (3 - bp_n Other)) with 2%nat in *. change (3 - bp_n Other)%N with 2%N in *. fold E n rl fields P in ST2, EQ2, Rr, Bb, Oth, Erv, BW.
    set (b := fst (Heap.alloc P (abs_heap F s))) in *. set (a1 := snd (Heap.alloc P (abs_heap F s))) in *.
    set (rv := Heap.heap (abs_heap F s)) in *. rewrite <- Erv in BW, LK, Fr2, ND, Hdisj |- *. clear Erv rv.
    assert (Hbut : Heap.butlastn 2 fields = fsts val E (firstn rl to_store)).
    { unfold Heap.butlastn. rewrite Lfields, fsts_firstn, Hrl. reflexivity. }
    rewrite Hbut in *.
    assert (V2 : vals_ok s2 sp val E (firstn rl to_store)).
    { intros i bb Hi. assert (Hi' : (i < rl)%nat) by (rewrite <- Lfirst; apply nth_error_Some; congruence).
      assert (Hin : nth_error to_store i = Some bb).
      { rewrite <- (firstn_skipn rl to_store). rewrite nth_error_app1 by (rewrite Lfirst; exact Hi'). exact Hi. }
      assert (Kmax : (2 * N.of_nat (E + i) + 1 < MAXPOS)%N) by lia.
      destruct (V i bb Hin) as [A B]. split.
      - rewrite Oth by lia. exact A.
      - intros Hx. rewrite Oth by lia. auto. }
    destruct (store_other_congr fa _ b a1 (abs_heap (Heap.frontier a1) s2) (st_eqB_sym _ _ EQ2) Pre') as (Pre2 & Ef & Es).
    pose proof (chain_acq_congr fa _ b a1 (abs_heap (Heap.frontier a1) s2) (st_eqB_sym _ _ EQ2) Pre') as Eacq.
    set (acq' := chain_acq fa (fsts val E (firstn rl to_store)) b a1) in *.
    (* the chain after this round *)
    assert (Hnin : ~ In b bl) by (apply Hdisj; left; reflexivity).
    assert (Hsame : forall x, In x bl -> forall i, 0 < i < 64 -> hword s2 (x + i) = hword s (x + i))
      by (apply (frame_blocks (hword s) (hword s2) b bl Fr2 Bb Hbl Hnin)).
    destruct (wchain_congr (hword s) (hword s2) kk link) as [EB2 _]; [intros y Hy; apply Hsame; [exact Hy|lia]|].
    assert (Hbl2 : wblocks (S kk) (hword s2) b = b :: bl) by (cbn [wblocks]; rewrite LK, EB2; reflexivity).
    assert (Ldone : List.length done = (2 * kk + 3)%nat) by (apply Hfull; discriminate).
    assert (CH2 : chain_holds (hword s2) val (E + rl) (skipn rl to_store ++ done) (S kk) b).
    { apply (chain_holds_ext _ _ _ _ _ _ link); [|exact Ldone|exact LK|exact BW|rewrite Lnext; lia].
      rewrite Lnext. replace (E + rl + (n - rl))%nat with (E + n)%nat by lia.
      eapply chain_holds_congr; [exact CH|exact Hsame]. }
    rewrite (app_assoc sv), (app_assoc c0).
    destruct (IH (firstn rl to_store) remaining _ c3 lc' _ s2 sp (Heap.frontier a1) val b fa (skipn rl to_store ++ done) (S kk) Hsf3
                ltac:(rewrite Lfirst; unfold n, to_store in *; cbn [List.length] in *; lia)
                ltac:(rewrite Lfirst; unfold n, to_store in *; cbn [List.length] in *; lia) HC3 HL3 FR2 V2)
      as (s3 & ST3 & EQ3 & R3 & Oth3 & Out3 & FR3 & WB3 & FB3 & CH3 & Fr3 & SF3).
    { rewrite Lfirst. exact Rr. }
    { exact Pre2. }
    { fold E. rewrite <- Eacq. inversion ND; assumption. }
    { rewrite Hbl2. apply Forall_cons; [exact Bb|exact Hbl]. }
    { fold E. rewrite <- Eacq, Hbl2. intros y Hy [<-|Hin].
      - inversion ND; contradiction.
      - apply (Hdisj y); [right; exact Hy|exact Hin]. }
    { rewrite Lfirst. exact CH2. }
    { intros Hne'. rewrite app_length, Lnext, Ldone.
      assert (rl <> 0)%nat by (intros H0; rewrite H0 in Hne'; apply Hne'; reflexivity). lia. }
    fold E in EQ3, R3, Oth3, WB3, FB3, CH3, Fr3. rewrite <- Eacq, Hbl2 in WB3, FB3. rewrite <- Eacq in Fr3. rewrite Lfirst in WB3, CH3.
    assert (HK : (kk + nbo n = S kk + nbo rl)%nat) by (rewrite (nbo_step n Hn1), Hrl; lia).
    assert (Hrev : rev (b :: acq') ++ bl = rev acq' ++ b :: bl) by (cbn [rev]; now rewrite <- app_assoc).
    subst K. fold n.
    exists s3. split; [|split; [|split; [|split; [|split; [|split; [|split; [|split; [|split; [|split]]]]]]]]].
    + eapply steps_app_len; eassumption.
    + destruct Es as (X1 & X2 & X3 & X4). rewrite X3.
      eapply st_eqB_trans; [exact EQ3|]. apply st_eqB_sym. split; [exact X1|]. split; [exact X2|]. split; [exact X3|exact X4].
    + rewrite Ef. exact R3.
    + intros k Hk'. rewrite Oth3 by exact Hk'. apply Oth; lia.
    + congruence.
    + exact FR3.
    + rewrite HK, Ef, Hrev. exact WB3.
    + rewrite Hrev. exact FB3.
    + rewrite HK, Ef. rewrite app_assoc, firstn_skipn in CH3. exact CH3.
    + intros a Ha Hout. rewrite Fr3; [apply Fr2; [exact Ha|apply Hout; left; reflexivity]|exact Ha|].
      intros y Hy. apply Hout. right. exact Hy.
    + eapply stack_frame_trans; [exact SF2|exact SF3].
Qed.

(* ---------- x_store of any number of variables = Heap.alloc_object, with words, chain and frame ---------- *)
Theorem x86_store_full_s pos to_store remaining lc cs lc' s sp F val :
  x_store to_store remaining lc = Ok (cs, lc') -> to_store <> [] ->
  code_at im pos cs -> labels_at im pos cs -> frame_ok s sp ->
  vals_ok s sp val (List.length remaining) to_store ->
  let E := List.length remaining in let n := List.length to_store in let k := Heap.nlinks n in
  let fields := fsts val E to_store in
  alloc_object_pre fields (abs_heap F s) ->
  NoDup (alloc_object_acq fields (abs_heap F s)) ->
  let res := Heap.alloc_object fields (abs_heap F s) in
  exists s', steps im pos s (pnth pos (List.length cs)) s' /\
    st_eqB (abs_heap (Heap.frontier (snd res)) s') (snd res) /\
    lget s' sp (tpos (2 * N.of_nat E)) = Some (fst res) /\
    (forall q, (q < 2 * N.of_nat E)%N -> lget s' sp (tpos q) = lget s sp (tpos q)) /\
    out s' = out s /\ frame_ok s' sp /\
    wblocks k (hword s') (fst res) = rev (alloc_object_acq fields (abs_heap F s)) /\
    Forall is_blk (wblocks k (hword s') (fst res)) /\
    (let A := waddrs k (hword s') (fst res) in
     (forall i b, nth_error to_store i = Some b ->
        let a := nth (List.length A - n + i) A 0 in
        hword s' a = fst_slot val (E + i) b /\ hword s' (a + 8) = snd_slot val (E + i)) /\
     (forall j, (j < List.length A - n)%nat -> hword s' (nth j A 0) = 0)) /\
    (forall a, ~ is_blk a -> (forall b, In b (alloc_object_acq fields (abs_heap F s)) -> a < b \/ b + 64 <= a) ->
       hword s' a = hword s a) /\
    stack_frame s s' sp.
Proof.
  intros Hx Hne HC HL FR V E n k fields Pre ND res. unfold x_store in Hx. fold n in Hx.
  destruct (store_fields_unfold n to_store remaining Last lc cs lc' Hne Hx) as (c0 & sv & c3 & Hc0 & Hsv & Hk & Hsf3 & ->).
  change (3 - bp_n Last)%N with 3%N in *. fold n in Hk, Hsv, Hsf3, HC, HL |- *.
  set (rl := rest_len n 3) in *.
  assert (Hrl : rl = (n - 3)%nat) by apply rest_len_val.
  assert (Lfirst : List.length (firstn rl to_store) = rl) by (rewrite firstn_length; fold n; lia).
  assert (Lnext : List.length (skipn rl to_store) = (n - rl)%nat) by (rewrite skipn_length; reflexivity).
  assert (Hn : (1 <= n)%nat) by (unfold n; destruct to_store; [contradiction|cbn; lia]).
  assert (Lrr : List.length (remaining ++ firstn rl to_store) = (E + rl)%nat) by (rewrite app_length, Lfirst; reflexivity).
  rewrite Lrr in *.
  assert (Lfields : List.length fields = n) by apply fsts_length.
  assert (Hfne : fields <> []) by (intros Hf; rewrite Hf in Lfields; cbn in Lfields; lia).
  set (P := Heap.pad 3 (Heap.lastn 3 fields)) in *.
  assert (Pre' : acq_ok (abs_heap F s) /\ chain_pre n (Heap.butlastn 3 fields) (fst (Heap.alloc P (abs_heap F s))) (snd (Heap.alloc P (abs_heap F s)))).
  { unfold alloc_object_pre in Pre. rewrite Lfields in Pre. destruct fields; [contradiction|]. exact Pre. }
  destruct Pre' as [AOK Pre'].
  assert (Hres : res = Heap.store_other n (Heap.butlastn 3 fields) (fst (Heap.alloc P (abs_heap F s))) (snd (Heap.alloc P (abs_heap F s)))).
  { unfold res, Heap.alloc_object. rewrite Lfields. fold P. destruct fields; [contradiction|]. destruct (Heap.alloc P (abs_heap F s)). reflexivity. }
  assert (Hacq : alloc_object_acq fields (abs_heap F s) = Heap.heap (abs_heap F s) ::
                   chain_acq n (Heap.butlastn 3 fields) (fst (Heap.alloc P (abs_heap F s))) (snd (Heap.alloc P (abs_heap F s)))).
  { unfold alloc_object_acq. rewrite Lfields. fold P. destruct fields; [contradiction|]. reflexivity. }
  rewrite Hres. clear Hres res. rewrite Hacq in ND |- *. clear Hacq.
  rewrite !app_assoc in HC, HL. apply code_at_app2 in HC as [HC1 HC3]. apply labels_at_app2 in HL as [HL1 HL3].
  rewrite <- !app_assoc in HC1, HL1. rewrite <- (app_assoc c0 sv) in HC3, HL3.
  destruct (x86_store_block_full_s pos Last to_store remaining lc c0 sv s sp F val 0 Hne Hc0 Hsv Hk HC1 HL1 FR V ltac:(discriminate) AOK)
    as (s2 & ST2 & EQ2 & Rr & Bb & Oth & Out & FR2 & Erv & BW & _ & Fr2 & SF2).
  change (N.to_nat (3 - bp_n Last)) with 3%nat in *. change (3 - bp_n Last)%N with 3%N in *. rewrite app_nil_r in *.
  fold E n rl fields P in ST2, EQ2, Rr, Bb, Oth, Erv, BW.
  set (b := fst (Heap.alloc P (abs_heap F s))) in *. set (a1 := snd (Heap.alloc P (abs_heap F s))) in *.
  set (rv := Heap.heap (abs_heap F s)) in *. rewrite <- Erv in BW, Fr2, ND |- *. clear Erv rv.
  assert (Hbut : Heap.butlastn 3 fields = fsts val E (firstn rl to_store)).
  { unfold Heap.butlastn. rewrite Lfields. unfold fields. rewrite fsts_firstn, Hrl. reflexivity. }
  rewrite Hbut in *.
  assert (V2 : vals_ok s2 sp val E (firstn rl to_store)).
  { intros i bb Hi. assert (Hi' : (i < rl)%nat) by (rewrite <- Lfirst; apply nth_error_Some; congruence).
    assert (Hin : nth_error to_store i = Some bb).
    { rewrite <- (firstn_skipn rl to_store). rewrite nth_error_app1 by (rewrite Lfirst; exact Hi'). exact Hi. }
    assert (Kmax : (2 * N.of_nat (E + i) + 1 < MAXPOS)%N) by lia.
    destruct (V i bb Hin) as [A B]. split.
    - rewrite Oth by lia. exact A.
    - intros Hx'. rewrite Oth by lia. auto. }
  destruct (store_other_congr n _ b a1 (abs_heap (Heap.frontier a1) s2) (st_eqB_sym _ _ EQ2) Pre') as (Pre2 & Ef & Es).
  pose proof (chain_acq_congr n _ b a1 (abs_heap (Heap.frontier a1) s2) (st_eqB_sym _ _ EQ2) Pre') as Eacq.
  set (acq' := chain_acq n (fsts val E (firstn rl to_store)) b a1) in *.
  assert (CH2 : chain_holds (hword s2) val (E + rl) (skipn rl to_store) 0 b)
    by (apply chain_holds_last; [exact BW|rewrite Lnext; lia]).
  rewrite (app_assoc sv), (app_assoc c0).
  destruct (x86_store_fields_other_full_s n (firstn rl to_store) remaining _ c3 lc' _ s2 sp (Heap.frontier a1) val b n (skipn rl to_store) 0 Hsf3
              ltac:(rewrite Lfirst; lia) ltac:(rewrite Lfirst; lia) HC3 HL3 FR2 V2)
    as (s3 & ST3 & EQ3 & R3 & Oth3 & Out3 & FR3 & WB3 & FB3 & CH3 & Fr3 & SF3).
  { rewrite Lfirst. exact Rr. }
  { exact Pre2. }
  { fold E. rewrite <- Eacq. inversion ND; assumption. }
  { cbn [wblocks]. apply Forall_cons; [exact Bb|apply Forall_nil]. }
  { fold E. rewrite <- Eacq. cbn [wblocks]. intros y Hy [<-|[]]. inversion ND; contradiction. }
  { rewrite Lfirst. exact CH2. }
  { intros Hne'. rewrite Lnext.
    assert (rl <> 0)%nat by (intros H0; rewrite H0 in Hne'; apply Hne'; reflexivity). lia. }
  fold E in EQ3, R3, Oth3, WB3, FB3, CH3, Fr3. rewrite <- Eacq in WB3, FB3, Fr3. cbn [wblocks] in WB3, FB3.
  rewrite Lfirst in WB3, CH3. rewrite firstn_skipn in CH3. cbn [Nat.add] in WB3, CH3.
  assert (HK : k = nbo rl) by (unfold k; rewrite nlinks_nbo, Hrl; reflexivity).
  rewrite <- HK, <- Ef in WB3, CH3.
  assert (Hrev : rev (b :: acq') = rev acq' ++ [b]) by reflexivity.
  exists s3. split; [|split; [|split; [|split; [|split; [|split; [|split; [|split; [|split; [|split]]]]]]]]].
  + eapply steps_app_len; eassumption.
  + destruct Es as (X1 & X2 & X3 & X4). rewrite X3.
    eapply st_eqB_trans; [exact EQ3|]. apply st_eqB_sym. split; [exact X1|]. split; [exact X2|]. split; [exact X3|exact X4].
  + rewrite Ef. exact R3.
  + intros q Hq. rewrite Oth3 by exact Hq. apply Oth; lia.
  + congruence.
  + exact FR3.
  + rewrite Hrev. exact WB3.
  + rewrite WB3. exact FB3.
  + destruct CH3 as (C1 & C2 & _). cbv zeta. fold n in C1, C2. split; [exact C1|exact C2].
  + intros a Ha Hout. rewrite Fr3; [apply Fr2; [exact Ha|apply Hout; left; reflexivity]|exact Ha|].
    intros y Hy. apply Hout. right. exact Hy.
  + eapply stack_frame_trans; [exact SF2|exact SF3].
Qed.
End StoreStk.

Print Assumptions x86_store_full_s.
