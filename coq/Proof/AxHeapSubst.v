(* The operations of a `substitute` step of the instrumented machine (Sem/AxHeap.v `subst_ops`) as a
   list of (pointer, number of copies) actions: `Backend.transpose` of a context with distinct ids
   is a permutation of the context (each binding with the targets that name it), so the actions are a
   permutation of "every non-ext entry of the environment with the number of times it is a source",
   and the pointers of the new environment are that many copies of each. *)
From Coq Require Import List ZArith NArith String Bool Lia Permutation.
From SCC Require Import Base.Sexp Lang.AxSyn Sem.AxSem Sem.AxHeap.
From SCC Require Import Model.Heap Proof.HeapMore Proof.HeapTrace Proof.HeapRep Proof.HeapRepSubst.
From SCC Require Model.Backend.
Import ListNotations.
Open Scope list_scope.

(* ---------- the order of the BTreeMap ---------- *)
Lemma ident_compare_eq a b : Backend.ident_compare a b = Datatypes.Eq -> a = b.
Proof.
  unfold Backend.ident_compare. destruct a as [s1 n1], b as [s2 n2]; cbn [fst snd].
  destruct (String.compare s1 s2) eqn:E; try discriminate. intros H.
  apply String.compare_eq_iff in E. apply N.compare_eq_iff in H. congruence.
Qed.
Lemma binding_compare_eq a b : Backend.binding_compare a b = Datatypes.Eq -> a = b.
Proof.
  unfold Backend.binding_compare. destruct (Backend.ident_compare (bvar a) (bvar b)) eqn:E1; try discriminate.
  destruct (N.compare (Backend.chi_rank (bchi a)) (Backend.chi_rank (bchi b))) eqn:E2; try discriminate.
  intros E3. apply ident_compare_eq in E1. apply N.compare_eq_iff in E2.
  destruct a as [va ca ta], b as [vb cb tb]; cbn in *. subst vb.
  assert (ca = cb) by (destruct ca, cb; cbn in E2; congruence). subst cb.
  destruct ta as [|x], tb as [|y]; cbn in E3; try discriminate; auto. apply ident_compare_eq in E3. congruence.
Qed.

Lemma map_insert_perm {V} (k : binding) (v : V) : forall m,
  ~ In k (map fst m) -> Permutation (Backend.map_insert Backend.binding_compare k v m) ((k, v) :: m).
Proof.
  induction m as [|[k' v'] m IH]; intros Hk; cbn [Backend.map_insert]; [reflexivity|].
  destruct (Backend.binding_compare k k') eqn:E.
  - apply binding_compare_eq in E. subst. exfalso. apply Hk. now left.
  - reflexivity.
  - etransitivity; [apply perm_skip, IH; intro; apply Hk; now right|apply perm_swap].
Qed.

Definition tg (re : list (binding * ident)) (b : binding) : list N :=
  map (fun p : binding * ident => idn (bvar (fst p))) (filter (fun p => N.eqb (idn (bvar b)) (idn (snd p))) re).

Lemma transpose_fold re : forall c acc,
  NoDup (c ++ map fst acc) ->
  Permutation (fold_left (fun m b => Backend.map_insert Backend.binding_compare b (tg re b) m) c acc)
              (map (fun b => (b, tg re b)) c ++ acc).
Proof.
  induction c as [|b c IH]; intros acc ND; cbn [fold_left map app]; [reflexivity|].
  cbn [app] in ND. inversion ND as [|? ? Hb ND']; subst.
  assert (Hbacc : ~ In b (map fst acc)) by (intro; apply Hb; rewrite in_app_iff; now right).
  pose proof (map_insert_perm b (tg re b) acc Hbacc) as HP.
  etransitivity; [apply IH|].
  - eapply Permutation_NoDup; [|exact ND].
    cbn [app]. etransitivity; [apply Permutation_middle|]. apply Permutation_app_head.
    change (b :: map fst acc) with (map fst ((b, tg re b) :: acc)). apply Permutation_map. symmetry. exact HP.
  - etransitivity; [apply Permutation_app_head; exact HP|]. symmetry. apply Permutation_middle.
Qed.
Lemma transpose_perm re c : NoDup c -> Permutation (Backend.transpose re c) (map (fun b => (b, tg re b)) c).
Proof.
  intros ND. unfold Backend.transpose. fold (tg re).
  change (fun (m : list (binding * list N)) (b : binding) =>
            Backend.map_insert Backend.binding_compare b
              (map (fun p : binding * ident => idn (bvar (fst p))) (filter (fun p : binding * ident => N.eqb (idn (bvar b)) (idn (snd p))) re)) m)
    with (fun (m : list (binding * list N)) (b : binding) => Backend.map_insert Backend.binding_compare b (tg re b) m).
  rewrite <- (app_nil_r (map _ c)). apply transpose_fold. cbn [map]. now rewrite app_nil_r.
Qed.

(* ---------- environments with distinct ids ---------- *)
Definition hids (he : henv) : list N := map (fun en => idn (h_id en)) he.
Lemma hids_ctx_of he : ids (ctx_of he) = hids he.
Proof. unfold ids, ctx_of, hids. rewrite map_map. reflexivity. Qed.
Lemma hids_erase he : env_ids (erase_env he) = hids he.
Proof. unfold env_ids, erase_env, hids. rewrite map_map. reflexivity. Qed.
Lemma NoDup_map_inv' {A B} (f : A -> B) l : NoDup (map f l) -> NoDup l.
Proof.
  induction l as [|a l IH]; cbn; intros H; constructor; inversion H; subst; auto.
  intro Hin. apply H2. now apply in_map.
Qed.
Lemma hlookup_in : forall he en, NoDup (hids he) -> In en he -> hlookup he (idn (h_id en)) = Some en.
Proof.
  induction he as [|e0 he IH]; intros en ND Hin; [destruct Hin|]. cbn [hlookup].
  inversion ND as [|? ? Hn ND']; subst. destruct Hin as [->|Hin]; [now rewrite N.eqb_refl|].
  destruct (N.eqb_spec (idn (h_id e0)) (idn (h_id en))) as [E|_]; [|auto].
  exfalso. apply Hn. rewrite E. unfold hids. apply in_map_iff. eauto.
Qed.
Lemma hlookup_Some : forall he x en, hlookup he x = Some en -> In en he /\ idn (h_id en) = x.
Proof.
  induction he as [|e0 he IH]; intros x en H; [discriminate|]. cbn [hlookup] in H.
  destruct (N.eqb_spec (idn (h_id e0)) x) as [E|_].
  - inversion H; subst. split; [now left|reflexivity].
  - destruct (IH _ _ H). split; [now right|assumption].
Qed.

(* ---------- the actions of a substitution ---------- *)
Definition cnt_tg (re : list (binding * ident)) (en : hentry) : nat :=
  List.length (filter (fun p : binding * ident => N.eqb (idn (h_id en)) (idn (snd p))) re).
Definition act_of (re : list (binding * ident)) (en : hentry) : list (Z * nat) :=
  match chi_of (h_val en) with AxSyn.Ext => [] | _ => [(h_ptr en, cnt_tg re en)] end.
Definition actf (he : henv) (bt : binding * list N) : list (Z * nat) :=
  match bchi (fst bt) with AxSyn.Ext => [] | _ => [(ptr_of he (idn (bvar (fst bt))), List.length (snd bt))] end.

Lemma rc_op_act k p n : rc_op k p n = match k with AxSyn.Ext => [] | _ => act_ops (p, n) end.
Proof. destruct k; reflexivity. Qed.

Lemma subst_ops_acts he re :
  subst_ops he re = flat_map act_ops (flat_map (actf he) (Backend.transpose re (ctx_of he))).
Proof.
  unfold subst_ops. induction (Backend.transpose re (ctx_of he)) as [|bt l IH]; cbn [flat_map]; auto.
  rewrite flat_map_app, IH. f_equal. rewrite rc_op_act. unfold actf. destruct (bchi (fst bt)); cbn [flat_map]; now rewrite ?app_nil_r.
Qed.

Lemma acts_perm he re :
  NoDup (hids he) ->
  Permutation (flat_map (actf he) (Backend.transpose re (ctx_of he))) (flat_map (act_of re) he).
Proof.
  intros ND.
  assert (NDc : NoDup (ctx_of he)).
  { apply (NoDup_map_inv' (fun b => idn (bvar b))). fold (ids (ctx_of he)). now rewrite hids_ctx_of. }
  etransitivity; [apply Permutation_flat_map, transpose_perm; exact NDc|].
  unfold ctx_of. rewrite map_map, flat_map_concat_map, map_map, <- flat_map_concat_map.
  rewrite (flat_map_ext_in (fun en => actf he (binding_of en, tg re (binding_of en))) (act_of re)); [reflexivity|].
  intros en Hin. unfold actf, act_of. cbn [fst snd binding_of bchi bvar].
  unfold ptr_of. rewrite hlookup_in by auto. unfold tg, cnt_tg. rewrite map_length. reflexivity.
Qed.

(* integers carry the null pointer *)
Definition ptrs_ok (he : henv) : Prop := forall en, In en he -> chi_of (h_val en) = AxSyn.Ext -> h_ptr en = 0%Z.

Lemma roots_acts he re : ptrs_ok he -> nz (map fst (flat_map (act_of re) he)) = roots he.
Proof.
  unfold roots, ptrs. induction he as [|en he IH]; intros HO; [reflexivity|]. cbn [flat_map map].
  rewrite map_app, nz_app, IH by (intros e He; apply HO; now right).
  change (h_ptr en :: map h_ptr he) with ([h_ptr en] ++ map h_ptr he). rewrite nz_app. f_equal.
  unfold act_of. destruct (chi_of (h_val en)) eqn:E; cbn [map fst]; try reflexivity.
  rewrite (HO en (or_introl eq_refl) E). reflexivity.
Qed.

Definition nzrep (p : Z) (n : nat) : list Z := if (p =? 0)%Z then [] else repeat p n.
Lemma nzrep_add p a b : nzrep p (a + b) = nzrep p a ++ nzrep p b.
Proof. unfold nzrep. destruct (p =? 0)%Z; auto. apply repeat_app. Qed.

Lemma act_roots_of he re :
  ptrs_ok he -> flat_map act_roots (flat_map (act_of re) he) = flat_map (fun en => nzrep (h_ptr en) (cnt_tg re en)) he.
Proof.
  induction he as [|en he IH]; intros HO; [reflexivity|]. cbn [flat_map]. rewrite flat_map_app, IH by (intros e He; apply HO; now right).
  f_equal. unfold act_of. destruct (chi_of (h_val en)) eqn:E; cbn [flat_map]; rewrite ?app_nil_r; try reflexivity.
  rewrite (HO en (or_introl eq_refl) E). reflexivity.
Qed.

Lemma flat_map_nil {A B} (f : A -> list B) l : (forall x, In x l -> f x = []) -> flat_map f l = [].
Proof. induction l as [|a l IH]; intros H; cbn; auto. rewrite H by now left. apply IH. intros; apply H; now right. Qed.

Lemma count_one (g : hentry -> nat) x : forall he en0,
  NoDup (hids he) -> hlookup he x = Some en0 ->
  Permutation (flat_map (fun en => nzrep (h_ptr en) ((if N.eqb (idn (h_id en)) x then 1 else 0) + g en)) he)
              (nzrep (h_ptr en0) 1 ++ flat_map (fun en => nzrep (h_ptr en) (g en)) he).
Proof.
  induction he as [|e he IH]; intros en0 ND HL; [discriminate|]. cbn [hlookup] in HL. cbn [flat_map].
  inversion ND as [|? ? Hn ND']; subst.
  destruct (N.eqb_spec (idn (h_id e)) x) as [E|E].
  - inversion HL; subst en0. rewrite nzrep_add, <- app_assoc. apply Permutation_app_head, Permutation_app_head.
    rewrite (flat_map_ext_in _ (fun en => nzrep (h_ptr en) (g en))); [reflexivity|].
    intros en Hin. destruct (N.eqb_spec (idn (h_id en)) x) as [E'|_]; auto.
    exfalso. apply Hn. rewrite E, <- E'. unfold hids. apply in_map_iff. eauto.
  - cbn [Nat.add]. etransitivity; [apply Permutation_app_head, (IH en0 ND' HL)|].
    rewrite !app_assoc. apply Permutation_app_tail. apply Permutation_app_comm.
Qed.

Lemma hsubst_roots he : NoDup (hids he) -> forall re he',
  hsubst he re = Some he' ->
  Permutation (roots he') (flat_map (fun en => nzrep (h_ptr en) (cnt_tg re en)) he).
Proof.
  intros ND. induction re as [|[nb old] re IH]; intros he' H; cbn [hsubst] in H.
  - inversion H; subst. rewrite flat_map_nil; [reflexivity|]. intros en _. unfold nzrep. cbn. now destruct (h_ptr en =? 0)%Z.
  - destruct (hlookup he (idn old)) as [en0|] eqn:HL; [|discriminate].
    destruct (hsubst he re) as [he1|]; [|discriminate]. inversion H; subst. clear H.
    specialize (IH he1 eq_refl). unfold roots, ptrs in *. cbn [map h_ptr snd].
    etransitivity; [|symmetry; etransitivity; [|apply (count_one (cnt_tg re) (idn old) he en0 ND HL)]].
    + change (nz (h_ptr en0 :: map h_ptr he1)) with (nz ([h_ptr en0] ++ map h_ptr he1)). rewrite nz_app.
      apply Permutation_app; [|exact IH]. unfold nzrep. cbn [nz filter repeat].
      destruct (h_ptr en0 =? 0)%Z; reflexivity.
    + rewrite (flat_map_ext_in _ (fun en => nzrep (h_ptr en) ((if N.eqb (idn (h_id en)) (idn old) then 1 else 0) + cnt_tg re en))); [reflexivity|].
      intros en _. unfold cnt_tg. cbn [filter snd]. destruct (N.eqb (idn (h_id en)) (idn old)); reflexivity.
Qed.

(* the entries of the new environment are entries of the old one (values and pointers) *)
Lemma hsubst_entries he : forall re he', hsubst he re = Some he' ->
  forall en', In en' he' -> exists en, In en he /\ h_val en' = h_val en /\ h_ptr en' = h_ptr en.
Proof.
  induction re as [|[nb old] re IH]; intros he' H en' Hin; cbn [hsubst] in H.
  - inversion H; subst. destruct Hin.
  - destruct (hlookup he (idn old)) as [en0|] eqn:HL; [|discriminate].
    destruct (hsubst he re) as [he1|]; [|discriminate]. inversion H; subst. clear H.
    destruct Hin as [<-|Hin]; [|eapply IH; eauto]. exists en0. split; [apply (hlookup_Some _ _ _ HL)|auto].
Qed.
